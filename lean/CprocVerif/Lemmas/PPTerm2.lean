import CprocVerif.Lemmas.PPTerm1

/-! # Termination for tables with function-like macros, part 2: the argument loop completes -/

namespace CprocVerif.PP
open CprocVerif.Gen.TokenKinds
open CprocVerif.Spec.MacroRef (HTok Item PTok MacroDef lookup)
open CprocVerif.Spec

/-- whether `collect` accepts, and where it stops, does not depend on what it has accumulated -/
theorem collect_indep (ps : List Param) : ∀ (ts : List Tok) (i paren : Nat) (cur : List Tok)
    (done args : List (List Tok)) (rest : List Tok),
    collect ps i paren cur done ts = .ok (args, rest) →
    ∀ (cur' : List Tok) (done' : List (List Tok)), ∃ args', collect ps i paren cur' done' ts = .ok (args', rest) := by
  intro ts
  induction ts with
  | nil => intro i paren cur done args rest h; simp [collect] at h
  | cons t r ih =>
    intro i paren cur done args rest h cur' done'
    unfold collect at h ⊢
    split at h
    · rename_i hc
      rw [if_pos hc]
      split at h
      · rename_i hf
        rw [if_pos hf]
        split at h
        · cases h
        · rename_i h1
          rw [if_neg h1]
          split at h
          · cases h
          · rename_i h2
            rw [if_neg h2]
            cases h
            exact ⟨_, rfl⟩
      · rename_i hf
        rw [if_neg hf]
        exact ih _ _ _ _ _ _ h _ _
    · rename_i hc
      rw [if_neg hc]
      exact ih _ _ _ _ _ _ h _ _

/-- `collect` accepts the text `L` from position `(i, paren)` and stops at `rest` -/
def CollectOK (ps : List Param) (i paren : Nat) (L rest : List Tok) : Prop :=
  ∃ cur done args, collect ps i paren cur done L = .ok (args, rest)

theorem potW_congr (ms0 : List Macro) {a b : St} (h1 : a.ctx = b.ctx) (h2 : a.macros = b.macros) : potW ms0 a = potW ms0 b := by
  simp [potW, h1, h2]

/-- **inside the replacement of a macro named in an argument, the loop gets back to the text**: if
it completes from every state in which it has (`hcont`), it completes -/
theorem inner_total (ms0 : List Macro) (hTb : TblOKS ms0) : ∀ (m : Nat) (e : EF) (st : St),
    W (tblF ms0) (liveNames st.ctx) e.t + potW ms0 st ≤ m →
    e.depth = 0 → (e.m.params.getD e.i default).ftok = true →
    GoodP ms0 st → liveNames st.ctx ≠ [] → FlatP ms0 e.t →
    (∀ t r, st.raw = t :: r → t.kind ≠ .TNEWLINE ∧ t.kind ≠ .THASH ∧ t.kind ≠ .TNONE) → st.raw ≠ [] →
    (∀ (e' : EF) (st' : St), e'.m = e.m → e'.i = e.i → e'.paren = e.paren → e'.depth = 0 →
      GoodP ms0 st' → st'.ctx = [] → st.raw = e'.t :: st'.raw → ∃ n sF, exec n (.efLoop e') st' = .ok sF) →
    ∃ n sF, exec n (.efLoop e) st = .ok sF := by
  intro m
  induction m with
  | zero =>
    intro e st hm
    have := W_pos (tblF ms0) (liveNames st.ctx) e.t
    omega
  | succ m ih =>
    intro e st hm hd0 hp g hlive hflat hhead hrne hcont
    have hne : e.t.kind ≠ .TEOF := hflat.2.1
    have hdep : 0 < st.depth := by
      rw [g.inv.depth]
      cases hh : liveNames st.ctx with
      | nil => exact absurd hh hlive
      | cons a r => simp
    have hl : ¬ st.depth ≤ e.depth := by omega
    obtain ⟨sx, hx⟩ := expand_total ms0 st e.t g hflat
    obtain ⟨gx, hrawx, hcase⟩ := expand_simP ms0 hTb 1 st sx e.t [] g hflat hx
    have hpot := expand_potP ms0 hTb 1 st sx e.t g hflat hx
    have hsb := pushEv_fields e st sx
    have gp : GoodP ms0 (pushEv e st sx) :=
      goodP_congr gx hsb.2.1 hsb.2.2.1 hsb.2.2.2.1 hsb.2.2.2.2.1 hsb.2.2.2.2.2.1
    have hrawp : (pushEv e st sx).raw = st.raw := by rw [hsb.1, hrawx]
    obtain ⟨n2, st2, ha⟩ := argLoop_total ms0 (pushEv e st sx) gp (by rw [hrawp]; exact hhead)
    obtain ⟨g2, hR⟩ := argLoopP ms0 n2 _ st2 gp (by rw [hrawp]; exact hhead) ha
    have hpsx : potW ms0 sx < W (tblF ms0) (liveNames st.ctx) e.t + potW ms0 st := by
      have := W_pos (tblF ms0) (liveNames st.ctx) e.t
      rcases hpot with ⟨_, h2⟩ | ⟨_, h2⟩ <;> omega
    -- the next iteration completes
    have hnext : ∃ n3 sF, exec n3 (.efLoop { e with cur := (if sx.rb = true then e.cur else sx.rt :: e.cur), t := st2.rt }) st2 = .ok sF := by
      cases hR with
      | ctx c1 c2 c3 c4 =>
        have hpe : potW ms0 (pushEv e st sx) = potW ms0 sx := potW_congr ms0 hsb.2.1 hsb.2.2.1
        have hsplit : potW ms0 (pushEv e st sx) = W (tblF ms0) (liveNames st2.ctx) st2.rt + potW ms0 st2 := by
          rw [potW_eq, c1, List.map_cons, List.sum_cons, wH_annHp, ← potW_eq]
        refine ih _ st2 (by show W _ _ st2.rt + _ ≤ m; omega) hd0 hp g2 c4 c2 (by rw [c3, hrawp]; exact hhead)
          (by rw [c3, hrawp]; exact hrne) ?_
        intro e' st' h1 h2 h3 h4 h5 h6 h7
        exact hcont e' st' h1 h2 h3 h4 h5 h6 (by rw [← hrawp, ← c3]; exact h7)
      | raw c1 c2 c3 =>
        exact hcont _ st2 rfl rfl rfl hd0 g2 c2 (by rw [← hrawp]; exact c1)
      | eof c1 c2 c3 c4 c5 =>
        rw [hrawp] at c2; exact absurd c2 hrne
    obtain ⟨n3, sF, h3⟩ := hnext
    refine ⟨max (max 1 n2) n3 + 1, sF, ?_⟩
    show efLoopBody (exec (max (max 1 n2) n3)) e st = .ok sF
    have hx' : exec (max (max 1 n2) n3) (.expand e.t) st = .ok sx := liftOk hx (by omega)
    have ha' : exec (max (max 1 n2) n3) (.argLoop false) (pushEv e st sx) = .ok st2 := liftOk ha (by omega)
    rw [efLoop_go (exec _) e st hne (fun hh => hl hh.1) hp sx st2 hx' ha']
    simp only [hl, ↓reduceIte, false_and]
    exact liftOk h3 (by omega)


/-- after `argnext` from a state with nothing on the stack: the next token of the text -/
theorem level_after {ms0 : List Macro} {st' st2 : St} (hc : st'.ctx = []) (hR : RawP ms0 st' st2) (hne : st'.raw ≠ []) :
    st2.ctx = [] ∧ st'.raw = st2.rt :: st2.raw := by
  cases hR with
  | ctx c1 c2 c3 c4 => simp [hc, flatG] at c1
  | raw c1 c2 c3 => exact ⟨c2, c1⟩
  | eof c1 c2 c3 c4 c5 => exact absurd c2 hne

/-- one iteration that passes over a token of an argument that is not used -/
theorem skip_one (ms0 : List Macro) (e : EF) (st : St) (g : GoodP ms0 st) (hctx : st.ctx = []) (hd0 : e.depth = 0)
    (hne : e.t.kind ≠ .TEOF) (hc : ¬ breakCond e) (hp : (e.m.params.getD e.i default).ftok = false)
    (hhead : ∀ t r, st.raw = t :: r → t.kind ≠ .TNEWLINE ∧ t.kind ≠ .THASH ∧ t.kind ≠ .TNONE) (hrne : st.raw ≠ [])
    (hnext : ∀ st2, GoodP ms0 st2 → st2.ctx = [] → st.raw = st2.rt :: st2.raw →
      ∃ n sF, exec n (.efLoop { e with depth := st.depth, paren := nextParen e, str := nextStr e, t := st2.rt }) st2 = .ok sF) :
    ∃ n sF, exec n (.efLoop e) st = .ok sF := by
  have hdep : st.depth = 0 := by rw [g.inv.depth, hctx]; rfl
  have hl : st.depth ≤ e.depth := by omega
  obtain ⟨n2, st2, ha⟩ := argLoop_total ms0 st g hhead
  obtain ⟨g2, hR⟩ := argLoopP ms0 n2 st st2 g hhead ha
  obtain ⟨h1, h2⟩ := level_after hctx hR hrne
  obtain ⟨n3, sF, h3⟩ := hnext st2 g2 h1 h2
  refine ⟨max n2 n3 + 1, sF, ?_⟩
  show efLoopBody (exec (max n2 n3)) e st = .ok sF
  rw [efLoop_skip (exec _) e st hne hl hc hp st2 (liftOk ha (by omega))]
  exact liftOk h3 (by omega)

/-- an unused argument: the loop passes over the text of a complete invocation -/
theorem skip_total (ms0 : List Macro) (psG : List Param) :
    ∀ (ts : List Tok) (iG pG : Nat) (curG : List Tok) (doneG argsG : List (List Tok)) (rest'' : List Tok),
    collect psG iG pG curG doneG ts = .ok (argsG, rest'') →
    (∀ x ∈ ts.take (ts.length - rest''.length), RawOK x) →
    (∀ t r, rest'' = t :: r → t.kind ≠ .TNEWLINE ∧ t.kind ≠ .THASH ∧ t.kind ≠ .TNONE) → rest'' ≠ [] →
    ∀ (e : EF) (st : St) (p : Nat), e.paren = p + 1 + pG → e.depth = 0 →
    (e.m.params.getD e.i default).ftok = false → GoodP ms0 st → st.ctx = [] → ts = e.t :: st.raw →
    (∀ (e' : EF) (st' : St), e'.m = e.m → e'.i = e.i → e'.paren = p → e'.depth = 0 →
      GoodP ms0 st' → st'.ctx = [] → rest'' = e'.t :: st'.raw → ∃ n sF, exec n (.efLoop e') st' = .ok sF) →
    ∃ n sF, exec n (.efLoop e) st = .ok sF := by
  intro ts
  induction ts with
  | nil => intro iG pG curG doneG argsG rest'' h; simp [collect] at h
  | cons t r ih =>
    intro iG pG curG doneG argsG rest'' h hraw hheadR hRne e st p hpar hd0 hp g hctx hts hcont
    have het : e.t = t := by cases hts; rfl
    have hsr : st.raw = r := by cases hts; rfl
    have hdep : st.depth = 0 := by rw [g.inv.depth, hctx]; rfl
    have hrl := collect_rest_lt psG _ _ _ _ _ _ _ h
    have htr : RawOK t := by
      apply hraw
      rw [show (t :: r).length - rest''.length = (r.length - rest''.length) + 1 by simp at hrl ⊢; omega, List.take_succ_cons]
      exact List.mem_cons_self ..
    have hne : e.t.kind ≠ .TEOF := by rw [het]; exact htr.2.2.2.1
    have hc : ¬ breakCond e := by
      unfold breakCond; intro hh; omega
    -- the tail of the consumed part
    have htail : ∀ {i' p' : Nat} {c' : List Tok} {d' : List (List Tok)},
        collect psG i' p' c' d' r = .ok (argsG, rest'') →
        (∀ x ∈ r.take (r.length - rest''.length), RawOK x) ∧
        (∀ t' r', r = t' :: r' → t'.kind ≠ .TNEWLINE ∧ t'.kind ≠ .THASH ∧ t'.kind ≠ .TNONE) ∧ r ≠ [] := by
      intro i' p' c' d' hh
      have hl := collect_rest_lt psG _ _ _ _ _ _ _ hh
      have h1 : ∀ x ∈ r.take (r.length - rest''.length), RawOK x := by
        intro x hx
        apply hraw
        rw [show (t :: r).length - rest''.length = (r.length - rest''.length) + 1 by simp; omega, List.take_succ_cons]
        exact List.mem_cons_of_mem _ hx
      refine ⟨h1, ?_, ?_⟩
      · intro t' r' hr
        have := take_consumed_head h1 hl t' r' hr
        exact ⟨this.1, this.2.1, this.2.2.1⟩
      · intro hh0; rw [hh0] at hl; simp at hl
    unfold collect at h
    by_cases hcG : pG = 0 ∧ (t.kind = .TRPAREN ∨ (t.kind = .TCOMMA ∧ (psG.getD iG default).fvar = false))
    · rw [if_pos hcG] at h
      obtain ⟨hp0, hkind⟩ := hcG
      subst hp0
      by_cases hf : t.kind = .TRPAREN ∨ iG + 1 = psG.length
      · rw [if_pos hf] at h
        by_cases h1 : iG + 1 < psG.length
        · rw [if_pos h1] at h; cases h
        · rw [if_neg h1] at h
          by_cases h2 : t.kind ≠ .TRPAREN
          · rw [if_pos h2] at h; cases h
          · rw [if_neg h2] at h
            have h2' : t.kind = .TRPAREN := by simpa using h2
            simp only [Except.ok.injEq, Prod.mk.injEq] at h
            obtain ⟨_, hrest⟩ := h
            subst hrest
            refine skip_one ms0 e st g hctx hd0 hne hc hp (by rw [hsr]; exact hheadR) (by rw [hsr]; exact hRne) ?_
            intro st2 g2 hc2 hr2
            refine hcont _ st2 rfl rfl ?_ hdep g2 hc2 (by rw [← hsr]; exact hr2)
            show nextParen e = p
            unfold nextParen
            rw [het, h2']
            simp; omega
      · rw [if_neg hf] at h
        have hcomma : t.kind = .TCOMMA := by
          rcases hkind with hk | hk
          · exact absurd (.inl hk) hf
          · exact hk.1
        obtain ⟨ht1, ht2, ht3⟩ := htail h
        refine skip_one ms0 e st g hctx hd0 hne hc hp (by rw [hsr]; exact ht2) (by rw [hsr]; exact ht3) ?_
        intro st2 g2 hc2 hr2
        refine ih _ _ _ _ _ _ h ht1 hheadR hRne _ st2 p ?_ hdep hp g2 hc2 (by rw [← hsr]; exact hr2) hcont
        show nextParen e = p + 1 + 0
        unfold nextParen
        rw [het, hcomma]
        simp; omega
    · rw [if_neg hcG] at h
      obtain ⟨ht1, ht2, ht3⟩ := htail h
      refine skip_one ms0 e st g hctx hd0 hne hc hp (by rw [hsr]; exact ht2) (by rw [hsr]; exact ht3) ?_
      intro st2 g2 hc2 hr2
      refine ih _ _ _ _ _ _ h ht1 hheadR hRne _ st2 p ?_ hdep hp g2 hc2 (by rw [← hsr]; exact hr2) hcont
      show nextParen e = p + 1 + (if t.kind = .TLPAREN then pG + 1 else if t.kind = .TRPAREN then pG - 1 else pG)
      unfold nextParen
      rw [het]
      by_cases hl : t.kind = .TLPAREN
      · simp [hl]; omega
      · by_cases hr : t.kind = .TRPAREN
        · have : pG ≠ 0 := by intro h0; exact hcG ⟨h0, .inl hr⟩
          simp [hl, hr]; omega
        · simp [hl, hr]; omega


/-- the argument loop completes on the text `L` (as far as `rest`) from any state at invocation level -/
def LoopTot (ms0 : List Macro) (L rest : List Tok) : Prop :=
  ∀ (e : EF) (st : St), (∀ p ∈ e.m.params, p.fvar = false) → e.depth = 0 → e.i < e.m.params.length →
    GoodP ms0 st → st.ctx = [] → L = e.t :: st.raw → CollectOK e.m.params e.i e.paren L rest →
    ∃ n sF, exec n (.efLoop e) st = .ok sF

/-- `expand` completes on an invocation in the text when the argument loop completes on its arguments -/
theorem call_total (ms0 : List Macro) (hTb : TblOKS ms0) (s1 : St) (T lp : Tok) (r' : List Tok) (F : Macro)
    (args : List (List Tok)) (rest : List Tok) (g : GoodP ms0 s1) (hctx : s1.ctx = []) (hraw : s1.raw = lp :: r')
    (h1 : T.kind = .TIDENT) (h2 : T.hide = false) (h3 : macroget ms0 (T.lit.getD []) = some F) (h4 : F.func = true)
    (h5 : lp.kind = .TLPAREN) (h6 : collect F.params 0 0 [] [] r' = .ok (args, rest)) (hok : ArgsOK ms0 r' rest)
    (hloop : LoopTot ms0 r' rest) : ∃ n s2, exec n (.expand T) s1 = .ok s2 := by
  have hmem0 := macroget_mem h3
  have hsf0 := hTb.func F hmem0.1 h4
  obtain ⟨F', hF', hs⟩ := macroget_stat_some g.stat.symm h3
  have hse := stat_eq hs
  have hsf : SimpleFunS F' := simpleFunS_of_stat hs hsf0
  have hmem := macroget_mem hF'
  have hFh : F'.hide = false := by
    cases hh : F'.hide with
    | false => rfl
    | true =>
      have := (g.inv.hideIff F' hmem.1).mp hh
      rw [hctx] at this; cases this
  have hdep : s1.depth = 0 := by rw [g.inv.depth, hctx]; rfl
  have hrl := collect_rest_lt F.params _ _ _ _ _ _ _ h6
  have gsp : GoodP ms0 { s1 with raw := r', newline := false, rt := lp, rb := true } := goodP_congr g rfl rfl rfl rfl rfl
  have hrne : r' ≠ [] := by intro hh; rw [hh] at hrl; simp at hrl
  obtain ⟨n1, st1, ha⟩ := argLoop_total ms0 _ gsp (argsOK_head hok hrl)
  obtain ⟨g1, hR⟩ := argLoopP ms0 n1 _ st1 gsp (argsOK_head hok hrl) ha
  obtain ⟨hc1, hr1⟩ := level_after (st' := { s1 with raw := r', newline := false, rt := lp, rb := true }) hctx hR hrne
  obtain ⟨n2, se, h2'⟩ := hloop
    { m := F', i := 0, depth := s1.depth, paren := 0, t := st1.rt, done := [], cur := [], str := [c! '"'] } st1
    hsf.novar hdep hsf.nonempty g1 hc1 hr1 ⟨[], [], args, by show collect F'.params 0 0 [] [] r' = _; rw [hse.2.2.1]; exact h6⟩
  refine ⟨max n1 n2 + 3 + 1 + 1, ?_⟩
  show ∃ s2, expandBody (exec (max n1 n2 + 3 + 1)) T s1 = .ok s2
  have hpk : exec (max n1 n2 + 3 + 1) .peekparen s1 = .ok { s1 with raw := r', newline := false, rt := lp, rb := true } :=
    liftOk (peekparen_lparen 0 s1 hctx lp r' hraw h5 g.prag) (by omega)
  have hef : exec (max n1 n2 + 3 + 1) (.expandfunc F') { s1 with raw := r', newline := false, rt := lp, rb := true } = .ok se := by
    show expandfuncBody (exec (max n1 n2 + 3)) F' _ = .ok se
    unfold expandfuncBody
    rw [liftOk ha (by omega)]
    simp only
    unfold efStart
    simp only [hsf.nonempty, ↓reduceIte]
    exact liftOk h2' (by omega)
  unfold expandBody
  simp only [h1, ne_eq, not_true_eq_false, ↓reduceIte, hF', hFh, Bool.false_eq_true, h2, hsf.func, hpk, hef]
  unfold pushMacro
  exact ⟨_, rfl⟩

/-- **the argument loop completes** on the text of an invocation of the class -/
theorem loopTot_of_argsOK (ms0 : List Macro) (hTb : TblOKS ms0) {L rest : List Tok} (h : ArgsOK ms0 L rest) :
    LoopTot ms0 L rest := by
  induction h with
  | done rest =>
    intro e st _ _ _ _ _ _ hco
    obtain ⟨cur, done, args, hc⟩ := hco
    have := collect_rest_lt _ _ _ _ _ _ _ _ hc
    omega
  | tok t L' rest ht _ more ih =>
    intro e st hnv hd0 hi g hctx hL hco
    have het : e.t = t := by cases hL; rfl
    have hsr : st.raw = L' := by cases hL; rfl
    obtain ⟨cur, done, args, hcol⟩ := hco
    have hdep : st.depth = 0 := by rw [g.inv.depth, hctx]; rfl
    have hl : st.depth ≤ e.depth := by omega
    have hne : e.t.kind ≠ .TEOF := by rw [het]; exact ht.2.2.2.1
    have hfv : (e.m.params.getD e.i default).fvar = false := getD_novar hnv e.i
    unfold collect at hcol
    by_cases hc : breakCond e
    · have hc' : e.paren = 0 ∧ (t.kind = .TRPAREN ∨ (t.kind = .TCOMMA ∧ (e.m.params.getD e.i default).fvar = false)) := by
        rw [← het]; exact hc
      rw [if_pos hc'] at hcol
      by_cases hf : t.kind = .TRPAREN ∨ e.i + 1 = e.m.params.length
      · rw [if_pos hf] at hcol
        have h1 : ¬ e.i + 1 < e.m.params.length := by intro hh; rw [if_pos hh] at hcol; cases hcol
        rw [if_neg h1] at hcol
        have h2 : t.kind = .TRPAREN := by
          cases hk : decide (t.kind = .TRPAREN) with
          | true => exact of_decide_eq_true hk
          | false =>
            have : t.kind ≠ .TRPAREN := of_decide_eq_false hk
            rw [if_pos this] at hcol; cases hcol
        refine ⟨1, ?_⟩
        show ∃ sF, efLoopBody (exec 0) e st = .ok sF
        rw [efLoop_finish (exec 0) e st hne hl hc (by rw [het]; exact hf)]
        unfold efFinish
        simp only [h1, ↓reduceIte, het, h2, ne_eq, not_true_eq_false]
        exact ⟨_, rfl⟩
      · rw [if_neg hf] at hcol
        have hi1 : e.i + 1 < e.m.params.length := by
          have : e.i + 1 ≠ e.m.params.length := fun hh => hf (.inr hh)
          omega
        have hrl' := collect_rest_lt _ _ _ _ _ _ _ _ hcol
        have hhead := argsOK_head more hrl'
        have hrne : L' ≠ [] := by intro hh; rw [hh] at hrl'; simp at hrl'
        obtain ⟨n2, st1, ha⟩ := argLoop_total ms0 st g (by rw [hsr]; exact hhead)
        obtain ⟨g1, hR⟩ := argLoopP ms0 n2 st st1 g (by rw [hsr]; exact hhead) ha
        obtain ⟨hc1, hr1⟩ := level_after hctx hR (by rw [hsr]; exact hrne)
        obtain ⟨n3, sF, h3⟩ := ih
          { e with depth := st.depth, done := curArg e :: e.done, i := e.i + 1, t := st1.rt, cur := [], str := [c! '"'] } st1
          hnv hdep hi1 g1 hc1 (by rw [← hsr]; exact hr1) ⟨_, _, _, by show collect _ (e.i + 1) e.paren _ _ _ = _; rw [hc.1]; exact hcol⟩
        refine ⟨max n2 n3 + 1, sF, ?_⟩
        show efLoopBody (exec (max n2 n3)) e st = .ok sF
        rw [efLoop_nextarg (exec _) e st hne hl hc (by rw [het]; exact hf) st1 (liftOk ha (by omega))]
        unfold efStart
        simp only [hi1, ↓reduceIte]
        exact liftOk h3 (by omega)
    · have hc' : ¬ (e.paren = 0 ∧ (t.kind = .TRPAREN ∨ (t.kind = .TCOMMA ∧ (e.m.params.getD e.i default).fvar = false))) := by
        rw [← het]; exact hc
      rw [if_neg hc'] at hcol
      have hcol' : collect e.m.params e.i (nextParen e) (t :: cur) done L' = .ok (args, rest) := by
        unfold nextParen; rw [het]; exact hcol
      have hrl' := collect_rest_lt _ _ _ _ _ _ _ _ hcol'
      have hhead := argsOK_head more hrl'
      have hrne : L' ≠ [] := by intro hh; rw [hh] at hrl'; simp at hrl'
      by_cases hp : (e.m.params.getD e.i default).ftok = true
      · have htf : FlatP ms0 e.t := by rw [het]; exact ht.flatP
        obtain ⟨sx, hx⟩ := expand_total ms0 st e.t g htf
        obtain ⟨gx, hrawx, hcase⟩ := expand_simP ms0 hTb 1 st sx e.t [] g htf hx
        have hsb := pushEv_fields e st sx
        have gp : GoodP ms0 (pushEv e st sx) :=
          goodP_congr gx hsb.2.1 hsb.2.2.1 hsb.2.2.2.1 hsb.2.2.2.2.1 hsb.2.2.2.2.2.1
        have hrawp : (pushEv e st sx).raw = L' := by rw [hsb.1, hrawx, hsr]
        obtain ⟨n2, st2, ha⟩ := argLoop_total ms0 (pushEv e st sx) gp (by rw [hrawp]; exact hhead)
        obtain ⟨g2, hR⟩ := argLoopP ms0 n2 _ st2 gp (by rw [hrawp]; exact hhead) ha
        have hnext : ∃ n3 sF, exec n3 (.efLoop { e with depth := st.depth, paren := nextParen e, str := (if (e.m.params.getD e.i default).fstr = true then stringize e.str e.t else e.str), cur := (if sx.rb = true then e.cur else sx.rt :: e.cur), t := st2.rt }) st2 = .ok sF := by
          cases hR with
          | ctx c1 c2 c3 c4 =>
            -- inside the replacement of the macro just pushed
            refine inner_total ms0 hTb _ _ st2 (Nat.le_refl _) hdep hp g2 c4 c2 (by rw [c3, hrawp]; exact hhead)
              (by rw [c3, hrawp]; exact hrne) ?_
            intro e' st' e1 e2 e3 e4 g' hc' hr'
            refine ih e' st' (by rw [e1]; exact hnv) e4 (by rw [e1, e2]; exact hi) g' hc' (by rw [← hrawp, ← c3]; exact hr') ?_
            rw [e1, e2, e3]
            exact ⟨_, _, _, hcol'⟩
          | raw c1 c2 c3 =>
            exact ih _ st2 hnv hdep hi g2 c2 (by rw [← hrawp]; exact c1) ⟨_, _, _, hcol'⟩
          | eof c1 c2 c3 c4 c5 =>
            rw [hrawp] at c2; exact absurd c2 hrne
        obtain ⟨n3, sF, h3⟩ := hnext
        refine ⟨max (max 1 n2) n3 + 1, sF, ?_⟩
        show efLoopBody (exec (max (max 1 n2) n3)) e st = .ok sF
        rw [efLoop_go (exec _) e st hne (fun hh => hc hh.2) hp sx st2 (liftOk hx (by omega)) (liftOk ha (by omega))]
        simp only [hl, ↓reduceIte, true_and]
        exact liftOk h3 (by omega)
      · have hpf : (e.m.params.getD e.i default).ftok = false := by
          cases hh : (e.m.params.getD e.i default).ftok <;> simp_all
        refine skip_one ms0 e st g hctx hd0 hne hc hpf (by rw [hsr]; exact hhead) (by rw [hsr]; exact hrne) ?_
        intro st2 g2 hc2 hr2
        exact ih _ st2 hnv hdep hi g2 hc2 (by rw [← hsr]; exact hr2) ⟨_, _, _, hcol'⟩
  | call G lp r'' FG argsG rest'' rest c1 c2 c3 c4 c5 c5' c6 c7 c8 _ more ih1 ih2 =>
    intro e st hnv hd0 hi g hctx hL hco
    have het : e.t = G := (List.cons.inj hL).1.symm
    have hsr : st.raw = lp :: r'' := (List.cons.inj hL).2.symm
    obtain ⟨cur, done, args, hcol⟩ := hco
    have hdep : st.depth = 0 := by rw [g.inv.depth, hctx]; rfl
    have hl : st.depth ≤ e.depth := by omega
    have hne : e.t.kind ≠ .TEOF := by rw [het, c1]; decide
    have hc : ¬ breakCond e := by
      unfold breakCond; rw [het, c1]; simp
    have hnp : nextParen e = e.paren := by unfold nextParen; rw [het, c1]; simp
    have hFGsf := hTb.func FG (macroget_mem c3).1 c4
    -- `collect` over the text of the nested invocation
    have hcol2 : collect e.m.params e.i e.paren
        ((r''.take (r''.length - rest''.length)).reverse ++ lp :: G :: cur) done rest'' = .ok (args, rest) := by
      rw [collect] at hcol
      have hnb1 : ¬ (e.paren = 0 ∧ (G.kind = .TRPAREN ∨ (G.kind = .TCOMMA ∧ (e.m.params.getD e.i default).fvar = false))) := by
        rw [c1]; simp
      rw [if_neg hnb1] at hcol
      simp only [c1] at hcol
      rw [collect] at hcol
      have hnb : ¬ (e.paren = 0 ∧ (lp.kind = .TRPAREN ∨ (lp.kind = .TCOMMA ∧ (e.m.params.getD e.i default).fvar = false))) := by
        rw [c5]; simp
      simp only [show ¬ (Kind.TIDENT = Kind.TLPAREN) by decide, show ¬ (Kind.TIDENT = Kind.TRPAREN) by decide, ↓reduceIte] at hcol
      rw [if_neg hnb] at hcol
      simp only [c5, ↓reduceIte] at hcol
      have := collect_skip FG.params e.m.params hFGsf.novar r'' 0 0 [] [] argsG rest'' c6 e.i e.paren (lp :: G :: cur) done
      rw [← this]; exact hcol
    have hrl2 := collect_rest_lt _ _ _ _ _ _ _ _ hcol2
    have hhead2 := argsOK_head more hrl2
    have hrne2 : rest'' ≠ [] := by intro hh; rw [hh] at hrl2; simp at hrl2
    by_cases hp : (e.m.params.getD e.i default).ftok = true
    · obtain ⟨n1, sx, hx⟩ := call_total ms0 hTb st e.t lp r'' FG argsG rest'' g hctx hsr (by rw [het]; exact c1)
        (by rw [het]; exact c2) (by rw [het]; exact c3) c4 c5 c6 c7 ih1
      obtain ⟨gx, hrawx, hrbx, hflx, _⟩ := callSpec_all ms0 hTb n1 st sx e.t lp r'' FG argsG rest'' g hctx hsr
        (by rw [het]; exact c1) (by rw [het]; exact c2) (by rw [het]; exact c3) c4 c5 c5' c6 c7 c8 hx
      have hsb := pushEv_fields e st sx
      have gp : GoodP ms0 (pushEv e st sx) :=
        goodP_congr gx hsb.2.1 hsb.2.2.1 hsb.2.2.2.1 hsb.2.2.2.2.1 hsb.2.2.2.2.2.1
      have hrawp : (pushEv e st sx).raw = rest'' := by rw [hsb.1, hrawx]
      obtain ⟨n2, st2, ha⟩ := argLoop_total ms0 (pushEv e st sx) gp (by rw [hrawp]; exact hhead2)
      obtain ⟨g2, hR⟩ := argLoopP ms0 n2 _ st2 gp (by rw [hrawp]; exact hhead2) ha
      have hnext : ∃ n3 sF, exec n3 (.efLoop { e with depth := st.depth, paren := nextParen e, str := (if (e.m.params.getD e.i default).fstr = true then stringize e.str e.t else e.str), cur := (if sx.rb = true then e.cur else sx.rt :: e.cur), t := st2.rt }) st2 = .ok sF := by
        cases hR with
        | ctx k1 k2 k3 k4 =>
          refine inner_total ms0 hTb _ _ st2 (Nat.le_refl _) hdep hp g2 k4 k2 (by rw [k3, hrawp]; exact hhead2)
            (by rw [k3, hrawp]; exact hrne2) ?_
          intro e' st' e1 e2 e3 e4 g' hc' hr'
          refine ih2 e' st' (by rw [e1]; exact hnv) e4 (by rw [e1, e2]; exact hi) g' hc' (by rw [← hrawp, ← k3]; exact hr') ?_
          rw [e1, e2, e3]
          exact ⟨_, _, _, by rw [hnp]; exact hcol2⟩
        | raw k1 k2 k3 =>
          exact ih2 _ st2 hnv hdep hi g2 k2 (by rw [← hrawp]; exact k1) ⟨_, _, _, by show collect _ _ (nextParen e) _ _ _ = _; rw [hnp]; exact hcol2⟩
        | eof k1 k2 k3 k4 k5 =>
          rw [hrawp] at k2; exact absurd k2 hrne2
      obtain ⟨n3, sF, h3⟩ := hnext
      refine ⟨max (max n1 n2) n3 + 1, sF, ?_⟩
      show efLoopBody (exec (max (max n1 n2) n3)) e st = .ok sF
      rw [efLoop_go (exec _) e st hne (fun hh => hc hh.2) hp sx st2 (liftOk hx (by omega)) (liftOk ha (by omega))]
      simp only [hl, ↓reduceIte, true_and]
      exact liftOk h3 (by omega)
    · -- the argument is not used: the text of the invocation is passed over
      have hpf : (e.m.params.getD e.i default).ftok = false := by
        cases hh : (e.m.params.getD e.i default).ftok <;> simp_all
      have hrl6 := collect_rest_lt _ _ _ _ _ _ _ _ c6
      have hr''ne : r'' ≠ [] := by intro hh; rw [hh] at hrl6; simp at hrl6
      have hlphead : ∀ t r, st.raw = t :: r → t.kind ≠ .TNEWLINE ∧ t.kind ≠ .THASH ∧ t.kind ≠ .TNONE := by
        intro t r hh; rw [hsr] at hh; cases hh
        rw [c5]; exact ⟨by decide, by decide, by decide⟩
      refine skip_one ms0 e st g hctx hd0 hne hc hpf hlphead (by rw [hsr]; simp) ?_
      intro st2 g2 hc2 hr2
      rw [hsr] at hr2
      have hlp2 : st2.rt = lp := by cases hr2; rfl
      have hraw2 : st2.raw = r'' := by cases hr2; rfl
      -- at `(`
      have hne2 : ({ e with depth := st.depth, paren := nextParen e, str := nextStr e, t := st2.rt } : EF).t.kind ≠ .TEOF := by
        show st2.rt.kind ≠ _; rw [hlp2, c5]; decide
      have hc2' : ¬ breakCond ({ e with depth := st.depth, paren := nextParen e, str := nextStr e, t := st2.rt } : EF) := by
        unfold breakCond
        show ¬ (nextParen e = 0 ∧ (st2.rt.kind = .TRPAREN ∨ _))
        rw [hlp2, c5]; simp
      refine skip_one ms0 _ st2 g2 hc2 hdep hne2 hc2' hpf (by rw [hraw2]; exact argsOK_head c7 hrl6) (by rw [hraw2]; exact hr''ne) ?_
      intro st3 g3 hc3 hr3
      rw [hraw2] at hr3
      have hdep2 : st2.depth = 0 := by rw [g2.inv.depth, hc2]; rfl
      refine skip_total ms0 FG.params r'' 0 0 [] [] argsG rest'' c6 c7.raw hhead2 hrne2 _ st3 e.paren ?_ hdep2 hpf g3 hc3 hr3 ?_
      · show nextParen ({ e with depth := st.depth, paren := nextParen e, str := nextStr e, t := st2.rt } : EF) = e.paren + 1 + 0
        unfold nextParen
        show (if st2.rt.kind = .TLPAREN then _ else _) = _
        rw [hlp2, c5]
        simp only [↓reduceIte]
        show nextParen e + 1 = _
        rw [hnp]
      · intro e' st' e1 e2 e3 e4 g' hc' hr'
        refine ih2 e' st' (by rw [e1]; exact hnv) e4 (by rw [e1, e2]; exact hi) g' hc' hr' ?_
        rw [e1, e2, e3]
        exact ⟨_, _, _, hcol2⟩

end CprocVerif.PP

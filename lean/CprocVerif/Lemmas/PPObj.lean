import CprocVerif.Lemmas.PPInv
import CprocVerif.Lemmas.PPString

/-! # Object-like macro sets: the model is the hide-set algorithm

Part A: for a table of object-like macros and input without directives, one pass through the
loop of `next()` is a pure function of the state (`stepObj`); `exec` unfolds to it. -/

namespace CprocVerif.PP
open CprocVerif.Gen.TokenKinds

def ObjOnly (ms : List Macro) : Prop := ∀ m ∈ ms, m.func = false

/-- no `#` (so no directive), no scanner diagnostic, and the final `TEOF` is left to the scanner -/
def Plain (raw : List Tok) : Prop := ∀ t ∈ raw, t.kind ≠ .THASH ∧ t.kind ≠ .TNONE ∧ t.kind ≠ .TEOF

theorem popDone_top : ∀ (ctx : List Frame) (ms : List Macro) (d : Nat) (f : Frame) (rest : List Frame),
    (popDone ctx ms d).1 = f :: rest → f.toks ≠ []
  | [], ms, d, f, rest, h => by unfold popDone at h; cases h
  | g :: r, ms, d, f, rest, h => by
    unfold popDone at h
    split at h
    · split at h
      · exact popDone_top r _ _ f rest h
      · exact popDone_top r _ _ f rest h
    · rename_i hemp
      cases h
      intro he; apply hemp; simp [he]

theorem popDone_objOnly : ∀ (ctx : List Frame) (ms : List Macro) (d : Nat), ObjOnly ms → ObjOnly (popDone ctx ms d).2.1
  | [], ms, d, h => by unfold popDone; exact h
  | g :: r, ms, d, h => by
    unfold popDone
    split
    · split
      · apply popDone_objOnly
        intro x hx
        obtain ⟨m, hm, rfl⟩ := mem_setHide hx
        split <;> exact h m hm
      · exact popDone_objOnly r ms d h
    · exact h

/-- `ctxnext()` on a table of object-like macros -/
def ctxnextObj (st0 : St) : St :=
  let p := popDone st0.ctx st0.macros st0.depth
  let st : St := { st0 with ctx := p.1, macros := p.2.1, depth := p.2.2 }
  match st.ctx with
  | [] => { st with rb := false }
  | f :: rest =>
    match f.toks with
    | [] => st
    | t :: more => { st with ctx := { f with toks := more } :: rest, rb := true, rt := t }

theorem macroget_mem {ms : List Macro} {n : Name} {m : Macro} (h : macroget ms n = some m) : m ∈ ms ∧ m.name = n := by
  unfold macroget at h
  exact ⟨List.mem_of_find?_eq_some h, by simpa using List.find?_some h⟩

theorem ctxnextStep_obj (st0 : St) (h : ObjOnly st0.macros) : ctxnextStep st0 = .done (.ok (ctxnextObj st0)) := by
  unfold ctxnextStep ctxnextObj
  have ho := popDone_objOnly st0.ctx st0.macros st0.depth h
  have ht := popDone_top st0.ctx st0.macros st0.depth
  simp only
  cases hctx : (popDone st0.ctx st0.macros st0.depth).1 with
  | nil => rfl
  | cons f rest =>
    have hne := ht f rest hctx
    simp only
    cases htoks : f.toks with
    | nil => exact absurd htoks hne
    | cons t more =>
      simp only
      cases hm : f.mac.bind (macroget (popDone st0.ctx st0.macros st0.depth).2.1) with
      | none => rfl
      | some m =>
        have hmem : m ∈ (popDone st0.ctx st0.macros st0.depth).2.1 := by
          cases hf : f.mac with
          | none => rw [hf] at hm; cases hm
          | some n => rw [hf] at hm; exact (macroget_mem hm).1
        have : m.func = false := ho m hmem
        simp [this]

theorem ctxnext_obj (n : Nat) (st : St) (h : ObjOnly st.macros) :
    exec (n + 1) .ctxnext st = .ok (ctxnextObj st) := by
  show ctxnextBody (exec n) st = _
  unfold ctxnextBody
  rw [ctxnextStep_obj st h]

/-- `rawnext()` on a table of object-like macros and plain input -/
def rawnextObj (st : St) : St :=
  let s1 := ctxnextObj st
  if s1.rb then s1
  else match s1.raw with
    | [] => { s1 with newline := false, rt := eofTok }
    | t :: r => { s1 with raw := r, newline := decide (t.kind = .TNEWLINE), rt := t }

theorem ctxnextObj_raw (st : St) : (ctxnextObj st).raw = st.raw := by
  unfold ctxnextObj
  simp only
  split
  · rfl
  · split <;> rfl

theorem rawnext_obj (n : Nat) (st : St) (h : ObjOnly st.macros) (hp : Plain st.raw) :
    exec (n + 2) .rawnext st = .ok (rawnextObj st) := by
  show rawnextBody (exec (n + 1)) st = _
  unfold rawnextBody
  rw [ctxnext_obj n st h]
  unfold rawnextObj
  simp only
  cases hrb : (ctxnextObj st).rb with
  | true => rfl
  | false =>
    simp only [Bool.false_eq_true, ↓reduceIte]
    show nextintoBody (exec n) (ctxnextObj st) = _
    unfold nextintoBody scanTok
    have hr := ctxnextObj_raw st
    cases hraw : (ctxnextObj st).raw with
    | nil => simp [eofTok, hraw, hrb]
    | cons t r =>
      have ht := hp t (by rw [← hr, hraw]; exact List.mem_cons_self ..)
      simp [ht.1, ht.2.1, hrb]

/-- `expand(&t)` on a table of object-like macros -/
def expandObj (t : Tok) (st : St) : St :=
  if t.kind ≠ .TIDENT then { st with rb := false, rt := t }
  else
    match macroget st.macros (t.lit.getD []) with
    | none => { st with rb := false, rt := { t with hide := true } }
    | some m =>
      if m.hide ∨ t.hide then { st with rb := false, rt := { t with hide := true } }
      else
        let st1 : St := if m.body.isEmpty ∧ t.space then st.ev .emptySpace else st
        { st1 with ctx := ⟨respace m.body t.space, some m.name⟩ :: st1.ctx,
                   macros := setHide st1.macros m.name true, depth := st1.depth + 1, rb := true, rt := t }

theorem expand_obj (n : Nat) (t : Tok) (st : St) (h : ObjOnly st.macros) :
    exec (n + 1) (.expand t) st = .ok (expandObj t st) := by
  show expandBody (exec n) t st = _
  unfold expandBody expandObj
  by_cases hk : t.kind ≠ .TIDENT
  · simp only [hk, ne_eq, not_false_eq_true, ↓reduceIte]
  · simp only [hk, ↓reduceIte]
    cases hm : macroget st.macros (t.lit.getD []) with
    | none => rfl
    | some m =>
      have hf : m.func = false := h m (macroget_mem hm).1
      simp only [hf, Bool.false_eq_true, ↓reduceIte]
      by_cases hh : m.hide = true
      · simp [hh]
      · by_cases hth : t.hide = true
        · have : ({ t with hide := true } : Tok) = t := by cases t; simp_all
          simp [hh, hth, this]
        · simp only [hh, Bool.false_eq_true, ↓reduceIte, hth, or_self]
          unfold pushMacro
          rfl

/-- one pass through the `do … while` of `next()` -/
def stepObj (st : St) : St := let s1 := rawnextObj st; expandObj s1.rt s1

/-- does the loop go round again? -/
def again (s : St) : Prop := s.rb = true ∨ (s.rt.kind = .TNEWLINE ∧ s.ppnl = false)
instance (s : St) : Decidable (again s) := by unfold again; infer_instance

theorem rawnextObj_macros_obj (st : St) (h : ObjOnly st.macros) : ObjOnly (rawnextObj st).macros := by
  have ho := popDone_objOnly st.ctx st.macros st.depth h
  unfold rawnextObj ctxnextObj
  simp only
  split <;> split <;> (try split) <;> (try split) <;> exact ho

theorem next_obj (n : Nat) (st : St) (h : ObjOnly st.macros) (hp : Plain st.raw) :
    exec (n + 3) .next st =
      if again (stepObj st) then exec (n + 2) .next (stepObj st)
      else .ok { stepObj st with tok := toKeyword (stepObj st).rt } := by
  show nextBody (exec (n + 2)) st = _
  unfold nextBody
  rw [rawnext_obj n st h hp]
  simp only
  rw [expand_obj (n + 1) _ _ (rawnextObj_macros_obj st h)]
  rfl

theorem next_low (st : St) : exec 0 .next st = .error .fuel ∧ exec 1 .next st = .error .fuel ∧
    exec 2 .next st = .error .fuel := ⟨rfl, rfl, rfl⟩

end CprocVerif.PP

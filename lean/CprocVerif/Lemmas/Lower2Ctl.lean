/-
  C01, fragment 𝔽₂ — control at statement level: the static data of one function (`Stat`), positions and
  labels in the assembled item list, how a block ends (fall through, `jmp`, `jnz`, `ret`), the
  postcondition `Post` of a simulated statement, and the simulation of an expression / a controlling
  expression placed between statements.
-/
import CprocVerif.Lemmas.Lower2Mem
import CprocVerif.Lemmas.Lower2StmtStruct
import CprocVerif.Lemmas.LowerMain

set_option linter.unusedSimpArgs false

namespace CprocVerif.LowerMach2
open CprocVerif.Qbe CprocVerif.Lower CprocVerif.Lower2 CprocVerif.CSem CprocVerif.CSem2 CprocVerif.CInt
open CprocVerif.LowerArith CprocVerif.LowerMach CprocVerif.LowerMem

/-- What `ret` does once the returned value is known and the frame has been released (the tail of
    `Qbe.stepRet`): the outermost activation ends the run, otherwise the caller continues after its `call`. -/
def retCont (p : Prog) (rest : List Qbe.Frame) (mem : Mem) (trace : Array String) (rv : RetVal) : Step :=
  match rest with
  | [] => .done (.ret rv) trace
  | caller :: rest' =>
    match caller.curIns with
    | some (.call res _ _ _) =>
      match bindCallRes p caller.env mem res rv with
      | .error e => .done e.toEnd trace
      | .ok (env', mem') =>
        .next ⟨{ caller with env := env', ii := caller.ii + 1 } :: rest', mem', trace⟩
    | _ => .done (.stuck (.other "internal: return to a non-call")) trace

theorem stepRet_eq {p : Prog} {fr : Qbe.Frame} {rest : List Qbe.Frame} {mem : Mem} {trace : Array String}
    {v : Option RVal} {rv : RetVal} (h : retValue p fr mem v = .ok rv) :
    stepRet p fr rest mem trace v = retCont p rest (mem.popTo fr.stackMark fr.spMark) trace rv := by
  unfold stepRet retCont
  rw [h]
  rfl

theorem step_ret_fix {p : Prog} {ext : Qbe.Ext} (x : Fix) {env : Env} {M : Mem} {bi ii : Nat} {b : Block}
    {val : Val} {r : RVal} {rv : RetVal}
    (hb : x.fi.f.blocks[bi]? = some b) (hi : b.ins.size = ii) (ht : b.term = some (.ret (some val)))
    (hval : readVal p env val = .ok r) (hrv : retValue p (mkFr x env bi ii) M (some r) = .ok rv) :
    step p ext (mkSt x env M bi ii) = retCont p x.rest (M.popTo x.sm x.spm) x.tr rv := by
  simp only [step, mkSt, mkFr, hb, ins_none_of_size hi, stepTerm, ht, hval]
  exact stepRet_eq hrv

/-- Room on the IL stack for `d` more activations of functions with at most `K` variables. -/
def Room (K d : Nat) (M : Mem) : Prop :=
  stackLimit + 64 + d * (64 + 32 * K) ≤ M.sp ∧ M.stack.size + d * (K + 1) < 2 ^ 64

/-- Static data of the simulation of one activation: the assembled items (`S`, whose memory field is
    irrelevant), the final slot map, the types of all variables (and how many elements each has), the return
    type; the program `P` whose
    functions a call may name and where the IL program has them; the memory `M0` at the call (the marks of
    the frame are taken from it); room for `d` nested calls of functions with at most `K` cells (variables and
    further array elements). -/
structure Stat where
  S : Sit
  σ : List Nat
  vtys : List CSem.Ty
  ret : CSem.Ty
  hret : S.x.fi.f.ret = some (.base (cls ret))
  P : List CSem2.Func
  M0 : Mem
  hsm : S.x.sm = M0.stack.size
  hspm : S.x.spm = M0.sp
  /-- number of elements of every variable -/
  cnts : List Nat
  /-- the read-only array parameters: element type, length, first cell of the elements seen -/
  W : List (CSem.Ty × Nat × Nat)
  K : Nat
  d : Nat
  hK : vtys.length + xcount cnts cnts.length ≤ K
  hroom : Room K (d + 1) M0
  hfuncs : ∀ fn g, lookup P fn = some g →
    ∃ sid, S.p.funcs[fn]? = some (FuncInfo.of (Lower2.emitFunc S.cs sid g))
  hP : ∀ fn g, lookup P fn = some g → CSem2.WT g ∧ callsOK P g.body = true ∧ g.vtys.length + g.extra ≤ K

/-- the step of a `ret` delivering `r` -/
def Stat.exit (T : Stat) (r : RVal) : Step := retCont T.S.p T.S.x.rest T.M0 T.S.x.tr (.scalar r)

/-- machine state at the position after the items `pre` -/
def Stat.at (T : Stat) (env : Env) (M : Mem) (pre : List Item) : State := (setM T.S M).at env pre

theorem Stat.at_def (T : Stat) (env : Env) (M : Mem) (pre : List Item) :
    T.at env M pre = mkSt T.S.x env M (posOf T.S.o0 pre).1 (posOf T.S.o0 pre).2 := rfl

abbrev Stat.Reach (T : Stat) (n : Nat) (a b : State) : Prop := LowerMach.Reach T.S.p T.S.ext n a b

/-! ## Labels -/

/-- `l` is the label of a block without phi -/
def CanJump (S : Sit) (l : String) : Prop :=
  ∃ j b, S.x.fi.labelIdx[l]? = some j ∧ S.x.fi.f.blocks[j]? = some b ∧ b.phis = []

/-- `st` is the entry of the block labelled `l` -/
def AtLabel (S : Sit) (l : String) (env : Env) (M : Mem) (st : State) : Prop :=
  ∃ j, S.x.fi.labelIdx[l]? = some j ∧ st = mkSt S.x env M j 0

theorem canJump_item (S : Sit) {pre post : List Item} {t : Option Jump} {l : String}
    (hits : S.its = pre ++ .lbl t l [] :: post) : CanJump S l := by
  obtain ⟨b', h1, _, h3, h4⟩ := S.target hits
  exact ⟨_, b', h4, h1, h3⟩

theorem atLabel_item (T : Stat) {pre post : List Item} {t : Option Jump} {l : String} {ph : List Phi}
    (hits : T.S.its = pre ++ .lbl t l ph :: post) {env : Env} {M : Mem} {st : State}
    (h : AtLabel T.S l env M st) : st = T.at env M (pre ++ [.lbl t l ph]) := by
  obtain ⟨j, hj, rfl⟩ := h
  obtain ⟨b', _, _, _, h4⟩ := T.S.target hits
  rw [h4] at hj
  cases hj
  rw [Stat.at_def, posOf_lbl]

theorem atLabel_of_item (T : Stat) {pre post : List Item} {t : Option Jump} {l : String} {ph : List Phi}
    (hits : T.S.its = pre ++ .lbl t l ph :: post) (env : Env) (M : Mem) :
    AtLabel T.S l env M (T.at env M (pre ++ [.lbl t l ph])) := by
  obtain ⟨b', _, _, _, h4⟩ := T.S.target hits
  exact ⟨_, h4, by rw [Stat.at_def, posOf_lbl]⟩

/-! ## How a block ends -/

theorem step_fall_item (T : Stat) {pre post : List Item} {l : String}
    (hits : T.S.its = pre ++ .lbl none l [] :: post) (env : Env) (M : Mem) :
    step T.S.p T.S.ext (T.at env M pre) = .next (T.at env M (pre ++ [.lbl none l []])) := by
  obtain ⟨b, hb, hsz, hterm, _⟩ := T.S.term_at hits
  obtain ⟨b', hb', _, hph, _⟩ := T.S.target hits
  rw [Stat.at_def, Stat.at_def, posOf_lbl, step_fall T.S.x hb hsz hterm]
  exact goto_nophi T.S.x hb' hph

theorem step_jmp_item (T : Stat) {pre post : List Item} {l l' : String} {ph : List Phi}
    (hits : T.S.its = pre ++ .lbl (some (.jmp l')) l ph :: post) (hl : CanJump T.S l') (env : Env) (M : Mem) :
    ∃ st, step T.S.p T.S.ext (T.at env M pre) = .next st ∧ AtLabel T.S l' env M st := by
  obtain ⟨b, hb, hsz, hterm, _⟩ := T.S.term_at hits
  obtain ⟨j, tb, hj, htb, hph⟩ := hl
  refine ⟨mkSt T.S.x env M j 0, ?_, j, hj, rfl⟩
  rw [Stat.at_def, step_jmp T.S.x hb hsz hterm hj]
  exact goto_nophi T.S.x htb hph

theorem step_jnz_item (T : Stat) {pre post : List Item} {l a z : String} {ph : List Phi} {v : Val}
    (hits : T.S.its = pre ++ .lbl (some (.jnz v a z)) l ph :: post) (ha : CanJump T.S a)
    (hz : CanJump T.S z) {env : Env} (M : Mem) {c : RVal} {w : UInt64}
    (hv : readVal T.S.p env v = .ok c) (hc : c.asW = .ok w) :
    ∃ st, step T.S.p T.S.ext (T.at env M pre) = .next st ∧
      AtLabel T.S (if w != 0 then a else z) env M st := by
  obtain ⟨b, hb, hsz, hterm, _⟩ := T.S.term_at hits
  have hl : CanJump T.S (if w != 0 then a else z) := by split <;> assumption
  obtain ⟨j, tb, hj, htb, hph⟩ := hl
  refine ⟨mkSt T.S.x env M j 0, ?_, j, hj, rfl⟩
  rw [Stat.at_def, step_jnz T.S.x hb hsz hterm hv hc hj]
  exact goto_nophi T.S.x htb hph

theorem step_ret_item (T : Stat) {pre post : List Item} {l : String} {ph : List Phi} {val : Val}
    (hits : T.S.its = pre ++ .lbl (some (.ret (some val))) l ph :: post) {env : Env} (M : Mem)
    {r r' : RVal} (hval : readVal T.S.p env val = .ok r) (hco : r.coerce (cls T.ret) = .ok r')
    (hpop : M.popTo T.M0.stack.size T.M0.sp = T.M0) :
    step T.S.p T.S.ext (T.at env M pre) = T.exit r' := by
  obtain ⟨b, hb, hsz, hterm, _⟩ := T.S.term_at hits
  rw [Stat.at_def]
  have hrv : retValue T.S.p (mkFr T.S.x env (posOf T.S.o0 pre).1 (posOf T.S.o0 pre).2) M (some r) =
      .ok (.scalar r') := by
    simp only [retValue, mkFr, T.hret, Ty.cls, hco, bind, Except.bind, pure, Except.pure]
  rw [step_ret_fix T.S.x hb hsz hterm hval hrv, T.hsm, T.hspm, hpop]
  rfl

theorem step_ret_end (T : Stat) {pre : List Item} (hits : T.S.its = pre) {val : Val}
    (hft : T.S.ft = .ret (some val)) {env : Env} (M : Mem)
    {r r' : RVal} (hval : readVal T.S.p env val = .ok r) (hco : r.coerce (cls T.ret) = .ok r')
    (hpop : M.popTo T.M0.stack.size T.M0.sp = T.M0) :
    step T.S.p T.S.ext (T.at env M pre) = T.exit r' := by
  obtain ⟨b, hb, hsz, hterm⟩ := T.S.end_at hits
  rw [Stat.at_def]
  have hrv : retValue T.S.p (mkFr T.S.x env (posOf T.S.o0 pre).1 (posOf T.S.o0 pre).2) M (some r) =
      .ok (.scalar r') := by
    simp only [retValue, mkFr, T.hret, Ty.cls, hco, bind, Except.bind, pure, Except.pure]
  rw [step_ret_fix T.S.x hb hsz (hterm.trans (congrArg some hft)) hval hrv, T.hsm, T.hspm, hpop]
  rfl

/-- an instruction without result (a `store`) -/
theorem run_nores (T : Stat) {pre post : List Item} {o : Op} {args : List Val} {env : Env} {M M' : Mem}
    {vs : List RVal} {v : RVal}
    (hits : T.S.its = pre ++ .ins (.op none o args) :: post)
    (hr : readVals T.S.p env args = .ok vs) (hx : execOp o none vs M none = .ok (v, M')) :
    T.Reach 1 (T.at env M pre) (T.at env M' (pre ++ [.ins (.op none o args)])) := by
  obtain ⟨b, hb, hi⟩ := ins_at T.S.ft T.S.o0 pre post (.op none o args)
  rw [← hits, ← T.S.block_get] at hb
  apply Reach.one
  rw [Stat.at_def, Stat.at_def, posOf_ins]
  exact step_op_nores T.S.x hb hi hr hx

/-! ## Position of the lowering inside the function -/

/-- The lowering context `c` before a statement placed after `pre`, when `nd` variables are declared. -/
structure Pos (T : Stat) (c : SCtx) (nd : Nat) (pre : List Item) : Prop where
  jump : c.jump = none
  cur : curOf T.S.o0 pre = c.cur
  curOK : CurOK c.ctx
  nslots : c.slots.length = nd
  le : ∀ i, i < nd → c.slots.getD i 0 ≤ c.lastid

/-- The context `o` is compatible with the final slot map: its slots are a prefix, the later slots
    are numbered above `o.lastid`. -/
def Ext (T : Stat) (o : SCtx) : Prop :=
  (∀ i, i < o.slots.length → T.σ.getD i 0 = o.slots.getD i 0) ∧
  (∀ k, o.slots.length ≤ k → k < T.vtys.length → o.lastid < T.σ.getD k 0)

theorem getD_append_left (a b : List Nat) {i : Nat} (h : i < a.length) : (a ++ b).getD i 0 = a.getD i 0 := by
  simp [List.getD, List.getElem?_append_left h]

theorem getD_append_right (a b : List Nat) {i : Nat} (h : a.length ≤ i) :
    (a ++ b).getD i 0 = b.getD (i - a.length) 0 := by
  simp [List.getD, List.getElem?_append_right h]

theorem getD_mem {l : List Nat} {i : Nat} (h : i < l.length) : l.getD i 0 ∈ l := by
  have : l.getD i 0 = l[i] := by simp [List.getD, List.getElem?_eq_getElem h]
  rw [this]; exact List.getElem_mem h

/-- the context before a step whose new slots are numbered after it -/
theorem Ext.before {T : Stat} {o1 o2 : SCtx} (h : Ext T o2) {new : List Nat}
    (hs : o2.slots = o1.slots ++ new) (hnew : ∀ sl ∈ new, o1.lastid < sl) (hl : o1.lastid ≤ o2.lastid) :
    Ext T o1 := by
  constructor
  · intro i hi
    rw [h.1 i (by rw [hs, List.length_append]; omega), hs, getD_append_left _ _ hi]
  · intro k hk hkv
    by_cases hk2 : k < o2.slots.length
    · rw [h.1 k hk2, hs, getD_append_right _ _ hk]
      apply hnew
      apply getD_mem
      rw [hs, List.length_append] at hk2
      omega
    · have := h.2 k (by omega) hkv
      omega

/-- a run that only changes temporaries in `(c.lastid, hi]` keeps the slot temporaries -/
theorem slots_kept {T : Stat} {c : SCtx} {nd : Nat} {pre : List Item} (hp : Pos T c nd pre) {hi : Nat}
    (hpre : ∀ i, i < nd → T.σ.getD i 0 = c.slots.getD i 0)
    (hfut : ∀ k, nd ≤ k → k < T.vtys.length → hi < T.σ.getD k 0)
    {env env' : Env} (hf : Frame c.lastid hi env env') :
    ∀ k, k < T.vtys.length → env'[tmpName (T.σ.getD k 0)]? = env[tmpName (T.σ.getD k 0)]? := by
  intro k hk
  apply hf
  by_cases hkn : k < nd
  · left; rw [hpre k hkn]; exact hp.le k hkn
  · right; exact hfut k (by omega) hk

/-! ## An expression between statements -/

theorem take_sub {vtys : List CSem.Ty} {nd i : Nat} {t : CSem.Ty} (h : (vtys.take nd)[i]? = some t) :
    vtys[i]? = some t ∧ i < nd := take_get h

/-- `funcexpr` on an expression with a defined value, placed after `pre`. -/
theorem sim_exprOut (T : Stat) {c : SCtx} {nd : Nat} {pre post : List Item} (hp : Pos T c nd pre)
    (e : Expr) (hext : Ext T (c.upd (exprOut T.S.cs c e).ctx))
    (hwt : e.wt (T.vtys.take nd) = true) {s : Store} {v : Int} (hev : evalE T.S.cs s e = some v)
    (hits : T.S.its = pre ++ (exprOut T.S.cs c e).items ++ post) {env : Env} {M : Mem}
    (inv : SInv T.M0 T.S.cs T.cnts T.W T.σ T.vtys s env M) :
    ∃ n env' r, T.Reach n (T.at env M pre) (T.at env' M (pre ++ (exprOut T.S.cs c e).items)) ∧
      SInv T.M0 T.S.cs T.cnts T.W T.σ T.vtys s env' M ∧ Frame c.lastid (exprOut T.S.cs c e).ctx.lastid env env' ∧
      readVal T.S.p env' (exprOut T.S.cs c e).val = .ok r ∧ Rep e.ty v r := by
  have hpre : ∀ i, i < nd → T.σ.getD i 0 = c.slots.getD i 0 := fun i hi => hext.1 i (by
    show i < c.slots.length; rw [hp.nslots]; exact hi)
  have hvars : VarsIn (setM T.S M) c.slots (T.vtys.take nd) s env := by
    intro i t v' ht hv'
    obtain ⟨ht', hi⟩ := take_sub ht
    obtain ⟨a, r, h1, h2, h3⟩ := inv.varsIn i t v' ht' hv'
    exact ⟨a, r, by rw [← hpre i hi]; exact h1, h2, h3⟩
  have hrange : ∀ (i : Nat) (t : CSem.Ty) (v' : Int), (T.vtys.take nd)[i]? = some t →
      s[i]? = some (some v') → InRange (t.intTy (setM T.S M).cs) v' :=
    fun i t v' ht hv' => inv.range i t v' (take_sub ht).1 hv'
  obtain ⟨n, env', hreach, hfr, r, hval, hrep⟩ := sim_expr2 (setM T.S M) c.slots (T.vtys.take nd) s hrange e
    c.ctx pre post env v hwt hev hits hp.cur hp.curOK
    (fun i t ht => hp.le i (take_sub ht).2) hvars
  refine ⟨n, env', r, hreach, ?_, hfr, hval, hrep⟩
  refine inv.env (slots_kept hp hpre ?_ hfr)
  intro k hk hkv
  exact hext.2 k (by show c.slots.length ≤ k; rw [hp.nslots]; exact hk) hkv

/-- The controlling expression of `if` / a loop: `funcexpr`, the conversion of `funcjnz`, and the value
    branched on. -/
theorem sim_condOut (T : Stat) {c : SCtx} {nd : Nat} {pre post : List Item} (hp : Pos T c nd pre)
    (e : Expr) (k : Nat)
    (hext : Ext T (((c.upd (exprOut T.S.cs c e).ctx).addBlocks k).upd
      (jnzOut T.S.cs ((c.upd (exprOut T.S.cs c e).ctx).addBlocks k) e.ty (exprOut T.S.cs c e).val).ctx))
    (hwt : e.wt (T.vtys.take nd) = true) {s : Store} {v : Int} (hev : evalE T.S.cs s e = some v)
    (hits : T.S.its = pre ++ (exprOut T.S.cs c e).items ++
      (jnzOut T.S.cs ((c.upd (exprOut T.S.cs c e).ctx).addBlocks k) e.ty (exprOut T.S.cs c e).val).items ++ post)
    {env : Env} {M : Mem} (inv : SInv T.M0 T.S.cs T.cnts T.W T.σ T.vtys s env M) :
    ∃ n env' r w, T.Reach n (T.at env M pre) (T.at env' M (pre ++ (exprOut T.S.cs c e).items ++
        (jnzOut T.S.cs ((c.upd (exprOut T.S.cs c e).ctx).addBlocks k) e.ty (exprOut T.S.cs c e).val).items)) ∧
      SInv T.M0 T.S.cs T.cnts T.W T.σ T.vtys s env' M ∧
      readVal T.S.p env' (jnzOut T.S.cs ((c.upd (exprOut T.S.cs c e).ctx).addBlocks k) e.ty
        (exprOut T.S.cs c e).val).val = .ok r ∧ r.asW = .ok w ∧ (w ≠ 0 ↔ v ≠ 0) := by
  have sj := jnzArg_straight T.S.cs ((c.upd (exprOut T.S.cs c e).ctx).addBlocks k).ctx e.ty
    (exprOut T.S.cs c e).val
  change Straight _ (jnzOut T.S.cs ((c.upd (exprOut T.S.cs c e).ctx).addBlocks k) e.ty
    (exprOut T.S.cs c e).val) at sj
  have ge := exprOut_good T.S.cs c e
  have hext1 : Ext T (c.upd (exprOut T.S.cs c e).ctx) := by
    refine Ext.before (new := []) hext (by simp) (by simp) ?_
    have := sj.lastid
    exact this
  have hits1 : T.S.its = pre ++ (exprOut T.S.cs c e).items ++
      ((jnzOut T.S.cs ((c.upd (exprOut T.S.cs c e).ctx).addBlocks k) e.ty (exprOut T.S.cs c e).val).items ++
        post) := by rw [hits]; simp only [List.append_assoc]
  obtain ⟨n1, env1, r1, hreach1, inv1, hfr1, hval1, hrep1⟩ := sim_exprOut T hp e hext1 hwt hev hits1 inv
  have hrange : ∀ (i : Nat) (t : CSem.Ty) (v' : Int), (T.vtys.take nd)[i]? = some t →
      s[i]? = some (some v') → InRange (t.intTy T.S.cs) v' :=
    fun i t v' ht hv' => inv.range i t v' (take_sub ht).1 hv'
  have hra := evalE_inRange T.S.cs (T.vtys.take nd) s hrange e v hwt hev
  obtain ⟨n2, env2, hreach2, hfr2, r2, hval2, w, hw, hwv⟩ := sim_jnzArg2 (setM T.S M)
    ((c.upd (exprOut T.S.cs c e).ctx).addBlocks k).ctx e.ty (exprOut T.S.cs c e).val
    (pre ++ (exprOut T.S.cs c e).items) post env1 v r1 hits hval1 hrep1 hra
  refine ⟨n1 + n2, env2, r2, w, hreach1.trans hreach2, ?_, hval2, hw, hwv⟩
  have hpre : ∀ i, i < nd → T.σ.getD i 0 = c.slots.getD i 0 := fun i hi => hext.1 i (by
    show i < c.slots.length; rw [hp.nslots]; exact hi)
  have hl1 := ge.lastid
  refine inv1.env (slots_kept (c := c) (hi := (jnzOut T.S.cs ((c.upd (exprOut T.S.cs c e).ctx).addBlocks k) e.ty
    (exprOut T.S.cs c e).val).ctx.lastid) hp hpre ?_ ?_)
  · intro j hj hjv
    exact hext.2 j (by show c.slots.length ≤ j; rw [hp.nslots]; exact hj) hjv
  · exact Frame.mono hfr2 hl1 (Nat.le_refl _)

/-! ## The postcondition of a statement -/

/-- the jump to `l` is pending at the end of the items, or has been taken -/
def JumpedTo (T : Stat) (l : String) (n : Nat) (st0 : State) (env' : Env) (M' : Mem)
    (pos : List Item) (o : SCtx) : Prop :=
  (o.jump = some (.jmp l) ∧ T.Reach n st0 (T.at env' M' pos)) ∨
  (∃ st, T.Reach n st0 st ∧ AtLabel T.S l env' M' st)

/-- `return v` is pending at the end of the items, or has been executed -/
def Returned (T : Stat) (v : Int) (n : Nat) (st0 : State) (pos : List Item) (o : SCtx) : Prop :=
  (∃ env' M' val r0, o.jump = some (.ret (some val)) ∧ T.Reach n st0 (T.at env' M' pos) ∧
    readVal T.S.p env' val = .ok r0 ∧ Rep T.ret v r0 ∧ M'.popTo T.M0.stack.size T.M0.sp = T.M0) ∨
  (∃ st r, T.Reach n st0 st ∧ step T.S.p T.S.ext st = T.exit r ∧ RetRep T.ret v r)

/-- What the run of the items of a statement (ending at position `pos` with context `o`) achieves,
    by outcome of the C execution. -/
def Post (T : Stat) (lp : Bool × Bool) (brk cont : String) (st0 : State) (pos : List Item) (o : SCtx) :
    CSem2.Outcome → Prop
  | .normal s' => o.jump = none ∧ ∃ n env' M', T.Reach n st0 (T.at env' M' pos) ∧
      SInv T.M0 T.S.cs T.cnts T.W T.σ T.vtys s' env' M'
  | .brk s' => lp.1 = true ∧ ∃ n env' M', SInv T.M0 T.S.cs T.cnts T.W T.σ T.vtys s' env' M' ∧ JumpedTo T brk n st0 env' M' pos o
  | .cont s' => lp.2 = true ∧ ∃ n env' M', SInv T.M0 T.S.cs T.cnts T.W T.σ T.vtys s' env' M' ∧ JumpedTo T cont n st0 env' M' pos o
  | .ret v => InRange (T.ret.intTy T.S.cs) v ∧ ∃ n, Returned T v n st0 pos o

/-- The same after the block has been closed by the next label: nothing is pending any more. -/
def Done (T : Stat) (lp : Bool × Bool) (brk cont : String) (st0 : State) (pos : List Item) :
    CSem2.Outcome → Prop
  | .normal s' => ∃ n env' M', T.Reach n st0 (T.at env' M' pos) ∧ SInv T.M0 T.S.cs T.cnts T.W T.σ T.vtys s' env' M'
  | .brk s' => lp.1 = true ∧ ∃ n env' M' st, SInv T.M0 T.S.cs T.cnts T.W T.σ T.vtys s' env' M' ∧ T.Reach n st0 st ∧
      AtLabel T.S brk env' M' st
  | .cont s' => lp.2 = true ∧ ∃ n env' M' st, SInv T.M0 T.S.cs T.cnts T.W T.σ T.vtys s' env' M' ∧ T.Reach n st0 st ∧
      AtLabel T.S cont env' M' st
  | .ret v => InRange (T.ret.intTy T.S.cs) v ∧
      ∃ n st r, T.Reach n st0 st ∧ step T.S.p T.S.ext st = T.exit r ∧ RetRep T.ret v r

theorem Done.post {T : Stat} {lp : Bool × Bool} {brk cont : String} {st0 : State} {pos : List Item} {o : SCtx}
    {out : CSem2.Outcome} (h : Done T lp brk cont st0 pos out) (hj : o.jump = none) :
    Post T lp brk cont st0 pos o out := by
  cases out with
  | normal s' => exact ⟨hj, h⟩
  | brk s' =>
    obtain ⟨h0, n, env', M', st, h1, h2, h3⟩ := h
    exact ⟨h0, n, env', M', h1, Or.inr ⟨st, h2, h3⟩⟩
  | cont s' =>
    obtain ⟨h0, n, env', M', st, h1, h2, h3⟩ := h
    exact ⟨h0, n, env', M', h1, Or.inr ⟨st, h2, h3⟩⟩
  | ret v =>
    obtain ⟨hrg, n, st, r, h1, h2, h3⟩ := h
    exact ⟨hrg, n, Or.inr ⟨st, r, h1, h2, h3⟩⟩

/-- prefix a run -/
theorem Post.prepend {T : Stat} {lp : Bool × Bool} {brk cont : String} {st0 st1 : State} {pos : List Item}
    {o : SCtx} {out : CSem2.Outcome} {m : Nat} (hr : T.Reach m st0 st1)
    (h : Post T lp brk cont st1 pos o out) : Post T lp brk cont st0 pos o out := by
  cases out with
  | normal s' =>
    obtain ⟨hj, n, env', M', h1, h2⟩ := h
    exact ⟨hj, m + n, env', M', hr.trans h1, h2⟩
  | brk s' =>
    obtain ⟨h0, n, env', M', h1, h2⟩ := h
    refine ⟨h0, m + n, env', M', h1, ?_⟩
    rcases h2 with ⟨hj, h3⟩ | ⟨st, h3, h4⟩
    · exact Or.inl ⟨hj, hr.trans h3⟩
    · exact Or.inr ⟨st, hr.trans h3, h4⟩
  | cont s' =>
    obtain ⟨h0, n, env', M', h1, h2⟩ := h
    refine ⟨h0, m + n, env', M', h1, ?_⟩
    rcases h2 with ⟨hj, h3⟩ | ⟨st, h3, h4⟩
    · exact Or.inl ⟨hj, hr.trans h3⟩
    · exact Or.inr ⟨st, hr.trans h3, h4⟩
  | ret v =>
    obtain ⟨hrg, n, h2⟩ := h
    refine ⟨hrg, m + n, ?_⟩
    rcases h2 with ⟨env', M', val, r0, hj, h3, h4, h5⟩ | ⟨st, r, h3, h4, h5⟩
    · exact Or.inl ⟨env', M', val, r0, hj, hr.trans h3, h4, h5⟩
    · exact Or.inr ⟨st, r, hr.trans h3, h4, h5⟩

theorem Done.prepend {T : Stat} {lp : Bool × Bool} {brk cont : String} {st0 st1 : State} {pos : List Item}
    {out : CSem2.Outcome} {m : Nat} (hr : T.Reach m st0 st1)
    (h : Done T lp brk cont st1 pos out) : Done T lp brk cont st0 pos out := by
  cases out with
  | normal s' =>
    obtain ⟨n, env', M', h1, h2⟩ := h
    exact ⟨m + n, env', M', hr.trans h1, h2⟩
  | brk s' =>
    obtain ⟨h0, n, env', M', st, h1, h2, h3⟩ := h
    exact ⟨h0, m + n, env', M', st, h1, hr.trans h2, h3⟩
  | cont s' =>
    obtain ⟨h0, n, env', M', st, h1, h2, h3⟩ := h
    exact ⟨h0, m + n, env', M', st, h1, hr.trans h2, h3⟩
  | ret v =>
    obtain ⟨hrg, n, st, r, h1, h2, h3⟩ := h
    exact ⟨hrg, m + n, st, r, hr.trans h1, h2, h3⟩

/-- What closing the block does to a pending jump.  The next item is the label `l` whose block ends
    with the pending jump, or — nothing pending — with `dflt` (`none`: fall through into `l`;
    `some (jmp l')`: `funcjmp` before the label). -/
theorem Post.close {T : Stat} {lp : Bool × Bool} {brk cont : String} {st0 : State} {pos post : List Item}
    {o : SCtx} {out : CSem2.Outcome} (h : Post T lp brk cont st0 pos o out) {l : String}
    (hits : T.S.its = pos ++ .lbl o.jump l [] :: post)
    (hlp : (lp.1 = true → CanJump T.S brk) ∧ (lp.2 = true → CanJump T.S cont)) :
    Done T lp brk cont st0 (pos ++ [.lbl o.jump l []]) out := by
  cases out with
  | normal s' =>
    obtain ⟨hj, n, env', M', h1, h2⟩ := h
    rw [hj] at hits ⊢
    exact ⟨n + 1, env', M', h1.trans (Reach.one (step_fall_item T hits env' M')), h2⟩
  | brk s' =>
    obtain ⟨h0, n, env', M', h1, h2⟩ := h
    rcases h2 with ⟨hj, h3⟩ | ⟨st, h3, h4⟩
    · rw [hj] at hits
      obtain ⟨st, hs, hat⟩ := step_jmp_item T hits (hlp.1 h0) env' M'
      exact ⟨h0, n + 1, env', M', st, h1, h3.trans (Reach.one hs), hat⟩
    · exact ⟨h0, n, env', M', st, h1, h3, h4⟩
  | cont s' =>
    obtain ⟨h0, n, env', M', h1, h2⟩ := h
    rcases h2 with ⟨hj, h3⟩ | ⟨st, h3, h4⟩
    · rw [hj] at hits
      obtain ⟨st, hs, hat⟩ := step_jmp_item T hits (hlp.2 h0) env' M'
      exact ⟨h0, n + 1, env', M', st, h1, h3.trans (Reach.one hs), hat⟩
    · exact ⟨h0, n, env', M', st, h1, h3, h4⟩
  | ret v =>
    obtain ⟨hrg, n, h2⟩ := h
    rcases h2 with ⟨env', M', val, r0, hj, h3, h4, h5, h6⟩ | ⟨st, r, h3, h4, h5⟩
    · rw [hj] at hits
      obtain ⟨r', hco, hrep'⟩ := rep_coerce h5
      exact ⟨hrg, n, _, r', h3, step_ret_item T hits M' h4 hco h6, hrep', coerce_kind hco⟩
    · exact ⟨hrg, n, st, r, h3, h4, h5⟩

/-- The same when `funcjmp(l')` precedes the label: without a pending jump control goes to `l'`. -/
theorem Post.closeJmp {T : Stat} {lp : Bool × Bool} {brk cont : String} {st0 : State} {pos post : List Item}
    {o : SCtx} {out : CSem2.Outcome} (h : Post T lp brk cont st0 pos o out) {l l' : String}
    (hits : T.S.its = pos ++ .lbl (some (o.jump.getD (.jmp l'))) l [] :: post)
    (hlp : (lp.1 = true → CanJump T.S brk) ∧ (lp.2 = true → CanJump T.S cont)) (hl' : CanJump T.S l') :
    match out with
    | .normal s' => ∃ n env' M' st, T.Reach n st0 st ∧ AtLabel T.S l' env' M' st ∧
        SInv T.M0 T.S.cs T.cnts T.W T.σ T.vtys s' env' M'
    | out => Done T lp brk cont st0 [] out := by
  cases out with
  | normal s' =>
    obtain ⟨hj, n, env', M', h1, h2⟩ := h
    rw [hj] at hits
    obtain ⟨st, hs, hat⟩ := step_jmp_item T hits hl' env' M'
    exact ⟨n + 1, env', M', st, h1.trans (Reach.one hs), hat, h2⟩
  | brk s' =>
    obtain ⟨h0, n, env', M', h1, h2⟩ := h
    rcases h2 with ⟨hj, h3⟩ | ⟨st, h3, h4⟩
    · rw [hj] at hits
      obtain ⟨st, hs, hat⟩ := step_jmp_item T hits (hlp.1 h0) env' M'
      exact ⟨h0, n + 1, env', M', st, h1, h3.trans (Reach.one hs), hat⟩
    · exact ⟨h0, n, env', M', st, h1, h3, h4⟩
  | cont s' =>
    obtain ⟨h0, n, env', M', h1, h2⟩ := h
    rcases h2 with ⟨hj, h3⟩ | ⟨st, h3, h4⟩
    · rw [hj] at hits
      obtain ⟨st, hs, hat⟩ := step_jmp_item T hits (hlp.2 h0) env' M'
      exact ⟨h0, n + 1, env', M', st, h1, h3.trans (Reach.one hs), hat⟩
    · exact ⟨h0, n, env', M', st, h1, h3, h4⟩
  | ret v =>
    obtain ⟨hrg, n, h2⟩ := h
    rcases h2 with ⟨env', M', val, r0, hj, h3, h4, h5, h6⟩ | ⟨st, r, h3, h4, h5⟩
    · rw [hj] at hits
      obtain ⟨r', hco, hrep'⟩ := rep_coerce h5
      exact ⟨hrg, n, _, r', h3, step_ret_item T hits M' h4 hco h6, hrep', coerce_kind hco⟩
    · exact ⟨hrg, n, st, r, h3, h4, h5⟩

/-- `Done` does not depend on the position for the outcomes that leave the statement. -/
theorem Done.move {T : Stat} {lp : Bool × Bool} {brk cont : String} {st0 : State} {pos pos' : List Item}
    {out : CSem2.Outcome} (h : Done T lp brk cont st0 pos out) (hn : ∀ s', out ≠ .normal s') :
    Done T lp brk cont st0 pos' out := by
  cases out with
  | normal s' => exact absurd rfl (hn s')
  | brk s' => exact h
  | cont s' => exact h
  | ret v => exact h

end CprocVerif.LowerMach2

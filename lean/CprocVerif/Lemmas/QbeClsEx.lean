/-
  C03, classes — a small two-function module used by the non-vacuity examples of `Props/C03.lean`,
  with its class maps, signature table and label index worked out.

  (`String.hash` is opaque for the kernel, so nothing that looks a `String` up in a `HashMap` —
  in particular `wf` on any module with a function — can be evaluated by `decide`/`rfl`; the
  lookups below are derived with the `Std.HashMap` lemmas instead.)
-/
import CprocVerif.Lemmas.QbeClsStep

namespace CprocVerif.C03.Cls
open CprocVerif.Qbe

/-- `function w $g(w %a, d %x) { @s  %b =w add %a, 1   %y =d add %x, d_1   %z =s truncd %y
     ret %b }` -/
def exG : Func :=
  { «export» := false, ret := some (.base .w), name := "g",
    params := [(.base .w, "a"), (.base .d, "x")], variadic := false,
    blocks := #[
      { label := "s", phis := [],
        ins := #[.op (some ("b", .w)) .add [.tmp "a", .int 1],
                 .op (some ("y", .d)) .add [.tmp "x", .fd 1],
                 .op (some ("z", .s)) .truncd [.tmp "y"]],
        term := some (.ret (some (.tmp "b"))) }] }

/-- `export function l $main(l %p) {
     @s  %r =w call $g(w 1, d d_2)   jnz %r, @t, @e
     @t  %q =l add %p, 8             jmp @e
     @e  %v =l phi @s %p, @t %q      ret %v }` -/
def exMain : Func :=
  { «export» := true, ret := some (.base .l), name := "main",
    params := [(.base .l, "p")], variadic := false,
    blocks := #[
      { label := "s", phis := [],
        ins := #[.call (some ("r", .base .w)) (.glob "g" false)
                   [(.base .w, .int 1), (.base .d, .fd 2)] none],
        term := some (.jnz (.tmp "r") "t" "e") },
      { label := "t", phis := [],
        ins := #[.op (some ("q", .l)) .add [.tmp "p", .int 8]],
        term := some (.jmp "e") },
      { label := "e", phis := [⟨"v", .l, [("s", .tmp "p"), ("t", .tmp "q")]⟩],
        ins := #[],
        term := some (.ret (some (.tmp "v"))) }] }

def exMod : Module := ⟨#[.func exG, .func exMain]⟩

theorem exMod_funcs : exMod.funcs = [exG, exMain] := rfl

theorem ex_tcG (t : String) : (tcOf exG)[t]? =
    if "z" = t then some .s else if "y" = t then some .d else if "b" = t then some .w
    else if "x" = t then some .d else if "a" = t then some .w else none := by
  simp [tcOf, exG, Func.allDefs, Block.defsList, Ty.cls, Std.HashMap.getElem?_insert]

theorem ex_tcG_contains (t : String) : (tcOf exG).contains t =
    decide (t ∈ ["z", "y", "b", "x", "a"]) := by
  rw [Std.HashMap.contains_eq_isSome_getElem?, ex_tcG]
  simp only [List.mem_cons, List.not_mem_nil, or_false]
  repeat' split
  all_goals simp_all [eq_comm]

theorem ex_tcMain (t : String) : (tcOf exMain)[t]? =
    if "v" = t then some .l else if "q" = t then some .l else if "r" = t then some .w
    else if "p" = t then some .l else none := by
  simp [tcOf, exMain, Func.allDefs, Block.defsList, Ty.cls, Std.HashMap.getElem?_insert]

theorem ex_tcMain_contains (t : String) : (tcOf exMain).contains t =
    decide (t ∈ ["v", "q", "r", "p"]) := by
  rw [Std.HashMap.contains_eq_isSome_getElem?, ex_tcMain]
  simp only [List.mem_cons, List.not_mem_nil, or_false]
  repeat' split
  all_goals simp_all [eq_comm]

theorem ex_sigs (n : String) : (sigsOf exMod)[n]? =
    if "g" = n then some exG.sig else if "main" = n then some exMain.sig else none := by
  simp only [sigsOf, exMod_funcs, List.foldl_cons, List.foldl_nil,
    Std.HashMap.getElem?_insertIfNew, Std.HashMap.mem_insertIfNew]
  have h1 : exG.name = "g" := rfl
  have h2 : exMain.name = "main" := rfl
  rw [h1, h2]
  generalize exG.sig = sg
  generalize exMain.sig = sm
  by_cases hg : "g" = n
  · subst hg
    have : ("main" == "g") = false := by decide
    simp only [this, beq_self_eq_true, Std.HashMap.not_mem_empty, not_false_eq_true, and_self,
      if_true, Bool.false_eq_true, false_and, if_false]
  · by_cases hm : "main" = n
    · subst hm
      have : ("g" == "main") = false := by decide
      simp only [this, beq_self_eq_true, Std.HashMap.not_mem_empty, Bool.false_eq_true,
        false_and, or_false, not_false_eq_true, and_self, if_true, if_false]
      rfl
    · have h1 : ("g" == n) = false := by simpa using hg
      have h2 : ("main" == n) = false := by simpa using hm
      simp only [h1, h2, Bool.false_eq_true, false_and, if_false, hg, hm,
        Std.HashMap.getElem?_empty]

theorem ex_labelsMain (l : String) : (FuncInfo.of exMain).labelIdx.contains l =
    decide (l ∈ ["s", "t", "e"]) := by
  have : (FuncInfo.of exMain).labelIdx =
      ((({} : Std.HashMap String Nat).insertIfNew "s" 0).insertIfNew "t" 1).insertIfNew "e" 2 := rfl
  rw [this]
  rw [Bool.eq_iff_iff]
  simp only [Std.HashMap.contains_insertIfNew, Std.HashMap.contains_empty, Bool.or_false,
    List.mem_cons, List.not_mem_nil, or_false, Bool.or_eq_true, beq_iff_eq, decide_eq_true_eq]
  constructor
  · rintro (h | h | h)
    · exact Or.inr (Or.inr h.symm)
    · exact Or.inr (Or.inl h.symm)
    · exact Or.inl h.symm
  · rintro (h | h | h)
    · exact Or.inr (Or.inr h.symm)
    · exact Or.inr (Or.inl h.symm)
    · exact Or.inl h.symm

end CprocVerif.C03.Cls

import CprocVerif.Lemmas.InitGeo2
import CprocVerif.Lemmas.InitRefSim6

/-!
# Every initialiser `parseinit` produces sits at a place of the object's tree

A machine-only invariant (no reference involved): the live slots of `obj[]` are a path of the
tree of places, every logged `add` stores a value of the member's shape at such a place, every
logged `clear` clears a non-scalar place.  With `Lemmas/InitGeo2.lean` this gives the hypotheses
of `emitdata_image_ev` for the log of every successful `parseinit`.
-/

namespace CprocVerif.InitSim
open CprocVerif.Init CprocVerif.Image CprocVerif.InitRef

/-- slots `0 … sub` are the places `pl 0 = root, pl 1, …`, each the sub-object its parent's
cursor stands at -/
structure Stk (root : Place) (st : St) (pl : Nat → Place) : Prop where
  root : pl 0 = root
  ty : (st.obj st.sub).ty = (pl st.sub).ty
  off : (st.obj st.sub).offset = (pl st.sub).off
  lvl : ∀ k, k < st.sub → ∃ pos, Lvl st k (pl k) pos (pl (k + 1)) ∧ childAt (pl k) pos true = some (pl (k + 1))

/-- the invariant (objects of known size) -/
structure K (root : Place) (st : St) : Prop where
  inc : st.inc = false
  top : st.top = (st.obj 0).ty.size
  stk : ∃ pl, Stk root st pl
  log : ∀ e ∈ st.log, PlaceEv root e
  cur : ∀ c, st.cur = some c → c ≤ st.sub

theorem K.flat {root : Place} {st : St} (h : K root st) (k : Nat) : Flat st k := by
  refine ⟨by unfold St.tinc; rw [h.inc]; simp, ?_⟩
  unfold St.tsize
  split
  · rename_i hk; rw [hk, h.top]
  · rfl

theorem Lvl.of_obj {st st' : St} {k : Nat} {pl ch : Place} {pos : Nat} (h : Lvl st k pl pos ch)
    (ho : st'.obj k = st.obj k) : Lvl st' k pl pos ch :=
  ⟨by rw [ho]; exact h.ty, by rw [ho]; exact h.off, h.child, by rw [ho]; exact h.u⟩

theorem Stk.slot {root : Place} {st : St} {pl : Nat → Place} (h : Stk root st pl) :
    ∀ k, k ≤ st.sub → (st.obj k).ty = (pl k).ty ∧ (st.obj k).offset = (pl k).off := by
  intro k hk
  by_cases hks : k = st.sub
  · rw [hks]; exact ⟨h.ty, h.off⟩
  · obtain ⟨pos, hl, _⟩ := h.lvl k (by omega)
    exact ⟨hl.ty, hl.off⟩

/-- every live slot is a place of the tree with a C layout -/
theorem Stk.places {nu : Bool} {root : Place} {st : St} {pl : Nat → Place} (hg : PlGeo nu root) (h : Stk root st pl) :
    ∀ k, k ≤ st.sub → ∃ ps, walk root ps = some (pl k) ∧ PlGeo nu (pl k) := by
  intro k
  induction k with
  | zero => intro _; exact ⟨[], by rw [h.root]; rfl, by rw [h.root]; exact hg⟩
  | succ k ih =>
    intro hk
    obtain ⟨ps, hw, hgk⟩ := ih (by omega)
    obtain ⟨pos, _, hc⟩ := h.lvl k (by omega)
    refine ⟨ps ++ [pos], ?_, (child_geo hgk hc).1⟩
    rw [walk_append hw]
    simp only [walk, hc]

/-- fewer live slots -/
theorem Stk.pop {root : Place} {st st' : St} {pl : Nat → Place} (h : Stk root st pl) (hs : st'.sub ≤ st.sub)
    (hlow : ∀ j, j < st'.sub → st'.obj j = st.obj j) (hty : (st'.obj st'.sub).ty = (st.obj st'.sub).ty)
    (hoff : (st'.obj st'.sub).offset = (st.obj st'.sub).offset) : Stk root st' pl := by
  obtain ⟨s1, s2⟩ := h.slot st'.sub hs
  refine ⟨h.root, hty.trans s1, hoff.trans s2, ?_⟩
  intro k hk
  obtain ⟨pos, hl, hc⟩ := h.lvl k (by omega)
  exact ⟨pos, hl.of_obj (hlow k hk), hc⟩

def upd (pl : Nat → Place) (k : Nat) (ch : Place) : Nat → Place := fun j => if j = k then ch else pl j

/-- one more live slot -/
theorem Stk.push {root : Place} {st0 st' : St} {pl : Nat → Place} {pos : Nat} {ch : Place} (h : Stk root st0 pl)
    (hs : st'.sub = st0.sub + 1) (hlow : ∀ j, j < st0.sub → st'.obj j = st0.obj j)
    (hl : Lvl st' st0.sub (pl st0.sub) pos ch) (hc : childAt (pl st0.sub) pos true = some ch)
    (hty : (st'.obj (st0.sub + 1)).ty = ch.ty) (hoff : (st'.obj (st0.sub + 1)).offset = ch.off) :
    Stk root st' (upd pl (st0.sub + 1) ch) := by
  refine ⟨?_, ?_, ?_, ?_⟩
  · unfold upd; rw [if_neg (by omega)]; exact h.root
  · rw [hs]; unfold upd; rw [if_pos rfl]; exact hty
  · rw [hs]; unfold upd; rw [if_pos rfl]; exact hoff
  · intro k hk
    rw [hs] at hk
    by_cases hks : k = st0.sub
    · subst hks
      refine ⟨pos, ?_, ?_⟩
      · unfold upd; rw [if_neg (by omega), if_pos rfl]; exact hl
      · unfold upd; rw [if_neg (by omega), if_pos rfl]; exact hc
    · obtain ⟨pos', hl', hc'⟩ := h.lvl k (by omega)
      refine ⟨pos', ?_, ?_⟩
      · unfold upd; rw [if_neg (by omega), if_neg (by omega)]; exact hl'.of_obj (hlow k (by omega))
      · unfold upd; rw [if_neg (by omega), if_neg (by omega)]; exact hc'

theorem subTys_self (t : Ty) : t ∈ subTys t := by
  cases t <;> simp [subTys]

theorem subTysMs_drop : ∀ (p : Nat) (ms : Members) {n t o b a nx}, Members.drop ms p = .cons n t o b a nx →
    ∀ x ∈ subTys t, x ∈ subTysMs ms := by
  intro p
  induction p with
  | zero =>
    intro ms n t o b a nx hd x hx
    have : ms = .cons n t o b a nx := by cases ms <;> simpa [Members.drop] using hd
    subst this
    simp only [subTysMs, List.mem_append]
    exact .inl hx
  | succ p ih =>
    intro ms n t o b a nx hd x hx
    cases ms with
    | nil => simp [Members.drop] at hd
    | cons n0 t0 o0 b0 a0 nx0 =>
      simp only [subTysMs, List.mem_append]
      exact .inr (ih nx0 (by simpa [Members.drop] using hd) x hx)

/-- the types below a child are types below the parent -/
theorem subTys_child {q ch : Place} {p : Nat} {pp : Bool} (h : childAt q p pp = some ch) :
    ∀ x ∈ subTys ch.ty, x ∈ subTys q.ty := by
  intro x hx
  cases hty : q.ty with
  | scalar s k => rw [childAt_scalar hty] at h; cases h
  | array n e =>
    unfold childAt at h
    rw [hty] at h
    simp only [] at h
    split at h
    · cases h
      simp only [subTys, List.mem_cons]
      exact .inr hx
    · cases h
  | agg u tag size ms =>
    rw [childAt_agg hty] at h
    split at h
    · cases h
    · cases hd : Members.drop ms p with
      | nil => rw [hd] at h; cases h
      | cons n t o b a nx =>
        rw [hd] at h
        cases h
        simp only [subTys, List.mem_cons]
        exact .inr (subTysMs_drop p ms hd x hx)

theorem walk_subTys : ∀ (ps : List Nat) {q d : Place}, walk q ps = some d → d.ty ∈ subTys q.ty := by
  intro ps
  induction ps with
  | nil => intro q d h; cases h; exact subTys_self _
  | cons p ps ih =>
    intro q d h
    simp only [walk] at h
    cases hc : childAt q p true with
    | none => rw [hc] at h; cases h
    | some ch =>
      rw [hc] at h
      exact subTys_child hc _ (ih h)

theorem firstPathMs_drop : ∀ (p : Nat) (ms : Members) (ps : List Nat) {n t o b a nx}, Members.drop ms p = .cons n t o b a nx →
    firstPathMs ms p ps = firstPath t ps := by
  intro p
  induction p with
  | zero =>
    intro ms ps n t o b a nx hd
    have : ms = .cons n t o b a nx := by cases ms <;> simpa [Members.drop] using hd
    subst this
    simp [firstPathMs]
  | succ p ih =>
    intro ms ps n t o b a nx hd
    cases ms with
    | nil => simp [Members.drop] at hd
    | cons n0 t0 o0 b0 a0 nx0 =>
      simp only [firstPathMs]
      exact ih nx0 ps (by simpa [Members.drop] using hd)

/-- one step of a path that stays on first union members is a step of the positional tree -/
theorem firstPath_step {q ch : Place} {p : Nat} {ps : List Nat} (hf : firstPath q.ty (p :: ps) = true)
    (h : childAt q p false = some ch) : childAt q p true = some ch ∧ firstPath ch.ty ps = true := by
  cases hty : q.ty with
  | scalar s k => rw [childAt_scalar hty] at h; cases h
  | array n e =>
    rw [hty] at hf
    simp only [firstPath] at hf
    unfold childAt at h ⊢
    rw [hty] at h ⊢
    simp only [] at h ⊢
    refine ⟨h, ?_⟩
    split at h
    · cases h; exact hf
    · cases h
  | agg u tag size ms =>
    rw [hty] at hf
    simp only [firstPath, Bool.and_eq_true, Bool.or_eq_true, Bool.not_eq_true', beq_iff_eq] at hf
    rw [childAt_agg hty] at h ⊢
    simp only [Bool.and_false, Bool.false_and, Bool.false_eq_true, if_false] at h
    have hcond : ¬ ((u && true && decide (p ≠ 0)) = true) := by
      rcases hf.1 with h1 | h1
      · simp [h1]
      · simp [h1]
    rw [if_neg hcond]
    refine ⟨h, ?_⟩
    cases hd : Members.drop ms p with
    | nil => rw [hd] at h; cases h
    | cons n t o b a nx =>
      rw [hd] at h
      cases h
      rw [← firstPathMs_drop p ms ps hd]
      exact hf.2

/-- the levels a designator pushed -/
theorem stk_chain {root : Place} {st' : St} : ∀ {m : Nat} {q : Place} {ps : List Nat} {m' : Nat} {q' : Place},
    Chain st' m q ps m' q' → ∀ (pl : Nat → Place), pl 0 = root → pl m = q →
    (∀ k, k < m → ∃ pos, Lvl st' k (pl k) pos (pl (k + 1)) ∧ childAt (pl k) pos true = some (pl (k + 1))) →
    firstPath q.ty ps = true →
    ∃ pl' : Nat → Place, pl' 0 = root ∧ pl' m' = q' ∧
      ∀ k, k < m' → ∃ pos, Lvl st' k (pl' k) pos (pl' (k + 1)) ∧ childAt (pl' k) pos true = some (pl' (k + 1)) := by
  intro m q ps m' q' hch
  induction hch with
  | nil m q => intro pl h0 hm hl _; exact ⟨pl, h0, hm, hl⟩
  | @cons m q ch p ps m' q' hl _ ih =>
    intro pl h0 hm hlv hf
    obtain ⟨hc, hfc⟩ := firstPath_step hf hl.child
    refine ih (upd pl (m + 1) ch) (by unfold upd; rw [if_neg (by omega)]; exact h0) (by unfold upd; rw [if_pos rfl]) ?_ hfc
    intro k hk
    by_cases hkm : k = m
    · subst hkm
      refine ⟨p, ?_, ?_⟩
      · unfold upd; rw [if_neg (by omega), if_pos rfl, hm]; exact hl
      · unfold upd; rw [if_neg (by omega), if_pos rfl, hm]; exact hc
    · obtain ⟨pos', hl', hc'⟩ := hlv k (by omega)
      refine ⟨pos', ?_, ?_⟩
      · unfold upd; rw [if_neg (by omega), if_neg (by omega)]; exact hl'
      · unfold upd; rw [if_neg (by omega), if_neg (by omega)]; exact hc'

/-- bits of the member the cursor came through are those of the place -/
theorem Stk.bits {nu : Bool} {root : Place} {st : St} {pl : Nat → Place} (hg : PlGeo nu root)
    (hr : root.before = 0 ∧ root.after = 0) (h : Stk root st pl) :
    curBits st = .ok ((pl st.sub).before, (pl st.sub).after) := by
  by_cases hs : st.sub = 0
  · unfold curBits
    rw [if_pos hs, hs, h.root, hr.1, hr.2]
  · obtain ⟨pos, hl, hc⟩ := h.lvl (st.sub - 1) (by omega)
    obtain ⟨_, _, hgk⟩ := h.places hg (st.sub - 1) (by omega)
    have e1 : st.sub - 1 + 1 = st.sub := by omega
    rw [e1] at hl hc
    have hsp := sp_child hgk.wf hl (by rw [e1]; exact h.ty) (by rw [e1]; exact h.off)
    rw [e1] at hsp
    exact hsp.bits

end CprocVerif.InitSim

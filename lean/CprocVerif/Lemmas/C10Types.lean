import CprocVerif.Spec.Constraints
import CprocVerif.Lemmas.Types

/-! Acceptance soundness of the typing model (`Model/Types.lean`) against `Spec/Constraints.lean`. -/

namespace CprocVerif.C10Types
open CprocVerif.Types CprocVerif.Spec CprocVerif.Spec.Constraints CprocVerif.Types.Lemmas

theorem isIntegerT_of_isInt (o : Operand) (ok : OperandOk o) (h : o.ty.isInt = true) : isIntegerT o.ty = true := by
  unfold OperandOk at ok
  cases ht : o.ty <;> simp [ht, Ty.isInt] at h ok
  rename_i a
  cases a with
  | basic b => cases b <;> simp_all [isIntegerT, isIntegerTy, intTypeOf, isInteger, ATy.isInt, Basic.isInt]
  | enum i b =>
    have : b.isInt = true := by simpa [ATy.wf] using ok.1
    cases b <;> simp_all [isIntegerT, isIntegerTy, intTypeOf, isInteger, Basic.isInt]

theorem compat_isFunc (a b : Ty) (h : typecompatible a b = true) : a.isFunc = b.isFunc := by
  cases a <;> cases b <;> simp_all [typecompatible, Ty.isFunc]

theorem compat_spec (a b : Ty) (h : typecompatible a b = true) : compatible a b = true := by
  rw [spec_compatible_eq]; exact h

theorem isVoid_eq (t : Ty) (h : t.isVoid = true) : t = .void := by
  cases t <;> simp_all [Ty.isVoid]

theorem binop_sound (sc : Bool) (op : BinOp) (l r : Operand) (t : Ty) (ol : OperandOk l) (or' : OperandOk r)
    (h : binopType sc op l r = some t) : Constraints.binop op l r = true := by
  have il := isIntegerT_of_isInt l ol
  have ir := isIntegerT_of_isInt r or'
  cases op <;> simp only [binopType] at h
  case lor | land =>
    split at h
    · rename_i hc; simpa [Constraints.binop] using hc
    · cases h
  case mul | div =>
    split at h
    · rename_i hc; simpa [Constraints.binop] using hc
    · cases h
  case mod | shl | shr | bor | xor | band =>
    split at h
    · rename_i hc
      simp only [Bool.and_eq_true] at hc
      simp [Constraints.binop, il hc.1, ir hc.2]
    · cases h
  case less | greater | leq | geq =>
    split at h
    · rename_i hc; simp only [Bool.and_eq_true] at hc; simp [Constraints.binop, hc.1, hc.2]
    · split at h
      · rename_i ql lb qr rb hl hr
        split at h
        · rename_i hc
          simp only [Bool.and_eq_true, Bool.not_eq_true'] at hc
          have hf := compat_isFunc _ _ hc.1
          simp [Constraints.binop, hl, hr, ptrToObject, ptrsToCompatible, compat_spec _ _ hc.1, hc.2, ← hf]
        · cases h
      · cases h
  case add =>
    split at h
    · rename_i hc; simp only [Bool.and_eq_true] at hc; simp [Constraints.binop, hc.1, hc.2]
    · by_cases hp : r.ty.isPtr = true
      · simp only [hp, if_true] at h
        split at h
        · rename_i q b hr
          split at h
          · cases h
          · rename_i hi
            split at h
            · cases h
            · rename_i hb
              simp only [Bool.not_eq_true', Bool.not_eq_false] at hi
              simp only [Bool.or_eq_true, not_or, Bool.not_eq_true] at hb
              simp [Constraints.binop, hr, ptrToCompleteObject, hb.1, hb.2, il hi]
        · cases h
      · simp only [hp, Bool.false_eq_true, if_false] at h
        split at h
        · rename_i q b hl
          split at h
          · cases h
          · rename_i hi
            split at h
            · cases h
            · rename_i hb
              simp only [Bool.not_eq_true', Bool.not_eq_false] at hi
              simp only [Bool.or_eq_true, not_or, Bool.not_eq_true] at hb
              simp [Constraints.binop, hl, ptrToCompleteObject, hb.1, hb.2, ir hi]
        · cases h
  case sub =>
    split at h
    · rename_i hc; simp only [Bool.and_eq_true] at hc; simp [Constraints.binop, hc.1, hc.2]
    · split at h
      · rename_i q lb hl
        split at h
        · cases h
        · split at h
          · cases h
          · rename_i hb
            simp only [Bool.or_eq_true, not_or, Bool.not_eq_true] at hb
            split at h
            · rename_i hi
              simp [Constraints.binop, hl, ptrToCompleteObject, hb.1, hb.2, ir hi]
            · split at h
              · rename_i q' rb hr
                split at h
                · rename_i hc
                  split at h
                  · cases h
                  · rename_i hrb
                    simp only [Bool.not_eq_true] at hrb
                    have hf := compat_isFunc _ _ hc
                    simp [Constraints.binop, hl, hr, ptrToCompleteObject, ptrsToCompatible, hb.1, hb.2, hrb,
                      compat_spec _ _ hc, ← hf]
                · cases h
              · cases h
      · cases h
  case eql | neq =>
    split at h
    · rename_i hc; simp only [Bool.and_eq_true] at hc; simp [Constraints.binop, hc.1, hc.2]
    · by_cases hp : l.ty.isPtr = true
      · simp only [hp, if_true] at h
        split at h
        · rename_i q lb hl
          split at h
          · rename_i hn; simp [Constraints.binop, hp, hn]
          · split at h
            · rename_i q' rb hr
              split at h
              · rename_i hn; simp [Constraints.binop, hr, hn, Ty.isPtr]
              · split at h
                · rename_i hk
                  unfold ptrEqOk at hk
                  by_cases hv : lb.isVoid = true
                  · have := isVoid_eq _ hv; subst this
                    simp only [Ty.isVoid, if_true, Bool.true_and] at hk
                    split at hk
                    · rename_i hnf
                      simp only [Bool.not_eq_true'] at hnf
                      simp [Constraints.binop, hl, hr, isVoidPtrAny, ptrToObject, hnf]
                    · cases rb <;> simp_all [typecompatible, Ty.isFunc]
                  · simp only [hv, Bool.false_eq_true, if_false] at hk
                    split at hk
                    · rename_i hc
                      simp only [Bool.and_eq_true, Bool.not_eq_true'] at hc
                      have := isVoid_eq _ hc.1; subst this
                      simp [Constraints.binop, hl, hr, isVoidPtrAny, ptrToObject, hc.2]
                    · simp [Constraints.binop, hl, hr, ptrsToCompatible, compat_spec _ _ hk]
                · cases h
            · cases h
        · cases h
      · simp only [hp, Bool.false_eq_true, if_false] at h
        split at h
        · rename_i q rb hr
          split at h
          · rename_i hn; simp [Constraints.binop, hr, hn, Ty.isPtr]
          · split at h
            · rename_i q' b' hl'
              simp [hl', Ty.isPtr] at hp
            · cases h
        · cases h

/-! ### unary operators -/

theorem unop_sound (sc : Bool) (op : UnOp) (e o : Operand) (ok : OperandOk e)
    (har : (op = .preinc ∨ op = .predec ∨ op = .postinc ∨ op = .postdec) →
      e.ty.isArith = true ∨ e.ty.isPtr = true)
    (h : unaryOp sc op e = some o) : Constraints.unop op e = true := by
  have ie := isIntegerT_of_isInt e ok
  cases op <;> simp only [unaryOp] at h
  case addr =>
    cases hd : e.decayedFrom with
    | some p =>
      simp [Constraints.unop, designatesBitfield, hd]
    | none =>
      simp only [hd] at h
      cases hl : e.lvalue <;> cases hf : e.ty.isFunc <;> cases hw : e.width <;>
        simp_all [Constraints.unop, designatesBitfield, designatorType]
  case deref =>
    split at h
    · rename_i q b he; simp [Constraints.unop, he, Ty.isPtr]
    · cases h
  case plus | minus =>
    split at h
    · cases h
    · rename_i hc; simpa [Constraints.unop] using hc
  case bnot =>
    split at h
    · cases h
    · rename_i hc
      simp only [Bool.not_eq_true', Bool.not_eq_false] at hc
      simp [Constraints.unop, ie hc]
  case lnot =>
    split at h
    · cases h
    · rename_i hc; simpa [Constraints.unop] using hc
  case sizeofE | alignofE =>
    cases hd : e.decayedFrom with
    | some p =>
      simp only [hd] at h
      split at h
      · cases h
      · split at h
        · cases h
        · split at h
          · cases h
          · rename_i h1 h2 h3
            simp_all [Constraints.unop, designatesBitfield, designatorType]
    | none =>
      simp only [hd] at h
      split at h
      · cases h
      · split at h
        · cases h
        · split at h
          · cases h
          · rename_i h1 h2 h3
            simp_all [Constraints.unop, designatesBitfield, designatorType]
  case preinc | predec | postinc | postdec =>
    have har := har (by simp)
    cases hl : e.lvalue <;> cases hc : e.qual.c <;> simp [hl, hc] at h
    rcases har with ha | hp
    · simp [Constraints.unop, hl, hc, ha]
    · cases ht : e.ty <;> simp [ht, Ty.isPtr] at hp
      rename_i q b
      simp only [ht] at h
      cases hi : b.incomplete <;> cases hf : b.isFunc <;> simp [hi, hf] at h
      simp [Constraints.unop, hl, hc, ht, ptrToCompleteObject, hi, hf]

/-! ### casts, sizeof, assignment, calls, member access, subscripts, `?:`, `_Generic` -/

theorem cast_sound (t : Ty) (e o : Operand) (h : castType t e = some o) : castScalar t e = true := by
  unfold castType at h
  split at h
  · cases h
  · split at h
    · cases h
    · rename_i h1 h2
      by_cases hv : t = .void
      · subst hv; simp [castScalar]
      · have hv' : (t != Ty.void) = true := by simpa using hv
        simp only [hv', Bool.true_and, Bool.not_eq_true', Bool.not_eq_false] at h1 h2
        simp [castScalar, h1, h2]

theorem sizeofType_sound (t r : Ty) (h : Types.sizeofType t = some r) : sizeofTypeName t = true := by
  unfold Types.sizeofType at h
  split at h
  · cases h
  · split at h
    · cases h
    · rename_i h1 h2
      simp only [Bool.not_eq_true] at h1 h2
      simp [sizeofTypeName, h1, h2]

theorem assign_lvalue (l r o : Operand) (h : assignType l r = some o) : assignLvalue l = true := by
  unfold assignType at h
  split at h
  · rename_i hc; exact hc
  · cases h

theorem compound_assign_sound (sc : Bool) (op : BinOp) (l r o : Operand) (ol : OperandOk l) (or' : OperandOk r)
    (h : compoundAssignType sc op l r = some o) :
    assignLvalue l = true ∧ Constraints.binop op { l with decayedFrom := none } r = true := by
  unfold compoundAssignType at h
  split at h
  · cases h
  · rename_i hl
    simp only [Bool.not_eq_true', Bool.not_eq_false] at hl
    split at h
    · rename_i t ht
      exact ⟨hl, binop_sound sc op _ r t (by simpa [OperandOk] using ol) or' ht⟩
    · cases h

theorem call_sound (f o : Operand) (n : Nat) (h : callType f n = some o) : Constraints.call f n = true := by
  unfold callType at h
  split at h
  · rename_i q fq ret params va hf
    split at h
    · cases h
    · split at h
      · cases h
      · rename_i h1 h2
        cases va <;> simp_all [Constraints.call] <;> omega
  · cases h

theorem member_sound (arrow : Bool) (e o : Operand) (mty : Ty) (mq : Qual) (bits : Option Nat)
    (h : memberType arrow e mty mq bits = some o) : Constraints.member arrow e = true := by
  cases arrow <;> cases he : e.ty <;> simp_all [memberType, Constraints.member, Ty.isStructUnion]

/-- `void *` against a pointer to function: the one case in which `exprassign` and `condexpr` let a
pointer pair through although 6.5.16.1p1 / 6.5.15p3 require a pointer to an *object* type next to
the pointer to void -/
def voidVsFuncPtr (a b : Ty) : Bool :=
  match a, b with
  | .ptr _ .void, .ptr _ fb => fb.isFunc
  | .ptr _ fa, .ptr _ .void => fa.isFunc
  | _, _ => false

theorem ptrAssign_sound (t : Ty) (e : Operand) (hx : voidVsFuncPtr t e.ty = false)
    (h : ptrAssignOk t e = true) : assignToPointer t e = true := by
  unfold ptrAssignOk at h
  split at h
  · rename_i tq tb
    by_cases hn : e.nullconst = true
    · simp [assignToPointer, hn]
    · simp only [hn, Bool.false_eq_true, if_false] at h
      split at h
      · rename_i eq eb he
        simp only [Bool.and_eq_true, Bool.or_eq_true, beq_iff_eq] at h
        simp only [assignToPointer, he, h.2, Bool.true_and, Bool.or_eq_true]
        right
        rcases h.1 with (hv | hv) | hc
        · subst hv
          cases hf : eb.isFunc
          · cases eb <;> simp_all [Ty.isFunc, compatible]
          · cases eb <;> simp_all [voidVsFuncPtr, Ty.isFunc]
        · subst hv
          cases hf : tb.isFunc
          · cases tb <;> simp_all [Ty.isFunc, compatible]
          · cases tb <;> simp_all [voidVsFuncPtr, Ty.isFunc]
        · simp [compat_spec _ _ hc]
      · cases h
  · cases h

theorem exprassign_sound (t : Ty) (e : Operand) (hx : voidVsFuncPtr t e.ty = false)
    (h : exprassignOk t e = true) : simpleAssign t e = true := by
  unfold exprassignOk at h
  split at h
  · simp only [Bool.or_eq_true] at h
    rcases h with (h | h) | h
    · have ht : (Ty.arith (.basic .bool)).isArith = true := rfl
      simp [simpleAssign, ht, h]
    · simp [simpleAssign, h]
    · simp [simpleAssign, h]
  · rename_i a _
    have ht : (Ty.arith a).isArith = true := rfl
    simp [simpleAssign, ht, h]
  · have := ptrAssign_sound _ e hx h
    simp [simpleAssign, this]
  · simp [simpleAssign, h]
  · simp [simpleAssign, Ty.isStructUnion, compat_spec _ _ h]
  · simp [simpleAssign, Ty.isStructUnion, compat_spec _ _ h]
  · cases h

theorem assign_sound (l r o : Operand) (hx : voidVsFuncPtr l.ty r.ty = false) (h : assignType l r = some o) :
    assignLvalue l = true ∧ simpleAssign l.ty r = true := by
  refine ⟨assign_lvalue l r o h, ?_⟩
  unfold assignType at h
  split at h
  · split at h
    · rename_i hc; exact exprassign_sound _ _ hx hc
    · cases h
  · cases h

/-- operands after the conversions of 6.3.2.1p3-4: no array and no function type left -/
def converted (t : Ty) : Bool :=
  match t with
  | .arr .. => false
  | .func .. => false
  | _ => true

theorem condRes_sound (sc : Bool) (l r : Operand) (x : Ty × Operand × Operand)
    (hl : converted l.ty = true) (hx : voidVsFuncPtr l.ty r.ty = false)
    (h : condRes sc l r = some x) :
    condArms l r = true ∨ (l.ty = .nullptr ∧ r.ty = .nullptr) := by
  unfold condRes at h
  split at h
  · rename_i hc; simp only [Bool.and_eq_true] at hc; simp [condArms, hc.1, hc.2]
  · split at h
    · rename_i _ heq
      cases ht : l.ty <;> simp [ht, converted] at hl
      · left; simp [condArms, ← heq, ht]
      · left; simp [condArms, ← heq, ht, Ty.isArith]
      · right; exact ⟨rfl, by rw [← heq, ht]⟩
      · left
        rename_i q b
        have := compat_spec _ _ (compat_refl' b)
        simp [condArms, ← heq, ht, ptrsToCompatible, this]
      · left; simp [condArms, ← heq, ht, Ty.isStructUnion]
      · left; simp [condArms, ← heq, ht, Ty.isStructUnion]
    · split at h
      · rename_i hv; left; simp [condArms, hv.1, hv.2]
      · split at h
        · rename_i hc; simp only [Bool.and_eq_true] at hc; left; simp [condArms, hc.1, hc.2]
        · split at h
          · rename_i hc; simp only [Bool.and_eq_true] at hc; left; simp [condArms, hc.1, hc.2]
          · split at h
            · rename_i lq lb rq rb hlt hrt
              left
              split at h
              · rename_i hv
                rcases hv with hv | hv
                · subst hv
                  cases hf : rb.isFunc
                  · simp [condArms, hlt, hrt, isVoidPtrAny, ptrToObject, hf]
                  · simp [hlt, hrt, voidVsFuncPtr, hf] at hx
                · subst hv
                  cases hf : lb.isFunc
                  · simp [condArms, hlt, hrt, isVoidPtrAny, ptrToObject, hf]
                  · cases lb <;> simp_all [voidVsFuncPtr, Ty.isFunc]
              · split at h
                · rename_i hc
                  simp [condArms, hlt, hrt, ptrsToCompatible, compat_spec _ _ hc]
                · cases h
            · cases h

theorem cond_sound (sc : Bool) (c l r : Operand) (t : Ty)
    (hl : converted l.ty = true) (hx : voidVsFuncPtr l.ty r.ty = false)
    (h : condType sc c l r = some t) :
    condFirst c = true ∧ (condArms l r = true ∨ (l.ty = .nullptr ∧ r.ty = .nullptr)) := by
  unfold condType at h
  split at h
  · cases h
  · rename_i hs
    simp only [Bool.not_eq_true', Bool.not_eq_false] at hs
    refine ⟨hs, ?_⟩
    cases hr : condRes sc l r with
    | none => simp [hr] at h
    | some x => exact condRes_sound sc l r x hl hx hr

theorem filter_zipIdx_length {α : Type} (p : α → Bool) : ∀ (l : List α) (n : Nat),
    ((l.zipIdx n).filter (fun x => p x.1)).length = (l.filter p).length
  | [], _ => rfl
  | a :: l, n => by
    simp only [List.zipIdx_cons, List.filter_cons]
    cases p a <;> simp [filter_zipIdx_length p l (n + 1)]

theorem generic_sound (want : Ty) (assocs : List (Ty × Qual)) (d : Bool) (r : Option Nat)
    (h : genericSelect want assocs d = some r) : Constraints.generic want assocs d := by
  unfold genericSelect at h
  have hlen := filter_zipIdx_length (fun p : Ty × Qual => typecompatible p.1 want && p.2 == Qual.none) assocs 0
  have hspec : (fun p : Ty × Qual => compatible p.1 want && p.2 == Qual.none) =
      (fun p : Ty × Qual => typecompatible p.1 want && p.2 == Qual.none) := by
    funext p; rw [spec_compatible_eq]
  simp only [Constraints.generic, hspec, ← hlen]
  generalize (assocs.zipIdx.filter fun x => typecompatible x.1.1 want && x.1.2 == Qual.none) = hits at h
  match hits, h with
  | [i], _ => simp
  | [], h =>
    simp only [List.map_nil] at h
    split at h
    · rename_i hd; simp [hd]
    · cases h
  | _ :: _ :: _, h => simp at h

theorem index_sound (tg : Target) (a i : Expr) (o : Operand) (wf : ∀ e x, typeOf tg e = some x → OperandOk x)
    (h : typeOf tg (.index a i) = some o) :
    ∃ x y, typeOf tg a = some x ∧ typeOf tg i = some y ∧ subscript x y = true := by
  simp only [typeOf] at h
  cases ha : typeOf tg a with
  | none => simp [ha] at h
  | some x =>
    cases hi : typeOf tg i with
    | none => simp [ha, hi] at h
    | some y =>
      refine ⟨x, y, rfl, rfl, ?_⟩
      simp only [ha, hi] at h
      have ix := isIntegerT_of_isInt x (wf a x ha)
      have iy := isIntegerT_of_isInt y (wf i y hi)
      by_cases hp : x.ty.isPtr = true
      · simp only [hp, if_true] at h
        cases hx : x.ty <;> simp [hx, Ty.isPtr] at hp
        rename_i q b
        simp only [hx] at h
        cases hinc : b.incomplete <;> simp [hinc] at h
        cases hint : y.ty.isInt <;> simp [hint] at h
        cases ht : binopType tg.signedchar .add x y with
        | none => simp [ht] at h
        | some t =>
        have hb := binop_sound tg.signedchar .add x y t (wf a x ha) (wf i y hi) ht
        simp only [Constraints.binop, hx, Ty.isArith, Bool.false_and, Bool.false_or, Bool.or_eq_true] at hb
        rcases hb with hb | hb
        · simp [subscript, hx, hb]
        · simp [subscript, hx, hb]
      · simp only [hp, Bool.false_eq_true, if_false] at h
        cases hy : y.ty <;> simp [hy] at h
        rename_i q b
        cases hinc : b.incomplete <;> simp [hinc] at h
        cases hint : x.ty.isInt <;> simp [hint] at h
        cases ht : binopType tg.signedchar .add y x with
        | none => simp [ht] at h
        | some t =>
        have hb := binop_sound tg.signedchar .add y x t (wf i y hi) (wf a x ha) ht
        simp only [Constraints.binop, hy, Ty.isArith, Bool.false_and, Bool.false_or, Bool.or_eq_true] at hb
        rcases hb with hb | hb
        · simp [subscript, hy, hb]
        · simp [subscript, hy, hb]

end CprocVerif.C10Types

import CprocVerif.Model.Scan
import CprocVerif.Spec.Lex

/-! `pp.c: keyword` — `strcmp` is a strict total order on byte strings and the bisection over a
table sorted by it is a dictionary lookup. -/

namespace CprocVerif.Scan
open CprocVerif.Gen.TokenKinds

theorem strcmp_eq_iff : ∀ (a b : List UInt8), strcmp a b = .eq ↔ a = b := by
  intro a
  induction a with
  | nil => intro b; cases b <;> simp [strcmp]
  | cons x xs ih =>
    intro b
    cases b with
    | nil => simp [strcmp]
    | cons y ys =>
      unfold strcmp
      by_cases h1 : x < y
      · simp only [h1, if_true, reduceCtorEq, false_iff]
        intro h; cases h; exact absurd h1 (UInt8.lt_irrefl _)
      · by_cases h2 : y < x
        · simp only [h1, h2, if_true, if_false, reduceCtorEq, false_iff]
          intro h; cases h; exact absurd h2 (UInt8.lt_irrefl _)
        · have hxy : x = y := by
            have a1 := UInt8.not_lt.mp h1
            have a2 := UInt8.not_lt.mp h2
            exact UInt8.le_antisymm a2 a1
          subst hxy
          simp only [h1, if_false, ih, List.cons.injEq, true_and]

theorem strcmp_swap : ∀ (a b : List UInt8), strcmp a b = .lt ↔ strcmp b a = .gt := by
  intro a
  induction a with
  | nil => intro b; cases b <;> simp [strcmp]
  | cons x xs ih =>
    intro b
    cases b with
    | nil => simp [strcmp]
    | cons y ys =>
      unfold strcmp
      by_cases h1 : x < y
      · have : ¬ y < x := fun h => UInt8.lt_irrefl _ (UInt8.lt_trans h1 h)
        simp [h1, this]
      · by_cases h2 : y < x
        · simp [h1, h2]
        · simp only [h1, h2, if_false]; exact ih ys

theorem strcmp_trans : ∀ (a b c : List UInt8), strcmp a b = .lt → strcmp b c = .lt →
    strcmp a c = .lt := by
  intro a
  induction a with
  | nil =>
    intro b c h1 h2
    cases b with
    | nil => simp [strcmp] at h1
    | cons y ys => cases c with
      | nil => simp [strcmp] at h2
      | cons z zs => simp [strcmp]
  | cons x xs ih =>
    intro b c h1 h2
    cases b with
    | nil => simp [strcmp] at h1
    | cons y ys =>
      cases c with
      | nil => simp [strcmp] at h2
      | cons z zs =>
        unfold strcmp at h1 h2 ⊢
        by_cases a1 : x < y
        · by_cases a2 : y < z
          · simp [UInt8.lt_trans a1 a2]
          · by_cases a3 : z < y
            · simp [a2, a3] at h2
            · have : y = z := UInt8.le_antisymm (UInt8.not_lt.mp a3) (UInt8.not_lt.mp a2)
              subst this; simp [a1]
        · by_cases a1' : y < x
          · simp [a1, a1'] at h1
          · have hxy : x = y := UInt8.le_antisymm (UInt8.not_lt.mp a1') (UInt8.not_lt.mp a1)
            subst hxy
            simp only [a1, if_false] at h1
            by_cases a2 : x < z
            · simp [a2]
            · by_cases a3 : z < x
              · simp [a2, a3] at h2
              · simp only [a2, a3, if_false] at h2 ⊢
                exact ih ys zs h1 h2

/-- sorted strictly ascending by `strcmp` on the key -/
def Sorted (tbl : List (List UInt8 × Kind)) : Prop :=
  tbl.Pairwise (fun a b => strcmp a.1 b.1 = .lt)

theorem sorted_get {tbl : List (List UInt8 × Kind)} (hs : Sorted tbl) {i j : Nat}
    (hi : i < j) (hj : j < tbl.length) :
    strcmp (tbl[i]'(by omega)).1 (tbl[j]).1 = .lt := by
  have := List.pairwise_iff_getElem.mp hs i j (by omega) hj hi
  exact this

/-- invariant of the bisection: every entry with the wanted key lies in `[low, high)` -/
theorem bsearch_spec (tbl : List (List UInt8 × Kind)) (hs : Sorted tbl) (lit : List UInt8) :
    ∀ (n low high : Nat), high ≤ tbl.length → high - low < n →
    (∀ i (h : i < tbl.length), (tbl[i]).1 = lit → low ≤ i ∧ i < high) →
    ∀ k, bsearch tbl lit n low high = some k ↔ (lit, k) ∈ tbl := by
  intro n
  induction n with
  | zero => intro low high _ h; omega
  | succ n ih =>
    intro low high hh hn hinv k
    unfold bsearch
    by_cases hlt : low < high
    · simp only [hlt, if_true]
      have hmid : (low + high) / 2 < tbl.length := by omega
      have hm1 : low ≤ (low + high) / 2 := by omega
      have hm2 : (low + high) / 2 < high := by omega
      rw [List.getElem?_eq_getElem hmid]
      simp only []
      cases hc : strcmp lit (tbl[(low + high) / 2]).1 with
      | eq =>
        simp only [Option.some.injEq]
        have hkey := (strcmp_eq_iff _ _).mp hc
        constructor
        · intro h
          rw [← h, hkey]
          exact List.getElem_mem hmid
        · intro h
          obtain ⟨i, hi, he⟩ := List.getElem_of_mem h
          -- keys are unique in a strictly sorted table
          by_cases hlti : i < (low + high) / 2
          · have := sorted_get hs hlti hmid
            rw [he] at this
            simp only [] at this
            rw [hc] at this; cases this
          · by_cases hgti : (low + high) / 2 < i
            · have := sorted_get hs hgti hi
              rw [he] at this
              simp only [] at this
              have := (strcmp_swap _ _).mp this
              rw [hc] at this; cases this
            · have : i = (low + high) / 2 := by omega
              subst this
              rw [he]
      | lt =>
        simp only []
        refine ih low ((low + high) / 2) (by omega) (by omega) ?_ k
        intro i hi he
        obtain ⟨h1, h2⟩ := hinv i hi he
        refine ⟨h1, ?_⟩
        -- i ≥ mid would make key(mid) ≤ lit
        by_cases hge : i < (low + high) / 2
        · exact hge
        · exfalso
          by_cases heq : i = (low + high) / 2
          · subst heq
            rw [he] at hc
            rw [(strcmp_eq_iff lit lit).mpr rfl] at hc; cases hc
          · have := sorted_get hs (show (low + high) / 2 < i by omega) hi
            rw [he] at this
            have h3 := strcmp_trans _ _ _ hc this
            rw [(strcmp_eq_iff lit lit).mpr rfl] at h3; cases h3
      | gt =>
        simp only []
        refine ih ((low + high) / 2 + 1) high hh (by omega) ?_ k
        intro i hi he
        obtain ⟨h1, h2⟩ := hinv i hi he
        refine ⟨?_, h2⟩
        by_cases hle : (low + high) / 2 + 1 ≤ i
        · exact hle
        · exfalso
          by_cases heq : i = (low + high) / 2
          · subst heq
            rw [he] at hc
            rw [(strcmp_eq_iff lit lit).mpr rfl] at hc; cases hc
          · have := sorted_get hs (show i < (low + high) / 2 by omega) hmid
            rw [he] at this
            have h3 := (strcmp_swap _ _).mpr hc
            have h4 := strcmp_trans _ _ _ this h3
            rw [(strcmp_eq_iff lit lit).mpr rfl] at h4; cases h4
    · simp only [hlt, if_false, reduceCtorEq, false_iff]
      intro h
      obtain ⟨i, hi, he⟩ := List.getElem_of_mem h
      have := hinv i hi (by rw [he])
      omega

/-- on a sorted table the bisection of `keyword` is exactly membership -/
theorem bsearch_mem (tbl : List (List UInt8 × Kind)) (hs : Sorted tbl) (lit : List UInt8) (k : Kind) :
    bsearch tbl lit (tbl.length + 1) 0 tbl.length = some k ↔ (lit, k) ∈ tbl :=
  bsearch_spec tbl hs lit _ 0 tbl.length (Nat.le_refl _) (by omega)
    (fun i h _ => ⟨Nat.zero_le _, h⟩) k

instance : DecidablePred (fun p : (List UInt8 × Kind) × (List UInt8 × Kind) =>
    strcmp p.1.1 p.2.1 = .lt) := fun _ => inferInstance

/-- the generated `keywords[]` is strictly ascending in `strcmp` order (re-checked against the
source on every build) -/
theorem keywords_sorted : Sorted Gen.Keywords.table := by
  unfold Sorted
  decide +kernel

end CprocVerif.Scan

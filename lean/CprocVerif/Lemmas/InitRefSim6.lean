import CprocVerif.Lemmas.InitRefSim5

/-!
# Simulation, part 4: a braced list (`braced` against `listBody`), and the induction on the fuel
-/

namespace CprocVerif.InitSim
open CprocVerif.Init CprocVerif.Image CprocVerif.InitRef

/-- `p.cur = p.sub; p.cur->iscur = true;` -/
def openSt (st : St) : St :=
  ({ st with cur := some st.sub } : St).setSlot st.sub { st.obj st.sub with iscur := true }

theorem listBody_eq (st : St) (its : Items) :
    listBody st its = match parseItems (openSt st) its with
      | .error er => .error er
      | .ok st4 => .ok (closeBrace st4) := rfl

theorem openSt_low (st : St) (j : Nat) (hj : j ≠ st.sub) : (openSt st).obj j = st.obj j := by
  simp [openSt, St.setSlot, hj]

theorem openSt_top (st : St) : (openSt st).obj st.sub = { st.obj st.sub with iscur := true } := by
  simp [openSt, St.setSlot]

theorem openSt_flat {st : St} (hp : Flat st st.sub) : Flat (openSt st) (openSt st).sub := by
  show Flat (openSt st) st.sub
  refine ⟨hp.tinc, ?_⟩
  have := hp.tsize
  unfold St.tsize at this ⊢
  rw [openSt_top]
  exact this

theorem openSt_curOK (st : St) : CurOK (openSt st) := by
  unfold CurOK
  show (match some st.sub with
    | some c => c ≤ st.sub ∧ ((openSt st).obj c).iscur = true ∧ ∀ j, c < j → j < st.sub → ((openSt st).obj j).iscur = false
    | none => ∀ j, j < st.sub → ((openSt st).obj j).iscur = false)
  simp only []
  refine ⟨Nat.le_refl _, by rw [openSt_top], fun j h1 h2 => by omega⟩

theorem openSt_sp {st : St} {pl : Place} (h : SP st st.sub pl) : SP (openSt st) (openSt st).sub pl := by
  show SP (openSt st) st.sub pl
  refine ⟨by rw [openSt_top]; exact h.ty, by rw [openSt_top]; exact h.off, ?_⟩
  rw [← h.bits]
  refine curBits_congr (st := { st with sub := st.sub }) (st' := { openSt st with sub := st.sub }) rfl ?_
  intro h0
  show (openSt st).obj (st.sub - 1) = st.obj (st.sub - 1)
  have h0' : st.sub ≠ 0 := h0
  exact openSt_low st _ (by omega)

/-- the closing brace after the items of the list opened at `st` -/
theorem close_tail {st st4 : St} (hlt : ∀ c, st.cur = some c → c < st.sub) (hco : CurOK st)
    (hf : Frame st.sub (openSt st) st4) (hp : Flat st st.sub)
    (hty : (st4.obj st.sub).ty = ((openSt st).obj st.sub).ty)
    (hoff : (st4.obj st.sub).offset = ((openSt st).obj st.sub).offset) :
    (closeBrace st4).log = st4.log ∧ Frame st.sub st (closeBrace st4) ∧ (closeBrace st4).sub = st.sub ∧
      ((closeBrace st4).obj st.sub).ty = (st.obj st.sub).ty ∧
      ((closeBrace st4).obj st.sub).offset = (st.obj st.sub).offset := by
  have hc4 : st4.cur = some st.sub := hf.cur
  have hp4 : Flat st4 st.sub := (openSt_flat hp).frame hf hty
  rw [closeBrace_eq hc4 hp4.tinc]
  have hprev : prevCur st4 st.sub = st.cur := by
    rw [← prevCur_curOK hco hlt]
    apply prevCur_congr
    intro j hj
    rw [hf.low j hj, openSt_low st j (by omega)]
  rw [openSt_top] at hty hoff
  refine ⟨rfl, ⟨hprev, hf.top, hf.inc, ?_⟩, rfl, hty, hoff⟩
  intro j hj
  show st4.obj j = st.obj j
  rw [hf.low j hj, openSt_low st j (by omega)]

theorem pBraced_step (f : Nat) (ih : ∀ f', f' < f → PAll f') : PBraced f := by
  intro pl its rst rst' hr hn hw hne st st5 hlt hp hco hic hsp hle hb
  cases f with
  | zero => rw [braced.eq_1] at hr; cases hr
  | succ f =>
  rw [listBody_eq] at hb
  cases hpi : parseItems (openSt st) its with
  | error er => rw [hpi] at hb; cases hb
  | ok st4 =>
  rw [hpi] at hb
  cases hb
  have hp3 := openSt_flat hp
  have hco3 := openSt_curOK st
  have hsp3 := openSt_sp hsp
  have hcur3 : (openSt st).cur = some st.sub := rfl
  have hsub3 : (openSt st).sub = st.sub := rfl
  have hlog3 : (openSt st).log = st.log := rfl
  -- the two cases that end in a single `add:`
  have fin : ∀ (e : Expr) (v : Val) (rs : RSt) (sz : Nat), its = .cons [] (.expr e) .nil →
      hit (openSt st) e = .ok (.add v, openSt st) → ((openSt st).obj (openSt st).sub).ty.size = sz →
      LogEq (openSt st) rs → (∀ stp, preStep (openSt st) [] = .ok stp → stp = openSt st) →
      LogEq (closeBrace st4) (wr rs ⟨pl.off, pl.off + sz, pl.before, pl.after, v⟩) ∧ Frame st.sub st (closeBrace st4) ∧
        (closeBrace st4).sub = st.sub ∧
        ((closeBrace st4).obj st.sub).ty = (st.obj st.sub).ty ∧
        ((closeBrace st4).obj st.sub).offset = (st.obj st.sub).offset := by
    intro e v rs sz hits hh hsz hl3 hpre
    subst hits
    obtain ⟨stp, sta, hpre', hbody, hrun2⟩ := run_cons hpi
    have := hpre stp hpre'
    subst this
    have := run_nil hrun2
    subst this
    have hbody' : exprBody 34 (openSt st) e = .ok st4 := hbody
    obtain ⟨haf, hle4⟩ := leaf_add (rest := .nil) hh hsp3 hp3 hco3 hsz hl3 hbody'
    obtain ⟨c1, c2, c3, c5, c6⟩ := close_tail hlt hco haf.frame hp haf.ty haf.off
    exact ⟨by unfold LogEq; rw [c1]; exact hle4, c2, c3, c5, c6⟩
  rcases scalar_or_not pl.ty with ⟨size, k, hty⟩ | hns
  · -- `{ e }` for a scalar
    have hty3 : ((openSt st).obj (openSt st).sub).ty = .scalar size k := hsp3.ty.trans hty
    rcases braced_scalar_ok hty hr with ⟨h1, _⟩ | ⟨e, v, h1, hcv, rfl⟩
    · exact absurd h1 hne
    · have hh : hit (openSt st) e = .ok (.add v, openSt st) := by rw [hit_scalar hty3, hcv]
      have hl3 : LogEq (openSt st) rst := by
        unfold LogEq; rw [hlog3]
        have : isScalarTy pl.ty = true := by rw [hty]; rfl
        rw [this] at hle; exact hle
      exact fin e v rst size h1 hh (by rw [hty3]; first | rfl | skip) hl3
        (fun stp h => by rw [preStep_nil_scalar hcur3 hsub3 hty3] at h; cases h; rfl)
  · have hnsc : isScalarTy pl.ty = false := by
      cases hpt : pl.ty with
      | scalar s k => exact absurd hpt (hns s k)
      | array n e => rfl
      | agg u t s m => rfl
    have hl3 : LogEq (openSt st) (zeroed rst pl) := by
      unfold LogEq; rw [hlog3]
      rw [hnsc] at hle; exact hle
    by_cases hs : isStrInit pl.ty its
    · -- `{ "..." }` for a character array
      obtain ⟨n, es, cls, sg, w, scls, cs, hty, hits⟩ := hs
      have hty3 : ((openSt st).obj (openSt st).sub).ty = .array n (.scalar es (.int cls sg)) := hsp3.ty.trans hty
      subst hits
      rw [braced_str hty] at hr
      cases hi : initOne f pl (.expr (.str w scls cs)) .nil (zeroed rst pl) with
      | error er => rw [hi] at hr; cases hr
      | ok x =>
      rw [hi] at hr
      cases hr
      cases f with
      | zero => rw [initOne.eq_1] at hi; cases hi
      | succ f0 =>
      rw [initOne.eq_4 _ _ _ _ _ _ _ _ _ _ _ hty] at hi
      split at hi
      · cases hi
      · rename_i hbad
        simp only [hw.unb, Bool.false_eq_true, if_false] at hi
        cases hi
        have hh : hit (openSt st) (.str w scls cs) = .ok (.add (.str w cs), openSt st) := by
          rw [hit_str hty3 hp3.tinc, if_neg hbad]
        have hbits := hw.bits hnsc
        have := fin (.str w scls cs) (.str w cs) (zeroed rst pl) (n * es) rfl hh
          (by rw [hty3]; first | rfl | skip) hl3
          (fun stp h => by rw [preStep_nil_array hcur3 hsub3 hty3] at h; cases h; rfl)
        rw [hbits.1, hbits.2] at this
        exact this
    · -- the members / elements in order
      rw [braced_loop hns hs] at hr
      obtain ⟨r1, r2, r4, r5⟩ := (ih f (Nat.lt_succ_self _)).2.2.2.1 pl 0 its (zeroed rst pl) rst' hr
        (by rw [hn, zeroed_nswitch]) hw (openSt st) st4 st.sub hcur3 hp3 hco3 hsp3.ty hsp3.off
        (fun _ => ⟨rfl, by rw [zeroed_log, hw.unb]; exact zeroReg_zlog _ _ _⟩) (fun p hp => by omega) hl3 hpi
      obtain ⟨c1, c2, c3, c5, c6⟩ := close_tail hlt hco r2 hp r4 r5
      exact ⟨by unfold LogEq; rw [c1]; exact r1, c2, c3, c5, c6⟩

/-- the four simulation statements, for every amount of fuel -/
theorem pAll (f : Nat) : PAll f := by
  induction f using Nat.strongRecOn with
  | _ f ih => exact ⟨pInit_step f ih, pCont_step f ih, pBraced_step f ih, pLoop_step f ih, pDesig_step f ih⟩

end CprocVerif.InitSim

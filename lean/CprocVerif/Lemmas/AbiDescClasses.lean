import CprocVerif.Lemmas.AbiDescSig

/-!
# Lemmas for C08, part 9: a `good` type is in none of the excluded classes
-/

namespace CprocVerif.AbiDesc
open CprocVerif.Layout CprocVerif.Abi CprocVerif.QbeLayout

theorem aggFlexible_any : ∀ (ds : List Decl), aggFlexible ds = ds.any (fun d => d.ty.incomplete || d.ty.flexible)
  | [] => rfl
  | d :: ds => by simp only [aggFlexible, List.any_cons, aggFlexible_any ds, Bool.or_assoc]

theorem existsPairB_false {α : Type} (r s : α → α → Bool) (h : ∀ a b, r a b = true → s a b = true → False) :
    ∀ (l : List α), pairwiseB s l = true → existsPairB r l = false
  | [], _ => rfl
  | a :: as, hp => by
    simp only [pairwiseB, Bool.and_eq_true, List.all_eq_true] at hp
    simp only [existsPairB, Bool.or_eq_false_iff, existsPairB_false r s h as hp.2, and_true]
    apply Bool.eq_false_iff.2
    intro hany
    obtain ⟨b, hb, hr⟩ := List.any_eq_true.1 hany
    exact h a b hr (hp.1 b hb)

theorem smaller_not_rel (a b : Member) : smallerUnit a b = true → unitRel a b = true → False := by
  simp only [smallerUnit, unitRel, sameUnit, Bool.and_eq_true, Bool.or_eq_true, decide_eq_true_eq, beq_iff_eq]
  rintro ⟨⟨_, h1⟩, h2⟩ (⟨⟨_, _⟩, h3⟩ | h3) <;> omega

theorem inside_not_rel (a b : Member) : startsInside a b = true → unitRel a b = true → False := by
  simp only [startsInside, unitRel, sameUnit, Bool.and_eq_true, Bool.or_eq_true, decide_eq_true_eq, beq_iff_eq]
  rintro ⟨⟨_, h1⟩, h2⟩ (⟨⟨_, h4⟩, _⟩ | h3) <;> omega

theorem overlap_not_rel (a b : Member) : overlapsEarlier a b = true → unitRel a b = true → False := by
  simp only [overlapsEarlier, unitRel, Bool.and_eq_true, Bool.or_eq_true, decide_eq_true_eq, Bool.not_eq_true']
  rintro ⟨⟨_, h1⟩, h2⟩ (h3 | h3)
  · rw [h2] at h3; cases h3
  · omega

mutual
  theorem classes_good (T : Target) : ∀ (t : AType), good t = true → classes T t = []
    | .sc s, h => by
      simp only [good, decide_eq_true_eq] at h
      simp only [classes, h, ↓reduceIte]
    | .blob s a d, h => by
      simp only [good, Bool.and_eq_true] at h
      simp only [classes, h.1.1.1.1, ↓reduceIte]
    | .array e none, h => by simp [good] at h
    | .array e (some n), h => by
      have hg := h
      simp only [good, Bool.and_eq_true, decide_eq_true_eq] at h
      have hn : n ≠ 0 := by omega
      simp only [classes, hn, ↓reduceIte, List.nil_append, classes_good T e h.1.1]
    | .su u p fs, h => by
      have hnf := (pt (.su u p fs) h).noflex
      simp only [good, Bool.and_eq_true, Bool.not_eq_true', Bool.or_eq_true] at h
      obtain ⟨⟨⟨⟨hp, hgf⟩, _⟩, hok⟩, hchain⟩ := h
      subst hp
      have hn : ∀ d ∈ Abi.decls x86_64 (eraseF fs), d.unnamedBf = false := fun d hd =>
        unnamedBf_of_declOk (List.all_eq_true.1 hok d hd)
      have hflex : aggFlexible (Abi.decls x86_64 (eraseF fs)) = false := by
        have : (ti (.su u false fs)).flexible = aggFlexible (Abi.decls x86_64 (eraseF fs)) := by
          simp only [ti, erase, Abi.tinfo, Abi.layout]
          cases u <;> rfl
        rw [← this]; exact hnf
      rw [aggFlexible_any] at hflex
      have h1 : (Abi.decls x86_64 (eraseF fs)).any (fun d => decide (d.ty.align < d.align)) = false := by
        apply Bool.eq_false_iff.2
        intro hany
        obtain ⟨d, hd, hr⟩ := List.any_eq_true.1 hany
        have := List.all_eq_true.1 hok d hd
        simp only [declOk, Bool.and_eq_true, decide_eq_true_eq] at this hr
        omega
      have h2 : (Abi.decls x86_64 (eraseF fs)).any Decl.isUnnamedBf = false := by
        apply Bool.eq_false_iff.2
        intro hany
        obtain ⟨d, hd, hr⟩ := List.any_eq_true.1 hany
        have := hn d hd
        simp only [Decl.isUnnamedBf, Decl.unnamedBf] at hr this
        rw [this] at hr; cases hr
      simp only [classes, decls_target T fs hgf, layout_target hn, classesF_good T fs hgf, List.append_nil,
        nodeClasses, Bool.false_eq_true, ↓reduceIte, h1, h2, hflex, List.nil_append]
      cases u with
      | true => simp
      | false =>
        have hch : pairwiseB unitRel (Abi.layout x86_64 false false (Abi.decls x86_64 (eraseF fs))).members = true := by
          rcases hchain with h | h
          · cases h
          · exact h
        simp only [Bool.not_false, Bool.true_and, hch, Bool.not_true, Bool.false_eq_true, ↓reduceIte,
          existsPairB_false _ _ smaller_not_rel _ hch, existsPairB_false _ _ inside_not_rel _ hch,
          existsPairB_false _ _ overlap_not_rel _ hch, List.append_nil]
  theorem classesF_good (T : Target) : ∀ (fs : AFields), goodF fs = true → classesF T fs = []
    | .nil, _ => rfl
    | .cons name ty al w rest, h => by
      simp only [goodF, Bool.and_eq_true] at h
      simp only [classesF, classes_good T ty h.1, classesF_good T rest h.2, List.append_nil]
end

end CprocVerif.AbiDesc

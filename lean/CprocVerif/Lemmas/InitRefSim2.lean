import CprocVerif.Lemmas.InitRefSim1
import CprocVerif.Lemmas.InitRefDesig

/-!
# The simulation statements and the lemmas shared by their proofs
-/

namespace CprocVerif.InitSim
open CprocVerif.Init CprocVerif.Image CprocVerif.InitRef

/-- the model's log (an `initclear` read as a write of zeros) and the reference's writes denote
the same image -/
def LogEq (st : St) (rst : RSt) : Prop := ImgEq (st.log.map evWrite) rst.log

def HeadPlain (its : Items) : Prop := ∃ i r, its = .cons [] i r

/-- the machine after the object at slot `m` has been initialised (the items `rest'` follow) -/
structure After (m : Nat) (st st' : St) (rest' : Items) : Prop where
  frame : Frame m st st'
  le : m ≤ st'.sub
  curok : CurOK st'
  ty : (st'.obj m).ty = (st.obj m).ty
  off : (st'.obj m).offset = (st.obj m).offset
  exh : HeadPlain rest' → ∀ j, m ≤ j → j < st'.sub → Exh st' j

def BodyRun (pf : Nat) (st : St) (ini : Ini) (st1 : St) : Prop :=
  match ini with
  | .expr e => exprBody pf st e = .ok st1
  | .list its => itemBody st (.list its) = .ok st1

def PInit (f : Nat) : Prop :=
  ∀ pl ini rest rst rest' rst', initOne f pl ini rest rst = .ok (rest', rst') → rst'.nswitch = rst.nswitch →
    PlWf pl →
  ∀ st st1 stf pf c, st.cur = some c → c < st.sub → CurOK st → (st.obj st.sub).iscur = false →
    SP st st.sub pl → LogEq st rst → BodyRun pf st ini st1 → Run st1 rest stf →
  ∃ st', Run st' rest' stf ∧ After st.sub st st' rest' ∧ LogEq st' rst'

def PCont (f : Nat) : Prop :=
  ∀ pl pos its rst rest' rst', contAgg f pl (pos + 1) its rst = .ok (rest', rst') → rst'.nswitch = rst.nswitch →
    PlWf pl →
  ∀ st stf k c ch, st.cur = some c → c < k → k < st.sub → CurOK st → Lvl st k pl pos ch →
    (HeadPlain its → ∀ j, k < j → j < st.sub → Exh st j) → LogEq st rst → Run st its stf →
  ∃ st', Run st' rest' stf ∧ After k st st' rest' ∧ k < st'.sub ∧ LogEq st' rst'

def PBraced (f : Nat) : Prop :=
  ∀ pl its rst rst', braced f pl its rst = .ok rst' → rst'.nswitch = rst.nswitch →
    PlWf pl → its ≠ .nil →
  ∀ st st5, (∀ c, st.cur = some c → c < st.sub) → Flat st st.sub → CurOK st → (st.obj st.sub).iscur = false →
    SP st st.sub pl →
    ImgEq (st.log.map evWrite) (if isScalarTy pl.ty then rst.log else (zeroed rst pl).log) →
    listBody st its = .ok st5 →
  LogEq st5 rst' ∧ Frame st.sub st st5 ∧ st5.sub = st.sub ∧
    (st5.obj st.sub).ty = (st.obj st.sub).ty ∧ (st5.obj st.sub).offset = (st.obj st.sub).offset

def PLoop (f : Nat) : Prop :=
  ∀ pl pos its rst rst', loopB f pl pos its rst = .ok rst' → rst'.nswitch = rst.nswitch →
    PlWf pl →
  ∀ st stf c, st.cur = some c → Flat st c → CurOK st → (st.obj c).ty = pl.ty → (st.obj c).offset = pl.off →
    (pos = 0 → st.sub = c ∧ ZeroReg rst.log pl.off pl.ty.size) →
    (∀ p, pos = p + 1 → c < st.sub ∧ (∃ ch, Lvl st c pl p ch) ∧
      (HeadPlain its → ∀ j, c < j → j < st.sub → Exh st j)) →
    LogEq st rst → Run st its stf →
  LogEq stf rst' ∧ Frame c st stf ∧ (stf.obj c).ty = (st.obj c).ty ∧
    (stf.obj c).offset = (st.obj c).offset

def PDesig (f : Nat) : Prop :=
  ∀ pl ps ds i rest rst rest' rst', desigPath f pl ps ds i rest rst = .ok (rest', rst') →
    rst'.nswitch = rst.nswitch → PlWf pl →
  ∀ st st1 stf m c, DRel st m pl ps ds → st.cur = some c → c < m → CurOK st →
    (st.obj st.sub).iscur = false → LogEq st rst → BodyRun 34 st i st1 → Run st1 rest stf →
  ∃ st', Run st' rest' stf ∧ After m st st' rest' ∧ LogEq st' rst'

def PAll (f : Nat) : Prop := PInit f ∧ PCont f ∧ PBraced f ∧ PLoop f ∧ PDesig f

/-! ## helpers -/

/-- pushing slot `k + 1` keeps `CurOK` -/
theorem curOK_step {st st' : St} {c k : Nat} (h : CurOK st) (hc : st.cur = some c) (hck : c ≤ k) (hk : k ≤ st.sub)
    (hf : Frame k st st') (hi : (st'.obj k).iscur = (st.obj k).iscur) (hs : st'.sub = k + 1)
    (hfresh : c < k → (st.obj k).iscur = false) : CurOK st' := by
  unfold CurOK at h ⊢
  rw [hf.cur, hc]
  rw [hc] at h
  simp only [] at h ⊢
  refine ⟨by omega, ?_, ?_⟩
  · by_cases hck' : c = k
    · subst hck'; rw [hi]; exact h.2.1
    · rw [hf.low c (by omega)]; exact h.2.1
  · intro j h1 h2
    by_cases hjk : j = k
    · subst hjk; rw [hi]; exact hfresh h1
    · rw [hf.low j (by omega)]; exact h.2.2 j h1 (by omega)

/-- a step that ends at the slot it started from keeps `CurOK` -/
theorem curOK_frame {st st' : St} {m : Nat} (h : CurOK st) (hf : Frame m st st') (hs : st.sub = m) (hs' : st'.sub = m)
    (hlt : ∀ c, st.cur = some c → c < m) : CurOK st' := by
  unfold CurOK at h ⊢
  rw [hf.cur]
  cases hc : st.cur with
  | none =>
    rw [hc] at h
    intro j hj
    rw [hf.low j (by omega)]; exact h j (by omega)
  | some c =>
    rw [hc] at h
    simp only [] at h ⊢
    have := hlt c hc
    refine ⟨by omega, by rw [hf.low c this]; exact h.2.1, ?_⟩
    intro j h1 h2
    rw [hf.low j (by omega)]; exact h.2.2 j h1 (by omega)

theorem braceClear_fields (st : St) :
    (braceClear st).sub = st.sub ∧ (braceClear st).cur = st.cur ∧ (braceClear st).obj = st.obj ∧
    (braceClear st).top = st.top ∧ (braceClear st).inc = st.inc := by
  unfold braceClear
  dsimp only []
  split <;> split <;> exact ⟨rfl, rfl, rfl, rfl, rfl⟩

/-- `initclear` at an opening brace against `zeroIfDirty` -/
theorem braceClear_logEq {st : St} {rst : RSt} {pl : Place} {c : Nat} (hc : st.cur = some c) (hp : Flat st st.sub)
    (hw : PlWf pl) (hty : (st.obj st.sub).ty = pl.ty) (hoff : (st.obj st.sub).offset = pl.off) (h : LogEq st rst) :
    ImgEq ((braceClear st).log.map evWrite) (if isScalarTy pl.ty then rst.log else (zeroed rst pl).log) := by
  cases hs : isScalarTy pl.ty with
  | true =>
    rw [braceClear_scalar (by rw [hty]; exact hs)]
    simp only [if_true]
    exact h
  | false =>
    rw [braceClear_clear hc hp (by rw [hty]; exact hs)]
    simp only [Bool.false_eq_true, if_false]
    rw [zeroed_log, hw.unb, map_evWrite_append, evWrite_clear, hoff, hty]
    exact imgEq_clear_zlog h _ _

theorem headPlain_nil : ¬ HeadPlain .nil := by
  intro ⟨i, r, h⟩; cases h

/-- the three ways an expression is stored at the cursor (`add:`) -/
theorem leaf_add {st st1 : St} {pl : Place} {e : Expr} {v : Val} {pf : Nat} {rst : RSt} {rest : Items} {sz : Nat}
    (hh : hit st e = .ok (.add v, st)) (hsp : SP st st.sub pl) (hp : Flat st st.sub) (hc : CurOK st)
    (hsz : (st.obj st.sub).ty.size = sz) (hl : LogEq st rst) (hb : exprBody pf st e = .ok st1) :
    After st.sub st st1 rest ∧ LogEq st1 (wr rst ⟨pl.off, pl.off + sz, pl.before, pl.after, v⟩) := by
  cases pf with
  | zero => exact absurd hb (exprBody_zero _ _ _)
  | succ pf =>
    have hbits : curBits st = .ok (pl.before, pl.after) := hsp.bits
    rw [exprBody_add pf hh hbits hp] at hb
    cases hb
    refine ⟨⟨⟨rfl, rfl, rfl, fun _ _ => rfl⟩, Nat.le_refl _, hc, rfl, rfl, ?_⟩, ?_⟩
    · intro _ j h1 h2
      have : (addSt st pl.before pl.after v).sub = st.sub := rfl
      omega
    · unfold LogEq
      show ImgEq ((st.log ++ [Ev.add _]).map evWrite) (rst.log ++ [_])
      rw [map_evWrite_append, hp.tsize, hsz, hsp.off]
      exact hl.snoc _

end CprocVerif.InitSim

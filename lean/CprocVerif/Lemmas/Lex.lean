import CprocVerif.Spec.Lex

/-! Lemmas about the 6.4 reference itself (no model involved): closed forms for the longest
identifier / pp-number prefix. -/

namespace CprocVerif.Spec.Lex

/-- facts about single bytes are decided by running through all 256 of them -/
theorem forall_uint8 {P : UInt8 → Prop} (h : ∀ n : Fin 256, P (UInt8.ofNat n.val)) : ∀ c, P c := by
  intro c
  have := h ⟨c.toNat, c.toNat_lt⟩
  simpa using this

theorem all_takeWhile (p : UInt8 → Bool) : ∀ (l : List UInt8), ∀ x ∈ l.takeWhile p, p x = true := by
  intro l
  induction l with
  | nil => simp
  | cons a l ih =>
    intro x hx
    simp only [List.takeWhile_cons] at hx
    split at hx
    · rcases List.mem_cons.mp hx with h | h
      · subst h; assumption
      · exact ih x h
    · simp at hx

theorem prefix_all_le_takeWhile (p : UInt8 → Bool) :
    ∀ (r v : List UInt8), v <+: r → (∀ x ∈ v, p x = true) → v.length ≤ (r.takeWhile p).length := by
  intro r
  induction r with
  | nil => intro v hv _; simp [List.prefix_nil.mp hv]
  | cons a r ih =>
    intro v hv hall
    cases v with
    | nil => simp
    | cons b v =>
      have hb := (List.cons_prefix_cons.mp hv)
      have hpa : p a = true := by rw [← hb.1]; exact hall b (by simp)
      simp only [List.takeWhile_cons, hpa, if_true, List.length_cons]
      have := ih v hb.2 (fun x hx => hall x (by simp [hx]))
      omega

/-- the longest identifier at the start of `c :: r` (for `c` a nondigit) is `c` followed by the
maximal run of identifier characters -/
theorem isLongest_ident (c : UInt8) (r : List UInt8) (hc : isNondigit c = true) :
    IsLongest IsIdentifier (c :: r) (c :: r.takeWhile isIdentCont) := by
  refine ⟨?_, ⟨c, _, rfl, hc, ?_⟩, ?_⟩
  · exact List.cons_prefix_cons.mpr ⟨rfl, List.takeWhile_prefix _⟩
  · intro d hd; exact all_takeWhile _ _ d hd
  · intro v hv ⟨c', r', hv', _, hall⟩
    subst hv'
    have h := List.cons_prefix_cons.mp hv
    have := prefix_all_le_takeWhile isIdentCont r r' h.2 hall
    simp only [List.length_cons]; omega

/-- an identifier starts with a nondigit -/
theorem IsIdentifier.head {c : UInt8} {r : List UInt8} (h : IsIdentifier (c :: r)) :
    isNondigit c = true := by
  obtain ⟨c', r', h1, h2, _⟩ := h
  cases h1; exact h2

/-! ## pp-numbers -/

def isItem (c : UInt8) : Bool := isDigit c || isNondigit c || c = c! '.'

/-- length of the longest `PPTail` prefix (greedy) -/
def ppTailLen : List UInt8 → Nat
  | [] => 0
  | [c] => if isItem c then 1 else 0
  | e :: s :: r =>
    if isExpLetter e ∧ isSign s then 2 + ppTailLen r
    else if isItem e then 1 + ppTailLen (s :: r) else 0

theorem ppTailLen_pair (e s : UInt8) (r : List UInt8) :
    ppTailLen (e :: s :: r) =
      if isExpLetter e ∧ isSign s then 2 + ppTailLen r
      else if isItem e then 1 + ppTailLen (s :: r) else 0 := by
  rw [ppTailLen]

theorem ppTailLen_one (c : UInt8) : ppTailLen [c] = if isItem c then 1 else 0 := by
  rw [ppTailLen]

theorem isItem_iff (c : UInt8) :
    isItem c = true ↔ (isDigit c = true ∨ isNondigit c = true ∨ c = c! '.') := by
  simp [isItem, Bool.or_eq_true, or_assoc]

theorem sign_not_item : ∀ {s : UInt8}, isSign s = true → isItem s = false := by
  intro s; revert s; apply forall_uint8; decide +kernel

theorem sign_not_exp : ∀ {s : UInt8}, isSign s = true → isExpLetter s = false := by
  intro s; revert s; apply forall_uint8; decide +kernel

theorem exp_is_item : ∀ {e : UInt8}, isExpLetter e = true → isItem e = true := by
  intro s; revert s; apply forall_uint8; decide +kernel

theorem PPTail.not_sign_head {s : UInt8} {r : List UInt8} (hs : isSign s = true) :
    ¬ PPTail (s :: r) := by
  intro h
  cases h with
  | one _ _ hi _ => have := sign_not_item hs; rw [(isItem_iff s).mpr hi] at this; cases this
  | exp _ _ _ he _ _ => rw [sign_not_exp hs] at he; cases he

theorem ppTail_take : ∀ cs : List UInt8, PPTail (cs.take (ppTailLen cs)) := by
  intro cs
  fun_induction ppTailLen cs with
  | case1 => exact .nil
  | case2 c h => simp only [List.take_succ_cons, List.take_zero]; exact .one _ _ ((isItem_iff c).mp h) .nil
  | case3 c h => exact .nil
  | case4 e s r h ih =>
    simp only [show 2 + ppTailLen r = (ppTailLen r + 1) + 1 by omega, List.take_succ_cons]
    exact .exp _ _ _ h.1 h.2 ih
  | case5 e s r h hi ih =>
    simp only [show 1 + ppTailLen (s :: r) = ppTailLen (s :: r) + 1 by omega, List.take_succ_cons]
    exact .one _ _ ((isItem_iff e).mp hi) ih
  | case6 e s r h hi => exact .nil

theorem ppTail_le : ∀ (v : List UInt8), PPTail v → ∀ cs, v <+: cs → v.length ≤ ppTailLen cs := by
  intro v hv
  induction hv with
  | nil => intro cs _; simp
  | one c v hi _ ih =>
    intro cs hp
    cases cs with
    | nil => simp at hp
    | cons c' cs' =>
      have h := List.cons_prefix_cons.mp hp
      have hc : c' = c := h.1.symm
      subst hc
      have hitem := (isItem_iff c').mpr hi
      cases cs' with
      | nil =>
        have : v = [] := List.prefix_nil.mp h.2
        simp [this, ppTailLen, hitem]
      | cons s r =>
        unfold ppTailLen
        split
        · rename_i hes
          -- `c' s` is an exponent pair: `v` cannot continue with the sign alone
          rename_i hv'
          cases v with
          | nil => simp; omega
          | cons s' v' =>
            have h2 := List.cons_prefix_cons.mp h.2
            rw [h2.1] at hv'
            exact absurd hv' (PPTail.not_sign_head hes.2)
        · simp only [List.length_cons]
          have := ih _ h.2
          omega
  | exp e s v he hs _ ih =>
    intro cs hp
    match cs, hp with
    | [], hp => simp at hp
    | [_], hp =>
      have h := List.cons_prefix_cons.mp hp
      simp at h
    | e' :: s' :: r, hp =>
      have h := List.cons_prefix_cons.mp hp
      have h2 := List.cons_prefix_cons.mp h.2
      rw [← h.1, ← h2.1]
      unfold ppTailLen
      simp only [he, hs, and_self, if_true, List.length_cons]
      have := ih _ h2.2
      omega

theorem ppTailLen_le (cs : List UInt8) : ppTailLen cs ≤ cs.length := by
  fun_induction ppTailLen cs <;> simp only [List.length_cons, List.length_nil] at * <;> omega

theorem isLongest_ppTail (cs : List UInt8) : IsLongest PPTail cs (cs.take (ppTailLen cs)) :=
  ⟨List.take_prefix _ _, ppTail_take cs, fun v hv hp => by
    have h1 := ppTail_le v hp cs hv
    have h2 := ppTailLen_le cs
    simp only [List.length_take]; omega⟩

theorem digit_ne_dot : ∀ {d : UInt8}, isDigit d = true → d ≠ c! '.' := by
  intro s; revert s; apply forall_uint8; decide +kernel

/-- longest pp-number starting with a digit -/
theorem isLongest_ppNumber_digit (d : UInt8) (r : List UInt8) (hd : isDigit d = true) :
    IsLongest PPNumber (d :: r) (d :: r.take (ppTailLen r)) := by
  refine ⟨List.cons_prefix_cons.mpr ⟨rfl, List.take_prefix _ _⟩, .digit d _ hd (ppTail_take r), ?_⟩
  intro v hv hp
  cases hp with
  | digit d' v' _ ht =>
    have h := List.cons_prefix_cons.mp hv
    have := ppTail_le v' ht r h.2
    have := ppTailLen_le r
    simp only [List.length_cons, List.length_take]; omega
  | dot d' v' _ _ =>
    have h := List.cons_prefix_cons.mp hv
    exact absurd h.1.symm (digit_ne_dot hd)

/-- longest pp-number starting with `.` digit -/
theorem isLongest_ppNumber_dot (d : UInt8) (r : List UInt8) (hd : isDigit d = true) :
    IsLongest PPNumber (c! '.' :: d :: r) (c! '.' :: d :: r.take (ppTailLen r)) := by
  refine ⟨List.cons_prefix_cons.mpr ⟨rfl, List.cons_prefix_cons.mpr ⟨rfl, List.take_prefix _ _⟩⟩,
    .dot d _ hd (ppTail_take r), ?_⟩
  intro v hv hp
  cases hp with
  | digit d' v' hd' _ =>
    have h := List.cons_prefix_cons.mp hv
    exact absurd h.1 (digit_ne_dot hd')
  | dot d' v' _ ht =>
    have h := List.cons_prefix_cons.mp hv
    have h2 := List.cons_prefix_cons.mp h.2
    have := ppTail_le v' ht r h2.2
    have := ppTailLen_le r
    simp only [List.length_cons, List.length_take]; omega

/-! ## comments -/

theorem findCommentEnd_first : ∀ (body rest : List UInt8),
    ¬ (b!"*/" <:+: body ++ [c! '*']) →
    findCommentEnd (body ++ b!"*/" ++ rest) = some (body.length + 2) := by
  intro body
  induction body with
  | nil => intro rest _; simp [findCommentEnd]
  | cons a body ih =>
    intro rest h
    have h' : ¬ (b!"*/" <:+: body ++ [c! '*']) := by
      intro hi
      apply h
      obtain ⟨x, y, e⟩ := hi
      exact ⟨a :: x, y, by simp [← e]⟩
    have hne : ¬ (a = c! '*' ∧ (body ++ b!"*/" ++ rest).head? = some (c! '/')) := by
      intro ⟨h1, h2⟩
      apply h
      cases body with
      | nil => simp at h2
      | cons b body' =>
        simp only [List.cons_append, List.head?_cons, Option.some.injEq] at h2
        subst h1 h2
        exact ⟨[], body' ++ [c! '*'], by simp⟩
    cases hb : body ++ b!"*/" ++ rest with
    | nil => simp at hb
    | cons b t =>
      have e : (a :: body) ++ b!"*/" ++ rest = a :: b :: t := by
        simp only [List.cons_append, List.append_assoc] at hb ⊢; rw [hb]
      rw [e, findCommentEnd]
      rw [hb] at hne
      simp only [List.head?_cons, Option.some.injEq] at hne
      simp only [hne, if_false]
      rw [← hb, ih rest h']
      simp

/-- the line comment ends right before the first new-line -/
theorem dropWhile_ne_nl (body rest : List UInt8) (h : NL ∉ body) :
    (body ++ NL :: rest).dropWhile (· ≠ NL) = NL :: rest := by
  induction body with
  | nil => simp
  | cons a body ih =>
    have ha : a ≠ NL := fun e => h (by simp [e])
    have hb : NL ∉ body := fun e => h (by simp [e])
    have := ih hb
    simp only [List.cons_append, List.dropWhile_cons, ne_eq, ha, not_false_eq_true, decide_true, if_true]
    exact this

theorem dropWhile_ne_nl_eof (body : List UInt8) (h : NL ∉ body) :
    body.dropWhile (· ≠ NL) = [] := by
  induction body with
  | nil => simp
  | cons a body ih =>
    have ha : a ≠ NL := fun e => h (by simp [e])
    have hb : NL ∉ body := fun e => h (by simp [e])
    have := ih hb
    simp only [List.cons_append, List.dropWhile_cons, ne_eq, ha, not_false_eq_true, decide_true, if_true]
    exact this

end CprocVerif.Spec.Lex

import CprocVerif.Model.Init

/-!
# Lemmas about `initadd` (the sorted list of `init.c`)
-/

namespace CprocVerif.Init

/-! ## Relations between bit ranges -/

/-- disjoint bit ranges -/
def Disj (a b : Init) : Prop := a.hi ≤ b.lo ∨ b.hi ≤ a.lo
/-- the bit range of `a` lies inside the bit range of `b` -/
def Inside (a b : Init) : Prop := b.lo ≤ a.lo ∧ a.hi ≤ b.hi
/-- same bit range -/
def SameRange (a b : Init) : Prop := a.lo = b.lo ∧ a.hi = b.hi

/-- width of the elements when the value is a string literal -/
def strW : Val → Option Nat
  | .str w _ => some w
  | _ => none

/-- `b` initialises exactly one element of the string `a` (the only nesting `emitdata` supports:
its two `assert`s and the `switch` on the element size). -/
def PatchOK (a b : Init) : Prop :=
  ∃ w, strW a.val = some w ∧ (w = 1 ∨ w = 2 ∨ w = 4) ∧ (∃ w' u, b.val = .int w' u) ∧
    a.before = 0 ∧ a.after = 0 ∧ b.before = 0 ∧ b.after = 0 ∧ b.stop = b.start + w ∧
    a.start ≤ b.start ∧ b.stop ≤ a.stop ∧ (b.start - a.start) % w = 0

/-- An earlier initialiser `a` and a later one `b`: disjoint, or the later one covers the earlier
one, or the later one is an element of the earlier string.  (Anything else — partial overlap, a
scalar nested in a scalar — needs sub-members of different union members; it is the case the XXX
comment in `emitdata` talks about.) -/
def Lam (a b : Init) : Prop := Disj a b ∨ Inside a b ∨ (Inside b a ∧ PatchOK a b)

/-- every earlier/later pair of the sequence is `Lam` -/
def Laminar (l : List Init) : Prop := l.Pairwise Lam

/-- list order: sorted by first bit; a later cell is either behind the earlier one or a proper
part of it (and then an element of that string). -/
def ListOrd (a b : Init) : Prop :=
  a.lo ≤ b.lo ∧ (a.hi ≤ b.lo ∨ (b.hi ≤ a.hi ∧ ¬ SameRange a b ∧ PatchOK a b))

/-- The invariant of the list that `initadd` maintains. -/
def Forest (l : List Init) : Prop := l.Pairwise ListOrd

def NonEmpty (i : Init) : Prop := i.lo < i.hi

/-! ## `initaddGo` -/

theorem initaddGo_sublist (new : Init) (l : List Init) :
    ((initaddGo new l).1 ++ (initaddGo new l).2).Sublist l := by
  induction l with
  | nil => simp [initaddGo]
  | cons old rest ih =>
    unfold initaddGo
    split
    · simpa using ih.cons_cons old
    · split
      · simp
      · split
        · simp only [List.nil_append]
          exact ((List.dropWhile_sublist _).cons old)
        · simpa using ih.cons_cons old

theorem mem_initadd {new x : Init} {l : List Init} (h : x ∈ initadd l new) : x = new ∨ x ∈ l := by
  unfold initadd at h
  rw [List.mem_append, List.mem_cons] at h
  rcases h with h | h | h
  · exact .inr ((initaddGo_sublist new l).subset (List.mem_append_left _ h))
  · exact .inl h
  · exact .inr ((initaddGo_sublist new l).subset (List.mem_append_right _ h))

/-- The cells that stay in front of `new` end before it or properly contain it. -/
theorem initaddGo_fst {new : Init} {l : List Init} (hl : ∀ o ∈ l, Lam o new ∧ NonEmpty o) :
    ∀ a ∈ (initaddGo new l).1,
      a.lo ≤ new.lo ∧ (a.hi ≤ new.lo ∨ (new.hi ≤ a.hi ∧ ¬ SameRange a new ∧ PatchOK a new)) := by
  induction l with
  | nil => simp [initaddGo]
  | cons old rest ih =>
    have ih' := ih (fun o ho => hl o (List.mem_cons_of_mem _ ho))
    obtain ⟨hlam, hne⟩ := hl old List.mem_cons_self
    unfold NonEmpty at hne
    unfold initaddGo
    split
    · rename_i h1
      intro a ha
      rcases List.mem_cons.1 ha with rfl | ha
      · exact ⟨by omega, .inl h1⟩
      · exact ih' a ha
    · split
      · simp
      · split
        · simp
        · rename_i h1 h2 h3
          intro a ha
          rcases List.mem_cons.1 ha with rfl | ha
          · rcases hlam with hd | hs | ⟨hs, hp⟩
            · unfold Disj at hd; omega
            · unfold Inside at hs; omega
            · unfold Inside at hs
              refine ⟨hs.1, .inr ⟨hs.2, ?_, hp⟩⟩
              unfold SameRange; omega
          · exact ih' a ha

/-- helper for the `do … while` loop. -/
theorem dropWhile_after {new : Init} {rest : List Init}
    (hs : rest.Pairwise (fun a b => a.lo ≤ b.lo))
    (hr : ∀ x ∈ rest, Lam x new ∧ NonEmpty x ∧ new.lo ≤ x.lo ∧ ¬ (x.lo ≤ new.lo ∧ new.hi < x.hi))
    (hn : NonEmpty new) :
    ∀ b ∈ rest.dropWhile (fun o => decide (o.hi ≤ new.hi)), new.hi ≤ b.lo := by
  induction rest with
  | nil => simp
  | cons x xs ih =>
    rw [List.pairwise_cons] at hs
    rw [List.dropWhile_cons]
    split
    · exact ih hs.2 (fun y hy => hr y (List.mem_cons_of_mem _ hy))
    · rename_i hx
      simp only [decide_eq_true_eq] at hx
      obtain ⟨hlam, hne, hlo, hcov⟩ := hr x List.mem_cons_self
      unfold NonEmpty at hne hn
      have hx1 : new.hi ≤ x.lo := by
        rcases hlam with hd | hs' | ⟨hs', _⟩
        · unfold Disj at hd; omega
        · unfold Inside at hs'; omega
        · unfold Inside at hs'; omega
      intro b hb
      rcases List.mem_cons.1 hb with rfl | hb
      · exact hx1
      · have := hs.1 b hb; omega

/-- The cells that follow `new` start behind it. -/
theorem initaddGo_snd {new : Init} {l : List Init} (hf : Forest l)
    (hl : ∀ o ∈ l, Lam o new ∧ NonEmpty o) (hn : NonEmpty new) :
    ∀ b ∈ (initaddGo new l).2, new.hi ≤ b.lo := by
  induction l with
  | nil => simp [initaddGo]
  | cons old rest ih =>
    have hf' := List.pairwise_cons.1 hf
    have ih' := ih hf'.2 (fun o ho => hl o (List.mem_cons_of_mem _ ho))
    obtain ⟨hlam, hne⟩ := hl old List.mem_cons_self
    unfold NonEmpty at hne
    unfold initaddGo
    split
    · exact ih'
    · split
      · rename_i h1 h2
        intro b hb
        rcases List.mem_cons.1 hb with rfl | hb
        · exact h2
        · have := (hf'.1 b hb).1; omega
      · split
        · rename_i h1 h2 h3
          refine dropWhile_after ?_ ?_ hn
          · exact hf'.2.imp (fun h => h.1)
          · intro x hx
            obtain ⟨hxl, hxn⟩ := hl x (List.mem_cons_of_mem _ hx)
            have ho := hf'.1 x hx
            unfold ListOrd at ho
            refine ⟨hxl, hxn, by omega, ?_⟩
            unfold NonEmpty at hxn
            rcases ho.2 with h | h <;> omega
        · exact ih'

theorem forest_initadd {new : Init} {l : List Init} (hf : Forest l)
    (hl : ∀ o ∈ l, Lam o new ∧ NonEmpty o) (hn : NonEmpty new) : Forest (initadd l new) := by
  unfold Forest initadd
  have hsub := initaddGo_sublist new l
  have hpw : ((initaddGo new l).1 ++ (initaddGo new l).2).Pairwise ListOrd := hf.sublist hsub
  rw [List.pairwise_append] at hpw ⊢
  refine ⟨hpw.1, ?_, ?_⟩
  · rw [List.pairwise_cons]
    refine ⟨?_, hpw.2.1⟩
    intro b hb
    have := initaddGo_snd hf hl hn b hb
    unfold NonEmpty at hn
    exact ⟨by omega, .inl this⟩
  · intro a ha b hb
    rcases List.mem_cons.1 hb with rfl | hb
    · exact initaddGo_fst hl a ha
    · exact hpw.2.2 a ha b hb

/-- No cell that `new` covers survives. -/
theorem initadd_removes_covered {new : Init} {l : List Init} (hf : Forest l)
    (hl : ∀ o ∈ l, Lam o new ∧ NonEmpty o) (hn : NonEmpty new) :
    ∀ x ∈ (initaddGo new l).1 ++ (initaddGo new l).2, ¬ Inside x new := by
  intro x hx hs
  unfold Inside at hs
  have hxn : NonEmpty x := (hl x ((initaddGo_sublist new l).subset hx)).2
  unfold NonEmpty at hxn hn
  rcases List.mem_append.1 hx with h | h
  · obtain ⟨_, h2⟩ := initaddGo_fst hl x h
    rcases h2 with h2 | ⟨h2, h3, _⟩
    · omega
    · apply h3; unfold SameRange; omega
  · have := initaddGo_snd hf hl hn x h; omega

/-- Everything built by `initadd` from a laminar sequence of non-empty ranges is a `Forest`. -/
theorem forest_foldl {inits : List Init} (hl : Laminar inits) (hn : ∀ i ∈ inits, NonEmpty i) :
    ∀ {l : List Init}, Forest l → (∀ o ∈ l, NonEmpty o ∧ ∀ i ∈ inits, Lam o i) →
      Forest (inits.foldl initadd l) := by
  induction inits with
  | nil => intro l hf _; exact hf
  | cons new rest ih =>
    intro l hf hlo
    rw [List.foldl_cons]
    have hl' := List.pairwise_cons.1 hl
    refine ih hl'.2 (fun i hi => hn i (List.mem_cons_of_mem _ hi)) ?_ ?_
    · exact forest_initadd hf (fun o ho => ⟨(hlo o ho).2 new List.mem_cons_self, (hlo o ho).1⟩)
        (hn new List.mem_cons_self)
    · intro o ho
      rcases mem_initadd ho with rfl | ho
      · exact ⟨hn _ List.mem_cons_self, hl'.1⟩
      · exact ⟨(hlo o ho).1, fun i hi => (hlo o ho).2 i (List.mem_cons_of_mem _ hi)⟩

/-! ## The `last` cursor -/

theorem initaddGo_skip {new : Init} {pre post : List Init} (h : ∀ o ∈ pre, o.hi ≤ new.lo) :
    initaddGo new (pre ++ post) = (pre ++ (initaddGo new post).1, (initaddGo new post).2) := by
  induction pre with
  | nil => simp
  | cons o os ih =>
    have ih' := ih (fun x hx => h x (List.mem_cons_of_mem _ hx))
    rw [List.cons_append, initaddGo, if_pos (h o List.mem_cons_self), ih']
    simp

/-- Searching from `p->last` gives the same list as searching from the head exactly when every cell
in front of the cursor ends before the new one starts. -/
theorem ilist_add_toList {il : IList} {new : Init} (h : ∀ o ∈ il.pre, o.hi ≤ new.lo) :
    (il.add new).toList = initadd il.toList new := by
  unfold IList.add IList.toList initadd
  rw [initaddGo_skip h]
  simp

theorem ilist_reset_toList (il : IList) : il.reset.toList = il.toList := by
  simp [IList.reset, IList.toList]

theorem ilist_clear_toList (il : IList) (a b : Nat) : (il.clear a b).toList = initclear il.toList a b := by
  simp [IList.clear, IList.toList]

end CprocVerif.Init

import CprocVerif.Lemmas.InitRefSim4

/-!
# Simulation, part 3: the items of a braced list (`loopB`), a braced list (`braced`)
-/

namespace CprocVerif.InitSim
open CprocVerif.Init CprocVerif.Image CprocVerif.InitRef

theorem curOK_of_eq {st st' : St} (h1 : st'.cur = st.cur) (h2 : st'.sub = st.sub) (h3 : st'.obj = st.obj)
    (h : CurOK st) : CurOK st' := by
  unfold CurOK at h ⊢
  rw [h1, h2, h3]
  exact h

theorem pLoop_step (f : Nat) (ih : ∀ f', f' < f → PAll f') : PLoop f := by
  intro pl pos its rst rst' hr hn hw st stf c hcur hp hco hty hoff h0 hpos hle hrun
  cases f with
  | zero => rw [loopB.eq_1] at hr; cases hr
  | succ f =>
  cases its with
  | nil =>
    rw [loopB.eq_2] at hr; cases hr
    rw [run_nil hrun]
    exact ⟨hle, Frame.refl _ _, rfl, rfl⟩
  | cons ds i rest =>
    have hcsub : c ≤ st.sub := by unfold CurOK at hco; rw [hcur] at hco; exact hco.1
    have hicc : (st.obj c).iscur = true := by unfold CurOK at hco; rw [hcur] at hco; exact hco.2.1
    -- the items behind this one: `loopB` at the next position
    have finish : ∀ (q : Nat) (ch : Place) (rest1 : Items) (rst1 : RSt) (st3 : St),
        loopB f pl (q + 1) rest1 rst1 = .ok rst' → rst'.nswitch = rst1.nswitch → Run st3 rest1 stf → c < st3.sub →
        Lvl st3 c pl q ch → (HeadPlain rest1 → ∀ j, c < j → j < st3.sub → Exh st3 j) → CurOK st3 →
        Frame c st st3 → LogEq st3 rst1 →
        LogEq stf rst' ∧ Frame c st stf ∧ (stf.obj c).ty = (st.obj c).ty ∧
          (stf.obj c).offset = (st.obj c).offset := by
      intro q ch rest1 rst1 st3 hr e3 hrun3 hlt3 hl3 hex3 hco3 hf3 hle3
      have hp3 : Flat st3 c := hp.frame hf3 (by rw [hl3.ty, hty])
      obtain ⟨r1, r2, r4, r5⟩ := (ih f (Nat.lt_succ_self _)).2.2.2.1 pl (q + 1) rest1 rst1 rst' hr e3 hw
        st3 stf c (by rw [hf3.cur]; exact hcur) hp3 hco3 hl3.ty hl3.off (by intro h; omega)
        (by intro p' hp'; have : p' = q := by omega
            subst this; exact ⟨hlt3, ⟨ch, hl3⟩, hex3⟩) hle3 hrun3
      exact ⟨r1, hf3.trans r2 (Nat.le_refl _), by rw [r4, hl3.ty, hty], by rw [r5, hl3.off, hoff]⟩
    cases ds with
    | cons d ds =>
      -- a designation: `designator()` against `resolve`/`desigPath`
      rw [loopB.eq_4] at hr
      cases hres : resolve pl.ty d with
      | error er => rw [hres] at hr; cases hr
      | ok path =>
      rw [hres] at hr
      cases path with
      | nil => cases hr
      | cons p ps =>
      simp only [] at hr
      cases hc : childAt pl p false with
      | none => rw [hc] at hr; cases hr
      | some ch =>
      rw [hc] at hr
      simp only [] at hr
      cases hi : desigPath f ch ps ds i rest (grow (enter rst pl p) pl p) with
      | error er => rw [hi] at hr; cases hr
      | ok x =>
      obtain ⟨rest1, rst1⟩ := x
      rw [hi] at hr
      simp only [] at hr
      have n1 := enter_nswitch_le rst pl p
      have n2 := (nsw_all f).2.2.2.2 _ _ _ _ _ _ _ hi
      have n3 := (nsw_all f).2.2.2.1 _ _ _ _ _ hr
      rw [grow_nswitch] at n2
      simp only [] at n2
      have e1 : (enter rst pl p).nswitch = rst.nswitch := by omega
      have e2 : rst1.nswitch = (grow (enter rst pl p) pl p).nswitch := by rw [grow_nswitch]; omega
      have e3 : rst'.nswitch = rst1.nswitch := by omega
      obtain ⟨stp, sta, hpre, hbody, hrun2⟩ := run_cons hrun
      have hpre' : designator st (d :: ds) = .ok stp := by
        unfold preStep at hpre
        rw [hcur] at hpre
        simpa using hpre
      obtain ⟨d1, d2, d3, d5, d6, d7, d8, d9⟩ := designator_spec hcur hty hoff hw hp hpre'
      cases d1 with
      | res hres' hne hd =>
      rw [hres] at hres'
      cases hres'
      cases hd with
      | step hl hd' =>
      have hcc := hl.child
      rw [hc] at hcc
      cases hcc
      have hwc : PlWf ch := childAt_wf hw hc
      have hcop : CurOK stp := by
        unfold CurOK
        rw [d2.cur, hcur]
        exact ⟨Nat.le_of_lt d5, by rw [d8]; exact hicc, fun j h1 h2 => d9 j h1 (Nat.le_of_lt h2)⟩
      obtain ⟨st3, hrun3, haf3, hle3⟩ := (ih f (Nat.lt_succ_self _)).2.2.2.2 ch ps ds i rest _ rest1 rst1 hi e2 hwc
        stp sta stf (c + 1) c hd' (by rw [d2.cur]; exact hcur) (Nat.lt_succ_self _) hcop
        (d9 _ d5 (Nat.le_refl _)) (by unfold LogEq; rw [d3, grow_log, enter_log e1]; exact hle)
        (bodyRun_of_itemBody hbody) hrun2
      exact finish p ch rest1 rst1 st3 hr e3 hrun3 (by have := haf3.le; omega) (hl.frame haf3.frame (Nat.lt_succ_self _))
        (fun hh j h1 h2 => haf3.exh hh j (by omega) h2) haf3.curok
        (d2.trans (haf3.frame.mono (Nat.le_succ _)) (Nat.le_refl _)) hle3
    | nil =>
    rw [loopB.eq_3] at hr
    cases hc : childAt pl pos true with
    | none => rw [hc] at hr; cases hr
    | some ch =>
    rw [hc] at hr
    simp only [] at hr
    cases hi : initOne f ch i rest (grow (enter rst pl pos) pl pos) with
    | error er => rw [hi] at hr; cases hr
    | ok x =>
    obtain ⟨rest1, rst1⟩ := x
    rw [hi] at hr
    simp only [] at hr
    have n1 := enter_nswitch_le rst pl pos
    have n2 := (nsw_all f).1 _ _ _ _ _ hi
    have n3 := (nsw_all f).2.2.2.1 _ _ _ _ _ hr
    rw [grow_nswitch] at n2
    simp only [] at n2
    have e1 : (enter rst pl pos).nswitch = rst.nswitch := by omega
    have e2 : rst1.nswitch = (grow (enter rst pl pos) pl pos).nswitch := by rw [grow_nswitch]; omega
    have e3 : rst'.nswitch = rst1.nswitch := by omega
    obtain ⟨stp, sta, hpre, hbody, hrun2⟩ := run_cons hrun
    have hwc : PlWf ch := childAt_wf hw hc
    have key : ∃ st3, Run st3 rest1 stf ∧ c < st3.sub ∧ Lvl st3 c pl pos ch ∧
        (HeadPlain rest1 → ∀ j, c < j → j < st3.sub → Exh st3 j) ∧ CurOK st3 ∧ Frame c st st3 ∧
        LogEq st3 rst1 := by
      have fin : ∀ (stp' : St) (pf : Nat), stp'.sub = c + 1 → Lvl stp' c pl pos ch → SP stp' (c + 1) ch →
          Frame c st stp' → stp'.log = st.log → (stp'.obj c).iscur = (st.obj c).iscur →
          (stp'.obj (c + 1)).iscur = false → BodyRun pf stp' i sta →
          ∃ st3, Run st3 rest1 stf ∧ c < st3.sub ∧ Lvl st3 c pl pos ch ∧
            (HeadPlain rest1 → ∀ j, c < j → j < st3.sub → Exh st3 j) ∧ CurOK st3 ∧ Frame c st st3 ∧
            LogEq st3 rst1 := by
        intro stp' pf a1 a2 a3 a4 a5 a6 a7 a9
        obtain ⟨st3, hrun3, haf3, hle3, hl3, hf3⟩ := child_item (ih f (Nat.lt_succ_self _)).1 hi e1 e2 hw
          hcur (Nat.le_refl c) hco hcsub (fun h => absurd h (Nat.lt_irrefl _)) a1 a2 a3 a4 a5 a6 a7 hle a9 hrun2
        exact ⟨st3, hrun3, by have := haf3.le; omega, hl3, fun hh j h1 h2 => haf3.exh hh j (by omega) h2,
          haf3.curok, hf3, hle3⟩
      cases pos with
      | succ p =>
        obtain ⟨hcs, ⟨chp, hlp⟩, hexp⟩ := hpos p rfl
        rw [preStep_nil_adv hcur (by omega)] at hpre
        obtain ⟨h1, h2, h3, h4, h5, h6, h7⟩ := advance_to_next hcs hp hw hlp (hexp ⟨i, rest, rfl⟩) hc hpre
        exact fin stp 34 h1 h2 h3 h4 h5 h6 h7 (bodyRun_of_itemBody hbody)
      | zero =>
        obtain ⟨hs0, hz⟩ := h0 rfl
        cases hpt : pl.ty with
        | scalar s k => rw [childAt_scalar hpt] at hc; cases hc
        | agg u tag size ms =>
          rw [preStep_nil_agg hcur hs0 (hty.trans hpt)] at hpre
          obtain ⟨ch2, hch2, hs2, hl2, hsp2, hf2, hlog2, hic2, hic2'⟩ :=
            focus_step (by rw [hs0]; exact hp) hw (by rw [hs0]; exact hty) (by rw [hs0]; exact hoff) hpre
          rw [hc] at hch2; cases hch2
          rw [hs0] at hs2 hl2 hsp2 hf2 hic2 hic2'
          exact fin stp 34 hs2 hl2 hsp2 hf2 hlog2 hic2 hic2' (bodyRun_of_itemBody hbody)
        | array n el =>
          rw [preStep_nil_array hcur hs0 (hty.trans hpt)] at hpre
          cases hpre
          obtain ⟨hn1, hes⟩ := wf_array hw hpt
          have hch : ch = { ty := el, off := pl.off + 0 * el.size, depth := pl.depth + 1 } := by
            rw [childAt_array hpt hw.unb, if_pos (by omega)] at hc
            cases hc; rfl
          cases i with
          | expr e =>
            have hb : exprBody 34 st e = .ok sta := hbody
            rcases expr_cases (.array n el) e with ⟨s, k, h⟩ | ⟨n', es, cls, sg, w, scls, cs, h, rfl⟩ |
                ⟨u, t, s, m, h, _⟩ | he
            · cases h
            · cases h
              exfalso
              have hcty : ch.ty = .scalar es (.int cls sg) := by rw [hch]
              cases f with
              | zero => rw [initOne.eq_1] at hi; cases hi
              | succ f0 =>
                rw [initOne.eq_3 _ _ _ _ _ _ _ hcty] at hi
                simp [convScalar] at hi
            · cases h
            · rw [exprBody_down 33 (hit_elide (by rw [hs0, hty, hpt]; exact he))] at hb
              cases hfo : focus st with
              | error er => rw [hfo] at hb; cases hb
              | ok st2 =>
                rw [hfo] at hb
                simp only [] at hb
                obtain ⟨ch2, hch2, hs2, hl2, hsp2, hf2, hlog2, hic2, hic2'⟩ :=
                  focus_step (by rw [hs0]; exact hp) hw (by rw [hs0]; exact hty) (by rw [hs0]; exact hoff) hfo
                rw [hc] at hch2; cases hch2
                rw [hs0] at hs2 hl2 hsp2 hf2 hic2 hic2'
                exact fin st2 33 hs2 hl2 hsp2 hf2 hlog2 hic2 hic2' hb
          | list its' =>
            obtain ⟨hbs, hbc, hbo, hbt, hbi⟩ := braceClear_fields st
            have hbp : Flat (braceClear st) (braceClear st).sub := by
              rw [hbs, hs0]
              exact hp.frame ⟨hbc, hbt, hbi, fun j _ => by rw [hbo]⟩ (by rw [hbo])
            have hcob : CurOK (braceClear st) := curOK_of_eq hbc hbs hbo hco
            -- the images after the `initclear` of the whole array
            have hnsc : isScalarTy (st.obj st.sub).ty = false := by rw [hs0, hty, hpt]; rfl
            have hM : ImgEq ((braceClear st).log.map evWrite) rst.log := by
              rw [braceClear_clear hcur (by rw [hs0]; exact hp) hnsc]
              show ImgEq ((st.log ++ [_]).map evWrite) _
              rw [map_evWrite_append, evWrite_clear, hs0, hoff, hty]
              exact (hle.snoc _).trans (imgEq_zw_noop hz (Nat.le_refl _) (Nat.le_refl _))
            have hlogeq : ImgEq ((braceClear st).log.map evWrite)
                (if isScalarTy ch.ty then (grow (enter rst pl 0) pl 0).log
                  else (zeroed (grow (enter rst pl 0) pl 0) ch).log) := by
              split
              · rw [grow_log, enter_log e1]; exact hM
              · rw [zeroed_log, hwc.unb, grow_log, enter_log e1]
                simp only [Bool.false_eq_true, if_false]
                refine hM.trans (imgEq_zlog_noop hz ?_ ?_).symm
                · rw [hch]; simp
                · rw [hch, hpt]
                  simp only [Ty.size, Nat.zero_mul, Nat.add_zero]
                  have := Nat.le_mul_of_pos_left el.size hn1
                  omega
            -- the machine steps into the first element in both cases
            have hfoc : ∀ st2, focus (braceClear st) = .ok st2 →
                st2.sub = c + 1 ∧ Lvl st2 c pl 0 ch ∧ SP st2 (c + 1) ch ∧ Frame c st st2 ∧
                st2.log = (braceClear st).log ∧ (st2.obj c).iscur = (st.obj c).iscur ∧
                (st2.obj (c + 1)).iscur = false ∧ CurOK st2 := by
              intro st2 hfo
              obtain ⟨ch2, hch2, hs2, hl2, hsp2, hf2, hlog2, hic2, hic2'⟩ :=
                focus_step hbp hw (by rw [hbs, hbo, hs0]; exact hty) (by rw [hbs, hbo, hs0]; exact hoff) hfo
              rw [hc] at hch2; cases hch2
              rw [hbs, hs0] at hs2 hl2 hsp2 hf2 hic2 hic2'
              rw [hbo] at hic2
              have hco2 : CurOK st2 := curOK_step hcob (by rw [hbc]; exact hcur) (Nat.le_refl c)
                (by rw [hbs]; exact hcsub) hf2 (by rw [hbo]; exact hic2) hs2 (fun h => absurd h (Nat.lt_irrefl _))
              exact ⟨hs2, hl2, hsp2, Frame.trans (m := c) ⟨hbc, hbt, hbi, fun j _ => by rw [hbo]⟩ hf2 (Nat.le_refl _),
                hlog2, hic2, hic2', hco2⟩
            cases its' with
            | nil =>
              have hb : (match enteredE (braceClear st) with
                  | .error er => (.error er : Except Err St)
                  | .ok st2 =>
                    if st2.tinc st2.sub then .error (.diag "array of unknown size has empty initializer")
                    else .ok st2) = .ok sta := hbody
              have hent : enteredE (braceClear st) = focus (braceClear st) := by
                unfold enteredE
                rw [hbc, hbs, hcur, hs0, if_pos rfl, hbo, hty, hpt]
              rw [hent] at hb
              cases hfo : focus (braceClear st) with
              | error er => rw [hfo] at hb; cases hb
              | ok st2 =>
                rw [hfo] at hb
                simp only [] at hb
                obtain ⟨hs2, hl2, hsp2, hf2, hlog2, hic2, hic2', hco2⟩ := hfoc st2 hfo
                rw [(flat_pos st2 (by omega : 0 < st2.sub)).tinc] at hb
                cases hb
                cases f with
                | zero => rw [initOne.eq_1] at hi; cases hi
                | succ f0 =>
                rw [initOne.eq_2] at hi
                cases hbr : braced f0 ch .nil (grow (enter rst pl 0) pl 0) with
                | error er => rw [hbr] at hi; cases hi
                | ok rb =>
                rw [hbr] at hi
                cases hi
                refine ⟨sta, hrun2, by omega, hl2, fun _ j h1 h2 => by omega, hco2, hf2, ?_⟩
                unfold LogEq
                rw [hlog2, braced_nil hbr]
                split
                · rename_i hsc; rw [hsc] at hlogeq; exact hlogeq
                · rename_i hsc
                  have hsc' : isScalarTy ch.ty = false := by simpa using hsc
                  rw [hsc'] at hlogeq; exact hlogeq
            | cons ds1 i1 r1 =>
              have hb : (match entered (braceClear st) with
                  | .error er => (.error er : Except Err St)
                  | .ok st2 => listBody st2 (.cons ds1 i1 r1)) = .ok sta := hbody
              have hent : entered (braceClear st) = focus (braceClear st) := by
                unfold entered
                rw [hbc, hbs, hcur, hs0, if_pos rfl, hbo, hty, hpt]
              rw [hent] at hb
              cases hfo : focus (braceClear st) with
              | error er => rw [hfo] at hb; cases hb
              | ok st2 =>
                rw [hfo] at hb
                simp only [] at hb
                obtain ⟨hs2, hl2, hsp2, hf2, hlog2, hic2, hic2', hco2⟩ := hfoc st2 hfo
                -- the reference
                cases f with
                | zero => rw [initOne.eq_1] at hi; cases hi
                | succ f0 =>
                rw [initOne.eq_2] at hi
                cases hbr : braced f0 ch (.cons ds1 i1 r1) (grow (enter rst pl 0) pl 0) with
                | error er => rw [hbr] at hi; cases hi
                | ok rb =>
                rw [hbr] at hi
                cases hi
                obtain ⟨r1', r2, r3, r5, r6⟩ := (ih f0 (by omega)).2.2.1 ch _ _ rst1 hbr e2 hwc
                  (by intro h; cases h) st2 sta
                  (fun c' hc' => by rw [hf2.cur, hcur] at hc'; cases hc'; omega) (flat_pos st2 (by omega)) hco2
                  (by rw [hs2]; exact hic2') (by rw [hs2]; exact hsp2) (by rw [hlog2]; exact hlogeq) hb
                rw [hs2] at r2 r3
                have hfr : Frame c st sta := hf2.trans (r2.mono (Nat.le_succ _)) (Nat.le_refl _)
                refine ⟨sta, hrun2, by omega, hl2.frame r2 (Nat.lt_succ_self _), fun _ j h1 h2 => by omega, ?_,
                  hfr, r1'⟩
                exact curOK_step hco hcur (Nat.le_refl c) hcsub hfr
                  (by rw [r2.low c (Nat.lt_succ_self _), hic2]) r3 (fun h => absurd h (Nat.lt_irrefl _))
    obtain ⟨st3, hrun3, hlt3, hl3, hex3, hco3, hf3, hle3⟩ := key
    exact finish pos ch rest1 rst1 st3 hr e3 hrun3 hlt3 hl3 hex3 hco3 hf3 hle3

/-- a designation: the path, then the designated sub-object, then "continue after it" at every
level of the path (6.7.9p17) -/
theorem pDesig_step (f : Nat) (ih : ∀ f', f' < f → PAll f') : PDesig f := by
  intro pl ps ds i rest rst rest' rst' hr hn hw st st1 stf m c hd hcur hcm hco hic hle hb hrun
  cases f with
  | zero => rw [desigPath.eq_1] at hr; cases hr
  | succ f =>
  cases hd with
  | done hs hsp =>
    rw [desigPath.eq_2] at hr
    subst hs
    exact (ih f (Nat.lt_succ_self _)).1 pl i rest rst rest' rst' hr hn hw st st1 stf 34 c hcur hcm hco hic hsp hle hb hrun
  | res hres hne hd' =>
    rw [desigPath.eq_3, hres] at hr
    simp only [] at hr
    rw [if_neg hne] at hr
    exact (ih f (Nat.lt_succ_self _)).2.2.2.2 pl _ _ i rest rst rest' rst' hr hn hw st st1 stf m c hd' hcur hcm hco
      hic hle hb hrun
  | step hl hd' =>
    rename_i ch p ps'
    rw [desigPath.eq_4, hl.child] at hr
    simp only [] at hr
    cases hi : desigPath f ch ps' ds i rest (enter rst pl p) with
    | error er => rw [hi] at hr; cases hr
    | ok x =>
    obtain ⟨rest1, rst1⟩ := x
    rw [hi] at hr
    simp only [] at hr
    have n1 := enter_nswitch_le rst pl p
    have n2 := (nsw_all f).2.2.2.2 _ _ _ _ _ _ _ hi
    have n3 := (nsw_all f).2.1 _ _ _ _ _ hr
    simp only [] at n2 n3
    have e1 : (enter rst pl p).nswitch = rst.nswitch := by omega
    have e2 : rst1.nswitch = (enter rst pl p).nswitch := by omega
    have e3 : rst'.nswitch = rst1.nswitch := by omega
    have hwc : PlWf ch := childAt_wf hw hl.child
    obtain ⟨st3, hrun3, haf3, hle3⟩ := (ih f (Nat.lt_succ_self _)).2.2.2.2 ch ps' ds i rest _ rest1 rst1 hi e2 hwc
      st st1 stf (m + 1) c hd' hcur (by omega) hco hic (by unfold LogEq; rw [enter_log e1]; exact hle) hb hrun
    obtain ⟨st', hrun', haf', hlt', hle'⟩ := (ih f (Nat.lt_succ_self _)).2.1 pl p rest1 rst1 rest' rst' hr e3 hw
      st3 stf m c ch (by rw [haf3.frame.cur]; exact hcur) hcm (by have := haf3.le; omega) haf3.curok
      (hl.frame haf3.frame (Nat.lt_succ_self _)) (fun hh j h1 h2 => haf3.exh hh j (by omega) h2) hle3 hrun3
    refine ⟨st', hrun', ⟨(haf3.frame.mono (Nat.le_succ _)).trans haf'.frame (Nat.le_refl _), haf'.le,
      haf'.curok, ?_, ?_, haf'.exh⟩, hle'⟩
    · rw [haf'.ty, haf3.frame.low m (Nat.lt_succ_self _)]
    · rw [haf'.off, haf3.frame.low m (Nat.lt_succ_self _)]

end CprocVerif.InitSim

import CprocVerif.Lemmas.ScanSkip

/-! Non-interference: kinds, lexemes and space flags depend only on the phase-2 character stream
(`S.view`), not on where the backslash-newline pairs were, nor on locations. -/

namespace CprocVerif.Scan
open CprocVerif.Gen.TokenKinds

theorem view_eq_iff (a b : S) : a.view = b.view ↔
    a.stream = b.stream ∧ a.buf = b.buf ∧ a.usebuf = b.usebuf ∧ a.sawspace = b.sawspace := by
  simp [S.view]

theorem chr_of_view {a b : S} (h : a.view = b.view) : a.chr = b.chr := by
  rw [chr_eq, chr_eq, ((view_eq_iff a b).mp h).1]

theorem len_of_view {a b : S} (h : a.view = b.view) : a.inp.length = b.inp.length := by
  rw [← length_stream, ← length_stream, ((view_eq_iff a b).mp h).1]

theorem nextchar_rel {a b : S} (h : a.view = b.view) : a.nextchar.view = b.nextchar.view := by
  have hc := chr_of_view h
  obtain ⟨h1, h2, h3, h4⟩ := (view_eq_iff a b).mp h
  rw [view_eq_iff]
  simp [buf_nextchar, h1, h2, h3, h4, hc]

theorem usebuf_rel {a b : S} (h : a.view = b.view) (u : Bool) :
    ({ a with usebuf := u } : S).view = ({ b with usebuf := u } : S).view := by
  obtain ⟨h1, h2, h3, h4⟩ := (view_eq_iff a b).mp h
  rw [view_eq_iff]; exact ⟨h1, h2, rfl, h4⟩

theorem sawspace_rel {a b : S} (h : a.view = b.view) (u : Bool) :
    ({ a with sawspace := u } : S).view = ({ b with sawspace := u } : S).view := by
  obtain ⟨h1, h2, h3, h4⟩ := (view_eq_iff a b).mp h
  rw [view_eq_iff]; exact ⟨h1, h2, h3, rfl⟩

theorem buf_rel {a b : S} (h : a.view = b.view) (x y : List UInt8) (hxy : x = y) :
    ({ a with buf := x } : S).view = ({ b with buf := y } : S).view := by
  obtain ⟨h1, h2, h3, h4⟩ := (view_eq_iff a b).mp h
  rw [view_eq_iff]; exact ⟨h1, hxy, h3, h4⟩

theorem ite_congr_rel {α : Sort _} (R : α → α → Prop) (c : Prop) [Decidable c] (a1 a2 b1 b2 : α)
    (h1 : c → R a1 a2) (h2 : ¬ c → R b1 b2) :
    R (if c then a1 else b1) (if c then a2 else b2) := by
  by_cases h : c
  · simpa [h] using h1 h
  · simpa [h] using h2 h

/-- pairs `(kind, state)` agree up to the view -/
def RelP (r1 r2 : Kind × S) : Prop := r1.1 = r2.1 ∧ r1.2.view = r2.2.view

theorem op2_rel {a b : S} (h : a.view = b.view) (t1 t2 : Kind) : RelP (op2 a t1 t2) (op2 b t1 t2) := by
  have h1 := nextchar_rel h
  have c1 := chr_of_view h1
  unfold op2
  simp only [c1]
  split
  · exact ⟨rfl, h1⟩
  · exact ⟨rfl, nextchar_rel h1⟩

theorem op3_rel {a b : S} (h : a.view = b.view) (t1 t2 t3 : Kind) :
    RelP (op3 a t1 t2 t3) (op3 b t1 t2 t3) := by
  have h1 := nextchar_rel h
  have c0 := chr_of_view h
  have c1 := chr_of_view h1
  unfold op3
  simp only [c1, c0]
  repeat' split
  all_goals first | exact ⟨rfl, h1⟩ | exact ⟨rfl, nextchar_rel h1⟩

theorem op4_rel {a b : S} (h : a.view = b.view) (t1 t2 t3 t4 : Kind) :
    RelP (op4 a t1 t2 t3 t4) (op4 b t1 t2 t3 t4) := by
  have h1 := nextchar_rel h
  have h2 := nextchar_rel h1
  have c0 := chr_of_view h
  have c1 := chr_of_view h1
  have c2 := chr_of_view h2
  unfold op4
  simp only [c1, c0, c2]
  repeat' split
  all_goals first | exact ⟨rfl, h1⟩ | exact ⟨rfl, h2⟩ | exact ⟨rfl, nextchar_rel h2⟩

theorem identLoop_rel : ∀ n {a b : S}, a.view = b.view → (identLoop n a).view = (identLoop n b).view := by
  intro n
  induction n with
  | zero => intro a b h; exact h
  | succ n ih =>
    intro a b h
    unfold identLoop
    rw [chr_of_view h]
    split
    · exact ih (nextchar_rel h)
    · exact h

theorem ident_rel {a b : S} (h : a.view = b.view) : RelP (ident a) (ident b) := by
  unfold ident
  refine ⟨rfl, ?_⟩
  simp only []
  rw [len_of_view h]
  exact identLoop_rel _ (usebuf_rel h true)

theorem numberLoop_rel : ∀ n (al : Bool) {a b : S}, a.view = b.view →
    (numberLoop n al a).view = (numberLoop n al b).view := by
  intro n
  induction n with
  | zero => intro al a b h; exact h
  | succ n ih =>
    intro al a b h
    have h1 := nextchar_rel h
    unfold numberLoop
    simp only [chr_of_view h1]
    cases b.nextchar.chr with
    | none => exact h1
    | some c =>
      simp only []
      repeat' split
      all_goals first | exact h1 | exact ih _ h1

theorem number_rel {a b : S} (h : a.view = b.view) : RelP (number a) (number b) := by
  unfold number
  refine ⟨rfl, ?_⟩
  simp only []
  rw [len_of_view h]
  exact numberLoop_rel _ _ (usebuf_rel h true)

theorem hexLoop_rel : ∀ n {a b : S}, a.view = b.view → (hexLoop n a).view = (hexLoop n b).view := by
  intro n
  induction n with
  | zero => intro a b h; exact h
  | succ n ih =>
    intro a b h
    have h1 := nextchar_rel h
    unfold hexLoop
    simp only [chr_of_view h1]
    split
    · exact ih h1
    · exact h1

/-- results of the sub-scanners that can fail agree up to view / error kind -/
def RelE (r1 r2 : Except Err S) : Prop :=
  match r1, r2 with
  | .error e1, .error e2 => e1.kind = e2.kind
  | .ok s1, .ok s2 => s1.view = s2.view
  | _, _ => False

def RelEP (r1 r2 : Except Err (Kind × S)) : Prop :=
  match r1, r2 with
  | .error e1, .error e2 => e1.kind = e2.kind
  | .ok p1, .ok p2 => RelP p1 p2
  | _, _ => False

theorem escape_rel {a b : S} (h : a.view = b.view) : RelE (escape a) (escape b) := by
  have h1 := nextchar_rel h
  have h2 := nextchar_rel h1
  have h3 := nextchar_rel h2
  have h4 := nextchar_rel h3
  unfold escape
  simp only [chr_of_view h1, chr_of_view h2, chr_of_view h3, len_of_view h2]
  repeat' split
  all_goals first
    | (show RelE (.error _) (.error _); exact rfl)
    | (show RelE (.ok _) (.ok _); first
        | exact hexLoop_rel _ h2 | exact h4 | exact h3 | exact h2 | exact h1)

theorem litLoop_rel (str : Bool) : ∀ n {a b : S}, a.view = b.view →
    RelEP (litLoop str n a) (litLoop str n b) := by
  intro n
  induction n with
  | zero => intro a b h; exact rfl
  | succ n ih =>
    intro a b h
    have h1 := nextchar_rel h
    have he := escape_rel h
    unfold litLoop
    rw [chr_of_view h]
    cases b.chr with
    | none => exact rfl
    | some c =>
      simp only []
      split
      · cases ha : escape a with
        | error e1 =>
          cases hb : escape b with
          | error e2 => rw [ha, hb] at he; exact he
          | ok s2 => rw [ha, hb] at he; exact he.elim
        | ok s1 =>
          cases hb : escape b with
          | error e2 => rw [ha, hb] at he; exact he.elim
          | ok s2 => rw [ha, hb] at he; exact ih he
      · repeat' split
        all_goals first
          | (show RelEP (.error _) (.error _); exact rfl)
          | (show RelEP (.ok _) (.ok _); exact ⟨rfl, h1⟩)
          | exact ih h1

theorem charconst_rel {a b : S} (h : a.view = b.view) : RelEP (charconst a) (charconst b) := by
  unfold charconst
  have := nextchar_rel (usebuf_rel h true)
  simp only []
  rw [len_of_view this]
  exact litLoop_rel false _ this

theorem stringlit_rel {a b : S} (h : a.view = b.view) : RelEP (stringlit a) (stringlit b) := by
  unfold stringlit
  have := nextchar_rel (usebuf_rel h true)
  simp only []
  rw [len_of_view this]
  exact litLoop_rel true _ this

theorem lineLoop_rel : ∀ n {a b : S}, a.view = b.view → (lineLoop n a).view = (lineLoop n b).view := by
  intro n
  induction n with
  | zero => intro a b h; exact h
  | succ n ih =>
    intro a b h
    have h1 := nextchar_rel h
    unfold lineLoop
    simp only [chr_of_view h1]
    split
    · exact ih h1
    · exact h1

theorem blockLoop_rel : ∀ n {a b : S}, a.view = b.view → RelE (blockLoop n a) (blockLoop n b) := by
  intro n
  induction n with
  | zero => intro a b h; exact rfl
  | succ n ih =>
    intro a b h
    have h1 := nextchar_rel h
    unfold blockLoop
    simp only [chr_of_view h1, chr_of_view h]
    repeat' split
    all_goals first
      | (show RelE (.error _) (.error _); exact rfl)
      | (show RelE (.ok _) (.ok _); exact h1)
      | exact ih h1

/-- results of `comment` -/
def RelEO (r1 r2 : Except Err (Option S)) : Prop :=
  match r1, r2 with
  | .error e1, .error e2 => e1.kind = e2.kind
  | .ok none, .ok none => True
  | .ok (some s1), .ok (some s2) => s1.view = s2.view
  | _, _ => False

theorem comment_rel {a b : S} (h : a.view = b.view) : RelEO (comment a) (comment b) := by
  have h1 := nextchar_rel h
  unfold comment
  simp only [chr_of_view h, len_of_view h, len_of_view h1]
  split
  · show RelEO (.ok (some _)) (.ok (some _))
    exact sawspace_rel (lineLoop_rel _ h) true
  · split
    · have hb := blockLoop_rel (b.nextchar.inp.length + 1) h1
      cases ha : blockLoop (b.nextchar.inp.length + 1) a.nextchar with
      | error e1 =>
        cases hb' : blockLoop (b.nextchar.inp.length + 1) b.nextchar with
        | error e2 => rw [ha, hb'] at hb; exact hb
        | ok s2 => rw [ha, hb'] at hb; exact hb.elim
      | ok s1 =>
        cases hb' : blockLoop (b.nextchar.inp.length + 1) b.nextchar with
        | error e2 => rw [ha, hb'] at hb; exact hb.elim
        | ok s2 =>
          rw [ha, hb'] at hb
          show RelEO (.ok (some _)) (.ok (some _))
          exact sawspace_rel (nextchar_rel hb) true
    · exact trivial

theorem pushbackDot_rel {a b : S} (h : a.view = b.view) (l1 l2 : Loc) :
    (pushbackDot a l1).view = (pushbackDot b l2).view := by
  obtain ⟨a1, a2, a3, a4⟩ := stream_pushbackDot_view a l1
  obtain ⟨b1, b2, b3, b4⟩ := stream_pushbackDot_view b l2
  obtain ⟨h1, h2, h3, h4⟩ := (view_eq_iff a b).mp h
  rw [view_eq_iff, a1, a2, a3, a4, b1, b2, b3, b4, h1, h2, h3, h4]
  exact ⟨rfl, rfl, rfl, rfl⟩

end CprocVerif.Scan

namespace CprocVerif.Scan
open CprocVerif.Gen.TokenKinds

/-- results of `scankind` agree up to view / error kind (locations and byte offsets differ) -/
def RelK (r1 r2 : Except Err (Kind × Loc × Nat × S)) : Prop :=
  match r1, r2 with
  | .error e1, .error e2 => e1.kind = e2.kind
  | .ok (k1, _, _, s1), .ok (k2, _, _, s2) => k1 = k2 ∧ s1.view = s2.view
  | _, _ => False

theorem relK_ok {k1 k2 : Kind} {l1 l2 : Loc} {p1 p2 : Nat} {s1 s2 : S} (hk : k1 = k2)
    (hv : s1.view = s2.view) : RelK (.ok (k1, l1, p1, s1)) (.ok (k2, l2, p2, s2)) := ⟨hk, hv⟩

theorem relK_ret {r1 r2 : Kind × S} {l1 l2 : Loc} {p1 p2 : Nat} (h : RelP r1 r2) :
    RelK (.ok (r1.1, l1, p1, r1.2)) (.ok (r2.1, l2, p2, r2.2)) := h

theorem relK_lift {r1 r2 : Except Err (Kind × S)} {l1 l2 : Loc} {p1 p2 : Nat} (h : RelEP r1 r2) :
    RelK (match r1 with
          | .error e => .error e
          | .ok r => .ok (r.1, l1, p1, r.2))
         (match r2 with
          | .error e => .error e
          | .ok r => .ok (r.1, l2, p2, r.2)) := by
  cases r1 <;> cases r2 <;> exact h

set_option maxHeartbeats 2000000 in
theorem scankind_rel : ∀ (fuel : Nat) {a b : S}, a.view = b.view →
    RelK (scankind fuel a) (scankind fuel b) := by
  intro fuel
  induction fuel with
  | zero => intro a b h; exact rfl
  | succ fuel ih =>
    intro a b h
    have hc := chr_of_view h
    have h1 := nextchar_rel h
    have h2 := nextchar_rel h1
    have h3 := nextchar_rel h2
    have c1 := chr_of_view h1
    have c2 := chr_of_view h2
    rw [scankind, scankind]
    rw [hc]
    cases hb : b.chr with
    | none => exact relK_ok rfl h
    | some c =>
      simp only []
      have g1 := nextchar_rel (usebuf_rel h true)
      have hsl := stringlit_rel h
      have hcl := charconst_rel h
      have hminus := op3_rel h .TSUB .TSUBASSIGN .TDEC
      have hdiv := op2_rel h .TDIV .TDIVASSIGN
      have hcm := comment_rel hdiv.2
      have hdotnum : RelP (number { a.nextchar with buf := a.nextchar.buf ++ [c! '.'] })
          (number { b.nextchar with buf := b.nextchar.buf ++ [c! '.'] }) :=
        number_rel (buf_rel h1 _ _ (by rw [((view_eq_iff _ _).mp h1).2.1]))
      simp only [c1, c2, hminus.1, chr_of_view hminus.2, hdiv.1, chr_of_view g1,
        ((view_eq_iff _ _).mp g1).2.1]
      refine ite_congr_rel RelK _ _ _ _ _ (fun _ => ?_) (fun _ => ?_)
      · exact ih (nextchar_rel (sawspace_rel h true))
      repeat' (refine ite_congr_rel RelK _ _ _ _ _ (fun _ => ?_) (fun _ => ?_))
      all_goals first
        | exact relK_ret (op2_rel h _ _)
        | exact relK_ret (op3_rel h _ _ _)
        | exact relK_ret (op4_rel h _ _ _ _)
        | exact relK_ok rfl h1
        | exact relK_ok rfl h2
        | exact relK_ok rfl h3
        | exact relK_ret (number_rel h)
        | exact relK_ret (ident_rel h)
        | exact relK_ok rfl (nextchar_rel (usebuf_rel h true))
        | exact relK_ok rfl (nextchar_rel hminus.2)
        | exact relK_ok rfl hminus.2
        | exact relK_ok rfl hdiv.2
        | exact relK_ret hdotnum
        | exact relK_ok rfl (pushbackDot_rel h2 _ _)
        | (generalize stringlit a = ra at hsl ⊢; generalize stringlit b = rb at hsl ⊢
           cases ra <;> cases rb <;> exact hsl)
        | (generalize charconst a = ra at hcl ⊢; generalize charconst b = rb at hcl ⊢
           cases ra <;> cases rb <;> exact hcl)
        | (generalize comment (op2 a .TDIV .TDIVASSIGN).2 = ra at hcm ⊢
           generalize comment (op2 b .TDIV .TDIVASSIGN).2 = rb at hcm ⊢
           cases ra with
           | error e1 => cases rb with
             | error e2 => exact hcm
             | ok o2 => cases o2 <;> exact hcm.elim
           | ok o1 => cases rb with
             | error e2 => cases o1 <;> exact hcm.elim
             | ok o2 =>
               cases o1 with
               | none => cases o2 with
                 | none => exact relK_ok rfl hdiv.2
                 | some _ => exact hcm.elim
               | some s1 => cases o2 with
                 | none => exact hcm.elim
                 | some s2 => exact ih hcm)
        | (generalize ({ a with usebuf := true } : S).nextchar = a1 at g1 ⊢
           generalize ({ b with usebuf := true } : S).nextchar = b1 at g1 ⊢
           have key : ∀ {a2 b2 : S}, a2.view = b2.view →
               RelK (if a2.chr = some 39 then
                       match charconst a2 with
                       | .error e => .error e
                       | .ok r => .ok (r.1, a.loc, a.pos, r.2)
                     else if a2.chr = some 34 then
                       match stringlit a2 with
                       | .error e => .error e
                       | .ok r => .ok (r.1, a.loc, a.pos, r.2)
                     else .ok ((ident a2).1, a.loc, a.pos, (ident a2).2))
                    (if b2.chr = some 39 then
                       match charconst b2 with
                       | .error e => .error e
                       | .ok r => .ok (r.1, b.loc, b.pos, r.2)
                     else if b2.chr = some 34 then
                       match stringlit b2 with
                       | .error e => .error e
                       | .ok r => .ok (r.1, b.loc, b.pos, r.2)
                     else .ok ((ident b2).1, b.loc, b.pos, (ident b2).2)) := by
             intro a2 b2 g2
             rw [chr_of_view g2]
             refine ite_congr_rel RelK _ _ _ _ _ (fun _ => ?_) (fun _ => ?_)
             · have hcc := charconst_rel g2
               generalize charconst a2 = ra at hcc ⊢; generalize charconst b2 = rb at hcc ⊢
               cases ra <;> cases rb <;> exact hcc
             · refine ite_congr_rel RelK _ _ _ _ _ (fun _ => ?_) (fun _ => ?_)
               · have hcc := stringlit_rel g2
                 generalize stringlit a2 = ra at hcc ⊢; generalize stringlit b2 = rb at hcc ⊢
                 cases ra <;> cases rb <;> exact hcc
               · exact relK_ret (ident_rel g2)
           by_cases hq : b1.buf.head? = some 117 ∧ b1.chr = some 56
           · simp only [hq, and_self, if_true]
             exact key (nextchar_rel g1)
           · simp only [hq, if_false]
             exact key g1)

end CprocVerif.Scan

namespace CprocVerif.Scan
open CprocVerif.Gen.TokenKinds

/-- a token without its location / byte offset -/
structure Tok where
  kind : Kind
  lit : Option (List UInt8)
  space : Bool
  deriving DecidableEq, Repr

def Token.erase (t : Token) : Tok := ⟨t.kind, t.lit, t.space⟩

/-- result of `scan` up to locations -/
def RelS (r1 r2 : Except Err (Token × S)) : Prop :=
  match r1, r2 with
  | .error e1, .error e2 => e1.kind = e2.kind
  | .ok (t1, s1), .ok (t2, s2) => t1.erase = t2.erase ∧ s1.view = s2.view
  | _, _ => False

theorem scan_rel {a b : S} (h : a.view = b.view) : RelS (scan a) (scan b) := by
  have hk := scankind_rel (b.inp.length + 2) (sawspace_rel h false)
  unfold scan
  rw [len_of_view h]
  generalize scankind (b.inp.length + 2) ({ a with sawspace := false } : S) = ra at hk ⊢
  generalize scankind (b.inp.length + 2) ({ b with sawspace := false } : S) = rb at hk ⊢
  cases ra with
  | error e1 =>
    cases rb with
    | error e2 => exact hk
    | ok r2 => exact hk.elim
  | ok r1 =>
    cases rb with
    | error e2 => exact hk.elim
    | ok r2 =>
      obtain ⟨k1, l1, p1, s1⟩ := r1
      obtain ⟨k2, l2, p2, s2⟩ := r2
      obtain ⟨hkk, hv⟩ : k1 = k2 ∧ s1.view = s2.view := hk
      obtain ⟨v1, v2, v3, v4⟩ := (view_eq_iff _ _).mp hv
      subst hkk
      simp only [v3]
      split
      · refine ⟨?_, ?_⟩
        · simp [Token.erase, v2, v4]
        · rw [view_eq_iff]; exact ⟨v1, rfl, rfl, v4⟩
      · refine ⟨?_, hv⟩
        simp [Token.erase, v4]

/-- the printed token run up to locations -/
def eraseRun (r : List Token × Option Err) : List Tok × Option ErrKind :=
  (r.1.map Token.erase, r.2.map (·.kind))

theorem tokensLoop_rel : ∀ (n : Nat) {a b : S}, a.view = b.view →
    eraseRun (tokensLoop n a) = eraseRun (tokensLoop n b) := by
  intro n
  induction n with
  | zero => intro a b _; rfl
  | succ n ih =>
    intro a b h
    have hs := scan_rel h
    rw [tokensLoop, tokensLoop]
    generalize scan a = ra at hs ⊢
    generalize scan b = rb at hs ⊢
    cases ra with
    | error e1 =>
      cases rb with
      | error e2 => simp only [eraseRun, List.map_nil, Option.map_some]; rw [show e1.kind = e2.kind from hs]
      | ok r2 => exact hs.elim
    | ok r1 =>
      cases rb with
      | error e2 => exact hs.elim
      | ok r2 =>
        obtain ⟨t1, s1⟩ := r1
        obtain ⟨t2, s2⟩ := r2
        obtain ⟨ht, hv⟩ : t1.erase = t2.erase ∧ s1.view = s2.view := hs
        have hk : t1.kind = t2.kind := congrArg Tok.kind ht
        simp only [hk]
        split
        · simp only [eraseRun, List.map_cons, List.map_nil, ht, Option.map_none]
        · have := ih hv
          simp only [eraseRun, Prod.mk.injEq] at this ⊢
          simp only [List.map_cons, ht, this.1, this.2, and_self]

theorem map_snd_group : ∀ (t : List UInt8) (k : Nat), (group t k).1.map (·.2) = unsplice t := by
  intro t k
  fun_induction group t k with
  | case1 => simp [unsplice]
  | case2 => simp [unsplice]
  | case3 c d r k h ih => rw [unsplice]; simp only [h, and_self, if_true]; exact ih
  | case4 c d r k h ih => rw [unsplice]; simp only [h, if_false, List.map_cons, ih]

theorem view_init (text : List UInt8) : (S.init text).view = ⟨unsplice text, [], false, false⟩ := by
  unfold S.init S.view
  simp only [S.stream, inp_readHead, buf_readHead, usebuf_readHead, sawspace_readHead]
  rw [map_snd_group]

/-- **Tokenisation depends only on the phase-2 text.** -/
theorem tokensP_rel (t1 t2 : List UInt8) (h : unsplice t1 = unsplice t2) :
    eraseRun (tokensP t1) = eraseRun (tokensP t2) := by
  have hv : (S.init t1).view = (S.init t2).view := by rw [view_init, view_init, h]
  unfold tokensP
  rw [len_of_view hv]
  exact tokensLoop_rel _ hv

end CprocVerif.Scan

import CprocVerif.Lemmas.InitRefMach
import CprocVerif.Lemmas.InitParse2

/-!
# `focus`, `advance`, `hit`, `placeExpr`, `closeBrace` on states described by `Lvl`/`SP`
-/

namespace CprocVerif.InitSim
open CprocVerif.Init CprocVerif.Image CprocVerif.InitRef

/-- set `u` of the top slot and push a sub-object -/
theorem push_spec {st st' : St} {u : U} {t : Ty} {off : Nat}
    (e : subobj (st.setSlot st.sub { st.obj st.sub with u := u }) t off = .ok st') :
    st'.sub = st.sub + 1 ∧ Frame st.sub st st' ∧ st'.log = st.log ∧
    st'.obj st.sub = { st.obj st.sub with u := u } ∧ (st'.obj (st.sub + 1)).ty = t ∧
    (st'.obj (st.sub + 1)).offset = off + (st.obj st.sub).offset ∧ (st'.obj (st.sub + 1)).iscur = false := by
  unfold subobj at e
  split at e
  · cases e
  · cases e
    refine ⟨rfl, ⟨rfl, rfl, rfl, ?_⟩, rfl, ?_, ?_, ?_, ?_⟩
    · intro j hj
      have h1 : j ≠ st.sub + 1 := by omega
      have h2 : j ≠ st.sub := by omega
      simp [St.setSlot, h1, h2]
    · simp [St.setSlot]
    · simp [St.setSlot]
    · simp [St.setSlot]
    · simp [St.setSlot]

theorem mul_succ_ne {pos n es : Nat} (h : pos + 1 < n) (hes : 0 < es) : pos * es + es ≠ n * es := by
  intro h'
  have h1 : pos * es + es = (pos + 1) * es := by rw [Nat.add_mul, Nat.one_mul]
  rw [h1] at h'
  have := Nat.eq_of_mul_eq_mul_right hes h'
  omega

theorem mul_succ_eq {pos n es : Nat} (h1 : pos < n) (h2 : ¬ pos + 1 < n) : pos * es + es = n * es := by
  have : n = pos + 1 := by omega
  rw [this, Nat.add_mul, Nat.one_mul]

theorem wf_array {pl : Place} {n : Nat} {e : Ty} (hw : PlWf pl) (hty : pl.ty = .array n e) :
    1 ≤ n ∧ 0 < e.size := by
  have := hw.ty
  rw [hty] at this
  simp only [tyWf, Bool.and_eq_true, decide_eq_true_eq] at this
  exact ⟨this.1.1, this.1.2⟩

/-- `focus` on a non-scalar place -/
theorem focus_step {st st' : St} {pl : Place} (hp : Flat st st.sub) (hw : PlWf pl)
    (hty : (st.obj st.sub).ty = pl.ty) (hoff : (st.obj st.sub).offset = pl.off) (e : focus st = .ok st') :
    ∃ ch, childAt pl 0 true = some ch ∧ st'.sub = st.sub + 1 ∧ Lvl st' st.sub pl 0 ch ∧
      SP st' (st.sub + 1) ch ∧ Frame st.sub st st' ∧ st'.log = st.log ∧
      (st'.obj st.sub).iscur = (st.obj st.sub).iscur ∧ (st'.obj (st.sub + 1)).iscur = false := by
  unfold focus at e
  dsimp only [] at e
  split at e
  · rename_i n el hty'
    rw [hp.tinc] at e
    simp only [Bool.false_eq_true, if_false] at e
    have hpt : pl.ty = .array n el := by rw [← hty]; exact hty'
    obtain ⟨hn, _⟩ := wf_array hw hpt
    obtain ⟨h1, h2, h3, h4, h5, h6, h7⟩ := push_spec e
    have hc : childAt pl 0 false = some { ty := el, off := pl.off + 0 * el.size, depth := pl.depth + 1 } := by
      rw [childAt_array hpt hw.unb, if_pos (by omega)]
    have hc' : childAt pl 0 true = some { ty := el, off := pl.off + 0 * el.size, depth := pl.depth + 1 } := by
      rw [childAt_array hpt hw.unb, if_pos (by omega)]
    have hl : Lvl st' st.sub pl 0 { ty := el, off := pl.off + 0 * el.size, depth := pl.depth + 1 } := by
      refine ⟨by rw [h4]; exact hty, by rw [h4]; exact hoff, hc, ?_⟩
      unfold UAt
      rw [hpt, h4]
      simp
    exact ⟨_, hc', h1, hl, sp_child hw hl h5 (by rw [h6, hoff]; simp), h2, h3, by rw [h4], h7⟩
  · rename_i iu tag size n ty off b a next hty'
    have hpt : pl.ty = .agg iu tag size (.cons n ty off b a next) := by rw [← hty]; exact hty'
    obtain ⟨h1, h2, h3, h4, h5, h6, h7⟩ := push_spec e
    have hc : childAt pl 0 false = some { ty := ty, off := pl.off + off, before := b, after := a, depth := pl.depth + 1 } := by
      rw [childAt_agg hpt]; simp [Members.drop]
    have hc' : childAt pl 0 true = some { ty := ty, off := pl.off + off, before := b, after := a, depth := pl.depth + 1 } := by
      rw [childAt_agg hpt]; simp [Members.drop]
    have hl : Lvl st' st.sub pl 0 { ty := ty, off := pl.off + off, before := b, after := a, depth := pl.depth + 1 } := by
      refine ⟨by rw [h4]; exact hty, by rw [h4]; exact hoff, hc, ?_⟩
      unfold UAt
      rw [hpt, h4]
      simp [Members.drop]
    exact ⟨_, hc', h1, hl, sp_child hw hl h5 (by rw [h6, hoff]; simp [Nat.add_comm]), h2, h3, by rw [h4], h7⟩
  · cases e
  · cases e

/-- `advance` from the sub-object `pos` of slot `k` to the next one -/
theorem advance_step {st st' : St} {k f : Nat} {pl ch ch' : Place} {pos : Nat} (hs : st.sub = k + 1)
    (hp : Flat st k) (hw : PlWf pl) (hl : Lvl st k pl pos ch) (hc : childAt pl (pos + 1) true = some ch')
    (e : advance (f + 1) st = .ok st') :
    st'.sub = k + 1 ∧ Lvl st' k pl (pos + 1) ch' ∧ SP st' (k + 1) ch' ∧ Frame k st st' ∧ st'.log = st.log ∧
      (st'.obj k).iscur = (st.obj k).iscur ∧ (st'.obj (k + 1)).iscur = false := by
  rw [advance] at e
  split at e
  · omega
  dsimp only [] at e
  have hk : st.sub - 1 = k := by omega
  rw [hk] at e
  have hp0 : Flat { st with sub := k } k := hp.sub k
  have hfin : ∀ {u : U} {t : Ty} {off : Nat},
      subobj (({ st with sub := k } : St).setSlot k { st.obj k with u := u }) t off = .ok st' →
      ch'.ty = t → ch'.off = off + pl.off → UAt u pl.ty (pos + 1) →
      st'.sub = k + 1 ∧ Lvl st' k pl (pos + 1) ch' ∧ SP st' (k + 1) ch' ∧ Frame k st st' ∧ st'.log = st.log ∧
      (st'.obj k).iscur = (st.obj k).iscur ∧ (st'.obj (k + 1)).iscur = false := by
    intro u t off e' e1 e2 e3
    obtain ⟨h1, h2, h3, h4, h5, h6, h7⟩ := push_spec (st := { st with sub := k }) e'
    simp only [] at h1 h3 h4 h5 h6 h7
    have hl' : Lvl st' k pl (pos + 1) ch' :=
      ⟨by rw [h4]; exact hl.ty, by rw [h4]; exact hl.off, childAt_of_pos hc, by rw [h4]; exact e3⟩
    refine ⟨h1, hl', sp_child hw hl' (by rw [h5, e1]) (by rw [h6, e2, hl.off]), ?_, h3, by rw [h4], h7⟩
    exact ⟨h2.cur, h2.top, h2.inc, h2.low⟩
  have hu := hl.u
  split at e
  · -- array
    rename_i n el hty'
    have hpt : pl.ty = .array n el := by rw [← hl.ty]; exact hty'
    obtain ⟨hn, hes⟩ := wf_array hw hpt
    unfold UAt at hu; rw [hpt] at hu; simp only [] at hu
    rw [childAt_array hpt hw.unb] at hc
    split at hc
    · rename_i hlt
      cases hc
      rw [hu] at e
      simp only [] at e
      have hts : ({ st with sub := k } : St).tsize k = n * el.size := by
        rw [hp0.tsize]; show (st.obj k).ty.size = _; rw [hty']; rfl
      rw [hts, if_neg (mul_succ_ne hlt hes)] at e
      refine hfin e rfl ?_ ?_
      · simp only []; rw [Nat.add_mul, Nat.one_mul, Nat.add_comm]
      · unfold UAt; rw [hpt]; simp only []; rw [Nat.add_mul, Nat.one_mul]
    · cases hc
  · -- struct
    rename_i tag size ms hty'
    have hpt : pl.ty = .agg false tag size ms := by rw [← hl.ty]; exact hty'
    unfold UAt at hu; rw [hpt] at hu; simp only [] at hu
    rw [childAt_agg hpt] at hc
    simp only [Bool.false_and, Bool.false_eq_true, if_false] at hc
    rw [drop_succ] at hc
    rw [hu] at e
    cases hd : Members.drop ms pos with
    | nil => rw [hd] at hc; simp at hc
    | cons n0 t0 o0 b0 a0 next =>
      rw [hd] at hc e
      simp only [] at hc e
      cases next with
      | nil => simp at hc
      | cons n1 t1 o1 b1 a1 nn =>
        simp only [] at hc e
        cases hc
        refine hfin e rfl ?_ ?_
        · simp only []; exact Nat.add_comm _ _
        · unfold UAt; rw [hpt]; simp only []; rw [drop_succ, hd]
  · -- union or scalar: there is no next sub-object
    rename_i hna hns
    exfalso
    cases hpt : pl.ty with
    | scalar s k' => rw [childAt_scalar hpt] at hc; cases hc
    | array n el => exact hna n el (by rw [hl.ty, hpt])
    | agg iu tag size ms =>
      cases iu with
      | false => exact hns tag size ms (by rw [hl.ty, hpt])
      | true => rw [childAt_agg hpt] at hc; simp at hc

/-- `advance` leaves slot `k` when its sub-objects are used up -/
theorem advance_pop {st st' : St} {k f : Nat} {pl ch : Place} {pos : Nat} (hs : st.sub = k + 1)
    (hp : Flat st k) (hw : PlWf pl) (hl : Lvl st k pl pos ch) (hc : childAt pl (pos + 1) true = none)
    (e : advance (f + 1) st = .ok st') :
    st.cur ≠ some k ∧ ∃ st1, advance f st1 = .ok st' ∧ st1.sub = k ∧ Frame k st st1 ∧ st1.log = st.log ∧
      (st1.obj k).ty = (st.obj k).ty ∧ (st1.obj k).offset = (st.obj k).offset := by
  rw [advance] at e
  split at e
  · omega
  dsimp only [] at e
  have hk : st.sub - 1 = k := by omega
  rw [hk] at e
  have hp0 : Flat { st with sub := k } k := hp.sub k
  have hu := hl.u
  have hset : ∀ (u : U), Frame k st (({ st with sub := k } : St).setSlot k { st.obj k with u := u }) := by
    intro u
    refine ⟨rfl, rfl, rfl, ?_⟩
    intro j hj
    have : j ≠ k := by omega
    simp [St.setSlot, this]
  split at e
  · -- array
    rename_i n el hty'
    have hpt : pl.ty = .array n el := by rw [← hl.ty]; exact hty'
    obtain ⟨hn, hes⟩ := wf_array hw hpt
    unfold UAt at hu; rw [hpt] at hu; simp only [] at hu
    have hch := hl.child
    rw [childAt_array hpt hw.unb] at hc hch
    split at hch
    · rename_i hlt
      split at hc
      · cases hc
      · rename_i hnl
        rw [hu] at e
        simp only [] at e
        have hts : ({ st with sub := k } : St).tsize k = n * el.size := by
          rw [hp0.tsize]; show (st.obj k).ty.size = _; rw [hty']; rfl
        rw [hts, hp0.tinc, if_pos (mul_succ_eq hlt hnl)] at e
        simp only [Bool.not_false, if_true] at e
        split at e
        · cases e
        · rename_i hne
          exact ⟨fun h => hne (by simp only [St.setSlot]; exact h.symm),
            _, e, rfl, hset _, rfl, by simp [St.setSlot], by simp [St.setSlot]⟩
    · cases hch
  · -- struct
    rename_i tag size ms hty'
    have hpt : pl.ty = .agg false tag size ms := by rw [← hl.ty]; exact hty'
    unfold UAt at hu; rw [hpt] at hu; simp only [] at hu
    have hch := hl.child
    rw [childAt_agg hpt] at hc hch
    simp only [Bool.false_and, Bool.false_eq_true, if_false] at hc hch
    rw [drop_succ] at hc
    rw [hu] at e
    cases hd : Members.drop ms pos with
    | nil => rw [hd] at hch; simp at hch
    | cons n0 t0 o0 b0 a0 next =>
      rw [hd] at hc e
      simp only [] at hc e
      cases next with
      | cons n1 t1 o1 b1 a1 nn => simp at hc
      | nil =>
        simp only [] at e
        split at e
        · cases e
        · rename_i hne
          exact ⟨fun h => hne (by simp only [St.setSlot]; exact h.symm),
            _, e, rfl, hset _, rfl, by simp [St.setSlot], by simp [St.setSlot]⟩
  · -- union (or scalar)
    split at e
    · cases e
    · rename_i hne
      refine ⟨fun h => hne (by exact h.symm), _, e, rfl, ⟨rfl, rfl, rfl, fun _ _ => rfl⟩, rfl, rfl, rfl⟩

end CprocVerif.InitSim

/-
  C01 — the memory of `Spec/Qbe` as far as the parameter slots need it: a stack allocation followed
  by a store can be read back, and later allocations and stores elsewhere do not disturb it.
-/
import CprocVerif.Spec.Qbe

namespace CprocVerif.LowerMem
open CprocVerif.Qbe

/-! ## Little-endian bytes -/

theorem get!_eq (b : ByteArray) (i : Nat) : b.get! i = b[i]! := by
  cases b with
  | mk bs =>
    show bs[i]! = (ByteArray.mk bs)[i]!
    by_cases h : i < bs.size
    · rw [getElem!_pos bs i h, getElem!_pos (ByteArray.mk bs) i h]; rfl
    · rw [getElem!_neg bs i h, getElem!_neg (ByteArray.mk bs) i h]

theorem storeLE_size (b : ByteArray) (off : Nat) (v : UInt64) (n : Nat) :
    (storeLE b off v n).size = b.size := by
  induction n generalizing b off v with
  | zero => rfl
  | succ n ih => simp only [storeLE]; rw [ih, ByteArray.size_set!]

theorem storeLE_get_lt (b : ByteArray) (off : Nat) (v : UInt64) (n k : Nat) (hk : k < off) :
    (storeLE b off v n).get! k = b.get! k := by
  induction n generalizing b off v with
  | zero => rfl
  | succ n ih =>
    simp only [storeLE]
    rw [ih _ _ _ (by omega), get!_eq, get!_eq, ByteArray.getElem!_set!_ne _ _ _ _ (by omega)]

theorem or_shift8 (x y : Nat) (hx : x < 2 ^ 8) : x ||| y <<< 8 = x + y * 2 ^ 8 := by
  rw [Nat.or_comm, ← Nat.shiftLeft_add_eq_or_of_lt hx, Nat.shiftLeft_eq]
  omega

theorem load_store (n : Nat) (hn : n ≤ 8) : ∀ (b : ByteArray) (off : Nat) (v : UInt64),
    off + n ≤ b.size → (loadLE (storeLE b off v n) off n).toNat = v.toNat % 2 ^ (8 * n) := by
  induction n with
  | zero => intro b off v _; simp [loadLE]; exact (Nat.mod_one _).symm
  | succ n ih =>
    intro b off v hsz
    simp only [storeLE, loadLE]
    have ih' := ih (by omega) (b.set! off v.toUInt8) (off + 1) (v >>> 8)
      (by rw [ByteArray.size_set!]; omega)
    have hget : (storeLE (b.set! off v.toUInt8) (off + 1) (v >>> 8) n).get! off = v.toUInt8 := by
      rw [storeLE_get_lt _ _ _ _ _ (by omega), get!_eq, ByteArray.getElem!_set!_self _ _ _ (by omega)]
    rw [hget, UInt64.toNat_or, UInt64.toNat_shiftLeft, ih']
    have h8 : (8 : UInt64).toNat % 64 = 8 := by decide
    have hshr : (v >>> 8).toNat = v.toNat / 2 ^ 8 := by
      rw [UInt64.toNat_shiftRight, h8, Nat.shiftRight_eq_div_pow]
    rw [h8, hshr, UInt8.toNat_toUInt64, UInt64.toNat_toUInt8]
    have hlt : v.toNat / 2 ^ 8 % 2 ^ (8 * n) < 2 ^ 56 := by
      have h1 : v.toNat / 2 ^ 8 % 2 ^ (8 * n) < 2 ^ (8 * n) := Nat.mod_lt _ (Nat.pow_pos (by decide))
      have h2 : 2 ^ (8 * n) ≤ 2 ^ 56 := Nat.pow_le_pow_right (by decide) (by omega)
      omega
    have hm : (v.toNat / 2 ^ 8 % 2 ^ (8 * n)) <<< 8 % 2 ^ 64 = (v.toNat / 2 ^ 8 % 2 ^ (8 * n)) <<< 8 := by
      apply Nat.mod_eq_of_lt
      rw [Nat.shiftLeft_eq]
      omega
    rw [hm, or_shift8 _ _ (Nat.mod_lt _ (by decide))]
    have e : 2 ^ (8 * (n + 1)) = 2 ^ 8 * 2 ^ (8 * n) := by
      rw [← Nat.pow_add]; congr 1; omega
    rw [e, Nat.mod_mul]
    omega

theorem pushZeros_size (b : ByteArray) (n : Nat) : (pushZeros b n).size = b.size + n := by
  induction n generalizing b with
  | zero => rfl
  | succ n ih => simp only [pushZeros]; rw [ih, ByteArray.size_push]; omega

/-! ## Finding an allocation -/

theorem bsearch_spec (p : Nat → Bool) (j : Nat) : ∀ (fuel lo hi : Nat), hi - lo < 2 ^ fuel →
    lo ≤ j → j ≤ hi → (∀ i, lo ≤ i → i < hi → (p i = true ↔ j ≤ i)) → bsearch p fuel lo hi = j := by
  intro fuel
  induction fuel with
  | zero => intro lo hi h1 h2 h3 _; simp only [bsearch]; simp at h1; omega
  | succ f ih =>
    intro lo hi h1 h2 h3 hp
    simp only [bsearch]
    by_cases hlt : lo < hi
    · simp only [hlt, if_true]
      have hmid1 : lo ≤ (lo + hi) / 2 := by omega
      have hmid2 : (lo + hi) / 2 < hi := by omega
      have h2f : 2 ^ (f + 1) = 2 * 2 ^ f := by rw [Nat.pow_succ]; omega
      by_cases hpm : p ((lo + hi) / 2) = true
      · simp only [hpm, if_true]
        have := (hp _ hmid1 hmid2).1 hpm
        exact ih lo ((lo + hi) / 2) (by omega) h2 this (fun i h4 h5 => hp i h4 (by omega))
      · simp only [hpm, Bool.false_eq_true, if_false]
        have : ¬ j ≤ (lo + hi) / 2 := fun h => hpm ((hp _ hmid1 hmid2).2 h)
        exact ih ((lo + hi) / 2 + 1) hi (by omega) (by omega) h3 (fun i h4 h5 => hp i (by omega) h5)
    · simp only [hlt, if_false]; omega

theorem bsearchBase_eq (a : Array Alloc) (addr : Nat) (le : Bool) : ∀ (fuel lo hi : Nat),
    bsearchBase a addr le fuel lo hi =
      bsearch (fun i => if le then decide ((a.getD i default).base ≤ addr)
        else decide ((a.getD i default).base > addr)) fuel lo hi := by
  intro fuel
  induction fuel with
  | zero => intro lo hi; rfl
  | succ f ih =>
    intro lo hi
    simp only [bsearchBase, bsearch]
    split
    · cases le <;> simp only [Bool.false_eq_true, if_false, if_true, decide_eq_true_eq, ih]
    · rfl

/-- Allocations on the stack: each one entirely below the one before, none below `sp`. -/
structure MemInv (M : Mem) : Prop where
  sorted : ∀ (i j : Nat) (hi : i < M.stack.size) (hj : j < M.stack.size), i < j →
    M.stack[j].base + M.stack[j].size ≤ M.stack[i].base
  above : ∀ (i : Nat) (hi : i < M.stack.size), M.sp ≤ M.stack[i].base
  low : stackLimit ≤ M.sp
  small : M.stack.size < 2 ^ 64

theorem find_stack {M : Mem} (inv : MemInv M) {j : Nat} (hj : j < M.stack.size) {addr n : Nat}
    (hn : 0 < n) (h1 : M.stack[j].base ≤ addr) (h2 : addr + n ≤ M.stack[j].base + M.stack[j].size) :
    M.find addr n = some (.stack, j) := by
  have hlow : stackLimit ≤ addr := by
    have := inv.above j hj; have := inv.low; omega
  unfold Mem.find
  simp only [ge_iff_le, hlow, if_true]
  have hb : bsearchBase M.stack addr true 64 0 M.stack.size = j := by
    rw [bsearchBase_eq]
    apply bsearch_spec _ j 64 0 M.stack.size (by have := inv.small; omega) (Nat.zero_le _) (Nat.le_of_lt hj)
    intro i _ hi
    simp only [if_true, Array.getD_eq_getD_getElem?, Array.getElem?_eq_getElem hi, Option.getD_some,
      decide_eq_true_eq]
    constructor
    · intro h
      rcases Nat.lt_or_ge i j with hij | hij
      · have := inv.sorted i j hi hj hij; omega
      · exact hij
    · intro h
      rcases Nat.lt_or_ge j i with hji | hji
      · have := inv.sorted j i hj hi hji; omega
      · have : i = j := by omega
        subst this; exact h1
  rw [hb, Array.getElem?_eq_getElem hj]
  simp [h1, h2]

theorem load_stack {M : Mem} (inv : MemInv M) {j : Nat} (hj : j < M.stack.size) {n : Nat}
    (hn : 0 < n) (h2 : n ≤ M.stack[j].size) :
    M.load M.stack[j].base n = .ok (loadLE M.stack[j].bytes 0 n) := by
  unfold Mem.load
  rw [find_stack inv hj hn (Nat.le_refl _) (by omega)]
  simp [Array.getElem?_eq_getElem hj]

theorem store_stack {M : Mem} (inv : MemInv M) {j : Nat} (hj : j < M.stack.size) {n : Nat}
    (hn : 0 < n) (h2 : n ≤ M.stack[j].size) (v : UInt64) :
    M.store M.stack[j].base n v = .ok ⟨M.globals,
      M.stack.modify j (fun a => { a with bytes := storeLE a.bytes (M.stack[j].base - a.base) v n }),
      M.sp⟩ := by
  unfold Mem.store
  rw [find_stack inv hj hn (Nat.le_refl _) (by omega)]

/-! ## One parameter slot: `alloc`, then `store` -/

def zeros (n : Nat) : ByteArray := pushZeros (ByteArray.emptyWithCapacity n) n

theorem zeros_size (n : Nat) : (zeros n).size = n := by
  unfold zeros
  rw [pushZeros_size]
  show 0 + n = n
  omega

theorem modify_inv {M : Mem} (inv : MemInv M) (j : Nat) (f : Alloc → Alloc)
    (hf : ∀ a, (f a).base = a.base ∧ (f a).size = a.size) :
    MemInv ⟨M.globals, M.stack.modify j f, M.sp⟩ := by
  have hget : ∀ (i : Nat) (hi : i < M.stack.size),
      ((M.stack.modify j f)[i]'(by simpa using hi)).base = M.stack[i].base ∧
      ((M.stack.modify j f)[i]'(by simpa using hi)).size = M.stack[i].size := by
    intro i hi
    rw [Array.getElem_modify]
    split
    · exact hf _
    · exact ⟨rfl, rfl⟩
  refine ⟨?_, ?_, inv.low, by simpa using inv.small⟩
  · intro i k hi hk hik
    simp only [Array.size_modify] at hi hk
    rw [(hget i hi).1, (hget k hk).1, (hget k hk).2]
    exact inv.sorted i k hi hk hik
  · intro i hi
    simp only [Array.size_modify] at hi
    rw [(hget i hi).1]
    exact inv.above i hi

theorem spill_mem {M : Mem} (inv : MemInv M) (size align : Nat) (hs : 0 < size ∧ size ≤ 8)
    (ha : align = 4 ∨ align = 8) (hroom : stackLimit + 64 ≤ M.sp) (hsz : M.stack.size + 1 < 2 ^ 64)
    (x : UInt64) :
    ∃ base M1 M2, M.alloc size align = .ok (base, M1) ∧ M1.store base size x = .ok M2 ∧
      MemInv M2 ∧ M2.sp = base ∧ M.sp ≤ base + 32 ∧ base ≤ M.sp ∧
      M2.stack.size = M.stack.size + 1 ∧ M2.globals = M.globals ∧
      (∀ (j : Nat), j < M.stack.size → M2.stack[j]? = M.stack[j]?) ∧
      M2.stack[M.stack.size]? = some ⟨base, size, storeLE (zeros size) 0 x size⟩ := by
  have hmax : ¬ size > maxAlloc := by unfold maxAlloc; omega
  have hamax : max align 1 = align := by rcases ha with rfl | rfl <;> rfl
  have hpos : 0 < align := by rcases ha with rfl | rfl <;> decide
  have hal : align ≤ 8 := by rcases ha with rfl | rfl <;> decide
  obtain ⟨base, hbdef⟩ : ∃ base, base = (M.sp - redZone - size) / align * align := ⟨_, rfl⟩
  have hbase1 : base ≤ M.sp - 16 - size := by rw [hbdef]; exact Nat.div_mul_le_self _ _
  have hbase2 : M.sp - 16 - size < base + align := by rw [hbdef]; exact Nat.lt_div_mul_add hpos
  have hlow : ¬ base < stackLimit + redZone := by
    have : redZone = 16 := rfl
    omega
  have halloc : M.alloc size align = .ok (base,
      ⟨M.globals, M.stack.push ⟨base, size, zeros size⟩, base⟩) := by
    simp only [Mem.alloc, hmax, if_false, hamax, ← hbdef, hlow, zeros]
  have hinv1 : MemInv ⟨M.globals, M.stack.push ⟨base, size, zeros size⟩, base⟩ := by
    refine ⟨?_, ?_, ?_, by simpa using hsz⟩
    · intro i k hi hk hik
      simp only [Array.size_push] at hi hk
      have hi' : i < M.stack.size := by omega
      simp only [Array.getElem_push, hi', dite_true]
      by_cases hk' : k < M.stack.size
      · simp only [hk', dite_true]; exact inv.sorted i k hi' hk' hik
      · simp only [hk', dite_false]
        have := inv.above i hi'
        omega
    · intro i hi
      simp only [Array.size_push] at hi
      simp only [Array.getElem_push]
      split
      · rename_i h; have := inv.above i h; omega
      · exact Nat.le_refl _
    · show stackLimit ≤ base
      have : redZone = 16 := rfl
      omega
  have hk : M.stack.size < (M.stack.push ⟨base, size, zeros size⟩).size := by simp
  have hst := store_stack hinv1 (j := M.stack.size) hk (n := size) hs.1 (by simp) x
  simp only [Array.getElem_push_eq] at hst
  refine ⟨base, _, _, halloc, hst, modify_inv hinv1 _ _ (fun a => ⟨rfl, rfl⟩), rfl, by omega,
    by omega, by simp, rfl, ?_, ?_⟩
  · intro j hj
    simp only [Array.getElem?_modify, Array.getElem?_push]
    have h1 : ¬ M.stack.size = j := by omega
    have h2 : ¬ j = M.stack.size := by omega
    simp [h1, h2]
  · rw [Array.getElem?_eq_getElem (by simp), Array.getElem_modify]
    simp

end CprocVerif.LowerMem

/-
  C01, fragment 𝔽₂ — the memory of the running function: every variable (parameter or block-scope
  object) owns one stack allocation, in the order of the variable numbers; allocating the next one and
  storing into an existing one maintain this, and an initialised variable reads back as its value.
-/
import CprocVerif.Lemmas.LowerFunc
import CprocVerif.Lemmas.Lower2Expr

set_option linter.unusedSimpArgs false

namespace CprocVerif.LowerMach2
open CprocVerif.Qbe CprocVerif.Lower CprocVerif.Lower2 CprocVerif.CSem CprocVerif.CSem2 CprocVerif.CInt
open CprocVerif.LowerArith CprocVerif.LowerMach CprocVerif.LowerMem

/-! ## Bytes -/

theorem storeLE_get_ge (b : ByteArray) (off : Nat) (v : UInt64) (n k : Nat) (hk : off + n ≤ k) :
    (storeLE b off v n).get! k = b.get! k := by
  induction n generalizing b off v with
  | zero => rfl
  | succ n ih =>
    simp only [storeLE]
    rw [ih _ _ _ (by omega), get!_eq, get!_eq, ByteArray.getElem!_set!_ne _ _ _ _ (by omega)]

theorem loadLE_congr (b1 b2 : ByteArray) (n : Nat) : ∀ (off : Nat),
    (∀ k, off ≤ k → k < off + n → b1.get! k = b2.get! k) → loadLE b1 off n = loadLE b2 off n := by
  induction n with
  | zero => intro off _; rfl
  | succ n ih =>
    intro off h
    simp only [loadLE]
    rw [h off (Nat.le_refl _) (by omega), ih (off + 1) (fun k h1 h2 => h k (by omega) (by omega))]

/-- a store does not change what a load of a disjoint range gives -/
theorem load_store_other (b : ByteArray) (off1 off2 n m : Nat) (v : UInt64)
    (h : off2 + m ≤ off1 ∨ off1 + n ≤ off2) :
    loadLE (storeLE b off1 v n) off2 m = loadLE b off2 m := by
  apply loadLE_congr
  intro k h1 h2
  rcases h with h | h
  · exact storeLE_get_lt _ _ _ _ _ (by omega)
  · exact storeLE_get_ge _ _ _ _ _ (by omega)

theorem load_stack_at {M : Mem} (inv : MemInv M) {j : Nat} (hj : j < M.stack.size) {n off : Nat}
    (hn : 0 < n) (h2 : off + n ≤ M.stack[j].size) :
    M.load (M.stack[j].base + off) n = .ok (loadLE M.stack[j].bytes off n) := by
  unfold Mem.load
  rw [find_stack inv hj hn (Nat.le_add_right _ _) (by omega)]
  simp [Array.getElem?_eq_getElem hj]

theorem store_stack_at {M : Mem} (inv : MemInv M) {j : Nat} (hj : j < M.stack.size) {n off : Nat}
    (hn : 0 < n) (h2 : off + n ≤ M.stack[j].size) (v : UInt64) :
    M.store (M.stack[j].base + off) n v = .ok ⟨M.globals,
      M.stack.modify j (fun a => { a with bytes := storeLE a.bytes (M.stack[j].base + off - a.base) v n }),
      M.sp⟩ := by
  unfold Mem.store
  rw [find_stack inv hj hn (Nat.le_add_right _ _) (by omega)]

/-- `loadLE` of zero bytes in range is 0 … not needed: a fresh allocation holds no value -/
theorem alloc_mem {M : Mem} (inv : MemInv M) (size align : Nat) (hs : 0 < size ∧ size ≤ maxAlloc)
    (ha : align = 4 ∨ align = 8) (hroom : stackLimit + 40 + size ≤ M.sp) (hsz : M.stack.size + 1 < 2 ^ 64) :
    ∃ base, M.alloc size align = .ok (base, ⟨M.globals, M.stack.push ⟨base, size, zeros size⟩, base⟩) ∧
      MemInv ⟨M.globals, M.stack.push ⟨base, size, zeros size⟩, base⟩ ∧ M.sp ≤ base + 24 + size ∧
      base + size ≤ M.sp := by
  have hmax : ¬ size > maxAlloc := by omega
  have hamax : max align 1 = align := by rcases ha with rfl | rfl <;> rfl
  have hpos : 0 < align := by rcases ha with rfl | rfl <;> decide
  have hal : align ≤ 8 := by rcases ha with rfl | rfl <;> decide
  obtain ⟨base, hbdef⟩ : ∃ base, base = (M.sp - redZone - size) / align * align := ⟨_, rfl⟩
  have hbase1 : base ≤ M.sp - 16 - size := by rw [hbdef]; exact Nat.div_mul_le_self _ _
  have hbase2 : M.sp - 16 - size < base + align := by rw [hbdef]; exact Nat.lt_div_mul_add hpos
  have hlow : ¬ base < stackLimit + redZone := by
    have : redZone = 16 := rfl
    omega
  have halloc : M.alloc size align = .ok (base,
      ⟨M.globals, M.stack.push ⟨base, size, zeros size⟩, base⟩) := by
    simp only [Mem.alloc, hmax, if_false, hamax, ← hbdef, hlow, zeros]
  refine ⟨base, halloc, ⟨?_, ?_, ?_, by simpa using hsz⟩, by omega, by omega⟩
  · intro i k hi hk hik
    simp only [Array.size_push] at hi hk
    have hi' : i < M.stack.size := by omega
    simp only [Array.getElem_push, hi', dite_true]
    by_cases hk' : k < M.stack.size
    · simp only [hk', dite_true]; exact inv.sorted i k hi' hk' hik
    · simp only [hk', dite_false]
      have := inv.above i hi'
      omega
  · intro i hi
    simp only [Array.size_push] at hi
    simp only [Array.getElem_push]
    split
    · rename_i h; have := inv.above i h; omega
    · exact Nat.le_refl _
  · show stackLimit ≤ base
    have : redZone = 16 := rfl
    omega

/-! ## The layout -/

theorem xcount_succ (cnts : List Nat) {k : Nat} (hk : k < cnts.length) :
    xcount cnts (k + 1) = xcount cnts k + (cnts.getD k 1 - 1) := by
  unfold xcount
  rw [List.take_succ_eq_append_getElem hk, List.map_append, List.sum_append]
  simp [List.getD, List.getElem?_eq_getElem hk]

theorem xcount_mono (cnts : List Nat) : ∀ {a b : Nat}, a ≤ b → xcount cnts a ≤ xcount cnts b := by
  intro a b hab
  induction b with
  | zero => have : a = 0 := by omega
            subst this; exact Nat.le_refl _
  | succ b ih =>
    by_cases h : a = b + 1
    · subst h; exact Nat.le_refl _
    · have := ih (by omega)
      by_cases hb : b < cnts.length
      · rw [xcount_succ cnts hb]; omega
      · have e : xcount cnts (b + 1) = xcount cnts b := by
          unfold xcount
          rw [List.take_of_length_le (by omega), List.take_of_length_le (by omega)]
        rw [e]; exact this

/-- `M0` is the memory when the function was called (the caller's memory; the marks of the frame are its stack
    size and stack pointer): it is unchanged below the frame.  `cnts`: the number of elements of every
    variable (1: a scalar).  The first `i` variables have their stack slot: the temporary `%.σ[k]` holds the
    address of the `k`-th allocation of the frame, which has room for the elements of the variable, and if
    element `e` holds a value in `s` (cell `ecell`), its bytes contain the `8·size`-bit representation. -/
structure AInv (M0 : Mem) (cnts : List Nat) (W : List (CSem.Ty × Nat × Nat)) (σ : List Nat)
    (vtys : List CSem.Ty) (s : Store) (i : Nat) (env : Env) (M : Mem) : Prop where
  mem : MemInv M
  ssize : M.stack.size = M0.stack.size + i
  sp_lo : M0.sp ≤ M.sp + 64 + 32 * i + 8 * xcount cnts i
  sp_hi : M.sp ≤ M0.sp
  top : M0.sp ≤ stackTop
  globals : M.globals = M0.globals
  below : ∀ k, k < M0.stack.size → M.stack[k]? = M0.stack[k]?
  slots : ∀ (k : Nat) (t : CSem.Ty), k < i → vtys[k]? = some t →
    ∃ (a : UInt64) (al : Alloc), env[tmpName (σ.getD k 0)]? = some ⟨.l, a⟩ ∧
      M.stack[M0.stack.size + k]? = some al ∧ al.base = a.toNat ∧ 1 ≤ cnts.getD k 1 ∧
      al.size = t.size * cnts.getD k 1 ∧ al.bytes.size = al.size ∧ al.base + al.size ≤ M0.sp ∧
      ∀ e v, e < cnts.getD k 1 → s[ecell k (xbase cnts k) e]? = some (some v) →
        ((loadLE al.bytes (e * t.size) t.size).toNat : Int) = v % 2 ^ (8 * t.size)
  /-- the read-only array parameters (`W[j] = (t, w, c0)` for parameter `j`): the slot holds the address of an
      allocation of the callers, whose bytes are the elements seen in the cells `c0 …` -/
  wins : ∀ (j : Nat) (t : CSem.Ty) (w c0 : Nat), W[j]? = some (t, w, c0) →
    j < i ∧ vtys.length + xcount cnts cnts.length ≤ c0 ∧
    ∃ (al : Alloc) (pv : UInt64) (j' : Nat) (al' : Alloc),
      M.stack[M0.stack.size + j]? = some al ∧ loadLE al.bytes 0 8 = pv ∧
      j' < M0.stack.size ∧ M0.stack[j']? = some al' ∧ al'.base = pv.toNat ∧ w * t.size ≤ al'.size ∧
      al'.bytes.size = al'.size ∧ al'.base + al'.size ≤ stackTop ∧
      ∀ e v, e < w → s[c0 + e]? = some (some v) →
        ((loadLE al'.bytes (e * t.size) t.size).toNat : Int) = v % 2 ^ (8 * t.size)

theorem set_get_ne {α : Type} (l : List α) {i j : Nat} (x : α) (h : i ≠ j) : (l.set i x)[j]? = l[j]? := by
  rw [List.getElem?_set]; simp [h]

theorem set_get_self {α : Type} (l : List α) {i : Nat} (x : α) (h : i < l.length) :
    (l.set i x)[i]? = some x := by
  rw [List.getElem?_set]; simp [h]

theorem ecell_zero (k xb : Nat) : ecell k xb 0 = k := by simp [ecell]

/-- different elements live in different cells -/
theorem ecell_inj (cnts : List Nat) {k k' e e' : Nat} (hk : k < cnts.length) (hk' : k' < cnts.length)
    (he : e < cnts.getD k 1) (he' : e' < cnts.getD k' 1)
    (h : ecell k (xbase cnts k) e = ecell k' (xbase cnts k') e') : k = k' ∧ e = e' := by
  unfold ecell xbase at h
  by_cases h0 : e = 0
  · by_cases h0' : e' = 0
    · simp only [h0, h0', if_true] at h; exact ⟨h, by omega⟩
    · simp only [h0, h0', if_true, if_false] at h; omega
  · by_cases h0' : e' = 0
    · simp only [h0, h0', if_true, if_false] at h; omega
    · simp only [h0, h0', if_false] at h
      -- the ranges of two different variables are disjoint
      rcases Nat.lt_trichotomy k k' with hlt | heq | hgt
      · have := xcount_mono cnts (a := k + 1) (b := k') (by omega)
        rw [xcount_succ cnts hk] at this
        omega
      · subst heq; exact ⟨rfl, by omega⟩
      · have := xcount_mono cnts (a := k' + 1) (b := k) (by omega)
        rw [xcount_succ cnts hk'] at this
        omega

/-- the environment may change outside the slot temporaries -/
theorem AInv.env {M0 : Mem} {cnts σ : List Nat} {W : List (CSem.Ty × Nat × Nat)} {vtys : List CSem.Ty} {s : Store} {i : Nat} {env env' : Env}
    {M : Mem} (h : AInv M0 cnts W σ vtys s i env M)
    (he : ∀ k, k < i → env'[tmpName (σ.getD k 0)]? = env[tmpName (σ.getD k 0)]?) :
    AInv M0 cnts W σ vtys s i env' M := by
  refine ⟨h.mem, h.ssize, h.sp_lo, h.sp_hi, h.top, h.globals, h.below, ?_, h.wins⟩
  intro k t hk ht
  obtain ⟨a, al, h1, h2⟩ := h.slots k t hk ht
  exact ⟨a, al, by rw [he k hk]; exact h1, h2⟩

/-- the value of a cell becomes indeterminate -/
theorem AInv.forget {M0 : Mem} {cnts σ : List Nat} {W : List (CSem.Ty × Nat × Nat)} {vtys : List CSem.Ty} {s : Store} {i : Nat} {env : Env}
    {M : Mem} (h : AInv M0 cnts W σ vtys s i env M) (j : Nat) : AInv M0 cnts W σ vtys (s.set j none) i env M := by
  refine ⟨h.mem, h.ssize, h.sp_lo, h.sp_hi, h.top, h.globals, h.below, ?_, ?_⟩
  · intro k t hk ht
    obtain ⟨a, al, h1, h2, h3, h4, h5, h6, h6b, h7⟩ := h.slots k t hk ht
    refine ⟨a, al, h1, h2, h3, h4, h5, h6, h6b, ?_⟩
    intro e v he hv
    by_cases hjk : j = ecell k (xbase cnts k) e
    · rw [← hjk, List.getElem?_set] at hv
      simp only [if_true] at hv
      split at hv <;> cases hv
    · rw [set_get_ne _ _ hjk] at hv
      exact h7 e v he hv
  · intro j' t w c0 hw
    obtain ⟨gi, g0, al, pv, j2, al', g1, g2, g3, g4, g5, g6, g7, g8, g9⟩ := h.wins j' t w c0 hw
    refine ⟨gi, g0, al, pv, j2, al', g1, g2, g3, g4, g5, g6, g7, g8, ?_⟩
    intro e v he hv
    by_cases hjk : j = c0 + e
    · rw [← hjk, List.getElem?_set] at hv
      simp only [if_true] at hv
      split at hv <;> cases hv
    · rw [set_get_ne _ _ hjk] at hv
      exact g9 e v he hv

/-- `alloc` of the next variable's slot, when none of its elements holds a value. -/
theorem AInv.alloc {M0 : Mem} {cnts σ : List Nat} {W : List (CSem.Ty × Nat × Nat)} {vtys : List CSem.Ty} {s : Store} {i : Nat} {env : Env}
    {M : Mem} (h : AInv M0 cnts W σ vtys s i env M) {t : CSem.Ty} (hi : i < cnts.length)
    (hc : 1 ≤ cnts.getD i 1) (hcmax : cnts.getD i 1 ≤ 100000000)
    (hroom : stackLimit + 128 + 32 * (i + 1) + 8 * xcount cnts (i + 1) ≤ M0.sp)
    (hsmall : M0.stack.size + i + 1 < 2 ^ 64)
    (hnone : ∀ e v, e < cnts.getD i 1 → s[ecell i (xbase cnts i) e]? ≠ some (some v)) :
    ∃ (base : Nat) (M1 : Mem), base < 2 ^ 64 ∧
      execOp (.alloc (if t.size = 8 then 8 else 4)) (some .l)
        [⟨.c, UInt64.ofNat (t.size * cnts.getD i 1)⟩] M none = .ok (⟨.l, base.toUInt64⟩, M1) ∧
      M1.globals = M.globals ∧
      ∀ env' : Env, (∀ k, k < i → env'[tmpName (σ.getD k 0)]? = env[tmpName (σ.getD k 0)]?) →
        env'[tmpName (σ.getD i 0)]? = some ⟨.l, base.toUInt64⟩ → vtys[i]? = some t →
        AInv M0 cnts W σ vtys s (i + 1) env' M1 := by
  have hsz : 0 < t.size ∧ t.size ≤ 8 := by rcases size_cases t with h | h | h | h <;> omega
  have hal : (if t.size = 8 then 8 else 4) = 4 ∨ (if t.size = 8 then 8 else 4) = 8 := by
    split <;> simp
  have hxs := xcount_succ cnts hi
  have hsize1 : 0 < t.size * cnts.getD i 1 := Nat.mul_pos hsz.1 hc
  have hsize2 : t.size * cnts.getD i 1 ≤ 8 * cnts.getD i 1 := Nat.mul_le_mul_right _ hsz.2
  have hroom' : stackLimit + 40 + t.size * cnts.getD i 1 ≤ M.sp := by
    have := h.sp_lo; omega
  obtain ⟨base, halloc, hinv1, hb1, hb2⟩ := alloc_mem h.mem (t.size * cnts.getD i 1)
    (if t.size = 8 then 8 else 4) ⟨hsize1, by unfold maxAlloc; omega⟩ hal hroom' (by have := h.ssize; omega)
  have hbase64 : base < 2 ^ 64 := by
    have := h.sp_hi; have := h.top; rw [stackTop_val] at this; omega
  have hbn : base.toUInt64.toNat = base := by
    show (UInt64.ofNat base).toNat = base
    rw [UInt64.toNat_ofNat']; exact Nat.mod_eq_of_lt hbase64
  refine ⟨base, _, hbase64, exec_alloc _ _ _ (by omega) halloc, rfl, ?_⟩
  intro env' he hnew hti
  refine ⟨hinv1, by simp [h.ssize]; omega, ?_, ?_, h.top, h.globals, ?_, ?_, ?_⟩
  · have := h.sp_lo
    show M0.sp ≤ base + 64 + 32 * (i + 1) + 8 * xcount cnts (i + 1)
    omega
  · have := h.sp_hi; show base ≤ M0.sp; omega
  · intro k hk
    show (M.stack.push _)[k]? = _
    rw [Array.getElem?_push]
    have : ¬ k = M.stack.size := by rw [h.ssize]; omega
    simp only [this, if_false]
    exact h.below k hk
  · intro k t' hk ht'
    by_cases hki : k = i
    · subst hki
      rw [hti] at ht'; cases ht'
      refine ⟨base.toUInt64, ⟨base, t.size * cnts.getD k 1, zeros (t.size * cnts.getD k 1)⟩, hnew, ?_,
        hbn.symm, hc, rfl, zeros_size _, ?_, ?_⟩
      · show (M.stack.push _)[M0.stack.size + k]? = _
        rw [← h.ssize]; simp
      · have := h.sp_hi
        show base + t.size * cnts.getD k 1 ≤ M0.sp
        omega
      · intro e v he' hv
        exact absurd hv (hnone e v he')
    · have hk' : k < i := by omega
      obtain ⟨a, al, h1, h2, h3, h4, h5, h6, h6b, h7⟩ := h.slots k t' hk' ht'
      refine ⟨a, al, by rw [he k hk']; exact h1, ?_, h3, h4, h5, h6, h6b, h7⟩
      show (M.stack.push _)[M0.stack.size + k]? = _
      rw [Array.getElem?_push]
      have : ¬ M0.stack.size + k = M.stack.size := by rw [h.ssize]; omega
      simp only [this, if_false]
      exact h2

  · intro j t' w c0 hw
    obtain ⟨gi, g0, al, pv, j2, al', g1, g2, g3, g4, g5, g6, g7, g8, g9⟩ := h.wins j t' w c0 hw
    refine ⟨by omega, g0, al, pv, j2, al', ?_, g2, g3, g4, g5, g6, g7, g8, g9⟩
    show (M.stack.push _)[M0.stack.size + j]? = _
    rw [Array.getElem?_push]
    have : ¬ M0.stack.size + j = M.stack.size := by rw [h.ssize]; omega
    simp only [this, if_false]
    exact g1

/-- What a register must hold for `store` into a slot of type `t` to write the representation of `v`. -/
def StoreVal (t : CSem.Ty) (v : Int) (r : RVal) : Prop :=
  ∃ x : UInt64, (if t.size = 8 then r.asL else r.asW) = .ok x ∧
    (x.toNat : Int) % 2 ^ (8 * t.size) = v % 2 ^ (8 * t.size)

theorem storeVal_of_rep {t : CSem.Ty} {v : Int} {r : RVal} (h : Rep t v r) : StoreVal t v r := by
  unfold Rep at h
  unfold StoreVal
  by_cases h8 : t.size = 8
  · simp only [h8, if_true] at h ⊢
    obtain ⟨x, hx, hxv⟩ := h
    refine ⟨x, hx, ?_⟩
    rw [hxv]
    simp only [Nat.reduceMul]
    omega
  · simp only [h8, if_false] at h ⊢
    exact h

theorem lt_of_get' {α : Type} {l : List α} {i : Nat} {x : α} (h : l[i]? = some x) : i < l.length := by
  rcases Nat.lt_or_ge i l.length with h' | h'
  · exact h'
  · rw [List.getElem?_eq_none h'] at h; cases h

/-- `store` into element `e` of variable `k`: the address is the base plus `e` times the element size. -/
theorem AInv.storeAt {M0 : Mem} {cnts σ : List Nat} {W : List (CSem.Ty × Nat × Nat)} {vtys : List CSem.Ty} {s : Store} {i : Nat} {env : Env}
    {M : Mem} (h : AInv M0 cnts W σ vtys s i env M) (hcl : cnts.length = vtys.length) {k : Nat} {t : CSem.Ty}
    (hk : k < i) (hWk : W.length ≤ k) (hkt : vtys[k]? = some t) {e : Nat} (he : e < cnts.getD k 1)
    {v : Int} {r : RVal} (hr : StoreVal t v r) :
    ∃ (a : UInt64) (M' : Mem), env[tmpName (σ.getD k 0)]? = some ⟨.l, a⟩ ∧
      (∀ ra : RVal, ra.asL = .ok (UInt64.ofNat (a.toNat + e * t.size)) →
        execOp (.store (storeOf t)) none [r, ra] M none = .ok (dummy, M')) ∧
      M'.globals = M.globals ∧ a.toNat + e * t.size < 2 ^ 64 ∧
      AInv M0 cnts W σ vtys (s.set (ecell k (xbase cnts k) e) (some v)) i env M' := by
  obtain ⟨a, al, h1, h2, h3, h4, h5, h5b, h5c, h7⟩ := h.slots k t hk hkt
  have hk' : M0.stack.size + k < M.stack.size := by rw [h.ssize]; omega
  have hal : M.stack[M0.stack.size + k] = al := by
    rw [Array.getElem?_eq_getElem hk'] at h2; exact Option.some.inj h2
  have hsz : 0 < t.size ∧ t.size ≤ 8 := by rcases size_cases t with h | h | h | h <;> omega
  obtain ⟨x, hx, hxv⟩ := hr
  have hin : e * t.size + t.size ≤ al.size := by
    rw [h5]
    have : (e + 1) * t.size ≤ cnts.getD k 1 * t.size := Nat.mul_le_mul_right _ (by omega)
    rw [Nat.add_mul, Nat.one_mul] at this
    rw [Nat.mul_comm t.size]; exact this
  have hst := store_stack_at h.mem hk' (n := t.size) (off := e * t.size) hsz.1 (by rw [hal]; exact hin) x
  rw [hal, h3] at hst
  have hlt : a.toNat + e * t.size < 2 ^ 64 := by
    have htop := h.top
    rw [stackTop_val] at htop
    rw [h3] at h5c
    omega
  have hna : (UInt64.ofNat (a.toNat + e * t.size)).toNat = a.toNat + e * t.size := by
    rw [UInt64.toNat_ofNat']; exact Nat.mod_eq_of_lt hlt
  refine ⟨a, ⟨M.globals, M.stack.modify (M0.stack.size + k) (fun a_1 =>
      { a_1 with bytes := storeLE a_1.bytes (a.toNat + e * t.size - a_1.base) x t.size }), M.sp⟩, h1, ?_, rfl,
    hlt, ?_⟩
  · intro ra hra
    by_cases h8 : t.size = 8
    · have hso : storeOf t = .l := by simp [storeOf, h8]
      rw [hso]
      simp only [h8, if_true] at hx
      refine exec_store_l hra hx ?_
      rw [hna]
      show M.store (a.toNat + e * t.size) 8 x = _; rw [← h8]; exact hst
    · simp only [h8, if_false] at hx
      have hso : storeOf t = .w ∨ storeOf t = .h ∨ storeOf t = .b := by
        rcases size_cases t with hs | hs | hs | hs <;> simp [storeOf, hs] at h8 ⊢
      refine exec_store_w (storeOf t) hso hra hx ?_
      rw [storeSize_storeOf, hna]; exact hst
  have hkl0 : k < cnts.length := by rw [hcl]; exact lt_of_get' hkt
  refine ⟨modify_inv h.mem _ _ (fun a => ⟨rfl, rfl⟩), by simp [h.ssize], h.sp_lo, h.sp_hi, h.top,
    h.globals, ?_, ?_, ?_⟩
  · intro k' hk'b
    show (M.stack.modify (M0.stack.size + k) _)[k']? = _
    rw [Array.getElem?_modify]
    have : ¬ M0.stack.size + k = k' := by omega
    simp only [this, if_false]
    exact h.below k' hk'b
  rotate_left
  · intro j t' w c0 hw
    obtain ⟨gi, g0, al2, pv, j2, al', g1, g2, g3, g4, g5, g6, g7, g8, g9⟩ := h.wins j t' w c0 hw
    have hjW : j < W.length := lt_of_get' hw
    refine ⟨gi, g0, al2, pv, j2, al', ?_, g2, g3, g4, g5, g6, g7, g8, ?_⟩
    · show (M.stack.modify (M0.stack.size + k) _)[M0.stack.size + j]? = _
      rw [Array.getElem?_modify]
      have : ¬ M0.stack.size + k = M0.stack.size + j := by omega
      simp only [this, if_false]
      exact g1
    · intro e' v' he' hv'
      have hne : ecell k (xbase cnts k) e ≠ c0 + e' := by
        unfold ecell xbase
        have hm := xcount_mono cnts (a := k + 1) (b := cnts.length) (by omega)
        rw [xcount_succ cnts hkl0] at hm
        split
        · rw [← hcl] at g0; omega
        · rw [← hcl] at g0; omega
      rw [set_get_ne _ _ hne] at hv'
      exact g9 e' v' he' hv'
  intro k' t' hk'i ht'
  have hkl : k < cnts.length := by rw [hcl]; exact lt_of_get' hkt
  have hkl' : k' < cnts.length := by rw [hcl]; exact lt_of_get' ht'
  by_cases hkk : k' = k
  · subst hkk
    rw [hkt] at ht'; cases ht'
    refine ⟨a, { al with bytes := storeLE al.bytes (a.toNat + e * t.size - al.base) x t.size }, h1, ?_, h3,
      h4, h5, ?_, h5c, ?_⟩
    · show (M.stack.modify (M0.stack.size + k') _)[M0.stack.size + k']? = _
      rw [Array.getElem?_modify]
      simp [h2]
    · show (storeLE _ _ _ _).size = _
      rw [storeLE_size]; exact h5b
    · intro e' v' he' hv'
      show ((loadLE (storeLE al.bytes (a.toNat + e * t.size - al.base) x t.size) (e' * t.size) t.size).toNat : Int)
        = _
      rw [h3, Nat.add_sub_cancel_left]
      by_cases hee : e' = e
      · subst hee
        rw [set_get_self _ _ (by
          rcases Nat.lt_or_ge (ecell k' (xbase cnts k') e') s.length with hl | hl
          · exact hl
          · rw [List.getElem?_set] at hv'
            simp only [if_true] at hv'
            split at hv'
            · omega
            · cases hv')] at hv'
        cases hv'
        have := load_store t.size hsz.2 al.bytes (e' * t.size) x (by rw [h5b]; omega)
        rw [this]
        have e2 : ((x.toNat % 2 ^ (8 * t.size) : Nat) : Int) = (x.toNat : Int) % 2 ^ (8 * t.size) := by
          rw [Int.natCast_emod, Int.natCast_pow]; rfl
        rw [e2]; exact hxv
      · have hne : ecell k' (xbase cnts k') e ≠ ecell k' (xbase cnts k') e' := fun hc =>
          hee (ecell_inj cnts hkl hkl he he' hc).2.symm
        rw [set_get_ne _ _ hne] at hv'
        rw [load_store_other]
        · exact h7 e' v' he' hv'
        · -- different elements: disjoint byte ranges
          rcases Nat.lt_or_gt_of_ne hee with hlt' | hgt'
          · left
            have : (e' + 1) * t.size ≤ e * t.size := Nat.mul_le_mul_right _ (by omega)
            rw [Nat.add_mul, Nat.one_mul] at this; exact this
          · right
            have : (e + 1) * t.size ≤ e' * t.size := Nat.mul_le_mul_right _ (by omega)
            rw [Nat.add_mul, Nat.one_mul] at this; exact this
  · obtain ⟨a', al', g1, g2, g3, g4, g5, g6, g6b, g7⟩ := h.slots k' t' hk'i ht'
    refine ⟨a', al', g1, ?_, g3, g4, g5, g6, g6b, ?_⟩
    · show (M.stack.modify (M0.stack.size + k) _)[M0.stack.size + k']? = _
      rw [Array.getElem?_modify]
      have : ¬ M0.stack.size + k = M0.stack.size + k' := fun e => hkk (by omega)
      simp only [this, if_false]
      exact g2
    · intro e' v' he' hv'
      have hne : ecell k (xbase cnts k) e ≠ ecell k' (xbase cnts k') e' := fun hc =>
        hkk (ecell_inj cnts hkl hkl' he he' hc).1.symm
      rw [set_get_ne _ _ hne] at hv'
      exact g7 e' v' he' hv'

/-- `store` into the slot of the (scalar, or first element of the) variable `k`. -/
theorem AInv.store {M0 : Mem} {cnts σ : List Nat} {W : List (CSem.Ty × Nat × Nat)} {vtys : List CSem.Ty} {s : Store} {i : Nat} {env : Env}
    {M : Mem} (h : AInv M0 cnts W σ vtys s i env M) (hcl : cnts.length = vtys.length) {k : Nat} {t : CSem.Ty}
    (hk : k < i) (hWk : W.length ≤ k) (hkt : vtys[k]? = some t) {v : Int} {r : RVal} (hr : StoreVal t v r) :
    ∃ (a : UInt64) (M' : Mem), env[tmpName (σ.getD k 0)]? = some ⟨.l, a⟩ ∧
      execOp (.store (storeOf t)) none [r, ⟨.l, a⟩] M none = .ok (dummy, M') ∧
      M'.globals = M.globals ∧ AInv M0 cnts W σ vtys (s.set k (some v)) i env M' := by
  obtain ⟨_, _, _, _, _, h4, _⟩ := h.slots k t hk hkt
  obtain ⟨a, M', h1, h2, h3, _, h5⟩ := h.storeAt hcl hk hWk hkt (e := 0) (by omega) hr
  rw [ecell_zero] at h5
  refine ⟨a, M', h1, h2 ⟨.l, a⟩ ?_, h3, h5⟩
  simp [RVal.asL]

/-- the slot of an array parameter has received the address of an allocation of the callers: the parameter
    joins the established windows; as an integer variable it is forgotten -/
theorem AInv.addWin {M0 : Mem} {cnts σ : List Nat} {W : List (CSem.Ty × Nat × Nat)} {vtys : List CSem.Ty} {s : Store} {i : Nat} {env : Env}
    {M : Mem} (h : AInv M0 cnts W σ vtys s (i + 1) env M) (hWi : W.length = i)
    (hti : vtys[i]? = some .ulong) {pv : UInt64} (hsi : s[i]? = some (some (pv.toNat : Int)))
    {t : CSem.Ty} {w c0 : Nat} (hc0 : vtys.length + xcount cnts cnts.length ≤ c0)
    {j' : Nat} {al' : Alloc} (hj' : j' < M0.stack.size) (hal' : M0.stack[j']? = some al')
    (hb : al'.base = pv.toNat) (hsz : w * t.size ≤ al'.size) (hbs : al'.bytes.size = al'.size)
    (htop : al'.base + al'.size ≤ stackTop)
    (hel : ∀ e v, e < w → s[c0 + e]? = some (some v) →
      ((loadLE al'.bytes (e * t.size) t.size).toNat : Int) = v % 2 ^ (8 * t.size)) :
    AInv M0 cnts (W ++ [(t, w, c0)]) σ vtys (s.set i none) (i + 1) env M := by
  have hf := h.forget i
  have hiv : i < vtys.length := lt_of_get' hti
  refine ⟨hf.mem, hf.ssize, hf.sp_lo, hf.sp_hi, hf.top, hf.globals, hf.below, hf.slots, ?_⟩
  intro j t1 w1 c1 hw
  by_cases hj : j < W.length
  · rw [List.getElem?_append_left hj] at hw
    exact hf.wins j t1 w1 c1 hw
  · rw [List.getElem?_append_right (by omega)] at hw
    have hj0 : j - W.length = 0 := by
      rcases Nat.eq_zero_or_pos (j - W.length) with h0 | h0
      · exact h0
      · rw [List.getElem?_eq_none (by simp; omega)] at hw; cases hw
    rw [hj0] at hw
    simp only [List.getElem?_cons_zero, Option.some.injEq, Prod.mk.injEq] at hw
    obtain ⟨rfl, rfl, rfl⟩ := hw
    have hji : j = i := by omega
    subst hji
    obtain ⟨a, al, h1, h2, h3, h4, h5, h5b, h5c, h7⟩ := h.slots j .ulong (Nat.lt_succ_self _) hti
    have h70 := h7 0 pv.toNat (by omega) (by rw [ecell_zero]; exact hsi)
    have hsz8 : CSem.Ty.ulong.size = 8 := rfl
    rw [hsz8] at h70
    have hpv : loadLE al.bytes 0 8 = pv := by
      apply UInt64.toNat_inj.1
      have h1 := (loadLE al.bytes 0 8).toNat_lt
      have h2 := pv.toNat_lt
      simp only [Nat.zero_mul, Nat.reduceMul] at h70
      omega
    refine ⟨Nat.lt_succ_self _, hc0, al, pv, j', al', h2, hpv, hj', hal', hb, hsz, hbs, htop, ?_⟩
    intro e v he hv
    rw [set_get_ne _ _ (by omega)] at hv
    exact hel e v he hv

/-- reading element `e` of variable `k` back -/
theorem AInv.loadAt (cs : Bool) {M0 : Mem} {cnts σ : List Nat} {W : List (CSem.Ty × Nat × Nat)} {vtys : List CSem.Ty} {s : Store} {i : Nat}
    {env : Env} {M : Mem} (h : AInv M0 cnts W σ vtys s i env M) {k : Nat} {t : CSem.Ty} {v : Int} (hk : k < i)
    (hkt : vtys[k]? = some t) {e : Nat} (he : e < cnts.getD k 1)
    (hv : s[ecell k (xbase cnts k) e]? = some (some v)) :
    ∃ a : UInt64, env[tmpName (σ.getD k 0)]? = some ⟨.l, a⟩ ∧ a.toNat + e * t.size < 2 ^ 64 ∧
      ∀ ra : UInt64, ra.toNat = a.toNat + e * t.size →
        ∃ r, execOp (.load (loadOf cs t)) (some (cls t)) [⟨.l, ra⟩] M none = .ok (r, M) ∧ Rep t v r := by
  obtain ⟨a, al, h1, h2, h3, h4, h5, h5b, h5c, h6⟩ := h.slots k t hk hkt
  have hk' : M0.stack.size + k < M.stack.size := by rw [h.ssize]; omega
  have hal : M.stack[M0.stack.size + k] = al := by
    rw [Array.getElem?_eq_getElem hk'] at h2; exact Option.some.inj h2
  have hsz : 0 < t.size := by rcases size_cases t with h | h | h | h <;> omega
  have hin : e * t.size + t.size ≤ al.size := by
    rw [h5]
    have : (e + 1) * t.size ≤ cnts.getD k 1 * t.size := Nat.mul_le_mul_right _ (by omega)
    rw [Nat.add_mul, Nat.one_mul] at this
    rw [Nat.mul_comm t.size]; exact this
  have hload := load_stack_at h.mem hk' (n := t.size) (off := e * t.size) hsz (by rw [hal]; exact hin)
  rw [hal, h3] at hload
  have htop := h.top
  rw [stackTop_val] at htop
  rw [h3] at h5c
  refine ⟨a, h1, by omega, ?_⟩
  intro ra hra
  rw [← hra] at hload
  exact load_rep cs t v M ra _ hload (h6 e v he hv)

/-- reading an initialised variable back -/
theorem AInv.load (cs : Bool) {M0 : Mem} {cnts σ : List Nat} {W : List (CSem.Ty × Nat × Nat)} {vtys : List CSem.Ty} {s : Store} {i : Nat}
    {env : Env} {M : Mem} (h : AInv M0 cnts W σ vtys s i env M) {k : Nat} {t : CSem.Ty} {v : Int} (hk : k < i)
    (hkt : vtys[k]? = some t) (hv : s[k]? = some (some v)) :
    ∃ a r, env[tmpName (σ.getD k 0)]? = some a ∧
      execOp (.load (loadOf cs t)) (some (cls t)) [a] M none = .ok (r, M) ∧ Rep t v r := by
  obtain ⟨_, _, _, _, _, h4, _⟩ := h.slots k t hk hkt
  obtain ⟨a, h1, _, h3⟩ := h.loadAt cs hk hkt (e := 0) (by omega) (by rw [ecell_zero]; exact hv)
  obtain ⟨r, hx, hr⟩ := h3 a (by simp)
  exact ⟨⟨.l, a⟩, r, h1, hx, hr⟩

/-- Releasing the frame gives the caller its memory back. -/
theorem AInv.popTo {M0 : Mem} {cnts σ : List Nat} {W : List (CSem.Ty × Nat × Nat)} {vtys : List CSem.Ty} {s : Store} {i : Nat} {env : Env}
    {M : Mem} (h : AInv M0 cnts W σ vtys s i env M) : M.popTo M0.stack.size M0.sp = M0 := by
  cases M0 with
  | mk g0 st0 sp0 =>
    cases M with
    | mk g st sp =>
      have hg : g = g0 := h.globals
      have hb : ∀ k, k < st0.size → st[k]? = st0[k]? := h.below
      have hs : st.size = st0.size + i := h.ssize
      simp only [Mem.popTo, hg, Mem.mk.injEq, true_and, and_true]
      apply Array.ext_getElem?
      intro k
      simp only [Array.shrink_eq_take, Array.take_eq_extract, Array.getElem?_extract]
      by_cases hk : k < st0.size
      · simp [hk, hb k hk]; omega
      · simp [hk, Array.getElem?_eq_none (Nat.le_of_not_lt hk)]; omega

/-- The invariant while the body runs: every variable has its slot, the store is well-typed (the cells of
    the variables and the cells of the further array elements). -/
structure SInv (M0 : Mem) (cs : Bool) (cnts : List Nat) (W : List (CSem.Ty × Nat × Nat)) (σ : List Nat)
    (vtys : List CSem.Ty) (s : Store) (env : Env) (M : Mem) : Prop where
  a : AInv M0 cnts W σ vtys s vtys.length env M
  clen : cnts.length = vtys.length
  slen : vtys.length + xcount cnts cnts.length ≤ s.length
  range : ∀ (i : Nat) (t : CSem.Ty) (v : Int), vtys[i]? = some t → s[i]? = some (some v) →
    InRange (t.intTy cs) v
  xrange : ∀ (k e : Nat) (t : CSem.Ty) (v : Int), vtys[k]? = some t → e < cnts.getD k 1 →
    s[ecell k (xbase cnts k) e]? = some (some v) → InRange (t.intTy cs) v
  wrange : ∀ (j e : Nat) (t : CSem.Ty) (w c0 : Nat) (v : Int), W[j]? = some (t, w, c0) → e < w →
    s[c0 + e]? = some (some v) → InRange (t.intTy cs) v

theorem lt_of_get {α : Type} {l : List α} {i : Nat} {x : α} (h : l[i]? = some x) : i < l.length := by
  rcases Nat.lt_or_ge i l.length with h' | h'
  · exact h'
  · rw [List.getElem?_eq_none h'] at h; cases h

theorem SInv.varsIn {S : Sit} {M0 : Mem} {cnts σ : List Nat} {W : List (CSem.Ty × Nat × Nat)} {vtys : List CSem.Ty} {s : Store} {env : Env}
    {M : Mem} (h : SInv M0 S.cs cnts W σ vtys s env M) : VarsIn (setM S M) σ vtys s env := by
  intro i t v ht hv
  exact h.a.load S.cs (lt_of_get ht) ht hv

theorem SInv.env {M0 : Mem} {cs : Bool} {cnts σ : List Nat} {W : List (CSem.Ty × Nat × Nat)} {vtys : List CSem.Ty} {s : Store} {env env' : Env}
    {M : Mem} (h : SInv M0 cs cnts W σ vtys s env M)
    (he : ∀ k, k < vtys.length → env'[tmpName (σ.getD k 0)]? = env[tmpName (σ.getD k 0)]?) :
    SInv M0 cs cnts W σ vtys s env' M := ⟨h.a.env he, h.clen, h.slen, h.range, h.xrange, h.wrange⟩

theorem SInv.forget {M0 : Mem} {cs : Bool} {cnts σ : List Nat} {W : List (CSem.Ty × Nat × Nat)} {vtys : List CSem.Ty} {s : Store} {env : Env}
    {M : Mem} (h : SInv M0 cs cnts W σ vtys s env M) (j : Nat) : SInv M0 cs cnts W σ vtys (s.set j none) env M := by
  refine ⟨h.a.forget j, h.clen, by simp only [List.length_set]; exact h.slen, ?_, ?_, ?_⟩
  · intro i t v ht hv
    by_cases hji : j = i
    · subst hji
      rw [List.getElem?_set] at hv
      simp only [if_true] at hv
      split at hv <;> cases hv
    · rw [set_get_ne _ _ hji] at hv
      exact h.range i t v ht hv
  · intro k e t v ht he hv
    by_cases hji : j = ecell k (xbase cnts k) e
    · rw [← hji, List.getElem?_set] at hv
      simp only [if_true] at hv
      split at hv <;> cases hv
    · rw [set_get_ne _ _ hji] at hv
      exact h.xrange k e t v ht he hv
  · intro j' e t w c0 v hw he hv
    by_cases hji : j = c0 + e
    · rw [← hji, List.getElem?_set] at hv
      simp only [if_true] at hv
      split at hv <;> cases hv
    · rw [set_get_ne _ _ hji] at hv
      exact h.wrange j' e t w c0 v hw he hv

/-- several cells become indeterminate -/
theorem SInv.clear {M0 : Mem} {cs : Bool} {cnts σ : List Nat} {W : List (CSem.Ty × Nat × Nat)} {vtys : List CSem.Ty} {s : Store} {env : Env}
    {M : Mem} (h : SInv M0 cs cnts W σ vtys s env M) (l : List Nat) :
    SInv M0 cs cnts W σ vtys (CSem2.clear s l) env M := by
  unfold CSem2.clear
  induction l generalizing s with
  | nil => exact h
  | cons i l ih => exact ih (h.forget i)

/-- a store to element `e` of variable `k` -/
theorem SInv.storeAt {M0 : Mem} {cs : Bool} {cnts σ : List Nat} {W : List (CSem.Ty × Nat × Nat)} {vtys : List CSem.Ty} {s : Store} {env : Env}
    {M : Mem} (h : SInv M0 cs cnts W σ vtys s env M) {k : Nat} {t : CSem.Ty} (hkt : vtys[k]? = some t)
    (hWk : W.length ≤ k)
    {e : Nat} (he : e < cnts.getD k 1) {v : Int} {r : RVal} (hv : InRange (t.intTy cs) v)
    (hr : StoreVal t v r) :
    ∃ (a : UInt64) (M' : Mem), env[tmpName (σ.getD k 0)]? = some ⟨.l, a⟩ ∧
      (∀ ra : RVal, ra.asL = .ok (UInt64.ofNat (a.toNat + e * t.size)) →
        execOp (.store (storeOf t)) none [r, ra] M none = .ok (dummy, M')) ∧
      a.toNat + e * t.size < 2 ^ 64 ∧
      SInv M0 cs cnts W σ vtys (s.set (ecell k (xbase cnts k) e) (some v)) env M' := by
  have hkl : k < cnts.length := by rw [h.clen]; exact lt_of_get hkt
  obtain ⟨a, M', h1, h2, _, h3, h4⟩ := h.a.storeAt h.clen (lt_of_get hkt) hWk hkt he hr
  have hcellb : ecell k (xbase cnts k) e < vtys.length + xcount cnts cnts.length := by
    unfold ecell xbase
    split
    · exact Nat.lt_of_lt_of_le (lt_of_get hkt) (Nat.le_add_right _ _)
    · have := xcount_mono cnts (a := k + 1) (b := cnts.length) (by omega)
      rw [xcount_succ cnts hkl] at this
      have := h.clen
      omega
  have hcell : ecell k (xbase cnts k) e < s.length := Nat.lt_of_lt_of_le hcellb h.slen
  refine ⟨a, M', h1, h2, h3, h4, h.clen, by simp only [List.length_set]; exact h.slen, ?_, ?_, ?_⟩
  · intro i t' v' ht' hv'
    by_cases hki : ecell k (xbase cnts k) e = i
    · have hil : i < cnts.length := by rw [h.clen]; exact lt_of_get ht'
      have h0 : ecell i (xbase cnts i) 0 = i := ecell_zero _ _
      have hc1 : 0 < cnts.getD i 1 := by
        obtain ⟨_, _, _, _, _, hc, _⟩ := h.a.slots i t' (lt_of_get ht') ht'
        exact hc
      have hh := ecell_inj cnts hkl hil he hc1 (hki.trans h0.symm)
      have hki2 : k = i := hh.1
      subst hki2
      rw [hkt] at ht'; cases ht'
      rw [hki, set_get_self _ _ (by rw [← hki]; exact hcell)] at hv'
      cases hv'; exact hv
    · rw [set_get_ne _ _ hki] at hv'
      exact h.range i t' v' ht' hv'
  · intro k' e' t' v' ht' he' hv'
    by_cases hki : ecell k (xbase cnts k) e = ecell k' (xbase cnts k') e'
    · have hil : k' < cnts.length := by rw [h.clen]; exact lt_of_get ht'
      obtain ⟨rfl, rfl⟩ := ecell_inj cnts hkl hil he he' hki
      rw [hkt] at ht'; cases ht'
      rw [set_get_self _ _ hcell] at hv'
      cases hv'; exact hv
    · rw [set_get_ne _ _ hki] at hv'
      exact h.xrange k' e' t' v' ht' he' hv'
  · intro j e' t' w c0 v' hw he' hv'
    obtain ⟨_, g0, _⟩ := h.a.wins j t' w c0 hw
    have hne : ecell k (xbase cnts k) e ≠ c0 + e' := by omega
    rw [set_get_ne _ _ hne] at hv'
    exact h.wrange j e' t' w c0 v' hw he' hv'

theorem SInv.store {M0 : Mem} {cs : Bool} {cnts σ : List Nat} {W : List (CSem.Ty × Nat × Nat)} {vtys : List CSem.Ty} {s : Store} {env : Env}
    {M : Mem} (h : SInv M0 cs cnts W σ vtys s env M) {k : Nat} {t : CSem.Ty} (hkt : vtys[k]? = some t)
    (hWk : W.length ≤ k)
    {v : Int} {r : RVal} (hv : InRange (t.intTy cs) v) (hr : StoreVal t v r) :
    ∃ (a : UInt64) (M' : Mem), env[tmpName (σ.getD k 0)]? = some ⟨.l, a⟩ ∧
      execOp (.store (storeOf t)) none [r, ⟨.l, a⟩] M none = .ok (dummy, M') ∧
      SInv M0 cs cnts W σ vtys (s.set k (some v)) env M' := by
  obtain ⟨_, _, _, _, _, hc, _⟩ := h.a.slots k t (lt_of_get hkt) hkt
  obtain ⟨a, M', h1, h2, _, h4⟩ := h.storeAt hkt hWk (e := 0) (by omega) hv hr
  rw [ecell_zero] at h4
  exact ⟨a, M', h1, h2 ⟨.l, a⟩ (by simp [RVal.asL]), h4⟩

end CprocVerif.LowerMach2

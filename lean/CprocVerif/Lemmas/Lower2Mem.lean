/-
  C01, fragment 𝔽₂ — the memory of the running function: every variable (parameter or block-scope
  object) owns one stack allocation, in the order of the variable numbers; allocating the next one and
  storing into an existing one maintain this, and an initialised variable reads back as its value.
-/
import CprocVerif.Lemmas.LowerFunc
import CprocVerif.Lemmas.Lower2Expr

set_option linter.unusedSimpArgs false

namespace CprocVerif.LowerMach2
open CprocVerif.Qbe CprocVerif.Lower CprocVerif.Lower2 CprocVerif.CSem CprocVerif.CSem2 CprocVerif.CInt
open CprocVerif.LowerArith CprocVerif.LowerMach CprocVerif.LowerMem

/-- `alloc4`/`alloc8` of at most 8 bytes with enough room. -/
theorem alloc_mem {M : Mem} (inv : MemInv M) (size align : Nat) (hs : 0 < size ∧ size ≤ 8)
    (ha : align = 4 ∨ align = 8) (hroom : stackLimit + 64 ≤ M.sp) (hsz : M.stack.size + 1 < 2 ^ 64) :
    ∃ base, M.alloc size align = .ok (base, ⟨M.globals, M.stack.push ⟨base, size, zeros size⟩, base⟩) ∧
      MemInv ⟨M.globals, M.stack.push ⟨base, size, zeros size⟩, base⟩ ∧ M.sp ≤ base + 32 ∧ base ≤ M.sp := by
  have hmax : ¬ size > maxAlloc := by unfold maxAlloc; omega
  have hamax : max align 1 = align := by rcases ha with rfl | rfl <;> rfl
  have hpos : 0 < align := by rcases ha with rfl | rfl <;> decide
  have hal : align ≤ 8 := by rcases ha with rfl | rfl <;> decide
  obtain ⟨base, hbdef⟩ : ∃ base, base = (M.sp - redZone - size) / align * align := ⟨_, rfl⟩
  have hbase1 : base ≤ M.sp - 16 - size := by rw [hbdef]; exact Nat.div_mul_le_self _ _
  have hbase2 : M.sp - 16 - size < base + align := by rw [hbdef]; exact Nat.lt_div_mul_add hpos
  have hlow : ¬ base < stackLimit + redZone := by
    have : redZone = 16 := rfl
    omega
  have halloc : M.alloc size align = .ok (base,
      ⟨M.globals, M.stack.push ⟨base, size, zeros size⟩, base⟩) := by
    simp only [Mem.alloc, hmax, if_false, hamax, ← hbdef, hlow, zeros]
  refine ⟨base, halloc, ⟨?_, ?_, ?_, by simpa using hsz⟩, by omega, by omega⟩
  · intro i k hi hk hik
    simp only [Array.size_push] at hi hk
    have hi' : i < M.stack.size := by omega
    simp only [Array.getElem_push, hi', dite_true]
    by_cases hk' : k < M.stack.size
    · simp only [hk', dite_true]; exact inv.sorted i k hi' hk' hik
    · simp only [hk', dite_false]
      have := inv.above i hi'
      omega
  · intro i hi
    simp only [Array.size_push] at hi
    simp only [Array.getElem_push]
    split
    · rename_i h; have := inv.above i h; omega
    · exact Nat.le_refl _
  · show stackLimit ≤ base
    have : redZone = 16 := rfl
    omega

/-- `M0` is the memory when the function was called (the caller's memory; the marks of the frame are its stack
    size and stack pointer): it is unchanged below the frame.  The first `i` variables have their stack slot: the temporary `%.σ[k]` holds the address of the `k`-th
    allocation, which has the size of the variable's type, and if the variable holds a value in `s`, the
    slot contains its `8·size`-bit representation. -/
structure AInv (M0 : Mem) (σ : List Nat) (vtys : List CSem.Ty) (s : Store) (i : Nat) (env : Env)
    (M : Mem) : Prop where
  mem : MemInv M
  ssize : M.stack.size = M0.stack.size + i
  sp_lo : M0.sp ≤ M.sp + 64 + 32 * i
  sp_hi : M.sp ≤ M0.sp
  top : M0.sp ≤ stackTop
  globals : M.globals = M0.globals
  below : ∀ k, k < M0.stack.size → M.stack[k]? = M0.stack[k]?
  slots : ∀ (k : Nat) (t : CSem.Ty), k < i → vtys[k]? = some t →
    ∃ (a : UInt64) (al : Alloc), env[tmpName (σ.getD k 0)]? = some ⟨.l, a⟩ ∧
      M.stack[M0.stack.size + k]? = some al ∧ al.base = a.toNat ∧ al.size = t.size ∧ al.bytes.size = t.size ∧
      ∀ v, s[k]? = some (some v) → ((loadLE al.bytes 0 t.size).toNat : Int) = v % 2 ^ (8 * t.size)

theorem set_get_ne {α : Type} (l : List α) {i j : Nat} (x : α) (h : i ≠ j) : (l.set i x)[j]? = l[j]? := by
  rw [List.getElem?_set]; simp [h]

theorem set_get_self {α : Type} (l : List α) {i : Nat} (x : α) (h : i < l.length) :
    (l.set i x)[i]? = some x := by
  rw [List.getElem?_set]; simp [h]

/-- the environment may change outside the slot temporaries -/
theorem AInv.env {M0 : Mem} {σ : List Nat} {vtys : List CSem.Ty} {s : Store} {i : Nat} {env env' : Env} {M : Mem}
    (h : AInv M0 σ vtys s i env M)
    (he : ∀ k, k < i → env'[tmpName (σ.getD k 0)]? = env[tmpName (σ.getD k 0)]?) :
    AInv M0 σ vtys s i env' M := by
  refine ⟨h.mem, h.ssize, h.sp_lo, h.sp_hi, h.top, h.globals, h.below, ?_⟩
  intro k t hk ht
  obtain ⟨a, al, h1, h2⟩ := h.slots k t hk ht
  exact ⟨a, al, by rw [he k hk]; exact h1, h2⟩

/-- the value of a variable becomes indeterminate -/
theorem AInv.forget {M0 : Mem} {σ : List Nat} {vtys : List CSem.Ty} {s : Store} {i : Nat} {env : Env} {M : Mem}
    (h : AInv M0 σ vtys s i env M) (j : Nat) : AInv M0 σ vtys (s.set j none) i env M := by
  refine ⟨h.mem, h.ssize, h.sp_lo, h.sp_hi, h.top, h.globals, h.below, ?_⟩
  intro k t hk ht
  obtain ⟨a, al, h1, h2, h3, h4, h5, h6⟩ := h.slots k t hk ht
  refine ⟨a, al, h1, h2, h3, h4, h5, ?_⟩
  intro v hv
  by_cases hjk : j = k
  · subst hjk
    rw [List.getElem?_set] at hv
    simp only [if_true] at hv
    split at hv <;> cases hv
  · rw [set_get_ne _ _ hjk] at hv
    exact h6 v hv

/-- `alloc` of the next variable's slot. -/
theorem AInv.alloc {M0 : Mem} {σ : List Nat} {vtys : List CSem.Ty} {s : Store} {i : Nat} {env : Env} {M : Mem}
    (h : AInv M0 σ vtys s i env M) {t : CSem.Ty} (hroom : stackLimit + 128 + 32 * i ≤ M0.sp)
    (hsmall : M0.stack.size + i + 1 < 2 ^ 64) :
    ∃ (base : Nat) (M1 : Mem), base < 2 ^ 64 ∧
      execOp (.alloc (if t.size = 8 then 8 else 4)) (some .l) [⟨.c, UInt64.ofNat t.size⟩] M none =
        .ok (⟨.l, base.toUInt64⟩, M1) ∧ M1.globals = M.globals ∧
      ∀ env' : Env, (∀ k, k < i → env'[tmpName (σ.getD k 0)]? = env[tmpName (σ.getD k 0)]?) →
        env'[tmpName (σ.getD i 0)]? = some ⟨.l, base.toUInt64⟩ → vtys[i]? = some t →
        AInv M0 σ vtys (s.set i none) (i + 1) env' M1 := by
  have hsz : 0 < t.size ∧ t.size ≤ 8 := by rcases size_cases t with h | h | h | h <;> omega
  have hal : (if t.size = 8 then 8 else 4) = 4 ∨ (if t.size = 8 then 8 else 4) = 8 := by
    split <;> simp
  have hroom' : stackLimit + 64 ≤ M.sp := by
    have := h.sp_lo; omega
  obtain ⟨base, halloc, hinv1, hb1, hb2⟩ := alloc_mem h.mem t.size (if t.size = 8 then 8 else 4) hsz hal
    hroom' (by have := h.ssize; omega)
  have hbase64 : base < 2 ^ 64 := by
    have := h.sp_hi; have := h.top; rw [stackTop_val] at this; omega
  have hbn : base.toUInt64.toNat = base := by
    show (UInt64.ofNat base).toNat = base
    rw [UInt64.toNat_ofNat']; exact Nat.mod_eq_of_lt hbase64
  refine ⟨base, _, hbase64, exec_alloc _ _ _ (by omega) halloc, rfl, ?_⟩
  intro env' he hnew hti
  refine ⟨hinv1, by simp [h.ssize]; omega, ?_, ?_, h.top, h.globals, ?_, ?_⟩
  · have := h.sp_lo; show M0.sp ≤ base + 64 + 32 * (i + 1); omega
  · have := h.sp_hi; show base ≤ M0.sp; omega
  · intro k hk
    show (M.stack.push _)[k]? = _
    rw [Array.getElem?_push]
    have : ¬ k = M.stack.size := by rw [h.ssize]; omega
    simp only [this, if_false]
    exact h.below k hk
  · intro k t' hk ht'
    by_cases hki : k = i
    · subst hki
      rw [hti] at ht'; cases ht'
      refine ⟨base.toUInt64, ⟨base, t.size, zeros t.size⟩, hnew, ?_, hbn.symm, rfl, zeros_size _, ?_⟩
      · show (M.stack.push _)[M0.stack.size + k]? = _
        rw [← h.ssize]; simp
      · intro v hv
        rw [List.getElem?_set] at hv
        simp only [if_true] at hv
        split at hv <;> cases hv
    · have hk' : k < i := by omega
      obtain ⟨a, al, h1, h2, h3, h4, h5, h6⟩ := (h.forget i).slots k t' hk' ht'
      refine ⟨a, al, by rw [he k hk']; exact h1, ?_, h3, h4, h5, h6⟩
      show (M.stack.push _)[M0.stack.size + k]? = _
      rw [Array.getElem?_push]
      have : ¬ M0.stack.size + k = M.stack.size := by rw [h.ssize]; omega
      simp only [this, if_false]
      exact h2

/-- What a register must hold for `store` into a slot of type `t` to write the representation of `v`. -/
def StoreVal (t : CSem.Ty) (v : Int) (r : RVal) : Prop :=
  ∃ x : UInt64, (if t.size = 8 then r.asL else r.asW) = .ok x ∧
    (x.toNat : Int) % 2 ^ (8 * t.size) = v % 2 ^ (8 * t.size)

theorem storeVal_of_rep {t : CSem.Ty} {v : Int} {r : RVal} (h : Rep t v r) : StoreVal t v r := by
  unfold Rep at h
  unfold StoreVal
  by_cases h8 : t.size = 8
  · simp only [h8, if_true] at h ⊢
    obtain ⟨x, hx, hxv⟩ := h
    refine ⟨x, hx, ?_⟩
    rw [hxv]
    simp only [Nat.reduceMul]
    omega
  · simp only [h8, if_false] at h ⊢
    exact h

/-- `store` into the slot of variable `k`. -/
theorem AInv.store {M0 : Mem} {σ : List Nat} {vtys : List CSem.Ty} {s : Store} {i : Nat} {env : Env} {M : Mem}
    (h : AInv M0 σ vtys s i env M) {k : Nat} {t : CSem.Ty} (hk : k < i) (hkt : vtys[k]? = some t)
    {v : Int} {r : RVal} (hr : StoreVal t v r) :
    ∃ (a : UInt64) (M' : Mem), env[tmpName (σ.getD k 0)]? = some ⟨.l, a⟩ ∧
      execOp (.store (storeOf t)) none [r, ⟨.l, a⟩] M none = .ok (dummy, M') ∧
      M'.globals = M.globals ∧ AInv M0 σ vtys (s.set k (some v)) i env M' := by
  obtain ⟨a, al, h1, h2, h3, h4, h5, _⟩ := h.slots k t hk hkt
  have hk' : M0.stack.size + k < M.stack.size := by rw [h.ssize]; omega
  have hal : M.stack[M0.stack.size + k] = al := by
    rw [Array.getElem?_eq_getElem hk'] at h2; exact Option.some.inj h2
  have hsz : 0 < t.size ∧ t.size ≤ 8 := by rcases size_cases t with h | h | h | h <;> omega
  obtain ⟨x, hx, hxv⟩ := hr
  have hst := store_stack h.mem hk' (n := t.size) hsz.1 (by rw [hal, h4]; exact Nat.le_refl _) x
  rw [hal, h3] at hst
  have hexst : execOp (.store (storeOf t)) none [r, ⟨.l, a⟩] M none = .ok (dummy, ⟨M.globals,
      M.stack.modify (M0.stack.size + k) (fun a_1 => { a_1 with bytes := storeLE a_1.bytes (a.toNat - a_1.base) x t.size }),
      M.sp⟩) := by
    by_cases h8 : t.size = 8
    · have hso : storeOf t = .l := by simp [storeOf, h8]
      rw [hso]
      simp only [h8, if_true] at hx
      refine exec_store_l (a := a) rfl hx ?_
      show M.store a.toNat 8 x = _; rw [← h8]; exact hst
    · simp only [h8, if_false] at hx
      have hso : storeOf t = .w ∨ storeOf t = .h ∨ storeOf t = .b := by
        rcases size_cases t with hs | hs | hs | hs <;> simp [storeOf, hs] at h8 ⊢
      refine exec_store_w (storeOf t) hso (a := a) rfl hx ?_
      rw [storeSize_storeOf]; exact hst
  refine ⟨a, _, h1, hexst, rfl, ?_⟩
  refine ⟨modify_inv h.mem _ _ (fun a => ⟨rfl, rfl⟩), by simp [h.ssize], h.sp_lo, h.sp_hi, h.top,
    h.globals, ?_, ?_⟩
  · intro k' hk'b
    show (M.stack.modify (M0.stack.size + k) _)[k']? = _
    rw [Array.getElem?_modify]
    have : ¬ M0.stack.size + k = k' := by omega
    simp only [this, if_false]
    exact h.below k' hk'b
  intro k' t' hk'i ht'
  by_cases hkk : k' = k
  · subst hkk
    rw [hkt] at ht'; cases ht'
    refine ⟨a, { al with bytes := storeLE al.bytes (a.toNat - al.base) x t.size }, h1, ?_, h3, h4, ?_, ?_⟩
    · show (M.stack.modify (M0.stack.size + k') _)[M0.stack.size + k']? = _
      rw [Array.getElem?_modify]
      simp [h2]
    · show (storeLE _ _ _ _).size = _
      rw [storeLE_size]; exact h5
    · intro v' hv'
      rw [set_get_self _ _ (by
        rcases Nat.lt_or_ge k' s.length with hl | hl
        · exact hl
        · rw [List.getElem?_set] at hv'
          simp only [if_true] at hv'
          split at hv'
          · omega
          · cases hv')] at hv'
      cases hv'
      show ((loadLE (storeLE al.bytes (a.toNat - al.base) x t.size) 0 t.size).toNat : Int) = _
      rw [h3, Nat.sub_self]
      have := load_store t.size hsz.2 al.bytes 0 x (by rw [h5]; omega)
      rw [this]
      have e : ((x.toNat % 2 ^ (8 * t.size) : Nat) : Int) = (x.toNat : Int) % 2 ^ (8 * t.size) := by
        rw [Int.natCast_emod, Int.natCast_pow]; rfl
      rw [e]; exact hxv
  · obtain ⟨a', al', g1, g2, g3, g4, g5, g6⟩ := h.slots k' t' hk'i ht'
    refine ⟨a', al', g1, ?_, g3, g4, g5, ?_⟩
    · show (M.stack.modify (M0.stack.size + k) _)[M0.stack.size + k']? = _
      rw [Array.getElem?_modify]
      have : ¬ M0.stack.size + k = M0.stack.size + k' := fun e => hkk (by omega)
      simp only [this, if_false]
      exact g2
    · intro v' hv'
      rw [set_get_ne _ _ (fun e => hkk e.symm)] at hv'
      exact g6 v' hv'

/-- reading an initialised variable back -/
theorem AInv.load (cs : Bool) {M0 : Mem} {σ : List Nat} {vtys : List CSem.Ty} {s : Store} {i : Nat} {env : Env}
    {M : Mem} (h : AInv M0 σ vtys s i env M) {k : Nat} {t : CSem.Ty} {v : Int} (hk : k < i)
    (hkt : vtys[k]? = some t) (hv : s[k]? = some (some v)) :
    ∃ a r, env[tmpName (σ.getD k 0)]? = some a ∧
      execOp (.load (loadOf cs t)) (some (cls t)) [a] M none = .ok (r, M) ∧ Rep t v r := by
  obtain ⟨a, al, h1, h2, h3, h4, _, h6⟩ := h.slots k t hk hkt
  have hk' : M0.stack.size + k < M.stack.size := by rw [h.ssize]; omega
  have hal : M.stack[M0.stack.size + k] = al := by
    rw [Array.getElem?_eq_getElem hk'] at h2; exact Option.some.inj h2
  have hsz : 0 < t.size := by rcases size_cases t with h | h | h | h <;> omega
  have hload := load_stack h.mem hk' (n := t.size) hsz (by rw [hal, h4]; exact Nat.le_refl _)
  rw [hal, h3] at hload
  obtain ⟨r, hx, hr⟩ := load_rep cs t v M a _ hload (h6 v hv)
  exact ⟨⟨.l, a⟩, r, h1, hx, hr⟩

/-- Releasing the frame gives the caller its memory back. -/
theorem AInv.popTo {M0 : Mem} {σ : List Nat} {vtys : List CSem.Ty} {s : Store} {i : Nat} {env : Env} {M : Mem}
    (h : AInv M0 σ vtys s i env M) : M.popTo M0.stack.size M0.sp = M0 := by
  cases M0 with
  | mk g0 st0 sp0 =>
    cases M with
    | mk g st sp =>
      have hg : g = g0 := h.globals
      have hb : ∀ k, k < st0.size → st[k]? = st0[k]? := h.below
      have hs : st.size = st0.size + i := h.ssize
      simp only [Mem.popTo, hg, Mem.mk.injEq, true_and, and_true]
      apply Array.ext_getElem?
      intro k
      simp only [Array.shrink_eq_take, Array.take_eq_extract, Array.getElem?_extract]
      by_cases hk : k < st0.size
      · simp [hk, hb k hk]; omega
      · simp [hk, Array.getElem?_eq_none (Nat.le_of_not_lt hk)]; omega

/-- The invariant while the body runs: every variable has its slot, the store is well-typed. -/
structure SInv (M0 : Mem) (cs : Bool) (σ : List Nat) (vtys : List CSem.Ty) (s : Store) (env : Env)
    (M : Mem) : Prop where
  a : AInv M0 σ vtys s vtys.length env M
  slen : s.length = vtys.length
  range : ∀ (i : Nat) (t : CSem.Ty) (v : Int), vtys[i]? = some t → s[i]? = some (some v) →
    InRange (t.intTy cs) v

theorem lt_of_get {α : Type} {l : List α} {i : Nat} {x : α} (h : l[i]? = some x) : i < l.length := by
  rcases Nat.lt_or_ge i l.length with h' | h'
  · exact h'
  · rw [List.getElem?_eq_none h'] at h; cases h

theorem SInv.varsIn {S : Sit} {M0 : Mem} {σ : List Nat} {vtys : List CSem.Ty} {s : Store} {env : Env} {M : Mem}
    (h : SInv M0 S.cs σ vtys s env M) : VarsIn (setM S M) σ vtys s env := by
  intro i t v ht hv
  exact h.a.load S.cs (lt_of_get ht) ht hv

theorem SInv.env {M0 : Mem} {cs : Bool} {σ : List Nat} {vtys : List CSem.Ty} {s : Store} {env env' : Env} {M : Mem}
    (h : SInv M0 cs σ vtys s env M)
    (he : ∀ k, k < vtys.length → env'[tmpName (σ.getD k 0)]? = env[tmpName (σ.getD k 0)]?) :
    SInv M0 cs σ vtys s env' M := ⟨h.a.env he, h.slen, h.range⟩

theorem SInv.forget {M0 : Mem} {cs : Bool} {σ : List Nat} {vtys : List CSem.Ty} {s : Store} {env : Env} {M : Mem}
    (h : SInv M0 cs σ vtys s env M) (j : Nat) : SInv M0 cs σ vtys (s.set j none) env M := by
  refine ⟨h.a.forget j, by simp [h.slen], ?_⟩
  intro i t v ht hv
  by_cases hji : j = i
  · subst hji
    rw [List.getElem?_set] at hv
    simp only [if_true] at hv
    split at hv <;> cases hv
  · rw [set_get_ne _ _ hji] at hv
    exact h.range i t v ht hv

theorem SInv.store {M0 : Mem} {cs : Bool} {σ : List Nat} {vtys : List CSem.Ty} {s : Store} {env : Env} {M : Mem}
    (h : SInv M0 cs σ vtys s env M) {k : Nat} {t : CSem.Ty} (hkt : vtys[k]? = some t)
    {v : Int} {r : RVal} (hv : InRange (t.intTy cs) v) (hr : StoreVal t v r) :
    ∃ (a : UInt64) (M' : Mem), env[tmpName (σ.getD k 0)]? = some ⟨.l, a⟩ ∧
      execOp (.store (storeOf t)) none [r, ⟨.l, a⟩] M none = .ok (dummy, M') ∧
      SInv M0 cs σ vtys (s.set k (some v)) env M' := by
  obtain ⟨a, M', h1, h2, _, h4⟩ := h.a.store (lt_of_get hkt) hkt hr
  refine ⟨a, M', h1, h2, h4, by simp [h.slen], ?_⟩
  intro i t' v' ht' hv'
  by_cases hki : k = i
  · subst hki
    rw [hkt] at ht'; cases ht'
    rw [set_get_self _ _ (by rw [h.slen]; exact lt_of_get hkt)] at hv'
    cases hv'; exact hv
  · rw [set_get_ne _ _ hki] at hv'
    exact h.range i t' v' ht' hv'

end CprocVerif.LowerMach2

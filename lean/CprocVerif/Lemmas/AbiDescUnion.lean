import CprocVerif.Lemmas.AbiDescPlace

/-!
# Lemmas for C08, part 4: unions (list level), and the bridge from member declarations to the
member-level hypotheses of `struct_place`/`union_place`
-/

namespace CprocVerif.AbiDesc
open CprocVerif.Layout CprocVerif.Abi CprocVerif.QbeLayout

theorem roundUp_zero (a : Nat) : roundUp 0 a = 0 := by
  unfold roundUp
  cases a with
  | zero => simp
  | succ n =>
    have : (0 + (n + 1) - 1) / (n + 1) = 0 := Nat.div_eq_of_lt (by omega)
    rw [this, Nat.zero_mul]

theorem roundUp_between {x y a : Nat} (ha : 0 < a) (h1 : x ≤ y) (h2 : y ≤ roundUp x a) :
    roundUp y a = roundUp x a :=
  roundUp_unique ha (roundUp_dvd x a) h2 (by have := roundUp_lt x ha; omega)

def maxSize : List Member → Nat
  | [] => 0
  | m :: rest => max m.tsize (maxSize rest)

theorem alignOf_pos : ∀ (ms : List Member), 1 ≤ alignOf ms
  | [] => Nat.le_refl _
  | m :: ms => by have := alignOf_pos ms; simp only [alignOf]; omega

theorem union_place : ∀ (ms : List Member) (its : List It) (ims : List (Option (List Fld)))
    (last : Option (Nat × Nat)),
    All3 ItOk ms its ims → (∀ m ∈ ms, m.offset = 0) →
    (alts (emitUnion (mkDMs ms its))).flds = flatL false ims ms last ∧
    (alts (emitUnion (mkDMs ms its))).cur = maxSize ms ∧
    (alts (emitUnion (mkDMs ms its))).align = alignOf ms
  | [], _, _, last, h3, _ => by
    cases h3
    simp [mkDMs, emitUnion, alts, flatL, maxSize, alignOf]
  | m :: ms, _, _, last, h3, h0 => by
    cases h3 with
    | @cons _ it im _ its ims hit hrest =>
    have hm0 := h0 m (List.mem_cons_self ..)
    have hpos := alignOf_pos ms
    have hcount : ∀ o, (⟨o, it.size, it.item, it.subSize⟩ : DM).count = itCount it := fun _ => rfl
    cases im with
    | some img =>
      obtain ⟨pw, pimg⟩ := hit.plain img rfl
      obtain ⟨r1, r2, r3⟩ := union_place ms its ims none hrest (fun x hx => h0 x (List.mem_cons_of_mem _ hx))
      rw [mkDMs_cons]
      simp only [emitUnion, alts, place, hcount, roundUp_zero, hit.total, Nat.zero_add, shift_zero, pimg,
        List.append_nil, r1, r2, r3, flatL, hm0, maxSize, alignOf, hit.align]
      refine ⟨trivial, trivial, ?_⟩
      omega
    | none =>
      obtain ⟨bw, bc, bfl⟩ := hit.bf rfl
      obtain ⟨r1, r2, r3⟩ := union_place ms its ims (some (m.offset, m.tsize)) hrest
        (fun x hx => h0 x (List.mem_cons_of_mem _ hx))
      rw [mkDMs_cons]
      simp only [emitUnion, alts, place, hcount, roundUp_zero, hit.total, Nat.zero_add, shift_zero, bc, rep_one,
        bfl, List.append_nil, r1, r2, r3, flatL, hm0, maxSize, alignOf, hit.align, Bool.false_and,
        Bool.false_eq_true, ↓reduceIte, List.singleton_append]
      have ht := hit.total
      rw [bc] at ht
      refine ⟨trivial, by rw [ht], ?_⟩
      omega

/-! ## From declarations to members -/

theorem unionMembers_declmem : ∀ (ds : List Decl), WfDecls true false ds → ds.all declOk = true →
    All2 DeclMem ds (unionMembers false ds) ∧ ∀ m ∈ unionMembers false ds, m.offset = 0
  | [], _, _ => ⟨All2.nil, by simp [unionMembers]⟩
  | d :: ds, hwf, hok => by
    simp only [List.all_cons, Bool.and_eq_true] at hok
    obtain ⟨i1, i2⟩ := unionMembers_declmem ds hwf.2.2 hok.2
    obtain ⟨hpa, _, _, hw⟩ := hwf.1
    have hok1 := hok.1
    simp only [declOk, Bool.and_eq_true, Bool.or_eq_true, decide_eq_true_eq] at hok1
    obtain ⟨hnm, hal⟩ := hok1
    cases hwd : d.width with
    | none =>
      have ea : effAlign false d = d.ty.align := by
        simp only [effAlign, Bool.false_eq_true, ↓reduceIte]; omega
      simp only [unionMembers, unionMember, hwd, ea, Option.toList, List.singleton_append]
      refine ⟨All2.cons ⟨rfl, rfl, hwd.symm, Nat.dvd_zero _, hpa, by intro h; simp at h, hpa.pos⟩ i1, ?_⟩
      intro x hx
      rcases List.mem_cons.1 hx with rfl | hx
      · rfl
      · exact i2 x hx
    | some w =>
      rw [hwd] at hw
      obtain ⟨_, _, _, _, _, hza, _⟩ := hw
      have hnamed : d.named = true := by
        rcases hnm with h | h
        · exact h
        · simp [hwd] at h
      simp only [unionMembers, unionMember, hwd, hnamed, ↓reduceIte, Option.toList, List.singleton_append]
      refine ⟨All2.cons ⟨rfl, rfl, hwd.symm, Nat.dvd_zero _, hpa, fun _ => hza, hpa.pos⟩ i1, ?_⟩
      intro x hx
      rcases List.mem_cons.1 hx with rfl | hx
      · rfl
      · exact i2 x hx

theorem alignContrib_ok {d : Decl} (hok : declOk d = true) : alignContrib x86_64 false d = d.ty.align := by
  simp only [declOk, Bool.and_eq_true, Bool.or_eq_true, decide_eq_true_eq] at hok
  obtain ⟨hnm, hal⟩ := hok
  cases hwd : d.width with
  | none => simp only [alignContrib, hwd, effAlign, Bool.false_eq_true, ↓reduceIte]; omega
  | some w =>
    have hnamed : d.named = true := by
      rcases hnm with h | h
      · exact h
      · simp [hwd] at h
    simp only [alignContrib, hwd, hnamed, Bool.true_or, ↓reduceIte]

theorem alignOf_agg : ∀ (ds : List Decl) (ms : List Member), All2 DeclMem ds ms → ds.all declOk = true →
    alignOf ms = max (aggAlign x86_64 false ds) 1
  | _, _, All2.nil, _ => by simp [alignOf, aggAlign]
  | d :: ds, m :: ms, All2.cons h hr, hok => by
    simp only [List.all_cons, Bool.and_eq_true] at hok
    have ih := alignOf_agg ds ms hr hok.2
    simp only [alignOf, aggAlign, alignContrib_ok hok.1, ih, h.talign]
    omega

theorem maxSize_union : ∀ (ds : List Decl) (ms : List Member), All2 DeclMem ds ms → ds.all declOk = true →
    maxSize ms = unionTypeMax ds
  | _, _, All2.nil, _ => rfl
  | d :: ds, m :: ms, All2.cons h hr, hok => by
    simp only [List.all_cons, Bool.and_eq_true] at hok
    have ih := maxSize_union ds ms hr hok.2
    have hm : d.hasMember = true := by
      have := hok.1
      simp only [declOk, Bool.and_eq_true] at this
      exact this.1
    simp only [maxSize, unionTypeMax, hm, ↓reduceIte, ih, h.tsize]

theorem structGo_fin : ∀ (ds : List Decl) (c q : Nat), WfDecls false false ds → ds.all declOk = true →
    c ≤ 8 * q → (structGo false c ds).1 ≤ 8 * lastEnd q (structGo false c ds).2
  | [], c, q, _, _, h => by simpa [structGo, lastEnd] using h
  | d :: ds, c, q, hwf, hok, h => by
    simp only [List.all_cons, Bool.and_eq_true] at hok
    obtain ⟨m, e, dm, t1, t2, t3, t4⟩ := placeStruct_tight (c := c) hwf.1 hok.1
    have hfin : m.bitEnd ≤ 8 * (m.offset + m.tsize) := by
      cases hw : m.width with
      | none => have := (t3 hw).2; omega
      | some w => exact (t4 w hw).2
    have ih := structGo_fin ds m.bitEnd (m.offset + m.tsize) hwf.2.2 hok.2 hfin
    simpa only [structGo, e, Option.toList, List.singleton_append, lastEnd] using ih

theorem memfacts_of_tight {ds : List Decl} {c : Nat} (hwf : WfDecls false false ds) (hok : ds.all declOk = true) :
    ∀ m ∈ (structGo false c ds).2, MemFacts m := by
  obtain ⟨f1, _, f3⟩ := structGo_tight ds c hwf hok
  intro m hm
  have key : ∀ (ds : List Decl) (ms : List Member), All2 DeclMem ds ms → ∀ m ∈ ms, ∃ d, DeclMem d m := by
    intro ds ms h
    induction h with
    | nil => intro m hm; simp at hm
    | cons h _ ih =>
      intro m hm
      rcases List.mem_cons.1 hm with rfl | hm
      · exact ⟨_, h⟩
      · exact ih m hm
  obtain ⟨d, dm⟩ := key _ _ f1 m hm
  refine ⟨dm.aligned, dm.pos, dm.bf, ?_⟩
  cases hw : m.width with
  | none => have := ((f3 m hm).1 hw).2; omega
  | some w => exact ((f3 m hm).2 w hw).2

end CprocVerif.AbiDesc

import CprocVerif.Lemmas.InitParse

/-!
# Lemmas about the cursor machine of `parseinit`: every initialiser lies inside the object
-/

namespace CprocVerif.Init

mutual
  /-- members lie inside their struct/union, arrays have at least one element -/
  def TyOk : Ty → Prop
    | .scalar _ _ => True
    | .array n e => 1 ≤ n ∧ TyOk e
    | .agg _ _ size ms => MsOk size ms
  def MsOk (size : Nat) : Members → Prop
    | .nil => True
    | .cons _ ty off _ _ next => off + ty.size ≤ size ∧ TyOk ty ∧ MsOk size next
end

/-- the `u` of a slot that has a child describes a sub-object of the slot's type -/
def UOk (s : Slot) : Prop :=
  match s.ty, s.u with
  | .array n e, .idx i => ∃ q, i = q * e.size ∧ q < n
  | .agg _ _ size _, .mem ms => MsOk size ms
  | _, _ => True

def EvIn (T : Nat) : Ev → Prop
  | .add i => i.start ≤ i.stop ∧ i.stop ≤ T
  | .clear a b => a ≤ b ∧ b ≤ T

/-- The invariant for an outermost type of known size `T`. -/
structure J (T : Nat) (st : St) : Prop where
  inc : st.inc = false
  top : st.top = T
  root : (st.obj 0).ty.size = T ∧ (st.obj 0).offset = 0
  tys : ∀ k, k ≤ st.sub → TyOk (st.obj k).ty
  us : ∀ k, k < st.sub → UOk (st.obj k)
  chain : ∀ k, k < st.sub → (st.obj (k + 1)).offset + (st.obj (k + 1)).ty.size ≤ (st.obj k).offset + (st.obj k).ty.size
  log : ∀ e ∈ st.log, EvIn T e
  cur : ∀ c, st.cur = some c → c ≤ st.sub

theorem J.tsize {T : Nat} {st : St} (h : J T st) (k : Nat) : st.tsize k = (st.obj k).ty.size := by
  unfold St.tsize
  split
  · rename_i hk; rw [hk, h.top, h.root.1]
  · rfl

theorem J.tinc {T : Nat} {st : St} (h : J T st) (k : Nat) : st.tinc k = false := by
  unfold St.tinc; rw [h.inc]; simp

/-- every live slot lies inside the object -/
theorem J.inside {T : Nat} {st : St} (h : J T st) : ∀ k, k ≤ st.sub → (st.obj k).offset + (st.obj k).ty.size ≤ T := by
  intro k
  induction k with
  | zero => intro _; rw [h.root.1, h.root.2]; omega
  | succ k ih => intro hk; have := h.chain k (by omega); have := ih (by omega); omega

/-- popping slots keeps the invariant -/
theorem J.pop {T : Nat} {st : St} (h : J T st) {k : Nat} (hk : k ≤ st.sub) (hc : ∀ c, st.cur = some c → c ≤ k) :
    J T { st with sub := k } :=
  ⟨h.inc, h.top, h.root, fun j hj => h.tys j (Nat.le_trans hj hk), fun j hj => h.us j (Nat.lt_of_lt_of_le hj hk),
    fun j hj => h.chain j (Nat.lt_of_lt_of_le hj hk), h.log, hc⟩

theorem setSlot_obj (st : St) (k : Nat) (s : Slot) (j : Nat) :
    (st.setSlot k s).obj j = if j = k then s else st.obj j := rfl

/-- what `subobj` does -/
theorem subobj_ok {st st' : St} {t : Ty} {off : Nat} (e : subobj st t off = .ok st') :
    st'.sub = st.sub + 1 ∧ st'.cur = st.cur ∧ st'.top = st.top ∧ st'.inc = st.inc ∧ st'.log = st.log ∧
    st'.il = st.il ∧ (∀ j, j ≠ st.sub + 1 → st'.obj j = st.obj j) ∧
    (st'.obj (st.sub + 1)).ty = t ∧ (st'.obj (st.sub + 1)).offset = off + (st.obj st.sub).offset := by
  unfold subobj at e
  split at e
  · cases e
  · cases e
    refine ⟨rfl, rfl, rfl, rfl, rfl, rfl, ?_, ?_, ?_⟩
    · intro j hj; simp only [setSlot_obj, if_neg hj]
    · simp [setSlot_obj]
    · simp [setSlot_obj]

/-- setting `u` of the top slot and pushing a child that lies inside it keeps the invariant -/
theorem J.push {T : Nat} {st st' : St} (h : J T st) {u : U} {t : Ty} {off : Nat}
    (hu : UOk { st.obj st.sub with u := u }) (ht : TyOk t) (hoff : off + t.size ≤ (st.obj st.sub).ty.size)
    (e : subobj (st.setSlot st.sub { st.obj st.sub with u := u }) t off = .ok st') : J T st' := by
  obtain ⟨hsub, hcur, htop, hinc, hlog, _, hobj, hty, hoffs⟩ := subobj_ok e
  simp only [St.setSlot] at hsub hcur htop hinc hlog hobj hty hoffs
  simp only [if_pos] at hoffs
  have hold : ∀ j, j ≤ st.sub → st'.obj j = if j = st.sub then { st.obj st.sub with u := u } else st.obj j := by
    intro j hj; rw [hobj j (by omega)]
  refine ⟨by rw [hinc]; exact h.inc, by rw [htop]; exact h.top, ?_, ?_, ?_, ?_, by rw [hlog]; exact h.log, ?_⟩
  · rw [hold 0 (by omega)]
    split
    · rename_i h0
      show (st.obj st.sub).ty.size = T ∧ (st.obj st.sub).offset = 0
      rw [← h0]; exact h.root
    · exact h.root
  · intro j hj
    rw [hsub] at hj
    by_cases hjs : j = st.sub + 1
    · rw [hjs, hty]; exact ht
    · rw [hold j (by omega)]
      split
      · exact h.tys _ (Nat.le_refl _)
      · exact h.tys j (by omega)
  · intro j hj
    rw [hsub] at hj
    rw [hold j (by omega)]
    split
    · exact hu
    · exact h.us j (by omega)
  · intro j hj
    rw [hsub] at hj
    by_cases hjs : j = st.sub
    · rw [hjs, hty, hold st.sub (Nat.le_refl _), if_pos rfl]
      have hoffs' : (st'.obj (st.sub + 1)).offset = off + (st.obj st.sub).offset := by
        rw [hoffs]
      simp only []
      omega
    · rw [hold (j + 1) (by omega), hold j (by omega), if_neg hjs]
      have := h.chain j (by omega)
      split
      · rename_i hj1
        simp only []
        rw [← hj1]; exact this
      · exact this
  · intro c hc
    rw [hcur] at hc
    have := h.cur c hc
    omega

/-- changing the top slot without touching its type and offset keeps the invariant -/
theorem J.setTop {T : Nat} {st : St} (h : J T st) {s' : Slot} (hty : s'.ty = (st.obj st.sub).ty)
    (hoff : s'.offset = (st.obj st.sub).offset) : J T (st.setSlot st.sub s') := by
  have hobj : ∀ j, (st.setSlot st.sub s').obj j = if j = st.sub then s' else st.obj j := fun j => rfl
  refine ⟨h.inc, h.top, ?_, ?_, ?_, ?_, h.log, h.cur⟩
  · rw [hobj]; split
    · rename_i h0; rw [hty, hoff, ← h0]; exact h.root
    · exact h.root
  · intro j hj; rw [hobj]; split
    · rw [hty]; exact h.tys _ (Nat.le_refl _)
    · exact h.tys j hj
  · intro j hj
    rw [hobj, if_neg (by show j ≠ st.sub; have : j < st.sub := hj; omega)]
    exact h.us j hj
  · intro j hj
    have hj' : j < st.sub := hj
    rw [hobj (j + 1), hobj j, if_neg (show j ≠ st.sub by omega)]
    split
    · rename_i e; rw [hty, hoff, ← e]; exact h.chain j hj'
    · exact h.chain j hj'

theorem J.il {T : Nat} {st : St} (h : J T st) (il : IList) : J T { st with il := il } :=
  ⟨h.inc, h.top, h.root, h.tys, h.us, h.chain, h.log, h.cur⟩

theorem J.addLog {T : Nat} {st : St} (h : J T st) (il : IList) {e : Ev} (he : EvIn T e) :
    J T { st with il := il, log := st.log ++ [e] } :=
  ⟨h.inc, h.top, h.root, h.tys, h.us, h.chain, fun x hx => by
    rcases List.mem_append.1 hx with hx | hx
    · exact h.log x hx
    · rw [List.mem_singleton.1 hx]; exact he, h.cur⟩

theorem msOk_of_tyOk {iu : Bool} {tag size : Nat} {ms : Members} (h : TyOk (.agg iu tag size ms)) : MsOk size ms := by
  simpa [TyOk] using h

theorem mul_lt_cancel {a b c : Nat} (h : a * c < b * c) : a < b := Nat.lt_of_mul_lt_mul_right h

mutual
  theorem findTy_J {T : Nat} (name : String) : ∀ (t : Ty) (st st' : St), J T st → (st.obj st.sub).ty = t →
      findTy name t st = .ok (some st') → J T st'
    | .agg iu tag size ms, st, st', h, ht, e => by
      rw [findTy] at e
      exact findMs_J name ms st st' iu tag size ms h ht (msOk_of_tyOk (by rw [← ht]; exact h.tys _ (Nat.le_refl _))) e
    | .scalar _ _, _, _, _, _, e => by simp [findTy] at e
    | .array _ _, _, _, _, _, e => by simp [findTy] at e
  theorem findMs_J {T : Nat} (name : String) : ∀ (ms : Members) (st st' : St) (iu : Bool) (tag size : Nat) (all : Members),
      J T st → (st.obj st.sub).ty = .agg iu tag size all → MsOk size ms →
      findMs name ms st = .ok (some st') → J T st'
    | .nil, _, _, _, _, _, _, _, _, _, e => by rw [findMs] at e; cases e
    | .cons (some n) ty off b a next, st, st', iu, tag, size, all, h, ht, hm, e => by
      rw [findMs] at e
      have hm' : off + ty.size ≤ size ∧ TyOk ty ∧ MsOk size next := by simpa [MsOk] using hm
      split at e
      · dsimp only [] at e
        split at e
        · rename_i st1 hs
          cases e
          refine J.push h ?_ hm'.2.1 (by rw [ht]; exact hm'.1) hs
          unfold UOk; simp only [ht]; exact hm
        · cases e
      · exact findMs_J name next st st' iu tag size all h ht hm'.2.2 e
    | .cons none ty off b a next, st, st', iu, tag, size, all, h, ht, hm, e => by
      rw [findMs] at e
      have hm' : off + ty.size ≤ size ∧ TyOk ty ∧ MsOk size next := by simpa [MsOk] using hm
      try dsimp only [] at e
      split at e
      · cases e
      · rename_i st1 hs
        have h1 : J T st1 := by
          refine J.push h ?_ hm'.2.1 (by rw [ht]; exact hm'.1) hs
          unfold UOk; simp only [ht]; exact hm
        obtain ⟨hsub, hcur, _, _, _, _, hobj, hty, _⟩ := subobj_ok hs
        simp only [St.setSlot] at hsub hcur hobj hty
        split at e
        · cases e
        · rename_i st2 h2
          cases e
          have := findTy_J name ty st1 st2 h1 (by rw [hsub]; exact hty) h2
          exact ⟨this.inc, this.top, this.root, this.tys, this.us, this.chain, this.log, this.cur⟩
        · have hpop : J T { st1 with sub := st1.sub - 1 } :=
            J.pop h1 (by omega) (fun c hc => by rw [hcur] at hc; have := h.cur c hc; omega)
          refine findMs_J name next _ st' iu tag size all hpop ?_ hm'.2.2 e
          show (st1.obj (st1.sub - 1)).ty = _
          rw [hsub, Nat.add_sub_cancel, hobj st.sub (by omega)]
          simp only [if_pos]
          exact ht
end

theorem desigStep_J {T : Nat} {st st' : St} {d : Desig} (h : J T st) (e : desigStep st d = .ok st') : J T st' := by
  unfold desigStep at e
  dsimp only [] at e
  split at e
  · rename_i n' n es hty
    have hok := h.tys _ (Nat.le_refl _)
    rw [hty] at hok
    have hok' : 1 ≤ n ∧ TyOk es := by simpa [TyOk] using hok
    split at e
    · rw [h.tinc] at e; simp at e
    · rename_i hlt
      rw [h.tsize, hty] at hlt
      simp only [Ty.size] at hlt
      have hq : n' < n := mul_lt_cancel (Nat.lt_of_not_le hlt)
      refine J.push h ?_ hok'.2 ?_ e
      · unfold UOk; simp only [hty]; exact ⟨n', rfl, hq⟩
      · rw [hty]; simp only [Ty.size]
        calc n' * es.size + es.size = (n' + 1) * es.size := by rw [Nat.add_mul]; omega
          _ ≤ n * es.size := Nat.mul_le_mul_right _ hq
  · cases e
  · rename_i name iu tag size ms hty
    split at e
    · cases e
    · rename_i st1 hf
      cases e
      exact findMs_J name ms st st' iu tag size ms h hty
        (msOk_of_tyOk (by rw [← hty]; exact h.tys _ (Nat.le_refl _))) hf
    · cases e
  · cases e

theorem foldlM_J {T : Nat} {ds : List Desig} : ∀ {st st' : St}, J T st → ds.foldlM desigStep st = .ok st' → J T st' := by
  induction ds with
  | nil => intro st st' h e; cases e; exact h
  | cons d ds ih =>
    intro st st' h e
    rw [List.foldlM_cons] at e
    cases hd : desigStep st d with
    | error er => rw [hd] at e; cases e
    | ok st1 => rw [hd] at e; exact ih (desigStep_J h hd) e

theorem designator_J {T : Nat} {st st' : St} {ds : List Desig} (h : J T st) (e : designator st ds = .ok st') : J T st' := by
  unfold designator at e
  refine foldlM_J ?_ e
  have hc : st.cur.getD 0 ≤ st.sub := by
    cases hc : st.cur with
    | none => simp
    | some c => simpa using h.cur c hc
  have := (J.pop h hc (fun c hc' => by rw [hc']; simp)).il st.il.reset
  exact this

theorem focus_J {T : Nat} {st st' : St} (h : J T st) (e : focus st = .ok st') : J T st' := by
  unfold focus at e
  dsimp only [] at e
  have hok := h.tys _ (Nat.le_refl _)
  split at e
  · rename_i n es hty
    rw [hty] at hok
    have hok' : 1 ≤ n ∧ TyOk es := by simpa [TyOk] using hok
    rw [h.tinc] at e
    simp only [Bool.false_eq_true, if_false] at e
    refine J.push h ?_ hok'.2 ?_ e
    · unfold UOk; simp only [hty]; exact ⟨0, by simp, by omega⟩
    · rw [hty]; simp only [Ty.size]
      calc 0 + es.size = 1 * es.size := by omega
        _ ≤ n * es.size := Nat.mul_le_mul_right _ hok'.1
  · rename_i iu tag size n ty off b a next hty
    rw [hty] at hok
    have hm : off + ty.size ≤ size ∧ TyOk ty ∧ MsOk size next := by simpa [TyOk, MsOk] using hok
    refine J.push h ?_ hm.2.1 (by rw [hty]; exact hm.1) e
    unfold UOk; simp only [hty]; simpa [MsOk] using hm
  · cases e
  · cases e

theorem succ_mul_lt {q n es : Nat} (hq : q < n) (hne : (q + 1) * es ≠ n * es) : q + 1 < n := by
  rcases Nat.lt_or_ge (q + 1) n with h | h
  · exact h
  · have : q + 1 = n := by omega
    rw [this] at hne; exact absurd rfl hne

theorem advance_J {T : Nat} {fuel : Nat} : ∀ {st st' : St}, J T st → (∀ c, st.cur = some c → c < st.sub) →
    advance fuel st = .ok st' → J T st' := by
  induction fuel with
  | zero => intro st st' _ _ e; cases e
  | succ fuel ih =>
    intro st st' h hcs e
    rw [advance] at e
    split at e
    · cases e
    · rename_i hs0
      dsimp only [] at e
      have hk : st.sub - 1 < st.sub := by omega
      have hp : J T { st with sub := st.sub - 1 } :=
        J.pop h (by omega) (fun c hc => by have := hcs c hc; omega)
      have hty := h.tys (st.sub - 1) (by omega)
      have hu := h.us (st.sub - 1) hk
      -- popping further is possible when the popped slot is not `cur`
      have hrec : ∀ (s' : Slot), s'.ty = (st.obj (st.sub - 1)).ty → s'.offset = (st.obj (st.sub - 1)).offset →
          ¬ some (st.sub - 1) = st.cur →
          advance fuel (({ st with sub := st.sub - 1 } : St).setSlot (st.sub - 1) s') = .ok st' → J T st' := by
        intro s' h1 h2 hne e'
        refine ih (hp.setTop h1 h2) ?_ e'
        intro c hc
        have hc' : st.cur = some c := hc
        have := hcs c hc'
        show c < st.sub - 1
        have : c ≠ st.sub - 1 := fun e => hne (by rw [hc', e])
        omega
      split at e
      · -- array
        rename_i n es hty'
        split at e
        · rename_i i hu'
          unfold UOk at hu
          rw [hty', hu'] at hu
          obtain ⟨q, hq1, hq2⟩ := hu
          rw [hty'] at hty
          have hok : 1 ≤ n ∧ TyOk es := by simpa [TyOk] using hty
          split at e
          · rw [hp.tinc] at e
            simp only [Bool.not_false, if_true] at e
            split at e
            · cases e
            · rename_i hne
              refine hrec _ ?_ ?_ hne e <;> rfl
          · rename_i hne
            rw [hp.tsize] at hne
            have hty'' : (st.obj (st.sub - 1)).ty = .array n es := hty'
            simp only [hty'', Ty.size] at hne
            have hq3 : q + 1 < n := succ_mul_lt hq2 (by rw [Nat.add_mul, ← hq1]; simpa using hne)
            refine J.push hp ?_ hok.2 ?_ e
            · unfold UOk; simp only [hty'']; exact ⟨q + 1, by rw [Nat.add_mul, hq1]; simp, hq3⟩
            · show i + es.size + es.size ≤ (st.obj (st.sub - 1)).ty.size
              rw [hty'']; simp only [Ty.size]
              calc i + es.size + es.size = (q + 2) * es.size := by rw [hq1, Nat.add_mul]; omega
                _ ≤ n * es.size := Nat.mul_le_mul_right _ hq3
        · cases e
      · -- struct
        rename_i tag size ms hty'
        split at e
        · rename_i n0 t0 o0 b0 a0 next hu'
          unfold UOk at hu
          rw [hty', hu'] at hu
          have hm : o0 + t0.size ≤ size ∧ TyOk t0 ∧ MsOk size next := by simpa [MsOk] using hu
          split at e
          · rename_i n1 t1 o1 b1 a1 nn
            have hm1 : o1 + t1.size ≤ size ∧ TyOk t1 ∧ MsOk size nn := by simpa [MsOk] using hm.2.2
            have hty'' : (st.obj (st.sub - 1)).ty = .agg false tag size ms := hty'
            refine J.push hp ?_ hm1.2.1 (by show o1 + t1.size ≤ (st.obj (st.sub - 1)).ty.size; rw [hty'']; exact hm1.1) e
            unfold UOk; simp only [hty'']; exact hm.2.2
          · split at e
            · cases e
            · rename_i hne
              refine hrec _ ?_ ?_ hne e <;> rfl
        · cases e
      · -- union or scalar: too many / pop
        split at e
        · cases e
        · rename_i hne
          refine ih hp ?_ e
          intro c hc
          have hc' : st.cur = some c := hc
          have := hcs c hc'
          show c < st.sub - 1
          have : c ≠ st.sub - 1 := fun e => hne (by rw [hc', e])
          omega

theorem hit_J {T : Nat} {st st1 : St} {e : Expr} {r : Hit} (h : J T st) (he : hit st e = .ok (r, st1)) : st1 = st := by
  unfold hit at he
  repeat' (split at he)
  all_goals first
    | (cases he; done)
    | (cases he; rfl)
    | (cases he; rw [h.tinc]; rfl)
    | skip
  all_goals (rename_i hc; rw [h.tinc] at hc; simp at hc)

theorem placeExpr_J {T : Nat} {fuel : Nat} : ∀ {st st' : St} {e : Expr}, J T st → placeExpr fuel st e = .ok st' → J T st' := by
  induction fuel with
  | zero => intro st st' e _ he; cases he
  | succ fuel ih =>
    intro st st' e h he
    rw [placeExpr] at he
    split at he
    · cases he
    · rename_i st1 hh
      rw [hit_J h hh] at he
      split at he
      · cases he
      · rename_i st2 hf
        exact ih (focus_J h hf) he
    · rename_i v st1 hh
      rw [hit_J h hh] at he
      split at he
      · cases he
      · cases he
        refine h.addLog _ ?_
        have := h.inside st.sub (Nat.le_refl _)
        rw [h.tsize]
        exact ⟨by simp only []; omega, this⟩

theorem preStep_J {T : Nat} {st st' : St} {ds : List Desig} (h : J T st) (e : preStep st ds = .ok st') : J T st' := by
  unfold preStep at e
  split at e
  · cases e; exact h
  · rename_i c hc
    split at e
    · exact designator_J h e
    · split at e
      · rename_i hne
        refine advance_J h ?_ e
        intro c' hc'
        rw [hc] at hc'; cases hc'
        have := h.cur c hc
        omega
      · split at e
        · exact focus_J h e
        · cases e; exact h

theorem closeBrace_J {T : Nat} {st : St} (h : J T st) : J T (closeBrace st) := by
  have hc : st.cur.getD 0 ≤ st.sub := by
    cases hc : st.cur with
    | none => simp
    | some c => simpa using h.cur c hc
  have hp : J T { st with sub := st.cur.getD 0, cur := prevCur st (st.cur.getD 0) } :=
    ⟨h.inc, h.top, h.root, fun j hj => h.tys j (Nat.le_trans hj hc), fun j hj => h.us j (Nat.lt_of_lt_of_le hj hc),
      fun j hj => h.chain j (Nat.lt_of_lt_of_le hj hc), h.log, fun k hk => by
        have := prevCur_lt st _ k hk
        show k ≤ st.cur.getD 0
        omega⟩
  unfold closeBrace
  dsimp only []
  rw [hp.tinc]
  exact hp

theorem ite_J {T : Nat} {c : Prop} [Decidable c] {a b : St} (ha : J T a) (hb : J T b) :
    J T (if c then a else b) := by split <;> assumption

theorem braceClear_J {T : Nat} {st : St} (h : J T st) : J T (braceClear st) := by
  unfold braceClear
  dsimp only []
  refine ite_J (h.addLog _ ?_) h
  have := h.inside st.sub (Nat.le_refl _)
  rw [h.tsize]
  exact ⟨by omega, this⟩

mutual
  theorem parseItem_J {T : Nat} : ∀ (i : Ini) (st st' : St) (ds : List Desig), J T st → parseItem st ds i = .ok st' → J T st'
    | .expr e, st, st', ds, h, he => by
      rw [parseItem] at he
      split at he
      · cases he
      · rename_i st1 h1
        split at he
        · cases he
        · rename_i st2 h2
          cases he
          have := placeExpr_J (preStep_J h h1) h2
          rw [this.tinc]
          exact this
    | .list .nil, st, st', ds, h, he => by
      rw [parseItem] at he
      split at he
      · cases he
      · rename_i st1 h1
        have hb1 := braceClear_J (preStep_J h h1)
        dsimp only [] at he
        split at he
        · cases he
        · rename_i st2 hent
          have hb2 : J T st2 := by
            split at hent
            · split at hent
              · exact focus_J hb1 hent
              · cases hent; exact hb1
            · cases hent; exact hb1
          split at he
          · cases he
          · cases he; exact hb2
    | .list (.cons ds1 i1 rest), st, st', ds, h, he => by
      rw [parseItem] at he
      split at he
      · cases he
      · rename_i st1 h1
        have hb1 := braceClear_J (preStep_J h h1)
        dsimp only [] at he
        split at he
        · cases he
        · rename_i st2 hent
          have hb2 : J T st2 := by
            split at hent
            · split at hent
              · cases hent
              · exact focus_J hb1 hent
              · cases hent
            · cases hent; exact hb1
          have hb3 : J T ({ st2 with cur := some st2.sub }.setSlot st2.sub { st2.obj st2.sub with iscur := true }) := by
            have h' : J T { st2 with cur := some st2.sub } :=
              ⟨hb2.inc, hb2.top, hb2.root, hb2.tys, hb2.us, hb2.chain, hb2.log, fun c hc => by cases hc; exact Nat.le_refl _⟩
            exact h'.setTop rfl rfl
          split at he
          · cases he
          · rename_i st4 h4
            cases he
            exact closeBrace_J (parseItems_J _ _ _ hb3 h4)
  theorem parseItems_J {T : Nat} : ∀ (its : Items) (st st' : St), J T st → parseItems st its = .ok st' → J T st'
    | .nil, st, st', h, he => by rw [parseItems] at he; cases he; exact h
    | .cons ds i rest, st, st', h, he => by
      rw [parseItems] at he
      split at he
      · cases he
      · rename_i st1 h1
        exact parseItems_J rest st1 st' (parseItem_J i st st1 ds h h1) he
end

/-- **offsets inside** (outermost type of known size): whatever `parseinit` produces — every
initialiser and every cleared range — lies inside the object, for every well-formed type and
every initialiser tree. -/
theorem parseinit_J {t : Ty} {i : Ini} {st : St} (ht : TyOk t) (e : parseinit t false i = .ok st) : J t.size st := by
  have h0 : J t.size { obj := fun _ => { ty := t }, top := t.size, inc := false } :=
    ⟨rfl, rfl, ⟨rfl, rfl⟩, fun _ _ => ht, fun k hk => by simp at hk, fun k hk => by simp at hk,
      fun e he => by simp at he, fun c hc => by cases hc⟩
  unfold parseinit at e
  split at e
  · split at e
    · cases e
    · exact parseItem_J _ _ _ _ h0 e
  · cases e
  · exact parseItem_J _ _ _ _ h0 e

end CprocVerif.Init

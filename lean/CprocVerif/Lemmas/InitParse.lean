import CprocVerif.Model.Init

/-!
# Lemmas about the cursor machine of `parseinit`: the `obj[32]` bound
-/

namespace CprocVerif.Init

/-- indices used with `obj[]` are inside the array -/
def Bnd (st : St) : Prop := st.sub < 32 ∧ ∀ c, st.cur = some c → c < 32

theorem bnd_setSlot {st : St} {k : Nat} {s : Slot} (h : Bnd st) : Bnd (st.setSlot k s) := h

theorem subobj_bnd {st st' : St} {t : Ty} {off : Nat} (h : Bnd st) (e : subobj st t off = .ok st') : Bnd st' := by
  unfold subobj at e
  split at e
  · cases e
  · rename_i hne
    cases e
    exact ⟨by show st.sub + 1 < 32; have := h.1; omega, h.2⟩

theorem subobj_sub {st st' : St} {t : Ty} {off : Nat} (e : subobj st t off = .ok st') :
    st'.sub = st.sub + 1 ∧ st'.cur = st.cur := by
  unfold subobj at e
  split at e
  · cases e
  · cases e; exact ⟨rfl, rfl⟩

/-- closes the leaves after splitting an equation `e : f … = .ok st'` -/
macro "leaf" e:ident h:ident : tactic =>
  `(tactic| first
    | (cases $e:ident; done)
    | (refine subobj_bnd ?_ $e:ident; exact $h:ident)
    | (cases $e:ident; exact $h:ident))

mutual
  theorem findTy_bnd (name : String) : ∀ (t : Ty) (st st' : St), Bnd st → findTy name t st = .ok (some st') → Bnd st'
    | .agg _ _ _ ms, st, st', h, e => by rw [findTy] at e; exact findMs_bnd name ms st st' h e
    | .scalar _ _, _, _, _, e => by simp [findTy] at e
    | .array _ _, _, _, _, e => by simp [findTy] at e
  theorem findMs_bnd (name : String) : ∀ (ms : Members) (st st' : St), Bnd st → findMs name ms st = .ok (some st') → Bnd st'
    | .nil, _, _, _, e => by rw [findMs] at e; cases e
    | .cons (some n) ty off b a next, st, st', h, e => by
      rw [findMs] at e
      split at e
      · dsimp only [] at e
        split at e
        · rename_i st1 hs
          cases e
          refine subobj_bnd ?_ hs; exact h
        · cases e
      · exact findMs_bnd name next st st' h e
    | .cons none ty off b a next, st, st', h, e => by
      rw [findMs] at e
      try dsimp only [] at e
      split at e
      · cases e
      · rename_i st1 hs
        have h1 : Bnd st1 := by refine subobj_bnd ?_ hs; exact h
        split at e
        · cases e
        · rename_i st2 h2
          cases e
          exact findTy_bnd name ty st1 st2 h1 h2
        · have h1' : Bnd { st1 with sub := st1.sub - 1 } := ⟨by show st1.sub - 1 < 32; have := h1.1; omega, h1.2⟩
          exact findMs_bnd name next _ st' h1' e
end

theorem desigStep_bnd {st st' : St} {d : Desig} (h : Bnd st) (e : desigStep st d = .ok st') : Bnd st' := by
  unfold desigStep at e
  dsimp only [] at e
  repeat' (split at e)
  all_goals first
    | leaf e h
    | (cases e; exact findMs_bnd _ _ _ _ h ‹_›)

theorem foldlM_bnd {ds : List Desig} : ∀ {st st' : St}, Bnd st → ds.foldlM desigStep st = .ok st' → Bnd st' := by
  induction ds with
  | nil => intro st st' h e; cases e; exact h
  | cons d ds ih =>
    intro st st' h e
    rw [List.foldlM_cons] at e
    cases hd : desigStep st d with
    | error er => rw [hd] at e; cases e
    | ok st1 => rw [hd] at e; exact ih (desigStep_bnd h hd) e

theorem designator_bnd {st st' : St} {ds : List Desig} (h : Bnd st) (e : designator st ds = .ok st') : Bnd st' := by
  unfold designator at e
  refine foldlM_bnd ?_ e
  refine ⟨?_, h.2⟩
  show st.cur.getD 0 < 32
  cases hc : st.cur with
  | none => simp
  | some c => simpa using h.2 c hc

theorem focus_bnd {st st' : St} (h : Bnd st) (e : focus st = .ok st') : Bnd st' := by
  unfold focus at e
  dsimp only [] at e
  repeat' (split at e)
  all_goals leaf e h

theorem advance_bnd {fuel : Nat} : ∀ {st st' : St}, Bnd st → advance fuel st = .ok st' → Bnd st' := by
  induction fuel with
  | zero => intro st st' _ e; cases e
  | succ fuel ih =>
    intro st st' h e
    rw [advance] at e
    dsimp only [] at e
    have hb : Bnd { st with sub := st.sub - 1 } := ⟨by show st.sub - 1 < 32; have := h.1; omega, h.2⟩
    repeat' (split at e)
    all_goals first
      | leaf e hb
      | (refine ih ?_ e; exact hb)

theorem hit_bnd {st st1 : St} {e : Expr} {r : Hit} (h : Bnd st) (he : hit st e = .ok (r, st1)) : Bnd st1 := by
  unfold hit at he
  repeat' (split at he)
  all_goals first
    | (cases he; done)
    | (cases he; exact h)
    | (cases he; split <;> exact h)

theorem placeExpr_bnd {fuel : Nat} : ∀ {st st' : St} {e : Expr}, Bnd st → placeExpr fuel st e = .ok st' → Bnd st' := by
  induction fuel with
  | zero => intro st st' e _ he; cases he
  | succ fuel ih =>
    intro st st' e h he
    rw [placeExpr] at he
    split at he
    · cases he
    · rename_i st1 hh
      have h1 := hit_bnd h hh
      split at he
      · cases he
      · rename_i st2 hf
        exact ih (focus_bnd h1 hf) he
    · rename_i v st1 hh
      have h1 := hit_bnd h hh
      split at he
      · cases he
      · cases he; exact h1

theorem preStep_bnd {st st' : St} {ds : List Desig} (h : Bnd st) (e : preStep st ds = .ok st') : Bnd st' := by
  unfold preStep at e
  repeat' (split at e)
  all_goals first
    | (cases e; exact h)
    | exact designator_bnd h e
    | exact advance_bnd h e
    | exact focus_bnd h e

theorem prevCur_lt (st : St) : ∀ (c k : Nat), prevCur st c = some k → k < c := by
  intro c
  induction c with
  | zero => intro k h; cases h
  | succ c ih =>
    intro k h
    rw [prevCur] at h
    split at h
    · cases h; omega
    · have := ih k h; omega

theorem closeBrace_bnd {st : St} (h : Bnd st) : Bnd (closeBrace st) := by
  have hc : st.cur.getD 0 < 32 := by
    cases hc : st.cur with
    | none => simp
    | some c => simpa using h.2 c hc
  have hb : Bnd { st with sub := st.cur.getD 0, cur := prevCur st (st.cur.getD 0) } := by
    refine ⟨hc, ?_⟩
    intro k hk
    have := prevCur_lt st _ k hk
    omega
  unfold closeBrace
  dsimp only []
  split
  · exact hb
  · exact hb

theorem braceClear_bnd {st : St} (h : Bnd st) : Bnd (braceClear st) := by
  unfold braceClear
  dsimp only []
  repeat' split
  all_goals exact h

mutual
  theorem parseItem_bnd : ∀ (i : Ini) (st st' : St) (ds : List Desig), Bnd st → parseItem st ds i = .ok st' → Bnd st'
    | .expr e, st, st', ds, h, he => by
      rw [parseItem] at he
      split at he
      · cases he
      · rename_i st1 h1
        split at he
        · cases he
        · rename_i st2 h2
          cases he
          have := placeExpr_bnd (preStep_bnd h h1) h2
          split
          · exact this
          · exact this
    | .list .nil, st, st', ds, h, he => by
      rw [parseItem] at he
      split at he
      · cases he
      · rename_i st1 h1
        have hb1 := braceClear_bnd (preStep_bnd h h1)
        dsimp only [] at he
        split at he
        · cases he
        · rename_i st2 hent
          have hb2 : Bnd st2 := by
            split at hent
            · split at hent
              · exact focus_bnd hb1 hent
              · cases hent; exact hb1
            · cases hent; exact hb1
          split at he
          · cases he
          · cases he; exact hb2
    | .list (.cons ds1 i1 rest), st, st', ds, h, he => by
      rw [parseItem] at he
      split at he
      · cases he
      · rename_i st1 h1
        have hb1 := braceClear_bnd (preStep_bnd h h1)
        dsimp only [] at he
        split at he
        · cases he
        · rename_i st2 hent
          have hb2 : Bnd st2 := by
            split at hent
            · split at hent
              · cases hent
              · exact focus_bnd hb1 hent
              · cases hent
            · cases hent; exact hb1
          have hb3 : Bnd ({ st2 with cur := some st2.sub }.setSlot st2.sub { st2.obj st2.sub with iscur := true }) :=
            ⟨hb2.1, fun c hc => by cases hc; exact hb2.1⟩
          split at he
          · cases he
          · rename_i st4 h4
            cases he
            exact closeBrace_bnd (parseItems_bnd _ _ _ hb3 h4)
  theorem parseItems_bnd : ∀ (its : Items) (st st' : St), Bnd st → parseItems st its = .ok st' → Bnd st'
    | .nil, st, st', h, he => by rw [parseItems] at he; cases he; exact h
    | .cons ds i rest, st, st', h, he => by
      rw [parseItems] at he
      split at he
      · cases he
      · rename_i st1 h1
        exact parseItems_bnd rest st1 st' (parseItem_bnd i st st1 ds h h1) he
end

theorem parseinit_bnd {t : Ty} {inc : Bool} {i : Ini} {st : St} (e : parseinit t inc i = .ok st) : Bnd st := by
  have h0 : ∀ top, Bnd { obj := fun _ => { ty := t }, top := top, inc := inc } :=
    fun _ => ⟨by show 0 < 32; omega, fun c hc => by cases hc⟩
  unfold parseinit at e
  split at e
  · split at e
    · cases e
    · exact parseItem_bnd _ _ _ _ (h0 _) e
  · cases e
  · exact parseItem_bnd _ _ _ _ (h0 _) e

end CprocVerif.Init

import CprocVerif.Lemmas.LinkageSim

/-!
# C09 — induction over the history

`Inv A s`: the model state `s` (after the declarations whose annotated list is `A`) determines the
aggregates of `A` through `G`, and is `valid`.  `sim_all` carries it over one declaration;
`InvOut` relates what was printed to what the spec expects to have been printed.
-/
namespace CprocVerif.Linkage
open CprocVerif.Link

/-! ## Histories newest-first -/

def stepsRev : List Form → Except Err State
  | [] => .ok init
  | f :: older => match stepsRev older with
    | .ok s => step s f
    | .error e => .error e

theorem steps_append (s : State) (l : List Form) (f : Form) :
    steps s (l ++ [f]) = (match steps s l with | .ok s' => step s' f | .error e => .error e) := by
  induction l generalizing s with
  | nil => simp only [List.nil_append, steps]; cases step s f <;> rfl
  | cons g l ih =>
    simp only [List.cons_append, steps]
    cases step s g with
    | error e => rfl
    | ok s' => exact ih s'

theorem steps_rev (r : List Form) : steps init r.reverse = stepsRev r := by
  induction r with
  | nil => rfl
  | cons f older ih => rw [List.reverse_cons, steps_append, ih]; rfl

theorem steps_eq_rev (h : List Form) : steps init h = stepsRev h.reverse := by
  rw [← steps_rev, List.reverse_reverse]

theorem annot_forms (r : List Form) : (annot r).map (·.form) = r := by
  induction r with
  | nil => rfl
  | cons f older ih => simp only [annot, List.map_cons, ih]

theorem annot_any (r : List Form) (p : Form → Bool) : (annot r).any (fun d => p d.form) = r.any p := by
  conv => rhs; rw [← annot_forms r]
  rw [List.any_map]
  rfl

/-! ## Scope plumbing -/

def topOf (s : State) : Option Ent := s.blocks.head?.join

theorem apply_file (s : State) (fs : Bool) (e : Eff) :
    (apply s fs e).file = if fs then some e.ent else s.file := by
  unfold apply
  cases e.global <;> cases e.emit <;> cases fs <;> simp [store]

theorem apply_blocks (s : State) (fs : Bool) (e : Eff) :
    (apply s fs e).blocks = if fs then s.blocks else some e.ent :: s.blocks.tail := by
  unfold apply
  cases e.global <;> cases e.emit <;> cases fs <;> simp [store]

/-- two sets of lookups between which `declare` cannot tell the difference -/
def ViewEq (v w : View) : Prop :=
  v.same = w.same ∧ v.file = w.file ∧ (v.same = none → v.parent = w.parent)

theorem declare_congr {v w : View} (h : ViewEq v w) (f : Form) : declare v f = declare w f := by
  rcases v with ⟨vs, vp, vf⟩
  rcases w with ⟨ws, wp, wf⟩
  obtain ⟨h1, h2, h3⟩ := h
  simp only at h1 h2 h3
  subst h1 h2
  cases vs with
  | none => simp only [forall_const] at h3; subst h3; rfl
  | some p => simp [declare, declObj, declFunc, declcommon]

/-- the block stack is empty, or its innermost level holds a declaration -/
def Shape (s : State) : Prop := s.blocks = [] ∨ ∃ e rest, s.blocks = some e :: rest

theorem view_enter (s : State) (hs : Shape s) (sc : Scope) :
    ViewEq (view (enter s sc) (decide (sc = .file))) (viewOf s.file (topOf s) sc) := by
  rcases hs with hb | ⟨e, rest, hb⟩
  · cases sc <;> simp [ViewEq, view, enter, viewOf, topOf, hb]
  · cases sc <;> simp [ViewEq, view, enter, viewOf, topOf, hb]

/-! ## The core invariant -/

structure Inv (A : List Decl) (s : State) : Prop where
  shape : Shape s
  ag : aggs A = G s.file (topOf s) (ghostOf (aggs A))
  val : valid s.file (topOf s) (ghostOf (aggs A)) = true

theorem inv_init : Inv [] init := ⟨Or.inl rfl, by decide, by decide⟩

theorem isError_iff {α} (x : Except Err α) : isError x = true ↔ ∃ e, x = .error e := by
  cases x <;> simp [isError]

theorem declare_localViol (v : View) (f : Form) (h : localViol f = true) :
    isError (declare v f) = true := by
  rcases f with ⟨k, sc, fl, s, hd, a⟩
  rcases v with ⟨vs, vp, vf⟩
  simp only [localViol, Bool.or_eq_true, decide_eq_true_eq] at h
  rcases h with ((h | h) | h) | h
  · obtain ⟨rfl, rfl, h⟩ := h
    simp only [declare, declFunc]
    split
    · rfl
    · split
      · rfl
      · split
        · rfl
        · simp [h, isError]
  · obtain ⟨rfl, rfl, h⟩ := h
    simp only [declare, declFunc]
    split
    · rfl
    · split
      · rfl
      · split
        · rfl
        · simp [h, isError]
  · obtain ⟨rfl, h, rfl⟩ := h
    simp only [declare, declFunc]
    split
    · rfl
    · simp [h, isError]
  · obtain ⟨rfl, h, rfl, rfl⟩ := h
    simp [declare, declObj, h, isError]

theorem judgeA_localViol (f : Form) (a : Agg) (h : localViol f = true) :
    ∃ c, judgeA f a = .violates c ∧ c ≠ .c6_7_1p3_threadMismatchUnseenBlockExtern := by
  simp only [localViol, Bool.or_eq_true, decide_eq_true_eq] at h
  unfold judgeA
  by_cases h1 : f.kind = .func ∧ f.hasDef ∧ f.scope ≠ .file
  · exact ⟨.syntaxNestedDefinition, by rw [if_pos h1], by decide⟩
  by_cases h2 : f.kind = .func ∧ f.hasDef ∧ f.asm.isSome
  · exact ⟨.syntaxLabelOnDefinition, by rw [if_neg h1, if_pos h2], by decide⟩
  by_cases h3 : f.kind = .func ∧ f.scope ≠ .file ∧ f.sc = .static
  · exact ⟨.c6_7_1p7_blockFunctionStorage, by rw [if_neg h1, if_neg h2, if_pos h3], by decide⟩
  by_cases h4 : f.kind = .obj ∧ f.scope ≠ .file ∧ f.flag ∧ f.sc = .none
  · exact ⟨.c6_7_1p3_blockThreadLocal, by rw [if_neg h1, if_neg h2, if_neg h3, if_pos h4], by decide⟩
  · exact absurd h (by simp only [h1, h2, h3, h4, or_self, not_false_eq_true])

theorem step_eq (s : State) (hs : Shape s) (f : Form) :
    step s f = (match declare (viewOf s.file (topOf s) f.scope) f with
      | .ok e => .ok (apply (enter s f.scope) (decide (f.scope = .file)) e)
      | .error e => .error e) := by
  unfold step
  simp only
  rw [declare_congr (view_enter s hs f.scope)]
  cases declare (viewOf s.file (topOf s) f.scope) f <;> rfl

theorem enter_file (s : State) (sc : Scope) : (enter s sc).file = s.file := by
  cases sc <;> simp only [enter] <;> split <;> rfl

theorem localViol_of_ok {f : Form} {A : List Decl} (hj : judge f A = .ok) : localViol f = false := by
  cases h : localViol f with
  | false => rfl
  | true =>
    obtain ⟨c, hc, _⟩ := judgeA_localViol f (aggs A) h
    rw [judge_eq, hc] at hj
    cases hj

theorem stepCheck_at {A : List Decl} {s : State} (inv : Inv A s) (f : Form) (hlv : localViol f = false) :
    (match judge f A with
     | .ok =>
       if devTStep f (aggs A) then isError (declare (viewOf s.file (topOf s) f.scope) f)
       else match declare (viewOf s.file (topOf s) f.scope) f with
         | .error _ => false
         | .ok e =>
           let a' := aggCons ⟨f, c11Link f (visLink f A)⟩ (aggs A)
           let file' := if decide (f.scope = .file) then some e.ent else s.file
           let top' := if decide (f.scope = .file) then none else some e.ent
           valid file' top' (ghostOf a') && decide (G file' top' (ghostOf a') = a') &&
             outOK f (aggs A) a' (c11Link f (visLink f A)) e
     | .violates c =>
       decide (c = .c6_7_1p3_threadMismatchUnseenBlockExtern) ||
         isError (declare (viewOf s.file (topOf s) f.scope) f)
     | .undefined c =>
       decide (c ≠ .c6_9p5_externalRedefined) || isError (declare (viewOf s.file (topOf s) f.scope) f)
     | _ => true) = true := by
  have hsc := sim_all (ghostOf (aggs A)) s.file (topOf s) f inv.val hlv
  unfold stepCheck at hsc
  simp only [← inv.ag, ← judge_eq, aggs_visLink] at hsc
  exact hsc

theorem topOf_apply (s : State) (sc : Scope) (e : Eff) :
    topOf (apply (enter s sc) (decide (sc = .file)) e) = if decide (sc = .file) then none else some e.ent := by
  unfold topOf
  rw [apply_blocks]
  cases sc <;> simp [enter]

theorem shape_apply (s : State) (sc : Scope) (e : Eff) :
    Shape (apply (enter s sc) (decide (sc = .file)) e) := by
  unfold Shape
  rw [apply_blocks]
  cases sc
  · left; simp [enter]
  · right; exact ⟨e.ent, (enter s .block).blocks.tail, by simp⟩
  · right; exact ⟨e.ent, (enter s .nested).blocks.tail, by simp⟩

theorem file_apply (s : State) (sc : Scope) (e : Eff) :
    (apply (enter s sc) (decide (sc = .file)) e).file = if decide (sc = .file) then some e.ent else s.file := by
  rw [apply_file, enter_file]

/-- One declaration the spec accepts, from a state satisfying the invariant. -/
theorem core_step {A : List Decl} {s : State} (inv : Inv A s) (f : Form) (hj : judge f A = .ok) :
    (devTStep f (aggs A) = true → isError (step s f) = true) ∧
    (devTStep f (aggs A) = false → ∃ e, declare (viewOf s.file (topOf s) f.scope) f = .ok e ∧
        step s f = .ok (apply (enter s f.scope) (decide (f.scope = .file)) e) ∧
        Inv (⟨f, c11Link f (visLink f A)⟩ :: A) (apply (enter s f.scope) (decide (f.scope = .file)) e) ∧
        outOK f (aggs A) (aggCons ⟨f, c11Link f (visLink f A)⟩ (aggs A)) (c11Link f (visLink f A)) e = true) := by
  have hsc := stepCheck_at inv f (localViol_of_ok hj)
  rw [hj] at hsc
  simp only at hsc
  have hst := step_eq s inv.shape f
  constructor
  · intro hd
    rw [hd, if_pos rfl] at hsc
    rw [hst]
    cases hdec : declare (viewOf s.file (topOf s) f.scope) f with
    | error e => rfl
    | ok e => rw [hdec] at hsc; exact absurd hsc (by simp [isError])
  · intro hd
    rw [hd] at hsc
    simp only [Bool.false_eq_true, if_false] at hsc
    cases hdec : declare (viewOf s.file (topOf s) f.scope) f with
    | error e => rw [hdec] at hsc; exact absurd hsc (by simp)
    | ok e =>
      rw [hdec] at hsc hst
      simp only [Bool.and_eq_true, decide_eq_true_eq] at hsc
      obtain ⟨⟨hv, hg⟩, ho⟩ := hsc
      refine ⟨e, rfl, hst, ⟨shape_apply s f.scope e, ?_, ?_⟩, ho⟩
      · rw [aggs_cons, file_apply, topOf_apply]; simp only [decide_eq_true_eq]; exact hg.symm
      · rw [aggs_cons, file_apply, topOf_apply]; simp only [decide_eq_true_eq]; exact hv

/-! ## Induction: acceptance and rejection -/

theorem verdictRev_cons_ok {f : Form} {older : List Form} (h : verdictRev (f :: older) = .ok) :
    verdictRev older = .ok ∧ judge f (annot older) = .ok := by
  simp only [verdictRev] at h
  cases hv : verdictRev older <;> rw [hv] at h <;> simp_all

theorem devT_cons (f : Form) (older : List Form) :
    threadTentativeThenInitRev (f :: older) =
      (devTStep f (aggs (annot older)) || threadTentativeThenInitRev older) := by
  have h := annot_any older (fun g => decide (g.kind = .obj ∧ g.scope = .file ∧ g.flag ∧ ¬ g.hasDef ∧ g.sc ≠ .extern))
  simp only [threadTentativeThenInitRev, devTStep, aggs]
  rw [h]
  congr 1
  rw [Bool.eq_iff_iff]
  simp [List.any_eq_true, and_assoc]

/-- Every history the spec accepts is either accepted by the model, which then satisfies the
invariant, or rejected by it (only possible in the class `threadTentativeThenInit`). -/
theorem core_sim (r : List Form) (h : verdictRev r = .ok) :
    (threadTentativeThenInitRev r = true ∧ ∃ e, stepsRev r = .error e) ∨
    (threadTentativeThenInitRev r = false ∧ ∃ s, stepsRev r = .ok s ∧ Inv (annot r) s) := by
  induction r with
  | nil => exact Or.inr ⟨rfl, init, rfl, inv_init⟩
  | cons f older ih =>
    obtain ⟨ho, hj⟩ := verdictRev_cons_ok h
    rw [devT_cons]
    rcases ih ho with ⟨hd, e, he⟩ | ⟨hd, s, hs, inv⟩
    · left
      exact ⟨by rw [hd, Bool.or_true], e, by simp only [stepsRev, he]⟩
    · obtain ⟨h1, h2⟩ := core_step inv f hj
      cases hdt : devTStep f (aggs (annot older)) with
      | true =>
        left
        refine ⟨by simp, ?_⟩
        have := (isError_iff _).1 (h1 hdt)
        obtain ⟨e, he⟩ := this
        exact ⟨e, by simp only [stepsRev, hs, he]⟩
      | false =>
        right
        obtain ⟨e, _, hst, inv', _⟩ := h2 hdt
        exact ⟨by simp [hd], _, by simp only [stepsRev, hs, hst], inv'⟩

/-- A history in which some declaration violates a constraint (other than the cross-scope
`_Thread_local` mismatch) is rejected by the model. -/
theorem viol_sim (r : List Form) (c : Clause) (h : verdictRev r = .violates c)
    (hc : c ≠ .c6_7_1p3_threadMismatchUnseenBlockExtern) : ∃ e, stepsRev r = .error e := by
  induction r with
  | nil => simp [verdictRev] at h
  | cons f older ih =>
    simp only [verdictRev] at h
    cases hv : verdictRev older with
    | ok =>
      rw [hv] at h
      simp only at h
      rcases core_sim older hv with ⟨_, e, he⟩ | ⟨_, s, hs, inv⟩
      · exact ⟨e, by simp only [stepsRev, he]⟩
      · simp only [stepsRev, hs]
        rw [step_eq s inv.shape f]
        have herr : isError (declare (viewOf s.file (topOf s) f.scope) f) = true := by
          cases hlv : localViol f with
          | true => exact declare_localViol _ f hlv
          | false =>
            have hsc := stepCheck_at inv f hlv
            rw [h] at hsc
            simp only [Bool.or_eq_true, decide_eq_true_eq] at hsc
            exact hsc.resolve_left hc
        obtain ⟨e, he⟩ := (isError_iff _).1 herr
        exact ⟨e, by rw [he]⟩
    | violates c' =>
      rw [hv] at h
      simp only at h
      cases h
      obtain ⟨e, he⟩ := ih hv
      exact ⟨e, by simp only [stepsRev, he]⟩
    | undefined c' => rw [hv] at h; simp at h
    | unspecified c' => rw [hv] at h; simp at h

/-- A second external definition of an identifier with external linkage (undefined behaviour by
6.9p5, no diagnostic required) is rejected by the model as well. -/
theorem redef_sim (r : List Form) (h : verdictRev r = .undefined .c6_9p5_externalRedefined) :
    ∃ e, stepsRev r = .error e := by
  induction r with
  | nil => simp [verdictRev] at h
  | cons f older ih =>
    simp only [verdictRev] at h
    cases hv : verdictRev older with
    | ok =>
      rw [hv] at h
      simp only at h
      rcases core_sim older hv with ⟨_, e, he⟩ | ⟨_, s, hs, inv⟩
      · exact ⟨e, by simp only [stepsRev, he]⟩
      · simp only [stepsRev, hs]
        rw [step_eq s inv.shape f]
        have herr : isError (declare (viewOf s.file (topOf s) f.scope) f) = true := by
          cases hlv : localViol f with
          | true => exact declare_localViol _ f hlv
          | false =>
            have hsc := stepCheck_at inv f hlv
            rw [h] at hsc
            simp only [Bool.or_eq_true, decide_eq_true_eq] at hsc
            exact hsc.resolve_left (fun hne => hne rfl)
        obtain ⟨e, he⟩ := (isError_iff _).1 herr
        exact ⟨e, by rw [he]⟩
    | undefined c' =>
      rw [hv] at h
      simp only at h
      cases h
      obtain ⟨e, he⟩ := ih hv
      exact ⟨e, by simp only [stepsRev, he]⟩
    | violates c' => rw [hv] at h; simp at h
    | unspecified c' => rw [hv] at h; simp at h

/-! ## What has been printed -/

def symOf (n : SymName) (t : Bool × Bool × Bool × Bool) : Sym := ⟨n, t.1, t.2.1, t.2.2.1, t.2.2.2⟩

def nameOf (a : Agg) : SymName :=
  match a.label with
  | some l => .asm l
  | none => .plain

theorem entityName_eq (A : List Decl) : entityName A = nameOf (aggs A) := rfl

theorem nameOf_not_loc (a : Agg) : (nameOf a).isLoc = false := by
  unfold nameOf; cases a.label <;> rfl

theorem enter_out (s : State) (sc : Scope) :
    (enter s sc).out = s.out ∧ (enter s sc).refs = s.refs ∧ (enter s sc).nextId = s.nextId := by
  cases sc
  · exact ⟨rfl, rfl, rfl⟩
  · simp only [enter]; split <;> exact ⟨rfl, rfl, rfl⟩
  · simp only [enter]; split <;> exact ⟨rfl, rfl, rfl⟩

theorem apply_spec (s : State) (fs : Bool) (e : Eff) :
    (apply s fs e).nextId = (match e.global with
      | none => s.nextId
      | some _ => (mkglobal s.nextId e.ent).2) ∧
    (apply s fs e).refs = (match e.global with
      | none => s.refs
      | some th => s.refs ++ [⟨(mkglobal s.nextId e.ent).1, th⟩]) ∧
    (apply s fs e).out = (match e.global, e.emit with
      | some _, some (isF, z) => s.out ++ [mkSym (mkglobal s.nextId e.ent).1 e.ent isF z]
      | _, _ => s.out) := by
  unfold apply
  rcases e with ⟨ent, gl, em⟩
  cases gl with
  | none => cases fs <;> simp [store]
  | some th =>
    cases em with
    | none => cases fs <;> simp [store]
    | some p => rcases p with ⟨isF, z⟩; cases fs <;> simp [store]

theorem mkglobal_linked {d : Ent} {a : Agg} (n : Nat) (hl : d.link ≠ .none) (ha : d.asm = a.label) :
    mkglobal n d = (nameOf a, n) := by
  unfold mkglobal nameOf
  rw [ha]
  cases a.label <;> simp [hl]

theorem mkglobal_local {d : Ent} (n : Nat) (hl : d.link = .none) (ha : d.asm = none) :
    mkglobal n d = (.loc (n + 1), n + 1) := by
  unfold mkglobal
  rw [ha]
  simp [hl]

theorem countBlockStatics_cons (d : Decl) (A : List Decl) :
    countBlockStatics (d :: A) = if d.blockStatic then countBlockStatics A + 1 else countBlockStatics A := by
  unfold countBlockStatics
  by_cases h : d.blockStatic <;> simp [h]

theorem emittedA_none_of_empty (A : List Decl) (h : (aggs A).linkedM.isEmpty = true) :
    emittedA (aggs A) = none := by
  have h' : (linkedDecls A).isEmpty = true := h
  have hn : linkedDecls A = [] := by simpa using h'
  have hh : (aggs A).lHead = none := by
    show (linkedDecls A).head?.map _ = none
    rw [hn]; rfl
  unfold emittedA pendingA mainA
  rw [hh]
  rfl

structure InvOut (A : List Decl) (s : State) : Prop where
  nid : s.nextId = countBlockStatics A
  locs : s.out.filter (fun y => y.name.isLoc) = localsRev A
  mains : s.out.filter (fun y => !y.name.isLoc) =
    (emittedA (aggs A)).toList.map (symOf (nameOf (aggs A)))
  refsA : ∀ r ∈ s.refs, (r.name.isLoc = true ∧ ∃ y ∈ s.out, y.name = r.name) ∨
    ((aggs A).linkedM.isEmpty = false ∧ r = ⟨nameOf (aggs A), (aggs A).lThread⟩)
  refsB : (aggs A).linkedM.isEmpty = false → (⟨nameOf (aggs A), (aggs A).lThread⟩ : Ref) ∈ s.refs

theorem invOut_init : InvOut [] init :=
  ⟨rfl, rfl, rfl, fun r hr => by simp [init] at hr, fun h => by simp [aggs, linkedDecls, mAgg] at h⟩

theorem out_step_none {A : List Decl} {s : State} (io : InvOut A s) (f : Form) (e : Eff)
    (ho : outOK f (aggs A) (aggCons ⟨f, .none⟩ (aggs A)) .none e = true) :
    InvOut (⟨f, .none⟩ :: A) (apply (enter s f.scope) (decide (f.scope = .file)) e) := by
  obtain ⟨eo, er, en⟩ := enter_out s f.scope
  obtain ⟨an, ar, ao⟩ := apply_spec (enter s f.scope) (decide (f.scope = .file)) e
  rw [eo, er, en] at *
  simp only [outOK, if_true, Bool.and_eq_true, decide_eq_true_eq, Bool.or_eq_true,
    Bool.not_eq_true'] at ho
  obtain ⟨⟨⟨hlink, hgl⟩, _⟩, ⟨⟨⟨⟨⟨⟨hasm, hem⟩, hem2⟩, hE⟩, hlab⟩, hth⟩, hemp⟩⟩ := ho
  have hname : nameOf (aggCons ⟨f, .none⟩ (aggs A)) = nameOf (aggs A) := by unfold nameOf; rw [hlab]
  by_cases hbs : (decide (f.kind = .obj) && decide (f.sc = .static)) = true
  · -- a block-scope static
    have hdb : (⟨f, .none⟩ : Decl).blockStatic = true := by
      simp only [Bool.and_eq_true, decide_eq_true_eq] at hbs
      simp [Decl.blockStatic, hbs.1, hbs.2]
    rw [hbs] at hem hgl
    simp only [Bool.not_true, Bool.and_false] at hgl
    have hem3 := hem2.resolve_left (by rw [hem]; decide)
    obtain ⟨⟨hemit, hdur⟩, _⟩ := hem3
    obtain ⟨th, hth'⟩ : ∃ th, e.global = some th := by
      cases hg : e.global with
      | none => rw [hg] at hgl; simp at hgl
      | some th => exact ⟨th, rfl⟩
    rw [hth'] at an ar ao
    rw [hemit] at ao
    simp only [mkglobal_local _ hlink hasm] at an ar ao
    have hy : mkSym (.loc (s.nextId + 1)) e.ent false (!f.hasDef) =
        { name := .loc (countBlockStatics A + 1), isFunc := false, exported := false,
          thread := f.flag, zero := decide (¬ f.hasDef = true) } := by
      simp only [mkSym, hlink, io.nid, Bool.not_false, Bool.true_and]
      congr 1
      · cases hfl : f.flag <;> rw [hfl] at hdur <;> simp_all
      · cases f.hasDef <;> rfl
    refine ⟨?_, ?_, ?_, ?_, ?_⟩
    · rw [an, countBlockStatics_cons, hdb, io.nid]; rfl
    · rw [ao, List.filter_append, io.locs]
      simp only [localsRev, hdb, if_true]
      congr 1
      rw [← hy]
      simp [mkSym, SymName.isLoc]
    · rw [ao, List.filter_append, io.mains, aggs_cons, hE, hname]
      simp [mkSym, SymName.isLoc]
    · intro r hr
      rw [ar] at hr
      rw [aggs_cons, hemp, hname, hth, ao]
      rcases List.mem_append.1 hr with hr | hr
      · rcases io.refsA r hr with ⟨h1, y, hy1, hy2⟩ | h2
        · exact Or.inl ⟨h1, y, List.mem_append_left _ hy1, hy2⟩
        · exact Or.inr h2
      · simp only [List.mem_singleton] at hr
        subst hr
        exact Or.inl ⟨rfl, _, List.mem_append_right _ (List.mem_singleton.2 rfl), rfl⟩
    · intro hne
      rw [aggs_cons, hemp] at hne
      rw [aggs_cons, hname, hth, ar]
      exact List.mem_append_left _ (io.refsB hne)
  · -- an automatic object
    have hbs' : (decide (f.kind = .obj) && decide (f.sc = .static)) = false := by
      cases h : (decide (f.kind = .obj) && decide (f.sc = .static)) <;> simp_all
    have hdb : (⟨f, .none⟩ : Decl).blockStatic = false := by
      simp only [Bool.and_eq_false_iff, decide_eq_false_iff_not] at hbs'
      simp only [Decl.blockStatic]
      rcases hbs' with h | h <;> simp [h]
    rw [hbs'] at hem hgl
    have hg : e.global = none := by
      cases hg : e.global with
      | none => rfl
      | some th => rw [hg] at hgl; simp at hgl
    rw [hg] at an ar ao
    simp only at an ar ao
    refine ⟨?_, ?_, ?_, ?_, ?_⟩
    · rw [an, countBlockStatics_cons, hdb, io.nid]; rfl
    · rw [ao, io.locs]; simp [localsRev, hdb]
    · rw [ao, io.mains, aggs_cons, hE, hname]
    · intro r hr
      rw [ar] at hr
      rw [aggs_cons, hemp, hname, hth, ao]
      exact io.refsA r hr
    · intro hne
      rw [aggs_cons, hemp] at hne
      rw [aggs_cons, hname, hth, ar]
      exact io.refsB hne

theorem out_step_linked {A : List Decl} {s : State} (io : InvOut A s) (f : Form) (l : Link) (e : Eff)
    (hl : l ≠ .none)
    (ho : outOK f (aggs A) (aggCons ⟨f, l⟩ (aggs A)) l e = true) (hdi : devIStep f (aggs A) = false) :
    InvOut (⟨f, l⟩ :: A) (apply (enter s f.scope) (decide (f.scope = .file)) e) := by
  obtain ⟨eo, er, en⟩ := enter_out s f.scope
  obtain ⟨an, ar, ao⟩ := apply_spec (enter s f.scope) (decide (f.scope = .file)) e
  rw [eo, er, en] at *
  simp only [outOK, hl, if_false, Bool.and_eq_true, decide_eq_true_eq, Bool.or_eq_true,
    Bool.not_eq_true'] at ho
  obtain ⟨⟨⟨hlink, _⟩, hstab⟩, ⟨⟨⟨hasm, hgl⟩, hne⟩, hemit⟩⟩ := ho
  have hlink' : e.ent.link ≠ .none := by rw [hlink]; exact hl
  have hdb : (⟨f, l⟩ : Decl).blockStatic = false := by simp [Decl.blockStatic, hl]
  rw [hgl] at an ar ao
  simp only [mkglobal_linked s.nextId hlink' hasm] at an ar ao
  -- stability of name / thread flag once something with linkage has been declared
  have hold : (aggs A).linkedM.isEmpty = false →
      nameOf (aggCons ⟨f, l⟩ (aggs A)) = nameOf (aggs A) ∧
      (aggCons ⟨f, l⟩ (aggs A)).lThread = (aggs A).lThread := by
    intro h
    rcases hstab with h' | ⟨h1, h2⟩
    · rw [h] at h'; cases h'
    · exact ⟨by unfold nameOf; rw [h2], h1⟩
  have hrefsA : ∀ out' : List Sym, (∀ y ∈ s.out, y ∈ out') → ∀ r ∈ s.refs ++
      [(⟨nameOf (aggCons ⟨f, l⟩ (aggs A)), (aggCons ⟨f, l⟩ (aggs A)).lThread⟩ : Ref)],
      (r.name.isLoc = true ∧ ∃ y ∈ out', y.name = r.name) ∨
      ((aggCons ⟨f, l⟩ (aggs A)).linkedM.isEmpty = false ∧
        r = ⟨nameOf (aggCons ⟨f, l⟩ (aggs A)), (aggCons ⟨f, l⟩ (aggs A)).lThread⟩) := by
    intro out' hsub r hr
    rcases List.mem_append.1 hr with hr | hr
    · rcases io.refsA r hr with ⟨h1, y, hy1, hy2⟩ | ⟨h2, h3⟩
      · exact Or.inl ⟨h1, y, hsub y hy1, hy2⟩
      · obtain ⟨hn, ht⟩ := hold h2
        exact Or.inr ⟨hne, by rw [h3, hn, ht]⟩
    · simp only [List.mem_singleton] at hr
      exact Or.inr ⟨hne, hr⟩
  refine ⟨?_, ?_, ?_, ?_, ?_⟩
  · rw [an, countBlockStatics_cons, hdb, io.nid]; rfl
  · have hloc : localsRev (⟨f, l⟩ :: A) = localsRev A := by simp [localsRev, hdb]
    rw [hloc, ← io.locs, ao]
    cases hem : e.emit with
    | none => rfl
    | some p =>
      rcases p with ⟨isF, z⟩
      simp [List.filter_append, mkSym, nameOf_not_loc]
  · rw [aggs_cons, ao]
    cases hem : e.emit with
    | none =>
      rw [hem] at hemit
      simp only [hdi, Bool.false_or, decide_eq_true_eq] at hemit
      rw [io.mains, hemit]
      cases hE : emittedA (aggs A) with
      | none => rfl
      | some t =>
        have hne' : (aggs A).linkedM.isEmpty = false := by
          cases h : (aggs A).linkedM.isEmpty with
          | false => rfl
          | true => rw [emittedA_none_of_empty A h] at hE; cases hE
        rw [(hold hne').1]
    | some p =>
      rcases p with ⟨isF, z⟩
      rw [hem] at hemit
      simp only [Bool.and_eq_true, Option.isNone_iff_eq_none, decide_eq_true_eq] at hemit
      obtain ⟨h1, h2⟩ := hemit
      have hm := io.mains
      rw [h1] at hm
      simp only [Option.toList, List.map_nil] at hm
      rw [List.filter_append, hm, h2]
      simp [mkSym, nameOf_not_loc, symOf]
  · rw [aggs_cons, ar, ao]
    cases hem : e.emit with
    | none => exact hrefsA s.out (fun y hy => hy)
    | some p =>
      rcases p with ⟨isF, z⟩
      exact hrefsA _ (fun y hy => List.mem_append_left _ hy)
  · intro _
    rw [aggs_cons, ar]
    exact List.mem_append_right _ (List.mem_singleton.2 rfl)

theorem annot_all (r : List Form) (p : Form → Bool) : (annot r).all (fun d => p d.form) = r.all p := by
  conv => rhs; rw [← annot_forms r]
  rw [List.all_map]
  rfl

theorem devI_cons (f : Form) (older : List Form) :
    inlineThenExternRev (f :: older) =
      (devIStep f (aggs (annot older)) || inlineThenExternRev older) := by
  have h1 := annot_any older (fun g => decide (g.scope = .file) && g.hasDef)
  have h2 := annot_all older (fun g => !decide (g.scope = .file) ||
    decide (g.kind = .func → (g.flag = true ∧ g.sc ≠ .extern)))
  simp only [inlineThenExternRev, devIStep, aggs, hasDefinition, Decl.atFile, List.all_filter, pureInline]
  congr 1
  rw [h1, h2, Bool.eq_iff_iff]
  simp [and_assoc]

/-- Accepted histories outside the two known classes: the model accepts, and what it printed is
what the spec expects to have been printed. -/
theorem full_sim (r : List Form) (h : verdictRev r = .ok)
    (hT : threadTentativeThenInitRev r = false) (hI : inlineThenExternRev r = false) :
    ∃ s, stepsRev r = .ok s ∧ Inv (annot r) s ∧ InvOut (annot r) s := by
  induction r with
  | nil => exact ⟨init, rfl, inv_init, invOut_init⟩
  | cons f older ih =>
    obtain ⟨ho, hj⟩ := verdictRev_cons_ok h
    rw [devT_cons, Bool.or_eq_false_iff] at hT
    rw [devI_cons, Bool.or_eq_false_iff] at hI
    obtain ⟨s, hs, inv, io⟩ := ih ho hT.2 hI.2
    obtain ⟨e, _, hst, inv', hout⟩ := (core_step inv f hj).2 hT.1
    refine ⟨_, by simp only [stepsRev, hs, hst], inv', ?_⟩
    show InvOut (⟨f, c11Link f (visLink f (annot older))⟩ :: annot older) _
    by_cases hl : c11Link f (visLink f (annot older)) = .none
    · rw [hl] at hout ⊢
      exact out_step_none io f e hout
    · exact out_step_linked io f _ e hl hout hI.1

/-! ## End of the unit -/

theorem dedup_const {α} [DecidableEq α] (a : α) (l : List α) (h : ∀ x ∈ l, x = a) :
    dedup l = if l = [] then [] else [a] := by
  induction l with
  | nil => rfl
  | cons x xs ih =>
    have hx : x = a := h x (List.mem_cons_self ..)
    have ih' := ih (fun y hy => h y (List.mem_cons_of_mem _ hy))
    subst hx
    simp only [dedup, ih', reduceCtorEq, if_false]
    by_cases hxs : xs = [] <;> simp [hxs]

theorem mainSyms_eq (A : List Decl) :
    mainSyms A = (mainA (aggs A)).toList.map (symOf (nameOf (aggs A))) := by
  unfold mainSyms mainA
  have hd : (aggs A).hasDef = ((A.filter Decl.atFile).any fun d => d.form.hasDef) := by
    show hasDefinition A = _
    simp [hasDefinition, List.any_filter]
  show (match (linkedDecls A).head? with | none => [] | some d0 => _) = _
  have hh : (aggs A).lHead = (linkedDecls A).head?.map (fun d => (d.form.kind, d.link)) := rfl
  rw [hh]
  cases hL : (linkedDecls A).head? with
  | none => rfl
  | some d0 =>
    simp only [Option.map_some]
    cases hk : d0.form.kind with
    | obj =>
      simp only [hd.symm]
      show (if (aggs A).hasDef = true then _ else if (aggs A).fTent = true then _ else _) = _
      by_cases h1 : (aggs A).hasDef = true
      · simp [h1, symOf, entityName_eq]; simp [aggs]
      · by_cases h2 : (aggs A).fTent = true
        · simp [h1, h2, symOf, entityName_eq]; simp [aggs]
        · simp [h1, h2]
    | func =>
      simp only [hd.symm]
      show (if (aggs A).hasDef = true ∧ ¬ (decide (d0.link = .extern ∧ (aggs A).fPure = true)) = true then _ else _) = _
      by_cases h1 : (aggs A).hasDef = true ∧ ¬ (d0.link = .extern ∧ (aggs A).fPure = true)
      · have h1' : (aggs A).hasDef = true ∧ ¬ (decide (d0.link = .extern ∧ (aggs A).fPure = true)) = true := by
          simpa using h1
        rw [if_pos h1', if_pos h1]
        simp [symOf, entityName_eq]
      · have h1' : ¬ ((aggs A).hasDef = true ∧ ¬ (decide (d0.link = .extern ∧ (aggs A).fPure = true)) = true) := by
          simpa using h1
        rw [if_neg h1', if_neg h1]
        rfl

theorem finish_spec {A : List Decl} {s : State} (inv : Inv A s) (io : InvOut A s) :
    (finish s).refs = s.refs ∧ (∀ y ∈ s.out, y ∈ (finish s).out) ∧
    (finish s).out.filter (fun y => y.name.isLoc) = localsRev A ∧
    (finish s).out.filter (fun y => !y.name.isLoc) =
      (mainA (aggs A)).toList.map (symOf (nameOf (aggs A))) := by
  have hf := fin_all _ _ _ inv.val
  unfold finishCheck at hf
  simp only [← inv.ag] at hf
  unfold finish
  cases hfile : s.file with
  | none =>
    rw [hfile] at hf
    simp only [Bool.not_eq_true'] at hf
    refine ⟨rfl, fun y hy => hy, io.locs, ?_⟩
    rw [io.mains]
    unfold emittedA
    rw [hf]; rfl
  | some d =>
    rw [hfile] at hf
    simp only [Bool.and_eq_true, decide_eq_true_eq, Bool.or_eq_true, Bool.not_eq_true'] at hf
    obtain ⟨⟨h1, h2⟩, h3⟩ := hf
    simp only
    cases hp : pendingA (aggs A) with
    | true =>
      rw [hp] at h1 h2
      have h2' := h2.resolve_left (by decide)
      obtain ⟨⟨⟨hm, hasm⟩, hlink⟩, hE⟩ := h2'
      have hc : d.tentative = true ∧ ¬ d.defined = true := by
        simp only [Bool.and_eq_true, Bool.not_eq_true'] at h1
        exact ⟨h1.1, by simp [h1.2]⟩
      rw [if_pos hc]
      simp only [mkglobal_linked s.nextId hlink hasm]
      refine ⟨trivial, fun y hy => List.mem_append_left _ hy, ?_, ?_⟩
      · rw [List.filter_append, io.locs]
        simp [mkSym, nameOf_not_loc]
      · rw [List.filter_append, io.mains]
        simp only [Option.isNone_iff_eq_none] at hE
        rw [hE, hm]
        simp [mkSym, nameOf_not_loc, symOf]
    | false =>
      rw [hp] at h1 h3
      have hc : ¬ (d.tentative = true ∧ ¬ d.defined = true) := by
        intro ⟨ht, hd⟩
        have : (d.tentative && !d.defined) = true := by simp [ht, hd]
        rw [h1] at this; cases this
      rw [if_neg hc]
      have h3' := h3.resolve_left (by decide)
      refine ⟨rfl, fun y hy => hy, io.locs, ?_⟩
      rw [io.mains, h3']

theorem symbols_finish {A : List Decl} {s : State} (inv : Inv A s) (io : InvOut A s) :
    symbols (finish s) = symbolsRev A := by
  obtain ⟨hr, hsub, hloc, hmain⟩ := finish_spec inv io
  have hnot : (fun y : Sym => decide (¬ y.name.isLoc = true)) = (fun y => !y.name.isLoc) := by
    funext y; cases y.name.isLoc <;> rfl
  unfold symbols symbolsRev
  rw [hnot, hmain, hloc, hr, mainSyms_eq]
  congr 1
  -- undefined references
  show dedup _ = (if ¬ (linkedDecls A).isEmpty = true ∧ _ then [(⟨nameOf (aggs A), (aggs A).lThread⟩ : Ref)] else [])
  -- a reference to a `$.Lx.N` symbol is always defined
  have hlocdef : ∀ r ∈ s.refs, r.name.isLoc = true →
      (finish s).out.any (fun y => decide (y.name = r.name)) = true := by
    intro r hr hl
    rcases io.refsA r hr with ⟨_, y, hy1, hy2⟩ | ⟨_, h3⟩
    · exact List.any_eq_true.2 ⟨y, hsub y hy1, by simp [hy2]⟩
    · rw [h3] at hl; simp [nameOf_not_loc] at hl
  -- the entity's own name is defined iff the spec has a definition for it
  have hr0 : (finish s).out.any (fun y => decide (y.name = nameOf (aggs A))) = (mainA (aggs A)).isSome := by
    cases hm : mainA (aggs A) with
    | none =>
      rw [hm] at hmain
      simp only [Option.isSome_none]
      rw [Bool.eq_false_iff]
      intro hany
      obtain ⟨y, hy, hyn⟩ := List.any_eq_true.1 hany
      simp only [decide_eq_true_eq] at hyn
      have : y ∈ (finish s).out.filter (fun y => !y.name.isLoc) :=
        List.mem_filter.2 ⟨hy, by rw [hyn]; simp [nameOf_not_loc]⟩
      rw [hmain] at this
      simp at this
    | some t =>
      rw [hm] at hmain
      simp only [Option.isSome_some]
      have : symOf (nameOf (aggs A)) t ∈ (finish s).out.filter (fun y => !y.name.isLoc) := by
        rw [hmain]; simp
      exact List.any_eq_true.2 ⟨_, (List.mem_filter.1 this).1, by simp [symOf]⟩
  have hLE : (aggs A).linkedM.isEmpty = (linkedDecls A).isEmpty := rfl
  by_cases hcond : ¬ (linkedDecls A).isEmpty = true ∧
      ((mainA (aggs A)).toList.map (symOf (nameOf (aggs A)))).isEmpty = true
  · rw [if_pos hcond]
    obtain ⟨hL, hM⟩ := hcond
    have hL' : (aggs A).linkedM.isEmpty = false := by rw [hLE]; simpa using hL
    have hMn : mainA (aggs A) = none := by
      cases hm : mainA (aggs A) with
      | none => rfl
      | some t => rw [hm] at hM; simp at hM
    rw [hMn] at hr0
    simp only [Option.isSome_none] at hr0
    have hall : ∀ x ∈ s.refs.filter (fun r => decide (¬ (finish s).out.any (fun y => decide (y.name = r.name)) = true)),
        x = (⟨nameOf (aggs A), (aggs A).lThread⟩ : Ref) := by
      intro x hx
      obtain ⟨hx1, hx2⟩ := List.mem_filter.1 hx
      simp only [decide_eq_true_eq] at hx2
      rcases io.refsA x hx1 with ⟨hl, _⟩ | ⟨_, h3⟩
      · exact absurd (hlocdef x hx1 hl) hx2
      · exact h3
    have hne : s.refs.filter (fun r => decide (¬ (finish s).out.any (fun y => decide (y.name = r.name)) = true)) ≠ [] := by
      intro hnil
      have hmem : (⟨nameOf (aggs A), (aggs A).lThread⟩ : Ref) ∈
          s.refs.filter (fun r => decide (¬ (finish s).out.any (fun y => decide (y.name = r.name)) = true)) :=
        List.mem_filter.2 ⟨io.refsB hL', by simp [hr0]⟩
      rw [hnil] at hmem
      cases hmem
    rw [dedup_const _ _ hall, if_neg hne]
  · rw [if_neg hcond]
    have hnil : s.refs.filter (fun r => decide (¬ (finish s).out.any (fun y => decide (y.name = r.name)) = true)) = [] := by
      rw [List.filter_eq_nil_iff]
      intro x hx
      simp only [decide_eq_true_eq, Decidable.not_not]
      rcases io.refsA x hx with ⟨hl, _⟩ | ⟨h2, h3⟩
      · exact hlocdef x hx hl
      · rw [h3]
        show (finish s).out.any (fun y => decide (y.name = nameOf (aggs A))) = true
        rw [hr0]
        cases hm : mainA (aggs A) with
        | some t => rfl
        | none =>
          exfalso
          apply hcond
          refine ⟨by rw [← hLE]; simp [h2], by rw [hm]; rfl⟩
    rw [hnil]
    rfl

end CprocVerif.Linkage

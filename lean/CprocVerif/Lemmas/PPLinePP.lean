import CprocVerif.Lemmas.PPLineTok
import CprocVerif.Lemmas.Keyword

/-! C11 helper lemmas, part 6: the preprocessor layer (`directive`, `nextinto`, `next`, the run):
every delivered token and every token a diagnostic points at carries the presumed location of
its first byte, given the line directives that had taken effect. -/

namespace CprocVerif.PPLine
open CprocVerif.Scan CprocVerif.Gen.TokenKinds CprocVerif.Spec.Presumed

variable {file0 : List UInt8} {text : List UInt8}

def dirsOf (p : PS) : List LineDir := p.dirs.map toDir

/-- the preprocessor state describes the text correctly: the scanner's line numbers are shifted
as the logged directives say, the file name is the one they set, and they all lie behind -/
structure PInv (file0 : List UInt8) (text : List UInt8) (p : PS) : Prop where
  inv : Inv text (shiftOf text (dirsOf p)) p.s
  file : p.file = curFile file0 (dirsOf p)
  bound : ∀ d ∈ dirsOf p, d.endOff ≤ off p.s
  sorted : (dirsOf p).Pairwise (fun a b => a.endOff < b.endOff)

/-- `D'` is `D` plus directives that end behind offset `o` -/
def Ext (D : List (Nat × Nat × Option (List UInt8))) (o : Nat)
    (D' : List (Nat × Nat × Option (List UInt8))) : Prop :=
  ∃ new, D' = D ++ new ∧ ∀ d ∈ new, o < d.1

theorem Ext.refl (D : List (Nat × Nat × Option (List UInt8))) (o : Nat) : Ext D o D :=
  ⟨[], by simp, by simp⟩

theorem Ext.trans {D D1 D2 : List (Nat × Nat × Option (List UInt8))} {o o1 : Nat}
    (h1 : Ext D o D1) (h2 : Ext D1 o1 D2) (hle : o ≤ o1) : Ext D o D2 := by
  obtain ⟨n1, e1, b1⟩ := h1
  obtain ⟨n2, e2, b2⟩ := h2
  refine ⟨n1 ++ n2, by rw [e2, e1, List.append_assoc], ?_⟩
  intro d hd
  rcases List.mem_append.mp hd with h | h
  · exact b1 d h
  · have := b2 d h; omega

/-- a diagnostic of scan.c: it names the current file and the line — as `nextchar` counts, shifted
by the directives in force — of some byte `o` at or behind the position of `p` -/
def ScanDiag (file0 : List UInt8) (text : List UInt8) (p : PS) (e : PErr) : Prop :=
  ∃ o, off p.s ≤ o ∧ o ≤ text.length ∧ e.file = curFile file0 (e.dirs.map toDir) ∧
    (e.line : Int) = (locAt text o).line + shiftOf text (e.dirs.map toDir) ∧
    ∀ d ∈ e.dirs.map toDir, d.endOff ≤ o

/-- a diagnostic is fine: the directives in force when it was raised extend those of `p` behind
`p`'s position, the token it points at (if any) was scanned under them, and a diagnostic of
scan.c names the line of a byte behind `p` -/
def ErrGood (file0 : List UInt8) (text : List UInt8) (p : PS) (e : PErr) : Prop :=
  Ext p.dirs (off p.s) e.dirs ∧ (e.dirs.map toDir).Pairwise (fun a b => a.endOff < b.endOff) ∧
  (∀ t, e.tok = some t → Scanned file0 text (e.dirs.map toDir) t ∧ off p.s ≤ t.off ∧
    e.file = t.file ∧ e.line = t.line ∧ e.col = t.col) ∧
  (e.tok = none → ∀ k, e.kind = .scan k → ScanDiag file0 text p e)

def Res (file0 : List UInt8) (text : List UInt8) (p : PS) {α : Type} (okP : α → Prop) :
    Except PErr α → Prop
  | .error e => ErrGood file0 text p e
  | .ok a => okP a

/-- `t` is the token scanned last, `p` the state behind it; no directive took effect since `p0` -/
structure Reach (file0 : List UInt8) (text : List UInt8) (p0 : PS) (t : PTok) (p : PS) : Prop where
  tok : Scanned file0 text (dirsOf p0) t
  ge : off p0.s ≤ t.off
  inv : PInv file0 text p
  dirs : p.dirs = p0.dirs
  file : p.file = p0.file
  lt : t.kind ≠ .TEOF → t.off < off p.s
  eq : t.kind = .TEOF → t.off = off p.s

theorem Reach.le {p0 p : PS} {t : PTok} (h : Reach file0 text p0 t p) : t.off ≤ off p.s := by
  by_cases hk : t.kind = .TEOF
  · exact Nat.le_of_eq (h.eq hk)
  · exact Nat.le_of_lt (h.lt hk)

theorem Reach.mono {p0 p : PS} {t : PTok} (h : Reach file0 text p0 t p) : off p0.s ≤ off p.s :=
  Nat.le_trans h.ge h.le

theorem Reach.dirsOf {p0 p : PS} {t : PTok} (h : Reach file0 text p0 t p) : dirsOf p = dirsOf p0 := by
  unfold PPLine.dirsOf; rw [h.dirs]

theorem Reach.trans {p0 p p' : PS} {t t' : PTok} (h : Reach file0 text p0 t p)
    (h' : Reach file0 text p t' p') : Reach file0 text p0 t' p' :=
  ⟨by rw [← h.dirsOf]; exact h'.tok, Nat.le_trans h.mono h'.ge, h'.inv, by rw [h'.dirs, h.dirs],
   by rw [h'.file, h.file], h'.lt, h'.eq⟩

theorem ErrGood.chain {p0 p : PS} {e : PErr} (he : ErrGood file0 text p e)
    (hx : Ext p0.dirs (off p0.s) p.dirs) (hle : off p0.s ≤ off p.s) : ErrGood file0 text p0 e := by
  obtain ⟨h1, hs, h2, h3⟩ := he
  refine ⟨hx.trans h1 hle, hs, ?_, ?_⟩
  · intro t ht
    obtain ⟨a, b, c⟩ := h2 t ht
    exact ⟨a, Nat.le_trans hle b, c⟩
  · intro hn k hk
    obtain ⟨o, a, b⟩ := h3 hn k hk
    exact ⟨o, Nat.le_trans hle a, b⟩

theorem ErrGood.of_reach {p0 p : PS} {t : PTok} {e : PErr} (he : ErrGood file0 text p e)
    (h : Reach file0 text p0 t p) : ErrGood file0 text p0 e :=
  he.chain (by rw [h.dirs]; exact Ext.refl _ _) h.mono

theorem errTok_good' {p0 p : PS} {t : PTok} (htok : Scanned file0 text (dirsOf p0) t)
    (hge : off p0.s ≤ t.off) (hd : p.dirs = p0.dirs)
    (hs : (dirsOf p0).Pairwise (fun a b => a.endOff < b.endOff)) (k : PErrKind) :
    ErrGood file0 text p0 (errTok p t k) := by
  refine ⟨by show Ext p0.dirs _ p.dirs; rw [hd]; exact Ext.refl _ _,
    by show (p.dirs.map toDir).Pairwise _; rw [hd]; exact hs, ?_, fun hn => by cases hn⟩
  intro t' ht'
  have : t' = t := by
    have : some t = some t' := ht'
    exact (Option.some.inj this).symm
  subst this
  refine ⟨?_, hge, rfl, rfl, rfl⟩
  show Scanned file0 text (p.dirs.map toDir) t'
  rw [hd]; exact htok

theorem errTok_good {p0 p : PS} {t : PTok} (h : Reach file0 text p0 t p) (k : PErrKind) :
    ErrGood file0 text p0 (errTok p t k) :=
  errTok_good' h.tok h.ge h.dirs (by have := h.inv.sorted; rw [h.dirsOf] at this; exact this) k

/-! ## `scanP` -/

theorem scanP_ok {p : PS} (h : PInv file0 text p) :
    Res file0 text p (fun r : PTok × PS => Reach file0 text p r.1 r.2) (scanP p) := by
  unfold scanP
  cases hs : scan p.s with
  | error e =>
    refine ⟨Ext.refl _ _, h.sorted, (fun t ht => by cases ht), fun _ k _ => ?_⟩
    obtain ⟨o, b1, b2, b3⟩ := scan_err h.inv hs
    exact ⟨o, b1, b2, h.file, b3, fun d hd => Nat.le_trans (h.bound d hd) b1⟩
  | ok r =>
    obtain ⟨t, s'⟩ := r
    obtain ⟨a1, a2, a3, a4, a5, a6, a7⟩ := scan_ok h.inv hs
    have hle : t.start - 2 * p.s.skipped ≤ text.length := by
      have := a5.off_le
      by_cases hk : t.kind = .TEOF
      · have := a7 hk; omega
      · have := a6 hk; omega
    exact ⟨⟨a2, h.file, hle, a3, a4, fun d hd => Nat.le_trans (h.bound d hd) a1⟩, a1,
      ⟨a5, h.file, fun d hd => by
        have h1 := h.bound d hd
        by_cases hk : t.kind = .TEOF
        · have := a7 hk; show d.endOff ≤ off s'; omega
        · have := a6 hk; show d.endOff ≤ off s'; omega, h.sorted⟩,
      rfl, rfl, a6, a7⟩

/-! ## `scansetloc` -/

theorem physAt_line_mono (text : List UInt8) {a b : Nat} (h : a ≤ b) :
    (physAt text a).line ≤ (physAt text b).line := by
  rw [physAt_line, physAt_line]
  have := newlines_split text 0 a b (Nat.zero_le _) h
  omega

theorem locAt_line_ge (text : List UInt8) (o : Nat) : (physAt text o).line ≤ (locAt text o).line := by
  unfold locAt
  split
  · unfold advChar; split <;> simp
  · simp

/-- replacing the line number of `s->loc` changes the shift and nothing else -/
theorem Inv.reloc {δ δ' : Int} {s : S} (h : Inv text δ s) (l' : Loc) (hcol : l'.col = s.loc.col)
    (hline : (l'.line : Int) = s.loc.line + (δ' - δ)) : Inv text δ' { s with loc := l' } := by
  have hrel : ∀ q, LocRel δ s.loc q → LocRel δ' l' q := by
    intro q hq
    exact ⟨by have := hq.1; omega, by rw [hcol]; exact hq.2⟩
  refine ⟨h.raw, h.pos_le, h.eof, h.cur, h.head, hrel _ h.loc, ?_, h.dot⟩
  intro hne
  have := h.ahead hne
  show LocRel δ' (advSplice l' s.skipped) (physAt text s.pos)
  unfold advSplice at this ⊢
  split
  · rename_i hs; rw [if_pos hs] at this; exact hrel _ this
  · rename_i hs
    rw [if_neg hs] at this
    exact ⟨by have := this.1; simp only [Int.natCast_add] at this ⊢; omega, this.2⟩

theorem curFile_append (file0 : List UInt8) (D : List LineDir) (d : LineDir) :
    curFile file0 (D ++ [d]) = d.file.getD (curFile file0 D) := by
  unfold curFile
  rw [List.filterMap_append]
  cases hf : d.file with
  | none => simp [hf]
  | some x => simp [hf]

theorem shiftOf_append (text : List UInt8) (D : List LineDir) (d : LineDir) :
    shiftOf text (D ++ [d]) = (d.line : Int) - (1 + newlines text 0 d.endOff) := by
  unfold shiftOf
  simp

/-! ## `directive()` -/

/-- a directive has been processed: the state is correct again, directives were only added, and
they end behind where the directive started -/
structure DirDone (file0 : List UInt8) (text : List UInt8) (p0 p : PS) : Prop where
  inv : PInv file0 text p
  ext : Ext p0.dirs (off p0.s) p.dirs
  mono : off p0.s ≤ off p.s

theorem skipNumbers_ok {p0 : PS} : ∀ (n : Nat) (t : PTok) (p : PS), Reach file0 text p0 t p →
    Res file0 text p0 (fun r : PTok × PS => Reach file0 text p0 r.1 r.2) (skipNumbers n t p) := by
  intro n
  induction n with
  | zero => intro t p h; exact errTok_good h _
  | succ n ih =>
    intro t p h
    unfold skipNumbers
    split
    · have hs := scanP_ok h.inv
      cases hsp : scanP p with
      | error e => rw [hsp] at hs; exact ErrGood.of_reach hs h
      | ok r =>
        obtain ⟨t', p'⟩ := r
        rw [hsp] at hs
        exact ih t' p' (h.trans hs)
    · exact h

theorem newline_line {D : List LineDir} {t : PTok} (h : Scanned file0 text D t)
    (hk : t.kind = .TNEWLINE) :
    (t.line : Int) = (physAt text (t.off + 1)).line + shiftOf text D := by
  have hnl := h.nl.mp hk
  have := h.loc.1
  rw [locAt_some text t.off _ hnl] at this
  exact this

theorem lineDirEnd_ok {p0 : PS} (hb0 : ∀ d ∈ dirsOf p0, d.endOff ≤ off p0.s)
    (n : Nat) (f : Option (List UInt8)) (file1 : List UInt8)
    (hfile1 : file1 = curFile file0 (dirsOf p0)) (t2 : PTok) (p2 : PS)
    (h : Reach file0 text p0 t2 p2) :
    Res file0 text p0 (DirDone file0 text p0) (lineDirEnd n f file1 t2 p2) := by
  unfold lineDirEnd
  have hsk := skipNumbers_ok (p2.s.inp.length + 2) t2 p2 h
  cases hskp : skipNumbers (p2.s.inp.length + 2) t2 p2 with
  | error e => rw [hskp] at hsk; exact hsk
  | ok r3 =>
    obtain ⟨t, p3⟩ := r3
    rw [hskp] at hsk
    have hr3 : Reach file0 text p0 t p3 := hsk
    simp only []
    split
    · exact errTok_good hr3 _
    · rename_i hk
      have hk : t.kind = .TNEWLINE := by simpa using hk
      have hne : t.kind ≠ .TEOF := by rw [hk]; decide
      have hlt := hr3.lt hne
      have hD3 : dirsOf p3 = dirsOf p0 := hr3.dirsOf
      -- line numbers
      have hT := newline_line hr3.tok hk
      have hinv3 := hr3.inv.inv
      rw [hD3] at hinv3
      have hL := hinv3.loc.1
      have hge : (physAt text (t.off + 1)).line ≤ (locAt text (off p3.s)).line :=
        Nat.le_trans (physAt_line_mono text (by omega)) (locAt_line_ge text _)
      let d : LineDir := ⟨t.off + 1, n, f⟩
      have hDnew : dirsOf ({ setloc p3 n (f.getD file1) t.line with
          dirs := (setloc p3 n (f.getD file1) t.line).dirs ++ [(t.off + 1, n, f)] } : PS) =
          dirsOf p0 ++ [d] := by
        show (p3.dirs ++ [(t.off + 1, n, f)]).map toDir = _
        rw [List.map_append, hr3.dirs]; rfl
      refine ⟨⟨?_, ?_, ?_, ?_⟩, ?_, ?_⟩
      · rw [hDnew, shiftOf_append]
        show Inv text _ ({ p3.s with loc := ⟨n + (p3.s.loc.line - t.line), p3.s.loc.col⟩ } : S)
        refine hinv3.reloc _ rfl ?_
        have e1 : (physAt text (t.off + 1)).line = 1 + newlines text 0 (t.off + 1) := physAt_line _ _
        show ((n + (p3.s.loc.line - t.line) : Nat) : Int) = _
        simp only [d]
        omega
      · rw [hDnew, curFile_append]
        show f.getD file1 = _
        rw [hfile1]
      · intro d' hd'
        rw [hDnew] at hd'
        show d'.endOff ≤ off p3.s
        rcases List.mem_append.mp hd' with hm | hm
        · have := hr3.inv.bound d' (by rw [hD3]; exact hm); exact this
        · simp only [List.mem_singleton] at hm
          subst hm
          show t.off + 1 ≤ off p3.s
          omega
      · rw [hDnew]
        refine List.pairwise_append.mpr ⟨?_, by simp, ?_⟩
        · have := hr3.inv.sorted; rw [hD3] at this; exact this
        · intro a ha b hb
          simp only [List.mem_singleton] at hb
          subst hb
          have := hb0 a ha
          have := hr3.ge
          show a.endOff < t.off + 1
          omega
      · refine ⟨[(t.off + 1, n, f)], ?_, ?_⟩
        · show p3.dirs ++ _ = _
          rw [hr3.dirs]
        · intro d' hd'
          simp only [List.mem_singleton] at hd'
          subst hd'
          have := hr3.ge
          show off p0.s < t.off + 1
          omega
      · show off p0.s ≤ off p3.s
        exact hr3.mono

theorem lineDir_ok {p0 : PS} (hb0 : ∀ d ∈ dirsOf p0, d.endOff ≤ off p0.s)
    (num t0 : PTok) (p : PS) (h : Reach file0 text p0 t0 p) :
    Res file0 text p0 (DirDone file0 text p0) (lineDir num p) := by
  unfold lineDir
  simp only []
  have hs1 := scanP_ok h.inv
  cases hsp1 : scanP p with
  | error e => rw [hsp1] at hs1; exact ErrGood.of_reach hs1 h
  | ok r1 =>
    obtain ⟨t1, p1⟩ := r1
    rw [hsp1] at hs1
    have hr1 : Reach file0 text p0 t1 p1 := h.trans hs1
    have hf1 : t1.file = curFile file0 (dirsOf p0) := hr1.tok.file
    simp only []
    split
    · have hs2 := scanP_ok hr1.inv
      cases hsp2 : scanP p1 with
      | error e => rw [hsp2] at hs2; exact ErrGood.of_reach hs2 hr1
      | ok r2 =>
        obtain ⟨t2, p2⟩ := r2
        rw [hsp2] at hs2
        exact lineDirEnd_ok hb0 _ _ _ hf1 t2 p2 (hr1.trans hs2)
    · exact lineDirEnd_ok hb0 _ _ _ hf1 t1 p1 hr1

theorem pragmaLoop_ok {p0 : PS} : ∀ (n : Nat) (t : PTok) (p : PS), Reach file0 text p0 t p →
    Res file0 text p0 (fun r : PTok × PS => Reach file0 text p0 r.1 r.2) (pragmaLoop n t p) := by
  intro n
  induction n with
  | zero => intro t p h; exact errTok_good h _
  | succ n ih =>
    intro t p h
    unfold pragmaLoop
    split
    · exact h
    · have hs := scanP_ok h.inv
      cases hsp : scanP p with
      | error e => rw [hsp] at hs; exact ErrGood.of_reach hs h
      | ok r =>
        obtain ⟨t', p'⟩ := r
        rw [hsp] at hs
        have hr : Reach file0 text p0 t' p' := h.trans hs
        simp only []
        split
        · exact errTok_good hr _
        · exact ih t' _ ⟨hr.tok, hr.ge, ⟨hr.inv.inv, hr.inv.file, hr.inv.bound, hr.inv.sorted⟩, hr.dirs, hr.file,
            hr.lt, hr.eq⟩

/-- **`directive()`**: either a diagnostic at a correctly located token, or a correct state in
which at most one more line directive is in force -/
theorem directive_ok {p : PS} (h : PInv file0 text p) :
    Res file0 text p (DirDone file0 text p) (directive p) := by
  unfold directive
  have hs := scanP_ok h
  cases hsp : scanP p with
  | error e => rw [hsp] at hs; exact hs
  | ok r =>
    obtain ⟨t, p1⟩ := r
    rw [hsp] at hs
    have hr : Reach file0 text p t p1 := hs
    have hdone : DirDone file0 text p p1 :=
      ⟨hr.inv, by rw [hr.dirs]; exact Ext.refl _ _, hr.mono⟩
    simp only []
    split
    · exact hdone
    · split
      · exact lineDir_ok h.bound t t p1 hr
      · split
        · exact errTok_good hr _
        · split
          · exact errTok_good hr _
          · split
            · exact errTok_good hr _
            · split
              · have hs2 := scanP_ok hr.inv
                cases hsp2 : scanP p1 with
                | error e => rw [hsp2] at hs2; exact ErrGood.of_reach hs2 hr
                | ok r2 =>
                  obtain ⟨t2, p2⟩ := r2
                  rw [hsp2] at hs2
                  have hr2 : Reach file0 text p t2 p2 := hr.trans hs2
                  simp only []
                  split
                  · exact errTok_good hr2 _
                  · exact lineDir_ok h.bound t2 t2 p2 hr2
              · split
                · have hpl := pragmaLoop_ok (p1.s.inp.length + 2) t p1 hr
                  cases hplp : pragmaLoop (p1.s.inp.length + 2) t p1 with
                  | error e => rw [hplp] at hpl; exact hpl
                  | ok r2 =>
                    obtain ⟨t2, p2⟩ := r2
                    rw [hplp] at hpl
                    have hr2 : Reach file0 text p t2 p2 := hpl
                    simp only []
                    split
                    · exact errTok_good hr2 _
                    · exact ⟨hr2.inv, by rw [hr2.dirs]; exact Ext.refl _ _, hr2.mono⟩
                · exact errTok_good hr _

/-! ## `nextinto`, `next` -/

/-- a token has been delivered from state `p` -/
structure NextOK (file0 : List UInt8) (text : List UInt8) (p : PS) (t : PTok) (p' : PS) : Prop where
  tok : Scanned file0 text (dirsOf p') t
  inv : PInv file0 text p'
  ext : Ext p.dirs (off p.s) p'.dirs
  ge : off p.s ≤ t.off
  lt : t.kind ≠ .TEOF → t.off < off p'.s
  eq : t.kind = .TEOF → t.off = off p'.s

theorem NextOK.mono {p p' : PS} {t : PTok} (h : NextOK file0 text p t p') : off p.s ≤ off p'.s := by
  by_cases hk : t.kind = .TEOF
  · have := h.eq hk; have := h.ge; omega
  · have := h.lt hk; have := h.ge; omega

theorem NextOK.chain {p0 p p' : PS} {t : PTok} (h : NextOK file0 text p t p')
    (hx : Ext p0.dirs (off p0.s) p.dirs) (hle : off p0.s ≤ off p.s) : NextOK file0 text p0 t p' :=
  ⟨h.tok, h.inv, hx.trans h.ext hle, Nat.le_trans hle h.ge, h.lt, h.eq⟩

theorem nextinto_ok : ∀ (n : Nat) (p : PS), PInv file0 text p →
    Res file0 text p (fun r : PTok × PS => NextOK file0 text p r.1 r.2) (nextinto n p) := by
  intro n
  induction n with
  | zero => intro p h; exact ⟨Ext.refl _ _, h.sorted, (fun t ht => by cases ht), fun _ k hk => by cases hk⟩
  | succ n ih =>
    intro p h
    unfold nextinto
    have hs := scanP_ok h
    cases hsp : scanP p with
    | error e => rw [hsp] at hs; exact hs
    | ok r =>
      obtain ⟨t, p1⟩ := r
      rw [hsp] at hs
      have hr : Reach file0 text p t p1 := hs
      simp only []
      split
      · have hd := directive_ok hr.inv
        cases hdp : directive p1 with
        | error e => rw [hdp] at hd; exact ErrGood.of_reach hd hr
        | ok p2 =>
          rw [hdp] at hd
          have hd2 : DirDone file0 text p1 p2 := hd
          have hx : Ext p.dirs (off p.s) p2.dirs := by
            have := hd2.ext
            rw [hr.dirs] at this
            obtain ⟨new, e1, b1⟩ := this
            exact ⟨new, e1, fun d hd => by have := b1 d hd; have := hr.mono; omega⟩
          have hle : off p.s ≤ off p2.s := Nat.le_trans hr.mono hd2.mono
          simp only []
          have := ih p2 hd2.inv
          cases hn : nextinto n p2 with
          | error e => rw [hn] at this; exact ErrGood.chain this hx hle
          | ok r2 =>
            rw [hn] at this
            exact NextOK.chain this hx hle
      · exact ⟨by rw [show dirsOf ({ p1 with newline := decide (t.kind = .TNEWLINE) } : PS) = dirsOf p from hr.dirsOf]; exact hr.tok,
          ⟨hr.inv.inv, hr.inv.file, hr.inv.bound, hr.inv.sorted⟩, by show Ext p.dirs _ p1.dirs; rw [hr.dirs]; exact Ext.refl _ _,
          hr.ge, hr.lt, hr.eq⟩

theorem keyword_plain (lit : List UInt8) (k : Kind) (h : keyword lit = some k) : Plain k := by
  have hm := (bsearch_mem Gen.Keywords.table keywords_sorted lit k).mp h
  have hall : ∀ e ∈ Gen.Keywords.table, Plain e.2 := by decide +kernel
  exact hall _ hm

theorem Scanned.toKeyword {D : List LineDir} {t : PTok} (h : Scanned file0 text D t) :
    Scanned file0 text D t.toKeyword := by
  unfold PTok.toKeyword
  split
  · rename_i hk
    split
    · rename_i k hkw
      have hp : Plain k := by
        cases hl : t.lit with
        | none => rw [hl] at hkw; cases hkw
        | some l => rw [hl] at hkw; exact keyword_plain l k hkw
      refine ⟨h.loc, h.file, h.le, ?_, ?_, h.bound⟩
      · show k = .TEOF ↔ _
        constructor
        · intro e; exact absurd e hp.1
        · intro e; have := h.eof.mpr e; rw [hk] at this; cases this
      · show k = .TNEWLINE ↔ _
        constructor
        · intro e; exact absurd e hp.2
        · intro e; have := h.nl.mpr e; rw [hk] at this; cases this
    · exact h
  · exact h

theorem toKeyword_kind_eof (t : PTok) : t.toKeyword.kind = .TEOF ↔ t.kind = .TEOF := by
  unfold PTok.toKeyword
  split
  · rename_i hk
    split
    · rename_i k hkw
      have hp : Plain k := by
        cases hl : t.lit with
        | none => rw [hl] at hkw; cases hkw
        | some l => rw [hl] at hkw; exact keyword_plain l k hkw
      constructor
      · intro e; exact absurd e hp.1
      · intro e; rw [hk] at e; cases e
    · rfl
  · rfl

theorem toKeyword_off (t : PTok) : t.toKeyword.off = t.off := by
  unfold PTok.toKeyword
  split
  · split <;> rfl
  · rfl

theorem next_ok (nl : Bool) : ∀ (n : Nat) (p : PS), PInv file0 text p →
    Res file0 text p (fun r : PTok × PS => NextOK file0 text p r.1 r.2) (next nl n p) := by
  intro n
  induction n with
  | zero => intro p h; exact ⟨Ext.refl _ _, h.sorted, (fun t ht => by cases ht), fun _ k hk => by cases hk⟩
  | succ n ih =>
    intro p h
    unfold next
    have hn := nextinto_ok (p.s.inp.length + 2) p h
    cases hnp : nextinto (p.s.inp.length + 2) p with
    | error e => rw [hnp] at hn; exact hn
    | ok r =>
      obtain ⟨t, p1⟩ := r
      rw [hnp] at hn
      have hr : NextOK file0 text p t p1 := hn
      simp only []
      split
      · have := ih p1 hr.inv
        cases hn2 : next nl n p1 with
        | error e => rw [hn2] at this; exact ErrGood.chain this hr.ext hr.mono
        | ok r2 => rw [hn2] at this; exact NextOK.chain this hr.ext hr.mono
      · refine ⟨hr.tok.toKeyword, hr.inv, hr.ext, by rw [toKeyword_off]; exact hr.ge, ?_, ?_⟩
        · intro hk; rw [toKeyword_off]; exact hr.lt (fun e => hk ((toKeyword_kind_eof t).mpr e))
        · intro hk; rw [toKeyword_off]; exact hr.eq ((toKeyword_kind_eof t).mp hk)

/-! ## The run -/

/-- what the spec says about a token, given the directives `D` -/
def SpecOK (file0 : List UInt8) (text : List UInt8) (D : List LineDir) (t : PTok) : Prop :=
  t.file = presumedFile file0 D t.off ∧
  (t.kind ≠ .TNEWLINE → t.line = presumedLine text D t.off ∧ t.col = column text t.off) ∧
  (t.kind = .TNEWLINE → t.line = presumedLine text D t.off + 1 ∧ t.col = 0)

theorem Scanned.specOK {D : List LineDir} {t : PTok} (h : Scanned file0 text D t) :
    SpecOK file0 text D t := by
  have hf : t.file = presumedFile file0 D t.off := by
    rw [h.file]; unfold presumedFile curFile; rw [inEffect_all h.bound]
  exact ⟨hf, fun hk => ⟨(h.spec hk).1, (h.spec hk).2.2⟩, fun hk => h.newline hk⟩

theorem SpecOK.stable {D : List LineDir} {t : PTok} (h : SpecOK file0 text D t)
    (new : List LineDir) (hn : ∀ d ∈ new, t.off < d.endOff) : SpecOK file0 text (D ++ new) t := by
  obtain ⟨e1, e2⟩ := presumed_stable (text := text) file0 D new t.off hn
  unfold SpecOK
  rw [e1, e2]
  exact h

theorem SpecOK.ext {D D' : List (Nat × Nat × Option (List UInt8))} {o : Nat} {t : PTok}
    (h : SpecOK file0 text (D.map toDir) t) (hx : Ext D o D') (hlt : t.off ≤ o) :
    SpecOK file0 text (D'.map toDir) t := by
  obtain ⟨new, e, b⟩ := hx
  rw [e, List.map_append]
  refine h.stable _ ?_
  intro d hd
  obtain ⟨x, hx, rfl⟩ := List.mem_map.mp hd
  have := b x hx
  show t.off < x.1
  omega

/-- **every delivered token and the token of the diagnostic carry the presumed location of their
first byte**, the offsets of the delivered tokens increase strictly, and the directives in force
at the end extend those in force at the start -/
theorem runLoop_ok (nl : Bool) : ∀ (n : Nat) (p : PS), PInv file0 text p →
    Ext p.dirs (off p.s) (runLoop nl n p).dirs ∧
    ((runLoop nl n p).dirs.map toDir).Pairwise (fun a b => a.endOff < b.endOff) ∧
    (∀ t ∈ (runLoop nl n p).toks, off p.s ≤ t.off ∧
      SpecOK file0 text ((runLoop nl n p).dirs.map toDir) t) ∧
    (runLoop nl n p).toks.Pairwise (fun a b => a.off < b.off) ∧
    (∀ e, (runLoop nl n p).err = some e → ∀ t, e.tok = some t →
      SpecOK file0 text ((runLoop nl n p).dirs.map toDir) t ∧
      e.file = t.file ∧ e.line = t.line ∧ e.col = t.col ∧ off p.s ≤ t.off ∧
      ∀ t' ∈ (runLoop nl n p).toks, t'.off < t.off) ∧
    (∀ e, (runLoop nl n p).err = some e → e.tok = none → ∀ k, e.kind = .scan k →
      ∃ o, off p.s ≤ o ∧ o ≤ text.length ∧
        e.file = curFile file0 ((runLoop nl n p).dirs.map toDir) ∧
        (e.line : Int) = (locAt text o).line + shiftOf text ((runLoop nl n p).dirs.map toDir) ∧
        (∀ d ∈ (runLoop nl n p).dirs.map toDir, d.endOff ≤ o) ∧
        ∀ t' ∈ (runLoop nl n p).toks, t'.off < o) := by
  intro n
  induction n with
  | zero =>
    intro p h
    refine ⟨Ext.refl _ _, h.sorted, by simp [runLoop], by simp [runLoop], ?_, ?_⟩
    · intro e he t ht
      simp only [runLoop, Option.some.injEq] at he
      subst he
      cases ht
    · intro e he _ k hk
      simp only [runLoop, Option.some.injEq] at he
      subst he
      cases hk
  | succ n ih =>
    intro p h
    have hn := next_ok (file0 := file0) (text := text) nl (p.s.inp.length + 2) p h
    unfold runLoop
    cases hnp : next nl (p.s.inp.length + 2) p with
    | error e =>
      rw [hnp] at hn
      obtain ⟨hx, hsrt, ht, hsd⟩ := (hn : ErrGood file0 text p e)
      refine ⟨hx, hsrt, by simp, by simp, ?_, ?_⟩
      · intro e' he' t htk
        simp only [Option.some.injEq] at he'
        subst he'
        obtain ⟨a, b, c⟩ := ht t htk
        exact ⟨a.specOK, c.1, c.2.1, c.2.2, b, by simp⟩
      · intro e' he' hnone k hk
        simp only [Option.some.injEq] at he'
        subst he'
        obtain ⟨o, a, b, c, d, f⟩ := hsd hnone k hk
        exact ⟨o, a, b, c, d, f, by simp⟩
    | ok r =>
      obtain ⟨t, p1⟩ := r
      rw [hnp] at hn
      have hr : NextOK file0 text p t p1 := hn
      simp only []
      split
      · refine ⟨hr.ext, hr.inv.sorted, ?_, by simp, by simp, by simp⟩
        intro t' ht'
        simp only [List.mem_singleton] at ht'
        subst ht'
        exact ⟨hr.ge, hr.tok.specOK⟩
      · rename_i hk
        have hlt := hr.lt hk
        obtain ⟨i1, i0, i2, i3, i4, i5⟩ := ih p1 hr.inv
        simp only []
        refine ⟨hr.ext.trans i1 hr.mono, i0, ?_, ?_, ?_, ?_⟩
        · intro t' ht'
          rcases List.mem_cons.mp ht' with e | e
          · subst e
            exact ⟨hr.ge, SpecOK.ext hr.tok.specOK i1 (Nat.le_of_lt hlt)⟩
          · obtain ⟨b1, b2⟩ := i2 t' e
            exact ⟨Nat.le_trans hr.mono b1, b2⟩
        · refine List.pairwise_cons.mpr ⟨?_, i3⟩
          intro t' ht'
          have := (i2 t' ht').1
          omega
        · intro e he t2 ht2
          obtain ⟨c1, c2, c3, c4, c5, c6⟩ := i4 e he t2 ht2
          refine ⟨c1, c2, c3, c4, Nat.le_trans hr.mono c5, ?_⟩
          intro t' ht'
          rcases List.mem_cons.mp ht' with e' | e'
          · subst e'
            omega
          · exact c6 t' e'
        · intro e he hnone k hk
          obtain ⟨o, c1, c2, c3, c4, c5, c6⟩ := i5 e he hnone k hk
          refine ⟨o, Nat.le_trans hr.mono c1, c2, c3, c4, c5, ?_⟩
          intro t' ht'
          rcases List.mem_cons.mp ht' with e' | e'
          · subst e'
            omega
          · exact c6 t' e'

theorem init_pinv (file0 text : List UInt8) : PInv file0 text (PS.init file0 text) :=
  ⟨by
    show Inv text (shiftOf text []) (S.init text)
    exact (init_inv text).1, rfl, by simp [dirsOf, PS.init], by simp [dirsOf, PS.init]⟩

end CprocVerif.PPLine

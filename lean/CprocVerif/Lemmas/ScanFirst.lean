import CprocVerif.Lemmas.ScanPunct
import CprocVerif.Lemmas.ScanLit
import CprocVerif.Lemmas.ScanRel

/-! From `scankind` to `scan`, and the scanner started on a bare phase-2 text. -/

deriving instance DecidableEq for Except

namespace CprocVerif.Scan
open CprocVerif.Gen.TokenKinds
open CprocVerif.Spec.Lex

/-- a scanner positioned at the start of the phase-2 text `cs` (no backslash-newline pairs
left), between two tokens; location and byte offset are arbitrary -/
def ofStream (cs : List UInt8) : S :=
  { inp := cs.map fun c => (0, c), trail := 0, loc := ⟨1, 1⟩, skipped := 0, pos := 1,
    buf := [], usebuf := false, sawspace := false }

@[simp] theorem stream_ofStream (cs : List UInt8) : (ofStream cs).stream = cs := by
  simp only [ofStream, S.stream, List.map_map]
  induction cs with
  | nil => rfl
  | cons a t ih => simp_all

theorem ready_ofStream (cs : List UInt8) : Ready (ofStream cs) := ⟨rfl, rfl⟩

/-- the first token delivered for the phase-2 text `cs`, without location, and the text that
remains -/
def first (cs : List UInt8) : Except ErrKind (Tok × List UInt8) :=
  match scan (ofStream cs) with
  | .error e => .error e.kind
  | .ok (t, s) => .ok (t.erase, s.stream)

/-- `scan` wraps `scankind`: the token takes the buffer as its `lit` when one was built -/
theorem scan_of_scankind (s : S) (k : Kind) (l : Loc) (p : Nat) (s' : S)
    (h : scankind (s.inp.length + 2) { s with sawspace := false } = .ok (k, l, p, s')) :
    scan s = .ok (⟨k, if s'.usebuf then some s'.buf else none, l, s'.sawspace,
                   if k = .TEOF then p else p - 1⟩,
                  if s'.usebuf then { s' with buf := [], usebuf := false } else s') := by
  unfold scan
  rw [h]
  simp only []
  split <;> simp_all

theorem first_of_scankind (cs : List UInt8) (k : Kind) (l : Loc) (p : Nat) (s' : S)
    (h : scankind (cs.length + 2) (ofStream cs) = .ok (k, l, p, s')) :
    first cs = .ok (⟨k, if s'.usebuf then some s'.buf else none, s'.sawspace⟩, s'.stream) := by
  have e : ({ ofStream cs with sawspace := false } : S) = ofStream cs := rfl
  have hl : (ofStream cs).inp.length = cs.length := by simp [ofStream]
  have := scan_of_scankind (ofStream cs) k l p s' (by rw [e, hl]; exact h)
  unfold first
  rw [this]
  simp only [Token.erase]
  split <;> simp_all [S.stream]

theorem first_of_scankind_error (cs : List UInt8) (e : Err)
    (h : scankind (cs.length + 2) (ofStream cs) = .error e) : first cs = .error e.kind := by
  have e' : ({ ofStream cs with sawspace := false } : S) = ofStream cs := rfl
  have hl : (ofStream cs).inp.length = cs.length := by simp [ofStream]
  unfold first scan
  rw [e', hl, h]

end CprocVerif.Scan

/-
  C01, fragment 𝔽₂ and stage D — the run of a call of an emitted function from the initial state of a program:
  `enterFunc` on the canonical argument representations, the activation (`Lemmas/Lower2Func.lean` with the
  simulation of all statements, `Lemmas/Lower2Stmt.lean`), `ret` ends the run.
-/
import CprocVerif.Lemmas.Lower2Stmt

set_option linter.unusedSimpArgs false

namespace CprocVerif.LowerMach2
open CprocVerif.Qbe CprocVerif.Lower CprocVerif.Lower2 CprocVerif.CSem CprocVerif.CSem2 CprocVerif.CInt
open CprocVerif.LowerArith CprocVerif.LowerMach CprocVerif.LowerMem

/-- The call `f(ρ)` from the initial state of an IL program `p` that contains the emitted functions of the
    C program `P` (`P = []`: a single function, `f` itself) and has room for `d` nested activations. -/
theorem run_entry (cs : Bool) (sid : Nat) (f : CSem2.Func) (ρ : List Int) (v : Int)
    (hwt : CSem2.WT f) (hpw : f.pwin = []) (henv : EnvOK cs f.params ρ)
    (P : List CSem2.Func) (p : Prog) (ext : Qbe.Ext) (K d : Nat)
    (hfuncs : ∀ fn g', lookup P fn = some g' →
      ∃ sid', p.funcs[fn]? = some (FuncInfo.of (Lower2.emitFunc cs sid' g')))
    (hP : ∀ fn g', lookup P fn = some g' →
      CSem2.WT g' ∧ callsOK P g'.body = true ∧ g'.vtys.length + g'.extra ≤ K)
    (hfrag : frag P f.cnts (funcW f) f.body = true) (hK : f.vtys.length + f.extra ≤ K)
    (hfun : p.funcs[f.name]? = some (FuncInfo.of (Lower2.emitFunc cs sid f)))
    (hstack : p.initMem.stack = #[]) (hsp : p.initMem.sp = stackTop)
    (hroom : Room K (d + 1) p.initMem)
    (fuelC : Nat) (hfuel : P = [] ∨ fuelC ≤ d)
    (hex : exec cs P fuelC (initStore f ρ) f.body = some (.ret v)) :
    ∃ fuel₀ r, RetRep f.ret v r ∧
      ∀ fuel, fuel₀ ≤ fuel →
        runFunc p ext f.name (argsOf f.params ρ) fuel = ⟨#[], .ret (.scalar r)⟩ := by
  have hlen := henv.1
  -- entering the function
  let x : Fix := ⟨FuncInfo.of (Lower2.emitFunc cs sid f), p.initMem.stack.size, p.initMem.sp, [], #[]⟩
  let env0 : Env := bindParams {} (paramSig f.params 0)
    (List.zipWith (fun t v => (argOf t v).2) f.params ρ)
  let M0' : Mem := { p.initMem with sp := p.initMem.sp - frameCost }
  have henter : initState p f.name (argsOf f.params ρ) = .ok (mkSt x env0 M0' 0 0) := by
    have hnp : (Lower2.emitFunc cs sid f).params.length = f.params.length := paramSig_length _ _
    have hal := argsOf_length f.params ρ hlen
    have hvar : (Lower2.emitFunc cs sid f).variadic = false := rfl
    have hsp' : ¬ p.initMem.sp < stackLimit + redZone + frameCost := by
      rw [hsp, stackTop_val, stackLimit_val]; decide
    have hprep := prepArgs_ok p ⟨p.initMem.globals, p.initMem.stack, p.initMem.sp - frameCost⟩
      f.params 0 ρ hlen
    have hzl : (List.zipWith (fun t v => (argOf t v).2) f.params ρ).length = f.params.length := by
      simp [hlen]
    simp only [initState, hfun, enterFunc, FuncInfo.of, hvar, hnp, hal, hsp', Nat.lt_irrefl,
      Bool.false_eq_true, if_false, bne_self_eq_false, Bool.and_false, markerBad, List.drop_length,
      vaArea, Bool.not_false, Bool.true_and]
    have hparams : (Lower2.emitFunc cs sid f).params = paramSig f.params 0 := rfl
    have hdrop : List.drop f.params.length (argsOf f.params ρ) = [] := by
      rw [← hal]; exact List.drop_length
    simp only [hdrop, vaArea, hparams, hprep, hzl, bne_self_eq_false, Bool.false_eq_true, if_false]
    rfl
  have hargs : ∀ (k : Nat) (t : CSem.Ty) (v' : Int), f.params[k]? = some t → ρ[k]? = some v' →
      ∃ r, env0[tmpName (2 * k + 1)]? = some r ∧ StoreVal t v' r := by
    intro k t v' ht hv'
    have := (bindParams_spec f.params 0 (List.zipWith (fun t v => (argOf t v).2) f.params ρ) {}
      (by simp [hlen])).1 k (argOf t v').2 (by
        rw [List.getElem?_zipWith, ht, hv'])
    exact ⟨(argOf t v').2, by simpa using this, arg_store t v'⟩
  have hmem : MemInv p.initMem := by
    refine ⟨?_, ?_, ?_, ?_⟩
    · intro i j hi; simp [hstack] at hi
    · intro i hi; simp [hstack] at hi
    · rw [hsp, stackTop_val, stackLimit_val]; decide
    · simp [hstack]
  obtain ⟨n, st, r, hreach, hstep, hrr, _⟩ := sim_func cs sid f ρ [] v hwt henv P p ext K d p.initMem hfuncs hP
    hfrag hK hmem hroom (by rw [hsp]; exact Nat.le_refl _) [] #[] env0 (fun k t v' _ => hargs k t v')
    (by intro j t w h; rw [hpw] at h; simp at h) fuelC
    (fun T hTP hTd => sim_stmt T fuelC (hfuel.elim (fun h => Or.inl (hTP.trans h)) (fun h => Or.inr (by omega))))
    hex
  refine ⟨n + 1, r, hrr, ?_⟩
  intro fuel hfuel'
  obtain ⟨m, rfl⟩ : ∃ m, fuel = n + (m + 1) := ⟨fuel - (n + 1), by omega⟩
  unfold runFunc
  rw [henter]
  exact run_done hreach hstep m

/-- a single function: `lower2_correct` of `Props/C01.lean` -/
theorem lower2_correct_prog (cs : Bool) (startid : Nat) (f : CSem2.Func) (ρ : List Int) (v : Int)
    (hwt : CSem2.WT f) (hpw : f.pwin = []) (henv : EnvOK cs f.params ρ)
    (hsmall : f.params.length + f.locals.length ≤ 1000000)
    (fuelC : Nat) (hex : exec cs [] fuelC (initStore f ρ) f.body = some (.ret v))
    (p : Prog) (ext : Qbe.Ext)
    (hfun : p.funcs[f.name]? = some (FuncInfo.of (Lower2.emitFunc cs startid f)))
    (hstack : p.initMem.stack = #[]) (hsp : p.initMem.sp = stackTop) :
    ∃ fuel₀ r, RetRep f.ret v r ∧
      ∀ fuel, fuel₀ ≤ fuel →
        runFunc p ext f.name (argsOf f.params ρ) fuel = ⟨#[], .ret (.scalar r)⟩ := by
  have hvl : f.vtys.length = f.params.length + f.locals.length := by simp [CSem2.Func.vtys]
  have hextra : f.extra ≤ 1000000 := by
    have h := hwt
    simp only [CSem2.WT, CSem2.Func.wt, Bool.and_eq_true, decide_eq_true_eq] at h
    exact h.1.1.1.1.1.2
  refine run_entry cs startid f ρ v hwt hpw henv [] p ext (f.vtys.length + f.extra) 0
    (by intro fn g h; simp [lookup] at h) (by intro fn g h; simp [lookup] at h)
    (frag_nil _ _ (wt_arrsOK hwt) (wt_ptrsOK hwt)) (Nat.le_refl _)
    hfun hstack hsp ?_ fuelC (Or.inl rfl) hex
  constructor
  · rw [hsp, stackTop_val, stackLimit_val]; omega
  · rw [hstack]; simp; omega

end CprocVerif.LowerMach2

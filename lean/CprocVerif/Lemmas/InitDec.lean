import CprocVerif.Lemmas.InitEmit1

/-!
# The executable hypothesis checks of `Spec/Image.lean` imply the `Prop` hypotheses
-/

namespace CprocVerif.Image
open CprocVerif.Init

theorem disj_of_disjB {a b : Init} (h : disjB a b = true) : Disj a b := by
  unfold disjB at h; unfold Disj; simpa using h

theorem inside_of_insideB {a b : Init} (h : insideB a b = true) : Inside a b := by
  unfold insideB at h; unfold Inside; simpa using h

theorem patchOK_of_patchOKB {a b : Init} (h : patchOKB a b = true) : PatchOK a b := by
  unfold patchOKB at h
  split at h
  · rename_i w cs w' u ha hb
    simp only [Bool.and_eq_true, Bool.or_eq_true, beq_iff_eq, decide_eq_true_eq] at h
    obtain ⟨⟨⟨⟨⟨⟨⟨⟨h1, h2⟩, h3⟩, h4⟩, h5⟩, h6⟩, h7⟩, h8⟩, h9⟩ := h
    refine ⟨w, by rw [ha]; rfl, ?_, ⟨w', u, hb⟩, h2, h3, h4, h5, h6, h7, h8, h9⟩
    rcases h1 with (h1 | h1) | h1 <;> simp [h1]
  · simp at h

theorem lam_of_lamB {a b : Init} (h : lamB a b = true) : Lam a b := by
  unfold lamB at h
  simp only [Bool.or_eq_true, Bool.and_eq_true] at h
  rcases h with (h | h) | h
  · exact .inl (disj_of_disjB h)
  · exact .inr (.inl (inside_of_insideB h))
  · exact .inr (.inr ⟨inside_of_insideB h.1, patchOK_of_patchOKB h.2⟩)

theorem laminar_of_laminarB {l : List Init} (h : laminarB l = true) : Laminar l := by
  induction l with
  | nil => exact List.Pairwise.nil
  | cons a l ih =>
    simp only [laminarB, Bool.and_eq_true, List.all_eq_true] at h
    exact List.Pairwise.cons (fun b hb => lam_of_lamB (h.1 b hb)) (ih h.2)

theorem wf_of_wfB {size : Nat} {i : Init} (h : wfB size i = true) : Wf size i := by
  unfold wfB at h
  simp only [Bool.and_eq_true, decide_eq_true_eq] at h
  obtain ⟨⟨h1, h2⟩, h3⟩ := h
  refine ⟨h1, h2, ?_⟩
  cases hv : i.val with
  | int w u =>
    rw [hv] at h3
    simp only [] at h3 ⊢
    split at h3
    · rename_i hz
      simp only [Bool.and_eq_true, beq_iff_eq] at hz
      simp only [beq_iff_eq] at h3
      exact ⟨fun _ => h3, fun h => by omega⟩
    · rename_i hz
      simp only [Bool.and_eq_true, beq_iff_eq, not_and] at hz
      simp only [decide_eq_true_eq] at h3
      exact ⟨fun h => absurd h.2 (hz h.1), fun _ => h3⟩
  | flt w b => rw [hv] at h3; simpa [and_assoc] using h3
  | addr s o => rw [hv] at h3; simpa [and_assoc] using h3
  | str w cs =>
    rw [hv] at h3
    simp only [Bool.and_eq_true, Bool.or_eq_true, beq_iff_eq] at h3
    obtain ⟨⟨⟨h4, h5⟩, h6⟩, h7⟩ := h3
    refine ⟨h4, h5, ?_, h7⟩
    rcases h6 with (h6 | h6) | h6 <;> simp [h6]
  | other => rw [hv] at h3; simp at h3

theorem evsOK_of_evsOKB {size : Nat} {evs : List Ev} : ∀ {prev : List Init}, evsOKB size prev evs = true →
    EvsOK prev evs ∧ ∀ i ∈ adds evs, Wf size i := by
  induction evs with
  | nil => intro _ _; exact ⟨trivial, fun _ h => by simp [adds] at h⟩
  | cons e es ih =>
    intro prev h
    cases e with
    | add i =>
      simp only [evsOKB, Bool.and_eq_true, List.all_eq_true] at h
      obtain ⟨⟨h1, h2⟩, h3⟩ := h
      have hw := wf_of_wfB h2
      obtain ⟨r1, r2⟩ := ih h3
      refine ⟨⟨fun o ho => lam_of_lamB (h1 o ho), hw.nonEmpty, hw.byteVal, r1⟩, ?_⟩
      intro x hx
      simp only [adds, List.mem_cons] at hx
      rcases hx with rfl | hx
      · exact hw
      · exact r2 x hx
    | clear a b =>
      simp only [evsOKB, Bool.and_eq_true, List.all_eq_true] at h
      obtain ⟨h1, h2⟩ := h
      obtain ⟨r1, r2⟩ := ih h2
      refine ⟨⟨?_, r1⟩, fun x hx => r2 x (by simpa [adds] using hx)⟩
      intro o ho
      have := h1 o ho
      unfold clearRelB at this
      simp only [Bool.or_eq_true, decide_eq_true_eq] at this
      unfold ClearRel
      rcases this with (h | h) | h
      · exact .inl h
      · exact .inr (.inl h)
      · exact .inr (.inr h)

end CprocVerif.Image

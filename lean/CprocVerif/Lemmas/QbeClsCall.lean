/-
  C03, classes — phis, function entry (arguments → parameters), returns and call results.
  Two kinds of lemmas: `…_safe` (under the statically checked agreement no class error is raised)
  and `…_typed` (whenever the step succeeds — also through an unchecked indirect call — what it
  binds has the class of the bound temporary, because the machine coerces at these points).
-/
import CprocVerif.Lemmas.QbeClsEnv

namespace CprocVerif.C03.Cls
open CprocVerif.Qbe

/-! ## Phis -/

theorem evalPhis_typed {p : Prog} {tc : ClsMap} {env : Env} (h : EnvTyped tc env)
    {blk pred : String} {phis : List Phi}
    (hph : ∀ ph ∈ phis, ∀ s ∈ ph.srcs, argOk tc ph.k s.2 = true) :
    match evalPhis p env blk pred phis with
    | .ok bs => ∀ b ∈ bs, ∃ ph ∈ phis, b.1 = ph.res ∧ b.2.kind = ph.k.kind
    | .error e => ¬ ClassStuck e := by
  induction phis with
  | nil => simp [evalPhis]
  | cons ph rest ih =>
    have ih' := ih (fun ph' hph' => hph ph' (by simp [hph']))
    simp only [evalPhis]
    cases hsrc : ph.srcs.find? (fun s => s.1 == pred) with
    | none => exact not_classStuck_stuck (by intro s hs; cases hs)
    | some src =>
      have hmem : src ∈ ph.srcs := List.mem_of_find?_eq_some hsrc
      dsimp only
      cases hv : readVal p env src.2 with
      | error r =>
        refine not_classStuck_stuck ?_
        intro s hs
        subst hs
        cases hs2 : src.2 <;> simp [hs2, readVal] at hv
        split at hv <;> cases hv
      | ok v =>
        have hk := readVal_kind h (hph ph (by simp) src hmem) hv
        have hc := safe_coerce hk
        dsimp only
        cases hv' : v.coerce ph.k with
        | error e =>
          rw [hv'] at hc
          exact not_classStuck_of_not_clsErr hc
        | ok v' =>
          rw [hv'] at hc
          dsimp only
          cases hrs : evalPhis p env blk pred rest with
          | error e =>
            rw [hrs] at ih'
            exact ih'
          | ok rs =>
            rw [hrs] at ih'
            intro b hb
            simp only [List.mem_cons] at hb
            rcases hb with rfl | hb
            · exact ⟨ph, by simp, rfl, hc⟩
            · obtain ⟨ph', hph', h1, h2⟩ := ih' b hb
              exact ⟨ph', by simp [hph'], h1, h2⟩

theorem bindAll_typed {tc : ClsMap} {env : Env} (h : EnvTyped tc env)
    {bs : List (String × RVal)}
    (hbs : ∀ b ∈ bs, ∀ c, tc[b.1]? = some c → b.2.kind = c.kind ∨ b.2.kind = Kind.u) :
    EnvTyped tc (bindAll env bs) := by
  induction bs generalizing env with
  | nil => exact h
  | cons b bs ih =>
    obtain ⟨x, v⟩ := b
    simp only [bindAll]
    exact ih (envTyped_insert h (hbs (x, v) (by simp))) (fun b hb => hbs b (by simp [hb]))

/-! ## Memory primitives raise no class errors -/

theorem safe_readBytes (m : Mem) (a n : Nat) : Safe (fun _ => True) (m.readBytes a n) := by
  unfold Mem.readBytes
  repeat' split
  all_goals first | trivial | exact not_cls_oob _

/-! ## Function entry -/

theorem tyCompat_eq (a p : Ty) : tyCompat a p = tyAgree a p := by
  cases a <;> cases p <;> rfl

theorem tyAgree_cls {a p : Ty} (h : tyAgree a p = true) : a.cls = p.cls := by
  cases a <;> cases p <;> simp_all [tyAgree, Ty.cls]

theorem tyAgree_agg {a : Ty} {t : String} (h : tyAgree a (.agg t) = true) : a = .agg t := by
  cases a <;> simp_all [tyAgree]

theorem tyAgree_agg' {p : Ty} {t : String} (h : tyAgree (.agg t) p = true) : p = .agg t := by
  cases p <;> simp_all [tyAgree]

/-- One value per parameter, each of the parameter's class. -/
inductive ParamVals : List (Ty × String) → List RVal → Prop where
  | nil : ParamVals [] []
  | cons {q : Ty × String} {v : RVal} {ps : List (Ty × String)} {vs : List RVal} :
      v.kind = q.1.cls.kind → ParamVals ps vs → ParamVals (q :: ps) (v :: vs)

theorem ParamVals.length_eq {ps : List (Ty × String)} {vs : List RVal} (h : ParamVals ps vs) :
    vs.length = ps.length := by
  induction h with
  | nil => rfl
  | cons _ _ ih => simp [ih]

/-- Successful `prepArgs` yields one value per parameter, each of the parameter's class. -/
theorem prepArgs_typed {p : Prog} {ps : List (Ty × String)} {as : List (Ty × RVal)} {mem : Mem}
    {vals : List RVal} {mem' : Mem} (h : prepArgs p ps as mem = .ok (vals, mem')) :
    ParamVals ps vals := by
  induction ps generalizing as mem vals mem' with
  | nil =>
    simp only [prepArgs] at h
    cases h
    exact .nil
  | cons q ps ih =>
    obtain ⟨pt, x⟩ := q
    cases as with
    | nil => simp [prepArgs] at h
    | cons a as =>
      obtain ⟨at', v⟩ := a
      simp only [prepArgs] at h
      split at h
      · cases h
      · split at h
        · split at h
          · cases h
          · rename_i t ti hti
            obtain ⟨a1, _, h⟩ := bind_ok h
            obtain ⟨a2, _, h⟩ := bind_ok h
            obtain ⟨a3, _, h⟩ := bind_ok h
            obtain ⟨a4, h4, h⟩ := bind_ok h
            cases h
            exact .cons rfl (ih h4)
        · rename_i hna
          obtain ⟨v', hv', h⟩ := bind_ok h
          obtain ⟨a4, h4, h⟩ := bind_ok h
          cases h
          exact .cons (coerce_kind hv') (ih h4)

theorem prepArgs_safe {p : Prog} {ps : List (Ty × String)} {as : List (Ty × RVal)} {mem : Mem}
    (hlen : ps.length ≤ as.length) (htys : tysAgree (as.map (·.1)) (ps.map (·.1)) = true)
    (hk : ∀ a ∈ as, kindOk a.1.cls a.2.kind = true) :
    Safe (fun _ => True) (prepArgs p ps as mem) := by
  induction ps generalizing as mem with
  | nil => simp only [prepArgs]; trivial
  | cons q ps ih =>
    obtain ⟨pt, x⟩ := q
    cases as with
    | nil => simp at hlen
    | cons a as =>
      obtain ⟨at', v⟩ := a
      simp only [List.map_cons, tysAgree, Bool.and_eq_true] at htys
      have hv := hk (at', v) (by simp)
      have ih' : ∀ mem, Safe (fun _ => True) (prepArgs p ps as mem) := fun mem =>
        ih (by simpa using hlen) htys.2 (fun a ha => hk a (by simp [ha]))
      simp only [prepArgs, tyCompat_eq, htys.1, Bool.not_true, Bool.false_eq_true, if_false]
      split
      · rename_i t
        have hat := tyAgree_agg htys.1
        subst hat
        split
        · exact not_cls_unknownAgg _
        · refine Safe.bind (safe_asL hv) (fun _ _ => ?_)
          refine Safe.bind (safe_readBytes _ _ _) (fun _ _ => ?_)
          refine Safe.bind (safe_alloc _ _ _ _) (fun _ _ => ?_)
          refine Safe.bind (ih' _) (fun _ _ => ?_)
          trivial
      · have hc : at'.cls = pt.cls := tyAgree_cls htys.1
        rw [hc] at hv
        refine Safe.bind (safe_coerce hv) (fun _ _ => ?_)
        refine Safe.bind (ih' _) (fun _ _ => ?_)
        trivial

theorem vaArea_safe {p : Prog} {mem : Mem} {as : List (Ty × RVal)} {acc : ByteArray}
    (hk : ∀ a ∈ as, kindOk a.1.cls a.2.kind = true) :
    Safe (fun _ => True) (vaArea p mem as acc) := by
  induction as generalizing acc with
  | nil => simp only [vaArea]; trivial
  | cons a as ih =>
    obtain ⟨t, v⟩ := a
    have hv := hk (t, v) (by simp)
    have ih' : ∀ acc, Safe (fun _ => True) (vaArea p mem as acc) := fun acc =>
      ih (fun a ha => hk a (by simp [ha]))
    simp only [vaArea]
    split
    · split
      · exact not_cls_unknownAgg _
      · refine Safe.bind (safe_asL hv) (fun _ _ => ?_)
        refine Safe.bind (safe_readBytes _ _ _) (fun _ _ => ?_)
        exact ih' _
    · refine Safe.bind (safe_asK hv) (fun _ _ => ?_)
      exact ih' _

/-- The (typed) arguments of a call agree with the signature of the function entered. -/
structure TyArgs (f : Func) (varAt : Option Nat) (targs : List (Ty × RVal)) : Prop where
  len : f.params.length ≤ targs.length
  nonvar : f.variadic = false → targs.length = f.params.length
  tys : tysAgree (targs.map (·.1)) (f.params.map (·.1)) = true
  marker : ∀ i, varAt = some i → f.variadic = true ∧ i = f.params.length
  kinds : ∀ a ∈ targs, kindOk a.1.cls a.2.kind = true

theorem prepArgs_length {p : Prog} {ps : List (Ty × String)} {as : List (Ty × RVal)} {mem : Mem}
    {vals : List RVal} {mem' : Mem} (h : prepArgs p ps as mem = .ok (vals, mem')) :
    vals.length = ps.length := (prepArgs_typed h).length_eq

theorem enterFunc_safe {p : Prog} {fi : FuncInfo} {targs : List (Ty × RVal)} {varAt : Option Nat}
    {mem : Mem} (h : TyArgs fi.f varAt targs) :
    Safe (fun _ => True) (enterFunc p fi targs varAt mem) := by
  unfold enterFunc
  dsimp only
  split
  · exact not_cls_trap _
  · have h1 : ¬ targs.length < fi.f.params.length := by have := h.len; omega
    rw [if_neg h1]
    have h2 : ¬ ((!fi.f.variadic && targs.length != fi.f.params.length) = true) := by
      intro hc
      simp only [Bool.and_eq_true, Bool.not_eq_true', bne_iff_ne, ne_eq] at hc
      exact hc.2 (h.nonvar hc.1)
    rw [if_neg h2]
    have h3 : markerBad fi.f.variadic fi.f.params.length varAt = false := by
      cases hv : varAt with
      | none => rfl
      | some i =>
        obtain ⟨ha, hb⟩ := h.marker i hv
        simp [markerBad, ha, hb]
    rw [h3]
    simp only [Bool.false_eq_true, if_false]
    have hva := vaArea_safe (p := p) (mem := { mem with sp := mem.sp - frameCost })
      (as := targs.drop fi.f.params.length) (acc := ByteArray.empty)
      (fun a ha => h.kinds a (List.mem_of_mem_drop ha))
    split
    · rename_i e he
      rw [he] at hva
      exact hva
    · have hpa := prepArgs_safe (p := p) (mem := { mem with sp := mem.sp - frameCost })
        h.len h.tys h.kinds
      split
      · rename_i e he
        rw [he] at hpa
        exact hpa
      · rename_i vals mem2 hprep
        have := prepArgs_length hprep
        simp only [this, bne_self_eq_false, Bool.false_eq_true, if_false]
        trivial

theorem bindParams_lookup (env : Env) (ps : List (Ty × String)) (vs : List RVal)
    (hf : ParamVals ps vs)
    (t : String) (v : RVal) (h : (bindParams env ps vs)[t]? = some v) :
    env[t]? = some v ∨ ∃ q ∈ ps, q.2 = t ∧ v.kind = q.1.cls.kind := by
  induction hf generalizing env with
  | nil => exact Or.inl h
  | @cons q v0 ps vs hq _ ih =>
    obtain ⟨ty, x⟩ := q
    simp only [bindParams] at h
    rcases ih _ h with h' | ⟨q, hq', h1, h2⟩
    · rw [Std.HashMap.getElem?_insert] at h'
      split at h'
      · rename_i hx
        cases h'
        exact Or.inr ⟨(ty, x), by simp, by simpa using hx, hq⟩
      · exact Or.inl h'
    · exact Or.inr ⟨q, by simp [hq'], h1, h2⟩

/-- A frame created by `enterFunc` — for whatever arguments — binds every parameter to a value
    of the parameter's class. -/
theorem enterFunc_typed {p : Prog} {fi : FuncInfo} {targs : List (Ty × RVal)} {varAt : Option Nat}
    {mem : Mem} {nf : Frame} {mem' : Mem} (hnd : (fi.f.allDefs.map (·.1)).Nodup)
    (h : enterFunc p fi targs varAt mem = .ok (nf, mem')) :
    nf.fi = fi ∧ nf.bi = 0 ∧ nf.ii = 0 ∧ EnvTyped (tcOf fi.f) nf.env := by
  unfold enterFunc at h
  dsimp only at h
  split at h
  · cases h
  split at h
  · cases h
  split at h
  · cases h
  split at h
  · cases h
  split at h
  · cases h
  split at h
  · cases h
  rename_i vals mem2 hprep
  split at h
  · cases h
  cases h
  refine ⟨rfl, rfl, rfl, ?_⟩
  intro t v c hv hc
  rcases bindParams_lookup {} _ _ (prepArgs_typed hprep) t v hv with h' | ⟨q, hq, h1, h2⟩
  · simp at h'
  · subst h1
    have := tcOf_lookup hnd (allDefs_param hq)
    rw [this] at hc
    cases hc
    exact Or.inl h2

/-! ## Returns and call results -/

/-- What a `ret` delivers, relative to the declared return type. -/
def RetT (ret : Option Ty) : RetVal → Prop
  | .none => True
  | .scalar v => ∃ t, ret = some t ∧ (∀ n, t ≠ .agg n) ∧ v.kind = t.cls.kind
  | .agg n _ => ret = some (.agg n)

theorem retValue_typed {p : Prog} {fr : Frame} {mem : Mem} {v : Option RVal} {rv : RetVal}
    (h : retValue p fr mem v = .ok rv) : RetT fr.fi.f.ret rv := by
  unfold retValue at h
  split at h
  · cases h; trivial
  · cases h
  · rename_i t v' hret
    split at h
    · cases h
    · obtain ⟨_, _, h⟩ := bind_ok h
      obtain ⟨_, _, h⟩ := bind_ok h
      cases h
      exact hret
  · rename_i ty v' hna hret
    obtain ⟨v'', hv'', h⟩ := bind_ok h
    cases h
    exact ⟨ty, hret, fun n hn => hna n (by rw [hn]) , coerce_kind hv''⟩

theorem retValue_safe {p : Prog} {fr : Frame} {mem : Mem} {v : Option RVal}
    (h : ∀ rv, v = some rv → ∃ t, fr.fi.f.ret = some t ∧ kindOk t.cls rv.kind = true) :
    Safe (fun _ => True) (retValue p fr mem v) := by
  unfold retValue
  split
  · trivial
  · rename_i v' hret
    obtain ⟨t, ht, _⟩ := h v' rfl
    rw [hret] at ht
    cases ht
  · rename_i t v' hret
    obtain ⟨t', ht, hk⟩ := h v' rfl
    rw [hret] at ht
    cases ht
    split
    · exact not_cls_unknownAgg _
    · refine Safe.bind (safe_asL hk) (fun _ _ => ?_)
      refine Safe.bind (safe_readBytes _ _ _) (fun _ _ => ?_)
      trivial
  · rename_i ty v' _ hret
    obtain ⟨t', ht, hk⟩ := h v' rfl
    rw [hret] at ht
    cases ht
    refine Safe.bind (safe_coerce hk) (fun _ _ => ?_)
    trivial

/-- Whenever `bindCallRes` succeeds, the temporary it binds gets a value of the class named at the
    call site (or the undefined value). -/
theorem bindCallRes_typed {p : Prog} {tc : ClsMap} {env : Env} {mem : Mem}
    {res : Option (String × Ty)} {rv : RetVal} {env' : Env} {mem' : Mem} (h : EnvTyped tc env)
    (hres : ∀ x ty, res = some (x, ty) → tc[x]? = some ty.cls)
    (hb : bindCallRes p env mem res rv = .ok (env', mem')) : EnvTyped tc env' := by
  unfold bindCallRes at hb
  split at hb
  · cases hb; exact h
  · rename_i x ty
    have htc := hres x ty rfl
    have key : ∀ v : RVal, (v.kind = ty.cls.kind ∨ v.kind = Kind.u) →
        EnvTyped tc (env.insert x v) := by
      intro v hv
      refine envTyped_insert h ?_
      intro c hc
      rw [htc] at hc
      cases hc
      exact hv
    split at hb
    · cases hb
      exact key _ (Or.inr rfl)
    · split at hb
      · cases hb
      · split at hb
        · cases hb
        · rename_i v' hv'
          cases hb
          exact key _ (Or.inl (coerce_kind hv'))
    · split at hb
      · cases hb
      · rename_i t bytes hty
        split at hb
        · cases hb
        · cases hb
          have : ty = .agg t := by simpa using hty
          subst this
          exact key _ (Or.inl rfl)

theorem bindCallRes_safe {p : Prog} {env : Env} {mem : Mem} {res : Option (String × Ty)}
    {rv : RetVal} {ret : Option Ty} (hrv : RetT ret rv)
    (hres : ∀ x ty, res = some (x, ty) → ∃ rt, ret = some rt ∧ tyAgree ty rt = true) :
    Safe (fun _ => True) (bindCallRes p env mem res rv) := by
  unfold bindCallRes
  split
  · trivial
  · rename_i x ty
    obtain ⟨rt, hrt, hag⟩ := hres x ty rfl
    split
    · trivial
    · rename_i v
      obtain ⟨t, ht, hna, hk⟩ := hrv
      rw [hrt] at ht
      cases ht
      split
      · rename_i n
        exact absurd (tyAgree_agg' hag) (hna n)
      · have hc := tyAgree_cls hag
        have hk' : kindOk ty.cls v.kind = true := by rw [hk, hc]; exact kindOk_self _
        have := safe_coerce hk'
        split
        · rename_i e he
          rw [he] at this
          exact this
        · trivial
    · rename_i t bytes
      have ht : ret = some (.agg t) := hrv
      rw [hrt] at ht
      cases ht
      have := tyAgree_agg hag
      subst this
      simp only [bne_self_eq_false, Bool.false_eq_true, if_false]
      have := safe_alloc mem bytes.size (max (((p.types[t]?).map (·.align)).getD 8) 8) (some bytes)
      split
      · rename_i e he
        rw [he] at this
        exact this
      · trivial

end CprocVerif.C03.Cls

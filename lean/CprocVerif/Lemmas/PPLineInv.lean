import CprocVerif.Lemmas.PPLinePhys
import CprocVerif.Lemmas.Scan

/-! C11 helper lemmas, part 2: the location invariant of the scanner state and its preservation
by `nextchar` and by every loop of scan.c. -/

namespace CprocVerif.PPLine
open CprocVerif.Scan CprocVerif.Gen.TokenKinds

/-- `l` is `q` with the line number shifted by `δ` (the effect of the line directives so far) -/
def LocRel (δ : Int) (l q : Loc) : Prop := (l.line : Int) = q.line + δ ∧ l.col = q.col

theorem LocRel.advChar {δ : Int} {l q : Loc} (h : LocRel δ l q) (c : UInt8) :
    LocRel δ (advChar l c) (advChar q c) := by
  unfold LocRel Scan.advChar at *
  split <;> simp <;> omega

theorem LocRel.advSplice {δ : Int} {l q : Loc} (h : LocRel δ l q) (k : Nat) :
    LocRel δ (advSplice l k) (advSplice q k) := by
  unfold LocRel Scan.advSplice at *
  split
  · exact h
  · exact ⟨by simp only [Int.natCast_add]; omega, rfl⟩

/-- what `s->loc` is right after the byte at offset `o` has been read (`o = length`: after EOF
has been read) -/
def locAt (text : List UInt8) (o : Nat) : Loc :=
  match text[o]? with
  | some c => advChar (physAt text o) c
  | none => ⟨(physAt text o).line, (physAt text o).col + 1⟩

theorem physAt_succ (text : List UInt8) (o : Nat) (c : UInt8) (h : text[o]? = some c) :
    physAt text (o + 1) = advChar (physAt text o) c := by
  have hlt : o < text.length := by
    rcases Nat.lt_or_ge o text.length with h1 | h1
    · exact h1
    · rw [List.getElem?_eq_none h1] at h; cases h
  have hd : text.drop o = [c] ++ text.drop (o + 1) := by
    rw [List.drop_eq_getElem_cons hlt]
    have : text[o] = c := by
      rw [List.getElem?_eq_getElem hlt] at h
      exact Option.some.inj h
    rw [this]; rfl
  have := physAt_add text o [c] _ hd
  simpa [advBytes] using this

theorem locAt_some (text : List UInt8) (o : Nat) (c : UInt8) (h : text[o]? = some c) :
    locAt text o = physAt text (o + 1) := by
  rw [physAt_succ text o c h, locAt, h]

/-- the fields of the scanner state that the location bookkeeping depends on -/
def core (s : S) : List (Nat × UInt8) × Nat × Loc × Nat × Nat :=
  (s.inp, s.trail, s.loc, s.skipped, s.pos)

/-- byte offset of the current character `s->chr` (`text.length` at EOF) -/
def off (s : S) : Nat := if s.inp = [] then s.pos else s.pos - 1 - 2 * s.skipped

/-- The scanner state `s` describes the source text `text` correctly, the line numbers being
shifted by `δ`. -/
structure Inv (text : List UInt8) (δ : Int) (s : S) : Prop where
  /-- the unread bytes are what `getc` will deliver -/
  raw : group (text.drop s.pos) 0 = (s.inp.tail, s.trail)
  pos_le : s.pos ≤ text.length
  eof : s.inp = [] → s.pos = text.length ∧ s.skipped = 0
  cur : s.inp ≠ [] → 2 * s.skipped + 1 ≤ s.pos
  /-- the current character is the byte at `off s` -/
  head : ∀ k c r, s.inp = (k, c) :: r → text[off s]? = some c
  /-- `s->loc` is the location of the current character -/
  loc : LocRel δ s.loc (locAt text (off s))
  /-- with the pending `skipped` line breaks applied, `s->loc` is the location of the last byte read -/
  ahead : s.inp ≠ [] → LocRel δ (advSplice s.loc s.skipped) (physAt text s.pos)
  /-- line breaks are pending only on the second `.` of `..x` -/
  dot : s.skipped ≠ 0 → s.chr = some (c! '.')

theorem Inv.of_core {text : List UInt8} {δ : Int} {s s' : S} (h : Inv text δ s)
    (hc : core s' = core s) : Inv text δ s' := by
  simp only [core, Prod.mk.injEq] at hc
  obtain ⟨h1, h2, h3, h4, h5⟩ := hc
  have ho : off s' = off s := by simp [off, h1, h4, h5]
  have hchr : s'.chr = s.chr := by simp [S.chr, h1]
  exact ⟨by rw [h5, h1, h2]; exact h.raw, by rw [h5]; exact h.pos_le,
    by rw [h1, h5, h4]; exact h.eof, by rw [h1, h4, h5]; exact h.cur,
    by rw [h1, ho]; exact h.head, by rw [h3, ho]; exact h.loc,
    by rw [h1, h3, h4, h5]; exact h.ahead, by rw [h4, hchr]; exact h.dot⟩

theorem Inv.off_le {text : List UInt8} {δ : Int} {s : S} (h : Inv text δ s) : off s ≤ text.length := by
  have := h.pos_le
  unfold off
  split <;> omega

theorem inp_ne_of_chr {s : S} {c : UInt8} (h : s.chr = some c) : s.inp ≠ [] := by
  intro hn; simp [S.chr, hn] at h

theorem inp_ne_of_chr_ne {s : S} (h : s.chr ≠ none) : s.inp ≠ [] := by
  intro hn; simp [S.chr, hn] at h

theorem chr_nextchar_ne {s : S} (h : s.nextchar.chr ≠ none) : s.inp ≠ [] := by
  intro hn
  apply h
  simp [S.chr, hn]

/-! ## `nextchar` -/

theorem nextchar_nil (s : S) (h : s.inp.tail = []) :
    s.nextchar.inp = [] ∧ s.nextchar.trail = 0 ∧ s.nextchar.skipped = 0 ∧
    s.nextchar.pos = s.pos + 2 * s.trail ∧
    s.nextchar.loc = ⟨(advSplice (advSplice s.loc s.skipped) s.trail).line,
                      (advSplice (advSplice s.loc s.skipped) s.trail).col + 1⟩ := by
  unfold S.nextchar S.readHead
  split <;> simp [h]

theorem nextchar_cons (s : S) (k : Nat) (c : UInt8) (r : List (Nat × UInt8))
    (h : s.inp.tail = (k, c) :: r) :
    s.nextchar.inp = (k, c) :: r ∧ s.nextchar.trail = s.trail ∧ s.nextchar.skipped = 0 ∧
    s.nextchar.pos = s.pos + 2 * k + 1 ∧
    s.nextchar.loc = advChar (advSplice (advSplice s.loc s.skipped) k) c := by
  unfold S.nextchar S.readHead
  split <;> simp [h]

theorem nextchar_core (s1 s : S) (hc : core s1 = core s) : core s1.nextchar = core s.nextchar := by
  simp only [core, Prod.mk.injEq] at hc
  obtain ⟨h1, h2, h3, h4, h5⟩ := hc
  cases ht : s.inp.tail with
  | nil =>
    have ht1 : s1.inp.tail = [] := by rw [h1]; exact ht
    obtain ⟨a1, a2, a3, a4, a5⟩ := nextchar_nil s ht
    obtain ⟨b1, b2, b3, b4, b5⟩ := nextchar_nil s1 ht1
    simp only [core, a1, a2, a3, a4, a5, b1, b2, b3, b4, b5, h2, h3, h4, h5]
  | cons e r =>
    obtain ⟨k, c⟩ := e
    have ht1 : s1.inp.tail = (k, c) :: r := by rw [h1]; exact ht
    obtain ⟨a1, a2, a3, a4, a5⟩ := nextchar_cons s k c r ht
    obtain ⟨b1, b2, b3, b4, b5⟩ := nextchar_cons s1 k c r ht1
    simp only [core, a1, a2, a3, a4, a5, b1, b2, b3, b4, b5, h2, h3, h4, h5]

/-- `s'` is a correct scanner state with no pending push-back, strictly behind offset `o` -/
structure After (text : List UInt8) (δ : Int) (o : Nat) (s' : S) : Prop where
  inv : Inv text δ s'
  sk : s'.skipped = 0
  lt : o < off s'

theorem After.mono {text : List UInt8} {δ : Int} {o o' : Nat} {s : S} (h : After text δ o s)
    (hle : o' ≤ o) : After text δ o' s := ⟨h.inv, h.sk, by have := h.lt; omega⟩

theorem After.of_core {text : List UInt8} {δ : Int} {o : Nat} {s s' : S} (h : After text δ o s)
    (hc : core s' = core s) : After text δ o s' := by
  have hi := h.inv.of_core hc
  simp only [core, Prod.mk.injEq] at hc
  obtain ⟨h1, h2, h3, h4, h5⟩ := hc
  exact ⟨hi, by rw [h4]; exact h.sk, by have := h.lt; simpa [off, h1, h4, h5] using this⟩

/-- the unread bytes when only line splices are left -/
theorem raw_nil' {text : List UInt8} {pos tr : Nat} (hraw : group (text.drop pos) 0 = ([], tr))
    (hle : pos ≤ text.length) :
    pos + 2 * tr = text.length ∧ physAt text text.length = advSplice (physAt text pos) tr := by
  obtain ⟨_, hsp⟩ := group_nil_inv _ _ _ hraw
  simp only [Nat.sub_zero] at hsp
  have hlen : pos + 2 * tr = text.length := by
    have := congrArg List.length hsp
    simp at this
    omega
  refine ⟨hlen, ?_⟩
  have := physAt_add text pos (splices tr) [] (by simpa using hsp)
  rw [length_splices, hlen, advBytes_splices] at this
  exact this

/-- … and when a character `c` preceded by `k` line splices comes next -/
theorem raw_cons' {text : List UInt8} {pos tr k : Nat} {c : UInt8} {r : List (Nat × UInt8)}
    (hraw : group (text.drop pos) 0 = ((k, c) :: r, tr)) :
    text[pos + 2 * k]? = some c ∧ pos + 2 * k + 1 ≤ text.length ∧
    group (text.drop (pos + 2 * k + 1)) 0 = (r, tr) ∧
    group (text.drop (pos + 2 * k)) 0 = ((0, c) :: r, tr) ∧
    physAt text (pos + 2 * k) = advSplice (physAt text pos) k := by
  obtain ⟨_, t', hsp, hg, hg2⟩ := group_cons_inv _ _ _ _ _ _ hraw
  simp only [Nat.sub_zero] at hsp
  obtain ⟨d1, d2, d3⟩ := drop_structure text pos (splices k) c t' hsp
  rw [length_splices] at d1 d2 d3
  refine ⟨d1, d3, by rw [d2]; exact hg, ?_, ?_⟩
  · have : text.drop (pos + 2 * k) = c :: t' := by
      rw [← List.drop_drop, hsp]
      have := List.drop_left' (l₁ := splices k) (l₂ := c :: t') (length_splices k)
      exact this
    rw [this]; exact hg2
  · have := physAt_add text pos (splices k) (c :: t') hsp
    rw [length_splices, advBytes_splices] at this
    exact this

theorem Inv.raw_nil {text : List UInt8} {δ : Int} {s : S} (h : Inv text δ s) (ht : s.inp.tail = []) :
    s.pos + 2 * s.trail = text.length ∧
    physAt text text.length = advSplice (physAt text s.pos) s.trail :=
  raw_nil' (by have := h.raw; rw [ht] at this; exact this) h.pos_le

theorem Inv.raw_cons {text : List UInt8} {δ : Int} {s : S} (h : Inv text δ s) {k : Nat} {c : UInt8}
    {r : List (Nat × UInt8)} (ht : s.inp.tail = (k, c) :: r) :
    text[s.pos + 2 * k]? = some c ∧ s.pos + 2 * k + 1 ≤ text.length ∧
    group (text.drop (s.pos + 2 * k + 1)) 0 = (r, s.trail) ∧
    group (text.drop (s.pos + 2 * k)) 0 = ((0, c) :: r, s.trail) ∧
    physAt text (s.pos + 2 * k) = advSplice (physAt text s.pos) k :=
  raw_cons' (by have := h.raw; rw [ht] at this; exact this)

/-- a state that has just read EOF, described by its fields -/
theorem inv_fields_nil {text : List UInt8} {δ : Int} {pos tr : Nat} {l0 : Loc} (s' : S)
    (hraw : group (text.drop pos) 0 = ([], tr)) (hle : pos ≤ text.length)
    (hl0 : LocRel δ l0 (physAt text pos))
    (a1 : s'.inp = []) (a2 : s'.trail = 0) (a3 : s'.skipped = 0) (a4 : s'.pos = pos + 2 * tr)
    (a5 : s'.loc = ⟨(advSplice l0 tr).line, (advSplice l0 tr).col + 1⟩) :
    Inv text δ s' ∧ off s' = text.length := by
  obtain ⟨hlen, hphys⟩ := raw_nil' hraw hle
  have hoff' : off s' = text.length := by unfold off; rw [if_pos a1, a4, hlen]
  have hnone : text[text.length]? = none := List.getElem?_eq_none (Nat.le_refl _)
  refine ⟨⟨?_, ?_, ?_, ?_, ?_, ?_, ?_, ?_⟩, hoff'⟩
  · rw [a1, a2, a4, hlen]; simp [group]
  · rw [a4, hlen]; exact Nat.le_refl _
  · intro _; exact ⟨by rw [a4, hlen], a3⟩
  · intro hn; exact absurd a1 hn
  · intro k c r hr; rw [a1] at hr; cases hr
  · rw [hoff', a5, locAt, hnone]
    have := (hl0.advSplice tr)
    rw [← hphys] at this
    exact ⟨this.1, by simp only; rw [this.2]⟩
  · intro hn; exact absurd a1 hn
  · intro hn; exact absurd a3 hn

/-- a state that has just read the character `c` behind `k` line splices, described by its fields -/
theorem inv_fields_cons {text : List UInt8} {δ : Int} {pos tr k : Nat} {c : UInt8}
    {r : List (Nat × UInt8)} {l0 : Loc} (s' : S)
    (hraw : group (text.drop pos) 0 = ((k, c) :: r, tr))
    (hl0 : LocRel δ l0 (physAt text pos))
    (a1 : s'.inp = (k, c) :: r) (a2 : s'.trail = tr) (a3 : s'.skipped = 0)
    (a4 : s'.pos = pos + 2 * k + 1) (a5 : s'.loc = advChar (advSplice l0 k) c) :
    Inv text δ s' ∧ off s' = pos + 2 * k := by
  obtain ⟨d1, d3, hg, _, hphys⟩ := raw_cons' hraw
  have hoff' : off s' = pos + 2 * k := by
    unfold off; rw [if_neg (by rw [a1]; simp), a3, a4]; omega
  have hloc : LocRel δ s'.loc (physAt text (pos + 2 * k + 1)) := by
    rw [a5, physAt_succ text _ c d1, hphys]
    exact (hl0.advSplice k).advChar c
  refine ⟨⟨?_, ?_, ?_, ?_, ?_, ?_, ?_, ?_⟩, hoff'⟩
  · rw [a1, a2, a4]; exact hg
  · rw [a4]; exact d3
  · intro hn; rw [a1] at hn; cases hn
  · intro _; rw [a3, a4]; omega
  · intro k' c' r' hr
    rw [a1] at hr
    simp only [List.cons.injEq, Prod.mk.injEq] at hr
    rw [hoff', ← hr.1.2]; exact d1
  · rw [hoff', locAt_some text _ c d1]; exact hloc
  · intro _; rw [a3, a4]; simpa [advSplice] using hloc
  · intro hn; exact absurd a3 hn

/-- **`nextchar` keeps the invariant** (when there is a current character to move past) -/
theorem nextchar_after {text : List UInt8} {δ : Int} {s : S} (h : Inv text δ s) (hne : s.inp ≠ []) :
    After text δ (off s) s.nextchar := by
  have hah := h.ahead hne
  have hcur := h.cur hne
  have hoff : off s = s.pos - 1 - 2 * s.skipped := by simp [off, hne]
  have hraw := h.raw
  cases ht : s.inp.tail with
  | nil =>
    rw [ht] at hraw
    obtain ⟨a1, a2, a3, a4, a5⟩ := nextchar_nil s ht
    obtain ⟨hi, ho⟩ := inv_fields_nil s.nextchar hraw h.pos_le hah a1 a2 a3 a4 a5
    have := hi.pos_le
    exact ⟨hi, a3, by rw [ho, hoff]; rw [a4] at this; omega⟩
  | cons e r =>
    obtain ⟨k, c⟩ := e
    rw [ht] at hraw
    obtain ⟨a1, a2, a3, a4, a5⟩ := nextchar_cons s k c r ht
    obtain ⟨hi, ho⟩ := inv_fields_cons s.nextchar hraw hah a1 a2 a3 a4 a5
    exact ⟨hi, a3, by rw [ho, hoff]; omega⟩

/-- `scanfrom`: the initial state is correct, with no line shift -/
theorem init_inv (text : List UInt8) : Inv text 0 (S.init text) ∧ (S.init text).skipped = 0 := by
  have hl0 : LocRel 0 ⟨1, 0⟩ (physAt text 0) := by simp [LocRel, physAt, advBytes]
  cases hg : group text 0 with
  | mk g tr =>
    cases g with
    | nil =>
      have hraw : group (text.drop 0) 0 = ([], tr) := by simpa using hg
      have hi := inv_fields_nil (δ := 0) (l0 := ⟨1, 0⟩) (S.init text) hraw (Nat.zero_le _) hl0
        (by simp [S.init, hg]) (by simp [S.init, S.readHead, hg])
        (by simp [S.init, S.readHead, hg]) (by simp [S.init, S.readHead, hg])
        (by simp [S.init, S.readHead, hg, advSplice])
      exact ⟨hi.1, by simp [S.init, S.readHead, hg]⟩
    | cons e r =>
      obtain ⟨k, c⟩ := e
      have hraw : group (text.drop 0) 0 = ((k, c) :: r, tr) := by simpa using hg
      have hi := inv_fields_cons (δ := 0) (l0 := ⟨1, 0⟩) (S.init text) hraw hl0
        (by simp [S.init, hg]) (by simp [S.init, S.readHead, hg])
        (by simp [S.init, S.readHead, hg]) (by simp [S.init, S.readHead, hg])
        (by simp [S.init, S.readHead, hg, advSplice])
      exact ⟨hi.1, by simp [S.init, S.readHead, hg]⟩

theorem nextchar_after' {text : List UInt8} {δ : Int} {s : S} (h : Inv text δ s) (hne : s.inp ≠ [])
    (s1 : S) (hc : core s1 = core s) : After text δ (off s) s1.nextchar :=
  (nextchar_after h hne).of_core (nextchar_core s1 s hc)

/-- moving on from a state that is already behind `o` -/
theorem After.next {text : List UInt8} {δ : Int} {o : Nat} {s : S} (h : After text δ o s)
    (hne : s.inp ≠ []) : After text δ o s.nextchar :=
  (nextchar_after h.inv hne).mono (by have := h.lt; omega)

theorem After.next' {text : List UInt8} {δ : Int} {o : Nat} {s : S}
    (h : After text δ o s) (hne : s.inp ≠ []) (s1 : S) (hc : core s1 = core s) :
    After text δ o s1.nextchar :=
  (h.next hne).of_core (nextchar_core s1 s hc)

end CprocVerif.PPLine

/-
  C01, fragment 𝔽₂ — the comparison ladder of `switch` (qbe.c `casesearch`, `Lower2.ladder`): executed on
  the controlling value it arrives at the label of the case `Tree.search` finds, or at the default label.
-/
import CprocVerif.Lemmas.Lower2If

set_option linter.unusedSimpArgs false

namespace CprocVerif.LowerMach2
open CprocVerif.Qbe CprocVerif.Lower CprocVerif.Lower2 CprocVerif.CSem CprocVerif.CSem2 CprocVerif.CInt
open CprocVerif.LowerArith CprocVerif.LowerMach CprocVerif.LowerMem

theorem key_toNat {k : Nat} (hk : k < 2 ^ 64) : (UInt64.ofNat k).toNat = k := by
  rw [UInt64.toNat_ofNat']; exact Nat.mod_eq_of_lt hk

/-- `ceqw`/`ceql` and `cultw`/`cultl` of the controlling value with a key -/
theorem cmp_key (w : Bool) {rv : RVal} {x : UInt64} (M : Mem)
    (hx : (if w = true then rv.asW else rv.asL) = .ok x) {k : Nat} (hk : k < 2 ^ 64) :
    (∃ r, execOp (if w = true then Op.cmpw .eq else Op.cmpl .eq) (some .w) [rv, ⟨.c, UInt64.ofNat k⟩] M none =
        .ok (r, M) ∧
      BoolRes (decide (x.toNat % Tree.modulus w = k % Tree.modulus w)) r) ∧
    (∃ r, execOp (if w = true then Op.cmpw .ult else Op.cmpl .ult) (some .w) [rv, ⟨.c, UInt64.ofNat k⟩] M none =
        .ok (r, M) ∧
      BoolRes (decide (x.toNat % Tree.modulus w < k % Tree.modulus w)) r) := by
  have hkn := key_toNat hk
  cases w
  · simp only [Bool.false_eq_true, if_false, Tree.modulus] at hx ⊢
    have hy : (RVal.mk .c (UInt64.ofNat k)).asL = .ok (UInt64.ofNat k) := rfl
    have hxl := x.toNat_lt
    constructor
    · exact cmp_finish_l .eq M none hx hy (by
        simp only [icmp64]; rw [u64_beq, hkn]; apply decide_eq_decide.2; omega)
    · exact cmp_finish_l .ult M none hx hy (by
        simp only [icmp64]; apply decide_eq_decide.2; rw [UInt64.lt_iff_toNat_lt, hkn]; omega)
  · simp only [if_true, Tree.modulus] at hx ⊢
    have hy : (RVal.mk .c (UInt64.ofNat k)).asW = .ok (UInt64.ofNat k &&& mask32) := rfl
    have hxl := asW_lt hx
    have hyn : (UInt64.ofNat k &&& mask32).toNat = k % 2 ^ 32 := by rw [toNat_and_mask32, hkn]
    constructor
    · exact cmp_finish_w .eq M none hx hy (by
        simp only [icmp32]; rw [u32_beq, hyn]; apply decide_eq_decide.2; omega)
    · exact cmp_finish_w .ult M none hx hy (by
        simp only [icmp32]; apply decide_eq_decide.2
        rw [UInt32.lt_iff_toNat_lt, UInt64.toNat_toUInt32, UInt64.toNat_toUInt32, hyn]; omega)

theorem boolres_asW_ne {c : Bool} {r : RVal} (h : BoolRes c r) :
    ∃ w : UInt64, r.asW = .ok w ∧ ((w != 0) = c) := by
  refine ⟨_, h.asW, ?_⟩
  cases c <;> rfl

/-- where the ladder for tree `t` ends up on the controlling value `v` -/
def ladderLabel (w : Bool) (t : Tree.T) (v : Nat) (lab : Nat → String) (dl : String) : String :=
  match Tree.search w t v with
  | some k => lab k
  | none => dl

theorem sim_ladder (T : Stat) (w : Bool) (v : Val) (lab : Nat → String) (dl : String) (t : Tree.T) :
    ∀ (c : Ctx) (pre post : List Item) (lnext : String) (ph : List Phi) (env : Env) (M : Mem)
      (rv : RVal) (x : UInt64),
    T.S.its = pre ++ (ladder w v lab dl t c).1 ++ .lbl (some (.jmp dl)) lnext ph :: post →
    (∀ k ∈ Tree.toList t, k < 2 ^ 64 ∧ CanJump T.S (lab k)) → CanJump T.S dl →
    ValOK c.lastid v → readVal T.S.p env v = .ok rv → (if w = true then rv.asW else rv.asL) = .ok x →
    ∃ n env' st, T.Reach n (T.at env M pre) st ∧
      Frame c.lastid (ladder w v lab dl t c).2.lastid env env' ∧
      AtLabel T.S (ladderLabel w t x.toNat lab dl) env' M st := by
  induction t with
  | nil =>
    intro c pre post lnext ph env M rv x hits _ hdl _ _ _
    simp only [ladder, List.append_nil] at hits ⊢
    obtain ⟨st, hs, hat⟩ := step_jmp_item T hits hdl env M
    exact ⟨1, env, st, Reach.one hs, Frame.refl _ _ _, by simpa [ladderLabel, Tree.search] using hat⟩
  | node k h l r ihl ihr =>
    intro c pre post lnext ph env M rv x hits hkeys hdl hvok hv hx
    have hk := hkeys k (by simp [Tree.toList])
    obtain ⟨⟨r1, hx1, hb1⟩, ⟨r2, hx2, hb2⟩⟩ := cmp_key w M hx hk.1
    have gl := ladder_good w v lab dl l ⟨c.lastid + 2, c.blockid + 3, lblName "switch_lt" (c.blockid + 2)⟩
    simp only [ladder] at hits ⊢
    generalize hL : ladder w v lab dl l ⟨c.lastid + 2, c.blockid + 3, lblName "switch_lt" (c.blockid + 2)⟩ = L
      at hits gl ⊢
    have gr := ladder_good w v lab dl r ⟨L.2.lastid, L.2.blockid, lblName "switch_gt" (c.blockid + 3)⟩
    generalize hR : ladder w v lab dl r ⟨L.2.lastid, L.2.blockid, lblName "switch_gt" (c.blockid + 3)⟩ = R
      at hits gr ⊢
    have l1 : c.lastid + 2 ≤ L.2.lastid := gl.1
    have l2 : L.2.lastid ≤ R.2.lastid := gr.1
    -- the items
    have hits1 := hits
    simp only [List.append_assoc, List.cons_append, List.nil_append, List.singleton_append] at hits1
    -- ceq
    have hr1 := (setM T.S M).run_ins (env := env) hits1 (readVals_two hv (readVal_int _ _ _)) hx1
    have hits2 : T.S.its = (pre ++ [.ins (.op (some (tmpName (c.lastid + 1), .w))
        (if w = true then Op.cmpw .eq else Op.cmpl .eq) [v, .int (UInt64.ofNat k)])]) ++
        .lbl (some (.jnz (.tmp (tmpName (c.lastid + 1))) (lab k) (lblName "switch_ne" (c.blockid + 1))))
          (lblName "switch_ne" (c.blockid + 1)) [] :: (.ins (.op (some (tmpName (c.lastid + 2), .w)) (if w = true then Op.cmpw .ult else Op.cmpl .ult)
            [v, .int (UInt64.ofNat k)]) :: .lbl (some (.jnz (.tmp (tmpName (c.lastid + 2))) (lblName "switch_lt" (c.blockid + 2))
            (lblName "switch_gt" (c.blockid + 3)))) (lblName "switch_lt" (c.blockid + 2)) [] ::
          (L.1 ++ .lbl (some (.jmp dl)) (lblName "switch_gt" (c.blockid + 3)) [] ::
            (R.1 ++ .lbl (some (.jmp dl)) lnext ph :: post))) := by
      rw [hits1]; simp only [List.append_assoc, List.singleton_append]
    have hcne : CanJump T.S (lblName "switch_ne" (c.blockid + 1)) := canJump_item T.S hits2
    obtain ⟨w1, hw1, hwc1⟩ := boolres_asW_ne hb1
    obtain ⟨st1, hs1, hat1⟩ := step_jnz_item T hits2 hk.2 hcne M (readVal_insert_self _ _ _ _) hw1
    rw [hwc1] at hat1
    by_cases heq : x.toNat % Tree.modulus w = k % Tree.modulus w
    · -- the key matches
      simp only [heq, decide_true, if_true] at hat1
      refine ⟨1 + 1, _, st1, hr1.trans (Reach.one hs1),
        Frame.insert (lo := c.lastid) (hi := R.2.lastid) (k := c.lastid + 1) env r1 (by omega) (by omega), ?_⟩
      simpa [ladderLabel, Tree.search, heq] using hat1
    · simp only [heq, decide_false, Bool.false_eq_true, if_false] at hat1
      have hst1 := atLabel_item T hits2 hat1
      subst hst1
      -- cult
      have hv' : readVal T.S.p (env.insert (tmpName (c.lastid + 1)) r1) v = .ok rv := by
        rw [readVal_agree hvok (Agree.insert env r1 (Nat.lt_succ_self _))]; exact hv
      have hits3 : T.S.its = (pre ++ [.ins (.op (some (tmpName (c.lastid + 1), .w))
          (if w = true then Op.cmpw .eq else Op.cmpl .eq) [v, .int (UInt64.ofNat k)])] ++
          [.lbl (some (.jnz (.tmp (tmpName (c.lastid + 1))) (lab k) (lblName "switch_ne" (c.blockid + 1))))
            (lblName "switch_ne" (c.blockid + 1)) []]) ++
          .ins (.op (some (tmpName (c.lastid + 2), .w)) (if w = true then Op.cmpw .ult else Op.cmpl .ult)
            [v, .int (UInt64.ofNat k)]) :: (.lbl (some (.jnz (.tmp (tmpName (c.lastid + 2))) (lblName "switch_lt" (c.blockid + 2))
            (lblName "switch_gt" (c.blockid + 3)))) (lblName "switch_lt" (c.blockid + 2)) [] ::
          (L.1 ++ .lbl (some (.jmp dl)) (lblName "switch_gt" (c.blockid + 3)) [] ::
            (R.1 ++ .lbl (some (.jmp dl)) lnext ph :: post))) := by
        rw [hits1]; simp only [List.append_assoc, List.singleton_append, List.cons_append, List.nil_append]
      have hr2 := (setM T.S M).run_ins (env := env.insert (tmpName (c.lastid + 1)) r1) hits3
        (readVals_two hv' (readVal_int _ _ _)) hx2
      have hits4 : T.S.its = (pre ++ [.ins (.op (some (tmpName (c.lastid + 1), .w))
          (if w = true then Op.cmpw .eq else Op.cmpl .eq) [v, .int (UInt64.ofNat k)])] ++
          [.lbl (some (.jnz (.tmp (tmpName (c.lastid + 1))) (lab k) (lblName "switch_ne" (c.blockid + 1))))
            (lblName "switch_ne" (c.blockid + 1)) []] ++
          [.ins (.op (some (tmpName (c.lastid + 2), .w)) (if w = true then Op.cmpw .ult else Op.cmpl .ult)
            [v, .int (UInt64.ofNat k)])]) ++
          .lbl (some (.jnz (.tmp (tmpName (c.lastid + 2))) (lblName "switch_lt" (c.blockid + 2))
            (lblName "switch_gt" (c.blockid + 3)))) (lblName "switch_lt" (c.blockid + 2)) [] ::
          (L.1 ++ .lbl (some (.jmp dl)) (lblName "switch_gt" (c.blockid + 3)) [] ::
            (R.1 ++ .lbl (some (.jmp dl)) lnext ph :: post)) := by
        rw [hits1]; simp only [List.append_assoc, List.singleton_append, List.cons_append, List.nil_append]
      have hits5 : T.S.its = ((pre ++ [.ins (.op (some (tmpName (c.lastid + 1), .w))
          (if w = true then Op.cmpw .eq else Op.cmpl .eq) [v, .int (UInt64.ofNat k)])] ++
          [.lbl (some (.jnz (.tmp (tmpName (c.lastid + 1))) (lab k) (lblName "switch_ne" (c.blockid + 1))))
            (lblName "switch_ne" (c.blockid + 1)) []] ++
          [.ins (.op (some (tmpName (c.lastid + 2), .w)) (if w = true then Op.cmpw .ult else Op.cmpl .ult)
            [v, .int (UInt64.ofNat k)])]) ++
          [.lbl (some (.jnz (.tmp (tmpName (c.lastid + 2))) (lblName "switch_lt" (c.blockid + 2))
            (lblName "switch_gt" (c.blockid + 3)))) (lblName "switch_lt" (c.blockid + 2)) []] ++ L.1) ++
          .lbl (some (.jmp dl)) (lblName "switch_gt" (c.blockid + 3)) [] ::
            (R.1 ++ .lbl (some (.jmp dl)) lnext ph :: post) := by
        rw [hits4]; simp only [List.append_assoc, List.singleton_append, List.cons_append, List.nil_append]
      have hclt : CanJump T.S (lblName "switch_lt" (c.blockid + 2)) := canJump_item T.S hits4
      have hcgt : CanJump T.S (lblName "switch_gt" (c.blockid + 3)) := canJump_item T.S hits5
      obtain ⟨w2, hw2, hwc2⟩ := boolres_asW_ne hb2
      obtain ⟨st2, hs2, hat2⟩ := step_jnz_item T hits4 hclt hcgt M (readVal_insert_self _ _ _ _) hw2
      rw [hwc2] at hat2
      have hfr2 : Frame c.lastid (c.lastid + 2) env
          ((env.insert (tmpName (c.lastid + 1)) r1).insert (tmpName (c.lastid + 2)) r2) :=
        (Frame.insert (lo := c.lastid) (hi := c.lastid + 2) env r1 (by omega) (by omega)).comp
          (Frame.insert (lo := c.lastid) (hi := c.lastid + 2) _ r2 (by omega) (by omega))
      have hv'' : readVal T.S.p ((env.insert (tmpName (c.lastid + 1)) r1).insert (tmpName (c.lastid + 2)) r2)
          v = .ok rv := by
        rw [readVal_agree hvok hfr2.agree]; exact hv
      have hreach0 := ((hr1.trans (Reach.one hs1)).trans hr2).trans (Reach.one hs2)
      by_cases hlt : x.toNat % Tree.modulus w < k % Tree.modulus w
      · simp only [hlt, decide_true, if_true] at hat2
        have hst2 := atLabel_item T hits4 hat2
        subst hst2
        obtain ⟨n3, env3, st3, hr3, hfr3, hat3⟩ := ihl ⟨c.lastid + 2, c.blockid + 3,
          lblName "switch_lt" (c.blockid + 2)⟩ _ _ (lblName "switch_gt" (c.blockid + 3)) [] _ M rv x
          (by rw [hL]; rw [hits5])
          (fun k' hk' => hkeys k' (by simp [Tree.toList, hk'])) hdl (hvok.mono (by simp only; omega)) hv'' hx
        rw [hL] at hfr3
        refine ⟨_, env3, st3, hreach0.trans hr3,
          (hfr2.mono (Nat.le_refl _) (by omega)).comp (hfr3.mono (by simp only; omega) (by omega)), ?_⟩
        simpa [ladderLabel, Tree.search, heq, hlt] using hat3
      · simp only [hlt, decide_false, Bool.false_eq_true, if_false] at hat2
        have hst2 := atLabel_item T hits5 hat2
        subst hst2
        have hits6 : T.S.its = (((pre ++ [.ins (.op (some (tmpName (c.lastid + 1), .w))
          (if w = true then Op.cmpw .eq else Op.cmpl .eq) [v, .int (UInt64.ofNat k)])] ++
          [.lbl (some (.jnz (.tmp (tmpName (c.lastid + 1))) (lab k) (lblName "switch_ne" (c.blockid + 1))))
            (lblName "switch_ne" (c.blockid + 1)) []] ++
          [.ins (.op (some (tmpName (c.lastid + 2), .w)) (if w = true then Op.cmpw .ult else Op.cmpl .ult)
            [v, .int (UInt64.ofNat k)])]) ++
          [.lbl (some (.jnz (.tmp (tmpName (c.lastid + 2))) (lblName "switch_lt" (c.blockid + 2))
            (lblName "switch_gt" (c.blockid + 3)))) (lblName "switch_lt" (c.blockid + 2)) []] ++ L.1) ++
            [.lbl (some (.jmp dl)) (lblName "switch_gt" (c.blockid + 3)) []]) ++ R.1 ++
            .lbl (some (.jmp dl)) lnext ph :: post := by
          rw [hits5]; simp only [List.append_assoc, List.singleton_append, List.cons_append, List.nil_append]
        obtain ⟨n3, env3, st3, hr3, hfr3, hat3⟩ := ihr ⟨L.2.lastid, L.2.blockid,
          lblName "switch_gt" (c.blockid + 3)⟩ _ post lnext ph _ M rv x
          (by rw [hR]; exact hits6)
          (fun k' hk' => hkeys k' (by simp [Tree.toList, hk'])) hdl (hvok.mono (by simp only; omega)) hv'' hx
        rw [hR] at hfr3
        refine ⟨_, env3, st3, hreach0.trans hr3,
          (hfr2.mono (Nat.le_refl _) (by omega)).comp (hfr3.mono (by simp only; omega) (Nat.le_refl _)), ?_⟩
        simpa [ladderLabel, Tree.search, heq, hlt] using hat3

end CprocVerif.LowerMach2

import CprocVerif.Lemmas.PPObjSim
import CprocVerif.Lemmas.PPArgs

/-! # One step of the reference on a simple function-like invocation

"Simple": the name comes with an empty hide set and is followed by `(`, the tokens up to the
matching `)` are not macro names (so their complete replacement is themselves), the macro is not
variadic and has at least one parameter, the number of arguments is right. -/

namespace CprocVerif.PP
open CprocVerif.Gen.TokenKinds
open CprocVerif.Spec.MacroRef (HTok Item PTok MacroDef RErr Flag Elem expandH hsadd union inter pendItems lookup
  matchParen splitTop actuals subst elems usedPlain paramIndex)
open CprocVerif.Spec

/-- tokens that are not macro names are their own complete replacement -/
theorem expandH_plain (tbl : List MacroDef) : ∀ (l : List HTok) (K : Nat), l.length < K →
    (∀ t ∈ l, t.tok.kind ≠ .TIDENT ∨ lookup tbl (t.tok.lit.getD []) = none) →
    expandH false K tbl (l.map Item.tok) = (l, none, []) := by
  intro l
  induction l with
  | nil =>
    intro K hK _
    cases K with
    | zero => omega
    | succ k => simp [expandH]
  | cons t r ih =>
    intro K hK hp
    cases K with
    | zero => omega
    | succ k =>
      have hr := ih k (by simp at hK; omega) (fun x hx => hp x (List.mem_cons_of_mem _ hx))
      simp only [List.map_cons]
      rw [expandH]
      simp only [hr]
      rcases hp t (List.mem_cons_self ..) with h | h
      · simp [h]
      · by_cases hk : t.tok.kind ≠ .TIDENT ∨ t.painted = true
        · simp [hk]
        · simp [hk, h]

theorem splitTop_mem : ∀ (l : List HTok) (n d : Nat) (cur : List HTok),
    ∀ a ∈ splitTop n d l cur, ∀ x ∈ a, x ∈ l ∨ x ∈ cur := by
  intro l
  induction l with
  | nil =>
    intro n d cur a ha x hx
    simp only [splitTop, List.mem_singleton] at ha
    subst ha
    right; simpa using hx
  | cons t r ih =>
    intro n d cur a ha x hx
    rw [splitTop] at ha
    split at ha
    · rcases List.mem_cons.mp ha with rfl | ha
      · right; simpa using hx
      · rcases ih _ _ _ a ha x hx with h | h
        · left; exact List.mem_cons_of_mem _ h
        · cases h
    · have key : ∀ d', a ∈ splitTop n d' r (t :: cur) → x ∈ t :: r ∨ x ∈ cur := by
        intro d' ha'
        rcases ih _ _ _ a ha' x hx with h | h
        · left; exact List.mem_cons_of_mem _ h
        · rcases List.mem_cons.mp h with rfl | h
          · left; exact List.mem_cons_self ..
          · right; exact h
      split at ha
      · exact key _ ha
      · split at ha
        · exact key _ ha
        · exact key _ ha

theorem splitTop_len : ∀ (l : List HTok) (n d : Nat) (cur : List HTok),
    ∀ a ∈ splitTop n d l cur, a.length ≤ l.length + cur.length := by
  intro l
  induction l with
  | nil =>
    intro n d cur a ha
    simp only [splitTop, List.mem_singleton] at ha
    subst ha; simp
  | cons t r ih =>
    intro n d cur a ha
    rw [splitTop] at ha
    split at ha
    · rcases List.mem_cons.mp ha with rfl | ha
      · simp
      · have := ih _ _ _ a ha; simp at this ⊢; omega
    · have key : ∀ d', a ∈ splitTop n d' r (t :: cur) → a.length ≤ (t :: r).length + cur.length := by
        intro d' ha'
        have := ih _ _ _ a ha'; simp at this ⊢; omega
      split at ha
      · exact key _ ha
      · split at ha
        · exact key _ ha
        · exact key _ ha

/-- `subst` only looks at the arguments of the parameters that occur -/
theorem subst_congr (raw full full' : Nat → List HTok) : ∀ (es : List Elem) (p : Bool),
    (∀ i sp, Elem.param i sp ∈ es → full i = full' i) → subst raw full es p = subst raw full' es p := by
  intro es
  induction es with
  | nil => intro p _; rfl
  | cons e r ih =>
    intro p h
    have hr : ∀ i sp, Elem.param i sp ∈ r → full i = full' i := fun i sp hm => h i sp (List.mem_cons_of_mem _ hm)
    cases e with
    | tok t => simp only [subst, ih false hr]
    | str i sp => simp only [subst, ih false hr]
    | param i sp =>
      simp only [subst]
      rw [h i sp (List.mem_cons_self ..), ih _ hr]


theorem paramIndex_lt {m : MacroDef} {t : PTok} {i : Nat} (h : paramIndex m t = some i) :
    i < (if m.variadic then m.params ++ [MacroRef.vaName] else m.params).length := by
  cases hv : m.variadic
  · simp only [paramIndex, hv, Bool.false_eq_true, ↓reduceIte] at h ⊢
    split at h
    · split at h
      · rename_i hlt; cases h; exact hlt
      · cases h
    · cases h
  · simp only [paramIndex, hv, ↓reduceIte] at h ⊢
    split at h
    · split at h
      · rename_i hlt; cases h; exact hlt
      · cases h
    · cases h

theorem elemOf_param {m : MacroDef} {t : PTok} {i : Nat} {sp : Bool} (h : MacroRef.elemOf m t = .param i sp) :
    i < (if m.variadic then m.params ++ [MacroRef.vaName] else m.params).length := by
  unfold MacroRef.elemOf at h
  split at h
  · rename_i j hj
    cases h
    split at hj
    · exact paramIndex_lt hj
    · cases hj
  · cases h

theorem elems_param_lt (m : MacroDef) : ∀ (l : List PTok) (i : Nat) (sp : Bool), Elem.param i sp ∈ elems m l →
    i < (if m.variadic then m.params ++ [MacroRef.vaName] else m.params).length
  | [], i, sp, h => by simp [elems] at h
  | [t], i, sp, h => by
    simp only [elems, List.mem_singleton] at h
    exact elemOf_param h.symm
  | t :: p :: r, i, sp, h => by
    rw [elems] at h
    split at h
    · split at h
      · rcases List.mem_cons.mp h with h | h
        · cases h
        · exact elems_param_lt m r i sp h
      · rcases List.mem_cons.mp h with h | h
        · cases h
        · exact elems_param_lt m (p :: r) i sp h
    · rcases List.mem_cons.mp h with h | h
      · exact elemOf_param h.symm
      · exact elems_param_lt m (p :: r) i sp h

theorem outKeys_flags (a : List HTok) (e : Option RErr) (f g : List Flag) : outKeys (a, e, f) = outKeys (a, e, g) := rfl

/-- **the reference on a simple invocation**: one unit of fuel turns `name ( args )` followed by `X`
into the substituted replacement list followed by `X` -/
theorem expandH_func_step (tbl : List MacroDef) (m : MacroDef) (T L rp : HTok) (seg : List HTok) (X : List Item)
    (K : Nat) (hT : T.tok.kind = .TIDENT) (hTp : T.painted = false) (hThs : T.hs = [])
    (hl : lookup tbl (T.tok.lit.getD []) = some m) (hf : m.func = true) (hnv : m.variadic = false)
    (hnp : 0 < m.params.length) (hL : L.tok.kind = .TLPAREN) (hrphs : rp.hs = [])
    (hmp : matchParen (seg.map Item.tok ++ Item.tok rp :: X) 0 [] = some (seg, rp, X, false))
    (hcount : (splitTop (seg.length + 1) 0 seg []).length = m.params.length)
    (hplain : ∀ t ∈ seg, (t.tok.kind ≠ .TIDENT ∨ lookup tbl (t.tok.lit.getD []) = none) ∧ t.hs = [])
    (hK : seg.length < K) :
    outKeys (expandH false (K + 1) tbl (.tok T :: .tok L :: (seg.map Item.tok ++ Item.tok rp :: X))) =
      outKeys (expandH false K tbl
        ((MacroRef.respace (hsadd [m.name]
            (subst (fun i => (splitTop (seg.length + 1) 0 seg []).getD i [])
                   (fun i => (splitTop (seg.length + 1) 0 seg []).getD i []) (elems m m.body) false)) T.tok.space).1.map Item.tok ++
         pendItems (MacroRef.respace (hsadd [m.name]
            (subst (fun i => (splitTop (seg.length + 1) 0 seg []).getD i [])
                   (fun i => (splitTop (seg.length + 1) 0 seg []).getD i []) (elems m m.body) false)) T.tok.space).2 X)) := by
  rw [expandH]
  have hc : T.hs.contains m.name = false := by rw [hThs]; rfl
  have hact : actuals m seg = some (splitTop (seg.length + 1) 0 seg []) := by
    unfold actuals
    have : m.params.length ≠ 0 := by omega
    simp [hnv, this, hcount]
  simp only [hT, ne_eq, not_true_eq_false, hTp, Bool.false_eq_true, or_self, ↓reduceIte, hl, hc, hf, hL, hmp, hact]
  -- the complete replacement of each argument is the argument
  have hfull : ∀ i, i < (splitTop (seg.length + 1) 0 seg []).length →
      expandH false K tbl (((splitTop (seg.length + 1) 0 seg []).getD i []).map Item.tok) =
        ((splitTop (seg.length + 1) 0 seg []).getD i [], none, []) := by
    intro i hi
    have hget : (splitTop (seg.length + 1) 0 seg []).getD i [] = (splitTop (seg.length + 1) 0 seg [])[i] := by
      simp [List.getD_eq_getElem?_getD, hi]
    have hmem : (splitTop (seg.length + 1) 0 seg []).getD i [] ∈ splitTop (seg.length + 1) 0 seg [] := by
      rw [hget]; exact List.getElem_mem hi
    apply expandH_plain
    · have := splitTop_len seg _ _ [] _ hmem
      simp only [List.length_nil, Nat.add_zero] at this
      omega
    · intro t ht
      rcases splitTop_mem seg _ _ [] _ hmem t ht with h | h
      · exact (hplain t h).1
      · cases h
  generalize hA : splitTop (seg.length + 1) 0 seg [] = A at hcount hfull ⊢
  have hAmem : ∀ a ∈ A, ∀ x ∈ a, x ∈ seg := by
    intro a ha x hx
    rw [← hA] at ha
    rcases splitTop_mem seg _ _ [] a ha x hx with h | h
    · exact h
    · cases h
  have hF : (List.range A.length).map (fun i => if usedPlain m i = true then
        expandH false K tbl (List.map Item.tok (A.getD i [])) else ([], none, [])) =
      (List.range A.length).map (fun i => if usedPlain m i = true then (A.getD i [], none, []) else ([], none, [])) := by
    apply List.map_congr_left
    intro i hi
    rw [List.mem_range] at hi
    split
    · rw [hfull i hi]
    · rfl
  rw [hF]
  have hnone : List.findSome? (fun x : List HTok × Option RErr × List Flag => x.2.1)
      ((List.range A.length).map (fun i => if usedPlain m i = true then (A.getD i [], none, []) else ([], none, []))) = none := by
    rw [List.findSome?_eq_none_iff]
    intro x hx
    obtain ⟨i, _, rfl⟩ := List.mem_map.mp hx
    split <;> rfl
  simp only [hnone]
  have hhs : union (inter T.hs rp.hs) [m.name] = [m.name] := by simp [hThs, inter, union]
  rw [hhs]
  have hdone : subst (fun i => A.getD i [])
      (fun i => List.map (fun t : HTok => { t with hs := [] })
        (((List.range A.length).map (fun i => if usedPlain m i = true then (A.getD i [], none, []) else
            (([], none, []) : List HTok × Option RErr × List Flag))).getD i default).1) (elems m m.body) false =
      subst (fun i => A.getD i []) (fun i => A.getD i []) (elems m m.body) false := by
    apply subst_congr
    intro i sp hmem
    have hlt : i < A.length := by
      have := elems_param_lt m m.body i sp hmem
      simp only [hnv, Bool.false_eq_true, ↓reduceIte] at this
      omega
    have hused : usedPlain m i = true := by
      unfold usedPlain
      rw [List.any_eq_true]
      exact ⟨_, hmem, by simp⟩
    have hg : ((List.range A.length).map (fun i => if usedPlain m i = true then (A.getD i [], none, []) else
        (([], none, []) : List HTok × Option RErr × List Flag))).getD i default = (A.getD i [], none, []) := by
      simp [List.getD_eq_getElem?_getD, hlt, hused]
    rw [hg]
    simp only
    have hmemA : A.getD i [] ∈ A := by
      have : A.getD i [] = A[i] := by simp [List.getD_eq_getElem?_getD, hlt]
      rw [this]; exact List.getElem_mem hlt
    rw [List.map_congr_left (g := id)]
    · simp
    · intro t ht
      have := (hplain t (hAmem _ hmemA t ht)).2
      cases t; simp_all
  rw [hdone]
  rfl


end CprocVerif.PP

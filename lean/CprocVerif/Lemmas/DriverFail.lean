import CprocVerif.Model.DriverFail

/-! C18: invariants of the spawn loop and of the `wait()` loop of `buildobj`. -/

namespace CprocVerif.DriverFailLemmas
open CprocVerif.DriverFail

/-- the status with which stage `i` is handed back by `wait()` (first mention in the schedule) -/
def firstStatus (reaps : List Reap) (i : Nat) : Option Status :=
  (reaps.find? (·.stage == i)).map (·.status)

/-- bookkeeping invariant: `npids` counts the non-zero pid slots -/
structure WF (s : PState) : Prop where
  nodup : s.live.Nodup
  count : s.npids = s.live.length

/-- kill discipline: after the first failure every outstanding child has been sent SIGTERM, and
nobody is signalled twice or without a failure -/
structure KillInv (s : PState) : Prop where
  sig : s.success = false → ∀ i ∈ s.live, i ∈ s.signalled
  nodup : s.signalled.Nodup
  clean : s.success = true → s.signalled = []

theorem nodup_reverse' {α} {l : List α} (h : l.Nodup) : l.reverse.Nodup := by
  rw [List.Nodup, List.pairwise_reverse]
  exact h.imp fun h' => h'.symm

theorem all_congr' {α} {l : List α} {f g : α → Bool} (h : ∀ i ∈ l, f i = g i) : l.all f = l.all g := by
  induction l with
  | nil => rfl
  | cons a r ih =>
    simp only [List.all_cons]
    rw [h a (by simp), ih (fun i hi => h i (by simp [hi]))]

theorem killBlock_wf {s : PState} (h : WF s) : WF (killBlock s) := ⟨h.nodup, h.count⟩

theorem killBlock_inv {s : PState} (hw : WF s) (h : KillInv s) : KillInv (killBlock s) := by
  cases hs : s.success with
  | true =>
    have hc := h.clean hs
    by_cases hn : s.npids > 0
    · refine ⟨?_, ?_, ?_⟩
      · intro _ i hi
        have hi' : i ∈ s.live := hi
        simp [killBlock, hs, hn, hc, hi']
      · simp only [killBlock, hs, hn, hc, Bool.true_and, decide_true, if_true, List.append_nil]
        exact nodup_reverse' hw.nodup
      · intro h'; simp [killBlock] at h'
    · have hl : s.live = [] := by
        have : s.live.length = 0 := by have := hw.count; omega
        exact List.length_eq_zero_iff.1 this
      refine ⟨?_, ?_, ?_⟩
      · intro _ i hi; simp [killBlock, hl] at hi
      · simp [killBlock, hs, hn, hc]
      · intro h'; simp [killBlock] at h'
  | false =>
    refine ⟨?_, ?_, ?_⟩
    · intro _ i hi
      have := h.sig hs i hi
      simp [killBlock, hs, this]
    · simpa [killBlock, hs] using h.nodup
    · intro h'; simp [killBlock] at h'

theorem stepReap_wf (r : Reap) {s : PState} (h : WF s) : WF (stepReap r s) := by
  unfold stepReap
  by_cases hm : r.stage ∈ s.live
  · simp only [hm, if_true]
    have hw1 : WF { s with npids := s.npids - 1, live := s.live.erase r.stage } :=
      ⟨h.nodup.erase _, by simp [List.length_erase_of_mem hm, h.count]⟩
    cases r.status with
    | ok => exact ⟨hw1.nodup, hw1.count⟩
    | fail => exact killBlock_wf hw1
  · simp only [hm, if_false]; exact h

theorem stepReap_inv (r : Reap) {s : PState} (hw : WF s) (h : KillInv s) : KillInv (stepReap r s) := by
  unfold stepReap
  by_cases hm : r.stage ∈ s.live
  · simp only [hm, if_true]
    have hw1 : WF { s with npids := s.npids - 1, live := s.live.erase r.stage } :=
      ⟨hw.nodup.erase _, by simp [List.length_erase_of_mem hm, hw.count]⟩
    have hk1 : KillInv { s with npids := s.npids - 1, live := s.live.erase r.stage } :=
      ⟨fun hs i hi => h.sig hs i (List.mem_of_mem_erase hi), h.nodup, h.clean⟩
    cases r.status with
    | ok => exact ⟨hk1.sig, hk1.nodup, hk1.clean⟩
    | fail => exact killBlock_inv hw1 hk1
  · simp only [hm, if_false]; exact h

/-! ### the spawn loop -/

theorem spawnLoop_spec (ps : PipeScript) : ∀ (fuel i : Nat) (s : PState),
    WF s → KillInv s → s.success = true → (∀ x ∈ s.live, x < i) →
    let s' := spawnLoop ps fuel i s
    WF s' ∧ KillInv s' ∧ s'.live = s.live ++ (List.range' i fuel).takeWhile ps.ok ∧
      (s'.success = true ↔ ∀ j, i ≤ j → j < i + fuel → ps.ok j = true) ∧ s'.finished = s.finished := by
  intro fuel
  induction fuel with
  | zero =>
    intro i s hw hk hs _
    simp only [spawnLoop]
    refine ⟨hw, hk, by simp, ?_, by simp⟩
    simp only [hs, true_iff]
    intro j h1 h2; omega
  | succ fuel ih =>
    intro i s hw hk hs hlt
    simp only [spawnLoop]
    by_cases hok : ps.ok i = true
    · simp only [hok, if_true]
      have hw1 : WF { s with live := s.live ++ [i], npids := s.npids + 1 } := by
        refine ⟨?_, by simp [hw.count]⟩
        rw [List.nodup_append]
        refine ⟨hw.nodup, by simp, ?_⟩
        intro a ha b hb
        simp only [List.mem_singleton] at hb
        subst hb
        exact Nat.ne_of_lt (hlt a ha)
      have hk1 : KillInv { s with live := s.live ++ [i], npids := s.npids + 1 } :=
        ⟨fun h' => by simp [hs] at h', hk.nodup, hk.clean⟩
      have hlt1 : ∀ x ∈ s.live ++ [i], x < i + 1 := by
        intro x hx
        rcases List.mem_append.1 hx with h1 | h1
        · exact Nat.lt_succ_of_lt (hlt x h1)
        · simp at h1; omega
      obtain ⟨a, b, c, d, e⟩ := ih (i + 1) _ hw1 hk1 hs hlt1
      refine ⟨a, b, ?_, ?_, e⟩
      · rw [c]; simp [List.range'_succ, hok, List.append_assoc]
      · rw [d]
        constructor
        · intro h j h1 h2
          by_cases hj : j = i
          · subst hj; exact hok
          · exact h j (by omega) (by omega)
        · intro h j h1 h2; exact h j (by omega) (by omega)
    · have hok' : ps.ok i = false := by simpa using hok
      simp only [hok', Bool.false_eq_true, if_false]
      refine ⟨killBlock_wf hw, killBlock_inv hw hk, ?_, ?_, rfl⟩
      · simp [killBlock, List.range'_succ, hok']
      · simp only [killBlock]
        constructor
        · intro h; simp at h
        · intro h; have := h i (Nat.le_refl _) (by omega); simp [hok'] at this

theorem initP_wf : WF initP := ⟨List.nodup_nil, rfl⟩
theorem initP_inv : KillInv initP := ⟨fun h => by simp [initP] at h, List.nodup_nil, fun _ => rfl⟩

theorem spawned_spec (ps : PipeScript) :
    let s := spawnLoop ps ps.n 0 initP
    WF s ∧ KillInv s ∧ s.live = startedOf ps ∧ (s.success = true ↔ ∀ j < ps.n, ps.ok j = true) ∧ s.finished = [] := by
  obtain ⟨a, b, c, d, e⟩ := spawnLoop_spec ps ps.n 0 initP initP_wf initP_inv rfl (by simp [initP])
  refine ⟨a, b, ?_, ?_, e⟩
  · rw [c]; simp [initP, startedOf, List.range_eq_range']
  · rw [d]; simp

/-! ### the wait loop -/

theorem firstStatus_cons_ne {r : Reap} {rest : List Reap} {i : Nat} (h : r.stage ≠ i) :
    firstStatus (r :: rest) i = firstStatus rest i := by
  have : (r.stage == i) = false := beq_eq_false_iff_ne.2 h
  simp [firstStatus, List.find?_cons, this]

theorem firstStatus_cons_eq (r : Reap) (rest : List Reap) : firstStatus (r :: rest) r.stage = some r.status := by
  simp [firstStatus, List.find?_cons]

/-- the loop ends (all children reaped) exactly with `success` = nothing failed before and every
outstanding child is handed back with status ok -/
theorem reapLoop_spec : ∀ (reaps : List Reap) (s s' : PState), WF s → reapLoop reaps s = some s' →
    s'.live = [] ∧ s'.npids = 0 ∧
    s'.success = (s.success && s.live.all fun i => firstStatus reaps i != some .fail) := by
  intro reaps
  induction reaps with
  | nil =>
    intro s s' hw h
    simp only [reapLoop] at h
    split at h
    · rename_i hn
      simp only [Option.some.injEq] at h; subst h
      have hl : s.live = [] := List.length_eq_zero_iff.1 (by rw [← hw.count]; exact hn)
      simp [hl, hn]
    · simp at h
  | cons r rest ih =>
    intro s s' hw h
    simp only [reapLoop] at h
    split at h
    · rename_i hn
      simp only [Option.some.injEq] at h; subst h
      have hl : s.live = [] := List.length_eq_zero_iff.1 (by rw [← hw.count]; exact hn)
      simp [hl, hn]
    · obtain ⟨h1, h2, h3⟩ := ih _ _ (stepReap_wf r hw) h
      refine ⟨h1, h2, ?_⟩
      rw [h3]
      unfold stepReap
      by_cases hm : r.stage ∈ s.live
      · simp only [hm, if_true]
        have hne : ∀ i ∈ s.live.erase r.stage, r.stage ≠ i := by
          intro i hi e; subst e
          exact (List.Nodup.not_mem_erase hw.nodup) hi
        have hall : ((s.live.erase r.stage).all fun i => firstStatus rest i != some .fail) =
            ((s.live.erase r.stage).all fun i => firstStatus (r :: rest) i != some .fail) := by
          apply all_congr'
          intro i hi
          rw [firstStatus_cons_ne (hne i hi)]
        have hsplit : (s.live.all fun i => firstStatus (r :: rest) i != some .fail) =
            ((firstStatus (r :: rest) r.stage != some .fail) &&
              (s.live.erase r.stage).all fun i => firstStatus (r :: rest) i != some .fail) := by
          rw [Bool.eq_iff_iff]
          simp only [List.all_eq_true, Bool.and_eq_true]
          constructor
          · intro h'
            exact ⟨h' _ hm, fun i hi => h' i (List.mem_of_mem_erase hi)⟩
          · rintro ⟨ha, hb⟩ i hi
            by_cases e : i = r.stage
            · subst e; exact ha
            · exact hb i ((List.mem_erase_of_ne e).2 hi)
        rw [hsplit, firstStatus_cons_eq, ← hall]
        have hd : (some Status.ok != some Status.fail) = true := by decide
        cases r.status with
        | ok => simp [hd]
        | fail => simp [killBlock]
      · simp only [hm, if_false]
        congr 1
        apply all_congr'
        intro i hi
        rw [firstStatus_cons_ne]
        intro e; subst e; exact hm hi

theorem reapLoop_inv : ∀ (reaps : List Reap) (s s' : PState), WF s → KillInv s → reapLoop reaps s = some s' →
    KillInv s' := by
  intro reaps
  induction reaps with
  | nil =>
    intro s s' _ hk h
    simp only [reapLoop] at h
    split at h
    · simp only [Option.some.injEq] at h; subst h; exact hk
    · simp at h
  | cons r rest ih =>
    intro s s' hw hk h
    simp only [reapLoop] at h
    split at h
    · simp only [Option.some.injEq] at h; subst h; exact hk
    · exact ih _ _ (stepReap_wf r hw) (stepReap_inv r hw hk) h

/-- with a fair schedule `wait()` always returns -/
theorem reapLoop_total : ∀ (reaps : List Reap) (s : PState), WF s →
    (∀ i ∈ s.live, ∃ r ∈ reaps, r.stage = i) → ∃ s', reapLoop reaps s = some s' := by
  intro reaps
  induction reaps with
  | nil =>
    intro s hw hf
    have hl : s.live = [] := by
      cases hs : s.live with
      | nil => rfl
      | cons a l =>
        obtain ⟨r, hr, _⟩ := hf a (by simp [hs])
        simp at hr
    have : s.npids = 0 := by rw [hw.count, hl]; rfl
    exact ⟨s, by simp [reapLoop, this]⟩
  | cons r rest ih =>
    intro s hw hf
    simp only [reapLoop]
    by_cases hn : s.npids = 0
    · exact ⟨s, by simp [hn]⟩
    · simp only [hn, if_false]
      apply ih _ (stepReap_wf r hw)
      intro i hi
      unfold stepReap at hi
      by_cases hm : r.stage ∈ s.live
      · simp only [hm, if_true] at hi
        have hi' : i ∈ s.live.erase r.stage := by
          cases hst : r.status with
          | ok => simpa [hst] using hi
          | fail => simpa [hst, killBlock] using hi
        have hne : i ≠ r.stage := by
          intro e; subst e; exact (List.Nodup.not_mem_erase hw.nodup) hi'
        obtain ⟨r', hr', he⟩ := hf i (List.mem_of_mem_erase hi')
        rcases List.mem_cons.1 hr' with e | e
        · subst e; exact absurd he.symm hne
        · exact ⟨r', e, he⟩
      · simp only [hm, if_false] at hi
        obtain ⟨r', hr', he⟩ := hf i hi
        rcases List.mem_cons.1 hr' with e | e
        · subst e; subst he; exact absurd hi hm
        · exact ⟨r', e, he⟩

end CprocVerif.DriverFailLemmas

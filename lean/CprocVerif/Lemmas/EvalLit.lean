import CprocVerif.Lemmas.EvalTree

/-!
# Lemmas/EvalLit — integer literals: `strtoull`, `inttype`, `parseNumber` against 6.4.4.1
(helper lemmas for property C04, continued)
-/
namespace CprocVerif.Eval
open CprocVerif.CInt

/-- the suffix a (lower-cased) suffix spelling stands for. -/
def sfxOf (e : String) : Option Suffix :=
  if e = "" then some ⟨false, 0⟩ else if e = "u" then some ⟨true, 0⟩
  else if e = "l" then some ⟨false, 1⟩ else if e = "ul" ∨ e = "lu" then some ⟨true, 1⟩
  else if e = "ll" then some ⟨false, 2⟩ else if e = "ull" ∨ e = "llu" then some ⟨true, 2⟩
  else none

theorem typehasint_eq (t : LitTy) (v : Nat) :
    typehasint (litSize t) (litSigned t) v = decide ((v : Int) ≤ maxVal t.toIntTy) := by
  cases t <;> simp [typehasint, litSize, litSigned, maxVal, LitTy.toIntTy, IntTy.int, IntTy.uint,
    IntTy.long, IntTy.ulong] <;> omega

theorem inRange_lit (t : LitTy) (v : Nat) : InRange t.toIntTy (v : Int) ↔ (v : Int) ≤ maxVal t.toIntTy := by
  cases t <;> simp [InRange, minVal, LitTy.toIntTy, IntTy.int, IntTy.uint, IntTy.long, IntTy.ulong] <;> omega

theorem find?_cons_if {α : Type} (p : α → Bool) (a : α) (as : List α) :
    (a :: as).find? p = if p a = true then some a else as.find? p := by
  cases h : p a <;> simp [List.find?, h]

theorem inttype_correct (v : Nat) (decimal : Bool) (s : List Char) (sfx : Suffix)
    (hs : sfxOf (String.ofList (s.map toLower)) = some sfx) :
    inttype v decimal s = litType sfx decimal v := by
  simp only [inttype]
  generalize String.ofList (s.map toLower) = e at hs
  simp only [sfxOf] at hs
  repeat' split at hs
  all_goals first | cases hs | skip
  all_goals
    (try (rename_i h; first | subst h | (rcases h with h | h <;> subst h)))
  all_goals
    cases decimal <;>
    simp [inttypeLoop, limits, typehasint_eq, litType, litList, inRange_lit, List.findIdx?, List.findIdx?.go,
      find?_cons_if]

/-- the characters of an integer suffix -/
def SuffixChars (sfx : List Char) : Prop := ∀ c ∈ sfx, c = 'u' ∨ c = 'U' ∨ c = 'l' ∨ c = 'L'

def AllDigits (base : Nat) (cs : List Char) : Prop := ∀ c ∈ cs, isDigitOf base c = true

/-- numeric value of a digit string -/
def digitsOf (cs : List Char) : List Nat := cs.map fun c => (digitVal c).getD 0

theorem suffix_not_digit {base : Nat} (hb : base ≤ 16) {c : Char}
    (hc : c = 'u' ∨ c = 'U' ∨ c = 'l' ∨ c = 'L') : isDigitOf base c = false := by
  rcases hc with rfl | rfl | rfl | rfl <;> simp [isDigitOf, digitVal] <;> omega

theorem takeDigits_append {base : Nat} (hb : base ≤ 16) (cs sfx : List Char) (h : AllDigits base cs)
    (hs : SuffixChars sfx) : takeDigits base (cs ++ sfx) = (digitsOf cs, sfx) := by
  induction cs with
  | nil =>
    cases sfx with
    | nil => rfl
    | cons c rest =>
      have := suffix_not_digit hb (hs c (List.mem_cons_self ..))
      simp only [isDigitOf] at this
      simp only [List.nil_append, takeDigits, digitsOf, List.map_nil]
      split
      · rename_i d hd; rw [hd] at this; simp at this; simp [this]
      · rfl
  | cons c cs ih =>
    have hc := h c (List.mem_cons_self ..)
    have ih' := ih (fun x hx => h x (List.mem_cons_of_mem _ hx))
    simp only [isDigitOf] at hc
    simp only [List.cons_append, takeDigits, digitsOf, List.map_cons]
    split
    · rename_i d hd
      rw [hd] at hc; simp at hc
      simp [hc, ih', hd, digitsOf]
    · rename_i hd; rw [hd] at hc; simp at hc

theorem skipHexPrefix_ne16 {base : Nat} (hb : base ≠ 16) (src : List Char) :
    skipHexPrefix src base = src := by
  unfold skipHexPrefix
  split
  · simp [hb]
  · rfl

theorem strtoull_digits {base : Nat} (hb : base ≤ 16) (hb10 : base ≠ 16) (cs sfx : List Char)
    (hne : cs ≠ []) (h : AllDigits base cs) (hs : SuffixChars sfx) :
    strtoull (cs ++ sfx) base =
      some (min (numVal base (digitsOf cs)) (W - 1), decide (W ≤ numVal base (digitsOf cs)), sfx) := by
  have : digitsOf cs ≠ [] := by
    cases cs with
    | nil => exact absurd rfl hne
    | cons c cs => simp [digitsOf]
  simp [strtoull, skipHexPrefix_ne16 hb10, takeDigits_append hb cs sfx h hs, this]

theorem strtoull_hex (x : Char) (hx : x = 'x' ∨ x = 'X') (cs sfx : List Char)
    (hne : cs ≠ []) (h : AllDigits 16 cs) (hs : SuffixChars sfx) :
    strtoull ('0' :: x :: (cs ++ sfx)) 16 =
      some (min (numVal 16 (digitsOf cs)) (W - 1), decide (W ≤ numVal 16 (digitsOf cs)), sfx) := by
  cases cs with
  | nil => exact absurd rfl hne
  | cons c cs =>
    have hc := h c (List.mem_cons_self ..)
    have htd := takeDigits_append (base := 16) (by decide) (c :: cs) sfx h hs
    simp only [List.cons_append] at htd
    have hsk : skipHexPrefix ('0' :: x :: c :: (cs ++ sfx)) 16 = c :: (cs ++ sfx) := by
      simp [skipHexPrefix, hx, hc]
    simp only [List.cons_append, strtoull, hsk, htd]
    simp [digitsOf]

/-- what 6.4.4.1 prescribes for an integer constant of value `v`: the first fitting type of the
list; no type (a constraint violation, 6.4.4p2) otherwise — in particular for `v ≥ 2^64`. -/
def litSpec (v : Nat) (decimal : Bool) (s : Suffix) : Lit :=
  if W ≤ v then .error
  else match litType s decimal v with
    | some t => .int v t
    | none => .error

theorem parse_core (tok : List Char) {base v : Nat} {sfx : List Char} {s : Suffix}
    (hfl : hasFloatChar tok (baseOf tok) = false) (hb : baseOf tok = base)
    (hst : strtoull (if base = 2 then tok.drop 2 else tok) base
      = some (min v (W - 1), decide (W ≤ v), sfx))
    (hsf : sfxOf (String.ofList (sfx.map toLower)) = some s) :
    parseNumber tok = litSpec v (base == 10) s := by
  subst hb
  simp only [parseNumber, hfl, hst, Bool.false_eq_true, if_false, litSpec]
  by_cases hw : W ≤ v
  · simp [hw]
  · have : min v (W - 1) = v := by rw [W_eq] at hw ⊢; omega
    simp only [hw, decide_false, Bool.false_eq_true, if_false, this, inttype_correct v _ sfx s hsf]
    rfl

theorem not_floatChar_of_digit {base : Nat} (hb : base = 2 ∨ base = 8 ∨ base = 10 ∨ base = 16) {c : Char}
    (h : isDigitOf base c = true) : isFloatChar base c = false := by
  have key : ∀ x : Char, isDigitOf base x = false → (c == x) = false := fun x hx => by
    rw [beq_eq_false_iff_ne]; intro e; rw [e, hx] at h; cases h
  rcases hb with rfl | rfl | rfl | rfl <;> simp only [isFloatChar]
  · simp [key _ (show isDigitOf 2 '.' = false by decide), key _ (show isDigitOf 2 'e' = false by decide),
      key _ (show isDigitOf 2 'E' = false by decide)]
  · simp [key _ (show isDigitOf 8 '.' = false by decide), key _ (show isDigitOf 8 'e' = false by decide),
      key _ (show isDigitOf 8 'E' = false by decide)]
  · simp [key _ (show isDigitOf 10 '.' = false by decide), key _ (show isDigitOf 10 'e' = false by decide),
      key _ (show isDigitOf 10 'E' = false by decide)]
  · simp [key _ (show isDigitOf 16 '.' = false by decide), key _ (show isDigitOf 16 'p' = false by decide),
      key _ (show isDigitOf 16 'P' = false by decide)]

theorem not_floatChar_of_suffix {base : Nat} {c : Char} (h : c = 'u' ∨ c = 'U' ∨ c = 'l' ∨ c = 'L') :
    isFloatChar base c = false := by
  rcases h with rfl | rfl | rfl | rfl <;> simp only [isFloatChar] <;> split <;> decide

theorem hasFloatChar_false {base : Nat} (hb : base = 2 ∨ base = 8 ∨ base = 10 ∨ base = 16)
    (pre cs sfx : List Char) (hp : ∀ c ∈ pre, c = '0' ∨ c = 'x' ∨ c = 'X' ∨ c = 'b' ∨ c = 'B')
    (h : AllDigits base cs) (hs : SuffixChars sfx) : hasFloatChar (pre ++ cs ++ sfx) base = false := by
  simp only [hasFloatChar, List.any_eq_false, List.mem_append]
  rintro c ((hc | hc) | hc)
  · rcases hp c hc with rfl | rfl | rfl | rfl | rfl <;> simp only [isFloatChar] <;> split <;> decide
  · simp [not_floatChar_of_digit hb (h c hc)]
  · simp [not_floatChar_of_suffix (hs c hc)]

/-- decimal constants -/
theorem literal_decimal (cs sfx : List Char) (hne : cs ≠ []) (h : AllDigits 10 cs)
    (h0 : cs.head? ≠ some '0') (hs : SuffixChars sfx) {s : Suffix}
    (hsf : sfxOf (String.ofList (sfx.map toLower)) = some s) :
    parseNumber (cs ++ sfx) = litSpec (numVal 10 (digitsOf cs)) true s := by
  have hb : baseOf (cs ++ sfx) = 10 := by
    cases cs with
    | nil => exact absurd rfl hne
    | cons c cs => simp only [List.head?_cons, ne_eq, Option.some.injEq] at h0; simp [baseOf, h0]
  have hfl := hasFloatChar_false (base := 10) (by simp) [] cs sfx (by simp) h hs
  simp only [List.nil_append] at hfl
  have := parse_core (cs ++ sfx) (base := 10) (by rw [hb]; exact hfl) hb
    (by simpa using strtoull_digits (base := 10) (by decide) (by decide) cs sfx hne h hs) hsf
  simpa using this

/-- hexadecimal constants `0x…` / `0X…` -/
theorem literal_hex (x : Char) (hx : x = 'x' ∨ x = 'X') (cs sfx : List Char) (hne : cs ≠ [])
    (h : AllDigits 16 cs) (hs : SuffixChars sfx) {s : Suffix}
    (hsf : sfxOf (String.ofList (sfx.map toLower)) = some s) :
    parseNumber ('0' :: x :: (cs ++ sfx)) = litSpec (numVal 16 (digitsOf cs)) false s := by
  have hb : baseOf ('0' :: x :: (cs ++ sfx)) = 16 := by
    rcases hx with rfl | rfl <;> simp [baseOf]
  have hfl := hasFloatChar_false (base := 16) (by simp) ['0', x] cs sfx
    (by intro c hc; simp at hc; rcases hc with rfl | rfl; exact Or.inl rfl; rcases hx with rfl | rfl <;> simp) h hs
  simp only [List.cons_append, List.nil_append, List.append_assoc] at hfl
  have := parse_core ('0' :: x :: (cs ++ sfx)) (base := 16) (by rw [hb]; exact hfl) hb
    (by simpa using strtoull_hex x hx cs sfx hne h hs) hsf
  simpa using this

/-- binary constants `0b…` / `0B…` -/
theorem literal_binary (x : Char) (hx : x = 'b' ∨ x = 'B') (cs sfx : List Char) (hne : cs ≠ [])
    (h : AllDigits 2 cs) (hs : SuffixChars sfx) {s : Suffix}
    (hsf : sfxOf (String.ofList (sfx.map toLower)) = some s) :
    parseNumber ('0' :: x :: (cs ++ sfx)) = litSpec (numVal 2 (digitsOf cs)) false s := by
  have hb : baseOf ('0' :: x :: (cs ++ sfx)) = 2 := by
    rcases hx with rfl | rfl <;> simp [baseOf]
  have hfl := hasFloatChar_false (base := 2) (by simp) ['0', x] cs sfx
    (by intro c hc; simp at hc; rcases hc with rfl | rfl; exact Or.inl rfl; rcases hx with rfl | rfl <;> simp) h hs
  simp only [List.cons_append, List.nil_append, List.append_assoc] at hfl
  have := parse_core ('0' :: x :: (cs ++ sfx)) (base := 2) (by rw [hb]; exact hfl) hb
    (by simpa using strtoull_digits (base := 2) (by decide) (by decide) cs sfx hne h hs) hsf
  simpa using this

theorem numVal_zero_cons (base : Nat) (ds : List Nat) : numVal base (0 :: ds) = numVal base ds := by
  simp [numVal]

/-- octal constants `0…` (including `0` itself) -/
theorem literal_octal (cs sfx : List Char) (h : AllDigits 8 cs) (hs : SuffixChars sfx) {s : Suffix}
    (hsf : sfxOf (String.ofList (sfx.map toLower)) = some s) :
    parseNumber ('0' :: (cs ++ sfx)) = litSpec (numVal 8 (digitsOf cs)) false s := by
  have h8 : AllDigits 8 ('0' :: cs) := by
    intro c hc; simp at hc; rcases hc with rfl | hc
    · decide
    · exact h c hc
  have hb : baseOf ('0' :: (cs ++ sfx)) = 8 := by
    simp only [baseOf, if_true]
    cases hcs : cs ++ sfx with
    | nil => rfl
    | cons c rest =>
      have hc : isDigitOf 8 c = true ∨ (c = 'u' ∨ c = 'U' ∨ c = 'l' ∨ c = 'L') := by
        cases cs with
        | nil => simp at hcs; subst hcs; exact Or.inr (hs c (List.mem_cons_self ..))
        | cons c' cs' => simp at hcs; obtain ⟨rfl, _⟩ := hcs; exact Or.inl (h c' (List.mem_cons_self ..))
      have hx : c ≠ 'x' ∧ c ≠ 'X' ∧ c ≠ 'b' ∧ c ≠ 'B' := by
        rcases hc with hc | hc
        · have k : ∀ y : Char, isDigitOf 8 y = false → c ≠ y := fun y hy e => by rw [e, hy] at hc; cases hc
          exact ⟨k _ (by decide), k _ (by decide), k _ (by decide), k _ (by decide)⟩
        · rcases hc with rfl | rfl | rfl | rfl <;> decide
      simp [hx.1, hx.2.1, hx.2.2.1, hx.2.2.2]
  have hfl := hasFloatChar_false (base := 8) (by simp) [] ('0' :: cs) sfx (by simp) h8 hs
  simp only [List.nil_append, List.cons_append] at hfl
  have := parse_core ('0' :: (cs ++ sfx)) (base := 8) (by rw [hb]; exact hfl) hb
    (by simpa using strtoull_digits (base := 8) (by decide) (by decide) ('0' :: cs) sfx (by simp) h8 hs) hsf
  simp only [digitsOf, List.map_cons] at this
  have e0 : (digitVal '0').getD 0 = 0 := by decide
  rw [e0, numVal_zero_cons] at this
  simpa [digitsOf] using this

end CprocVerif.Eval

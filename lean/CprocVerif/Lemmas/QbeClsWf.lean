/-
  C03, classes — static part: what `wf` (Spec/QbeWf.lean, unchanged) guarantees about the classes of
  every instruction, jump and phi of every function, extracted from the monadic `for` loops of
  `wfFuncPre`, `checkIns`, `checkCall`, `checkJump`.
-/
import CprocVerif.Spec.Qbe
import CprocVerif.Spec.QbeWf

namespace CprocVerif.C03.Cls
open CprocVerif.Qbe

/-! ## `Except`/`for` plumbing -/

theorem errIf_ok {c : Bool} {msg : String} : errIf c msg = .ok () ↔ c = false := by
  unfold errIf; cases c <;> simp

theorem errIf_bind_ok {β : Type} {c : Bool} {msg : String} {k : Unit → Except String β} {r : β} :
    (errIf c msg >>= k) = .ok r ↔ c = false ∧ k () = .ok r := by
  unfold errIf; cases c <;> simp [bind, Except.bind]

theorem throw_bind_ok {α β : Type} {e : String} {k : α → Except String β} {r : β} :
    ((throw e : Except String α) >>= k) = .ok r ↔ False := by
  simp [bind, Except.bind, throw, throwThe, MonadExceptOf.throw]

theorem error_bind_ok {α β : Type} {e : String} {k : α → Except String β} {r : β} :
    ((Except.error e : Except String α) >>= k) = .ok r ↔ False := by
  simp [bind, Except.bind]

theorem bind_ok {ε α β : Type} {x : Except ε α} {k : α → Except ε β} {r : β}
    (h : (x >>= k) = .ok r) : ∃ a, x = .ok a ∧ k a = .ok r := by
  cases x with
  | error e => simp [bind, Except.bind] at h
  | ok a => exact ⟨a, rfl, by simpa [bind, Except.bind] using h⟩

/-- A `for x in l do body` in `Except` that succeeded ran `body` successfully for every element
    (the bodies here never `break`). -/
theorem forIn_list_ok {α ε : Type} (P : α → Prop) {f : α → PUnit → Except ε (ForInStep PUnit)}
    (hbody : ∀ a s, f a PUnit.unit = .ok s → s = .yield PUnit.unit ∧ P a) :
    ∀ (l : List α) r, forIn l PUnit.unit f = Except.ok r → ∀ a ∈ l, P a := by
  intro l
  induction l with
  | nil => intro r _ a ha; cases ha
  | cons x xs ih =>
    intro r h a ha
    rw [List.forIn_cons] at h
    cases hx : f x PUnit.unit with
    | error e => rw [hx] at h; cases h
    | ok s =>
      obtain ⟨hs, hp⟩ := hbody x s hx
      subst hs
      rw [hx] at h
      simp only [bind, Except.bind] at h
      cases ha with
      | head => exact hp
      | tail _ ha => exact ih r h a ha

theorem forIn_array_ok {α ε : Type} (P : α → Prop) {f : α → PUnit → Except ε (ForInStep PUnit)}
    (hbody : ∀ a s, f a PUnit.unit = .ok s → s = .yield PUnit.unit ∧ P a)
    (xs : Array α) (r : PUnit) (h : forIn xs PUnit.unit f = Except.ok r) : ∀ a ∈ xs.toList, P a := by
  rw [← Array.forIn_toList] at h
  exact forIn_list_ok P hbody _ _ h

theorem forIn_range_ok {ε : Type} (P : Nat → Prop) {f : Nat → PUnit → Except ε (ForInStep PUnit)}
    (hbody : ∀ a s, f a PUnit.unit = .ok s → s = .yield PUnit.unit ∧ P a)
    (n : Nat) (r : PUnit) (h : forIn [0:n] PUnit.unit f = Except.ok r) : ∀ i, i < n → P i := by
  rw [Std.Legacy.Range.forIn_eq_forIn_range'] at h
  intro i hi
  refine forIn_list_ok P hbody _ _ h i ?_
  simp only [List.mem_range', Std.Legacy.Range.size]
  exact ⟨i, by omega, by omega⟩

/-! ## Facts checked per call, instruction, jump -/

/-- What `checkCall` established. -/
structure CallFacts (sigs : SigMap) (tc : ClsMap) (res : Option (String × Ty)) (callee : Val)
    (args : List (Ty × Val)) (varAt : Option Nat) : Prop where
  calleeOk : argOk tc .l callee = true
  argsCls : ∀ a ∈ args, argOk tc a.1.cls a.2 = true
  direct : ∀ name th sg, callee = .glob name th → sigs[name]? = some sg →
    sg.params.length ≤ args.length ∧
    (sg.variadic = false → args.length = sg.params.length) ∧
    tysAgree (args.map (·.1)) sg.params = true ∧
    (∀ i, varAt = some i → sg.variadic = true ∧ i = sg.params.length) ∧
    (∀ x t, res = some (x, t) → ∃ rt, sg.ret = some rt ∧ tyAgree t rt = true)

theorem checkCall_facts {sigs : SigMap} {types : Std.HashSet String} {tc : ClsMap}
    {res : Option (String × Ty)} {callee : Val} {args : List (Ty × Val)} {varAt : Option Nat}
    (h : checkCall sigs types tc res callee args varAt = .ok ()) :
    CallFacts sigs tc res callee args varAt := by
  unfold checkCall at h
  rw [errIf_bind_ok] at h
  obtain ⟨h1, h⟩ := h
  obtain ⟨_, hloop, h'⟩ := bind_ok h
  replace h := h'
  clear h'
  refine ⟨by simpa using h1, ?_, ?_⟩
  · refine forIn_list_ok (fun a => argOk tc a.1.cls a.2 = true) ?_ _ _ hloop
    intro a s hs
    obtain ⟨t, v⟩ := a
    simp only [errIf_bind_ok] at hs
    obtain ⟨_, h2, h3⟩ := hs
    cases h3
    exact ⟨rfl, by simpa using h2⟩
  · intro name th sg hcal hsg
    subst hcal
    have fin :
        decide (args.length < sg.params.length) = false →
        (!sg.variadic && decide (args.length > sg.params.length)) = false →
        (!tysAgree (List.map (fun x => x.fst) args) sg.params) = false →
        (∀ i, varAt = some i → sg.variadic = true ∧ i = sg.params.length) →
        (∀ x t, res = some (x, t) → ∃ rt, sg.ret = some rt ∧ tyAgree t rt = true) →
        sg.params.length ≤ args.length ∧
        (sg.variadic = false → args.length = sg.params.length) ∧
        tysAgree (args.map (·.1)) sg.params = true ∧
        (∀ i, varAt = some i → sg.variadic = true ∧ i = sg.params.length) ∧
        (∀ x t, res = some (x, t) → ∃ rt, sg.ret = some rt ∧ tyAgree t rt = true) := by
      intro a b c d e
      simp only [decide_eq_false_iff_not, Nat.not_lt] at a
      refine ⟨a, ?_, by simpa using c, d, e⟩
      intro hv
      rw [hv] at b
      simp only [Bool.not_false, Bool.true_and, decide_eq_false_iff_not, Nat.not_lt] at b
      omega
    cases res with
    | none =>
      cases varAt with
      | none =>
        simp only [hsg, errIf_bind_ok] at h
        exact fin h.1 h.2.1 h.2.2.1 (by simp) (by simp)
      | some i =>
        simp only [hsg, errIf_bind_ok] at h
        refine fin h.2.1 h.2.2.1 h.2.2.2.1 ?_ (by simp)
        intro j hj
        cases hj
        exact ⟨by simpa using h.2.2.2.2.1, by simpa using h.2.2.2.2.2.1⟩
    | some r =>
      obtain ⟨x, t⟩ := r
      cases hret : sg.ret with
      | none =>
        cases varAt with
        | none => simp only [hsg, hret, errIf_bind_ok, reduceCtorEq, and_false] at h
        | some i => simp only [hsg, hret, errIf_bind_ok, reduceCtorEq, and_false] at h
      | some rt =>
        cases varAt with
        | none =>
          simp only [hsg, hret, errIf_bind_ok, errIf_ok] at h
          rw [← hret]
          refine fin h.2.1 h.2.2.1 h.2.2.2.1 (by simp) ?_
          intro x' t' he
          cases he
          exact ⟨rt, hret, by simpa using h.2.2.2.2.2⟩
        | some i =>
          simp only [hsg, hret, errIf_bind_ok, errIf_ok] at h
          rw [← hret]
          refine fin h.2.2.1 h.2.2.2.1 h.2.2.2.2.1 ?_ ?_
          · intro j hj
            cases hj
            exact ⟨by simpa using h.2.2.2.2.2.1, by simpa using h.2.2.2.2.2.2.1⟩
          · intro x' t' he
            cases he
            exact ⟨rt, hret, by simpa using h.2.2.2.2.2.2.2⟩

/-- What `checkIns` established. -/
def InsFacts (sigs : SigMap) (tc : ClsMap) : Ins → Prop
  | .op res o args => ∃ ks, o.sig (res.map (·.2)) = some ks ∧ argsOk tc ks args = true
  | .call res callee args varAt => CallFacts sigs tc res callee args varAt

theorem checkIns_facts {sigs : SigMap} {types : Std.HashSet String} {tc : ClsMap} {i : Ins}
    (h : checkIns sigs types tc i = .ok ()) : InsFacts sigs tc i := by
  unfold checkIns at h
  split at h
  · cases h
  · cases i with
    | op res o args =>
      dsimp only at h
      split at h
      · cases h
      · rename_i ks hks
        split at h
        · rename_i hargs
          exact ⟨ks, hks, hargs⟩
        · cases h
    | call res callee args varAt => exact checkCall_facts h

/-- What `checkJump` established about classes. -/
def JumpFacts (f : Func) (tc : ClsMap) : Jump → Prop
  | .jnz v _ _ => argOk tc .w v = true
  | .ret (some v) => ∃ t, f.ret = some t ∧ argOk tc t.cls v = true
  | _ => True

theorem checkJump_facts {f : Func} {fi : FuncInfo} {tc : ClsMap} {j : Jump}
    (h : checkJump f fi tc j = .ok ()) : JumpFacts f tc j := by
  unfold checkJump at h
  obtain ⟨_, _, h'⟩ := bind_ok h
  replace h := h'
  clear h'
  cases j with
  | jmp l => trivial
  | hlt => trivial
  | jnz v a z =>
    show argOk tc .w v = true
    cases hu : undefinedTmp tc (Jump.jnz v a z).operands with
    | some t => rw [hu] at h; simp only [throw_bind_ok] at h
    | none =>
      rw [hu] at h
      simp only [errIf_ok] at h
      simpa using h
  | ret v =>
    cases v with
    | none => trivial
    | some v =>
      cases hu : undefinedTmp tc (Jump.ret (some v)).operands with
      | some t => rw [hu] at h; simp only [throw_bind_ok] at h
      | none =>
        rw [hu] at h
        cases hr : f.ret with
        | none => simp only [hr] at h; cases h
        | some t =>
          simp only [hr, errIf_ok] at h
          exact ⟨t, hr, by simpa using h⟩

/-! ## The class map of a function -/

/-- The static class environment: the class of every temporary defined in `f` (the map that
    `wfFuncPre` builds). -/
def tcOf (f : Func) : ClsMap := f.allDefs.foldl (fun m d => m.insert d.1 d.2) {}

theorem foldl_insert_lookup (l : List (String × Cls)) (init : ClsMap) (t : String) :
    (t ∉ l.map (·.1) → (l.foldl (fun m d => m.insert d.1 d.2) init)[t]? = init[t]?) ∧
    ((l.map (·.1)).Nodup → ∀ c, (t, c) ∈ l →
      (l.foldl (fun m d => m.insert d.1 d.2) init)[t]? = some c) := by
  induction l generalizing init with
  | nil => simp
  | cons d l ih =>
    obtain ⟨x, k⟩ := d
    simp only [List.foldl_cons, List.map_cons, List.mem_cons, not_or, List.nodup_cons]
    refine ⟨?_, ?_⟩
    · intro ⟨hne, hnot⟩
      rw [(ih _).1 hnot, Std.HashMap.getElem?_insert]
      have : (x == t) = false := by simpa using fun h => hne h.symm
      simp [this]
    · intro ⟨hx, hnd⟩ c hc
      cases hc with
      | inl h =>
        cases h
        rw [(ih _).1 hx, Std.HashMap.getElem?_insert]
        simp
      | inr h => exact (ih _).2 hnd c h

theorem tcOf_lookup {f : Func} (hnd : (f.allDefs.map (·.1)).Nodup) {t : String} {c : Cls}
    (h : (t, c) ∈ f.allDefs) : (tcOf f)[t]? = some c :=
  (foldl_insert_lookup f.allDefs {} t).2 hnd c h

theorem allDefs_param {f : Func} {q : Ty × String} (h : q ∈ f.params) :
    (q.2, q.1.cls) ∈ f.allDefs := by
  unfold Func.allDefs
  exact List.mem_append_left _ (List.mem_map.2 ⟨q, h, rfl⟩)

theorem allDefs_block {f : Func} {bi : Nat} {b : Block} (hb : f.blocks[bi]? = some b)
    {d : String × Cls} (h : d ∈ b.defsList) : d ∈ f.allDefs := by
  unfold Func.allDefs
  refine List.mem_append_right _ (List.mem_flatMap.2 ⟨b, ?_, h⟩)
  exact Array.mem_toList_iff.2 (Array.mem_of_getElem? hb)

theorem allDefs_phi {f : Func} {bi : Nat} {b : Block} (hb : f.blocks[bi]? = some b)
    {ph : Phi} (h : ph ∈ b.phis) : (ph.res, ph.k) ∈ f.allDefs :=
  allDefs_block hb (List.mem_append_left _ (List.mem_map.2 ⟨ph, h, rfl⟩))

theorem allDefs_op {f : Func} {bi ii : Nat} {b : Block} (hb : f.blocks[bi]? = some b)
    {x : String} {k : Cls} {o : Op} {args : List Val}
    (h : b.ins[ii]? = some (.op (some (x, k)) o args)) : (x, k) ∈ f.allDefs := by
  exact allDefs_block hb (List.mem_append_right _ (List.mem_filterMap.2
    ⟨_, Array.mem_toList_iff.2 (Array.mem_of_getElem? h), rfl⟩))

theorem allDefs_call {f : Func} {bi ii : Nat} {b : Block} (hb : f.blocks[bi]? = some b)
    {x : String} {ty : Ty} {callee : Val} {args : List (Ty × Val)} {va : Option Nat}
    (h : b.ins[ii]? = some (.call (some (x, ty)) callee args va)) : (x, ty.cls) ∈ f.allDefs := by
  exact allDefs_block hb (List.mem_append_right _ (List.mem_filterMap.2
    ⟨_, Array.mem_toList_iff.2 (Array.mem_of_getElem? h), rfl⟩))

/-! ## What `wfFuncPre`, `wfFunc`, `wf` establish -/

/-- Per-block class facts. -/
structure BlockCls (sigs : SigMap) (f : Func) (b : Block) : Prop where
  ins : ∀ i ∈ b.ins.toList, InsFacts sigs (tcOf f) i
  term : ∀ j, b.term = some j → JumpFacts f (tcOf f) j
  phis : ∀ ph ∈ b.phis, ∀ s ∈ ph.srcs, argOk (tcOf f) ph.k s.2 = true

theorem wfFuncPre_loop {sigs : SigMap} {types : Std.HashSet String} {f : Func}
    (h : wfFuncPre sigs types f = .ok ()) :
    ∀ bi, bi < f.blocks.size → ∀ b, f.blocks[bi]? = some b → BlockCls sigs f b := by
  unfold wfFuncPre at h
  extract_lets fi n defs tc succs preds jL jB jP jR at h
  rw [errIf_bind_ok] at h
  obtain ⟨_, h⟩ := h
  have hR : jR () = .ok () := by
    split at h
    · simp only [throw_bind_ok] at h
    · exact h
  clear h
  have hP : jP () = .ok () := by
    simp only [jR] at hR
    split at hR
    · exact (errIf_bind_ok.1 hR).2
    · exact hR
  clear hR
  have hB : jB () = .ok () := by
    simp only [jP] at hP
    obtain ⟨_, _, hP⟩ := bind_ok hP
    split at hP
    · exact (errIf_bind_ok.1 hP).2
    · exact hP
  clear hP
  have hL : jL () = .ok () := by
    simp only [jB] at hB
    split at hB
    · exact (errIf_bind_ok.1 hB).2
    · exact hB
  clear hB
  simp -zeta only [jL] at hL
  obtain ⟨_, hloop, _⟩ := bind_ok hL
  clear hL
  have htc : tc = tcOf f := rfl
  intro bi hbi b hb
  refine forIn_range_ok (fun bi => ∀ b, f.blocks[bi]? = some b → BlockCls sigs f b) ?_ _ _ hloop
    bi hbi b hb
  clear hloop hbi hb b bi
  intro bi s hs
  split at hs
  · cases hs
    refine ⟨rfl, ?_⟩
    intro b hb
    simp_all
  · rename_i b hb
    obtain ⟨_, hins, hs⟩ := bind_ok hs
    extract_lets predLabels jPhi at hs
    have hterm : ∀ j, b.term = some j → checkJump f fi tc j = .ok () := by
      intro j hj
      rw [hj] at hs
      simp only at hs
      split at hs
      · simp only [throw_bind_ok] at hs
      · assumption
    have hphi : jPhi () = .ok s := by
      split at hs
      · split at hs
        · simp only [throw_bind_ok] at hs
        · exact hs
      · exact hs
    clear hs
    simp -zeta only [jPhi] at hphi
    obtain ⟨_, hphis, hy⟩ := bind_ok hphi
    clear hphi
    cases hy
    refine ⟨rfl, ?_⟩
    intro b' hb'
    rw [hb] at hb'
    cases hb'
    refine ⟨?_, ?_, ?_⟩
    · refine forIn_array_ok (fun i => InsFacts sigs (tcOf f) i) ?_ _ _ hins
      intro i s hs
      split at hs
      · simp only [throw_bind_ok] at hs
      · rename_i hc
        cases hs
        exact ⟨rfl, checkIns_facts hc⟩
    · intro j hj
      exact checkJump_facts (hterm j hj)
    · refine forIn_list_ok (fun ph => ∀ s ∈ ph.srcs, argOk (tcOf f) ph.k s.2 = true) ?_ _ _ hphis
      intro ph s hs
      extract_lets jS at hs
      have hS : jS () = .ok s := by
        split at hs
        · simp only [throw_bind_ok] at hs
        · exact hs
      clear hs
      simp -zeta only [jS] at hS
      obtain ⟨_, hsrcs, hS⟩ := bind_ok hS
      obtain ⟨_, _, hy⟩ := bind_ok hS
      cases hy
      refine ⟨rfl, ?_⟩
      refine forIn_list_ok (fun x => argOk (tcOf f) ph.k x.2 = true) ?_ _ _ hsrcs
      intro x s hs
      obtain ⟨l, v⟩ := x
      simp -zeta only [errIf_bind_ok] at hs
      obtain ⟨_, _, hs⟩ := hs
      extract_lets jA at hs
      have hA : jA () = .ok s := by
        split at hs
        · simp only [throw_bind_ok] at hs
        · exact hs
      simp only [jA, errIf_bind_ok] at hA
      obtain ⟨h1, h2⟩ := hA
      cases h2
      have h1' : argOk tc ph.k v = true := by simpa using h1
      exact ⟨rfl, h1'⟩

theorem noDupCheck_nodup (xs : List String) (s : Std.HashSet String)
    (h : noDupCheck xs s = none) : xs.Nodup ∧ ∀ x ∈ xs, ¬ x ∈ s := by
  induction xs generalizing s with
  | nil => simp
  | cons x xs ih =>
    simp only [noDupCheck] at h
    split at h
    · cases h
    · rename_i hx
      obtain ⟨hnd, hns⟩ := ih _ h
      have hxs : ¬ x ∈ s := by
        intro hm
        exact hx (Std.HashSet.mem_iff_contains.1 hm)
      refine ⟨List.nodup_cons.2 ⟨?_, hnd⟩, ?_⟩
      · intro hmem
        exact hns x hmem (Std.HashSet.mem_insert.2 (Or.inl (by simp)))
      · intro y hy
        simp only [List.mem_cons] at hy
        cases hy with
        | inl h => subst h; exact hxs
        | inr h =>
          intro hm
          exact hns y h (Std.HashSet.mem_insert.2 (Or.inr hm))

/-- The static class facts of a function. -/
structure FuncCls (sigs : SigMap) (f : Func) : Prop where
  nodup : (f.allDefs.map (·.1)).Nodup
  block : ∀ (bi : Nat) (b : Block), f.blocks[bi]? = some b → BlockCls sigs f b

theorem wfFunc_cls {sigs : SigMap} {types : Std.HashSet String} {f : Func}
    (h : wfFunc sigs types f = .ok ()) : FuncCls sigs f := by
  unfold wfFunc at h
  split at h
  · cases h
  · rename_i hnd
    split at h
    · cases h
    · split at h
      · cases h
      · rename_i hpre
        refine ⟨(noDupCheck_nodup _ _ hnd).1, ?_⟩
        intro bi b hb
        exact wfFuncPre_loop hpre bi (Array.getElem?_eq_some_iff.1 hb).1 b hb

theorem wfDefs_cls {sigs : SigMap} (defs : List Def) (types syms : Std.HashSet String)
    (h : wfDefs sigs defs types syms = .ok ()) (f : Func) (hf : Def.func f ∈ defs) :
    FuncCls sigs f := by
  induction defs generalizing types syms with
  | nil => simp at hf
  | cons d defs ih =>
    cases d with
    | type t =>
      simp only [wfDefs] at h
      split at h
      · cases h
      · exact ih _ _ h (by simpa using hf)
    | data dd =>
      simp only [wfDefs] at h
      split at h
      · cases h
      · split at h
        · cases h
        · exact ih _ _ h (by simpa using hf)
    | func g =>
      simp only [wfDefs] at h
      split at h
      · cases h
      · split at h
        · cases h
        · rename_i hg
          simp only [List.mem_cons, Def.func.injEq] at hf
          cases hf with
          | inl hfg => subst hfg; exact wfFunc_cls hg
          | inr hfd => exact ih _ _ h hfd

/-- The signature table `wf` checks calls against. -/
def sigsOf (m : Module) : SigMap := m.funcs.foldl (fun h f => h.insertIfNew f.name f.sig) {}

theorem wf_funcCls {m : Module} (h : wf m = .ok ()) (f : Func) (hf : f ∈ m.funcs) :
    FuncCls (sigsOf m) f := by
  unfold wf at h
  apply wfDefs_cls _ _ _ h
  unfold Module.funcs at hf
  obtain ⟨d, hd, hdf⟩ := List.mem_filterMap.1 hf
  cases d with
  | func g => simp at hdf; subst hdf; exact hd
  | type t => simp at hdf
  | data dd => simp at hdf

/-- The signature table and the function table of the program agree. -/
theorem sigs_funcs (fs : List Func) (name : String) :
    (fs.foldl (fun (h : SigMap) f => h.insertIfNew f.name f.sig) {})[name]? =
      ((mkFuncTable fs)[name]?).map (fun fi => fi.f.sig) ∧
    ∀ fi, (mkFuncTable fs)[name]? = some fi → fi.f ∈ fs ∧ fi = FuncInfo.of fi.f ∧ fi.f.name = name := by
  unfold mkFuncTable
  have gen : ∀ (l : List Func) (s : SigMap) (t : Std.HashMap String FuncInfo),
      s[name]? = (t[name]?).map (fun fi => fi.f.sig) →
      (∀ n, n ∈ s ↔ n ∈ t) →
      (∀ fi, t[name]? = some fi → fi.f ∈ fs ∧ fi = FuncInfo.of fi.f ∧ fi.f.name = name) →
      (∀ f ∈ l, f ∈ fs) →
      (l.foldl (fun (h : SigMap) f => h.insertIfNew f.name f.sig) s)[name]? =
        ((l.foldl (fun h f => h.insertIfNew f.name (FuncInfo.of f)) t)[name]?).map
          (fun fi => fi.f.sig) ∧
      ∀ fi, (l.foldl (fun h f => h.insertIfNew f.name (FuncInfo.of f)) t)[name]? = some fi →
        fi.f ∈ fs ∧ fi = FuncInfo.of fi.f ∧ fi.f.name = name := by
    intro l
    induction l with
    | nil => intro s t h1 _ h3 _; exact ⟨h1, h3⟩
    | cons g l ih =>
      intro s t h1 h2 h3 h4
      simp only [List.foldl_cons]
      refine ih _ _ ?_ ?_ ?_ (fun f hf => h4 f (by simp [hf]))
      · rw [Std.HashMap.getElem?_insertIfNew, Std.HashMap.getElem?_insertIfNew]
        by_cases hc : (g.name == name) = true ∧ ¬ g.name ∈ s
        · have hc' : (g.name == name) = true ∧ ¬ g.name ∈ t := ⟨hc.1, fun hm => hc.2 ((h2 _).2 hm)⟩
          rw [if_pos hc, if_pos hc']
          rfl
        · have hc' : ¬ ((g.name == name) = true ∧ ¬ g.name ∈ t) :=
            fun hx => hc ⟨hx.1, fun hm => hx.2 ((h2 _).1 hm)⟩
          rw [if_neg hc, if_neg hc']
          exact h1
      · intro n
        simp only [Std.HashMap.mem_insertIfNew, h2]
      · intro fi hfi
        rw [Std.HashMap.getElem?_insertIfNew] at hfi
        split at hfi
        · rename_i hc
          cases hfi
          have hn : g.name = name := by simpa using hc.1
          exact ⟨h4 g (by simp), rfl, hn⟩
        · exact h3 fi hfi
  exact gen fs {} {} (by simp) (by simp) (by simp) (fun f hf => hf)

end CprocVerif.C03.Cls

import CprocVerif.Lemmas.DriverState

/-! C17: `buildobj`/`buildexe` of the model against the documented plan, input by input. -/

namespace CprocVerif.DriverLemmas
open CprocVerif.Driver CprocVerif.DriverDoc

def docPipe (base : Stage → List Str) (last : Stage) (out : Option Str) (i : Nat) (d : DocInput) : Option Pipeline :=
  if d.ftype = .obj then none
  else match runStages last d.ftype with
    | none => none
    | some sts =>
      some { input := i
             invs := docInvs base (if d.name = ['-'] then none else some d.name)
                      (docOutName false last out i d.name) sts }

def docItem (last : Stage) (out : Option Str) (i : Nat) (d : DocInput) : Option LinkItem :=
  if !(docStages d.ftype).contains last then none
  else if d.ftype = .obj then some ⟨.lit d.name, d.lib, .obj⟩
  else (docOutName false last out i d.name).map fun w => ⟨w, d.lib, d.ftype⟩

theorem objOutput_eq (i : Nat) (n : Str) (out : Option Str) (ft : FileType) (last : Stage)
    (hp : (docStages ft).contains last = true) :
    objOutput i n ((docStages ft).filter (·.idx ≤ last.idx)) out = docOutName false last out i n := by
  cases ft <;> cases last <;> first
    | (exfalso; revert hp; decide)
    | (cases out with
       | none => simp [objOutput, docOutName, docStages, Stage.idx, changeext_eq]
       | some o => by_cases ho : o = ['-'] <;> simp [objOutput, docOutName, docStages, Stage.idx, ho])

theorem mask_eq (ft : FileType) : (maskTable.lookup ft).getD [] = docStages ft := by
  cases ft <;> rfl

theorem mkInvs_eq (base : Stage → List Str) (name : Option Str) (o : Option Word) (ft : FileType) (last : Stage) :
    mkInvs base name o true (((docStages ft).filter (·.idx ≤ last.idx)).filter (· != .link)) =
    docInvs base name o ((docStages ft).filter fun st => st.idx ≤ last.idx && st != .link) := by
  cases ft <;> cases last <;> rfl

theorem buildObj_spec (base : Stage → List Str) (last : Stage) (out : Option Str) (i : Nat) (d : DocInput) :
    buildObj base last out i (toInput d) = (docPipe base last out i d, docItem last out i d) := by
  unfold buildObj toInput
  simp only [mask_eq]
  by_cases hp : (docStages d.ftype).contains last = true
  · simp only [hp, Bool.not_true, Bool.false_eq_true, if_false]
    by_cases ho : d.ftype = .obj
    · simp [ho, docPipe, docItem, docStages] at hp ⊢
      simp [hp]
    · have ho' : (d.ftype == FileType.obj) = false := beq_eq_false_iff_ne.2 ho
      simp only [ho', Bool.false_eq_true, if_false, objOutput_eq _ _ _ _ _ hp]
      simp only [docPipe, docItem, ho, hp, if_false, runStages, if_true, Bool.not_true, Bool.false_eq_true]
      rw [mkInvs_eq]
  · have hp' : (docStages d.ftype).contains last = false := by simpa using hp
    simp only [hp', Bool.not_false, if_true, docPipe, docItem, runStages, Bool.false_eq_true, if_false]
    split <;> rfl


def docBuildAll (base : Stage → List Str) (last : Stage) (out : Option Str) :
    Nat → List DocInput → List (Option Pipeline × Option LinkItem)
  | _, [] => []
  | i, d :: r => (docPipe base last out i d, docItem last out i d) :: docBuildAll base last out (i + 1) r

theorem buildAll_map (base : Stage → List Str) (last : Stage) (out : Option Str) (ins : List DocInput) :
    ∀ i, buildAll base last out i (ins.map toInput) = docBuildAll base last out i ins := by
  induction ins with
  | nil => intro i; rfl
  | cons d r ih =>
    intro i
    simp only [List.map_cons, buildAll, docBuildAll, buildObj_spec, ih]

def implOpts : Opts := Opts.asImplemented

theorem pipelines_eq (base : Stage → List Str) (last : Stage) (out : Option Str) (ins : List DocInput) :
    ∀ i, (docBuildAll base last out i ins).filterMap (·.1) = docPipelines implOpts base last out i ins := by
  induction ins with
  | nil => intro i; rfl
  | cons d r ih =>
    intro i
    simp only [docBuildAll, docPipelines, List.filterMap_cons, ih, docPipe]
    by_cases ho : d.ftype = .obj
    · simp [ho]
    · simp only [ho, if_false]
      cases runStages last d.ftype <;> rfl

def libsAreObjects (ins : List DocInput) : Prop := ∀ d ∈ ins, d.lib = true → d.ftype = .obj

theorem docInputsFrom_libs (c : List Item) : ∀ l, libsAreObjects (docInputsFrom l c) := by
  induction c with
  | nil => intro l d hd; simp [docInputsFrom] at hd
  | cons it r ih =>
    intro l
    cases it with
    | input n =>
      intro d hd hl
      simp only [docInputsFrom, List.mem_cons] at hd
      rcases hd with rfl | hd
      · simp at hl
      · exact ih l d hd hl
    | lib v =>
      intro d hd hl
      simp only [docInputsFrom, List.mem_cons] at hd
      rcases hd with rfl | hd
      · rfl
      · exact ih l d hd hl
    | lang x => exact ih _
    | _ => exact ih l

def linkWordsOf (items : List LinkItem) : List Word :=
  items.flatMap fun it => (if it.lib then [Word.lit (str "-l")] else []) ++ [it.word]

theorem docItem_obj (last : Stage) (out : Option Str) (i : Nat) (d : DocInput) (ho : d.ftype = .obj)
    (hp : (docStages d.ftype).contains last = true) :
    docItem last out i d = some ⟨.lit d.name, d.lib, .obj⟩ := by
  rw [ho] at hp
  simp only [docItem, hp, ho, Bool.not_true, Bool.false_eq_true, if_false, if_true]

theorem docItem_src (out : Option Str) (i : Nat) (d : DocInput) (ho : d.ftype ≠ .obj)
    (hp : (docStages d.ftype).contains .link = true) :
    docItem .link out i d = some ⟨.tmp i, d.lib, d.ftype⟩ := by
  simp only [docItem, hp, ho, Bool.not_true, Bool.false_eq_true, if_false, docOutName, if_true, Option.map]

theorem docItem_skip (last : Stage) (out : Option Str) (i : Nat) (d : DocInput)
    (hp : (docStages d.ftype).contains last = false) : docItem last out i d = none := by
  simp only [docItem, hp, Bool.not_false, if_true]

theorem linkWords_eq (base : Stage → List Str) (out : Option Str) (ins : List DocInput)
    (hl : libsAreObjects ins) :
    ∀ i, linkWordsOf ((docBuildAll base .link out i ins).filterMap (·.2)) = docLinkWords implOpts .link i ins := by
  induction ins with
  | nil => intro i; rfl
  | cons d r ih =>
    intro i
    have ih' := ih (fun x hx => hl x (by simp [hx])) (i + 1)
    have hd := hl d (by simp)
    simp only [docBuildAll, docLinkWords, List.filterMap_cons]
    by_cases ho : d.ftype = .obj
    · have hp : (docStages d.ftype).contains .link = true := by rw [ho]; rfl
      rw [docItem_obj _ _ _ _ ho hp]
      simp only [linkWordsOf, List.flatMap_cons] at ih' ⊢
      rw [ih']
      cases hlib : d.lib <;> simp [ho]
    · have hlib : d.lib = false := by
        cases h : d.lib with
        | false => rfl
        | true => exact absurd (hd h) ho
      by_cases hp : (docStages d.ftype).contains .link = true
      · rw [docItem_src _ _ _ ho hp]
        simp only [linkWordsOf, List.flatMap_cons] at ih' ⊢
        rw [ih']
        have hm : Stage.link ∈ docStages d.ftype := by simpa using hp
        simp [hlib, ho, hm]
      · have hp' : (docStages d.ftype).contains .link = false := by simpa using hp
        rw [docItem_skip _ _ _ _ hp']
        simp only [linkWordsOf] at ih' ⊢
        rw [ih']
        have hm : Stage.link ∉ docStages d.ftype := by simpa using hp'
        simp [hlib, ho, hm]

def isTmp (it : LinkItem) : Bool := match it.word with | .tmp _ => true | .lit _ => false

theorem unlinks_link (base : Stage → List Str) (out : Option Str) (ins : List DocInput) :
    ∀ i, (((docBuildAll base .link out i ins).filterMap (·.2)).filter isTmp).map (·.word)
      = docUnlinks implOpts i ins := by
  induction ins with
  | nil => intro i; rfl
  | cons d r ih =>
    intro i
    have ih' := ih (i + 1)
    simp only [docBuildAll, docUnlinks, List.filterMap_cons]
    by_cases ho : d.ftype = .obj
    · have hp : (docStages d.ftype).contains .link = true := by rw [ho]; rfl
      rw [docItem_obj _ _ _ _ ho hp]
      simp only [List.filter_cons, isTmp, Bool.false_eq_true, if_false, ho, if_true]
      exact ih'
    · by_cases hp : (docStages d.ftype).contains .link = true
      · rw [docItem_src _ _ _ ho hp]
        simp only [List.filter_cons, isTmp, if_true, List.map_cons, ho, if_false, hp]
        rw [← ih']
      · have hp' : (docStages d.ftype).contains .link = false := by simpa using hp
        rw [docItem_skip _ _ _ _ hp']
        simp only [ho, if_false, hp', Bool.false_eq_true]
        exact ih'

theorem docItem_notTmp (last : Stage) (hlast : last ≠ .link) (out : Option Str) (i : Nat) (d : DocInput)
    (it : LinkItem) (h : docItem last out i d = some it) : isTmp it = false := by
  unfold docItem at h
  split at h
  · simp at h
  · split at h
    · simp only [Option.some.injEq] at h; subst h; rfl
    · cases hw : docOutName false last out i d.name with
      | none => simp [hw] at h
      | some w =>
        simp only [hw, Option.map, Option.some.injEq] at h
        subst h
        cases w with
        | lit s => rfl
        | tmp k =>
          exfalso
          unfold docOutName at hw
          simp only [hlast, if_false] at hw
          cases out with
          | some o =>
            simp only at hw
            split at hw <;> simp at hw
          | none =>
            cases last <;> simp at hw hlast

theorem mem_docBuildAll (base : Stage → List Str) (last : Stage) (out : Option Str) (ins : List DocInput) :
    ∀ i x, x ∈ docBuildAll base last out i ins → ∃ k d, x.2 = docItem last out k d := by
  induction ins with
  | nil => intro i x hx; simp [docBuildAll] at hx
  | cons d r ih =>
    intro i x hx
    simp only [docBuildAll, List.mem_cons] at hx
    rcases hx with rfl | hx
    · exact ⟨i, d, rfl⟩
    · exact ih _ x hx

theorem unlinks_nolink (base : Stage → List Str) (last : Stage) (hlast : last ≠ .link) (out : Option Str)
    (ins : List DocInput) (i : Nat) :
    (((docBuildAll base last out i ins).filterMap (·.2)).filter isTmp).map (·.word) = [] := by
  have : ((docBuildAll base last out i ins).filterMap (·.2)).filter isTmp = [] := by
    rw [List.filter_eq_nil_iff]
    intro it hit
    rw [List.mem_filterMap] at hit
    obtain ⟨x, hx, hx2⟩ := hit
    obtain ⟨k, d, hk⟩ := mem_docBuildAll base last out ins i x hx
    rw [hk] at hx2
    simp [docItem_notTmp last hlast out k d it hx2]
  rw [this]; rfl

end CprocVerif.DriverLemmas

import CprocVerif.Lemmas.InitEmit2

/-!
# Lemmas about `emitdata`, part 3: the cross-byte bit-field accumulator, `emitOne`, `emitFlat`
-/

namespace CprocVerif.Image
open CprocVerif.Init

/-! ## the accumulator -/

theorem mask_eq {q : Nat} (h : q < 8) : 0x7f >>> (7 - q) = 2 ^ q - 1 := by
  revert q; decide

theorem testBit_acc (b1 u r t : Nat) (hb1 : b1 < 2 ^ r) :
    ((b1 ||| u <<< r) % 2 ^ 64).testBit t =
      (decide (t < 64) && if r ≤ t then u.testBit (t - r) else b1.testBit t) := by
  rw [Nat.testBit_mod_two_pow, Nat.testBit_or, Nat.testBit_shiftLeft]
  by_cases h : r ≤ t
  · have : b1.testBit t = false := Nat.testBit_lt_two_pow (Nat.lt_of_lt_of_le hb1 (pow_le_pow_two h))
    simp [h, this]
  · simp [h]

/-- The bytes emitted for a bit-field and the accumulator left behind are exactly the write. -/
theorem bitfield_cells {size : Nat} {cur : Init} {w u : Nat} (hw : Wf size cur) (hv : cur.val = .int w u)
    (hbf : cur.before ≠ 0 ∨ cur.after ≠ 0) {s e b1 : Nat}
    (hs : 8 * s ≤ cur.lo ∧ cur.lo < 8 * s + 8) (he : 8 * e ≤ cur.hi ∧ cur.hi < 8 * e + 8)
    (hr : cur.before % 8 = cur.lo - 8 * s) (hsh : (cur.after + 7) % 8 = 7 - (cur.hi - 8 * e))
    (hn8 : e - s ≤ 8) (h64 : cur.hi - 8 * s ≤ 64)
    (hb1 : b1 < 2 ^ (cur.lo - 8 * s)) (old : Nat → Cell) (hold_s : old s = .byte b1)
    (hold_r : ∀ j, s < j → old j = .byte 0) :
    (∀ k, k < e - s → (bytes (bitBytes ((b1 ||| u <<< (cur.before % 8)) % 2 ^ 64) (e - s)).1)[k]? =
        some (writeCell cur (s + k) (old (s + k)))) ∧
    writeCell cur e (old e) = .byte ((bitBytes ((b1 ||| u <<< (cur.before % 8)) % 2 ^ 64) (e - s)).2 &&&
        (0x7f >>> ((cur.after + 7) % 8))) ∧
    (bitBytes ((b1 ||| u <<< (cur.before % 8)) % 2 ^ 64) (e - s)).2 &&& (0x7f >>> ((cur.after + 7) % 8)) <
        2 ^ (cur.hi - 8 * e) := by
  have hne := hw.ne
  have hse : s ≤ e := by omega
  rw [hr]
  refine ⟨?_, ?_, ?_⟩
  · intro k hk
    rw [(bytes_bitBytes _ _).2 k hk]
    have ht : touches cur (s + k) := by unfold touches; omega
    rw [writeCell_int hv ht]
    unfold intCell
    congr 2
    rw [← ofBits_shift]
    apply ofBits_congr
    intro m hm
    rw [testBit_acc _ _ _ _ hb1]
    have h1 : 8 * k + m < 64 := by omega
    by_cases hrt : cur.lo - 8 * s ≤ 8 * k + m
    · rw [if_pos hrt, if_pos ⟨by omega, by omega⟩]
      simp only [h1, decide_true, Bool.true_and]
      congr 1; omega
    · have hk0 : k = 0 := by omega
      subst hk0
      rw [if_neg hrt, if_neg (by omega)]
      simp only [h1, decide_true, Bool.true_and, Nat.add_zero, hold_s, Cell.toNat]
      simp
  · rw [hsh, mask_eq (by omega), Nat.and_two_pow_sub_one_eq_mod, bitBytes_snd]
    by_cases hq : cur.hi - 8 * e = 0
    · have ht : ¬ touches cur e := by unfold touches; omega
      rw [writeCell_of_not_touches ht, hq, hold_r e (by omega)]
      simp [Nat.mod_one]
    · have ht : touches cur e := by unfold touches; omega
      rw [writeCell_int hv ht]
      unfold intCell
      refine congrArg Cell.byte ?_
      apply Nat.eq_of_testBit_eq
      intro m
      rw [testBit_ofBits, Nat.testBit_mod_two_pow, Nat.testBit_div_two_pow, testBit_acc _ _ _ _ hb1]
      by_cases hm8 : m < 8
      · by_cases hmq : m < cur.hi - 8 * e
        · have h1 : m + 8 * (e - s) < 64 := by omega
          by_cases hrt : cur.lo - 8 * s ≤ m + 8 * (e - s)
          · rw [if_pos hrt, if_pos ⟨by omega, by omega⟩]
            simp only [hm8, hmq, h1, decide_true, Bool.true_and]
            congr 1; omega
          · have hes : e = s := by omega
            subst hes
            rw [if_neg hrt, if_neg (by omega)]
            simp only [hm8, hmq, h1, decide_true, Bool.true_and, hold_s, Cell.toNat]
            simp
        · -- above the field: the old bits there are zero
          rw [if_neg (show ¬ (cur.lo ≤ 8 * e + m ∧ 8 * e + m < cur.hi) by omega)]
          simp only [hm8, hmq, decide_true, decide_false, Bool.true_and, Bool.false_and]
          by_cases hes : e = s
          · subst hes
            rw [hold_s]
            simp only [Cell.toNat]
            exact Nat.testBit_lt_two_pow (Nat.lt_of_lt_of_le hb1 (pow_le_pow_two (by omega)))
          · rw [hold_r e (by omega)]; simp [Cell.toNat]
      · simp only [hm8, decide_false, Bool.false_and]
        have : ¬ m < cur.hi - 8 * e := by omega
        simp [this]
  · rw [hsh, mask_eq (by omega), Nat.and_two_pow_sub_one_eq_mod]
    exact Nat.mod_lt _ (Nat.two_pow_pos _)

/-! ## one initialiser -/

theorem emitOne_spec {size : Nat} {pre : List Cell} {st : EmitSt} {top : Nat} {old : Nat → Cell} {cur : Init}
    (inv : EInv size pre st top old) (hw : Wf size cur) (ht : top ≤ cur.lo) :
    ∃ its st', emitOne st cur = some (its, st') ∧
      EInv size (pre ++ bytes its) st' cur.hi (fun j => writeCell cur j (old j)) := by
  have hne := hw.ne
  have hin := hw.inside
  have hlo_def : cur.lo = cur.start * 8 + cur.before := rfl
  have hhi_def : cur.hi = cur.stop * 8 - cur.after := rfl
  -- `start` and `end` of `emitdata`
  have hs : 8 * (cur.start + cur.before / 8) ≤ cur.lo ∧ cur.lo < 8 * (cur.start + cur.before / 8) + 8 := by omega
  have he : 8 * (cur.stop - (cur.after + 7) / 8) ≤ cur.hi ∧ cur.hi < 8 * (cur.stop - (cur.after + 7) / 8) + 8 := by
    omega
  have inv1 := gap_spec inv ht (by omega) hs
  obtain ⟨len, pre_eq, hcur, rest, _, _, bits_lt, _⟩ := inv1
  simp only [] at len pre_eq hcur rest bits_lt
  -- cells below `start` are not touched by `cur`
  have hpre' : ∀ j, j < cur.start + cur.before / 8 →
      (pre ++ bytes (emitGap st (cur.start + cur.before / 8)).1)[j]? = some (writeCell cur j (old j)) := by
    intro j hj
    rw [writeCell_of_not_touches (by unfold touches; omega)]
    exact pre_eq j hj
  unfold emitOne
  dsimp only []
  by_cases hbf : cur.before ≠ 0 ∨ cur.after ≠ 0
  · -- bit-field
    have hsh := hw.shape
    cases hv : cur.val with
    | int w u =>
      rw [hv] at hsh
      have h8 := hsh.2 hbf
      have hcells := bitfield_cells hw hv hbf hs he (by omega) (by omega) (by omega) (by omega) bits_lt old hcur rest
      have hval : emitVal (emitGap st (cur.start + cur.before / 8)).2 cur (cur.start + cur.before / 8)
          (cur.stop - (cur.after + 7) / 8) = some
            ((bitBytes (((emitGap st (cur.start + cur.before / 8)).2 ||| u <<< (cur.before % 8)) % 2 ^ 64)
              (cur.stop - (cur.after + 7) / 8 - (cur.start + cur.before / 8))).1,
             (bitBytes (((emitGap st (cur.start + cur.before / 8)).2 ||| u <<< (cur.before % 8)) % 2 ^ 64)
              (cur.stop - (cur.after + 7) / 8 - (cur.start + cur.before / 8))).2 &&&
                (0x7f >>> ((cur.after + 7) % 8))) := by
        unfold emitVal; rw [if_pos hbf, hv]
      rw [hval]
      refine ⟨_, _, rfl, ?_⟩
      rw [bytes_append, ← List.append_assoc]
      have hap := append_fn (f := fun j => writeCell cur j (old j)) len hpre'
        (hcl := (bytes_bitBytes _ _).1) hcells.1
      refine ⟨by rw [hap.1]; simp only []; omega, fun j hj => hap.2 j (by simp only [] at hj; omega), hcells.2.1, ?_,
        he.1, he.2, hcells.2.2, by omega⟩
      intro j hj
      simp only [] at hj
      rw [writeCell_of_not_touches (by unfold touches; omega)]
      exact rest j (by omega)
    | flt w b => rw [hv] at hsh; omega
    | addr s o => rw [hv] at hsh; omega
    | str w cs => rw [hv] at hsh; omega
    | other => rw [hv] at hsh; exact absurd hsh (by simp)
  · -- whole bytes
    have hb : cur.before = 0 ∧ cur.after = 0 := by omega
    obtain ⟨it, hit, hlen, hcells⟩ := dataitem_cells hw hb
    have hstart : cur.start + cur.before / 8 = cur.start := by omega
    have hstop : cur.stop - (cur.after + 7) / 8 = cur.stop := by omega
    have hb0 : (emitGap st (cur.start + cur.before / 8)).2 = 0 := by
      have : cur.lo - 8 * (cur.start + cur.before / 8) = 0 := by omega
      rw [this] at bits_lt; omega
    have hval : emitVal (emitGap st (cur.start + cur.before / 8)).2 cur (cur.start + cur.before / 8)
        (cur.stop - (cur.after + 7) / 8) = some ([it], (emitGap st (cur.start + cur.before / 8)).2) := by
      unfold emitVal; rw [if_neg hbf, hit]
    rw [hval]
    refine ⟨_, _, rfl, ?_⟩
    rw [bytes_append, ← List.append_assoc, bytes_single]
    have hap := append_fn (f := fun j => writeCell cur j (old j)) len hpre' (hcl := hlen)
      (by intro k hk; rw [hstart]; exact hcells k hk _)
    refine ⟨by rw [hap.1]; simp only []; omega, fun j hj => hap.2 j (by simp only [] at hj; omega), ?_, ?_,
      by simp only []; omega, by simp only []; omega, by rw [hb0]; exact Nat.two_pow_pos _, by omega⟩
    · simp only []
      rw [hstop, writeCell_of_not_touches (by unfold touches; omega), hb0]
      exact rest _ (by omega)
    · intro j hj
      simp only [] at hj
      rw [writeCell_of_not_touches (by unfold touches; omega)]
      exact rest j (by omega)

/-! ## the outer loop -/

theorem emitFlat_spec {size : Nat} {ts : List Init} : ∀ {pre : List Cell} {st : EmitSt} {top : Nat} {old : Nat → Cell},
    EInv size pre st top old → Chain top ts → (∀ t ∈ ts, Wf size t) →
    ∃ items, emitFlat size st ts = some items ∧ (pre ++ bytes items).length = size ∧
      ∀ j, j < size → (pre ++ bytes items)[j]? = some (cellFold ts j (old j)) := by
  induction ts with
  | nil =>
    intro pre st top old inv _ _
    obtain ⟨len, pre_eq, hcur, rest, top_lo, top_hi, bits_lt, top_size⟩ := inv
    have hb128 : st.bits < 128 := by
      have : 2 ^ (top - 8 * st.offset) ≤ 2 ^ 7 := pow_le_pow_two (by omega)
      omega
    unfold emitFlat
    by_cases hb : st.bits = 0
    · have hle : st.offset ≤ size := by omega
      simp only [hb, ne_eq, not_true_eq_false, if_false, if_pos hle, List.nil_append]
      refine ⟨_, rfl, ?_⟩
      have hap := append_fn (f := old) len pre_eq
        (cells := bytes (if st.offset < size then [Item.z (size - st.offset)] else [])) (n := size - st.offset)
        (by split <;> simp [bytes_single, bytes_nil, Item.cells]; omega)
        (by
          intro k hk
          rw [if_pos (by omega), bytes_single]
          simp only [Item.cells]
          rw [List.getElem?_replicate_of_lt hk]
          cases k with
          | zero => simp [hcur, hb]
          | succ k => rw [rest _ (by omega)])
      exact ⟨by rw [hap.1]; omega, fun j hj => hap.2 j (by omega)⟩
    · have hpos : top - 8 * st.offset ≠ 0 := by
        intro h; rw [h] at bits_lt; omega
      have hle : st.offset + 1 ≤ size := by omega
      simp only [ne_eq, hb, not_false_eq_true, if_true, if_pos hle]
      refine ⟨_, rfl, ?_⟩
      have hcells : bytes ([Item.num 1 (st.bits % 2 ^ 32)] ++
          (if st.offset + 1 < size then [Item.z (size - (st.offset + 1))] else [])) =
          Cell.byte st.bits :: List.replicate (size - (st.offset + 1)) (.byte 0) := by
        rw [bytes_append, bytes_single]
        have e1 : (Item.num 1 (st.bits % 2 ^ 32)).cells = [.byte st.bits] := by
          simp only [Item.cells, leBytes]
          rw [Nat.mod_eq_of_lt (a := st.bits) (by omega), Nat.mod_eq_of_lt (by omega)]
        rw [e1]
        split
        · rw [bytes_single]; rfl
        · rename_i h; rw [show size - (st.offset + 1) = 0 by omega]; rfl
      rw [hcells]
      have hap := append_fn (f := old) len pre_eq
        (cells := Cell.byte st.bits :: List.replicate (size - (st.offset + 1)) (.byte 0)) (n := size - st.offset)
        (by simp; omega)
        (by
          intro k hk
          cases k with
          | zero => simp [hcur]
          | succ k =>
            rw [List.getElem?_cons_succ, List.getElem?_replicate_of_lt (by omega), rest _ (by omega)])
      exact ⟨by rw [hap.1]; omega, fun j hj => hap.2 j (by omega)⟩
  | cons t ts ih =>
    intro pre st top old inv hch hwf
    obtain ⟨its, st', hone, inv'⟩ := emitOne_spec inv (hwf t List.mem_cons_self) hch.1
    obtain ⟨more, hmore, hlen, hcells⟩ := ih inv' hch.2 (fun x hx => hwf x (List.mem_cons_of_mem _ hx))
    unfold emitFlat
    rw [hone]
    simp only [hmore]
    refine ⟨_, rfl, ?_⟩
    rw [bytes_append, ← List.append_assoc]
    exact ⟨hlen, hcells⟩

/-- `emitdata` on a `Forest` of well-formed initialisers emits exactly the image of that list. -/
theorem emitdata_cells {size : Nat} {l : List Init} (hf : Forest l) (hw : ∀ x ∈ l, Wf size x) :
    ∃ items, emitdata size l = some items ∧ (bytes items).length = size ∧
      ∀ j, j < size → (bytes items)[j]? = some (cellAt l j) := by
  have hp : l.Pairwise NestOK := hf.imp nestOK_of_listOrd
  cases l with
  | nil =>
    obtain ⟨items, h1, h2, h3⟩ := emitFlat_spec (einv_init size) (ts := []) trivial (fun _ h => by simp at h)
    refine ⟨items, ?_, by simpa using h2, fun j hj => by simpa [cellAt] using h3 j hj⟩
    unfold emitdata; simp only [collapseOk, collapse, if_true]; exact h1
  | cons c xs =>
    have hok : collapseOk none (c :: xs) = true := by
      rw [collapseOk]; exact collapseOk_true hp
    have hch := collapse_chain (size := size) (top := 0) hp hw (Nat.zero_le _)
    obtain ⟨items, h1, h2, h3⟩ := emitFlat_spec (einv_init size) hch.1 hch.2
    refine ⟨items, ?_, by simpa using h2, ?_⟩
    · unfold emitdata; rw [hok, if_pos rfl, collapse]; exact h1
    · intro j hj
      have := h3 j hj
      rw [cellFold_collapse hp] at this
      simpa [cellAt_eq] using this

end CprocVerif.Image

/-
  C01, fragment 𝔽₂ — `x++` / `x--` as a statement (`EXPRINCDEC`): load, `add`/`sub` 1 at the class of the
  type (without promotion: the low bits are what matters), store.
-/
import CprocVerif.Lemmas.Lower2Leaf

set_option linter.unusedSimpArgs false

namespace CprocVerif.LowerMach2
open CprocVerif.Qbe CprocVerif.Lower CprocVerif.Lower2 CprocVerif.CSem CprocVerif.CSem2 CprocVerif.CInt
open CprocVerif.LowerArith CprocVerif.LowerMach CprocVerif.LowerMem

theorem inRange_one (cs : Bool) (t : CSem.Ty) (htb : t ≠ .bool) : InRange (t.intTy cs) 1 := by
  cases t <;> cases cs
  all_goals first | exact absurd rfl htb | decide

theorem one_rep (cs : Bool) (t : CSem.Ty) (htb : t ≠ .bool) : Rep t 1 ⟨.c, 1⟩ := by
  have h := const_rep cs t 1 (by decide) (fun h => absurd h htb)
  have hw : wrap (t.intTy cs) ((1 : Nat) : Int) = 1 :=
    Eval.wrap_of_inRange (ty_valid cs t) (inRange_one cs t htb)
  rw [hw] at h
  exact h

/-- the instruction of `EXPRINCDEC` on a representation of the old value gives what `funcstore`
    needs for the new one -/
theorem incdec_exec (cs : Bool) {t : CSem.Ty} (htb : t ≠ .bool) (inc : Bool) {v0 v' : Int} {r1 : RVal}
    (M : Mem) (hr0 : InRange (t.intTy cs) v0) (hrep : Rep t v0 r1)
    (hv : incdecVal cs t inc v0 = some v') :
    ∃ r', execOp (if inc = true then Op.add else Op.sub) (some (cls t)) [r1, ⟨.c, 1⟩] M none = .ok (r', M) ∧
      StoreVal t v' r' ∧ InRange (t.intTy cs) v' := by
  unfold incdecVal at hv
  rw [Option.map_eq_some_iff] at hv
  obtain ⟨z, hz, rfl⟩ := hv
  suffices h : ∃ r', execOp (if inc = true then Op.add else Op.sub) (some (cls t)) [r1, ⟨.c, 1⟩] M none =
      .ok (r', M) ∧ StoreVal t (conv ((incTy t).intTy cs) (t.intTy cs) z) r' by
    obtain ⟨r', h1, h2⟩ := h
    exact ⟨r', h1, h2, Eval.wrap_inRange (ty_valid cs t) _⟩
  by_cases hsm : t.size < 4
  · -- `char`, `short`: computed in `int` by C, on the untruncated register by the machine
    have hP : incTy t = .int := by simp [incTy, hsm]
    rw [hP] at hz ⊢
    have hcl : cls t = .w := by
      unfold cls; rw [if_neg (by omega)]
    rw [hcl]
    have hrep' : WRep (8 * t.size) v0 r1 := by
      unfold Rep at hrep; rw [if_neg (by omega)] at hrep; exact hrep
    obtain ⟨x, hx, hxv⟩ := hrep'
    have hxl := asW_lt hx
    have hra : Rep .uint (x.toNat : Int) r1 := (rep_w (t := .uint) rfl).2 ⟨x, hx, rfl⟩
    have hia : InRange (Ty.intTy cs .uint) (x.toNat : Int) := by
      show InRange ⟨32, false⟩ _
      rw [inRange32u]; omega
    have hz' : z = if inc = true then v0 + 1 else v0 - 1 := by
      cases inc <;> simp only [bin, arith, Bool.false_eq_true, if_false, if_true] at hz ⊢
      all_goals
        have : (Ty.intTy cs .int).signed = true := rfl
        simp only [this, if_true] at hz
        split at hz
        · cases hz; rfl
        · cases hz
    cases inc
    · -- `--`
      simp only [Bool.false_eq_true, if_false] at hz' ⊢
      have hb : bin .sub (Ty.intTy cs .uint) (x.toNat : Int) 1 =
          some (wrap ⟨32, false⟩ ((x.toNat : Int) - 1)) := by
        simp [bin, arith, Ty.intTy, Ty.size, Ty.signed]
      obtain ⟨r', hx', hr'⟩ := binop_exec cs .sub rfl (t := .uint) (tl := .uint) (tr := .uint)
        (by simp [BinTyped, BinOp.isShift, BinOp.isCmp, Ty.promoted]) M none hia (inRange_one cs .uint (by decide))
        hra (one_rep cs .uint (by decide)) hb
      refine ⟨r', hx', ?_⟩
      rw [rep_w (t := .uint) rfl] at hr'
      obtain ⟨x', hx1, hx2⟩ := hr'
      have hw := wrap_mod32 false ((x.toNat : Int) - 1)
      have hwt := wrap_mod_ty cs htb (v0 - 1)
      unfold StoreVal
      rw [if_neg (by omega)]
      refine ⟨x', hx1, ?_⟩
      subst hz'
      show _ = conv _ _ _ % _
      unfold conv
      rw [hwt]
      rcases size_cases t with hs | hs | hs | hs <;> simp only [hs, Nat.reduceMul] at hxv ⊢ <;> omega
    · -- `++`
      simp only [if_true] at hz' ⊢
      have hb : bin .add (Ty.intTy cs .uint) (x.toNat : Int) 1 =
          some (wrap ⟨32, false⟩ ((x.toNat : Int) + 1)) := by
        simp [bin, arith, Ty.intTy, Ty.size, Ty.signed]
      obtain ⟨r', hx', hr'⟩ := binop_exec cs .add rfl (t := .uint) (tl := .uint) (tr := .uint)
        (by simp [BinTyped, BinOp.isShift, BinOp.isCmp, Ty.promoted]) M none hia (inRange_one cs .uint (by decide))
        hra (one_rep cs .uint (by decide)) hb
      refine ⟨r', hx', ?_⟩
      rw [rep_w (t := .uint) rfl] at hr'
      obtain ⟨x', hx1, hx2⟩ := hr'
      have hw := wrap_mod32 false ((x.toNat : Int) + 1)
      have hwt := wrap_mod_ty cs htb (v0 + 1)
      unfold StoreVal
      rw [if_neg (by omega)]
      refine ⟨x', hx1, ?_⟩
      subst hz'
      show _ = conv _ _ _ % _
      unfold conv
      rw [hwt]
      rcases size_cases t with hs | hs | hs | hs <;> simp only [hs, Nat.reduceMul] at hxv ⊢ <;> omega
  · -- `int` and wider: the C operation itself
    have hP : incTy t = t := by simp [incTy, hsm]
    rw [hP] at hz ⊢
    have hpr : t.promoted = true := by
      cases t <;> simp [Ty.size] at hsm <;> rfl
    have hone : InRange (t.intTy cs) 1 := inRange_one cs t htb
    have hzr : InRange (t.intTy cs) z := by
      cases inc
      · exact Eval.bin_inRange (ty_arith cs hpr) .sub hr0 (fun _ => hone) hz
      · exact Eval.bin_inRange (ty_arith cs hpr) .add hr0 (fun _ => hone) hz
    have hwz : conv (t.intTy cs) (t.intTy cs) z = z := Eval.wrap_of_inRange (ty_valid cs t) hzr
    rw [hwz]
    cases inc
    · simp only [Bool.false_eq_true, if_false] at hz ⊢
      obtain ⟨r', hx', hr'⟩ := binop_exec cs .sub rfl (t := t) (tl := t) (tr := t)
        (by simp [BinTyped, BinOp.isShift, BinOp.isCmp, hpr]) M none hr0 hone hrep (one_rep cs t htb) hz
      exact ⟨r', hx', storeVal_of_rep hr'⟩
    · simp only [if_true] at hz ⊢
      obtain ⟨r', hx', hr'⟩ := binop_exec cs .add rfl (t := t) (tl := t) (tr := t)
        (by simp [BinTyped, BinOp.isShift, BinOp.isCmp, hpr]) M none hr0 hone hrep (one_rep cs t htb) hz
      exact ⟨r', hx', storeVal_of_rep hr'⟩

section
variable (T : Stat) {s : Store} {out : CSem2.Outcome} {lp : Bool × Bool} {brk cont : String} {c : SCtx}
  {nd nd' : Nat} {pre post : List Item} {env : Env} {M : Mem}

theorem sim_incdec_nb (n : Nat) (i : Nat) (t : CSem.Ty) (inc : Bool) (htb : t ≠ .bool) (hWi : T.W.length ≤ i)
    (hex : exec T.S.cs T.P (n + 1) s (.incdec i t inc) = some out)
    (hwt : Stmt.wt T.vtys T.ret lp.1 lp.2 nd (.incdec i t inc) = some nd') (hp : Pos T c nd pre)
    (hext : Ext T (funcstmt T.S.cs brk cont (.incdec i t inc) c).ctx)
    (hits : T.S.its = pre ++ (funcstmt T.S.cs brk cont (.incdec i t inc) c).items ++ post)
    (inv : SInv T.M0 T.S.cs T.cnts T.W T.σ T.vtys s env M) :
    Post T lp brk cont (T.at env M pre) (pre ++ (funcstmt T.S.cs brk cont (.incdec i t inc) c).items)
      (funcstmt T.S.cs brk cont (.incdec i t inc) c).ctx out := by
  simp only [exec, Option.map_eq_some_iff, Option.bind_eq_some_iff] at hex
  obtain ⟨v', ⟨v0, hv0, hv'⟩, rfl⟩ := hex
  have hs0 := join_some hv0
  simp only [Stmt.wt] at hwt
  split at hwt
  · rename_i hw
    obtain ⟨hi, hkt⟩ := hw
    simp only [funcstmt, funcopen_none hp.jump, List.nil_append, htb, if_false] at hext hits ⊢
    have hslot : T.σ.getD i 0 = c.slots.getD i 0 := hext.1 i (by
      show i < c.slots.length; rw [hp.nslots]; exact hi)
    -- load
    obtain ⟨a, r0, ha, hxl, hrep0⟩ := inv.a.load T.S.cs (lt_of_get hkt) hkt hs0
    rw [hslot] at ha
    have hr0 := inv.range i t v0 hkt hs0
    generalize hol : funcinst c.ctx (.load (loadOf T.S.cs t)) (cls t) [.tmp (tmpName (c.slots.getD i 0))] = ol
      at hext hits ⊢
    have hol1 : ol.items = [.ins (.op (some (tmpName (c.lastid + 1), cls t)) (.load (loadOf T.S.cs t))
        [.tmp (tmpName (c.slots.getD i 0))])] := by rw [← hol]; rfl
    have hol2 : ol.val = .tmp (tmpName (c.lastid + 1)) := by rw [← hol]; rfl
    have hol3 : ol.ctx = ⟨c.lastid + 1, c.blockid, c.cur⟩ := by rw [← hol]; rfl
    generalize hoa : funcinst ol.ctx (if inc = true then Op.add else Op.sub) (cls t) [ol.val, .int 1] = oa
      at hext hits ⊢
    have hoa1 : oa.items = [.ins (.op (some (tmpName (c.lastid + 2), cls t))
        (if inc = true then Op.add else Op.sub) [.tmp (tmpName (c.lastid + 1)), .int 1])] := by
      rw [← hoa, hol3, hol2]; rfl
    have hoa2 : oa.val = .tmp (tmpName (c.lastid + 2)) := by rw [← hoa, hol3]; rfl
    have hoa3 : oa.ctx = ⟨c.lastid + 2, c.blockid, c.cur⟩ := by rw [← hoa, hol3]; rfl
    rw [hol1, hoa1, hoa2] at hits ⊢
    simp only [List.append_nil] at hits ⊢
    have hits1 : T.S.its = pre ++ .ins (.op (some (tmpName (c.lastid + 1), cls t)) (.load (loadOf T.S.cs t))
        [.tmp (tmpName (c.slots.getD i 0))]) :: (.ins (.op (some (tmpName (c.lastid + 2), cls t))
        (if inc = true then Op.add else Op.sub) [.tmp (tmpName (c.lastid + 1)), .int 1]) ::
        storeIns t (.tmp (tmpName (c.lastid + 2))) (c.slots.getD i 0) :: post) := by
      rw [hits]; simp
    have hr1 := (setM T.S M).run_ins (env := env) hits1 (readVals_one (readVal_tmp ha)) hxl
    -- add / sub
    obtain ⟨r', hxa, hsv, hrv⟩ := incdec_exec T.S.cs htb inc M hr0 hrep0 hv'
    have hits2 : T.S.its = (pre ++ [.ins (.op (some (tmpName (c.lastid + 1), cls t)) (.load (loadOf T.S.cs t))
        [.tmp (tmpName (c.slots.getD i 0))])]) ++ .ins (.op (some (tmpName (c.lastid + 2), cls t))
        (if inc = true then Op.add else Op.sub) [.tmp (tmpName (c.lastid + 1)), .int 1]) ::
        (storeIns t (.tmp (tmpName (c.lastid + 2))) (c.slots.getD i 0) :: post) := by
      rw [hits]; simp
    have hr2 := (setM T.S M).run_ins (env := env.insert (tmpName (c.lastid + 1)) r0) hits2
      (readVals_two (readVal_insert_self _ _ _ _) (readVal_int _ _ _)) hxa
    -- the environment after the two instructions keeps the slots
    have hfr : Frame c.lastid (c.lastid + 2) env
        ((env.insert (tmpName (c.lastid + 1)) r0).insert (tmpName (c.lastid + 2)) r') :=
      (Frame.insert (lo := c.lastid) (hi := c.lastid + 2) env r0 (by omega) (by omega)).comp
        (Frame.insert (lo := c.lastid) (hi := c.lastid + 2) _ r' (by omega) (by omega))
    have hpre : ∀ j, j < nd → T.σ.getD j 0 = c.slots.getD j 0 := fun j hj => hext.1 j (by
      show j < c.slots.length; rw [hp.nslots]; exact hj)
    have hfut : ∀ k, nd ≤ k → k < T.vtys.length → c.lastid + 2 < T.σ.getD k 0 := by
      intro k hk hkv
      have := hext.2 k (by show c.slots.length ≤ k; rw [hp.nslots]; exact hk) hkv
      rw [hoa3] at this
      exact this
    have inv2 := inv.env (slots_kept hp hpre hfut hfr)
    -- store
    obtain ⟨a', M', h1, h2, inv3⟩ := inv2.store hkt hWi hrv hsv
    rw [hslot] at h1
    have hits3 : T.S.its = (pre ++ [.ins (.op (some (tmpName (c.lastid + 1), cls t)) (.load (loadOf T.S.cs t))
        [.tmp (tmpName (c.slots.getD i 0))])] ++ [.ins (.op (some (tmpName (c.lastid + 2), cls t))
        (if inc = true then Op.add else Op.sub) [.tmp (tmpName (c.lastid + 1)), .int 1])]) ++
        storeIns t (.tmp (tmpName (c.lastid + 2))) (c.slots.getD i 0) :: post := by
      rw [hits]; simp
    have hr3 := run_nores T hits3 (readVals_two (readVal_insert_self _ _ _ _) (readVal_tmp h1)) h2
    refine ⟨hp.jump, 1 + 1 + 1, _, M', ?_, inv3⟩
    have hall := (hr1.trans hr2).trans hr3
    simp only [List.append_assoc, List.singleton_append, List.cons_append, List.nil_append, storeIns] at hall ⊢
    exact hall
  · cases hwt

end

/-- reading a `_Bool` object: the whole register is 0 or 1 -/
theorem AInv.load_bool (cs : Bool) {M0 : Mem} {cnts σ : List Nat} {W : List (CSem.Ty × Nat × Nat)} {vtys : List CSem.Ty} {s : Store} {i : Nat}
    {env : Env} {M : Mem} (h : AInv M0 cnts W σ vtys s i env M) {k : Nat} {v : Int} (hk : k < i)
    (hkt : vtys[k]? = some .bool) (hv : s[k]? = some (some v)) (hr : 0 ≤ v ∧ v ≤ 1) :
    ∃ a r, env[tmpName (σ.getD k 0)]? = some a ∧
      execOp (.load (loadOf cs .bool)) (some (cls .bool)) [a] M none = .ok (r, M) ∧ WRep 32 v r := by
  obtain ⟨a, al, h1, h2, h3, hc, h4, _, _, h6⟩ := h.slots k .bool hk hkt
  have hk' : M0.stack.size + k < M.stack.size := by rw [h.ssize]; omega
  have hal : M.stack[M0.stack.size + k] = al := by
    rw [Array.getElem?_eq_getElem hk'] at h2; exact Option.some.inj h2
  have hload := load_stack h.mem hk' (n := 1) (by decide) (by
    rw [hal, h4]; simp only [Ty.size, Nat.one_mul]; exact hc)
  rw [hal, h3] at hload
  have hx := h6 0 v (by omega) (by rw [ecell_zero]; exact hv)
  simp only [Ty.size, Nat.reduceMul, Nat.zero_mul] at hx
  refine ⟨⟨.l, a⟩, ⟨.w, loadLE al.bytes 0 1 &&& mask32⟩, h1, ?_, _, rfl, ?_⟩
  · have hlo : loadOf cs .bool = .ub := rfl
    have hcl : cls .bool = .w := rfl
    rw [hlo, hcl]
    simp [execOp, needRes, bind, Except.bind, loadInfo, hload, truncTo, pure, Except.pure, Cls.kind]
  · show (((loadLE al.bytes 0 1 &&& mask32) &&& mask32).toNat : Int) % 2 ^ 32 = v % 2 ^ 32
    rw [toNat_and_mask32, toNat_and_mask32]
    omega

section
variable (T : Stat) {s : Store} {out : CSem2.Outcome} {lp : Bool × Bool} {brk cont : String} {c : SCtx}
  {nd nd' : Nat} {pre post : List Item} {env : Env} {M : Mem}

/-- `++`/`--` on a `_Bool` object: `loadub`, `add`/`sub`, `cnew … 0` (`convert(f, &typebool, &typeint, v)`),
    `storeb` -/
theorem sim_incdec_bool (n : Nat) (i : Nat) (inc : Bool) (hWi : T.W.length ≤ i)
    (hex : exec T.S.cs T.P (n + 1) s (.incdec i .bool inc) = some out)
    (hwt : Stmt.wt T.vtys T.ret lp.1 lp.2 nd (.incdec i .bool inc) = some nd') (hp : Pos T c nd pre)
    (hext : Ext T (funcstmt T.S.cs brk cont (.incdec i .bool inc) c).ctx)
    (hits : T.S.its = pre ++ (funcstmt T.S.cs brk cont (.incdec i .bool inc) c).items ++ post)
    (inv : SInv T.M0 T.S.cs T.cnts T.W T.σ T.vtys s env M) :
    Post T lp brk cont (T.at env M pre) (pre ++ (funcstmt T.S.cs brk cont (.incdec i .bool inc) c).items)
      (funcstmt T.S.cs brk cont (.incdec i .bool inc) c).ctx out := by
  simp only [exec, Option.map_eq_some_iff, Option.bind_eq_some_iff] at hex
  obtain ⟨v', ⟨v0, hv0, hv'⟩, rfl⟩ := hex
  have hs0 := join_some hv0
  simp only [Stmt.wt] at hwt
  split at hwt
  · rename_i hw
    obtain ⟨hi, hkt⟩ := hw
    simp only [funcstmt, funcopen_none hp.jump, List.nil_append, if_true, convert, Ty.size] at hext hits ⊢
    have hslot : T.σ.getD i 0 = c.slots.getD i 0 := hext.1 i (by
      show i < c.slots.length; rw [hp.nslots]; exact hi)
    have hr0 := inv.range i .bool v0 hkt hs0
    have hr0' : 0 ≤ v0 ∧ v0 ≤ 1 := by
      have : InRange ⟨1, false⟩ v0 := hr0
      simpa [InRange, minVal, maxVal] using this
    -- load
    obtain ⟨a, r0, ha, hxl, hrep0⟩ := inv.a.load_bool T.S.cs (lt_of_get hkt) hkt hs0 hr0'
    rw [hslot] at ha
    -- the new value
    unfold incdecVal at hv'
    rw [Option.map_eq_some_iff] at hv'
    obtain ⟨z, hz, rfl⟩ := hv'
    have hP : incTy .bool = .int := rfl
    rw [hP] at hz
    have hzr : -2 ^ 31 ≤ z ∧ z < 2 ^ 32 := by
      cases inc <;> simp only [bin, arith, Bool.false_eq_true, if_false, if_true] at hz
      all_goals
        have : (Ty.intTy T.S.cs .int).signed = true := rfl
        simp only [this, if_true] at hz
        split at hz
        · cases hz; omega
        · cases hz
    have hia : InRange (Ty.intTy T.S.cs .int) v0 := by
      show InRange ⟨32, true⟩ v0
      rw [inRange32s]; omega
    obtain ⟨r1, hxa, hrep1⟩ : ∃ r1, execOp (if inc = true then Op.add else Op.sub) (some (cls .bool))
        [r0, ⟨.c, 1⟩] M none = .ok (r1, M) ∧ WRep 32 z r1 := by
      cases inc
      · obtain ⟨r1, h1, h2⟩ := binop_exec T.S.cs .sub rfl (t := .int) (tl := .int) (tr := .int)
          (by simp [BinTyped, BinOp.isShift, BinOp.isCmp, Ty.promoted]) M none hia
          (inRange_one T.S.cs .int (by decide)) ((rep_w (t := .int) rfl).2 hrep0)
          (one_rep T.S.cs .int (by decide)) hz
        exact ⟨r1, h1, (rep_w (t := .int) rfl).1 h2⟩
      · obtain ⟨r1, h1, h2⟩ := binop_exec T.S.cs .add rfl (t := .int) (tl := .int) (tr := .int)
          (by simp [BinTyped, BinOp.isShift, BinOp.isCmp, Ty.promoted]) M none hia
          (inRange_one T.S.cs .int (by decide)) ((rep_w (t := .int) rfl).2 hrep0)
          (one_rep T.S.cs .int (by decide)) hz
        exact ⟨r1, h1, (rep_w (t := .int) rfl).1 h2⟩
    obtain ⟨r2, hxc, hb2⟩ := tobool_w M none hrep1 hzr
    have hrep2 : Rep .bool (conv (Ty.intTy T.S.cs .int) (Ty.intTy T.S.cs .bool) z) r2 := boolres_rep T.S.cs hb2
    have hrv : InRange (Ty.intTy T.S.cs .bool) (conv (Ty.intTy T.S.cs .int) (Ty.intTy T.S.cs .bool) z) :=
      Eval.wrap_inRange (ty_valid T.S.cs .bool) _
    -- the items
    simp only [funcinst, Out.seq, List.append_assoc, List.singleton_append, List.cons_append,
      List.nil_append, ctx_lastid, ctx_blockid, ctx_cur] at hext hits ⊢
    have hits1 : T.S.its = pre ++ .ins (.op (some (tmpName (c.lastid + 1), cls .bool))
        (.load (loadOf T.S.cs .bool)) [.tmp (tmpName (c.slots.getD i 0))]) ::
        (.ins (.op (some (tmpName (c.lastid + 1 + 1), cls .bool))
          (if inc = true then Op.add else Op.sub) [.tmp (tmpName (c.lastid + 1)), .int 1]) ::
        (.ins (.op (some (tmpName (c.lastid + 1 + 1 + 1), .w)) (.cmpw .ne)
          [.tmp (tmpName (c.lastid + 1 + 1)), .int 0]) ::
        (storeIns .bool (.tmp (tmpName (c.lastid + 1 + 1 + 1))) (c.slots.getD i 0) :: post))) := hits
    have hr1 := (setM T.S M).run_ins (env := env) hits1 (readVals_one (readVal_tmp ha)) hxl
    have hits2 : T.S.its = (pre ++ [.ins (.op (some (tmpName (c.lastid + 1), cls .bool))
        (.load (loadOf T.S.cs .bool)) [.tmp (tmpName (c.slots.getD i 0))])]) ++
        .ins (.op (some (tmpName (c.lastid + 1 + 1), cls .bool))
          (if inc = true then Op.add else Op.sub) [.tmp (tmpName (c.lastid + 1)), .int 1]) ::
        (.ins (.op (some (tmpName (c.lastid + 1 + 1 + 1), .w)) (.cmpw .ne)
          [.tmp (tmpName (c.lastid + 1 + 1)), .int 0]) ::
        (storeIns .bool (.tmp (tmpName (c.lastid + 1 + 1 + 1))) (c.slots.getD i 0) :: post)) := by
      rw [hits1]; simp
    have hr2 := (setM T.S M).run_ins (env := env.insert (tmpName (c.lastid + 1)) r0) hits2
      (readVals_two (readVal_insert_self _ _ _ _) (readVal_int _ _ _)) hxa
    have hits3 : T.S.its = (pre ++ [.ins (.op (some (tmpName (c.lastid + 1), cls .bool))
        (.load (loadOf T.S.cs .bool)) [.tmp (tmpName (c.slots.getD i 0))])] ++
        [.ins (.op (some (tmpName (c.lastid + 1 + 1), cls .bool))
          (if inc = true then Op.add else Op.sub) [.tmp (tmpName (c.lastid + 1)), .int 1])]) ++
        .ins (.op (some (tmpName (c.lastid + 1 + 1 + 1), .w)) (.cmpw .ne)
          [.tmp (tmpName (c.lastid + 1 + 1)), .int 0]) ::
        (storeIns .bool (.tmp (tmpName (c.lastid + 1 + 1 + 1))) (c.slots.getD i 0) :: post) := by
      rw [hits1]; simp
    have hr3 := (setM T.S M).run_ins
      (env := (env.insert (tmpName (c.lastid + 1)) r0).insert (tmpName (c.lastid + 1 + 1)) r1) hits3
      (readVals_two (readVal_insert_self _ _ _ _) (readVal_int _ _ _)) hxc
    -- the environment after the three instructions keeps the slots
    have hfr : Frame c.lastid (c.lastid + 1 + 1 + 1) env
        (((env.insert (tmpName (c.lastid + 1)) r0).insert (tmpName (c.lastid + 1 + 1)) r1).insert
          (tmpName (c.lastid + 1 + 1 + 1)) r2) :=
      ((Frame.insert (lo := c.lastid) (hi := c.lastid + 1 + 1 + 1) env r0 (by omega) (by omega)).comp
        (Frame.insert (lo := c.lastid) (hi := c.lastid + 1 + 1 + 1) _ r1 (by omega) (by omega))).comp
        (Frame.insert (lo := c.lastid) (hi := c.lastid + 1 + 1 + 1) _ r2 (by omega) (by omega))
    have hpre : ∀ j, j < nd → T.σ.getD j 0 = c.slots.getD j 0 := fun j hj => hext.1 j (by
      show j < c.slots.length; rw [hp.nslots]; exact hj)
    have hfut : ∀ k, nd ≤ k → k < T.vtys.length → c.lastid + 1 + 1 + 1 < T.σ.getD k 0 := by
      intro k hk hkv
      exact hext.2 k (by show c.slots.length ≤ k; rw [hp.nslots]; exact hk) hkv
    have inv2 := inv.env (slots_kept hp hpre hfut hfr)
    -- store
    obtain ⟨a', M', h1, h2, inv3⟩ := inv2.store hkt hWi hrv (storeVal_of_rep hrep2)
    rw [hslot] at h1
    have hits4 : T.S.its = (pre ++ [.ins (.op (some (tmpName (c.lastid + 1), cls .bool))
        (.load (loadOf T.S.cs .bool)) [.tmp (tmpName (c.slots.getD i 0))])] ++
        [.ins (.op (some (tmpName (c.lastid + 1 + 1), cls .bool))
          (if inc = true then Op.add else Op.sub) [.tmp (tmpName (c.lastid + 1)), .int 1])] ++
        [.ins (.op (some (tmpName (c.lastid + 1 + 1 + 1), .w)) (.cmpw .ne)
          [.tmp (tmpName (c.lastid + 1 + 1)), .int 0])]) ++
        storeIns .bool (.tmp (tmpName (c.lastid + 1 + 1 + 1))) (c.slots.getD i 0) :: post := by
      rw [hits1]; simp
    have hr4 := run_nores T hits4 (readVals_two (readVal_insert_self _ _ _ _) (readVal_tmp h1)) h2
    refine ⟨hp.jump, 1 + 1 + 1 + 1, _, M', ?_, inv3⟩
    have hall := ((hr1.trans hr2).trans hr3).trans hr4
    simp only [List.append_assoc, List.singleton_append, List.cons_append, List.nil_append, storeIns]
      at hall ⊢
    exact hall
  · cases hwt

theorem sim_incdec (n : Nat) (i : Nat) (t : CSem.Ty) (inc : Bool) (hWi : T.W.length ≤ i)
    (hex : exec T.S.cs T.P (n + 1) s (.incdec i t inc) = some out)
    (hwt : Stmt.wt T.vtys T.ret lp.1 lp.2 nd (.incdec i t inc) = some nd') (hp : Pos T c nd pre)
    (hext : Ext T (funcstmt T.S.cs brk cont (.incdec i t inc) c).ctx)
    (hits : T.S.its = pre ++ (funcstmt T.S.cs brk cont (.incdec i t inc) c).items ++ post)
    (inv : SInv T.M0 T.S.cs T.cnts T.W T.σ T.vtys s env M) :
    Post T lp brk cont (T.at env M pre) (pre ++ (funcstmt T.S.cs brk cont (.incdec i t inc) c).items)
      (funcstmt T.S.cs brk cont (.incdec i t inc) c).ctx out := by
  by_cases htb : t = .bool
  · subst htb
    exact sim_incdec_bool T n i inc hWi hex hwt hp hext hits inv
  · exact sim_incdec_nb T n i t inc htb hWi hex hwt hp hext hits inv

end

end CprocVerif.LowerMach2

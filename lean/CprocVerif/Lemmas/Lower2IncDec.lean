/-
  C01, fragment 𝔽₂ — `x++` / `x--` as a statement (`EXPRINCDEC`): load, `add`/`sub` 1 at the class of the
  type (without promotion: the low bits are what matters), store.
-/
import CprocVerif.Lemmas.Lower2Leaf

set_option linter.unusedSimpArgs false

namespace CprocVerif.LowerMach2
open CprocVerif.Qbe CprocVerif.Lower CprocVerif.Lower2 CprocVerif.CSem CprocVerif.CSem2 CprocVerif.CInt
open CprocVerif.LowerArith CprocVerif.LowerMach CprocVerif.LowerMem

theorem inRange_one (cs : Bool) (t : CSem.Ty) (htb : t ≠ .bool) : InRange (t.intTy cs) 1 := by
  cases t <;> cases cs
  all_goals first | exact absurd rfl htb | decide

theorem one_rep (cs : Bool) (t : CSem.Ty) (htb : t ≠ .bool) : Rep t 1 ⟨.c, 1⟩ := by
  have h := const_rep cs t 1 (by decide) (fun h => absurd h htb)
  have hw : wrap (t.intTy cs) ((1 : Nat) : Int) = 1 :=
    Eval.wrap_of_inRange (ty_valid cs t) (inRange_one cs t htb)
  rw [hw] at h
  exact h

/-- the instruction of `EXPRINCDEC` on a representation of the old value gives what `funcstore`
    needs for the new one -/
theorem incdec_exec (cs : Bool) {t : CSem.Ty} (htb : t ≠ .bool) (inc : Bool) {v0 v' : Int} {r1 : RVal}
    (M : Mem) (hr0 : InRange (t.intTy cs) v0) (hrep : Rep t v0 r1)
    (hv : incdecVal cs t inc v0 = some v') :
    ∃ r', execOp (if inc = true then Op.add else Op.sub) (some (cls t)) [r1, ⟨.c, 1⟩] M none = .ok (r', M) ∧
      StoreVal t v' r' ∧ InRange (t.intTy cs) v' := by
  unfold incdecVal at hv
  rw [Option.map_eq_some_iff] at hv
  obtain ⟨z, hz, rfl⟩ := hv
  suffices h : ∃ r', execOp (if inc = true then Op.add else Op.sub) (some (cls t)) [r1, ⟨.c, 1⟩] M none =
      .ok (r', M) ∧ StoreVal t (conv ((incTy t).intTy cs) (t.intTy cs) z) r' by
    obtain ⟨r', h1, h2⟩ := h
    exact ⟨r', h1, h2, Eval.wrap_inRange (ty_valid cs t) _⟩
  by_cases hsm : t.size < 4
  · -- `char`, `short`: computed in `int` by C, on the untruncated register by the machine
    have hP : incTy t = .int := by simp [incTy, hsm]
    rw [hP] at hz ⊢
    have hcl : cls t = .w := by
      unfold cls; rw [if_neg (by omega)]
    rw [hcl]
    have hrep' : WRep (8 * t.size) v0 r1 := by
      unfold Rep at hrep; rw [if_neg (by omega)] at hrep; exact hrep
    obtain ⟨x, hx, hxv⟩ := hrep'
    have hxl := asW_lt hx
    have hra : Rep .uint (x.toNat : Int) r1 := (rep_w (t := .uint) rfl).2 ⟨x, hx, rfl⟩
    have hia : InRange (Ty.intTy cs .uint) (x.toNat : Int) := by
      show InRange ⟨32, false⟩ _
      rw [inRange32u]; omega
    have hz' : z = if inc = true then v0 + 1 else v0 - 1 := by
      cases inc <;> simp only [bin, arith, Bool.false_eq_true, if_false, if_true] at hz ⊢
      all_goals
        have : (Ty.intTy cs .int).signed = true := rfl
        simp only [this, if_true] at hz
        split at hz
        · cases hz; rfl
        · cases hz
    cases inc
    · -- `--`
      simp only [Bool.false_eq_true, if_false] at hz' ⊢
      have hb : bin .sub (Ty.intTy cs .uint) (x.toNat : Int) 1 =
          some (wrap ⟨32, false⟩ ((x.toNat : Int) - 1)) := by
        simp [bin, arith, Ty.intTy, Ty.size, Ty.signed]
      obtain ⟨r', hx', hr'⟩ := binop_exec cs .sub rfl (t := .uint) (tl := .uint) (tr := .uint)
        (by simp [BinTyped, BinOp.isShift, BinOp.isCmp, Ty.promoted]) M none hia (inRange_one cs .uint (by decide))
        hra (one_rep cs .uint (by decide)) hb
      refine ⟨r', hx', ?_⟩
      rw [rep_w (t := .uint) rfl] at hr'
      obtain ⟨x', hx1, hx2⟩ := hr'
      have hw := wrap_mod32 false ((x.toNat : Int) - 1)
      have hwt := wrap_mod_ty cs htb (v0 - 1)
      unfold StoreVal
      rw [if_neg (by omega)]
      refine ⟨x', hx1, ?_⟩
      subst hz'
      show _ = conv _ _ _ % _
      unfold conv
      rw [hwt]
      rcases size_cases t with hs | hs | hs | hs <;> simp only [hs, Nat.reduceMul] at hxv ⊢ <;> omega
    · -- `++`
      simp only [if_true] at hz' ⊢
      have hb : bin .add (Ty.intTy cs .uint) (x.toNat : Int) 1 =
          some (wrap ⟨32, false⟩ ((x.toNat : Int) + 1)) := by
        simp [bin, arith, Ty.intTy, Ty.size, Ty.signed]
      obtain ⟨r', hx', hr'⟩ := binop_exec cs .add rfl (t := .uint) (tl := .uint) (tr := .uint)
        (by simp [BinTyped, BinOp.isShift, BinOp.isCmp, Ty.promoted]) M none hia (inRange_one cs .uint (by decide))
        hra (one_rep cs .uint (by decide)) hb
      refine ⟨r', hx', ?_⟩
      rw [rep_w (t := .uint) rfl] at hr'
      obtain ⟨x', hx1, hx2⟩ := hr'
      have hw := wrap_mod32 false ((x.toNat : Int) + 1)
      have hwt := wrap_mod_ty cs htb (v0 + 1)
      unfold StoreVal
      rw [if_neg (by omega)]
      refine ⟨x', hx1, ?_⟩
      subst hz'
      show _ = conv _ _ _ % _
      unfold conv
      rw [hwt]
      rcases size_cases t with hs | hs | hs | hs <;> simp only [hs, Nat.reduceMul] at hxv ⊢ <;> omega
  · -- `int` and wider: the C operation itself
    have hP : incTy t = t := by simp [incTy, hsm]
    rw [hP] at hz ⊢
    have hpr : t.promoted = true := by
      cases t <;> simp [Ty.size] at hsm <;> rfl
    have hone : InRange (t.intTy cs) 1 := inRange_one cs t htb
    have hzr : InRange (t.intTy cs) z := by
      cases inc
      · exact Eval.bin_inRange (ty_arith cs hpr) .sub hr0 (fun _ => hone) hz
      · exact Eval.bin_inRange (ty_arith cs hpr) .add hr0 (fun _ => hone) hz
    have hwz : conv (t.intTy cs) (t.intTy cs) z = z := Eval.wrap_of_inRange (ty_valid cs t) hzr
    rw [hwz]
    cases inc
    · simp only [Bool.false_eq_true, if_false] at hz ⊢
      obtain ⟨r', hx', hr'⟩ := binop_exec cs .sub rfl (t := t) (tl := t) (tr := t)
        (by simp [BinTyped, BinOp.isShift, BinOp.isCmp, hpr]) M none hr0 hone hrep (one_rep cs t htb) hz
      exact ⟨r', hx', storeVal_of_rep hr'⟩
    · simp only [if_true] at hz ⊢
      obtain ⟨r', hx', hr'⟩ := binop_exec cs .add rfl (t := t) (tl := t) (tr := t)
        (by simp [BinTyped, BinOp.isShift, BinOp.isCmp, hpr]) M none hr0 hone hrep (one_rep cs t htb) hz
      exact ⟨r', hx', storeVal_of_rep hr'⟩

section
variable (T : Stat) {s : Store} {out : CSem2.Outcome} {lp : Bool} {brk cont : String} {c : SCtx}
  {nd nd' : Nat} {pre post : List Item} {env : Env} {M : Mem}

theorem sim_incdec (n : Nat) (i : Nat) (t : CSem.Ty) (inc : Bool)
    (hex : exec T.S.cs (n + 1) s (.incdec i t inc) = some out)
    (hwt : Stmt.wt T.vtys T.ret lp nd (.incdec i t inc) = some nd') (hp : Pos T c nd pre)
    (hext : Ext T (funcstmt T.S.cs brk cont (.incdec i t inc) c).ctx)
    (hits : T.S.its = pre ++ (funcstmt T.S.cs brk cont (.incdec i t inc) c).items ++ post)
    (inv : SInv T.S.cs T.σ T.vtys s env M) :
    Post T lp brk cont (T.at env M pre) (pre ++ (funcstmt T.S.cs brk cont (.incdec i t inc) c).items)
      (funcstmt T.S.cs brk cont (.incdec i t inc) c).ctx out := by
  simp only [exec, Option.map_eq_some_iff, Option.bind_eq_some_iff] at hex
  obtain ⟨v', ⟨v0, hv0, hv'⟩, rfl⟩ := hex
  have hs0 := join_some hv0
  simp only [Stmt.wt] at hwt
  split at hwt
  · rename_i hw
    obtain ⟨hi, hkt, htb⟩ := hw
    simp only [funcstmt, funcopen_none hp.jump, List.nil_append, htb, if_false] at hext hits ⊢
    have hslot : T.σ.getD i 0 = c.slots.getD i 0 := hext.1 i (by
      show i < c.slots.length; rw [hp.nslots]; exact hi)
    -- load
    obtain ⟨a, r0, ha, hxl, hrep0⟩ := inv.a.load T.S.cs (lt_of_get hkt) hkt hs0
    rw [hslot] at ha
    have hr0 := inv.range i t v0 hkt hs0
    generalize hol : funcinst c.ctx (.load (loadOf T.S.cs t)) (cls t) [.tmp (tmpName (c.slots.getD i 0))] = ol
      at hext hits ⊢
    have hol1 : ol.items = [.ins (.op (some (tmpName (c.lastid + 1), cls t)) (.load (loadOf T.S.cs t))
        [.tmp (tmpName (c.slots.getD i 0))])] := by rw [← hol]; rfl
    have hol2 : ol.val = .tmp (tmpName (c.lastid + 1)) := by rw [← hol]; rfl
    have hol3 : ol.ctx = ⟨c.lastid + 1, c.blockid, c.cur⟩ := by rw [← hol]; rfl
    generalize hoa : funcinst ol.ctx (if inc = true then Op.add else Op.sub) (cls t) [ol.val, .int 1] = oa
      at hext hits ⊢
    have hoa1 : oa.items = [.ins (.op (some (tmpName (c.lastid + 2), cls t))
        (if inc = true then Op.add else Op.sub) [.tmp (tmpName (c.lastid + 1)), .int 1])] := by
      rw [← hoa, hol3, hol2]; rfl
    have hoa2 : oa.val = .tmp (tmpName (c.lastid + 2)) := by rw [← hoa, hol3]; rfl
    have hoa3 : oa.ctx = ⟨c.lastid + 2, c.blockid, c.cur⟩ := by rw [← hoa, hol3]; rfl
    rw [hol1, hoa1, hoa2] at hits ⊢
    simp only [List.append_nil] at hits ⊢
    have hits1 : T.S.its = pre ++ .ins (.op (some (tmpName (c.lastid + 1), cls t)) (.load (loadOf T.S.cs t))
        [.tmp (tmpName (c.slots.getD i 0))]) :: (.ins (.op (some (tmpName (c.lastid + 2), cls t))
        (if inc = true then Op.add else Op.sub) [.tmp (tmpName (c.lastid + 1)), .int 1]) ::
        storeIns t (.tmp (tmpName (c.lastid + 2))) (c.slots.getD i 0) :: post) := by
      rw [hits]; simp
    have hr1 := (setM T.S M).run_ins (env := env) hits1 (readVals_one (readVal_tmp ha)) hxl
    -- add / sub
    obtain ⟨r', hxa, hsv, hrv⟩ := incdec_exec T.S.cs htb inc M hr0 hrep0 hv'
    have hits2 : T.S.its = (pre ++ [.ins (.op (some (tmpName (c.lastid + 1), cls t)) (.load (loadOf T.S.cs t))
        [.tmp (tmpName (c.slots.getD i 0))])]) ++ .ins (.op (some (tmpName (c.lastid + 2), cls t))
        (if inc = true then Op.add else Op.sub) [.tmp (tmpName (c.lastid + 1)), .int 1]) ::
        (storeIns t (.tmp (tmpName (c.lastid + 2))) (c.slots.getD i 0) :: post) := by
      rw [hits]; simp
    have hr2 := (setM T.S M).run_ins (env := env.insert (tmpName (c.lastid + 1)) r0) hits2
      (readVals_two (readVal_insert_self _ _ _ _) (readVal_int _ _ _)) hxa
    -- the environment after the two instructions keeps the slots
    have hfr : Frame c.lastid (c.lastid + 2) env
        ((env.insert (tmpName (c.lastid + 1)) r0).insert (tmpName (c.lastid + 2)) r') :=
      (Frame.insert (lo := c.lastid) (hi := c.lastid + 2) env r0 (by omega) (by omega)).comp
        (Frame.insert (lo := c.lastid) (hi := c.lastid + 2) _ r' (by omega) (by omega))
    have hpre : ∀ j, j < nd → T.σ.getD j 0 = c.slots.getD j 0 := fun j hj => hext.1 j (by
      show j < c.slots.length; rw [hp.nslots]; exact hj)
    have hfut : ∀ k, nd ≤ k → k < T.vtys.length → c.lastid + 2 < T.σ.getD k 0 := by
      intro k hk hkv
      have := hext.2 k (by show c.slots.length ≤ k; rw [hp.nslots]; exact hk) hkv
      rw [hoa3] at this
      exact this
    have inv2 := inv.env (slots_kept hp hpre hfut hfr)
    -- store
    obtain ⟨a', M', h1, h2, inv3⟩ := inv2.store hkt hrv hsv
    rw [hslot] at h1
    have hits3 : T.S.its = (pre ++ [.ins (.op (some (tmpName (c.lastid + 1), cls t)) (.load (loadOf T.S.cs t))
        [.tmp (tmpName (c.slots.getD i 0))])] ++ [.ins (.op (some (tmpName (c.lastid + 2), cls t))
        (if inc = true then Op.add else Op.sub) [.tmp (tmpName (c.lastid + 1)), .int 1])]) ++
        storeIns t (.tmp (tmpName (c.lastid + 2))) (c.slots.getD i 0) :: post := by
      rw [hits]; simp
    have hr3 := run_nores T hits3 (readVals_two (readVal_insert_self _ _ _ _) (readVal_tmp h1)) h2
    refine ⟨hp.jump, 1 + 1 + 1, _, M', ?_, inv3⟩
    have hall := (hr1.trans hr2).trans hr3
    simp only [List.append_assoc, List.singleton_append, List.cons_append, List.nil_append, storeIns] at hall ⊢
    exact hall
  · cases hwt

end

end CprocVerif.LowerMach2

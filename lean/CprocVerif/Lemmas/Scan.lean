import CprocVerif.Model.Scan
import CprocVerif.Lemmas.Lex

/-! Helper lemmas for C13 (and C11): the reader, the loops of `scan.c` in terms of the phase-2
character stream, fuel adequacy. -/

namespace CprocVerif.Scan
open CprocVerif.Gen.TokenKinds

/-! ## Reader basics -/

theorem chr_eq (s : S) : s.chr = s.stream.head? := by
  simp [S.chr, S.stream, List.head?_map]

@[simp] theorem inp_readHead (s : S) : s.readHead.inp = s.inp := by
  unfold S.readHead; split <;> simp_all

@[simp] theorem buf_readHead (s : S) : s.readHead.buf = s.buf := by
  unfold S.readHead; split <;> rfl

@[simp] theorem usebuf_readHead (s : S) : s.readHead.usebuf = s.usebuf := by
  unfold S.readHead; split <;> rfl

@[simp] theorem sawspace_readHead (s : S) : s.readHead.sawspace = s.sawspace := by
  unfold S.readHead; split <;> rfl

@[simp] theorem inp_nextchar (s : S) : s.nextchar.inp = s.inp.tail := by
  unfold S.nextchar; split <;> simp

@[simp] theorem stream_nextchar (s : S) : s.nextchar.stream = s.stream.tail := by
  simp [S.stream, List.map_tail]

@[simp] theorem usebuf_nextchar (s : S) : s.nextchar.usebuf = s.usebuf := by
  unfold S.nextchar; split <;> simp

@[simp] theorem sawspace_nextchar (s : S) : s.nextchar.sawspace = s.sawspace := by
  unfold S.nextchar; split <;> simp

theorem buf_nextchar (s : S) :
    s.nextchar.buf = if s.usebuf then s.buf ++ [s.chr.getD 0xff] else s.buf := by
  unfold S.nextchar; split <;> simp_all

theorem length_nextchar (s : S) : s.nextchar.inp.length = s.inp.length - 1 := by simp

@[simp] theorem length_stream (s : S) : s.stream.length = s.inp.length := by simp [S.stream]

end CprocVerif.Scan

namespace CprocVerif.Scan
open CprocVerif.Gen.TokenKinds

theorem chr_none_iff (s : S) : s.chr = none ↔ s.stream = [] := by
  rw [chr_eq]; cases s.stream <;> simp

theorem chr_some_iff (s : S) (c : UInt8) : s.chr = some c ↔ ∃ r, s.stream = c :: r := by
  rw [chr_eq]; cases s.stream <;> simp

theorem nextchar_use (s : S) (c : UInt8) (r : List UInt8) (hs : s.stream = c :: r)
    (hu : s.usebuf = true) :
    s.nextchar.stream = r ∧ s.nextchar.buf = s.buf ++ [c] ∧ s.nextchar.usebuf = true ∧
    s.nextchar.sawspace = s.sawspace := by
  simp [hs, buf_nextchar, hu, chr_eq]

theorem nextchar_nouse (s : S) (c : UInt8) (r : List UInt8) (hs : s.stream = c :: r)
    (hu : s.usebuf = false) :
    s.nextchar.stream = r ∧ s.nextchar.buf = s.buf ∧ s.nextchar.usebuf = false ∧
    s.nextchar.sawspace = s.sawspace := by
  simp [hs, buf_nextchar, hu]

/-! ## `ident` -/

theorem identLoop_spec : ∀ (n : Nat) (s : S), s.inp.length ≤ n → s.usebuf = true →
    (identLoop n s).stream = s.stream.dropWhile isidchar ∧
    (identLoop n s).buf = s.buf ++ s.stream.takeWhile isidchar ∧
    (identLoop n s).usebuf = true ∧ (identLoop n s).sawspace = s.sawspace := by
  intro n
  induction n with
  | zero =>
    intro s h hu
    have : s.stream = [] := by
      have := length_stream s
      exact List.eq_nil_of_length_eq_zero (by omega)
    simp [identLoop, this, hu]
  | succ n ih =>
    intro s h hu
    unfold identLoop
    rw [chr_eq]
    cases hs : s.stream with
    | nil => simp [onChr, hu, hs]
    | cons c r =>
      simp only [List.head?_cons, onChr]
      by_cases hc : isidchar c = true
      · have h1 : s.nextchar.inp.length ≤ n := by rw [length_nextchar]; omega
        have := ih s.nextchar h1 (by simp [hu])
        simp only [hc, if_true, List.dropWhile_cons, List.takeWhile_cons]
        rw [this.1, this.2.1, this.2.2.1, this.2.2.2]
        simp [hs, buf_nextchar, hu, chr_eq]
      · simp [hc, hu, hs]

end CprocVerif.Scan

namespace CprocVerif.Scan
open CprocVerif.Gen.TokenKinds
open CprocVerif.Spec.Lex (forall_uint8)

/-! ## `number` -/

/-- how many further characters the `number` loop absorbs from the stream `l` that follows the
current character, `allow` being `allowsign` -/
def numLen : Bool → List UInt8 → Nat
  | _, [] => 0
  | allow, c :: r =>
    if c = c! 'e' ∨ c = c! 'E' ∨ c = c! 'p' ∨ c = c! 'P' then 1 + numLen true r
    else if c = c! '+' ∨ c = c! '-' then (if allow then 1 + numLen false r else 0)
    else if c = c! '_' ∨ c = c! '.' then 1 + numLen false r
    else if isalnum c then 1 + numLen false r
    else 0

theorem numLen_le : ∀ (a : Bool) (l : List UInt8), numLen a l ≤ l.length := by
  intro a l
  induction l generalizing a with
  | nil => simp [numLen]
  | cons c r ih =>
    unfold numLen
    have h1 := ih true
    have h2 := ih false
    simp only [List.length_cons]
    repeat' split
    all_goals omega

theorem numberLoop_spec : ∀ (n : Nat) (allow : Bool) (s : S) (c0 : UInt8) (r : List UInt8),
    s.stream = c0 :: r → s.inp.length ≤ n → s.usebuf = true →
    (numberLoop n allow s).stream = r.drop (numLen allow r) ∧
    (numberLoop n allow s).buf = s.buf ++ c0 :: r.take (numLen allow r) ∧
    (numberLoop n allow s).usebuf = true ∧ (numberLoop n allow s).sawspace = s.sawspace := by
  intro n
  induction n with
  | zero =>
    intro allow s c0 r hs hn _
    have := length_stream s
    rw [hs] at this
    simp at this; omega
  | succ n ih =>
    intro allow s c0 r hs hn hu
    have hlen : s.nextchar.inp.length ≤ n := by rw [length_nextchar]; omega
    have hbuf : s.nextchar.buf = s.buf ++ [c0] := by simp [buf_nextchar, hu, chr_eq, hs]
    have hstr : s.nextchar.stream = r := by simp [hs]
    unfold numberLoop
    simp only []
    rw [chr_eq, hstr]
    cases r with
    | nil => simp [numLen, hbuf, hstr, hu]
    | cons c r' =>
      have key : ∀ a, (numberLoop n a s.nextchar).stream = r'.drop (numLen a r') ∧
          (numberLoop n a s.nextchar).buf = s.buf ++ c0 :: c :: r'.take (numLen a r') ∧
          (numberLoop n a s.nextchar).usebuf = true ∧
          (numberLoop n a s.nextchar).sawspace = s.sawspace := by
        intro a
        have := ih a s.nextchar c r' hstr hlen (by simp [hu])
        simpa [hbuf] using this
      simp only [List.head?_cons]
      unfold numLen
      split
      · simpa [show 1 + numLen true r' = numLen true r' + 1 by omega] using key true
      · split
        · cases allow
          · simp [hbuf, hstr, hu]
          · simpa [show 1 + numLen false r' = numLen false r' + 1 by omega] using key false
        · split
          · simpa [show 1 + numLen false r' = numLen false r' + 1 by omega] using key false
          · split
            · rename_i h
              have h' : isalnum c = false := by simpa using h
              simp [h', hbuf, hstr, hu]
            · rename_i h
              have h' : isalnum c = true := by simpa using h
              simpa [h', show 1 + numLen false r' = numLen false r' + 1 by omega] using key false

end CprocVerif.Scan

namespace CprocVerif.Scan
open CprocVerif.Spec.Lex

theorem numLen_cons (a : Bool) (c : UInt8) (r : List UInt8) :
    numLen a (c :: r) =
      if isExpLetter c then 1 + numLen true r
      else if isSign c then (if a then 1 + numLen false r else 0)
      else if isItem c then 1 + numLen false r else 0 := by
  have h : ∀ c : UInt8,
      ((c = c! 'e' ∨ c = c! 'E' ∨ c = c! 'p' ∨ c = c! 'P') ↔ isExpLetter c = true) ∧
      ((c = c! '+' ∨ c = c! '-') ↔ isSign c = true) ∧
      (((c = c! '_' ∨ c = c! '.') ∨ isalnum c = true) ↔ isItem c = true) := by
    apply forall_uint8; decide +kernel
  obtain ⟨h1, h2, h3⟩ := h c
  conv => lhs; unfold numLen
  by_cases e1 : isExpLetter c = true
  · simp [e1, h1.mpr e1]
  · have n1 := mt h1.mp e1
    by_cases e2 : isSign c = true
    · simp [e1, e2, n1, h2.mpr e2]
    · have n2 := mt h2.mp e2
      by_cases e3 : isItem c = true
      · rcases h3.mpr e3 with h | h
        · simp [e1, e2, e3, n1, n2, h]
        · by_cases h' : c = c! '_' ∨ c = c! '.'
          · simp [e1, e2, e3, n1, n2, h']
          · simp [e1, e2, e3, n1, n2, h', h]
      · have n3 := mt h3.mp e3
        have n4 : ¬ (c = c! '_' ∨ c = c! '.') := fun h => n3 (Or.inl h)
        have n5 : isalnum c = false := by
          cases h : isalnum c
          · rfl
          · exact absurd (Or.inr h) n3
        simp [e1, e2, e3, n1, n4, n2, n5]

theorem numLen_ppTailLen : ∀ l : List UInt8,
    numLen false l = ppTailLen l ∧
    numLen true l = (match l with
      | [] => 0
      | s :: r => if isSign s then 1 + ppTailLen r else ppTailLen l) := by
  intro l
  induction l with
  | nil => simp [numLen, ppTailLen]
  | cons c r ih =>
    have hA : ∀ a, isSign c = false → numLen a (c :: r) = ppTailLen (c :: r) := by
      intro a hs
      rw [numLen_cons]
      by_cases e1 : isExpLetter c = true
      · have hi := exp_is_item e1
        simp only [e1, if_true]
        cases r with
        | nil => simp [numLen, ppTailLen_one, hi]
        | cons s r' =>
          rw [ih.2, ppTailLen_pair c s r']
          by_cases e2 : isSign s = true
          · simp [e1, e2]; omega
          · simp [e1, e2, hi]
      · simp only [e1, hs, Bool.false_eq_true, if_false]
        by_cases e3 : isItem c = true
        · simp only [e3, if_true, ih.1]
          cases r with
          | nil => simp [ppTailLen_one, ppTailLen, e3]
          | cons s r' => rw [ppTailLen_pair c s r']; simp [e1, e3]
        · simp only [e3, Bool.false_eq_true, if_false]
          cases r with
          | nil => simp [ppTailLen_one, e3]
          | cons s r' => rw [ppTailLen_pair c s r']; simp [e1, e3]
    constructor
    · by_cases e2 : isSign c = true
      · rw [numLen_cons]
        have := sign_not_exp e2
        have hi := sign_not_item e2
        simp only [this, e2, Bool.false_eq_true, if_false, if_true]
        cases r with
        | nil => simp [ppTailLen_one, hi]
        | cons s r' => rw [ppTailLen_pair c s r']; simp [this, hi]
      · exact hA false (by simpa using e2)
    · by_cases e2 : isSign c = true
      · rw [numLen_cons]
        have := sign_not_exp e2
        simp [this, e2, ih.1]
      · have e2' : isSign c = false := by simpa using e2
        simp only [e2', Bool.false_eq_true, if_false]
        exact hA true e2'

end CprocVerif.Scan

import CprocVerif.Lemmas.PPLineScan

/-! C11 helper lemmas, part 5: `scan` / `scanP`, and what a scanned token's location means in
terms of `Spec/Presumed.lean`. -/

namespace CprocVerif.PPLine
open CprocVerif.Scan CprocVerif.Gen.TokenKinds CprocVerif.Spec.Presumed

variable {text : List UInt8} {δ : Int}

/-- `scan` delivers the location of the token's first byte (offset `start - 2 * skipped`) -/
theorem scan_ok {s : S} (h : Inv text δ s) {t : Token} {s' : S} (he : scan s = .ok (t, s')) :
    off s ≤ t.start - 2 * s.skipped ∧
    LocRel δ t.loc (locAt text (t.start - 2 * s.skipped)) ∧
    (t.kind = .TEOF ↔ text[t.start - 2 * s.skipped]? = none) ∧
    (t.kind = .TNEWLINE ↔ text[t.start - 2 * s.skipped]? = some (c! '\n')) ∧
    Inv text δ s' ∧ (t.kind ≠ .TEOF → t.start - 2 * s.skipped < off s') ∧
    (t.kind = .TEOF → t.start - 2 * s.skipped = off s') := by
  have hk := scankind_ok (s.inp.length + 2) ({ s with sawspace := false } : S)
    (h.of_core (s' := { s with sawspace := false }) rfl)
  unfold scan at he
  cases hsk : scankind (s.inp.length + 2) ({ s with sawspace := false } : S) with
  | error e => rw [hsk] at he; cases he
  | ok r =>
    obtain ⟨k, l, p, s1⟩ := r
    rw [hsk] at hk he
    obtain ⟨o, a1, a2, a3, a4, a5, a6, a7, a8⟩ := hk
    have a1' : off s ≤ o := a1
    have a2' : p = (if k = .TEOF then o else o + 1) + 2 * s.skipped := a2
    simp only [] at he
    have hstart : (if k = Kind.TEOF then p else p - 1) - 2 * s.skipped = o := by
      rw [a2']; split <;> omega
    split at he
    all_goals
      simp only [Except.ok.injEq, Prod.mk.injEq] at he
      obtain ⟨ht, hs'⟩ := he
      subst ht hs'
      simp only [hstart]
    · exact ⟨a1', a3, a4, a5, a6.of_core rfl, fun hk => by simpa [off] using a7 hk,
        fun hk => by simpa [off] using a8 hk⟩
    · exact ⟨a1', a3, a4, a5, a6, a7, a8⟩

/-- a diagnostic of `scan` names the line of some byte at or behind the current character -/
theorem scan_err {s : S} (h : Inv text δ s) {e : Err} (he : scan s = .error e) :
    ErrLine text δ (off s) e := by
  have hk := scankind_ok (s.inp.length + 2) ({ s with sawspace := false } : S)
    (h.of_core (s' := { s with sawspace := false }) rfl)
  unfold scan at he
  cases hsk : scankind (s.inp.length + 2) ({ s with sawspace := false } : S) with
  | error e1 =>
    rw [hsk] at hk he
    simp only [Except.error.injEq] at he
    subst he
    exact hk
  | ok r =>
    obtain ⟨k, l, p, s1⟩ := r
    rw [hsk] at he
    simp only [] at he
    split at he <;> cases he

/-! ## Directive records and the shift they cause -/

def toDir (d : Nat × Nat × Option (List UInt8)) : LineDir := ⟨d.1, d.2.1, d.2.2⟩

/-- the line shift in force after the directives `D`: the last one's line number minus the
physical line number of the byte that follows it -/
def shiftOf (text : List UInt8) (D : List LineDir) : Int :=
  match D.getLast? with
  | none => 0
  | some d => (d.line : Int) - (1 + newlines text 0 d.endOff)

/-- the file name in force after the directives `D` -/
def curFile (file0 : List UInt8) (D : List LineDir) : List UInt8 :=
  ((D.filterMap (·.file)).getLast?).getD file0

/-- what is known about a token scanned while the directives `D` were in force -/
structure Scanned (file0 : List UInt8) (text : List UInt8) (D : List LineDir) (t : PTok) : Prop where
  loc : LocRel (shiftOf text D) ⟨t.line, t.col⟩ (locAt text t.off)
  file : t.file = curFile file0 D
  le : t.off ≤ text.length
  eof : t.kind = .TEOF ↔ text[t.off]? = none
  nl : t.kind = .TNEWLINE ↔ text[t.off]? = some (c! '\n')
  bound : ∀ d ∈ D, d.endOff ≤ t.off

theorem inEffect_all {D : List LineDir} {o : Nat} (h : ∀ d ∈ D, d.endOff ≤ o) : inEffect D o = D := by
  unfold inEffect
  exact List.filter_eq_self.mpr (fun d hd => by simpa using h d hd)

/-- location of a byte that is not a new-line (or of the end of the text) -/
theorem locAt_plain (text : List UInt8) (o : Nat) (h : text[o]? ≠ some (c! '\n')) :
    locAt text o = ⟨(physAt text o).line, (physAt text o).col + 1⟩ := by
  unfold locAt
  cases hc : text[o]? with
  | none => rfl
  | some c =>
    have : c ≠ c! '\n' := by intro e; rw [hc, e] at h; exact h rfl
    simp [advChar, this]

theorem locAt_nl (text : List UInt8) (o : Nat) (h : text[o]? = some (c! '\n')) :
    locAt text o = ⟨(physAt text o).line + 1, 0⟩ := by
  unfold locAt
  rw [h]
  simp [advChar]

/-- **a token that is not a new-line carries the presumed location of its first byte** -/
theorem Scanned.spec {file0 : List UInt8} {D : List LineDir} {t : PTok}
    (h : Scanned file0 text D t) (hk : t.kind ≠ .TNEWLINE) :
    t.line = presumedLine text D t.off ∧ t.file = presumedFile file0 D t.off ∧
    t.col = column text t.off := by
  have hnl : text[t.off]? ≠ some (c! '\n') := fun e => hk (h.nl.mpr e)
  have hloc := h.loc
  rw [locAt_plain text t.off hnl] at hloc
  obtain ⟨h1, h2⟩ := hloc
  simp only [] at h1 h2
  have hall := inEffect_all h.bound
  refine ⟨?_, ?_, ?_⟩
  · unfold presumedLine
    rw [hall]
    unfold shiftOf at h1
    rw [physAt_line] at h1
    cases hD : D.getLast? with
    | none =>
      rw [hD] at h1
      simp only [] at h1 ⊢
      omega
    | some d =>
      rw [hD] at h1
      simp only [] at h1 ⊢
      have hd : d ∈ D := List.mem_of_getLast? hD
      have := newlines_split text 0 d.endOff t.off (Nat.zero_le _) (h.bound d hd)
      omega
  · rw [h.file]; unfold presumedFile curFile; rw [hall]
  · unfold column; rw [h2, physAt_col]

/-- a new-line token is located on the line after the one it ends, column 0 -/
theorem Scanned.newline {file0 : List UInt8} {D : List LineDir} {t : PTok}
    (h : Scanned file0 text D t) (hk : t.kind = .TNEWLINE) :
    t.line = presumedLine text D t.off + 1 ∧ t.col = 0 := by
  have hnl := h.nl.mp hk
  have hloc := h.loc
  rw [locAt_nl text t.off hnl] at hloc
  obtain ⟨h1, h2⟩ := hloc
  simp only [] at h1 h2
  have hall := inEffect_all h.bound
  refine ⟨?_, h2⟩
  unfold presumedLine
  rw [hall]
  unfold shiftOf at h1
  rw [physAt_line] at h1
  cases hD : D.getLast? with
  | none =>
    rw [hD] at h1
    simp only [] at h1 ⊢
    omega
  | some d =>
    rw [hD] at h1
    simp only [] at h1 ⊢
    have hd : d ∈ D := List.mem_of_getLast? hD
    have := newlines_split text 0 d.endOff t.off (Nat.zero_le _) (h.bound d hd)
    omega

/-- directives that end behind `o` do not change what the spec says about `o` -/
theorem presumed_stable (file0 : List UInt8) (D new : List LineDir) (o : Nat)
    (h : ∀ d ∈ new, o < d.endOff) :
    presumedLine text (D ++ new) o = presumedLine text D o ∧
    presumedFile file0 (D ++ new) o = presumedFile file0 D o := by
  have : inEffect (D ++ new) o = inEffect D o := by
    unfold inEffect
    rw [List.filter_append]
    have : new.filter (fun d => decide (d.endOff ≤ o)) = [] := by
      apply List.filter_eq_nil_iff.mpr
      intro d hd
      have := h d hd
      simp; omega
    rw [this]; simp
  unfold presumedLine presumedFile
  rw [this]
  exact ⟨rfl, rfl⟩

end CprocVerif.PPLine

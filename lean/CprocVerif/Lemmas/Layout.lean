import CprocVerif.Model.Layout
import CprocVerif.Spec.Abi

/-! Helper lemmas for property C06 (object layout). -/

namespace CprocVerif.Layout
open CprocVerif.Abi

instance instDecEqExcept {ε α : Type} [DecidableEq ε] [DecidableEq α] : DecidableEq (Except ε α)
  | .ok a, .ok b => if h : a = b then isTrue (by rw [h]) else isFalse (by intro h'; cases h'; exact h rfl)
  | .error a, .error b => if h : a = b then isTrue (by rw [h]) else isFalse (by intro h'; cases h'; exact h rfl)
  | .ok _, .error _ => isFalse (by intro h; cases h)
  | .error _, .ok _ => isFalse (by intro h; cases h)

/-! ## 64-bit arithmetic -/

theorem M64_eq : M64 = 2 ^ 64 := by decide

theorem u64_of_lt {x : Nat} (h : x < M64) : u64 x = x := Nat.mod_eq_of_lt h

theorem sub64_of_le {a b : Nat} (h : b ≤ a) (ha : a < M64) : sub64 a b = a - b := by
  unfold sub64 u64 M64 at *; omega

/-- power of two, decidably -/
def Pow2 (n : Nat) : Prop := 2 ^ n.log2 = n

instance (n : Nat) : Decidable (Pow2 n) := inferInstanceAs (Decidable (_ = _))

theorem Pow2.pos {n : Nat} (h : Pow2 n) : 0 < n := by
  unfold Pow2 at h; rw [← h]; exact Nat.two_pow_pos _

theorem Pow2.log_lt {n : Nat} (h : Pow2 n) (hn : n < M64) : n.log2 < 64 := by
  have : 2 ^ n.log2 < 2 ^ 64 := by rw [h, ← M64_eq]; exact hn
  exact (Nat.pow_lt_pow_iff_right (by decide)).1 this

theorem Pow2.dvd_of_le {a b : Nat} (ha : Pow2 a) (hb : Pow2 b) (h : a ≤ b) : a ∣ b := by
  unfold Pow2 at ha hb
  rw [← ha, ← hb]
  apply Nat.pow_dvd_pow
  have : 2 ^ a.log2 ≤ 2 ^ b.log2 := by rw [ha, hb]; exact h
  exact (Nat.pow_le_pow_iff_right (by decide)).1 this

theorem Pow2.max {a b : Nat} (ha : Pow2 a) (hb : Pow2 b) : Pow2 (max a b) := by
  rcases Nat.le_total a b with h | h
  · rw [Nat.max_eq_right h]; exact hb
  · rw [Nat.max_eq_left h]; exact ha

/-! ## `ALIGNDOWN` / `ALIGNUP` on powers of two -/

theorem and_mask (x k : Nat) (hk : k ≤ 64) (hx : x < 2 ^ 64) :
    x &&& (2 ^ 64 - 2 ^ k) = x / 2 ^ k * 2 ^ k := by
  apply Nat.eq_of_testBit_eq
  intro i
  have h1 : 2 ^ 64 - 2 ^ k = 2 ^ 64 - ((2 ^ k - 1) + 1) := by
    have := Nat.two_pow_pos k; omega
  have h2 : 2 ^ k - 1 < 2 ^ 64 := by
    have : 2 ^ k ≤ 2 ^ 64 := Nat.pow_le_pow_right (by decide) hk
    have := Nat.two_pow_pos k; omega
  rw [Nat.testBit_and, h1, Nat.testBit_two_pow_sub_succ h2, Nat.testBit_two_pow_sub_one,
    Nat.testBit_mul_two_pow, Nat.testBit_div_two_pow]
  by_cases hik : k ≤ i
  · have hikk : i - k + k = i := by omega
    by_cases hi : i < 64
    · simp [hik, hi, hikk, Nat.not_lt.2 hik]
    · have hx' : x.testBit i = false := by
        apply Nat.testBit_lt_two_pow
        exact Nat.lt_of_lt_of_le hx (Nat.pow_le_pow_right (by decide) (by omega))
      simp [hx', hikk]
  · have : i < k := by omega
    simp [hik, this]

theorem alignDown_eq {x n : Nat} (hp : Pow2 n) (hn : n < M64) (hx : x < M64) :
    alignDown x n = x / n * n := by
  have hk := hp.log_lt hn
  unfold Pow2 at hp
  have hn0 := Nat.two_pow_pos n.log2
  have hs : sub64 0 n = 2 ^ 64 - 2 ^ n.log2 := by
    rw [hp]; unfold sub64 u64 M64 at *; omega
  unfold alignDown
  rw [hs, u64_of_lt hx, and_mask x n.log2 (by omega) (by rw [← M64_eq]; exact hx), hp]

theorem alignUp_eq {x n : Nat} (hp : Pow2 n) (h : x + n < M64) : alignUp x n = roundUp x n := by
  have hn0 := hp.pos
  have h1 : n < M64 := by omega
  have h2 : x + n - 1 < M64 := by omega
  have h3 : sub64 (u64 (x + n)) 1 = x + n - 1 := by
    unfold sub64 u64
    unfold M64 at *
    omega
  unfold alignUp roundUp
  rw [h3, alignDown_eq hp h1 h2]

/-! ## `roundUp`, `x / a * a` -/

theorem roundUp_dvd (x a : Nat) : a ∣ roundUp x a := Nat.dvd_mul_left _ _

theorem le_roundUp (x : Nat) {a : Nat} (h : 0 < a) : x ≤ roundUp x a := by
  unfold roundUp
  have h1 := Nat.div_add_mod (x + a - 1) a
  have h2 := Nat.mod_lt (x + a - 1) h
  have e : (x + a - 1) / a * a = a * ((x + a - 1) / a) := Nat.mul_comm _ _
  omega

theorem roundUp_lt (x : Nat) {a : Nat} (h : 0 < a) : roundUp x a < x + a := by
  unfold roundUp
  have h1 := Nat.div_add_mod (x + a - 1) a
  have e : (x + a - 1) / a * a = a * ((x + a - 1) / a) := Nat.mul_comm _ _
  omega

theorem mult_unique {a y z x : Nat} (hy : a ∣ y) (hz : a ∣ z) (h1 : x ≤ y) (h2 : y < x + a)
    (h3 : x ≤ z) (h4 : z < x + a) : y = z := by
  obtain ⟨k, rfl⟩ := hy
  obtain ⟨l, rfl⟩ := hz
  rcases Nat.lt_trichotomy k l with h | h | h
  · have : a * (k + 1) ≤ a * l := Nat.mul_le_mul_left a h
    rw [Nat.mul_add] at this; omega
  · rw [h]
  · have : a * (l + 1) ≤ a * k := Nat.mul_le_mul_left a h
    rw [Nat.mul_add] at this; omega

theorem roundUp_unique {a y x : Nat} (ha : 0 < a) (hy : a ∣ y) (h1 : x ≤ y) (h2 : y < x + a) :
    roundUp x a = y :=
  mult_unique (roundUp_dvd x a) hy (le_roundUp x ha) (roundUp_lt x ha) h1 h2

theorem roundDown_dvd (x a : Nat) : a ∣ x / a * a := Nat.dvd_mul_left _ _
theorem roundDown_le (x a : Nat) : x / a * a ≤ x := Nat.div_mul_le_self x a
theorem lt_roundDown (x : Nat) {a : Nat} (h : 0 < a) : x < x / a * a + a := by
  have h1 := Nat.div_add_mod x a
  have h2 := Nat.mod_lt x h
  have e : x / a * a = a * (x / a) := Nat.mul_comm _ _
  omega

theorem roundDown_of_dvd {x a : Nat} (h : a ∣ x) : x / a * a = x :=
  Nat.div_mul_cancel h

theorem roundUp_of_dvd {x a : Nat} (h : a ∣ x) (ha : 0 < a) : roundUp x a = x :=
  roundUp_unique ha h (Nat.le_refl _) (by omega)

/-- the cursor lemma: rounding the bit cursor `c = 8·size − bits` up to `8a` bits is rounding
`size` up to `a` bytes -/
theorem roundUp_cursor {c bits size a : Nat} (hc : c + bits = 8 * size) (hb : bits < 8) (ha : 0 < a) :
    roundUp c (8 * a) = 8 * roundUp size a := by
  apply roundUp_unique (by omega)
  · exact Nat.mul_dvd_mul_left 8 (roundUp_dvd size a)
  · have := le_roundUp size ha; omega
  · have := roundUp_lt size ha; omega

/-! ## `bfPos` -/

theorem div_eq_iff {m n k : Nat} (hn : 0 < n) : m / n = k ↔ k * n ≤ m ∧ m < (k + 1) * n := by
  constructor
  · intro h
    have h1 := Nat.div_add_mod m n
    have h2 := Nat.mod_lt m hn
    subst h
    rw [Nat.add_mul, Nat.mul_comm]
    omega
  · intro ⟨h1, h2⟩
    exact Nat.div_eq_of_lt_le h1 h2

/-- the room left in the storage unit decides: either the bit-field starts at the cursor, or at
the next unit boundary -/
theorem bfPos_eq {c U w : Nat} (hU : 0 < U) (hw : 0 < w) (hwU : w ≤ U) :
    bfPos c U w = if w ≤ roundUp c U - c then c else roundUp c U := by
  have h1 := Nat.div_add_mod c U
  have h2 := Nat.mod_lt c hU
  have hq : c / U * U = U * (c / U) := Nat.mul_comm _ _
  by_cases hr : c % U = 0
  · have hd : U ∣ c := Nat.dvd_of_mod_eq_zero hr
    rw [roundUp_of_dvd hd hU]
    have hf : Fits U w c := by
      unfold Fits
      symm
      apply Nat.div_eq_of_lt_le
      · omega
      · rw [Nat.add_mul]; omega
    unfold bfPos
    rw [if_pos hf]
    simp
  · have e : (c / U + 1) * U = U * (c / U) + U := by rw [Nat.add_mul, Nat.one_mul, hq]
    have hru : roundUp c U = (c / U + 1) * U := by
      apply roundUp_unique hU (Nat.dvd_mul_left _ _)
      · omega
      · omega
    rw [hru]
    by_cases hfit : w ≤ (c / U + 1) * U - c
    · have hf : Fits U w c := by
        unfold Fits
        symm
        apply Nat.div_eq_of_lt_le
        · omega
        · omega
      unfold bfPos
      rw [if_pos hf, if_pos hfit]
    · have hf : ¬ Fits U w c := by
        unfold Fits
        intro h
        have := (div_eq_iff hU).1 h.symm
        omega
      unfold bfPos
      rw [if_neg hf, if_neg hfit]

theorem Fits_of_bfPos {c U w : Nat} (hU : 0 < U) (hw : 0 < w) (hwU : w ≤ U) : Fits U w (bfPos c U w) := by
  unfold bfPos
  split
  · assumption
  · unfold Fits
    have e : (c / U + 1 + 1) * U = (c / U + 1) * U + U := by rw [Nat.add_mul _ 1 U, Nat.one_mul]
    rw [Nat.mul_div_cancel _ hU]
    symm
    apply Nat.div_eq_of_lt_le
    · omega
    · omega

/-! ## Well-formed member declarations (the domain of `layout_correct`) -/

/-- One call of `addmember` that reaches none of its `error(...)` branches, on type descriptors
as the parser produces them (alignments are powers of two; integer types have size = alignment
≤ 8). -/
def WfDecl (isUnion pack : Bool) (d : Decl) : Prop :=
  Pow2 d.ty.align ∧ (d.ty.incomplete = true → d.ty.isArray = true) ∧
  (isUnion = false → d.ty.flexible = false) ∧
  match d.width with
  | none => d.align = 0 ∨ (Pow2 d.align ∧ d.ty.align ≤ d.align)
  | some w => d.ty.isInt = true ∧ d.align = 0 ∧ pack = false ∧ (w = 0 → d.named = false) ∧
      w ≤ 8 * d.ty.size ∧ d.ty.size = d.ty.align ∧ d.ty.size ≤ 8

instance (isUnion pack : Bool) (d : Decl) : Decidable (WfDecl isUnion pack d) := by
  unfold WfDecl; split <;> infer_instance

/-- in a struct nothing follows a flexible array member -/
def WfDecls (isUnion pack : Bool) : List Decl → Prop
  | [] => True
  | d :: ds => WfDecl isUnion pack d ∧ (isUnion = false → d.ty.incomplete = true → ds = []) ∧
      WfDecls isUnion pack ds

def decWfDecls (isUnion pack : Bool) : (ds : List Decl) → Decidable (WfDecls isUnion pack ds)
  | [] => isTrue trivial
  | d :: ds => by
    unfold WfDecls
    have := decWfDecls isUnion pack ds
    infer_instance

instance (isUnion pack : Bool) (ds : List Decl) : Decidable (WfDecls isUnion pack ds) :=
  decWfDecls isUnion pack ds

/-- the declaration produces a `struct member` (`name || width == -1`) -/
def Decl.hasMember (d : Decl) : Bool := d.named || d.width.isNone

/-- bound on the bytes one declaration can add -/
def wt (d : Decl) : Nat := d.ty.size + d.align + d.ty.align

def wts : List Decl → Nat
  | [] => 0
  | d :: ds => wt d + wts ds

/-- "struct/union has no members" is not raised, and sizes stay far below 2^64 -/
def Wf (isUnion pack : Bool) (ds : List Decl) : Prop :=
  WfDecls isUnion pack ds ∧ ds.any Decl.hasMember = true ∧ wts ds < 2 ^ 62

instance (isUnion pack : Bool) (ds : List Decl) : Decidable (Wf isUnion pack ds) := by
  unfold Wf; infer_instance

/-- the proof invariant: bit cursor `c = 8·size − bits` -/
structure Inv (st : St) (c : Nat) : Prop where
  cur : c + st.bits = 8 * st.size
  bits : st.bits < 8

/-! ## The struct branch of the bit-field case -/

theorem s16_of_lt {x : Nat} (h : x < 65536) : s16 x = x := Nat.mod_eq_of_lt h

theorem before_calc {size o bits : Nat} (h1 : o ≤ size) (h2 : bits ≤ (size - o) * 8)
    (h4 : size - o ≤ 8) (hs : size < 2 ^ 63) :
    s16 (sub64 (u64 (sub64 size o * 8)) bits) = (size - o) * 8 - bits := by
  have e1 : sub64 size o = size - o := sub64_of_le h1 (by unfold M64; omega)
  have e2 : u64 ((size - o) * 8) = (size - o) * 8 := u64_of_lt (by unfold M64; omega)
  have e3 : sub64 ((size - o) * 8) bits = (size - o) * 8 - bits := sub64_of_le h2 (by unfold M64; omega)
  rw [e1, e2, e3, s16_of_lt (by omega)]

theorem after_calc {z w b : Nat} (hz : z ≤ 8) (h : w + b ≤ 8 * z) :
    s16 (sub64 (sub64 (u64 (z * 8)) w) b) = 8 * z - b - w := by
  have e1 : u64 (z * 8) = z * 8 := u64_of_lt (by unfold M64; omega)
  have e2 : sub64 (z * 8) w = z * 8 - w := sub64_of_le (by omega) (by unfold M64; omega)
  have e3 : sub64 (z * 8 - w) b = z * 8 - w - b := sub64_of_le (by omega) (by unfold M64; omega)
  rw [e1, e2, e3, s16_of_lt (by omega)]
  omega

theorem bfStruct_spec {c size bits z w : Nat} (hc : c + bits = 8 * size) (hb : bits < 8)
    (hz : Pow2 z) (hz8 : z ≤ 8) (hw : w ≤ 8 * z) (hs : size < 2 ^ 62) :
    (if w = 0 then roundUp c (8 * z) else bfPos c (8 * z) w) + w + (bfStruct size bits z w).bits
        = 8 * (bfStruct size bits z w).size ∧
      (bfStruct size bits z w).bits < 8 ∧ (bfStruct size bits z w).size ≤ size + 2 * z ∧
      (0 < w → (bfStruct size bits z w).off = bfPos c (8 * z) w / (8 * z) * z ∧
        (bfStruct size bits z w).before = bfPos c (8 * z) w % (8 * z) ∧
        (bfStruct size bits z w).after = 8 * z - bfPos c (8 * z) w % (8 * z) - w) := by
  have hz0 := hz.pos
  have hal : alignUp size z = roundUp size z := by apply alignUp_eq hz; unfold M64; omega
  have he1 := le_roundUp size hz0
  have he2 := roundUp_lt size hz0
  have hdvd := roundUp_dvd size z
  have hcur := roundUp_cursor hc hb hz0
  generalize he : roundUp size z = e at *
  have hroom : u64 (u64 (sub64 e size * 8) + bits) = (e - size) * 8 + bits := by
    unfold sub64 u64 M64; omega
  have hz64 : z < M64 := by unfold M64; omega
  by_cases hnr : w = 0 ∨ w > (e - size) * 8 + bits
  · -- no room: a new storage unit starts at `end`
    have hnr' : (w == 0 || decide (w > (e - size) * 8 + bits)) = true := by
      rcases hnr with h | h <;> simp [h]
    have hoff : alignDown (sub64 e 0) z = e := by
      have : sub64 e 0 = e := by unfold sub64 u64 M64; omega
      rw [this, alignDown_eq hz hz64 (by unfold M64; omega), roundDown_of_dvd hdvd]
    have hsz : (bfStruct size bits z w).size = e + (w + 7) / 8 := by
      simp only [bfStruct, hal, hroom, hnr', ↓reduceIte]
      unfold sub64 u64 M64; omega
    have hbits : (bfStruct size bits z w).bits = (64 - w) % 8 := by
      simp only [bfStruct, hal, hroom, hnr', ↓reduceIte]
      unfold sub64 u64 M64; omega
    have hp : (if w = 0 then roundUp c (8 * z) else bfPos c (8 * z) w) = 8 * e := by
      split
      · exact hcur
      · rw [bfPos_eq (by omega) (by omega) hw, hcur, if_neg]; omega
    refine ⟨?_, ?_, ?_, ?_⟩
    · rw [hp, hsz, hbits]; omega
    · rw [hbits]; omega
    · rw [hsz]; omega
    · intro hw0
      have hp' : bfPos c (8 * z) w = 8 * e := by rw [← hp, if_neg (by omega)]
      have hmod : 8 * e % (8 * z) = 0 := by
        rw [Nat.mul_mod_mul_left, Nat.mod_eq_zero_of_dvd hdvd]
      have hdiv : 8 * e / (8 * z) * z = e := by
        rw [Nat.mul_div_mul_left _ _ (by decide), roundDown_of_dvd hdvd]
      rw [hp', hmod, hdiv]
      refine ⟨?_, ?_, ?_⟩
      · simp only [bfStruct, hal, hroom, hnr', ↓reduceIte]
        exact hoff
      · simp only [bfStruct, hal, hroom, hnr', ↓reduceIte]
        simp only [bne_self_eq_false, Bool.false_eq_true, ↓reduceIte, hoff]
        rw [before_calc (Nat.le_refl _) (by omega) (by omega) (by omega)]; omega
      · simp only [bfStruct, hal, hroom, hnr', ↓reduceIte]
        simp only [bne_self_eq_false, Bool.false_eq_true, ↓reduceIte, hoff]
        rw [before_calc (Nat.le_refl _) (by omega) (by omega) (by omega), after_calc hz8 (by omega)]; omega
  · -- room: the bit-field starts at the cursor
    have hw0 : 0 < w := by omega
    have hfit : w ≤ (e - size) * 8 + bits := by omega
    have hnr' : (w == 0 || decide (w > (e - size) * 8 + bits)) = false := by
      have : ¬ w = 0 := by omega
      simp [this]; omega
    have hp : bfPos c (8 * z) w = c := by
      rw [bfPos_eq (by omega) hw0 hw, hcur, if_pos]; omega
    have hF : Fits (8 * z) w c := by
      have := Fits_of_bfPos (c := c) (U := 8 * z) (w := w) (by omega) hw0 hw
      rwa [hp] at this
    -- k = !!bits, c / 8 = size - k
    generalize hk : (if (bits != 0) = true then 1 else 0) = k
    have hk' : (bits = 0 ∧ k = 0) ∨ (bits ≠ 0 ∧ k = 1) := by
      by_cases h : bits = 0
      · left; simp [h] at hk; exact ⟨h, hk.symm⟩
      · right; simp [h] at hk; exact ⟨h, hk.symm⟩
    have hc8 : c / 8 = size - k := by omega
    have hsub : sub64 size k = size - k := by unfold sub64 u64 M64; omega
    have hoff : alignDown (sub64 size k) z = c / (8 * z) * z := by
      rw [hsub, alignDown_eq hz hz64 (by unfold M64; omega), ← hc8, Nat.div_div_eq_div_mul]
    generalize ho : c / (8 * z) * z = o at *
    have ho1 : 8 * o = 8 * z * (c / (8 * z)) := by
      rw [← ho, Nat.mul_assoc, Nat.mul_comm (c / (8 * z)) z]
    have hmod : c % (8 * z) = c - 8 * o := by rw [Nat.mod_def, ho1]
    have hle : 8 * o ≤ c := by rw [ho1]; exact Nat.mul_div_le c (8 * z)
    have hlt : c < 8 * o + 8 * z := by
      have := Nat.lt_div_mul_add (a := c) (b := 8 * z) (by omega)
      rw [Nat.mul_comm] at this
      omega
    have hFit : c - 8 * o + w ≤ 8 * z := by
      unfold Fits at hF
      have := (div_eq_iff (m := c + w - 1) (n := 8 * z) (k := c / (8 * z)) (by omega)).1 hF.symm
      rw [Nat.add_mul, Nat.one_mul, Nat.mul_comm (c / (8 * z)) (8 * z), ← ho1] at this
      omega
    rw [if_neg (by omega), hp, hmod]
    have hsz : (bfStruct size bits z w).size = size + (w + 7 - bits) / 8 := by
      simp only [bfStruct, hal, hroom, hnr', Bool.false_eq_true, ↓reduceIte]
      unfold sub64 u64 M64; omega
    have hbits : (bfStruct size bits z w).bits = (bits + 64 - w) % 8 := by
      simp only [bfStruct, hal, hroom, hnr', Bool.false_eq_true, ↓reduceIte]
      unfold sub64 u64 M64; omega
    have g1 : o ≤ size := by omega
    have g2 : bits ≤ (size - o) * 8 := by omega
    have g3 : size - o ≤ 8 := by omega
    have g4 : w + ((size - o) * 8 - bits) ≤ 8 * z := by omega
    refine ⟨?_, ?_, ?_, ?_⟩
    · rw [hsz, hbits]; omega
    · rw [hbits]; omega
    · rw [hsz]; omega
    · intro _
      refine ⟨?_, ?_, ?_⟩
      · simp only [bfStruct, hal, hroom, hnr', Bool.false_eq_true, ↓reduceIte, hk]
        rw [ho]; exact hoff
      · simp only [bfStruct, hal, hroom, hnr', Bool.false_eq_true, ↓reduceIte, hk, hoff]
        rw [before_calc g1 g2 g3 (by omega)]; omega
      · simp only [bfStruct, hal, hroom, hnr', Bool.false_eq_true, ↓reduceIte, hk, hoff]
        rw [before_calc g1 g2 g3 (by omega), after_calc hz8 g4]; omega
/-! ## One call of `addmember` in a struct = one placement of the bit cursor -/

theorem effAlign_cases {pack : Bool} {d : Decl} (hpa : Pow2 d.ty.align)
    (h : d.align = 0 ∨ (Pow2 d.align ∧ d.ty.align ≤ d.align)) :
    (if d.align < d.ty.align then (if pack then 1 else d.ty.align) else d.align) = effAlign pack d ∧
    Pow2 (effAlign pack d) ∧ effAlign pack d ≤ d.align + d.ty.align ∧
    ¬ (d.align < d.ty.align ∧ d.align ≠ 0) := by
  have hp := hpa.pos
  unfold effAlign
  rcases h with h | ⟨h1, h2⟩
  · rw [h]
    cases pack
    · simp [hp, hpa]
    · simp [hp]; exact ⟨by decide, by omega⟩
  · have : ¬ d.align < d.ty.align := by omega
    cases pack
    · simp [this, Nat.max_eq_left h2, h1]
    · have h3 : 1 ≤ d.align := h1.pos
      simp [this, Nat.max_eq_left h3, h1]

theorem updAlign_eq_max (a b : Nat) : updAlign true a b = max a b := by
  simp only [updAlign, Bool.true_and, decide_eq_true_eq, Nat.max_def]
  split <;> split <;> omega

theorem addmember_struct_plain {pack : Bool} {st : St} {c : Nat} {d : Decl}
    (hwf : WfDecl false pack d) (hwd : d.width = none) (hinv : Inv st c) (hfl : st.flexible = false)
    (hb : st.size + wt d < 2 ^ 62) :
    ∃ st', addmember false pack st d = .ok (st', (placeStruct pack c d).2) ∧
      Inv st' (placeStruct pack c d).1 ∧ st'.size ≤ st.size + wt d ∧
      st'.align = max st.align (alignContrib x86_64 pack d) ∧
      st'.flexible = d.ty.incomplete := by
  obtain ⟨hpa, hinc, hflex, hw⟩ := hwf
  rw [hwd] at hw
  simp only at hw
  obtain ⟨e1, e2, e3, e4⟩ := effAlign_cases (pack := pack) hpa hw
  have hflex := hflex rfl
  unfold wt at hb
  have hal : alignUp st.size (effAlign pack d) = roundUp st.size (effAlign pack d) := by
    apply alignUp_eq e2; unfold M64; omega
  have hr1 := le_roundUp st.size e2.pos
  have hr2 := roundUp_lt st.size e2.pos
  have hcur := roundUp_cursor hinv.cur hinv.bits e2.pos
  have c1 : (d.ty.incomplete && !d.ty.isArray) = false := by
    cases h : d.ty.incomplete
    · rfl
    · simp [hinc h]
  have c2 : (decide (d.align < d.ty.align) && d.align != 0) = false := by
    cases h : (decide (d.align < d.ty.align) && d.align != 0)
    · rfl
    · simp at h; exact absurd h e4
  have hu : u64 (roundUp st.size (effAlign pack d) + d.ty.size) = roundUp st.size (effAlign pack d) + d.ty.size := by
    apply u64_of_lt; unfold M64; omega
  have h8 : 8 * roundUp st.size (effAlign pack d) / 8 = roundUp st.size (effAlign pack d) :=
    Nat.mul_div_cancel_left _ (by decide)
  simp only [addmember, hfl, hwd, hflex, placeStruct, alignContrib, c1, c2, e1, hal, hcur, hu, h8,
    Bool.not_false, Bool.and_false, Bool.false_and, Bool.false_eq_true, ↓reduceIte, Bool.false_or,
    Bool.or_false]
  refine ⟨_, rfl, ⟨?_, ?_⟩, ?_, ?_, ?_⟩
  · simp only []; omega
  · simp only []; omega
  · simp only [wt]; omega
  · exact updAlign_eq_max _ _
  · simp

theorem addmember_struct_bf {pack : Bool} {st : St} {c : Nat} {d : Decl} {w : Nat}
    (hwf : WfDecl false pack d) (hwd : d.width = some w) (hinv : Inv st c) (hfl : st.flexible = false)
    (hb : st.size + wt d < 2 ^ 62) :
    ∃ st', addmember false pack st d = .ok (st', (placeStruct pack c d).2) ∧
      Inv st' (placeStruct pack c d).1 ∧ st'.size ≤ st.size + wt d ∧
      st'.align = max st.align (alignContrib x86_64 pack d) ∧
      st'.flexible = d.ty.incomplete := by
  obtain ⟨hpa, hinc, hflex, hw⟩ := hwf
  rw [hwd] at hw
  simp only at hw
  obtain ⟨hint, hal0, hpk, hw0n, hww, hza, hz8⟩ := hw
  have hflex := hflex rfl
  have hz : Pow2 d.ty.size := by rw [hza]; exact hpa
  unfold wt at hb
  have hspec := bfStruct_spec (z := d.ty.size) (w := w) hinv.cur hinv.bits hz hz8 hww (by omega)
  obtain ⟨s1, s2, s3, s4⟩ := hspec
  have c1 : (d.ty.incomplete && !d.ty.isArray) = false := by
    cases h : d.ty.incomplete
    · rfl
    · simp [hinc h]
  have c5 : ¬ (w > u64 (d.ty.size * 8)) := by
    have : u64 (d.ty.size * 8) = d.ty.size * 8 := u64_of_lt (by unfold M64; omega)
    rw [this]; omega
  cases w with
  | zero =>
    have hn : d.named = false := hw0n rfl
    simp only [addmember, hfl, hwd, hflex, placeStruct, alignContrib, c1, hint, hal0, hpk, hn,
      Bool.not_false, Bool.and_false, Bool.false_and, Bool.false_eq_true, ↓reduceIte, Bool.false_or,
      Bool.or_false, Bool.not_true, bne_self_eq_false, x86_64]
    refine ⟨_, rfl, ⟨?_, ?_⟩, ?_, ?_, ?_⟩
    · simp only [↓reduceIte] at s1; simp only []; omega
    · exact s2
    · simp only [wt]; omega
    · simp [updAlign]
    · simp
  | succ n =>
    obtain ⟨o1, o2, o3⟩ := s4 (by omega)
    have c6 : (n + 1 == 0) = false := by simp
    simp only [↓reduceIte, Nat.add_one_ne_zero] at s1
    simp only [addmember, hfl, hwd, hflex, placeStruct, alignContrib, c1, c5, c6, hint, hal0, hpk,
      Bool.not_false, Bool.and_false, Bool.false_and, Bool.false_eq_true, ↓reduceIte, Bool.false_or,
      Bool.or_false, Bool.not_true, bne_self_eq_false, x86_64, o1, o2, o3]
    refine ⟨_, rfl, ⟨?_, ?_⟩, ?_, ?_, ?_⟩
    · simp only []; omega
    · exact s2
    · simp only [wt]; omega
    · cases hn : d.named
      · simp [updAlign]
      · simp only [↓reduceIte]; exact updAlign_eq_max _ _
    · simp

theorem addmember_struct {pack : Bool} {st : St} {c : Nat} {d : Decl}
    (hwf : WfDecl false pack d) (hinv : Inv st c) (hfl : st.flexible = false)
    (hb : st.size + wt d < 2 ^ 62) :
    ∃ st', addmember false pack st d = .ok (st', (placeStruct pack c d).2) ∧
      Inv st' (placeStruct pack c d).1 ∧ st'.size ≤ st.size + wt d ∧
      st'.align = max st.align (alignContrib x86_64 pack d) ∧
      st'.flexible = d.ty.incomplete := by
  cases hwd : d.width with
  | none => exact addmember_struct_plain hwf hwd hinv hfl hb
  | some w => exact addmember_struct_bf hwf hwd hinv hfl hb

theorem run_struct {pack : Bool} : ∀ (ds : List Decl) (st : St) (c : Nat),
    WfDecls false pack ds → Inv st c → st.flexible = false → st.size + wts ds < 2 ^ 62 →
    ∃ st', run false pack st ds = .ok (st', (structGo pack c ds).2) ∧
      Inv st' (structGo pack c ds).1 ∧ st'.size ≤ st.size + wts ds ∧
      st'.align = max st.align (aggAlign x86_64 pack ds) ∧
      st'.flexible = aggFlexible ds
  | [], st, c, _, hinv, hfl, _ => ⟨st, rfl, hinv, Nat.le_refl _, by simp [aggAlign], by simp [aggFlexible, hfl]⟩
  | d :: ds, st, c, hwf, hinv, hfl, hb => by
    obtain ⟨hd, hlast, hds⟩ := hwf
    simp only [wts] at hb
    obtain ⟨st1, e1, i1, s1, a1, f1⟩ := addmember_struct (c := c) hd hinv hfl (by omega)
    have hflexd : d.ty.flexible = false := hd.2.2.1 rfl
    cases hinc : d.ty.incomplete with
    | true =>
      have : ds = [] := hlast rfl hinc
      subst this
      refine ⟨st1, ?_, ?_, ?_, ?_, ?_⟩
      · simp only [run, e1, structGo, List.append_nil]
      · simpa [structGo] using i1
      · simp only [wts]; omega
      · simp only [aggAlign, a1]; omega
      · simp [aggFlexible, f1, hinc]
    | false =>
      rw [hinc] at f1
      obtain ⟨st2, e2, i2, s2, a2, f2⟩ := run_struct ds st1 (placeStruct pack c d).1 hds i1 f1 (by omega)
      refine ⟨st2, ?_, ?_, ?_, ?_, ?_⟩
      · simp only [run, e1, e2, structGo]
      · simpa [structGo] using i2
      · simp only [wts]; omega
      · simp only [aggAlign, a2, a1]; omega
      · simp [aggFlexible, f2, hinc, hflexd]

/-! ## Unions -/

/-- union invariant: `sz` = `t->size` (maximum of the *type sizes* of the members and of
`⌈width/8⌉` of the unnamed bit-fields so far), `mb` =
maximum of the bytes the members need, `al` = alignment so far -/
def UInv (sz mb al : Nat) : Prop := mb ≤ sz ∧ (sz ≤ mb ∨ (0 < mb ∧ sz ≤ al))

/-- unnamed bit-field (any width) -/
def Decl.unnamedBf (d : Decl) : Bool := !d.named && d.width.isSome

theorem addmember_union {pack : Bool} {st : St} {d : Decl} {mb : Nat}
    (hwf : WfDecl true pack d) (hu : UInv st.size mb st.align) :
    ∃ st', addmember true pack st d = .ok (st', unionMember pack d) ∧
      UInv st'.size (max mb (unionBytes d)) st'.align ∧
      st'.align = max st.align (alignContrib x86_64 pack d) ∧
      st'.flexible = (st.flexible || d.ty.incomplete || d.ty.flexible) := by
  obtain ⟨hpa, hinc, _, hw⟩ := hwf
  obtain ⟨u1, u2⟩ := hu
  have c1 : (d.ty.incomplete && !d.ty.isArray) = false := by
    cases h : d.ty.incomplete
    · rfl
    · simp [hinc h]
  cases hwd : d.width with
  | none =>
    rw [hwd] at hw
    simp only at hw
    obtain ⟨e1, e2, e3, e4⟩ := effAlign_cases (pack := pack) hpa hw
    have c2 : (decide (d.align < d.ty.align) && d.align != 0) = false := by
      cases h : (decide (d.align < d.ty.align) && d.align != 0)
      · rfl
      · simp at h; exact absurd h e4
    simp only [addmember, hwd, unionMember, unionBytes, alignContrib, c1, c2, e1,
      Bool.not_true, Bool.false_and, Bool.and_false, Bool.false_eq_true, ↓reduceIte]
    refine ⟨_, rfl, ?_, updAlign_eq_max _ _, ?_⟩
    · simp only [updAlign_eq_max]
      unfold UInv
      split <;> omega
    · simp
  | some w =>
    rw [hwd] at hw
    simp only at hw
    obtain ⟨hint, hal0, hpk, hw0n, hww, hza, hz8⟩ := hw
    have c5 : ¬ (w > u64 (d.ty.size * 8)) := by
      have : u64 (d.ty.size * 8) = d.ty.size * 8 := u64_of_lt (by unfold M64; omega)
      rw [this]; omega
    have haft : s16 (sub64 (u64 (d.ty.size * 8)) w) = 8 * d.ty.size - w := by
      have e1 : u64 (d.ty.size * 8) = d.ty.size * 8 := u64_of_lt (by unfold M64; omega)
      have e2 : sub64 (d.ty.size * 8) w = d.ty.size * 8 - w := sub64_of_le (by omega) (by unfold M64; omega)
      rw [e1, e2, s16_of_lt (by omega)]; omega
    cases hn : d.named with
    | false =>
      -- unnamed bit-field: `t->size = max(t->size, (width + 7) / 8)`, no member, no alignment
      have c8 : u64 (w + 7) = w + 7 := u64_of_lt (by unfold M64; omega)
      simp only [addmember, hwd, unionMember, unionBytes, alignContrib, c1, c5, c8, hint, hal0, hpk, hn, x86_64,
        Bool.not_true, Bool.false_and, Bool.and_false, Bool.false_eq_true, ↓reduceIte,
        bne_self_eq_false, Bool.or_self]
      refine ⟨_, rfl, ?_, ?_, ?_⟩
      · simp only []; unfold UInv; split <;> omega
      · simp
      · simp
    | true =>
      have hw0 : w ≠ 0 := fun h => by simpa [hn] using hw0n h
      have c6 : (w == 0) = false := by simp [hw0]
      simp only [addmember, hwd, unionMember, unionBytes, alignContrib, c1, c5, c6, hint, hal0, hpk, hn,
        x86_64, haft, Bool.not_true, Bool.false_and, Bool.and_false, Bool.false_eq_true, ↓reduceIte,
        Bool.or_false, bne_self_eq_false]
      refine ⟨_, rfl, ?_, updAlign_eq_max _ _, ?_⟩
      · simp only [updAlign_eq_max]
        unfold UInv
        split <;> omega
      · simp

theorem run_union {pack : Bool} : ∀ (ds : List Decl) (st : St) (mb : Nat),
    WfDecls true pack ds → UInv st.size mb st.align →
    ∃ st', run true pack st ds = .ok (st', unionMembers pack ds) ∧
      UInv st'.size (max mb (unionMax ds)) st'.align ∧
      st'.align = max st.align (aggAlign x86_64 pack ds) ∧
      st'.flexible = (st.flexible || aggFlexible ds)
  | [], st, mb, _, hu => ⟨st, rfl, by simpa [unionMax] using hu, by simp [aggAlign], by simp [aggFlexible]⟩
  | d :: ds, st, mb, hwf, hu => by
    obtain ⟨hd, _, hds⟩ := hwf
    obtain ⟨st1, e1, u1, a1, f1⟩ := addmember_union hd hu
    obtain ⟨st2, e2, u2, a2, f2⟩ := run_union ds st1 _ hds u1
    refine ⟨st2, ?_, ?_, ?_, ?_⟩
    · simp only [run, e1, e2, unionMembers]
    · simpa [unionMax, Nat.max_assoc] using u2
    · simp only [aggAlign, a2, a1]; omega
    · simp [aggFlexible, f2, f1, Bool.or_assoc]

/-! ## Whole aggregates -/

theorem alignContrib_props {T : Target} {isUnion pack : Bool} {d : Decl} (hwf : WfDecl isUnion pack d) :
    (alignContrib T pack d = 0 ∨ Pow2 (alignContrib T pack d)) ∧ alignContrib T pack d ≤ wt d ∧
    (d.hasMember = true → Pow2 (alignContrib T pack d)) := by
  obtain ⟨hpa, _, _, hw⟩ := hwf
  unfold wt Decl.hasMember
  cases hwd : d.width with
  | none =>
    rw [hwd] at hw
    obtain ⟨_, e2, e3, _⟩ := effAlign_cases (pack := pack) hpa hw
    simp only [alignContrib, hwd]
    exact ⟨Or.inr e2, by omega, fun _ => e2⟩
  | some w =>
    simp only [alignContrib, hwd, Option.isNone_some, Bool.or_false]
    split
    · exact ⟨Or.inr hpa, by omega, fun _ => hpa⟩
    · rename_i h
      refine ⟨Or.inl rfl, by omega, fun hn => ?_⟩
      simp [hn] at h

theorem aggAlign_props {T : Target} {isUnion pack : Bool} : ∀ {ds : List Decl}, WfDecls isUnion pack ds →
    (aggAlign T pack ds = 0 ∨ Pow2 (aggAlign T pack ds)) ∧ aggAlign T pack ds ≤ wts ds ∧
    (ds.any Decl.hasMember = true → Pow2 (aggAlign T pack ds))
  | [], _ => ⟨Or.inl rfl, Nat.le_refl _, by simp⟩
  | d :: ds, h => by
    obtain ⟨p1, p2, p3⟩ := alignContrib_props (T := T) h.1
    obtain ⟨q1, q2, q3⟩ := aggAlign_props (T := T) h.2.2
    have key : ∀ {a b : Nat}, (a = 0 ∨ Pow2 a) → (b = 0 ∨ Pow2 b) →
        (max a b = 0 ∨ Pow2 (max a b)) ∧ (Pow2 a → Pow2 (max a b)) ∧ (Pow2 b → Pow2 (max a b)) := by
      intro a b ha hb
      rcases ha with ha | ha <;> rcases hb with hb | hb
      · subst ha; subst hb; exact ⟨Or.inl rfl, fun h => absurd h (by decide), fun h => absurd h (by decide)⟩
      · subst ha; rw [Nat.zero_max]; exact ⟨Or.inr hb, fun _ => hb, fun _ => hb⟩
      · subst hb; rw [Nat.max_zero]; exact ⟨Or.inr ha, fun _ => ha, fun _ => ha⟩
      · exact ⟨Or.inr (ha.max hb), fun _ => ha.max hb, fun _ => ha.max hb⟩
    obtain ⟨k1, k2, k3⟩ := key p1 q1
    refine ⟨k1, ?_, ?_⟩
    · simp only [aggAlign, wts]; omega
    · intro hm
      simp only [List.any_cons, Bool.or_eq_true] at hm
      rcases hm with hm | hm
      · exact k2 (p3 hm)
      · exact k3 (q3 hm)

theorem placeStruct_isSome {isUnion pack : Bool} {c : Nat} {d : Decl} (hwf : WfDecl isUnion pack d) :
    (placeStruct pack c d).2.isSome = d.hasMember := by
  obtain ⟨_, _, _, hw⟩ := hwf
  unfold placeStruct Decl.hasMember
  cases hwd : d.width with
  | none => simp
  | some w =>
    rw [hwd] at hw
    cases w with
    | zero => simp [hw.2.2.2.1 rfl]
    | succ n => cases d.named <;> simp

theorem structGo_nonempty {pack : Bool} : ∀ {ds : List Decl} {c : Nat}, WfDecls false pack ds →
    ds.any Decl.hasMember = true → (structGo pack c ds).2.isEmpty = false
  | [], _, _, h => by simp at h
  | d :: ds, c, hwf, h => by
    have h1 := placeStruct_isSome (c := c) hwf.1
    simp only [List.any_cons, Bool.or_eq_true] at h
    simp only [structGo]
    cases hm : d.hasMember with
    | true =>
      rw [hm] at h1
      obtain ⟨m, hm'⟩ := Option.isSome_iff_exists.1 h1
      simp [hm']
    | false =>
      rw [hm] at h h1
      have := structGo_nonempty (c := (placeStruct pack c d).1) hwf.2.2 (by simpa using h)
      have h2 : (placeStruct pack c d).2 = none := by simpa using h1
      simp [h2, this]

theorem unionMember_isSome {pack : Bool} {d : Decl} :
    (unionMember pack d).isSome = d.hasMember := by
  unfold unionMember Decl.hasMember
  cases hwd : d.width with
  | none => simp
  | some w => cases d.named <;> simp

theorem unionMembers_nonempty {pack : Bool} : ∀ {ds : List Decl}, WfDecls true pack ds →
    ds.any Decl.hasMember = true → (unionMembers pack ds).isEmpty = false
  | [], _, h => by simp at h
  | d :: ds, hwf, h => by
    have h1 := unionMember_isSome (pack := pack) (d := d)
    simp only [List.any_cons, Bool.or_eq_true] at h
    simp only [unionMembers]
    cases hm : d.hasMember with
    | true =>
      rw [hm] at h1
      obtain ⟨m, hm'⟩ := Option.isSome_iff_exists.1 h1
      simp [hm']
    | false =>
      rw [hm] at h h1
      have := unionMembers_nonempty hwf.2.2 (by simpa using h)
      have h2 : unionMember pack d = none := by simpa using h1
      simp [h2, this]

/-- **struct**: the model computes the bit-cursor layout (x86-64 / RISC-V alignment rule) -/
theorem layout_struct {pack : Bool} {ds : List Decl} (h : Wf false pack ds) :
    layout false pack ds = .ok (Abi.layout x86_64 false pack ds) := by
  obtain ⟨hwf, hmem, hb⟩ := h
  obtain ⟨st', e, inv, hs, ha, hf⟩ := run_struct ds {} 0 hwf ⟨rfl, by decide⟩ rfl (by simpa using hb)
  obtain ⟨_, a2, a3⟩ := aggAlign_props (T := x86_64) hwf
  have hp := a3 hmem
  have hne := structGo_nonempty (c := 0) hwf hmem
  simp only [Nat.zero_max] at ha
  simp only [Nat.zero_add] at hs
  have hal : alignUp st'.size st'.align = roundUp st'.size st'.align := by
    apply alignUp_eq (ha ▸ hp); unfold M64; omega
  rw [ha] at hal
  have hsz : ((structGo pack 0 ds).1 + 7) / 8 = st'.size := by
    have := inv.cur; have := inv.bits; omega
  simp only [layout, e, hne, Abi.layout, hal, hsz, ha, hf, Bool.false_eq_true, ↓reduceIte]

theorem unionMax_le {pack : Bool} : ∀ {ds : List Decl}, WfDecls true pack ds → unionMax ds ≤ wts ds
  | [], _ => Nat.le_refl _
  | d :: ds, h => by
    have ih := unionMax_le h.2.2
    have : unionBytes d ≤ wt d := by
      obtain ⟨_, _, _, hw⟩ := h.1
      unfold unionBytes wt
      cases hwd : d.width with
      | none => simp only []; omega
      | some w => rw [hwd] at hw; simp only []; omega
    simp only [unionMax, wts]; omega

theorem roundUp_small {x a : Nat} (h1 : 0 < x) (h2 : x ≤ a) : roundUp x a = a :=
  roundUp_unique (by omega) (Nat.dvd_refl a) h2 (by omega)

/-- **union**, every well-formed member list (unnamed bit-fields of any width included) -/
theorem layout_union {pack : Bool} {ds : List Decl} (h : Wf true pack ds) :
    layout true pack ds = .ok (Abi.layout x86_64 true pack ds) := by
  obtain ⟨hwf, hmem, hb⟩ := h
  obtain ⟨st', e, ⟨u1, u2⟩, ha, hf⟩ := run_union ds {} 0 hwf ⟨Nat.le_refl _, Or.inl (Nat.le_refl _)⟩
  obtain ⟨_, a2, a3⟩ := aggAlign_props (T := x86_64) hwf
  have hp := a3 hmem
  have hne := unionMembers_nonempty hwf hmem
  simp only [Nat.zero_max] at ha u1 u2
  have hal : alignUp st'.size st'.align = roundUp st'.size st'.align := by
    apply alignUp_eq (ha ▸ hp)
    have := unionMax_le hwf
    unfold M64; omega
  have hsz : roundUp st'.size st'.align = roundUp (unionMax ds) (aggAlign x86_64 pack ds) := by
    rw [ha]
    rcases u2 with u2 | ⟨u2, u3⟩
    · have : st'.size = unionMax ds := by omega
      rw [this]
    · rw [ha] at u3
      rw [roundUp_small (by omega) u3, roundUp_small u2 (by omega)]
  rw [hsz] at hal
  rw [ha] at hal
  simp only [layout, e, hne, Abi.layout, hal, ha, hf, Bool.false_eq_true, ↓reduceIte, Bool.false_or]

/-! ## Acceptance by the model implies well-formedness -/

/-- what the parser guarantees about the type descriptors handed to `addmember` -/
def TypeWf (d : Decl) : Prop :=
  Pow2 d.ty.align ∧ (d.align = 0 ∨ Pow2 d.align) ∧
  (d.ty.isInt = true → d.ty.size = d.ty.align ∧ d.ty.size ≤ 8)

instance (d : Decl) : Decidable (TypeWf d) := by unfold TypeWf; infer_instance

theorem addmember_ok_wf {isUnion pack : Bool} {st : St} {d : Decl} {r : St × Option Member}
    (ht : TypeWf d) (h : addmember isUnion pack st d = .ok r) :
    WfDecl isUnion pack d ∧ (isUnion = false → st.flexible = false) ∧
      r.1.flexible = (st.flexible || d.ty.incomplete || d.ty.flexible) ∧
      (r.2.isSome = true → d.hasMember = true) := by
  obtain ⟨t1, t2, t3⟩ := ht
  by_cases c0 : (!isUnion && st.flexible) = true
  · simp only [addmember, c0, ↓reduceIte, reduceCtorEq] at h
  by_cases c1 : (d.ty.incomplete && !d.ty.isArray) = true
  · simp only [addmember, c0, c1, ↓reduceIte, reduceCtorEq] at h
  by_cases c2 : (d.ty.flexible && !isUnion) = true
  · simp only [addmember, c0, c1, c2, ↓reduceIte, reduceCtorEq] at h
  have k0 : isUnion = false → st.flexible = false := by
    intro hu; subst hu; simpa using c0
  have k1 : d.ty.incomplete = true → d.ty.isArray = true := by
    intro hi; simpa [hi] using c1
  have k2 : isUnion = false → d.ty.flexible = false := by
    intro hu; subst hu; simpa using c2
  cases hwd : d.width with
  | none =>
    by_cases c3 : (decide (d.align < d.ty.align) && d.align != 0) = true
    · simp only [addmember, c0, c1, c2, c3, hwd, ↓reduceIte, reduceCtorEq] at h
    have k3 : d.align = 0 ∨ (Pow2 d.align ∧ d.ty.align ≤ d.align) := by
      rcases t2 with t2 | t2
      · exact Or.inl t2
      · by_cases h0 : d.align = 0
        · exact Or.inl h0
        · right; refine ⟨t2, ?_⟩
          simp [h0] at c3; exact c3
    refine ⟨⟨t1, k1, k2, by rw [hwd]; exact k3⟩, k0, ?_, fun _ => by simp [Decl.hasMember, hwd]⟩
    simp only [addmember, c0, c1, c2, c3, hwd, ↓reduceIte, Bool.false_eq_true] at h
    cases isUnion <;> simp at h <;> rw [← h]
  | some w =>
    by_cases c4 : (!d.ty.isInt) = true
    · simp only [addmember, c0, c1, c2, c4, hwd, ↓reduceIte, reduceCtorEq] at h
    by_cases c5 : (d.align != 0) = true
    · simp only [addmember, c0, c1, c2, c4, c5, hwd, ↓reduceIte, reduceCtorEq] at h
    by_cases c6 : pack = true
    · simp only [addmember, c0, c1, c2, c4, c5, c6, hwd, ↓reduceIte, reduceCtorEq] at h
    by_cases c7 : (w == 0 && d.named) = true
    · simp only [addmember, c0, c1, c2, c4, c5, c6, c7, hwd, ↓reduceIte, reduceCtorEq] at h
    by_cases c8 : w > u64 (d.ty.size * 8)
    · simp only [addmember, c0, c1, c2, c4, c5, c6, c7, c8, hwd, ↓reduceIte, reduceCtorEq] at h
    have hint : d.ty.isInt = true := by simpa using c4
    obtain ⟨z1, z2⟩ := t3 hint
    have e8 : u64 (d.ty.size * 8) = d.ty.size * 8 := u64_of_lt (by unfold M64; omega)
    rw [e8] at c8
    have hfin : r.1.flexible = (st.flexible || d.ty.incomplete || d.ty.flexible) ∧
        (r.2.isSome = true → d.named = true) := by
      simp only [addmember, c0, c1, c2, c4, c5, c6, c7, e8, c8, hwd, ↓reduceIte, Bool.false_eq_true] at h
      cases isUnion
      · cases hn : d.named <;> simp [hn] at h <;> rw [← h] <;> simp
      · cases hn : d.named <;> simp [hn] at h <;> rw [← h] <;> simp
    refine ⟨⟨t1, k1, k2, ?_⟩, k0, hfin.1, fun hs => by simp [Decl.hasMember, hfin.2 hs]⟩
    rw [hwd]
    refine ⟨hint, by simpa using c5, by simpa using c6, ?_, by omega, z1, z2⟩
    intro hw0; subst hw0; simpa using c7

theorem run_ok_wf {isUnion pack : Bool} : ∀ (ds : List Decl) (st : St) (r : St × List Member),
    (∀ d ∈ ds, TypeWf d) → run isUnion pack st ds = .ok r →
    WfDecls isUnion pack ds ∧ (ds ≠ [] → isUnion = false → st.flexible = false) ∧
      (r.2.isEmpty = false → ds.any Decl.hasMember = true)
  | [], st, r, _, h => by
    simp only [run, Except.ok.injEq] at h
    subst h
    exact ⟨trivial, fun h => absurd rfl h, by simp⟩
  | d :: ds, st, r, ht, h => by
    simp only [run] at h
    cases h1 : addmember isUnion pack st d with
    | error e => simp [h1] at h
    | ok r1 =>
      obtain ⟨st1, m⟩ := r1
      simp only [h1] at h
      cases h2 : run isUnion pack st1 ds with
      | error e => simp [h2] at h
      | ok r2 =>
        obtain ⟨st2, ms⟩ := r2
        simp only [h2, Except.ok.injEq] at h
        subst h
        obtain ⟨w1, w2, w3, w4⟩ := addmember_ok_wf (ht d (by simp)) h1
        obtain ⟨v1, v2, v3⟩ := run_ok_wf ds st1 _ (fun x hx => ht x (by simp [hx])) h2
        refine ⟨⟨w1, ?_, v1⟩, fun _ => w2, ?_⟩
        · intro hu hinc
          by_cases hds : ds = []
          · exact hds
          · have := v2 hds hu
            simp only [] at w3
            rw [w3, hinc] at this
            simp at this
        · intro hne
          simp only [List.any_cons, Bool.or_eq_true]
          cases m with
          | some mm => exact Or.inl (w4 rfl)
          | none => exact Or.inr (v3 (by simpa using hne))

/-- what the parser guarantees, for a whole member list (plus the size bound) -/
def TypesWf (ds : List Decl) : Prop := (∀ d ∈ ds, TypeWf d) ∧ wts ds < 2 ^ 62

instance (ds : List Decl) : Decidable (TypesWf ds) := by unfold TypesWf; infer_instance

/-- if the model accepts a member list, none of the `error(...)` conditions holds -/
theorem layout_ok_wf {isUnion pack : Bool} {ds : List Decl} {L : Layout} (ht : TypesWf ds)
    (h : layout isUnion pack ds = .ok L) : Wf isUnion pack ds := by
  unfold layout at h
  cases h1 : run isUnion pack {} ds with
  | error e => simp [h1] at h
  | ok r =>
    obtain ⟨st, ms⟩ := r
    simp only [h1] at h
    obtain ⟨v1, _, v3⟩ := run_ok_wf ds {} _ ht.1 h1
    cases he : ms.isEmpty with
    | true => simp [he] at h
    | false => exact ⟨v1, v3 he, ht.2⟩

/-! ## Properties of the bit-cursor layout -/

/-- first bit occupied by a member -/
def Member.bitStart (m : Member) : Nat := 8 * m.offset + m.before
/-- number of bits occupied -/
def Member.bitLen (m : Member) : Nat := match m.width with | some w => w | none => 8 * m.tsize
def Member.bitEnd (m : Member) : Nat := m.bitStart + m.bitLen

theorem le_bfPos (c U w : Nat) (hU : 0 < U) : c ≤ bfPos c U w := by
  unfold bfPos
  split
  · exact Nat.le_refl _
  · have h1 := Nat.div_add_mod c U
    have h2 := Nat.mod_lt c hU
    rw [Nat.add_mul, Nat.one_mul, Nat.mul_comm]; omega

/-- facts about one placement, per produced member -/
structure MemberOk (c c' al : Nat) (m : Member) : Prop where
  start : c ≤ m.bitStart
  fin : m.bitEnd ≤ c'
  aligned : m.talign ∣ m.offset
  unit : m.width.isSome → m.tsize ∣ m.offset ∧ m.tsize = m.talign
  bwa : ∀ w, m.width = some w → m.before + w + m.after = 8 * m.tsize ∧ 0 < w
  plain : m.width = none → m.before = 0 ∧ m.after = 0
  contrib : m.talign ≤ al
  pow : Pow2 m.talign

theorem placeStruct_ok {pack : Bool} {c : Nat} {d : Decl} (hwf : WfDecl false pack d) :
    c ≤ (placeStruct pack c d).1 ∧
    ∀ m, (placeStruct pack c d).2 = some m →
      MemberOk c (placeStruct pack c d).1 (alignContrib x86_64 pack d) m := by
  obtain ⟨hpa, _, _, hw⟩ := hwf
  cases hwd : d.width with
  | none =>
    rw [hwd] at hw
    obtain ⟨_, e2, _, _⟩ := effAlign_cases (pack := pack) hpa hw
    have hp := e2.pos
    have h1 := le_roundUp c (a := 8 * effAlign pack d) (by omega)
    have h2 : 8 * effAlign pack d ∣ roundUp c (8 * effAlign pack d) := roundUp_dvd _ _
    obtain ⟨k, hk⟩ := h2
    have h3 : roundUp c (8 * effAlign pack d) / 8 = effAlign pack d * k := by
      rw [hk, Nat.mul_assoc, Nat.mul_div_cancel_left _ (by decide)]
    simp only [placeStruct, hwd, alignContrib]
    refine ⟨by omega, ?_⟩
    intro m hm
    simp only [Option.some.injEq] at hm
    subst hm
    refine ⟨?_, ?_, ?_, ?_, ?_, ?_, ?_, e2⟩
    · simp only [Member.bitStart, h3]; rw [hk] at h1
      have : 8 * (effAlign pack d * k) = 8 * effAlign pack d * k := by rw [Nat.mul_assoc]
      omega
    · simp only [Member.bitEnd, Member.bitStart, Member.bitLen, h3]
      rw [hk, Nat.mul_assoc]; omega
    · simp only [h3]; exact Nat.dvd_mul_right _ _
    · intro h; simp at h
    · intro w h; simp at h
    · intro _; exact ⟨rfl, rfl⟩
    · exact Nat.le_refl _
  | some w =>
    rw [hwd] at hw
    obtain ⟨_, _, _, hw0n, hww, hza, hz8⟩ := hw
    have hz0 : 0 < d.ty.size := by rw [hza]; exact hpa.pos
    cases w with
    | zero =>
      simp only [placeStruct, hwd]
      exact ⟨le_roundUp c (by omega), fun m hm => by simp at hm⟩
    | succ n =>
      have hU : 0 < 8 * d.ty.size := by omega
      have h1 := le_bfPos c (8 * d.ty.size) (n + 1) hU
      have hF := Fits_of_bfPos (c := c) hU (by omega : 0 < n + 1) hww
      simp only [placeStruct, hwd, alignContrib]
      generalize bfPos c (8 * d.ty.size) (n + 1) = p at *
      have h2 := Nat.div_add_mod p (8 * d.ty.size)
      have h3 := Nat.mod_lt p hU
      have h4 : 8 * (p / (8 * d.ty.size) * d.ty.size) = 8 * d.ty.size * (p / (8 * d.ty.size)) := by
        rw [Nat.mul_comm (p / (8 * d.ty.size)) d.ty.size, Nat.mul_assoc]
      have h5 : p % (8 * d.ty.size) + (n + 1) ≤ 8 * d.ty.size := by
        unfold Fits at hF
        have := (div_eq_iff (m := p + (n + 1) - 1) (k := p / (8 * d.ty.size)) hU).1 hF.symm
        rw [Nat.add_mul, Nat.one_mul, Nat.mul_comm (p / (8 * d.ty.size)) (8 * d.ty.size)] at this
        omega
      refine ⟨by omega, ?_⟩
      intro m hm
      cases hn : d.named with
      | false => simp [hn] at hm
      | true =>
        simp only [hn, ↓reduceIte, Option.some.injEq] at hm
        subst hm
        refine ⟨?_, ?_, ?_, ?_, ?_, ?_, ?_, hpa⟩
        · simp only [Member.bitStart, h4]; omega
        · simp only [Member.bitEnd, Member.bitStart, Member.bitLen, h4]; omega
        · simp only [← hza]; exact Nat.dvd_mul_left _ _
        · intro _; exact ⟨Nat.dvd_mul_left _ _, hza⟩
        · intro w h; simp only [Option.some.injEq] at h; subst h; simp only []; omega
        · intro h; simp at h
        · simp [x86_64]

theorem MemberOk.mono {c c' al c0 c1 al' : Nat} {m : Member} (h : MemberOk c c' al m)
    (h1 : c0 ≤ c) (h2 : c' ≤ c1) (h3 : al ≤ al') : MemberOk c0 c1 al' m :=
  ⟨Nat.le_trans h1 h.start, Nat.le_trans h.fin h2, h.aligned, h.unit, h.bwa, h.plain,
    Nat.le_trans h.contrib h3, h.pow⟩

theorem structGo_ok {pack : Bool} : ∀ (ds : List Decl) (c : Nat), WfDecls false pack ds →
    c ≤ (structGo pack c ds).1 ∧
    (∀ m ∈ (structGo pack c ds).2, MemberOk c (structGo pack c ds).1 (aggAlign x86_64 pack ds) m) ∧
    (structGo pack c ds).2.Pairwise (fun a b => a.bitEnd ≤ b.bitStart)
  | [], c, _ => ⟨Nat.le_refl _, by simp [structGo], by simp [structGo]⟩
  | d :: ds, c, hwf => by
    obtain ⟨p1, p2⟩ := placeStruct_ok (c := c) hwf.1
    obtain ⟨q1, q2, q3⟩ := structGo_ok ds (placeStruct pack c d).1 hwf.2.2
    simp only [structGo, aggAlign]
    refine ⟨Nat.le_trans p1 q1, ?_, ?_⟩
    · intro m hm
      rcases List.mem_append.1 hm with hm | hm
      · have := p2 m (by simpa using hm)
        exact this.mono (Nat.le_refl _) q1 (Nat.le_max_left _ _)
      · exact (q2 m hm).mono p1 (Nat.le_refl _) (Nat.le_max_right _ _)
    · rw [List.pairwise_append]
      refine ⟨?_, q3, ?_⟩
      · cases (placeStruct pack c d).2 <;> simp
      · intro a ha b hb
        have h1 := p2 a (by simpa using ha)
        have h2 := q2 b hb
        exact Nat.le_trans h1.fin h2.start


/-! ## Facts about laid-out aggregates -/

theorem mult_gap {z a b : Nat} (ha : z ∣ a) (hb : z ∣ b) (h : a < b) : a + z ≤ b := by
  obtain ⟨k, rfl⟩ := ha
  obtain ⟨l, rfl⟩ := hb
  have : k < l := by
    apply Nat.lt_of_not_le
    intro hle
    have := Nat.mul_le_mul_left z hle
    omega
  have := Nat.mul_le_mul_left z this
  rw [Nat.mul_succ] at this; omega

/-- everything the corollaries need about a member of a laid-out aggregate -/
structure Placed (L : Layout) (m : Member) : Prop where
  inside : m.bitEnd ≤ 8 * L.size
  aligned : m.talign ∣ m.offset
  alignDvd : m.talign ∣ L.align
  unit : ∀ w, m.width = some w → m.tsize ∣ m.offset ∧ m.offset + m.tsize ≤ L.size ∧
    m.before + w + m.after = 8 * m.tsize ∧ 0 < w
  plain : m.width = none → m.before = 0 ∧ m.after = 0

theorem struct_facts {pack : Bool} {ds : List Decl} (h : Wf false pack ds) :
    let L := Abi.layout x86_64 false pack ds
    (∀ m ∈ L.members, Placed L m) ∧ L.members.Pairwise (fun a b => a.bitEnd ≤ b.bitStart) ∧
    L.align ∣ L.size ∧ Pow2 L.align := by
  obtain ⟨hwf, hmem, hb⟩ := h
  obtain ⟨q1, q2, q3⟩ := structGo_ok ds 0 hwf
  obtain ⟨_, _, a3⟩ := aggAlign_props (T := x86_64) hwf
  have hp := a3 hmem
  simp only [Abi.layout, Bool.false_eq_true, ↓reduceIte]
  refine ⟨?_, q3, roundUp_dvd _ _, hp⟩
  intro m hm
  have ok := q2 m hm
  have hsz := le_roundUp (((structGo pack 0 ds).1 + 7) / 8) hp.pos
  have hdvd : m.talign ∣ aggAlign x86_64 pack ds := ok.pow.dvd_of_le hp ok.contrib
  have hin : m.bitEnd ≤ 8 * roundUp (((structGo pack 0 ds).1 + 7) / 8) (aggAlign x86_64 pack ds) := by
    have := ok.fin; omega
  refine ⟨hin, ok.aligned, hdvd, ?_, ok.plain⟩
  intro w hw
  obtain ⟨u1, u2⟩ := ok.unit (by simp [hw])
  obtain ⟨b1, b2⟩ := ok.bwa w hw
  refine ⟨u1, ?_, b1, b2⟩
  apply mult_gap u1
  · rw [u2]; exact Nat.dvd_trans hdvd (roundUp_dvd _ _)
  · have : m.bitEnd = 8 * m.offset + m.before + w := by simp [Member.bitEnd, Member.bitStart, Member.bitLen, hw]
    simp only []
    omega

/-- what `t->size` is for a union before the final `ALIGNUP`: each declaration contributes the
size of the member's *type* (also for a named bit-field), an unnamed bit-field `⌈width/8⌉` -/
def unionTypeMax : List Decl → Nat
  | [] => 0
  | d :: ds => max (if d.hasMember then d.ty.size else (d.width.getD 0 + 7) / 8) (unionTypeMax ds)

theorem addmember_union_gen {pack : Bool} {st : St} {d : Decl} (hwf : WfDecl true pack d) :
    ∃ st', addmember true pack st d = .ok (st', unionMember pack d) ∧
      st'.size = max st.size (if d.hasMember then d.ty.size else (d.width.getD 0 + 7) / 8) ∧
      st'.align = max st.align (alignContrib x86_64 pack d) := by
  obtain ⟨hpa, hinc, _, hw⟩ := hwf
  have c1 : (d.ty.incomplete && !d.ty.isArray) = false := by
    cases h : d.ty.incomplete
    · rfl
    · simp [hinc h]
  cases hwd : d.width with
  | none =>
    rw [hwd] at hw
    simp only at hw
    obtain ⟨e1, e2, e3, e4⟩ := effAlign_cases (pack := pack) hpa hw
    have c2 : (decide (d.align < d.ty.align) && d.align != 0) = false := by
      cases h : (decide (d.align < d.ty.align) && d.align != 0)
      · rfl
      · simp at h; exact absurd h e4
    simp only [addmember, hwd, unionMember, alignContrib, c1, c2, e1, Decl.hasMember,
      Bool.not_true, Bool.false_and, Bool.and_false, Bool.false_eq_true, ↓reduceIte, Option.isNone_none,
      Bool.or_true]
    refine ⟨_, rfl, ?_, updAlign_eq_max _ _⟩
    simp only [Nat.max_def]; split <;> split <;> omega
  | some w =>
    rw [hwd] at hw
    simp only at hw
    obtain ⟨hint, hal0, hpk, hw0n, hww, hza, hz8⟩ := hw
    have c5 : ¬ (w > u64 (d.ty.size * 8)) := by
      have : u64 (d.ty.size * 8) = d.ty.size * 8 := u64_of_lt (by unfold M64; omega)
      rw [this]; omega
    have haft : s16 (sub64 (u64 (d.ty.size * 8)) w) = 8 * d.ty.size - w := by
      have e1 : u64 (d.ty.size * 8) = d.ty.size * 8 := u64_of_lt (by unfold M64; omega)
      have e2 : sub64 (d.ty.size * 8) w = d.ty.size * 8 - w := sub64_of_le (by omega) (by unfold M64; omega)
      rw [e1, e2, s16_of_lt (by omega)]; omega
    cases hn : d.named with
    | false =>
      have c8 : u64 (w + 7) = w + 7 := u64_of_lt (by unfold M64; omega)
      simp only [addmember, hwd, unionMember, alignContrib, c1, c5, c8, hint, hal0, hpk, hn, x86_64,
        Decl.hasMember, Bool.not_true, Bool.false_and, Bool.and_false, Bool.false_eq_true, ↓reduceIte,
        bne_self_eq_false, Bool.or_self, Option.isNone_some, Option.getD_some]
      refine ⟨_, rfl, ?_, by simp⟩
      simp only [Nat.max_def]; split <;> split <;> omega
    | true =>
      have hw0 : w ≠ 0 := fun h => by simpa [hn] using hw0n h
      have c6 : (w == 0) = false := by simp [hw0]
      simp only [addmember, hwd, unionMember, alignContrib, c1, c5, c6, hint, hal0, hpk, hn,
        x86_64, haft, Decl.hasMember, Bool.not_true, Bool.false_and, Bool.and_false, Bool.false_eq_true,
        ↓reduceIte, Bool.or_false, bne_self_eq_false, Bool.true_or]
      refine ⟨_, rfl, ?_, updAlign_eq_max _ _⟩
      simp only [Nat.max_def]; split <;> split <;> omega

theorem run_union_gen {pack : Bool} : ∀ (ds : List Decl) (st : St), WfDecls true pack ds →
    ∃ st', run true pack st ds = .ok (st', unionMembers pack ds) ∧
      st'.size = max st.size (unionTypeMax ds) ∧
      st'.align = max st.align (aggAlign x86_64 pack ds)
  | [], st, _ => ⟨st, rfl, by simp [unionTypeMax], by simp [aggAlign]⟩
  | d :: ds, st, hwf => by
    obtain ⟨st1, e1, s1, a1⟩ := addmember_union_gen (st := st) hwf.1
    obtain ⟨st2, e2, s2, a2⟩ := run_union_gen ds st1 hwf.2.2
    refine ⟨st2, ?_, ?_, ?_⟩
    · simp only [run, e1, e2, unionMembers]
    · simp only [unionTypeMax, s2, s1]; omega
    · simp only [aggAlign, a2, a1]; omega

structure UMemberOk (tm al : Nat) (m : Member) : Prop where
  off : m.offset = 0
  before : m.before = 0
  tsize : m.tsize ≤ tm
  contrib : m.talign ≤ al
  pow : Pow2 m.talign
  bf : ∀ w, m.width = some w → 0 < w ∧ w ≤ 8 * m.tsize ∧ m.after = 8 * m.tsize - w ∧ m.tsize = m.talign
  plain : m.width = none → m.after = 0

theorem unionMembers_ok {pack : Bool} : ∀ (ds : List Decl), WfDecls true pack ds →
    ∀ m ∈ unionMembers pack ds, UMemberOk (unionTypeMax ds) (aggAlign x86_64 pack ds) m
  | [], _, m, hm => by simp [unionMembers] at hm
  | d :: ds, hwf, m, hm => by
    simp only [unionMembers] at hm
    rcases List.mem_append.1 hm with hm | hm
    · obtain ⟨hpa, _, _, hw⟩ := hwf.1
      have hm' : unionMember pack d = some m := by simpa using hm
      unfold unionMember at hm'
      cases hwd : d.width with
      | none =>
        rw [hwd] at hw hm'
        obtain ⟨_, e2, _, _⟩ := effAlign_cases (pack := pack) hpa hw
        simp only [Option.some.injEq] at hm'
        subst hm'
        refine ⟨rfl, rfl, ?_, ?_, e2, fun w h => by simp at h, fun _ => rfl⟩
        · simp only [unionTypeMax, Decl.hasMember, hwd, Option.isNone_none, Bool.or_true, ↓reduceIte]; omega
        · simp only [aggAlign, alignContrib, hwd]; omega
      | some w =>
        rw [hwd] at hw hm'
        obtain ⟨_, _, _, hw0n, hww, hza, _⟩ := hw
        cases hn : d.named with
        | false => simp [hn] at hm'
        | true =>
          simp only [hn, ↓reduceIte, Option.some.injEq] at hm'
          subst hm'
          have hw0 : w ≠ 0 := fun h => by simpa [hn] using hw0n h
          refine ⟨rfl, rfl, ?_, ?_, hpa, ?_, fun h => by simp at h⟩
          · simp only [unionTypeMax, Decl.hasMember, hn, Bool.true_or, ↓reduceIte]; omega
          · simp only [aggAlign, alignContrib, hwd, hn, Bool.true_or, ↓reduceIte]; omega
          · intro w' h; simp only [Option.some.injEq] at h; subst h
            exact ⟨by omega, hww, rfl, hza⟩
    · have := unionMembers_ok ds hwf.2.2 m hm
      exact ⟨this.off, this.before, Nat.le_trans this.tsize (Nat.le_max_right _ _),
        Nat.le_trans this.contrib (Nat.le_max_right _ _), this.pow, this.bf, this.plain⟩

theorem unionTypeMax_le {pack : Bool} : ∀ {ds : List Decl}, WfDecls true pack ds → unionTypeMax ds ≤ wts ds
  | [], _ => Nat.le_refl _
  | d :: ds, h => by
    have ih := unionTypeMax_le h.2.2
    obtain ⟨_, _, _, hw⟩ := h.1
    simp only [unionTypeMax, wts, wt]
    cases hwd : d.width with
    | none => simp only [Option.getD_none]; split <;> omega
    | some w => rw [hwd] at hw; simp only [Option.getD_some]; split <;> omega

/-- **union**, every well-formed member list (unnamed bit-fields included): what the model computes -/
theorem union_facts {pack : Bool} {ds : List Decl} (h : Wf true pack ds) :
    ∃ L, layout true pack ds = .ok L ∧ L.members = unionMembers pack ds ∧
      L.align = aggAlign x86_64 pack ds ∧ L.size = roundUp (unionTypeMax ds) L.align ∧
      (∀ m ∈ L.members, Placed L m ∧ m.offset = 0 ∧ m.before = 0) ∧ L.align ∣ L.size ∧ Pow2 L.align := by
  obtain ⟨hwf, hmem, hb⟩ := h
  obtain ⟨st', e, hs, ha⟩ := run_union_gen ds {} hwf
  obtain ⟨_, a2, a3⟩ := aggAlign_props (T := x86_64) hwf
  have hp := a3 hmem
  have hne := unionMembers_nonempty hwf hmem
  simp only [Nat.zero_max] at ha hs
  have hal : alignUp st'.size st'.align = roundUp st'.size st'.align := by
    apply alignUp_eq (ha ▸ hp)
    have := unionTypeMax_le hwf
    unfold M64; omega
  rw [ha, hs] at hal
  refine ⟨⟨roundUp (unionTypeMax ds) (aggAlign x86_64 pack ds), aggAlign x86_64 pack ds, st'.flexible,
    unionMembers pack ds⟩, ?_, rfl, rfl, rfl, ?_, roundUp_dvd _ _, hp⟩
  · simp only [layout, e, hne, hal, ha, hs, Bool.false_eq_true, ↓reduceIte]
  · intro m hm
    have ok := unionMembers_ok ds hwf m hm
    have hsz := le_roundUp (unionTypeMax ds) hp.pos
    have hdvd : m.talign ∣ aggAlign x86_64 pack ds := ok.pow.dvd_of_le hp ok.contrib
    have hts := ok.tsize
    refine ⟨⟨?_, by rw [ok.off]; exact Nat.dvd_zero _, hdvd, ?_, fun h => ⟨ok.before, ok.plain h⟩⟩, ok.off, ok.before⟩
    · simp only [Member.bitEnd, Member.bitStart, Member.bitLen, ok.off, ok.before]
      cases hw : m.width with
      | none => simp only []; omega
      | some w => have := (ok.bf w hw).2.1; simp only []; omega
    · intro w hw
      obtain ⟨b1, b2, b3, b4⟩ := ok.bf w hw
      refine ⟨by rw [ok.off]; exact Nat.dvd_zero _, ?_, ?_, b1⟩
      · rw [ok.off]; simp only []; omega
      · rw [ok.before, b3]; omega


/-! ## Target switch -/

theorem alignContrib_target {T : Target} {pack : Bool} {d : Decl} (h : d.unnamedBf = false) :
    alignContrib T pack d = alignContrib x86_64 pack d := by
  unfold alignContrib
  cases hwd : d.width with
  | none => rfl
  | some w =>
    have : d.named = true := by simpa [Decl.unnamedBf, hwd] using h
    simp [this]

theorem aggAlign_target {T : Target} {pack : Bool} : ∀ {ds : List Decl},
    (∀ d ∈ ds, d.unnamedBf = false) → aggAlign T pack ds = aggAlign x86_64 pack ds
  | [], _ => rfl
  | d :: ds, h => by
    have ih := aggAlign_target (T := T) (pack := pack) (ds := ds) (fun x hx => h x (List.mem_cons_of_mem _ hx))
    simp only [aggAlign, alignContrib_target (h d (by simp)), ih]

theorem layout_target {T : Target} {isUnion pack : Bool} {ds : List Decl}
    (h : ∀ d ∈ ds, d.unnamedBf = false) :
    Abi.layout T isUnion pack ds = Abi.layout x86_64 isUnion pack ds := by
  simp only [Abi.layout, aggAlign_target h]

theorem alignContrib_flag {T T' : Target} {pack : Bool} {d : Decl}
    (h : T.unnamedBitfieldAligns = T'.unnamedBitfieldAligns) :
    alignContrib T pack d = alignContrib T' pack d := by
  unfold alignContrib; rw [h]

theorem aggAlign_flag {T T' : Target} {pack : Bool}
    (h : T.unnamedBitfieldAligns = T'.unnamedBitfieldAligns) : ∀ {ds : List Decl},
    aggAlign T pack ds = aggAlign T' pack ds
  | [] => rfl
  | d :: ds => by simp only [aggAlign, alignContrib_flag h, aggAlign_flag h]

theorem layout_flag {T T' : Target} {isUnion pack : Bool} {ds : List Decl}
    (h : T.unnamedBitfieldAligns = T'.unnamedBitfieldAligns) :
    Abi.layout T isUnion pack ds = Abi.layout T' isUnion pack ds := by
  simp only [Abi.layout, aggAlign_flag h]

/-! ## Types: arrays, nested struct/union, member lookup -/

mutual
  /-- a type none of whose (nested) definitions reaches an `error(...)` of `declarator`/`addmember`/
  `tagspec` (stated on the spec's sizes) -/
  def WfType : CType → Prop
    | .scalar _ a _ => Pow2 a
    | .array e none => WfType e ∧ (Abi.tinfo x86_64 e).incomplete = false
    | .array e (some n) => WfType e ∧ (Abi.tinfo x86_64 e).incomplete = false ∧
        (Abi.tinfo x86_64 e).size ≠ 0 ∧ (Abi.tinfo x86_64 e).size * n < 2 ^ 62
    | .su u p fs => WfFields fs ∧ Wf u p (Abi.decls x86_64 fs)
  def WfFields : Fields → Prop
    | .nil => True
    | .cons _ ty _ _ rest => WfType ty ∧ WfFields rest
end

mutual
  theorem tinfo_ok : ∀ (t : CType), WfType t → Layout.tinfo t = .ok (Abi.tinfo x86_64 t)
    | .scalar s a i, _ => by simp [Layout.tinfo, Abi.tinfo]
    | .array e none, h => by
      obtain ⟨h1, h2⟩ := h
      simp [Layout.tinfo, Abi.tinfo, tinfo_ok e h1, h2]
    | .array e (some n), h => by
      obtain ⟨h1, h2, h3, h4⟩ := h
      have hu : u64 ((Abi.tinfo x86_64 e).size * n) = (Abi.tinfo x86_64 e).size * n :=
        u64_of_lt (by unfold M64; omega)
      have hn : n ≤ 18446744073709551615 / (Abi.tinfo x86_64 e).size := by
        have hpos : 0 < (Abi.tinfo x86_64 e).size := by omega
        apply (Nat.le_div_iff_mul_le hpos).2
        rw [Nat.mul_comm]; omega
      simp [Layout.tinfo, Abi.tinfo, tinfo_ok e h1, h2, h3, hu, hn]
    | .su u p fs, h => by
      obtain ⟨h1, h2⟩ := h
      have hl : Layout.layout u p (Abi.decls x86_64 fs) = .ok (Abi.layout x86_64 u p (Abi.decls x86_64 fs)) := by
        cases u with
        | false => exact layout_struct h2
        | true => exact layout_union h2
      simp [Layout.tinfo, Abi.tinfo, decls_ok fs h1, hl]
  theorem decls_ok : ∀ (fs : Fields), WfFields fs → Layout.decls fs = .ok (Abi.decls x86_64 fs)
    | .nil, _ => by simp [Layout.decls, Abi.decls]
    | .cons name ty al w rest, h => by
      obtain ⟨h1, h2⟩ := h
      simp [Layout.decls, Abi.decls, tinfo_ok ty h1, decls_ok rest h2]
end

mutual
  theorem typemember_ok : ∀ (t : CType) (name : String), WfType t →
      Layout.typemember t name = Abi.member x86_64 t name
    | .scalar _ _ _, _, _ => by simp [Layout.typemember, Abi.member]
    | .array _ _, _, _ => by simp [Layout.typemember, Abi.member]
    | .su u p fs, name, h => by
      obtain ⟨h1, h2⟩ := h
      have hl : Layout.layout u p (Abi.decls x86_64 fs) = .ok (Abi.layout x86_64 u p (Abi.decls x86_64 fs)) := by
        cases u with
        | false => exact layout_struct h2
        | true => exact layout_union h2
      simp only [Layout.typemember, Abi.member, decls_ok fs h1, hl]
      exact findMember_ok fs _ name h1
  theorem findMember_ok : ∀ (fs : Fields) (ms : List Member) (name : String), WfFields fs →
      Layout.findMember fs ms name = Abi.memberIn x86_64 fs ms name
    | .nil, _, _, _ => by simp [Layout.findMember, Abi.memberIn]
    | .cons fname ty al w rest, ms, name, h => by
      obtain ⟨h1, h2⟩ := h
      by_cases hc : (fname.isSome || w.isNone) = true
      · cases ms with
        | nil => simp [Layout.findMember, Abi.memberIn, producesMember, hc]
        | cons m ms' =>
          cases fname with
          | some n =>
            simp only [Layout.findMember, Abi.memberIn, producesMember, Option.isSome_some, Bool.true_or, ↓reduceIte]
            by_cases hn : (n == name) = true
            · simp only [hn, ↓reduceIte]
            · simp only [hn, Bool.false_eq_true, ↓reduceIte]
              exact findMember_ok rest ms' name h2
          | none =>
            simp only [Layout.findMember, Abi.memberIn, producesMember, hc, ↓reduceIte, typemember_ok ty name h1]
            cases Abi.member x86_64 ty name with
            | none => simp only []; exact findMember_ok rest ms' name h2
            | some r => obtain ⟨off, sub, sty⟩ := r; simp only [Nat.add_comm]
      · simp only [Layout.findMember, Abi.memberIn, producesMember, hc, Bool.false_eq_true, ↓reduceIte]
        exact findMember_ok rest ms name h2
end

end CprocVerif.Layout

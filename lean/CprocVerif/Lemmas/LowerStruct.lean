/-
  C01 — structural facts about what `Lower.funcexpr` emits: counters only grow, result values are
  literals or already numbered temporaries, labels are fresh and pairwise different, the label of
  the block left open is tracked by `Ctx.cur`.
-/
import CprocVerif.Lemmas.LowerMach

namespace CprocVerif.LowerMach
open CprocVerif.Qbe CprocVerif.Lower CprocVerif.CSem CprocVerif.CInt

/-- A `struct value` a lowering step may return: an integer literal or a temporary numbered at most `n`. -/
def ValOK (n : Nat) (v : Val) : Prop :=
  (∃ k, v = .int k) ∨ ∃ j, j ≤ n ∧ v = .tmp (tmpName j)

theorem ValOK.mono {n m : Nat} {v : Val} (h : ValOK n v) (hnm : n ≤ m) : ValOK m v := by
  rcases h with h | ⟨j, hj, rfl⟩
  · exact Or.inl h
  · exact Or.inr ⟨j, by omega, rfl⟩

/-- Straight-line output: only instructions, the open block and the label counter are unchanged. -/
structure Straight (c : Ctx) (o : Out) : Prop where
  cur : o.ctx.cur = c.cur
  blockid : o.ctx.blockid = c.blockid
  lastid : c.lastid ≤ o.ctx.lastid
  allIns : ∀ it ∈ o.items, ∃ i, it = .ins i

theorem funcinst_straight (c : Ctx) (op : Op) (k : Cls) (args : List Val) :
    Straight c (funcinst c op k args) :=
  ⟨rfl, rfl, by simp [funcinst], by simp [funcinst]⟩

theorem funcinst_val (c : Ctx) (op : Op) (k : Cls) (args : List Val) :
    ValOK (funcinst c op k args).ctx.lastid (funcinst c op k args).val :=
  Or.inr ⟨c.lastid + 1, Nat.le_refl _, rfl⟩

theorem Straight.seq {c : Ctx} {a b : Out} (ha : Straight c a) (hb : Straight a.ctx b) :
    Straight c (a.seq b) :=
  ⟨by simp [Out.seq, hb.cur, ha.cur], by simp [Out.seq, hb.blockid, ha.blockid],
   by have := ha.lastid; have := hb.lastid; simp only [Out.seq]; omega,
   by
    intro it hit
    simp only [Out.seq, List.mem_append] at hit
    rcases hit with h | h
    · exact ha.allIns it h
    · exact hb.allIns it h⟩

theorem Straight.refl (c : Ctx) (v : Val) : Straight c ⟨[], v, c⟩ :=
  ⟨rfl, rfl, Nat.le_refl _, by simp⟩

theorem convert_straight (cs : Bool) (c : Ctx) (dst src : CSem.Ty) (l : Val) :
    Straight c (convert cs c dst src l) := by
  unfold convert
  split
  · split
    · exact (funcinst_straight _ _ _ _).seq (funcinst_straight _ _ _ _)
    · exact (funcinst_straight _ _ _ _).seq (funcinst_straight _ _ _ _)
    · exact funcinst_straight _ _ _ _
    · exact funcinst_straight _ _ _ _
  · split
    · exact Straight.refl _ _
    · split <;> exact funcinst_straight _ _ _ _

theorem convert_val (cs : Bool) (c : Ctx) (dst src : CSem.Ty) (l : Val) (hl : ValOK c.lastid l) :
    ValOK (convert cs c dst src l).ctx.lastid (convert cs c dst src l).val := by
  unfold convert
  split
  · split <;> first | exact funcinst_val _ _ _ _ | (simp only [Out.seq]; exact funcinst_val _ _ _ _)
  · split
    · exact hl
    · split <;> exact funcinst_val _ _ _ _

theorem jnzArg_straight (cs : Bool) (c : Ctx) (t : CSem.Ty) (v : Val) :
    Straight c (jnzArg cs c t v) := by
  unfold jnzArg
  split
  · exact convert_straight _ _ _ _ _
  · split
    · exact convert_straight _ _ _ _ _
    · exact Straight.refl _ _

theorem jnzArg_val (cs : Bool) (c : Ctx) (t : CSem.Ty) (v : Val) (hl : ValOK c.lastid v) :
    ValOK (jnzArg cs c t v).ctx.lastid (jnzArg cs c t v).val := by
  unfold jnzArg
  split
  · exact convert_val _ _ _ _ _ hl
  · split
    · exact convert_val _ _ _ _ _ hl
    · exact hl

/-- straight-line items do not close blocks -/
theorem adv_allIns (o : Open) (its : List Item) (h : ∀ it ∈ its, ∃ i, it = .ins i) :
    (adv o its).1 = [] ∧ (adv o its).2.label = o.label := by
  induction its generalizing o with
  | nil => exact ⟨rfl, rfl⟩
  | cons it its ih =>
    obtain ⟨i, rfl⟩ := h it (by simp)
    simp only [adv]
    exact ih _ (fun it' h' => h it' (by simp [h']))

theorem itemLabels_allIns (its : List Item) (h : ∀ it ∈ its, ∃ i, it = .ins i) :
    itemLabels its = [] := by
  induction its with
  | nil => rfl
  | cons it its ih =>
    obtain ⟨i, rfl⟩ := h it (by simp)
    simp only [itemLabels]
    exact ih (fun it' h' => h it' (by simp [h']))

theorem curOf_append_allIns (o : Open) (pre its : List Item) (h : ∀ it ∈ its, ∃ i, it = .ins i) :
    curOf o (pre ++ its) = curOf o pre := by
  simp only [curOf, adv_append]
  exact (adv_allIns _ _ h).2

theorem posOf_append_allIns (o : Open) (pre its : List Item) (h : ∀ it ∈ its, ∃ i, it = .ins i) :
    (posOf o (pre ++ its)).1 = (posOf o pre).1 := by
  simp only [posOf, adv_append, List.length_append]
  rw [(adv_allIns _ _ h).1]
  simp

/-- The labels in `L` are pairwise different and their ids satisfy `S`. -/
def LabelsIn (S : Nat → Prop) (L : List String) : Prop :=
  (∀ l ∈ L, ∃ name j, l = lblName name j ∧ S j) ∧ L.Nodup

theorem LabelsIn.nil (S : Nat → Prop) : LabelsIn S [] := ⟨by simp, by simp⟩

theorem LabelsIn.single {S : Nat → Prop} (name : String) (j : Nat) (h : S j) :
    LabelsIn S [lblName name j] :=
  ⟨by intro l hl; simp at hl; exact ⟨name, j, hl, h⟩, by simp⟩

theorem LabelsIn.weaken {S T : Nat → Prop} {L : List String} (h : LabelsIn S L)
    (hst : ∀ j, S j → T j) : LabelsIn T L :=
  ⟨fun l hl => by obtain ⟨n, j, e, hs⟩ := h.1 l hl; exact ⟨n, j, e, hst j hs⟩, h.2⟩

theorem LabelsIn.append {S T : Nat → Prop} {A B : List String} (hA : LabelsIn S A)
    (hB : LabelsIn T B) (hd : ∀ j, S j → T j → False) : LabelsIn (fun j => S j ∨ T j) (A ++ B) := by
  refine ⟨?_, ?_⟩
  · intro l hl
    rcases List.mem_append.1 hl with h | h
    · obtain ⟨n, j, e, hs⟩ := hA.1 l h; exact ⟨n, j, e, Or.inl hs⟩
    · obtain ⟨n, j, e, hs⟩ := hB.1 l h; exact ⟨n, j, e, Or.inr hs⟩
  · rw [List.nodup_append]
    refine ⟨hA.2, hB.2, ?_⟩
    intro x hx y hy hxy
    subst hxy
    obtain ⟨n1, j1, e1, h1⟩ := hA.1 x hx
    obtain ⟨n2, j2, e2, h2⟩ := hB.1 x hy
    have : j1 = j2 := lblName_inj (e1.symm.trans e2)
    subst this
    exact hd _ h1 h2

/-- What is known about the output of `funcexpr`. -/
structure Good (c : Ctx) (o : Out) : Prop where
  lastid : c.lastid ≤ o.ctx.lastid
  blockid : c.blockid ≤ o.ctx.blockid
  val : ValOK o.ctx.lastid o.val
  labels : LabelsIn (fun j => c.blockid < j ∧ j ≤ o.ctx.blockid) (itemLabels o.items)
  cur : ∀ (ol : Open) (pre : List Item), curOf ol pre = c.cur → curOf ol (pre ++ o.items) = o.ctx.cur
  curId : ∀ name j, c.cur = lblName name j →
    ∃ name' j', o.ctx.cur = lblName name' j' ∧ (j' = j ∨ (c.blockid < j' ∧ j' ≤ o.ctx.blockid))

theorem Straight.good {c : Ctx} {o : Out} (h : Straight c o) (hv : ValOK o.ctx.lastid o.val) :
    Good c o where
  lastid := h.lastid
  blockid := by rw [h.blockid]; exact Nat.le_refl _
  val := hv
  labels := by rw [itemLabels_allIns _ h.allIns]; exact LabelsIn.nil _
  cur := by
    intro ol pre hp
    rw [curOf_append_allIns _ _ _ h.allIns, hp, h.cur]
  curId := by
    intro name j hj
    exact ⟨name, j, by rw [h.cur, hj], Or.inl rfl⟩

theorem Good.seq {c : Ctx} {a b : Out} (ha : Good c a) (hb : Good a.ctx b) : Good c (a.seq b) where
  lastid := by have := ha.lastid; have := hb.lastid; simp only [Out.seq]; omega
  blockid := by have := ha.blockid; have := hb.blockid; simp only [Out.seq]; omega
  val := hb.val
  labels := by
    simp only [Out.seq, itemLabels_append]
    refine (ha.labels.append hb.labels (by intro j h1 h2; omega)).weaken ?_
    intro j h
    have := ha.blockid; have := hb.blockid
    omega
  cur := by
    intro ol pre hp
    simp only [Out.seq, ← List.append_assoc]
    exact hb.cur ol _ (ha.cur ol pre hp)
  curId := by
    intro name j hj
    obtain ⟨n1, j1, h1, h2⟩ := ha.curId name j hj
    obtain ⟨n2, j2, h3, h4⟩ := hb.curId n1 j1 h1
    refine ⟨n2, j2, h3, ?_⟩
    have := ha.blockid; have := hb.blockid
    simp only [Out.seq]
    omega

theorem Good.seq_straight {c : Ctx} {a b : Out} (ha : Good c a) (hb : Straight a.ctx b)
    (hv : ValOK b.ctx.lastid b.val) : Good c (a.seq b) := ha.seq (hb.good hv)

/-! ## Equations of `funcexpr` with named parts -/

theorem funcexpr_logic (cs : Bool) (op : BinOp) (hop : isLogic op = true) (t : CSem.Ty) (l r : Expr)
    (c : Ctx) :
    ∃ ol oj or ov : Out,
      ol = funcexpr cs l c ∧
      oj = jnzArg cs ⟨ol.ctx.lastid, ol.ctx.blockid + 2, ol.ctx.cur⟩ l.ty ol.val ∧
      or = funcexpr cs r ⟨oj.ctx.lastid, oj.ctx.blockid, lblName "logic_right" (ol.ctx.blockid + 1)⟩ ∧
      ov = convert cs or.ctx .bool r.ty or.val ∧
      funcexpr cs (.bin op t l r) c =
        ⟨ol.items ++ oj.items ++
          [.lbl (some (if (op == .lor) = true
              then Jump.jnz oj.val (lblName "logic_join" (ol.ctx.blockid + 2))
                (lblName "logic_right" (ol.ctx.blockid + 1))
              else Jump.jnz oj.val (lblName "logic_right" (ol.ctx.blockid + 1))
                (lblName "logic_join" (ol.ctx.blockid + 2))))
            (lblName "logic_right" (ol.ctx.blockid + 1)) []] ++ or.items ++ ov.items ++
          [.lbl none (lblName "logic_join" (ol.ctx.blockid + 2))
            [⟨tmpName (ov.ctx.lastid + 1), .w,
              [(oj.ctx.cur, .int (if (op == .lor) = true then 1 else 0)), (ov.ctx.cur, ov.val)]⟩]],
         .tmp (tmpName (ov.ctx.lastid + 1)),
         ⟨ov.ctx.lastid + 1, ov.ctx.blockid, lblName "logic_join" (ol.ctx.blockid + 2)⟩⟩ := by
  refine ⟨_, _, _, _, rfl, rfl, rfl, rfl, ?_⟩
  simp only [funcexpr, hop, if_true]

theorem funcexpr_arith (cs : Bool) (op : BinOp) (hop : isLogic op = false) (t : CSem.Ty) (l r : Expr)
    (c : Ctx) :
    funcexpr cs (.bin op t l r) c =
      ((funcexpr cs l c).seq (funcexpr cs r (funcexpr cs l c).ctx)).seq
        (funcinst (funcexpr cs r (funcexpr cs l c).ctx).ctx (binOpOf cs op l.ty) (cls t)
          [(funcexpr cs l c).val, (funcexpr cs r (funcexpr cs l c).ctx).val]) := by
  simp only [funcexpr, hop, Bool.false_eq_true, if_false]

theorem funcexpr_cond (cs : Bool) (t : CSem.Ty) (e a b : Expr) (c : Ctx) :
    ∃ oc oj oa ob : Out,
      oc = funcexpr cs e ⟨c.lastid, c.blockid + 3, c.cur⟩ ∧
      oj = jnzArg cs oc.ctx e.ty oc.val ∧
      oa = funcexpr cs a ⟨oj.ctx.lastid, oj.ctx.blockid, lblName "cond_true" (c.blockid + 1)⟩ ∧
      ob = funcexpr cs b ⟨oa.ctx.lastid, oa.ctx.blockid, lblName "cond_false" (c.blockid + 2)⟩ ∧
      funcexpr cs (.cond t e a b) c =
        ⟨oc.items ++ oj.items ++
          [.lbl (some (.jnz oj.val (lblName "cond_true" (c.blockid + 1))
            (lblName "cond_false" (c.blockid + 2)))) (lblName "cond_true" (c.blockid + 1)) []] ++
          oa.items ++
          [.lbl (some (.jmp (lblName "cond_join" (c.blockid + 3))))
            (lblName "cond_false" (c.blockid + 2)) []] ++ ob.items ++
          [.lbl none (lblName "cond_join" (c.blockid + 3))
            [⟨tmpName (ob.ctx.lastid + 1), cls t, [(oa.ctx.cur, oa.val), (ob.ctx.cur, ob.val)]⟩]],
         .tmp (tmpName (ob.ctx.lastid + 1)),
         ⟨ob.ctx.lastid + 1, ob.ctx.blockid, lblName "cond_join" (c.blockid + 3)⟩⟩ := by
  exact ⟨_, _, _, _, rfl, rfl, rfl, rfl, rfl⟩

theorem funcexpr_good (cs : Bool) (e : Expr) : ∀ c : Ctx, Good c (funcexpr cs e c) := by
  induction e with
  | const t u => intro c; exact (Straight.refl c _).good (Or.inl ⟨_, rfl⟩)
  | param t i => intro c; exact (funcinst_straight _ _ _ _).good (funcinst_val _ _ _ _)
  | cast t e ih =>
    intro c
    exact (ih c).seq_straight (convert_straight _ _ _ _ _) (convert_val _ _ _ _ _ (ih c).val)
  | neg t e ih =>
    intro c
    exact (ih c).seq_straight (funcinst_straight _ _ _ _) (funcinst_val _ _ _ _)
  | bin op t l r ihl ihr =>
    intro c
    cases hop : isLogic op
    · rw [funcexpr_arith cs op hop]
      exact ((ihl c).seq (ihr _)).seq_straight (funcinst_straight _ _ _ _) (funcinst_val _ _ _ _)
    · -- `&&`, `||`
      obtain ⟨ol, oj, or, ov, hol, hoj, hor, hov, heq⟩ := funcexpr_logic cs op hop t l r c
      rw [heq]
      have gl : Good c ol := hol ▸ ihl c
      have sj : Straight _ oj := hoj ▸ jnzArg_straight _ _ _ _
      have gr : Good _ or := hor ▸ ihr _
      have sv : Straight _ ov := hov ▸ convert_straight _ _ _ _ _
      have b1 := gl.blockid; have b2 := sj.blockid; have b3 := gr.blockid; have b4 := sv.blockid
      have l1 := gl.lastid; have l2 := sj.lastid; have l3 := gr.lastid; have l4 := sv.lastid
      simp only at b2 b3 l2 l3
      refine ⟨by simp only; omega, by simp only; omega, Or.inr ⟨_, Nat.le_refl _, rfl⟩, ?_, ?_, ?_⟩
      · simp only [itemLabels_append, itemLabels, itemLabels_allIns _ sj.allIns,
          itemLabels_allIns _ sv.allIns, List.append_nil]
        refine ((((gl.labels.append (LabelsIn.single "logic_right" _ rfl) ?_).append gr.labels ?_).append
          (LabelsIn.single "logic_join" _ rfl) ?_)).weaken ?_
        · intro j h1 h2; omega
        · intro j h1 h2; simp only at h2; omega
        · intro j h1 h2; simp only at h1; omega
        · intro j h; simp only at h ⊢; omega
      · intro ol' pre hp
        simp only [← List.append_assoc]
        exact curOf_lbl _ _ _ _ _
      · intro name j hj
        exact ⟨"logic_join", _, rfl, Or.inr (by simp only; omega)⟩
  | cond t e a b ihe iha ihb =>
    intro c
    obtain ⟨oc, oj, oa, ob, hoc, hoj, hoa, hob, heq⟩ := funcexpr_cond cs t e a b c
    rw [heq]
    have ge : Good _ oc := hoc ▸ ihe _
    have sj : Straight _ oj := hoj ▸ jnzArg_straight _ _ _ _
    have ga : Good _ oa := hoa ▸ iha _
    have gb : Good _ ob := hob ▸ ihb _
    have b1 := ge.blockid; have b2 := sj.blockid; have b3 := ga.blockid; have b4 := gb.blockid
    have l1 := ge.lastid; have l2 := sj.lastid; have l3 := ga.lastid; have l4 := gb.lastid
    simp only at b1 b3 b4 l1 l3 l4
    refine ⟨by simp only; omega, by simp only; omega, Or.inr ⟨_, Nat.le_refl _, rfl⟩, ?_, ?_, ?_⟩
    · simp only [itemLabels_append, itemLabels, itemLabels_allIns _ sj.allIns, List.append_nil]
      refine ((((((ge.labels.append (LabelsIn.single "cond_true" _ rfl) ?_).append ga.labels ?_).append
        (LabelsIn.single "cond_false" _ rfl) ?_).append gb.labels ?_).append
        (LabelsIn.single "cond_join" _ rfl) ?_)).weaken ?_
      · intro j h1 h2; simp only at h1; omega
      · intro j h1 h2; simp only at h1 h2; omega
      · intro j h1 h2; simp only at h1; omega
      · intro j h1 h2; simp only at h1 h2; omega
      · intro j h1 h2; simp only at h1; omega
      · intro j h; simp only at h ⊢; omega
    · intro ol' pre hp
      simp only [← List.append_assoc]
      exact curOf_lbl _ _ _ _ _
    · intro name j hj
      exact ⟨"cond_join", _, rfl, Or.inr (by simp only; omega)⟩

end CprocVerif.LowerMach

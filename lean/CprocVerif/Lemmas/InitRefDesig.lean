import CprocVerif.Lemmas.InitRefMach3

/-!
# `designator()`: the slots it pushes are the path `InitRef.resolve` computes

`findmember` through anonymous members against `pathMs`; one designator (`desigStep`) against
`resolve`; a designator list against the recursion of `desigPath` (`DRel`).
-/

namespace CprocVerif.InitSim
open CprocVerif.Init CprocVerif.Image CprocVerif.InitRef

/-- slots `m, m+1, …` of `st` follow the positions `ps` from the place `pl` down to the slot `m'`,
which is the place `pl'` -/
inductive Chain (st : St) : Nat → Place → List Nat → Nat → Place → Prop
  | nil (m : Nat) (pl : Place) : Chain st m pl [] m pl
  | cons {m : Nat} {pl ch : Place} {p : Nat} {ps : List Nat} {m' : Nat} {pl' : Place} :
      Lvl st m pl p ch → Chain st (m + 1) ch ps m' pl' → Chain st m pl (p :: ps) m' pl'

theorem Chain.le {st : St} {m : Nat} {pl : Place} {ps : List Nat} {m' : Nat} {pl' : Place}
    (h : Chain st m pl ps m' pl') : m ≤ m' := by
  induction h with
  | nil => exact Nat.le_refl _
  | cons _ _ ih => omega

theorem Chain.len {st : St} {m : Nat} {pl : Place} {ps : List Nat} {m' : Nat} {pl' : Place}
    (h : Chain st m pl ps m' pl') : m' = m + ps.length := by
  induction h with
  | nil => rfl
  | cons _ _ ih => rw [ih, List.length_cons]; omega

theorem Chain.frame {st st' : St} {m : Nat} {pl : Place} {ps : List Nat} {m' : Nat} {pl' : Place}
    (h : Chain st m pl ps m' pl') {k : Nat} (hf : Frame k st st') (hk : m' ≤ k) : Chain st' m pl ps m' pl' := by
  induction h with
  | nil => exact .nil _ _
  | cons hl hc ih =>
    have := hc.le
    exact .cons (hl.frame hf (by omega)) (ih hk)

theorem Lvl.congr {st st' : St} (ho : st'.obj = st.obj) {k : Nat} {pl ch : Place} {pos : Nat}
    (h : Lvl st k pl pos ch) : Lvl st' k pl pos ch :=
  ⟨by rw [ho]; exact h.ty, by rw [ho]; exact h.off, h.child, by rw [ho]; exact h.u⟩

theorem SP.congr {st st' : St} (ho : st'.obj = st.obj) {m : Nat} {pl : Place} (h : SP st m pl) : SP st' m pl := by
  refine ⟨by rw [ho]; exact h.ty, by rw [ho]; exact h.off, ?_⟩
  rw [← h.bits]
  exact curBits_congr (st := { st with sub := m }) (st' := { st' with sub := m }) rfl (fun _ => by
    show st'.obj _ = st.obj _
    rw [ho])

theorem Chain.congr {st st' : St} (ho : st'.obj = st.obj) {m : Nat} {pl : Place} {ps : List Nat} {m' : Nat}
    {pl' : Place} (h : Chain st m pl ps m' pl') : Chain st' m pl ps m' pl' := by
  induction h with
  | nil => exact .nil _ _
  | cons hl _ ih => exact .cons (hl.congr ho) ih

theorem Chain.snoc_wf {st : St} {m : Nat} {pl : Place} {ps : List Nat} {m' : Nat} {pl' : Place}
    (h : Chain st m pl ps m' pl') (hw : PlWf pl) : PlWf pl' := by
  induction h with
  | nil => exact hw
  | cons hl _ ih => exact ih (childAt_wf hw hl.child)

/-- what a successful search for a member (or one designator) does -/
structure Found (st st' : St) (pl : Place) (ps : List Nat) : Prop where
  ne : ps ≠ []
  chain : ∃ pl', Chain st' st.sub pl ps st'.sub pl' ∧ SP st' st'.sub pl'
  frame : Frame st.sub st st'
  log : st'.log = st.log
  ty : (st'.obj st.sub).ty = (st.obj st.sub).ty
  off : (st'.obj st.sub).offset = (st.obj st.sub).offset
  iscur : (st'.obj st.sub).iscur = (st.obj st.sub).iscur
  fresh : ∀ j, st.sub < j → j ≤ st'.sub → (st'.obj j).iscur = false

/-- one pushed level -/
theorem found_push {st st' : St} {pl ch : Place} {p : Nat} {u : U} {t : Ty} {off : Nat} (hw : PlWf pl)
    (hty : (st.obj st.sub).ty = pl.ty) (hoff : (st.obj st.sub).offset = pl.off)
    (hc : childAt pl p false = some ch) (hu : UAt u pl.ty p) (ht : ch.ty = t) (ho : ch.off = off + pl.off)
    (e : subobj (st.setSlot st.sub { st.obj st.sub with u := u }) t off = .ok st') :
    Found st st' pl [p] ∧ st'.sub = st.sub + 1 ∧ Lvl st' st.sub pl p ch ∧ SP st' (st.sub + 1) ch := by
  obtain ⟨h1, h2, h3, h4, h5, h6, h7⟩ := push_spec e
  have hl : Lvl st' st.sub pl p ch := ⟨by rw [h4]; exact hty, by rw [h4]; exact hoff, hc, by rw [h4]; exact hu⟩
  have hsp : SP st' (st.sub + 1) ch := sp_child hw hl (by rw [h5, ht]) (by rw [h6, ho, hoff])
  refine ⟨⟨by simp, ⟨ch, ?_, by rw [h1]; exact hsp⟩, h2, h3, by rw [h4], by rw [h4], by rw [h4], ?_⟩, h1, hl, hsp⟩
  · rw [h1]; exact .cons hl (.nil _ _)
  · intro j hj1 hj2
    have : j = st.sub + 1 := by omega
    rw [this]; exact h7

theorem drop_cons_child {pl : Place} {iu : Bool} {tag size : Nat} {all : Members} (hpt : pl.ty = .agg iu tag size all)
    {k0 : Nat} {n : Option String} {ty : Ty} {off b a : Nat} {next : Members}
    (hd : Members.drop all k0 = .cons n ty off b a next) :
    childAt pl k0 false = some { ty := ty, off := pl.off + off, before := b, after := a, depth := pl.depth + 1 } := by
  rw [childAt_agg hpt]
  simp only [Bool.and_false, Bool.false_and, Bool.false_eq_true, if_false]
  rw [hd]

mutual
  theorem findTy_spec (name : String) : ∀ (ty : Ty) (st : St) (pl : Place), pl.ty = ty →
      (st.obj st.sub).ty = pl.ty → (st.obj st.sub).offset = pl.off → PlWf pl →
      ∀ r, findTy name ty st = .ok r →
        match r with
        | some st' => ∃ ps, pathTy name ty = some ps ∧ Found st st' pl ps
        | none => pathTy name ty = none
    | .agg iu tag size ms, st, pl, hpt, hty, hoff, hw, r, e => by
      rw [findTy.eq_1] at e
      rw [pathTy.eq_1]
      exact findMs_spec name ms st 0 pl iu tag size ms hpt (by simp [Members.drop]) hty hoff hw r e
    | .scalar _ _, st, pl, hpt, hty, hoff, hw, r, e => by
      rw [findTy.eq_2 _ _ _ (by intro _ _ _ _ h; cases h)] at e
      cases e
      simp [pathTy]
    | .array _ _, st, pl, hpt, hty, hoff, hw, r, e => by
      rw [findTy.eq_2 _ _ _ (by intro _ _ _ _ h; cases h)] at e
      cases e
      simp [pathTy]
  theorem findMs_spec (name : String) : ∀ (ms : Members) (st : St) (k0 : Nat) (pl : Place) (iu : Bool) (tag size : Nat)
      (all : Members), pl.ty = .agg iu tag size all → Members.drop all k0 = ms →
      (st.obj st.sub).ty = pl.ty → (st.obj st.sub).offset = pl.off → PlWf pl →
      ∀ r, findMs name ms st = .ok r →
        match r with
        | some st' => ∃ ps, pathMs name ms k0 = some ps ∧ Found st st' pl ps
        | none => pathMs name ms k0 = none
    | .nil, st, k0, pl, iu, tag, size, all, hpt, hd, hty, hoff, hw, r, e => by
      rw [findMs.eq_1] at e
      cases e
      simp [pathMs]
    | .cons (some n) ty off b a next, st, k0, pl, iu, tag, size, all, hpt, hd, hty, hoff, hw, r, e => by
      rw [findMs.eq_2] at e
      rw [pathMs.eq_2]
      split at e
      · rename_i hn
        rw [if_pos hn]
        dsimp only [] at e
        split at e
        · rename_i st' hs
          cases e
          have hc := drop_cons_child hpt hd
          obtain ⟨hf, _, _, _⟩ := found_push hw hty hoff hc (by unfold UAt; rw [hpt]; simp only []; rw [hd]) rfl
            (by simp only []; exact Nat.add_comm _ _) hs
          exact ⟨[k0], rfl, hf⟩
        · cases e
      · rename_i hn
        rw [if_neg hn]
        exact findMs_spec name next st (k0 + 1) pl iu tag size all hpt (by rw [drop_succ, hd]) hty hoff hw r e
    | .cons none ty off b a next, st, k0, pl, iu, tag, size, all, hpt, hd, hty, hoff, hw, r, e => by
      rw [findMs.eq_3] at e
      rw [pathMs.eq_3]
      split at e
      · cases e
      · rename_i st1 hs
        have hc := drop_cons_child hpt hd
        obtain ⟨hf1, hs1, hl1, hsp1⟩ := found_push hw hty hoff hc (by unfold UAt; rw [hpt]; simp only []; rw [hd]) rfl
          (by simp only []; exact Nat.add_comm _ _) hs
        have hwc : PlWf _ := childAt_wf hw hc
        split at e
        · cases e
        · rename_i st2 h2
          cases e
          have := findTy_spec name ty st1 _ rfl (by rw [hs1]; exact hsp1.ty) (by rw [hs1]; exact hsp1.off) hwc
            (some st2) h2
          obtain ⟨ps', hps, hf2⟩ := this
          rw [hps]
          refine ⟨k0 :: ps', rfl, ?_⟩
          obtain ⟨pl', hch, hspf⟩ := hf2.chain
          have hfr2 := hf2.frame
          have hty2 := hf2.ty
          have hic2 := hf2.iscur
          have hfresh2 := hf2.fresh
          rw [hs1] at hfr2 hch hty2 hic2 hfresh2
          refine ⟨by simp, ⟨pl', ?_, ?_⟩, ?_, ?_, ?_, ?_, ?_, ?_⟩
          · exact Chain.congr (st := st2) (st' := { st2 with anon := true }) rfl (.cons (hl1.frame hfr2 (Nat.lt_succ_self _)) hch)
          · exact SP.congr (st := st2) (st' := { st2 with anon := true }) rfl hspf
          · exact ⟨hfr2.cur.trans hf1.frame.cur, hfr2.top.trans hf1.frame.top, hfr2.inc.trans hf1.frame.inc,
              fun j hj => (hfr2.low j (by omega)).trans (hf1.frame.low j hj)⟩
          · show st2.log = st.log
            rw [hf2.log, hf1.log]
          · show (st2.obj st.sub).ty = _
            rw [hfr2.low _ (Nat.lt_succ_self _)]; exact hf1.ty
          · show (st2.obj st.sub).offset = _
            rw [hfr2.low _ (Nat.lt_succ_self _)]; exact hf1.off
          · show (st2.obj st.sub).iscur = _
            rw [hfr2.low _ (Nat.lt_succ_self _)]; exact hf1.iscur
          · intro j hj1 hj2
            show (st2.obj j).iscur = false
            by_cases hj : j = st.sub + 1
            · rw [hj, hic2]
              exact hf1.fresh _ (Nat.lt_succ_self _) (by rw [hs1]; exact Nat.le_refl _)
            · exact hfresh2 j (by omega) hj2
        · rename_i h2
          have hnone := findTy_spec name ty st1 _ rfl (by rw [hs1]; exact hsp1.ty) (by rw [hs1]; exact hsp1.off) hwc
            none h2
          simp only [] at hnone
          rw [hnone]
          simp only []
          -- back at slot `st.sub`, whose type and offset are unchanged
          have hsub : ({ st1 with sub := st1.sub - 1 } : St).sub = st.sub := by
            show st1.sub - 1 = st.sub
            rw [hs1]; rfl
          have := findMs_spec name next { st1 with sub := st1.sub - 1 } (k0 + 1) pl iu tag size all hpt
            (by rw [drop_succ, hd]) (by rw [hsub]; exact hf1.ty.trans hty) (by rw [hsub]; exact hf1.off.trans hoff)
            hw r e
          cases r with
          | none => exact this
          | some st' =>
            obtain ⟨ps, hps, hf⟩ := this
            refine ⟨ps, hps, ?_⟩
            obtain ⟨pl', hch, hspf⟩ := hf.chain
            rw [hsub] at hch
            have hfr := hf.frame
            rw [hsub] at hfr
            have hfr0 : Frame st.sub st ({ st1 with sub := st1.sub - 1 } : St) :=
              ⟨hf1.frame.cur, hf1.frame.top, hf1.frame.inc, hf1.frame.low⟩
            refine ⟨hf.ne, ⟨pl', hch, hspf⟩, hfr0.trans hfr (Nat.le_refl _), ?_, ?_, ?_, ?_, ?_⟩
            · rw [hf.log]; exact hf1.log
            · have := hf.ty; rw [hsub] at this; rw [this]; exact hf1.ty
            · have := hf.off; rw [hsub] at this; rw [this]; exact hf1.off
            · have := hf.iscur; rw [hsub] at this; rw [this]; exact hf1.iscur
            · intro j h1 h2
              exact hf.fresh j (by rw [hsub]; exact h1) h2
end

/-- one designator of the list -/
theorem desigStep_spec {st st' : St} {d : Desig} {pl : Place} (hty : (st.obj st.sub).ty = pl.ty)
    (hoff : (st.obj st.sub).offset = pl.off) (hw : PlWf pl) (hp : Flat st st.sub) (e : desigStep st d = .ok st') :
    ∃ ps, resolve pl.ty d = .ok ps ∧ Found st st' pl ps := by
  cases d with
  | idx n =>
    cases hpt : pl.ty with
    | array n0 el =>
      have hty' : (st.obj st.sub).ty = .array n0 el := hty.trans hpt
      rw [desigStep.eq_1 _ _ _ _ hty'] at e
      obtain ⟨hn1, hes⟩ := wf_array hw hpt
      have hts : st.tsize st.sub = n0 * el.size := by rw [hp.tsize, hty']; rfl
      rw [hts, hp.tinc] at e
      split at e
      · simp at e
      · rename_i hlt
        have hlt' : n < n0 := Nat.lt_of_mul_lt_mul_right (Nat.lt_of_not_le hlt)
        have hc : childAt pl n false = some { ty := el, off := pl.off + n * el.size, depth := pl.depth + 1 } := by
          rw [childAt_array hpt hw.unb, if_pos hlt']
        obtain ⟨hf, _, _, _⟩ := found_push hw hty hoff hc (by unfold UAt; rw [hpt]) rfl
          (by simp only []; exact Nat.add_comm _ _) e
        exact ⟨[n], by simp [resolve], hf⟩
    | scalar s k =>
      have hty' : (st.obj st.sub).ty = .scalar s k := hty.trans hpt
      unfold desigStep at e
      dsimp only [] at e
      rw [hty'] at e
      simp at e
    | agg iu tag size ms =>
      have hty' : (st.obj st.sub).ty = .agg iu tag size ms := hty.trans hpt
      unfold desigStep at e
      dsimp only [] at e
      rw [hty'] at e
      simp at e
  | fld name =>
    cases hpt : pl.ty with
    | agg iu tag size ms =>
      have hty' : (st.obj st.sub).ty = .agg iu tag size ms := hty.trans hpt
      unfold desigStep at e
      dsimp only [] at e
      rw [hty'] at e
      simp only [] at e
      cases hf : findMs name ms st with
      | error er => rw [hf] at e; cases e
      | ok r =>
        rw [hf] at e
        cases r with
        | none => cases e
        | some st1 =>
          cases e
          have := findMs_spec name ms st 0 pl iu tag size ms hpt (by simp [Members.drop]) hty hoff hw _ hf
          obtain ⟨ps, hps, hfo⟩ := this
          refine ⟨ps, ?_, hfo⟩
          simp only [resolve, pathTy.eq_1, hps]
    | scalar s k =>
      have hty' : (st.obj st.sub).ty = .scalar s k := hty.trans hpt
      unfold desigStep at e
      dsimp only [] at e
      rw [hty'] at e
      simp at e
    | array n0 el =>
      have hty' : (st.obj st.sub).ty = .array n0 el := hty.trans hpt
      unfold desigStep at e
      dsimp only [] at e
      rw [hty'] at e
      simp at e

/-- the machine after a designator list, in the shape of the recursion of `desigPath` -/
inductive DRel (st : St) : Nat → Place → List Nat → List Desig → Prop
  | done {m : Nat} {pl : Place} : st.sub = m → SP st m pl → DRel st m pl [] []
  | res {m : Nat} {pl : Place} {d : Desig} {ds : List Desig} {ps : List Nat} :
      resolve pl.ty d = .ok ps → ps ≠ [] → DRel st m pl ps ds → DRel st m pl [] (d :: ds)
  | step {m : Nat} {pl ch : Place} {p : Nat} {ps : List Nat} {ds : List Desig} :
      Lvl st m pl p ch → DRel st (m + 1) ch ps ds → DRel st m pl (p :: ps) ds

theorem chain_drel {st : St} {m : Nat} {pl : Place} {ps : List Nat} {m' : Nat} {pl' : Place} {ds : List Desig}
    (h : Chain st m pl ps m' pl') (hd : DRel st m' pl' [] ds) : DRel st m pl ps ds := by
  induction h with
  | nil => exact hd
  | cons hl _ ih => exact .step hl (ih hd)

theorem DRel.frame {st st' : St} {m : Nat} {pl : Place} {ps : List Nat} {ds : List Desig}
    (ho : st'.obj = st.obj) (hs : st'.sub = st.sub) (h : DRel st m pl ps ds) : DRel st' m pl ps ds := by
  induction h with
  | done h1 h2 => exact .done (by rw [hs]; exact h1) (h2.congr ho)
  | res h1 h2 _ ih => exact .res h1 h2 ih
  | step h1 _ ih => exact .step (h1.congr ho) ih

/-- a designator list (the bits of the start slot matter only when the list is empty) -/
theorem desig_fold : ∀ (ds : List Desig) (st stD : St) (pl : Place), (st.obj st.sub).ty = pl.ty →
    (st.obj st.sub).offset = pl.off → (ds = [] → SP st st.sub pl) → PlWf pl → Flat st st.sub →
    ds.foldlM desigStep st = .ok stD →
    DRel stD st.sub pl [] ds ∧ Frame st.sub st stD ∧ stD.log = st.log ∧ st.sub ≤ stD.sub ∧
      (stD.obj st.sub).ty = (st.obj st.sub).ty ∧ (stD.obj st.sub).offset = (st.obj st.sub).offset ∧
      (stD.obj st.sub).iscur = (st.obj st.sub).iscur ∧
      (∀ j, st.sub < j → j ≤ stD.sub → (stD.obj j).iscur = false) ∧ (ds ≠ [] → st.sub < stD.sub) := by
  intro ds
  induction ds with
  | nil =>
    intro st stD pl hty hoff hsp hw hp e
    cases e
    exact ⟨.done rfl (hsp rfl), Frame.refl _ _, rfl, Nat.le_refl _, rfl, rfl, rfl, fun j h1 h2 => by omega,
      fun h => absurd rfl h⟩
  | cons d ds ih =>
    intro st stD pl hty hoff _ hw hp e
    rw [List.foldlM_cons] at e
    cases hd : desigStep st d with
    | error er => rw [hd] at e; cases e
    | ok st1 =>
      rw [hd] at e
      have e' : ds.foldlM desigStep st1 = .ok stD := e
      obtain ⟨ps, hres, hf⟩ := desigStep_spec hty hoff hw hp hd
      obtain ⟨pl1, hch, hsp1⟩ := hf.chain
      have hw1 := hch.snoc_wf hw
      have hne0 : st.sub < st1.sub := by
        have h1 := hch.len
        have h2 : 0 < ps.length := List.length_pos_iff.2 hf.ne
        omega
      obtain ⟨r1, r2, r3, r5, r6, r7, r8, r9, _⟩ := ih st1 stD pl1 hsp1.ty hsp1.off (fun _ => hsp1) hw1
        (flat_pos st1 (by omega)) e'
      have hle := hch.le
      have hne : st.sub < st1.sub := by
        have h1 := hch.len
        have h2 : 0 < ps.length := List.length_pos_iff.2 hf.ne
        omega
      refine ⟨.res hres hf.ne (chain_drel (hch.frame r2 (Nat.le_refl _)) r1), ?_, by rw [r3, hf.log], by omega,
        ?_, ?_, ?_, ?_, fun _ => by omega⟩
      · exact hf.frame.trans r2 hle
      · rw [r2.low _ hne]; exact hf.ty
      · rw [r2.low _ hne]; exact hf.off
      · rw [r2.low _ hne]; exact hf.iscur
      · intro j h1 h2
        by_cases hj : j < st1.sub
        · rw [r2.low j hj]; exact hf.fresh j h1 (Nat.le_of_lt hj)
        · by_cases hj' : j = st1.sub
          · rw [hj', r8]; exact hf.fresh _ hne (Nat.le_refl _)
          · exact r9 j (by omega) h2

/-- `designator(s, p)` from the current object at slot `c` -/
theorem designator_spec {st stp : St} {c : Nat} {pl : Place} {d : Desig} {ds : List Desig} (hc : st.cur = some c)
    (hty : (st.obj c).ty = pl.ty) (hoff : (st.obj c).offset = pl.off) (hw : PlWf pl) (hp : Flat st c)
    (e : designator st (d :: ds) = .ok stp) :
    DRel stp c pl [] (d :: ds) ∧ Frame c st stp ∧ stp.log = st.log ∧ c < stp.sub ∧
      (stp.obj c).ty = (st.obj c).ty ∧ (stp.obj c).offset = (st.obj c).offset ∧
      (stp.obj c).iscur = (st.obj c).iscur ∧ (∀ j, c < j → j ≤ stp.sub → (stp.obj j).iscur = false) := by
  unfold designator at e
  have hg : st.cur.getD 0 = c := by rw [hc]; rfl
  rw [hg] at e
  obtain ⟨r1, r2, r3, r5, r6, r7, r8, r9, r10⟩ := desig_fold (d :: ds) { st with il := st.il.reset, sub := c } stp pl
    hty hoff (fun h => by cases h) hw ⟨hp.tinc, hp.tsize⟩ e
  exact ⟨r1, ⟨r2.cur, r2.top, r2.inc, r2.low⟩, r3, r10 (by simp), r6, r7, r8, r9⟩

end CprocVerif.InitSim

import CprocVerif.Lemmas.InitRefUnb

/-!
# The cursor machine on slot 0 while the outermost array is of unknown size
-/

namespace CprocVerif.InitSim
open CprocVerif.Init CprocVerif.Image CprocVerif.InitRef

/-- the outermost array of unknown size -/
structure PlWfU (pl : Place) (n : Nat) (el : Ty) : Prop where
  ty : pl.ty = .array n el
  elwf : tyWf el = true
  elpos : 0 < el.size
  unb : pl.unb = true

/-- element `pos` of the array at `pl` -/
def chU (pl : Place) (el : Ty) (pos : Nat) : Place := { ty := el, off := pl.off + pos * el.size, depth := pl.depth + 1 }

theorem childAt_unb {pl : Place} {n : Nat} {el : Ty} (h : PlWfU pl n el) (pos : Nat) (p : Bool) :
    childAt pl pos p = some (chU pl el pos) := by
  unfold childAt
  rw [h.ty]
  simp [h.unb, chU]

theorem chU_wf {pl : Place} {n : Nat} {el : Ty} (h : PlWfU pl n el) (pos : Nat) : PlWf (chU pl el pos) :=
  ⟨h.elwf, rfl, fun _ => ⟨rfl, rfl⟩⟩

theorem sp_childU {st : St} {k : Nat} {pl ch : Place} {n : Nat} {el : Ty} {pos : Nat} (h : PlWfU pl n el)
    (hl : Lvl st k pl pos ch) (hty : (st.obj (k + 1)).ty = ch.ty) (hoff : (st.obj (k + 1)).offset = ch.off) :
    SP st (k + 1) ch := by
  refine ⟨hty, hoff, ?_⟩
  unfold curBits
  simp only [Nat.add_one_ne_zero, if_false, Nat.add_sub_cancel]
  rw [hl.ty, h.ty]
  have := hl.child
  rw [childAt_unb h] at this
  cases this
  rfl

theorem tinc_zero {st : St} (hs : st.sub = 0) (hinc : st.inc = true) : st.tinc st.sub = true := by
  unfold St.tinc; simp [hs, hinc]

/-- what the three slot-0 steps leave alone -/
structure FrameU (st st' : St) : Prop where
  cur : st'.cur = st.cur
  inc : st'.inc = st.inc
  log : st'.log = st.log
  ty : (st'.obj 0).ty = (st.obj 0).ty
  off : (st'.obj 0).offset = (st.obj 0).offset
  iscur : (st'.obj 0).iscur = (st.obj 0).iscur

/-- a sub-object of slot 0 pushed after `t->size` was set to `top'` -/
theorem pushU {st st' : St} {pl : Place} {n : Nat} {el : Ty} {pos top' i : Nat} (h : PlWfU pl n el) (hs : st.sub = 0)
    (hty : (st.obj 0).ty = pl.ty) (hoff : (st.obj 0).offset = pl.off) (hi : i = pos * el.size)
    (e : subobj (({ st with top := top' } : St).setSlot st.sub { st.obj st.sub with u := .idx i }) el i = .ok st') :
    st'.sub = 1 ∧ Lvl st' 0 pl pos (chU pl el pos) ∧ SP st' 1 (chU pl el pos) ∧ FrameU st st' ∧
      (st'.obj 1).iscur = false ∧ st'.top = top' := by
  subst hi
  obtain ⟨h1, h2, h3, h4, h5, h6, h7⟩ := push_spec (st := { st with top := top' }) e
  simp only [] at h1 h3 h4 h5 h6 h7
  rw [hs] at h1 h4 h5 h6 h7
  have hl : Lvl st' 0 pl pos (chU pl el pos) := by
    refine ⟨by rw [h4]; exact hty, by rw [h4]; exact hoff, childAt_unb h pos false, ?_⟩
    unfold UAt
    rw [h.ty, h4]
  refine ⟨h1, hl, sp_childU h hl h5 (by rw [h6, hoff]; simp [chU, Nat.add_comm]), ⟨h2.cur, h2.inc, h3, by rw [h4], by rw [h4], by rw [h4]⟩,
    h7, h2.top⟩

/-- `focus` on the array of unknown size: its size becomes one element -/
theorem focusU {st st' : St} {pl : Place} {n : Nat} {el : Ty} (h : PlWfU pl n el) (hs : st.sub = 0) (hinc : st.inc = true)
    (hty : (st.obj 0).ty = pl.ty) (hoff : (st.obj 0).offset = pl.off) (e : focus st = .ok st') :
    st'.sub = 1 ∧ Lvl st' 0 pl 0 (chU pl el 0) ∧ SP st' 1 (chU pl el 0) ∧ FrameU st st' ∧
      (st'.obj 1).iscur = false ∧ st'.top = el.size := by
  unfold focus at e
  dsimp only [] at e
  have hty' : (st.obj st.sub).ty = .array n el := by rw [hs, hty, h.ty]
  split at e
  · rename_i n' el' heq
    rw [hty'] at heq
    cases heq
    rw [tinc_zero hs hinc] at e
    simp only [if_true] at e
    exact pushU (pos := 0) (top' := el.size) (i := 0) h hs hty hoff (by simp) e
  · rename_i heq; rw [hty'] at heq; cases heq
  · rename_i heq; rw [hty'] at heq; cases heq
  · rename_i heq; rw [hty'] at heq; cases heq

/-- `advance` on the array of unknown size: the next element, the size grows when needed -/
theorem advanceU {st st' : St} {f : Nat} {pl ch : Place} {n : Nat} {el : Ty} {pos : Nat} (h : PlWfU pl n el)
    (hs : st.sub = 1) (hinc : st.inc = true) (hl : Lvl st 0 pl pos ch) (e : advance (f + 1) st = .ok st') :
    st'.sub = 1 ∧ Lvl st' 0 pl (pos + 1) (chU pl el (pos + 1)) ∧ SP st' 1 (chU pl el (pos + 1)) ∧ FrameU st st' ∧
      (st'.obj 1).iscur = false ∧
      st'.top = if (pos + 1) * el.size = st.top then st.top + el.size else st.top := by
  rw [advance] at e
  split at e
  · omega
  dsimp only [] at e
  have hk : st.sub - 1 = 0 := by omega
  rw [hk] at e
  have hty' : (st.obj 0).ty = .array n el := by rw [hl.ty, h.ty]
  have hu := hl.u
  unfold UAt at hu
  rw [h.ty] at hu
  simp only [] at hu
  have h1 : pos * el.size + el.size = (pos + 1) * el.size := by rw [Nat.add_mul, Nat.one_mul]
  have hts : ({ st with sub := 0 } : St).tsize 0 = st.top := rfl
  have hti : ({ st with sub := 0 } : St).tinc 0 = true := by unfold St.tinc; simp [hinc]
  split at e
  · rename_i n' el' heq
    have heq' : (st.obj 0).ty = .array n' el' := heq
    rw [hty'] at heq'
    cases heq'
    rw [hu] at e
    simp only [] at e
    rw [hts, hti, h1] at e
    simp only [Bool.not_true, Bool.false_eq_true, if_false] at e
    split at e
    · rename_i heq2
      rw [if_pos heq2]
      obtain ⟨a1, a2, a3, a4, a5, a6⟩ := pushU (st := { st with sub := 0 }) (pos := pos + 1) (top' := st.top + el.size)
        h rfl hl.ty hl.off rfl e
      exact ⟨a1, a2, a3, ⟨a4.cur, a4.inc, a4.log, a4.ty, a4.off, a4.iscur⟩, a5, a6⟩
    · rename_i hne
      rw [if_neg hne]
      obtain ⟨a1, a2, a3, a4, a5, a6⟩ := pushU (st := { st with sub := 0 }) (pos := pos + 1) (top' := st.top)
        h rfl hl.ty hl.off rfl e
      exact ⟨a1, a2, a3, ⟨a4.cur, a4.inc, a4.log, a4.ty, a4.off, a4.iscur⟩, a5, a6⟩
  · rename_i heq
    have heq' : (st.obj 0).ty = _ := heq
    rw [hty'] at heq'; cases heq'
  · rename_i h1 h2
    exact absurd hty' (h1 n el)

/-- one index designator on the array of unknown size -/
theorem desigStepU {st st' : St} {d : Desig} {pl : Place} {n : Nat} {el : Ty} (h : PlWfU pl n el) (hs : st.sub = 0)
    (hinc : st.inc = true) (hty : (st.obj 0).ty = pl.ty) (hoff : (st.obj 0).offset = pl.off)
    (e : desigStep st d = .ok st') :
    ∃ k, d = .idx k ∧ st'.sub = 1 ∧ Lvl st' 0 pl k (chU pl el k) ∧ SP st' 1 (chU pl el k) ∧ FrameU st st' ∧
      (st'.obj 1).iscur = false ∧
      st'.top = if k * el.size ≥ st.top then k * el.size + el.size else st.top := by
  have hty' : (st.obj st.sub).ty = .array n el := by rw [hs, hty, h.ty]
  cases d with
  | fld name =>
    unfold desigStep at e
    dsimp only [] at e
    rw [hty'] at e
    simp at e
  | idx k =>
    rw [desigStep.eq_1 _ _ _ _ hty'] at e
    have hts : st.tsize st.sub = st.top := by unfold St.tsize; rw [if_pos hs]
    rw [hts, tinc_zero hs hinc] at e
    simp only [Bool.not_true, Bool.false_eq_true, if_false] at e
    refine ⟨k, rfl, ?_⟩
    split at e
    · rename_i hge
      rw [if_pos hge]
      exact pushU (pos := k) (top' := k * el.size + el.size) h hs hty hoff rfl e
    · rename_i hlt
      rw [if_neg hlt]
      exact pushU (pos := k) (top' := st.top) h hs hty hoff rfl e

end CprocVerif.InitSim

import CprocVerif.Model.PPLine
import CprocVerif.Spec.Presumed

/-! C11 helper lemmas, part 1: the physical location of a byte offset as scan.c counts it
(`physAt`), its declarative reading (`Spec.Presumed.newlines` / `sinceLineStart`), and the
structure of `Scan.group`. -/

namespace CprocVerif.PPLine
open CprocVerif.Scan CprocVerif.Gen.TokenKinds

/-- `loc` after the reader has consumed the bytes `bs` one at a time, none of them being part of
the state machine of `nextchar` (a removed backslash-newline pair moves `loc` exactly as reading
its two bytes would: `col+1`, then `line+1, col 0`) -/
def advBytes (l : Loc) (bs : List UInt8) : Loc := bs.foldl advChar l

/-- the location after the first `p` bytes of `text`, starting from `{1, 0}` -/
def physAt (text : List UInt8) (p : Nat) : Loc := advBytes ⟨1, 0⟩ (text.take p)

/-- `k` backslash-newline pairs -/
def splices : Nat → List UInt8
  | 0 => []
  | k + 1 => c! '\\' :: c! '\n' :: splices k

@[simp] theorem length_splices (k : Nat) : (splices k).length = 2 * k := by
  induction k with
  | zero => rfl
  | succ k ih => simp [splices, ih]; omega

theorem advBytes_append (l : Loc) (a b : List UInt8) :
    advBytes l (a ++ b) = advBytes (advBytes l a) b := by
  simp [advBytes, List.foldl_append]

theorem advBytes_splices (l : Loc) (k : Nat) : advBytes l (splices k) = advSplice l k := by
  induction k generalizing l with
  | zero => simp [splices, advBytes, advSplice]
  | succ k ih =>
    have e : advBytes l (splices (k + 1)) = advBytes ⟨l.line + 1, 0⟩ (splices k) := by
      simp [splices, advBytes, List.foldl_cons, advChar]
    rw [e, ih]
    simp only [advSplice]
    split
    · subst_vars; simp
    · simp; omega

theorem physAt_add (text : List UInt8) (p : Nat) (u v : List UInt8) (h : text.drop p = u ++ v) :
    physAt text (p + u.length) = advBytes (physAt text p) u := by
  by_cases hp : p ≤ text.length
  · unfold physAt
    rw [← advBytes_append]
    congr 1
    have hl : (text.take p).length = p := by simp [hp]
    have h1 : text = text.take p ++ (u ++ v) := by rw [← h, List.take_append_drop]
    generalize text.take p = a at hl h1
    subst hl
    rw [h1, ← List.append_assoc, List.take_left' (by simp)]
  · have : text.drop p = [] := List.drop_eq_nil_of_le (by omega)
    rw [this] at h
    have hu : u = [] := by
      cases u with
      | nil => rfl
      | cons a t => simp at h
    subst hu
    simp [advBytes]

theorem drop_structure (text : List UInt8) (p : Nat) (u : List UInt8) (c : UInt8) (t' : List UInt8)
    (h : text.drop p = u ++ c :: t') :
    text[p + u.length]? = some c ∧ text.drop (p + u.length + 1) = t' ∧
      p + u.length + 1 ≤ text.length := by
  have h1 : text.drop (p + u.length) = c :: t' := by
    rw [← List.drop_drop, h]; simp
  refine ⟨?_, ?_, ?_⟩
  · have := congrArg List.head? h1
    simpa [List.head?_drop] using this
  · rw [← List.drop_drop, h1]; rfl
  · have := congrArg List.length h1
    simp at this; omega

/-! ## `group` -/

theorem group_acc_le : ∀ (t : List UInt8) (a : Nat),
    (∀ e ∈ (group t a).1.head?, a ≤ e.1) ∧ ((group t a).1 = [] → a ≤ (group t a).2) := by
  intro t a
  fun_induction group t a with
  | case1 k => simp
  | case2 c k => simp
  | case3 c d r k h ih =>
    constructor
    · intro e he; have := ih.1 e he; omega
    · intro hn; have := ih.2 hn; omega
  | case4 c d r k h ih => simp

/-- the raw bytes in front of the first grouped character are its removed pairs; the rest groups
to the rest (and re-reading the character after a push-back sees it with no pair in front) -/
theorem group_cons_inv : ∀ (t : List UInt8) (a k : Nat) (c : UInt8) (rest : List (Nat × UInt8))
    (tr : Nat), group t a = ((k, c) :: rest, tr) →
    a ≤ k ∧ ∃ t', t = splices (k - a) ++ c :: t' ∧ group t' 0 = (rest, tr) ∧
      group (c :: t') 0 = ((0, c) :: rest, tr) := by
  intro t a
  fun_induction group t a with
  | case1 k0 => intro k c rest tr h; simp at h
  | case2 c0 k0 =>
    intro k c rest tr h
    simp only [Prod.mk.injEq, List.cons.injEq] at h
    obtain ⟨⟨⟨rfl, rfl⟩, rfl⟩, rfl⟩ := h
    exact ⟨Nat.le_refl _, [], by simp [splices], by simp [group], by simp [group]⟩
  | case3 c0 d r k0 h ih =>
    intro k c rest tr hg
    obtain ⟨h1, t', h2, h3, h4⟩ := ih k c rest tr hg
    obtain ⟨hc, hd⟩ := h
    refine ⟨by omega, t', ?_, h3, h4⟩
    rw [show k - k0 = (k - (k0 + 1)) + 1 by omega, splices, hc, hd, h2]
    rfl
  | case4 c0 d r k0 h ih =>
    intro k c rest tr hg
    simp only [Prod.mk.injEq, List.cons.injEq] at hg
    obtain ⟨⟨⟨rfl, rfl⟩, rfl⟩, rfl⟩ := hg
    refine ⟨Nat.le_refl _, d :: r, by simp [splices], rfl, ?_⟩
    rw [group]
    simp only [h, if_false]

theorem group_nil_inv : ∀ (t : List UInt8) (a tr : Nat), group t a = ([], tr) →
    a ≤ tr ∧ t = splices (tr - a) := by
  intro t a
  fun_induction group t a with
  | case1 k0 =>
    intro tr h
    simp only [Prod.mk.injEq, true_and] at h
    subst h
    simp [splices]
  | case2 c0 k0 => intro tr h; simp at h
  | case3 c0 d r k0 h ih =>
    intro tr hg
    obtain ⟨h1, h2⟩ := ih tr hg
    obtain ⟨hc, hd⟩ := h
    refine ⟨by omega, ?_⟩
    rw [show tr - k0 = (tr - (k0 + 1)) + 1 by omega, splices, hc, hd, h2]
  | case4 c0 d r k0 h ih => intro tr hg; simp at hg

/-! ## Declarative reading of `physAt` -/

theorem takeWhile_all {p : UInt8 → Bool} : ∀ l : List UInt8, (∀ a ∈ l, p a = true) →
    l.takeWhile p = l := by
  intro l h
  have := List.takeWhile_append_of_pos (l₂ := []) h
  simpa using this

theorem takeWhile_append_stop {p : UInt8 → Bool} : ∀ (l1 l2 : List UInt8), (∃ a ∈ l1, p a = false) →
    (l1 ++ l2).takeWhile p = l1.takeWhile p := by
  intro l1
  induction l1 with
  | nil => intro l2 h; obtain ⟨a, ha, _⟩ := h; cases ha
  | cons x t ih =>
    intro l2 h
    simp only [List.cons_append, List.takeWhile_cons]
    split
    · rename_i hx
      obtain ⟨a, ha, hpa⟩ := h
      rcases List.mem_cons.mp ha with e | e
      · subst e; rw [hx] at hpa; cases hpa
      · rw [ih l2 ⟨a, e, hpa⟩]
    · rfl

theorem advBytes_line (l : Loc) (bs : List UInt8) :
    (advBytes l bs).line = l.line + bs.count (c! '\n') := by
  induction bs generalizing l with
  | nil => simp [advBytes]
  | cons b r ih =>
    have e : advBytes l (b :: r) = advBytes (advChar l b) r := rfl
    rw [e, ih]
    unfold advChar
    by_cases hb : b = c! '\n'
    · simp [hb]; omega
    · simp [hb]

theorem advBytes_col (l : Loc) (bs : List UInt8) :
    (advBytes l bs).col =
      if c! '\n' ∈ bs then (bs.reverse.takeWhile (· ≠ c! '\n')).length else l.col + bs.length := by
  induction bs generalizing l with
  | nil => simp [advBytes]
  | cons b r ih =>
    have e : advBytes l (b :: r) = advBytes (advChar l b) r := rfl
    rw [e, ih]
    by_cases hr : c! '\n' ∈ r
    · simp only [hr, if_true, List.mem_cons, or_true, List.reverse_cons]
      rw [takeWhile_append_stop]
      exact ⟨c! '\n', List.mem_reverse.mpr hr, by simp⟩
    · by_cases hb : b = c! '\n'
      · subst hb
        simp only [hr, if_false, List.mem_cons, true_or, if_true, List.reverse_cons, advChar]
        have hall : ∀ x ∈ r.reverse, (decide (x ≠ c! '\n')) = true := by
          intro x hx
          have : x ∈ r := List.mem_reverse.mp hx
          simp only [ne_eq, decide_not, Bool.not_eq_eq_eq_not, Bool.not_true, decide_eq_false_iff_not]
          intro hxe; subst hxe; exact hr this
        rw [List.takeWhile_append_of_pos hall]
        simp
      · have hb' : ¬ (c! '\n' = b) := fun h => hb h.symm
        simp only [hr, if_false, List.mem_cons, hb', or_self, advChar, hb, List.length_cons]
        omega

theorem physAt_line (text : List UInt8) (p : Nat) :
    (physAt text p).line = 1 + Spec.Presumed.newlines text 0 p := by
  unfold physAt Spec.Presumed.newlines
  rw [advBytes_line]
  simp

theorem physAt_col (text : List UInt8) (p : Nat) :
    (physAt text p).col = Spec.Presumed.sinceLineStart text p := by
  unfold physAt Spec.Presumed.sinceLineStart
  rw [advBytes_col]
  split
  · rfl
  · rename_i h
    have hall : ∀ x ∈ (text.take p).reverse, (decide (x ≠ Spec.Presumed.NL)) = true := by
      intro x hx
      have : x ∈ text.take p := List.mem_reverse.mp hx
      simp only [ne_eq, decide_not, Bool.not_eq_eq_eq_not, Bool.not_true, decide_eq_false_iff_not]
      intro hxe; subst hxe; exact h this
    rw [takeWhile_all _ hall]
    simp

theorem newlines_split (text : List UInt8) (a b c : Nat) (h1 : a ≤ b) (h2 : b ≤ c) :
    Spec.Presumed.newlines text a c = Spec.Presumed.newlines text a b + Spec.Presumed.newlines text b c := by
  unfold Spec.Presumed.newlines
  have e : (text.drop a).take (c - a) = (text.drop a).take (b - a) ++ (text.drop b).take (c - b) := by
    rw [show c - a = (b - a) + (c - b) by omega, List.take_add, List.drop_drop]
    congr 3
    omega
  rw [e, List.count_append]

end CprocVerif.PPLine

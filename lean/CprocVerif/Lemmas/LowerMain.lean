/-
  C01 — putting the pieces together: the emitted function, called with representations of the
  arguments, returns a representation of the C value.
-/
import CprocVerif.Lemmas.LowerFunc

set_option linter.unusedSimpArgs false

namespace CprocVerif.LowerMach
open CprocVerif.Qbe CprocVerif.Lower CprocVerif.CSem CprocVerif.CInt CprocVerif.LowerArith
open CprocVerif.LowerMem

theorem run_done {p : Prog} {ext : Ext} {n : Nat} {s s' : State} {e : End} {t : Array String}
    (h : Reach p ext n s s') (hs : step p ext s' = .done e t) (m : Nat) :
    run p ext (n + (m + 1)) s = ⟨t, e⟩ := by
  rw [run_of_reach h]
  simp only [run, hs]

/-- the labels of the emitted function are pairwise different -/
theorem emit_labels_nodup (cs : Bool) (startid : Nat) (f : CSem.Func) :
    ((emitFunc cs startid f).blocks.toList.map (·.label)).Nodup := by
  simp only [emitFunc, List.toList_toArray]
  rw [assemble_labels]
  simp only [funcItems, itemLabels_append, itemLabels_allIns _ (spills_allIns _ _), itemLabels,
    List.nil_append]
  have g := funcexpr_good cs f.body (bodyCtx startid f)
  have h := ((LabelsIn.single (S := fun j => j = startid + 1) "start" (startid + 1) rfl).append
    (LabelsIn.single (S := fun j => j = startid + 2) "body" (startid + 2) rfl)
    (by intro j h1 h2; omega)).append g.labels (by
      intro j h1 h2
      simp only [bodyCtx] at h2
      omega)
  exact h.2

theorem stepRet_top {p : Prog} {fr : Frame} {mem : Mem} {trace : Array String} {v : RVal}
    {k : Cls} {v' : RVal} (hret : fr.fi.f.ret = some (.base k)) (hc : v.coerce k = .ok v') :
    stepRet p fr [] mem trace (some v) = .done (.ret (.scalar v')) trace := by
  simp only [stepRet, retValue, hret, Ty.cls, hc, bind, Except.bind, pure, Except.pure]

/-- How the returned value represents `v`: kind of the return class, low bits those of `v`. -/
def RetRep (t : CSem.Ty) (v : Int) (r : RVal) : Prop :=
  Rep t v r ∧ r.kind = (cls t).kind ∧ (cls t = .w → r.bits.toNat < 2 ^ 32)

theorem coerce_kind {r r' : RVal} {k : Cls} (h : r.coerce k = .ok r') :
    r'.kind = k.kind ∧ (k = .w → r'.bits.toNat < 2 ^ 32) := by
  unfold RVal.coerce at h
  split at h
  · rename_i b hb
    cases h
    refine ⟨rfl, fun hk => ?_⟩
    subst hk
    exact asW_lt hb
  · cases h

theorem lower_correct_prog (cs : Bool) (startid : Nat) (f : CSem.Func) (ρ : List Int) (v : Int)
    (hwt : WT f) (henv : EnvOK cs f.params ρ) (hsmall : f.params.length ≤ 1000000)
    (hev : evalC cs ρ f.body = some v)
    (p : Prog) (ext : Ext)
    (hfun : p.funcs[f.name]? = some (FuncInfo.of (emitFunc cs startid f)))
    (hstack : p.initMem.stack = #[]) (hsp : p.initMem.sp = stackTop) :
    ∃ fuel₀ r, RetRep f.ret v r ∧
      ∀ fuel, fuel₀ ≤ fuel →
        runFunc p ext f.name (argsOf f.params ρ) fuel = ⟨#[], .ret (.scalar r)⟩ := by
  have hlen := henv.1
  simp only [WT, Func.wt, Bool.and_eq_true, beq_iff_eq] at hwt
  obtain ⟨hty, hwtb⟩ := hwt
  -- the static situation
  let x : Fix := ⟨FuncInfo.of (emitFunc cs startid f), p.initMem.stack.size, p.initMem.sp, [], #[]⟩
  let its := funcItems cs startid f
  let ft : Jump := .ret (some (bodyOut cs startid f).val)
  let o0 : Open := ⟨startLabel startid, [], #[]⟩
  have hblocks : x.fi.f.blocks = (assemble ft o0 its).toArray := rfl
  have hlidx : ∀ (j : Nat) (b : Block), x.fi.f.blocks[j]? = some b →
      x.fi.labelIdx[b.label]? = some j :=
    fun j b hb => labelIdx_of_nodup _ (emit_labels_nodup cs startid f) hb
  -- entering the function
  let env0 : Env := bindParams {} (paramSig f.params 0)
    (List.zipWith (fun t v => (argOf t v).2) f.params ρ)
  let M0 : Mem := { p.initMem with sp := p.initMem.sp - frameCost }
  have henter : initState p f.name (argsOf f.params ρ) = .ok (mkSt x env0 M0 0 0) := by
    have hnp : (emitFunc cs startid f).params.length = f.params.length := paramSig_length _ _
    have hal := argsOf_length f.params ρ hlen
    have hvar : (emitFunc cs startid f).variadic = false := rfl
    have hsp' : ¬ p.initMem.sp < stackLimit + redZone + frameCost := by
      rw [hsp, stackTop_val, stackLimit_val]; decide
    have hprep := prepArgs_ok p ⟨p.initMem.globals, p.initMem.stack, p.initMem.sp - frameCost⟩
      f.params 0 ρ hlen
    have hzl : (List.zipWith (fun t v => (argOf t v).2) f.params ρ).length = f.params.length := by
      simp [hlen]
    simp only [initState, hfun, enterFunc, FuncInfo.of, hvar, hnp, hal, hsp', Nat.lt_irrefl,
      Bool.false_eq_true, if_false, bne_self_eq_false, Bool.and_false, markerBad, List.drop_length,
      vaArea, Bool.not_false, Bool.true_and]
    have hparams : (emitFunc cs startid f).params = paramSig f.params 0 := rfl
    have hdrop : List.drop f.params.length (argsOf f.params ρ) = [] := by
      rw [← hal]; exact List.drop_length
    simp only [hdrop, vaArea, hparams, hprep, hzl, bne_self_eq_false, Bool.false_eq_true, if_false]
    rfl
  -- invariant at entry
  have hpinv0 : PInv cs f.params ρ 0 env0 M0 := by
    refine ⟨⟨?_, ?_, ?_, ?_⟩, ?_, ?_, ?_, ?_, ?_⟩
    · intro i j hi; simp [M0, hstack] at hi
    · intro i hi; simp [M0, hstack] at hi
    · show stackLimit ≤ p.initMem.sp - frameCost
      rw [hsp, stackTop_val, stackLimit_val]; decide
    · simp [M0, hstack]
    · simp [M0, hstack]
    · show stackTop ≤ p.initMem.sp - frameCost + 64 + 32 * 0
      rw [hsp, stackTop_val]; decide
    · show p.initMem.sp - frameCost ≤ stackTop
      rw [hsp]; omega
    · intro k t v' ht hv'
      have hk : k < f.params.length := by
        rcases Nat.lt_or_ge k f.params.length with h | h
        · exact h
        · rw [List.getElem?_eq_none h] at ht; cases ht
      have := (bindParams_spec f.params 0 (List.zipWith (fun t v => (argOf t v).2) f.params ρ) {}
        (by simp [hlen])).1 k (argOf t v').2 (by
          rw [List.getElem?_zipWith, ht, hv'])
      simpa using this
    · intro k t v' hk; omega
  -- the spills
  have hits0 : its = [] ++ spills f.params 0 ++
      (.lbl none (bodyLabel startid) [] :: (bodyOut cs startid f).items) := by
    simp [its, funcItems]
  obtain ⟨n1, env1, M1, hreach1, hpinv1, _⟩ := run_spills cs p ext x ft o0 its hblocks f.params ρ hlen
    hsmall f.params 0 [] _ env0 M0 (fun k t h => by simpa using h) hits0 hpinv0
  simp only [List.nil_append, Nat.zero_add] at hreach1 hpinv1
  -- from here on memory is `M1`
  let S : Sit := ⟨cs, p, ext, x, M1, ft, o0, its, f.params, ρ, hblocks, hlidx, henv⟩
  have hparams : ParamsIn S env1 := by
    intro i t v' ht hv'
    have hi : i < f.params.length := by
      rcases Nat.lt_or_ge i f.params.length with h | h
      · exact h
      · rw [List.getElem?_eq_none h] at ht; cases ht
    obtain ⟨a, al, h1, h2, h3, h4, h5⟩ := hpinv1.slots i t v' hi ht hv'
    have hi' : i < M1.stack.size := by rw [hpinv1.ssize]; exact hi
    have hal : M1.stack[i] = al := by
      rw [Array.getElem?_eq_getElem hi'] at h2; exact Option.some.inj h2
    have hsz : 0 < t.size := by rcases size_cases t with h | h | h | h <;> omega
    have hload := load_stack hpinv1.mem hi' (n := t.size) hsz (by rw [hal, h4]; exact Nat.le_refl _)
    rw [hal, h3] at hload
    obtain ⟨r, hx, hr⟩ := load_rep cs t v' M1 a _ hload h5
    exact ⟨⟨.l, a⟩, r, h1, hx, hr⟩
  -- fall through into `body`
  have hitsL : S.its = spills f.params 0 ++ .lbl none (bodyLabel startid) [] ::
      (bodyOut cs startid f).items := by simpa using hits0
  obtain ⟨bs, hbs, hszs, hterms, _⟩ := S.term_at hitsL
  obtain ⟨bb, hbb, _, hbbp, _⟩ := S.target hitsL
  have hstep : step p ext (S.at env1 (spills f.params 0)) =
      .next (S.at env1 (spills f.params 0 ++ [.lbl none (bodyLabel startid) []])) := by
    rw [S.at_lbl]
    unfold Sit.at
    rw [step_fall S.x hbs hszs hterms]
    exact goto_nophi S.x hbb hbbp
  -- the body
  have hitsB : S.its = (spills f.params 0 ++ [.lbl none (bodyLabel startid) []]) ++
      (funcexpr S.cs f.body (bodyCtx startid f)).items ++ [] := by
    simp [S, its, funcItems, bodyOut]
  obtain ⟨n2, env2, hreach2, _, r, hval, hrep⟩ := sim_expr S f.body (bodyCtx startid f) _ [] env1 v
    hwtb hev hitsB (curOf_lbl _ _ _ _ _) ⟨"body", startid + 2, rfl, Nat.le_refl _⟩
    (by simp [bodyCtx, S]) hparams
  -- `ret`
  have hitsE : S.its = (spills f.params 0 ++ [.lbl none (bodyLabel startid) []]) ++
      (funcexpr S.cs f.body (bodyCtx startid f)).items := by simpa using hitsB
  rw [hty] at hrep
  obtain ⟨r', hco, hrep'⟩ := rep_coerce hrep
  have hfin : step p ext (S.at env2 (spills f.params 0 ++ [.lbl none (bodyLabel startid) []] ++
      (funcexpr S.cs f.body (bodyCtx startid f)).items)) = .done (.ret (.scalar r')) #[] :=
    S.step_ret hitsE (val := (bodyOut cs startid f).val) rfl rfl hval (k := cls f.ret) rfl hco
  have hall := ((hreach1.trans (Reach.one hstep)).trans hreach2)
  have hs0 : S.at env0 [] = mkSt x env0 M0 0 0 → True := fun _ => trivial
  refine ⟨n1 + 1 + n2 + 1, r', ⟨hrep', coerce_kind hco⟩, ?_⟩
  intro fuel hfuel
  obtain ⟨m, rfl⟩ : ∃ m, fuel = (n1 + 1 + n2) + (m + 1) := ⟨fuel - (n1 + 1 + n2 + 1), by omega⟩
  unfold runFunc
  rw [henter]
  exact run_done hall hfin m

end CprocVerif.LowerMach

import CprocVerif.Lemmas.PPLineInv

/-! C11 helper lemmas, part 3: every loop and helper of scan.c keeps the location invariant
(each only calls `nextchar` while there is a current character). -/

namespace CprocVerif.PPLine
open CprocVerif.Scan CprocVerif.Gen.TokenKinds

variable {text : List UInt8} {δ : Int}

theorem inp_ne_of_onChr {s : S} {p : UInt8 → Bool} (h : onChr p s.chr = true) : s.inp ≠ [] := by
  intro hn
  simp [S.chr, hn, onChr] at h

theorem chr_ne_of_inp {s : S} (h : s.inp ≠ []) : s.chr ≠ none := by
  unfold S.chr
  cases hi : s.inp with
  | nil => exact absurd hi h
  | cons a r => simp

theorem chr_of_core {s s1 : S} (hc : core s1 = core s) : s1.chr = s.chr := by
  simp only [core, Prod.mk.injEq] at hc
  simp [S.chr, hc.1]

theorem inp_of_core {s s1 : S} (hc : core s1 = core s) : s1.inp = s.inp := by
  simp only [core, Prod.mk.injEq] at hc
  exact hc.1

/-! ## Operators -/

theorem op2_after {s : S} (h : Inv text δ s) (hne : s.inp ≠ []) (a b : Kind) :
    After text δ (off s) (op2 s a b).2 := by
  have h1 := nextchar_after h hne
  unfold op2
  simp only []
  split
  · exact h1
  · rename_i hc
    exact h1.next (inp_ne_of_chr (c := c! '=') (by simpa using hc))

theorem op3_after {s : S} (h : Inv text δ s) (hne : s.inp ≠ []) (a b c : Kind) :
    After text δ (off s) (op3 s a b c).2 := by
  have h1 := nextchar_after h hne
  unfold op3
  simp only []
  split
  · rename_i hc; exact h1.next (inp_ne_of_chr hc)
  · split
    · exact h1
    · rename_i hc
      have hc' : s.nextchar.chr = s.chr := by simpa using hc
      exact h1.next (inp_ne_of_chr_ne (by rw [hc']; exact chr_ne_of_inp hne))

theorem op4_after {s : S} (h : Inv text δ s) (hne : s.inp ≠ []) (a b c d : Kind) :
    After text δ (off s) (op4 s a b c d).2 := by
  have h1 := nextchar_after h hne
  unfold op4
  simp only []
  split
  · rename_i hc; exact h1.next (inp_ne_of_chr hc)
  · split
    · exact h1
    · rename_i hc
      have hc' : s.nextchar.chr = s.chr := by simpa using hc
      have h2 := h1.next (inp_ne_of_chr_ne (by rw [hc']; exact chr_ne_of_inp hne))
      split
      · exact h2
      · rename_i hc2
        exact h2.next (inp_ne_of_chr (c := c! '=') (by simpa using hc2))

/-! ## Identifiers and numbers -/

theorem identLoop_after {o : Nat} : ∀ (n : Nat) (s : S), After text δ o s →
    After text δ o (identLoop n s) := by
  intro n
  induction n with
  | zero => intro s h; exact h
  | succ n ih =>
    intro s h
    unfold identLoop
    split
    · rename_i hc; exact ih _ (h.next (inp_ne_of_onChr hc))
    · exact h

theorem ident_after {o : Nat} {s : S} (h : After text δ o s) : After text δ o (ident s).2 :=
  identLoop_after _ _ (h.of_core (s' := { s with usebuf := true }) rfl)

/-- `ident` called on the token's first character -/
theorem ident_entry {s : S} (h : Inv text δ s) (hid : onChr isidchar s.chr = true) :
    After text δ (off s) (ident s).2 := by
  have hne := inp_ne_of_onChr hid
  obtain ⟨m, hm⟩ : ∃ m, s.inp.length = m + 1 := by
    cases hl : s.inp with
    | nil => exact absurd hl hne
    | cons e r => exact ⟨r.length, rfl⟩
  show After text δ (off s) (identLoop s.inp.length { s with usebuf := true })
  rw [hm, identLoop]
  have hid' : onChr isidchar ({ s with usebuf := true } : S).chr = true := hid
  rw [if_pos hid']
  exact identLoop_after _ _ (nextchar_after' h hne _ rfl)

theorem numberLoop_after {o : Nat} : ∀ (n : Nat) (a : Bool) (s : S), After text δ o s → s.inp ≠ [] →
    After text δ o (numberLoop n a s) := by
  intro n
  induction n with
  | zero => intro a s h _; exact h
  | succ n ih =>
    intro a s h hne
    have h1 := h.next hne
    unfold numberLoop
    simp only []
    split
    · exact h1
    · rename_i c hc
      have hne' := inp_ne_of_chr hc
      repeat' split
      all_goals first
        | exact h1
        | exact ih _ _ h1 hne'

theorem number_after {o : Nat} {s : S} (h : After text δ o s) (hne : s.inp ≠ []) :
    After text δ o (number s).2 :=
  numberLoop_after _ _ _ (h.of_core (s' := { s with usebuf := true }) rfl) hne

/-- `number` called on the token's first character -/
theorem number_entry {s : S} (h : Inv text δ s) (hne : s.inp ≠ []) :
    After text δ (off s) (number s).2 := by
  obtain ⟨m, hm⟩ : ∃ m, s.inp.length = m + 1 := by
    cases hl : s.inp with
    | nil => exact absurd hl hne
    | cons e r => exact ⟨r.length, rfl⟩
  show After text δ (off s) (numberLoop s.inp.length false { s with usebuf := true })
  rw [hm, numberLoop]
  have h1 : After text δ (off s) ({ s with usebuf := true } : S).nextchar :=
    nextchar_after' h hne _ rfl
  split
  · exact h1
  · rename_i c hc
    have hne' := inp_ne_of_chr hc
    repeat' split
    all_goals first
      | exact h1
      | exact numberLoop_after _ _ _ h1 hne'

/-! ## Literals -/

theorem hexLoop_after {o : Nat} : ∀ (n : Nat) (s : S), After text δ o s → s.inp ≠ [] →
    After text δ o (hexLoop n s) := by
  intro n
  induction n with
  | zero => intro s h _; exact h
  | succ n ih =>
    intro s h hne
    have h1 := h.next hne
    unfold hexLoop
    simp only []
    split
    · rename_i hc; exact ih _ h1 (inp_ne_of_onChr hc)
    · exact h1

theorem escape_after {o : Nat} {s s' : S} (h : After text δ o s) (hne : s.inp ≠ [])
    (he : escape s = .ok s') : After text δ o s' := by
  have h1 := h.next hne
  unfold escape at he
  simp only [] at he
  split at he
  · rename_i hx
    have h2 := h1.next (inp_ne_of_chr hx)
    split at he
    · cases he
    · rename_i hd
      simp only [Except.ok.injEq] at he
      subst he
      have hd' : onChr isxdigit s.nextchar.nextchar.chr = true := by simpa using hd
      exact hexLoop_after _ _ h2 (inp_ne_of_onChr hd')
  · split at he
    · rename_i ho1
      have h2 := h1.next (inp_ne_of_onChr ho1)
      split at he
      · rename_i ho2
        have h3 := h2.next (inp_ne_of_onChr ho2)
        split at he
        · rename_i ho3
          simp only [Except.ok.injEq] at he
          subst he
          exact h3.next (inp_ne_of_onChr ho3)
        · simp only [Except.ok.injEq] at he
          subst he; exact h3
      · simp only [Except.ok.injEq] at he
        subst he; exact h2
    · split at he
      · rename_i hs
        simp only [Except.ok.injEq] at he
        subst he
        exact h1.next (inp_ne_of_onChr hs)
      · cases he

theorem litLoop_after {o : Nat} (str : Bool) : ∀ (n : Nat) (s : S) (k : Kind) (s' : S),
    After text δ o s → litLoop str n s = .ok (k, s') →
    After text δ o s' ∧ (k = .TSTRINGLIT ∨ k = .TCHARCONST) := by
  cases str
  all_goals
    intro n
    induction n with
    | zero => intro s k s' _ he; simp [litLoop] at he
    | succ n ih =>
      intro s k s' h he
      unfold litLoop at he
      simp only [Bool.false_eq_true, if_false, if_true] at he
      split at he
      · cases he
      · rename_i c hc
        have hne := inp_ne_of_chr hc
        split at he
        · split at he
          · cases he
          · rename_i s1 hesc
            exact ih _ _ _ (escape_after h hne hesc) he
        · split at he
          · simp only [Except.ok.injEq, Prod.mk.injEq] at he
            obtain ⟨hk, hs⟩ := he
            subst hs
            refine ⟨h.next hne, ?_⟩
            rw [← hk]
            simp
          · split at he
            · cases he
            · split at he
              · cases he
              · exact ih _ _ _ (h.next hne) he

/-- `charconst` / `stringlit`, given that the state after their first `nextchar` is fine -/
theorem charconst_after {o : Nat} {s : S} {k : Kind} {s' : S}
    (h1 : After text δ o ({ s with usebuf := true } : S).nextchar)
    (he : charconst s = .ok (k, s')) : After text δ o s' ∧ (k = .TSTRINGLIT ∨ k = .TCHARCONST) := by
  unfold charconst at he
  exact litLoop_after false _ _ _ _ h1 he

theorem stringlit_after {o : Nat} {s : S} {k : Kind} {s' : S}
    (h1 : After text δ o ({ s with usebuf := true } : S).nextchar)
    (he : stringlit s = .ok (k, s')) : After text δ o s' ∧ (k = .TSTRINGLIT ∨ k = .TCHARCONST) := by
  unfold stringlit at he
  exact litLoop_after true _ _ _ _ h1 he

/-! ## Comments -/

theorem lineLoop_after {o : Nat} : ∀ (n : Nat) (s : S), After text δ o s → s.inp ≠ [] →
    After text δ o (lineLoop n s) := by
  intro n
  induction n with
  | zero => intro s h _; exact h
  | succ n ih =>
    intro s h hne
    have h1 := h.next hne
    unfold lineLoop
    simp only []
    split
    · rename_i hc; exact ih _ h1 (inp_ne_of_chr_ne hc.2)
    · exact h1

theorem blockLoop_after {o : Nat} : ∀ (n : Nat) (s s' : S), After text δ o s →
    blockLoop n s = .ok s' → After text δ o s' ∧ s'.inp ≠ [] := by
  intro n
  induction n with
  | zero => intro s s' _ he; simp [blockLoop] at he
  | succ n ih =>
    intro s s' h he
    unfold blockLoop at he
    simp only [] at he
    split at he
    · cases he
    · rename_i hc
      have hne : s.inp ≠ [] := chr_nextchar_ne hc
      have h1 := h.next hne
      split at he
      · exact ih _ _ h1 he
      · simp only [Except.ok.injEq] at he
        subst he
        exact ⟨h1, inp_ne_of_chr_ne hc⟩

theorem comment_after {o : Nat} {s s' : S} (h : After text δ o s)
    (he : comment s = .ok (some s')) : After text δ o s' := by
  unfold comment at he
  split at he
  · rename_i hc
    simp only [Except.ok.injEq, Option.some.injEq] at he
    subst he
    exact (lineLoop_after _ _ h (inp_ne_of_chr hc)).of_core rfl
  · split at he
    · rename_i hc
      have h1 := h.next (inp_ne_of_chr hc)
      simp only [] at he
      split at he
      · cases he
      · rename_i s2 hb
        simp only [Except.ok.injEq, Option.some.injEq] at he
        subst he
        obtain ⟨h2, hne2⟩ := blockLoop_after _ _ _ h1 hb
        exact (h2.next hne2).of_core rfl
    · cases he

/-! ## Diagnostics of scan.c: `error(&s->loc, …)` names the line of the current character -/

/-- the line of a scanner diagnostic is the line (shifted by `δ`) of some byte at or behind `o`,
as `nextchar` counts it: the line of that byte, or the next line when the byte is a new-line -/
def ErrLine (text : List UInt8) (δ : Int) (o : Nat) (e : Err) : Prop :=
  ∃ o', o ≤ o' ∧ o' ≤ text.length ∧ (e.loc.line : Int) = (locAt text o').line + δ

theorem errLine_of_inv {o : Nat} {s : S} (h : Inv text δ s) (k : ErrKind) (ho : o ≤ off s) :
    ErrLine text δ o ⟨s.loc, k⟩ := ⟨off s, ho, h.off_le, h.loc.1⟩

theorem After.errLine {o : Nat} {s : S} (h : After text δ o s) (k : ErrKind) :
    ErrLine text δ o ⟨s.loc, k⟩ := errLine_of_inv h.inv k (Nat.le_of_lt h.lt)

theorem ErrLine.mono {o o' : Nat} {e : Err} (h : ErrLine text δ o e) (hle : o' ≤ o) :
    ErrLine text δ o' e := by
  obtain ⟨x, a, b, c⟩ := h
  exact ⟨x, Nat.le_trans hle a, b, c⟩

/-- reading EOF again moves the column, not the line -/
theorem nextchar_eof_line {s : S} (h : Inv text δ s) (hn : s.inp = []) :
    s.nextchar.loc.line = s.loc.line := by
  have ht : s.inp.tail = [] := by rw [hn]; rfl
  obtain ⟨_, _, _, _, a5⟩ := nextchar_nil s ht
  have hsk := (h.eof hn).2
  have htr : s.trail = 0 := by
    have := h.raw
    rw [ht, (h.eof hn).1] at this
    simp [group] at this
    exact this.symm
  rw [a5, hsk, htr]
  simp [advSplice]

theorem escape_err {o : Nat} {s : S} {e : Err} (h : After text δ o s) (hne : s.inp ≠ [])
    (he : escape s = .error e) : ErrLine text δ o e := by
  have h1 := h.next hne
  unfold escape at he
  simp only [] at he
  split at he
  · rename_i hx
    have h2 := h1.next (inp_ne_of_chr hx)
    split at he
    · simp only [Except.error.injEq] at he
      subst he
      exact h2.errLine _
    · cases he
  · split at he
    · split at he
      · split at he <;> cases he
      · cases he
    · split at he
      · cases he
      · simp only [Except.error.injEq] at he
        subst he
        exact h1.errLine _

theorem litLoop_err {o : Nat} (str : Bool) : ∀ (n : Nat) (s : S) (e : Err),
    After text δ o s → litLoop str n s = .error e → ErrLine text δ o e := by
  cases str
  all_goals
    intro n
    induction n with
    | zero =>
      intro s e h he
      simp only [litLoop, Except.error.injEq] at he
      subst he
      exact h.errLine _
    | succ n ih =>
      intro s e h he
      unfold litLoop at he
      simp only [Bool.false_eq_true, if_false, if_true] at he
      split at he
      · simp only [Except.error.injEq] at he
        subst he
        exact h.errLine _
      · rename_i c hc
        have hne := inp_ne_of_chr hc
        split at he
        · split at he
          · rename_i e1 hesc
            simp only [Except.error.injEq] at he
            subst he
            exact escape_err h hne hesc
          · rename_i s1 hesc
            exact ih _ _ (escape_after h hne hesc) he
        · split at he
          · cases he
          · split at he
            · simp only [Except.error.injEq] at he
              subst he
              exact h.errLine _
            · split at he
              · simp only [Except.error.injEq] at he
                subst he
                exact h.errLine _
              · exact ih _ _ (h.next hne) he

theorem charconst_err {o : Nat} {s : S} {e : Err}
    (h1 : After text δ o ({ s with usebuf := true } : S).nextchar)
    (he : charconst s = .error e) : ErrLine text δ o e := by
  unfold charconst at he
  exact litLoop_err false _ _ _ h1 he

theorem stringlit_err {o : Nat} {s : S} {e : Err}
    (h1 : After text δ o ({ s with usebuf := true } : S).nextchar)
    (he : stringlit s = .error e) : ErrLine text δ o e := by
  unfold stringlit at he
  exact litLoop_err true _ _ _ h1 he

theorem blockLoop_err {o : Nat} : ∀ (n : Nat) (s : S) (e : Err), After text δ o s →
    blockLoop n s = .error e → ErrLine text δ o e := by
  intro n
  induction n with
  | zero =>
    intro s e h he
    simp only [blockLoop, Except.error.injEq] at he
    subst he
    exact h.errLine _
  | succ n ih =>
    intro s e h he
    unfold blockLoop at he
    simp only [] at he
    split at he
    · simp only [Except.error.injEq] at he
      subst he
      by_cases hne : s.inp = []
      · refine ⟨off s, Nat.le_of_lt h.lt, h.inv.off_le, ?_⟩
        show ((s.nextchar.loc.line : Nat) : Int) = _
        rw [nextchar_eof_line h.inv hne]
        exact h.inv.loc.1
      · exact (h.next hne).errLine _
    · rename_i hc
      have hne : s.inp ≠ [] := chr_nextchar_ne hc
      split at he
      · exact ih _ _ (h.next hne) he
      · cases he

theorem comment_err {o : Nat} {s : S} {e : Err} (h : After text δ o s)
    (he : comment s = .error e) : ErrLine text δ o e := by
  unfold comment at he
  split at he
  · cases he
  · split at he
    · rename_i hc
      have h1 := h.next (inp_ne_of_chr hc)
      simp only [] at he
      split at he
      · rename_i e1 hb
        simp only [Except.error.injEq] at he
        subst he
        exact blockLoop_err _ _ _ h1 hb
      · cases he
    · cases he

/-! ## The `..x` push-back -/

/-- a correct state strictly behind offset `o`, possibly with a pending push-back -/
structure Later (text : List UInt8) (δ : Int) (o : Nat) (s' : S) : Prop where
  inv : Inv text δ s'
  lt : o < off s'

theorem After.later {o : Nat} {s : S} (h : After text δ o s) : Later text δ o s := ⟨h.inv, h.lt⟩

theorem Later.of_core {o : Nat} {s s' : S} (h : Later text δ o s)
    (hc : core s' = core s) : Later text δ o s' := by
  have hi := h.inv.of_core hc
  simp only [core, Prod.mk.injEq] at hc
  obtain ⟨h1, h2, h3, h4, h5⟩ := hc
  exact ⟨hi, by have := h.lt; simpa [off, h1, h4, h5] using this⟩

theorem advLine (l : Loc) (k : Nat) (x : UInt8) :
    (advChar (advSplice l k) x).line = l.line + k + (if x = c! '\n' then 1 else 0) := by
  unfold advChar advSplice
  split <;> split <;> simp_all

/-- the state the push-back of `..x` builds, described by its fields -/
theorem later_push {o : Nat} {s1 : S} (h1 : After text δ o s1) (hc1 : s1.chr = some (c! '.'))
    (p : S) (tl : List (Nat × UInt8)) (k : Nat)
    (e1 : p.inp = (0, c! '.') :: tl) (e2 : p.skipped = k) (e4 : p.loc = s1.loc)
    (hraw : group (text.drop p.pos) 0 = (tl, p.trail)) (hpos : p.pos = s1.pos + 2 * k)
    (hle : p.pos ≤ text.length)
    (hphys : physAt text (s1.pos + 2 * k) = advSplice (physAt text s1.pos) k) :
    Later text δ o p := by
  have hne := inp_ne_of_chr hc1
  have hsk := h1.sk
  have hcur := h1.inv.cur hne
  have hoff1 : off s1 = s1.pos - 1 := by simp [off, hne, hsk]
  have hah := h1.inv.ahead hne
  rw [hsk] at hah
  simp only [advSplice, if_true] at hah
  have hhead : text[off s1]? = some (c! '.') := by
    cases hi : s1.inp with
    | nil => exact absurd hi hne
    | cons e r =>
      obtain ⟨k, c⟩ := e
      have := h1.inv.head k c r hi
      have hc : c = c! '.' := by simpa [S.chr, hi] using hc1
      rw [← hc]; exact this
  have hpne : p.inp ≠ [] := by rw [e1]; simp
  have ho : off p = off s1 := by
    unfold off
    rw [if_neg hpne, if_neg hne, e2, hpos, hsk]; omega
  refine ⟨⟨?_, hle, ?_, ?_, ?_, ?_, ?_, ?_⟩, ?_⟩
  · rw [e1]; exact hraw
  · intro hn; exact absurd hn hpne
  · intro _; rw [e2, hpos]; omega
  · intro k' c' r' hr
    rw [ho]
    rw [e1] at hr
    simp only [List.cons.injEq, Prod.mk.injEq] at hr
    rw [← hr.1.2]; exact hhead
  · rw [ho, e4]; exact h1.inv.loc
  · intro _
    rw [e4, e2, hpos, hphys]
    exact hah.advSplice _
  · intro _; simp [S.chr, e1]
  · rw [ho]; exact h1.lt

/-- `s1` stands on the second `.`; the third character is read and pushed back -/
theorem pushbackDot_later {o : Nat} {s1 : S} (h1 : After text δ o s1)
    (hc1 : s1.chr = some (c! '.')) :
    Later text δ o (pushbackDot s1.nextchar s1.loc) := by
  have hne := inp_ne_of_chr hc1
  have hsk := h1.sk
  have hcur := h1.inv.cur hne
  cases ht : s1.inp.tail with
  | nil =>
    obtain ⟨a1, a2, a3, a4, a5⟩ := nextchar_nil s1 ht
    obtain ⟨hlen, hphys⟩ := h1.inv.raw_nil ht
    have hline : s1.nextchar.loc.line - s1.loc.line = s1.trail := by
      rw [a5, hsk]
      simp only [advSplice, if_true]
      split <;> simp_all
    unfold pushbackDot
    rw [a1]
    simp only []
    refine later_push h1 hc1 _ [] s1.trail rfl hline rfl ?_ ?_ ?_ ?_
    · show group (text.drop s1.nextchar.pos) 0 = ([], s1.nextchar.trail)
      rw [a4, hlen, a2]; simp [group]
    · exact a4
    · show s1.nextchar.pos ≤ text.length
      rw [a4, hlen]; exact Nat.le_refl _
    · rw [hlen]; exact hphys
  | cons e r =>
    obtain ⟨k, x⟩ := e
    obtain ⟨a1, a2, a3, a4, a5⟩ := nextchar_cons s1 k x r ht
    obtain ⟨d1, d3, hg, hg2, hphys⟩ := h1.inv.raw_cons ht
    have hline : s1.nextchar.loc.line - s1.loc.line - (if x = c! '\n' then 1 else 0) = k := by
      rw [a5, hsk, show advSplice s1.loc 0 = s1.loc by simp [advSplice], advLine]
      split <;> omega
    have hpos : s1.nextchar.pos - 1 = s1.pos + 2 * k := by rw [a4]; omega
    unfold pushbackDot
    rw [a1]
    simp only []
    refine later_push h1 hc1 _ ((0, x) :: r) k rfl hline rfl ?_ hpos ?_ hphys
    · show group (text.drop (s1.nextchar.pos - 1)) 0 = ((0, x) :: r, s1.nextchar.trail)
      rw [hpos, a2]; exact hg2
    · show s1.nextchar.pos - 1 ≤ text.length
      rw [hpos]; omega

end CprocVerif.PPLine

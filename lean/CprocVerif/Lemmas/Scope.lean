import CprocVerif.Model.Scope
import CprocVerif.Lemmas.Map
/-!
# Lemmas about the scope chain model (scope.c)

* lazily initialised maps (`len = 0` = not initialised) behave like dictionaries;
* a specification of scope operations on chains of association lists (`AScope`, `aStep`,
  `aGetDecl`, `aGetTag`) and the simulation relation `CRel` with the model;
* block bodies (`bodyDepth`) leave the enclosing chain untouched.
-/
namespace CprocVerif.Scope
open CprocVerif.Map

/-! ## Lazily initialised maps -/

/-- A map of a scope: not yet initialised (`len = 0`), or a table satisfying the map invariant. -/
def LazyWf (m : Map) : Prop := m.len = 0 ∨ Inv m

theorem init32_inv : Inv (Map.init 32) := init_inv' (e := 5) (by decide) (by decide)

theorem lazy_base_inv {m : Map} (h : LazyWf m) : Inv (if m.len = 0 then Map.init 32 else m) := by
  by_cases h0 : m.len = 0
  · rw [if_pos h0]; exact init32_inv
  · rw [if_neg h0]; rcases h with h | h
    · exact (h0 h).elim
    · exact h

theorem lazy_put_wf {m : Map} (h : LazyWf m) (k : Key) (v : Nat) :
    LazyWf (Map.put (if m.len = 0 then Map.init 32 else m) k v) :=
  Or.inr (put_spec (lazy_base_inv h) k v).1

theorem lazy_put_len {m : Map} (h : LazyWf m) (k : Key) (v : Nat) :
    (Map.put (if m.len = 0 then Map.init 32 else m) k v).len ≠ 0 := by
  have := put_len_pos (lazy_base_inv h) k v
  omega

theorem lazy_get_put_same {m : Map} (h : LazyWf m) (k : Key) (v : Nat) :
    Map.get (Map.put (if m.len = 0 then Map.init 32 else m) k v) k = v := by
  obtain ⟨h1, h2, _, _⟩ := put_spec (lazy_base_inv h) k v
  exact get_of_upd_same h1 h2

theorem lazy_get_put_other {m : Map} (h : LazyWf m) (k : Key) (v : Nat) {k' : Key} (hne : k' ≠ k) :
    Map.get (Map.put (if m.len = 0 then Map.init 32 else m) k v) k' =
      if m.len = 0 then 0 else Map.get m k' := by
  obtain ⟨h1, h2, _, _⟩ := put_spec (lazy_base_inv h) k v
  rw [get_of_upd_other (lazy_base_inv h) h1 hne h2]
  by_cases h0 : m.len = 0
  · rw [if_pos h0, if_pos h0]
    exact get_of_absent init32_inv (fun w => init_empty 32 k' w)
  · rw [if_neg h0, if_neg h0]

/-! ## One scope -/

structure ScopeWf (s : Scope) : Prop where
  decls : LazyWf s.decls
  tags : LazyWf s.tags

/-- Every scope of the chain is well formed. -/
def ChainWf (c : Chain) : Prop := ∀ s, s ∈ c → ScopeWf s

theorem fresh_wf : ScopeWf Scope.fresh := ⟨Or.inl rfl, Or.inl rfl⟩

theorem fresh_declOf (k : Key) : Scope.fresh.declOf k = 0 := rfl
theorem fresh_tagOf (k : Key) : Scope.fresh.tagOf k = 0 := rfl

theorem putDecl_wf {s : Scope} (h : ScopeWf s) (k v) : ScopeWf (s.putDecl k v) :=
  ⟨lazy_put_wf h.decls k v, h.tags⟩

theorem putTag_wf {s : Scope} (h : ScopeWf s) (k v) : ScopeWf (s.putTag k v) :=
  ⟨h.decls, lazy_put_wf h.tags k v⟩

theorem declOf_putDecl {s : Scope} (h : ScopeWf s) (k : Key) (v : Nat) (k' : Key) :
    (s.putDecl k v).declOf k' = if k' = k then v else s.declOf k' := by
  unfold Scope.declOf Scope.putDecl
  simp only []
  rw [if_neg (lazy_put_len h.decls k v)]
  by_cases hk : k' = k
  · rw [if_pos hk, hk]; exact lazy_get_put_same h.decls k v
  · rw [if_neg hk]; exact lazy_get_put_other h.decls k v hk

theorem tagOf_putTag {s : Scope} (h : ScopeWf s) (k : Key) (v : Nat) (k' : Key) :
    (s.putTag k v).tagOf k' = if k' = k then v else s.tagOf k' := by
  unfold Scope.tagOf Scope.putTag
  simp only []
  rw [if_neg (lazy_put_len h.tags k v)]
  by_cases hk : k' = k
  · rw [if_pos hk, hk]; exact lazy_get_put_same h.tags k v
  · rw [if_neg hk]; exact lazy_get_put_other h.tags k v hk

theorem tagOf_putDecl (s : Scope) (k : Key) (v : Nat) (k' : Key) :
    (s.putDecl k v).tagOf k' = s.tagOf k' := rfl

theorem declOf_putTag (s : Scope) (k : Key) (v : Nat) (k' : Key) :
    (s.putTag k v).declOf k' = s.declOf k' := rfl

/-! ## Chains -/

theorem fileChain_wf : ChainWf fileChain := by
  intro s hs
  simp only [fileChain, List.mem_singleton] at hs
  subst hs; exact fresh_wf

theorem mkscope_wf {c : Chain} (h : ChainWf c) : ChainWf (mkscope c) := by
  intro s hs
  rcases List.mem_cons.mp hs with rfl | hs
  · exact fresh_wf
  · exact h s hs

theorem delscope_wf {c : Chain} (h : ChainWf c) : ChainWf (delscope c) := by
  cases c with
  | nil => exact h
  | cons s p => intro x hx; exact h x (List.mem_cons_of_mem _ hx)

theorem putDecl_chain_wf {c : Chain} (h : ChainWf c) (k v) : ChainWf (putDecl c k v) := by
  cases c with
  | nil => exact h
  | cons s p =>
    intro x hx
    rcases List.mem_cons.mp hx with rfl | hx
    · exact putDecl_wf (h s (List.mem_cons_self ..)) k v
    · exact h x (List.mem_cons_of_mem _ hx)

theorem putTag_chain_wf {c : Chain} (h : ChainWf c) (k v) : ChainWf (putTag c k v) := by
  cases c with
  | nil => exact h
  | cons s p =>
    intro x hx
    rcases List.mem_cons.mp hx with rfl | hx
    · exact putTag_wf (h s (List.mem_cons_self ..)) k v
    · exact h x (List.mem_cons_of_mem _ hx)

/-- The loop of `scopegetdecl` only looks at `declOf` of the scopes. -/
theorem getDecl_cons (s : Scope) (p : Chain) (k : Key) (r : Bool) :
    getDecl (s :: p) k r =
      if s.declOf k = 0 ∧ p ≠ [] ∧ r = true then getDecl p k r else s.declOf k := by
  rw [getDecl]
  cases p <;> cases r <;> by_cases h : s.declOf k = 0 <;> simp [h]

theorem getTag_cons (s : Scope) (p : Chain) (k : Key) (r : Bool) :
    getTag (s :: p) k r =
      if s.tagOf k = 0 ∧ p ≠ [] ∧ r = true then getTag p k r else s.tagOf k := by
  rw [getTag]
  cases p <;> cases r <;> by_cases h : s.tagOf k = 0 <;> simp [h]

theorem getDecl_innermost (c : Chain) (k : Key) :
    getDecl c k true = ((c.map (·.declOf k)).find? (fun d => d != 0)).getD 0 := by
  induction c with
  | nil => rfl
  | cons s p ih =>
    rw [getDecl_cons, List.map_cons, List.find?_cons]
    by_cases hd : s.declOf k = 0
    · have : (s.declOf k != 0) = false := by simp [hd]
      rw [this]
      simp only []
      cases p with
      | nil => simp [hd]
      | cons s' p' => rw [if_pos ⟨hd, by simp, trivial⟩]; exact ih
    · have : (s.declOf k != 0) = true := by simp [hd]
      rw [this]
      simp only [hd, false_and, if_false, Option.getD_some]

theorem getTag_innermost (c : Chain) (k : Key) :
    getTag c k true = ((c.map (·.tagOf k)).find? (fun d => d != 0)).getD 0 := by
  induction c with
  | nil => rfl
  | cons s p ih =>
    rw [getTag_cons, List.map_cons, List.find?_cons]
    by_cases hd : s.tagOf k = 0
    · have : (s.tagOf k != 0) = false := by simp [hd]
      rw [this]
      simp only []
      cases p with
      | nil => simp [hd]
      | cons s' p' => rw [if_pos ⟨hd, by simp, trivial⟩]; exact ih
    · have : (s.tagOf k != 0) = true := by simp [hd]
      rw [this]
      simp only [hd, false_and, if_false, Option.getD_some]

/-! ## Specification: chains of association lists -/

/-- Scope operations. -/
inductive Op where
  | mk
  | del
  | decl (k : Key) (v : Nat)
  | tag (k : Key) (v : Nat)
deriving Repr

/-- One operation on the model. -/
def step : Chain → Op → Chain
  | c, .mk => mkscope c
  | c, .del => delscope c
  | c, .decl k v => putDecl c k v
  | c, .tag k v => putTag c k v

/-- Specification scope: the histories of declarations and tags made in it. -/
structure AScope where
  decls : List (Key × Nat)
  tags : List (Key × Nat)

def aStep : List AScope → Op → List AScope
  | c, .mk => ⟨[], []⟩ :: c
  | [], .del => []
  | _ :: p, .del => p
  | [], .decl _ _ => []
  | s :: p, .decl k v => ⟨s.decls ++ [(k, v)], s.tags⟩ :: p
  | [], .tag _ _ => []
  | s :: p, .tag k v => ⟨s.decls, s.tags ++ [(k, v)]⟩ :: p

/-- Specification lookup: the last declaration of `k` in the innermost scope that has a non-NULL one. -/
def aGetDecl : List AScope → Key → Bool → Nat
  | [], _, _ => 0
  | s :: p, k, r => if dict s.decls k ≠ 0 then dict s.decls k else if r then aGetDecl p k r else 0

def aGetTag : List AScope → Key → Bool → Nat
  | [], _, _ => 0
  | s :: p, k, r => if dict s.tags k ≠ 0 then dict s.tags k else if r then aGetTag p k r else 0

def SRel (s : Scope) (a : AScope) : Prop :=
  ScopeWf s ∧ (∀ k, s.declOf k = dict a.decls k) ∧ (∀ k, s.tagOf k = dict a.tags k)

def CRel : Chain → List AScope → Prop
  | [], [] => True
  | s :: c, a :: ac => SRel s a ∧ CRel c ac
  | _, _ => False

theorem SRel_fresh : SRel Scope.fresh ⟨[], []⟩ :=
  ⟨fresh_wf, fun _ => rfl, fun _ => rfl⟩

theorem CRel_step {c : Chain} {ac : List AScope} (h : CRel c ac) (o : Op) :
    CRel (step c o) (aStep ac o) := by
  cases o with
  | mk => exact ⟨SRel_fresh, h⟩
  | del =>
    cases c <;> cases ac
    · exact h
    · exact h.elim
    · exact h.elim
    · exact h.2
  | decl k v =>
    cases c <;> cases ac
    · exact h
    · exact h.elim
    · exact h.elim
    · obtain ⟨⟨hw, hd, ht⟩, hr⟩ := h
      refine ⟨⟨putDecl_wf hw k v, ?_, ?_⟩, hr⟩
      · intro k'
        rw [declOf_putDecl hw, dict_snoc, hd]
        by_cases hk : k' = k
        · rw [if_pos hk, if_pos hk.symm]
        · rw [if_neg hk, if_neg (fun h => hk h.symm)]
      · intro k'; rw [tagOf_putDecl]; exact ht k'
  | tag k v =>
    cases c <;> cases ac
    · exact h
    · exact h.elim
    · exact h.elim
    · obtain ⟨⟨hw, hd, ht⟩, hr⟩ := h
      refine ⟨⟨putTag_wf hw k v, ?_, ?_⟩, hr⟩
      · intro k'; rw [declOf_putTag]; exact hd k'
      · intro k'
        rw [tagOf_putTag hw, dict_snoc, ht]
        by_cases hk : k' = k
        · rw [if_pos hk, if_pos hk.symm]
        · rw [if_neg hk, if_neg (fun h => hk h.symm)]

theorem CRel_run (ops : List Op) : ∀ {c : Chain} {ac : List AScope}, CRel c ac →
    CRel (ops.foldl step c) (ops.foldl aStep ac) := by
  induction ops with
  | nil => intro c ac h; exact h
  | cons o ops ih => intro c ac h; exact ih (CRel_step h o)

theorem CRel_file : CRel fileChain [⟨[], []⟩] := ⟨SRel_fresh, trivial⟩

theorem getDecl_of_CRel (k : Key) (r : Bool) : ∀ {c : Chain} {ac : List AScope}, CRel c ac →
    getDecl c k r = aGetDecl ac k r := by
  intro c
  induction c with
  | nil => intro ac h; cases ac; rfl; exact h.elim
  | cons s p ih =>
    intro ac h
    cases ac with
    | nil => exact h.elim
    | cons a ap =>
      obtain ⟨⟨_, hd, _⟩, hr⟩ := h
      rw [getDecl_cons, aGetDecl, hd k]
      by_cases h0 : dict a.decls k = 0
      · cases r with
        | false => simp [h0]
        | true =>
          cases p with
          | nil =>
            cases ap with
            | nil => simp [h0, aGetDecl]
            | cons _ _ => exact hr.elim
          | cons s' p' => simp [h0, ih hr]
      · simp [h0]

theorem getTag_of_CRel (k : Key) (r : Bool) : ∀ {c : Chain} {ac : List AScope}, CRel c ac →
    getTag c k r = aGetTag ac k r := by
  intro c
  induction c with
  | nil => intro ac h; cases ac; rfl; exact h.elim
  | cons s p ih =>
    intro ac h
    cases ac with
    | nil => exact h.elim
    | cons a ap =>
      obtain ⟨⟨_, _, ht⟩, hr⟩ := h
      rw [getTag_cons, aGetTag, ht k]
      by_cases h0 : dict a.tags k = 0
      · cases r with
        | false => simp [h0]
        | true =>
          cases p with
          | nil =>
            cases ap with
            | nil => simp [h0, aGetTag]
            | cons _ _ => exact hr.elim
          | cons s' p' => simp [h0, ih hr]
      · simp [h0]

theorem step_wf {c : Chain} (h : ChainWf c) (o : Op) : ChainWf (step c o) := by
  cases o with
  | mk => exact mkscope_wf h
  | del => exact delscope_wf h
  | decl k v => exact putDecl_chain_wf h k v
  | tag k v => exact putTag_chain_wf h k v

theorem run_wf (ops : List Op) : ∀ {c : Chain}, ChainWf c → ChainWf (ops.foldl step c) := by
  induction ops with
  | nil => intro c h; exact h
  | cons o ops ih => intro c h; exact ih (step_wf h o)

/-! ## Block bodies -/

/-- Nesting depth after a block body that starts at depth `d` (number of scopes opened since the
    enclosing chain); `none` if the body closes a scope it did not open, or declares at depth 0. -/
def bodyDepth : List Op → Nat → Option Nat
  | [], d => some d
  | .mk :: r, d => bodyDepth r (d + 1)
  | .del :: r, d => if d ≤ 1 then none else bodyDepth r (d - 1)
  | .decl _ _ :: r, d => if d = 0 then none else bodyDepth r d
  | .tag _ _ :: r, d => if d = 0 then none else bodyDepth r d

theorem body_preserves (c : Chain) : ∀ (body : List Op) (d d' : Nat) (inner : Chain),
    inner.length = d → 1 ≤ d → bodyDepth body d = some d' →
    ∃ inner', inner'.length = d' ∧ 1 ≤ d' ∧ body.foldl step (inner ++ c) = inner' ++ c := by
  intro body
  induction body with
  | nil =>
    intro d d' inner hl hd hb
    simp only [bodyDepth, Option.some.injEq] at hb
    exact ⟨inner, by omega, by omega, rfl⟩
  | cons o body ih =>
    intro d d' inner hl hd hb
    cases inner with
    | nil => simp at hl; omega
    | cons s inner =>
      simp only [List.length_cons] at hl
      cases o with
      | mk =>
        simp only [bodyDepth] at hb
        exact ih (d + 1) d' (Scope.fresh :: s :: inner) (by simp; omega) (by omega) hb
      | del =>
        simp only [bodyDepth] at hb
        by_cases h1 : d ≤ 1
        · simp [h1] at hb
        · simp only [h1, if_false] at hb
          exact ih (d - 1) d' inner (by omega) (by omega) hb
      | decl k v =>
        simp only [bodyDepth] at hb
        have h1 : d ≠ 0 := by omega
        simp only [h1, if_false] at hb
        exact ih d d' (s.putDecl k v :: inner) (by simp; omega) hd hb
      | tag k v =>
        simp only [bodyDepth] at hb
        have h1 : d ≠ 0 := by omega
        simp only [h1, if_false] at hb
        exact ih d d' (s.putTag k v :: inner) (by simp; omega) hd hb

theorem block_restores (c : Chain) (body : List Op) (h : bodyDepth body 1 = some 1) :
    delscope (body.foldl step (mkscope c)) = c := by
  obtain ⟨inner', hl, _, he⟩ := body_preserves c body 1 1 [Scope.fresh] rfl (by omega) h
  have : mkscope c = [Scope.fresh] ++ c := rfl
  rw [this, he]
  cases inner' with
  | nil => simp at hl
  | cons s r =>
    cases r with
    | nil => rfl
    | cons _ _ => simp at hl

end CprocVerif.Scope

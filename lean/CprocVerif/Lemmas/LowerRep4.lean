/-
  C01 — the binary operators and unary minus at the level of C types (`Rep`), combining the
  `w` and `l` lemmas.
-/
import CprocVerif.Lemmas.LowerRep3

set_option linter.unusedSimpArgs false

namespace CprocVerif.LowerArith
open CprocVerif.Qbe CprocVerif.CSem CprocVerif.CInt CprocVerif.Lower

theorem count_rep (cs : Bool) {t : CSem.Ty} (ht : t.promoted = true) {b : Int} {rb : RVal}
    (h : Rep t b rb) : CountRep b rb := by
  rcases promoted_cases cs ht with ⟨hs, _⟩ | ⟨hs, _⟩
  · simp only [Rep, hs, Nat.reduceEqDiff, if_false, Nat.reduceMul] at h
    obtain ⟨y, hy, hyb⟩ := h
    have := asW_lt hy
    exact ⟨y, hy, fun h0 h1 => by omega⟩
  · simp only [Rep, hs, if_true] at h
    obtain ⟨y, hy, hyb⟩ := h
    refine ⟨_, asW_of_asL hy, fun h0 h1 => ?_⟩
    rw [toNat_and_mask32]
    omega

theorem rep_w {t : CSem.Ty} (hs : t.size = 4) {v : Int} {r : RVal} : Rep t v r ↔ WRep 32 v r := by
  simp only [Rep, hs, Nat.reduceEqDiff, if_false, Nat.reduceMul]

theorem rep_l {t : CSem.Ty} (hs : t.size = 8) {v : Int} {r : RVal} : Rep t v r ↔ LRep v r := by
  simp only [Rep, hs, if_true]

theorem cls_w {t : CSem.Ty} (hs : t.size = 4) : cls t = .w := by simp [cls, hs]
theorem cls_l {t : CSem.Ty} (hs : t.size = 8) : cls t = .l := by simp [cls, hs]

theorem int_size : Ty.size .int = 4 := rfl

/-- The typing condition `Expr.wt` imposes on a non-logical binary node of type `t` with operand
    types `tl`, `tr`. -/
def BinTyped (op : BinOp) (t tl tr : CSem.Ty) : Prop :=
  if op.isShift then tl = t ∧ t.promoted = true ∧ tr.promoted = true
  else if op.isCmp then tl = tr ∧ tl.promoted = true ∧ t = .int
  else tl = t ∧ tr = t ∧ t.promoted = true

theorem binop_exec (cs : Bool) (op : BinOp) (hop : isLogic op = false) {t tl tr : CSem.Ty}
    (hty : BinTyped op t tl tr) {a b v : Int} {ra rb : RVal} (M : Mem) (va : Option ByteArray)
    (ha : InRange (tl.intTy cs) a) (hb : InRange (tr.intTy cs) b)
    (hra : Rep tl a ra) (hrb : Rep tr b rb) (hv : bin op (tl.intTy cs) a b = some v) :
    ∃ r, execOp (binOpOf cs op tl) (some (cls t)) [ra, rb] M va = .ok (r, M) ∧ Rep t v r := by
  unfold BinTyped at hty
  unfold binOpOf
  by_cases hsh : op.isShift = true
  · -- shifts
    simp only [hsh, if_true] at hty
    obtain ⟨rfl, ht, htr⟩ := hty
    have hc := count_rep cs htr hrb
    have hop' : op = .shl ∨ op = .shr := by cases op <;> simp [BinOp.isShift] at hsh <;> simp
    rcases promoted_cases cs ht with ⟨hs, hi⟩ | ⟨hs, hi⟩
    · rw [hi] at ha hv
      rw [rep_w hs] at hra
      have hd : decide (tl.size ≤ 4) = true := by simp [hs]
      rw [hd, cls_w hs]
      obtain ⟨r, h1, h2⟩ := shift_w (tl.signed cs) op hop' M va ha hra hc hv
      exact ⟨r, h1, (rep_w hs).2 h2⟩
    · rw [hi] at ha hv
      rw [rep_l hs] at hra
      have hd : decide (tl.size ≤ 4) = false := by simp [hs]
      rw [hd, cls_l hs]
      obtain ⟨r, h1, h2⟩ := shift_l (tl.signed cs) op hop' M va ha hra hc hv
      exact ⟨r, h1, (rep_l hs).2 h2⟩
  · simp only [hsh, Bool.false_eq_true, if_false] at hty
    by_cases hcm : op.isCmp = true
    · -- comparisons
      simp only [hcm, if_true] at hty
      obtain ⟨rfl, ht, rfl⟩ := hty
      have hop' : IsCmpOp op := by
        cases op <;> simp [BinOp.isCmp, isLogic] at hcm hop <;> simp [IsCmpOp]
      have hcw : cls .int = .w := rfl
      rw [hcw]
      rcases promoted_cases cs ht with ⟨hs, hi⟩ | ⟨hs, hi⟩
      · rw [hi] at ha hb hv
        rw [rep_w hs] at hra hrb
        have hd : decide (tl.size ≤ 4) = true := by simp [hs]
        rw [hd]
        obtain ⟨r, c, h1, h2, h3⟩ := cmp_w (tl.signed cs) op hop' M va ha hb hra hrb hv
        exact ⟨r, h1, (rep_w int_size).2 (h3 ▸ h2.wrep)⟩
      · rw [hi] at ha hb hv
        rw [rep_l hs] at hra hrb
        have hd : decide (tl.size ≤ 4) = false := by simp [hs]
        rw [hd]
        obtain ⟨r, c, h1, h2, h3⟩ := cmp_l (tl.signed cs) op hop' M va ha hb hra hrb hv
        exact ⟨r, h1, (rep_w int_size).2 (h3 ▸ h2.wrep)⟩
    · -- arithmetic
      simp only [hcm, Bool.false_eq_true, if_false] at hty
      obtain ⟨rfl, rfl, ht⟩ := hty
      have hop' : op.isCmp = false ∧ op.isShift = false := by
        constructor
        · simpa using hcm
        · simpa using hsh
      rcases promoted_cases cs ht with ⟨hs, hi⟩ | ⟨hs, hi⟩
      · rw [hi] at ha hb hv
        rw [rep_w hs] at hra hrb
        have hd : decide (tr.size ≤ 4) = true := by simp [hs]
        rw [hd, cls_w hs]
        obtain ⟨r, h1, h2⟩ := bin_w (tr.signed cs) op hop' M va ha hb hra hrb hv
        exact ⟨r, h1, (rep_w hs).2 h2⟩
      · rw [hi] at ha hb hv
        rw [rep_l hs] at hra hrb
        have hd : decide (tr.size ≤ 4) = false := by simp [hs]
        rw [hd, cls_l hs]
        obtain ⟨r, h1, h2⟩ := bin_l (tr.signed cs) op hop' M va ha hb hra hrb hv
        exact ⟨r, h1, (rep_l hs).2 h2⟩

theorem neg_exec (cs : Bool) {t : CSem.Ty} (ht : t.promoted = true) {a v : Int} {ra : RVal} (M : Mem)
    (va : Option ByteArray) (hra : Rep t a ra) (hv : un .neg (t.intTy cs) a = some v) :
    ∃ r, execOp .neg (some (cls t)) [ra] M va = .ok (r, M) ∧ Rep t v r := by
  rcases promoted_cases cs ht with ⟨hs, hi⟩ | ⟨hs, hi⟩
  · rw [hi] at hv
    rw [rep_w hs] at hra
    rw [cls_w hs]
    obtain ⟨r, h1, h2⟩ := neg_w (t.signed cs) M va hra hv
    exact ⟨r, h1, (rep_w hs).2 h2⟩
  · rw [hi] at hv
    rw [rep_l hs] at hra
    rw [cls_l hs]
    obtain ⟨r, h1, h2⟩ := neg_l (t.signed cs) M va hra hv
    exact ⟨r, h1, (rep_l hs).2 h2⟩

/-- a value passes unchanged through `coerce` at its class (phi, `ret`) -/
theorem rep_coerce {t : CSem.Ty} {v : Int} {r : RVal} (h : Rep t v r) :
    ∃ r', r.coerce (cls t) = .ok r' ∧ Rep t v r' := by
  by_cases hs : t.size = 8
  · rw [rep_l hs] at h
    obtain ⟨x, hx, hxv⟩ := h
    refine ⟨⟨.l, x⟩, by simp [RVal.coerce, cls, hs, RVal.asK, hx, Cls.kind], (rep_l hs).2 ⟨x, rfl, hxv⟩⟩
  · simp only [Rep, hs, if_false] at h
    obtain ⟨x, hx, hxv⟩ := h
    have hl := asW_lt hx
    refine ⟨⟨.w, x⟩, by simp [RVal.coerce, cls, hs, RVal.asK, hx, Cls.kind], ?_⟩
    simp only [Rep, hs, if_false]
    refine ⟨_, rfl, ?_⟩
    rw [toNat_and_mask32, Nat.mod_eq_of_lt hl]
    exact hxv

end CprocVerif.LowerArith

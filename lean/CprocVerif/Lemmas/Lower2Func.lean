/-
  C01, fragment 𝔽₂ — one activation of a function, given the simulation of the statements of its body: the
  spills of the parameters and the `alloc`s of the locals in the start block, then the body, then `ret`
  (into the caller's frame, or ending the run).  The activation may be nested: it starts from the memory
  `M0` of the caller and gives it back.
-/
import CprocVerif.Lemmas.Lower2Leaf

set_option linter.unusedSimpArgs false

namespace CprocVerif.LowerMach2
open CprocVerif.Qbe CprocVerif.Lower CprocVerif.Lower2 CprocVerif.CSem CprocVerif.CSem2 CprocVerif.CInt
open CprocVerif.LowerArith CprocVerif.LowerMach CprocVerif.LowerMem

/-! ## Declared types are the variable types -/

theorem wt_declTys (vtys : List CSem.Ty) (ret : CSem.Ty) (cnts : List Nat) (st : Stmt) :
    ∀ (lb lc : Bool) (nd nd' : Nat),
    Stmt.wt vtys ret lb lc nd st = some nd' → arrsOK cnts st = true → declsOK cnts st = true →
    ∀ (k : Nat) (t : CSem.Ty) (n : Nat), (declTys st)[k]? = some (t, n) →
      vtys[nd + k]? = some t ∧ cnts[nd + k]? = some n ∧ 1 ≤ n := by
  induction st with
  | decl i t init =>
    intro lb lc nd nd' h _ hd k t' n hk
    simp only [Stmt.wt] at h
    simp only [declsOK, decide_eq_true_eq] at hd
    split at h
    · rename_i hw
      simp only [declTys] at hk
      cases k with
      | zero =>
        simp only [List.getElem?_cons_zero, Option.some.injEq, Prod.mk.injEq] at hk
        obtain ⟨rfl, rfl⟩ := hk
        rw [Nat.add_zero, ← hw.1]; exact ⟨hw.2.1, hd, Nat.le_refl _⟩
      | succ k => simp at hk
    · cases h
  | adecl i t n xb =>
    intro lb lc nd nd' h ha _ k t' n' hk
    simp only [Stmt.wt] at h
    simp only [arrsOK, Bool.and_eq_true, decide_eq_true_eq] at ha
    split at h
    · rename_i hw
      simp only [declTys] at hk
      cases k with
      | zero =>
        simp only [List.getElem?_cons_zero, Option.some.injEq, Prod.mk.injEq] at hk
        obtain ⟨rfl, rfl⟩ := hk
        rw [Nat.add_zero, ← hw.1]; exact ⟨hw.2, ha.1.2, ha.1.1⟩
      | succ k => simp at hk
    · cases h
  | seq a b iha ihb =>
    intro lb lc nd nd' h ha hd k t n hk
    simp only [Stmt.wt] at h
    simp only [arrsOK, declsOK, Bool.and_eq_true] at ha hd
    split at h
    · cases h
    · simp only [Option.bind_eq_some_iff] at h
      obtain ⟨n1, h1, h2⟩ := h
      have hc := (wt_noDead _ _ a _ _ _ _ h1).2
      simp only [declTys] at hk
      by_cases hka : k < (declTys a).length
      · rw [List.getElem?_append_left hka] at hk
        exact iha lb lc nd n1 h1 ha.1 hd.1 k t n hk
      · rw [List.getElem?_append_right (by omega)] at hk
        have := ihb lb lc n1 nd' h2 ha.2 hd.2 _ t n hk
        rw [hc] at this
        have e : nd + (declTys a).length + (k - (declTys a).length) = nd + k := by omega
        rw [e] at this; exact this
  | ite e a iha =>
    intro lb lc nd nd' h ha hd k t n hk
    simp only [Stmt.wt] at h
    simp only [arrsOK, declsOK, Bool.and_eq_true] at ha hd
    split at h
    · exact iha lb lc nd nd' h ha.2 hd k t n hk
    · cases h
  | itee e a b iha ihb =>
    intro lb lc nd nd' h ha hd k t n hk
    simp only [Stmt.wt] at h
    simp only [arrsOK, declsOK, Bool.and_eq_true] at ha hd
    split at h
    · simp only [Option.bind_eq_some_iff] at h
      obtain ⟨n1, h1, h2⟩ := h
      have hc := (wt_noDead _ _ a _ _ _ _ h1).2
      simp only [declTys] at hk
      by_cases hka : k < (declTys a).length
      · rw [List.getElem?_append_left hka] at hk
        exact iha lb lc nd n1 h1 ha.1.2 hd.1 k t n hk
      · rw [List.getElem?_append_right (by omega)] at hk
        have := ihb lb lc n1 nd' h2 ha.2 hd.2 _ t n hk
        rw [hc] at this
        have e : nd + (declTys a).length + (k - (declTys a).length) = nd + k := by omega
        rw [e] at this; exact this
    · cases h
  | while_ e b ihb =>
    intro lb lc nd nd' h ha hd k t n hk
    simp only [Stmt.wt] at h
    simp only [arrsOK, declsOK, Bool.and_eq_true] at ha hd
    split at h
    · exact ihb true true nd nd' h ha.2 hd k t n hk
    · cases h
  | dowhile b e ihb =>
    intro lb lc nd nd' h ha hd k t n hk
    simp only [Stmt.wt] at h
    simp only [arrsOK, declsOK, Bool.and_eq_true] at ha hd
    split at h
    · simp only [Option.bind_eq_some_iff] at h
      obtain ⟨n1, h1, h2⟩ := h
      exact ihb true true nd n1 h1 ha.2 hd k t n hk
    · cases h
  | for_ e step b ihs ihb =>
    intro lb lc nd nd' h ha hd k t n hk
    simp only [Stmt.wt] at h
    have ha : arrsOK cnts step = true ∧ arrsOK cnts b = true := by
      cases e <;> simp only [arrsOK, Bool.and_eq_true] at ha
      · exact ha
      · exact ⟨ha.1.2, ha.2⟩
    simp only [declsOK, Bool.and_eq_true] at hd
    split at h
    · rename_i hc
      simp only [Option.bind_eq_some_iff, Option.some.injEq] at h
      obtain ⟨n1, h1, n2, h2, rfl⟩ := h
      have hsd : declTys step = [] := by
        cases step <;> simp [Stmt.isSimple] at hc <;> rfl
      simp only [declTys, hsd, List.append_nil] at hk
      exact ihb true true nd n1 h1 ha.2 hd.2 k t n hk
    · cases h
  | skip => intro lb lc nd nd' h _ _ k t n hk; simp [declTys] at hk
  | assign i t e => intro lb lc nd nd' h _ _ k t n hk; simp [declTys] at hk
  | incdec i t inc => intro lb lc nd nd' h _ _ k t n hk; simp [declTys] at hk
  | expr e => intro lb lc nd nd' h _ _ k t n hk; simp [declTys] at hk
  | ret e => intro lb lc nd nd' h _ _ k t n hk; simp [declTys] at hk
  | break_ => intro lb lc nd nd' h _ _ k t n hk; simp [declTys] at hk
  | continue_ => intro lb lc nd nd' h _ _ k t n hk; simp [declTys] at hk
  | case_ u => intro lb lc nd nd' h _ _ k t n hk; simp [declTys] at hk
  | default_ => intro lb lc nd nd' h _ _ k t n hk; simp [declTys] at hk
  | call dst rt fn args => intro lb lc nd nd' h _ _ k t n hk; simp [declTys] at hk
  | callp dst rt fn pargs args => intro lb lc nd nd' h _ _ k t n hk; simp [declTys] at hk
  | pload d dt k' t w c0 x => intro lb lc nd nd' h _ _ k t n hk; simp [declTys] at hk
  | aload d dt a t n xb x => intro lb lc nd nd' h _ _ k t n hk; simp [declTys] at hk
  | astore a t n xb x v => intro lb lc nd nd' h _ _ k t n hk; simp [declTys] at hk
  | ainit a t n xb j v => intro lb lc nd nd' h _ _ k t n hk; simp [declTys] at hk
  | switch_ e b ihb =>
    intro lb lc nd nd' h ha hd k t n hk
    simp only [Stmt.wt] at h
    simp only [arrsOK, declsOK, Bool.and_eq_true] at ha hd
    split at h
    · exact ihb true lc nd nd' h ha.2 hd k t n hk
    · cases h

/-! ## Small facts about lists -/

theorem set_same {α : Type} {l : List α} {i : Nat} {x : α} (h : l[i]? = some x) : l.set i x = l := by
  apply List.ext_getElem?
  intro j
  rw [List.getElem?_set]
  split
  · rename_i hij
    subst hij
    rw [if_pos (lt_of_get h), h]
  · rfl

theorem paramSlots_getD {n k : Nat} (h : k < n) : (paramSlots n).getD k 0 = 2 * k + 2 := by
  simp [paramSlots, List.getD, h]

theorem paramSlots_length (n : Nat) : (paramSlots n).length = n := by simp [paramSlots]

theorem initStore_pre_len (f : CSem2.Func) {ρ : List Int} (hl : ρ.length = f.params.length)
    (hp : f.pwin.length ≤ f.params.length) :
    (List.replicate f.pwin.length (none : Option Int) ++ (ρ.drop f.pwin.length).map some ++
      List.replicate (f.locals.length + f.extra) none).length = f.vtys.length + f.extra := by
  simp only [List.length_append, List.length_replicate, List.length_map, List.length_drop,
    CSem2.Func.vtys]
  omega

theorem initStore_param (f : CSem2.Func) {ρ : List Int} (ws : List (Option Int)) {i : Nat} {v : Int}
    (h : ρ[i]? = some v) (hi : f.pwin.length ≤ i) : (initStore f ρ ws)[i]? = some (some v) := by
  have hlt := lt_of_get h
  rw [initStore, List.getElem?_append_left (by simp; omega), List.getElem?_append_left (by simp; omega),
    List.getElem?_append_right (by simpa using hi)]
  simp only [List.length_replicate, List.getElem?_map, List.getElem?_drop, Nat.add_sub_cancel' hi, h,
    Option.map_some]

/-- an array parameter has no integer value -/
theorem initStore_ptr (f : CSem2.Func) (ρ : List Int) (ws : List (Option Int)) {i : Nat}
    (hi : i < f.pwin.length) : (initStore f ρ ws)[i]? = some none := by
  rw [initStore, List.getElem?_append_left (by simp; omega), List.getElem?_append_left (by simp; omega),
    List.getElem?_append_left (by simpa using hi)]
  simp [hi]

/-- beyond the arguments no cell of the variables holds a value on entry -/
theorem initStore_none (f : CSem2.Func) {ρ : List Int} (ws : List (Option Int))
    (hl : ρ.length = f.params.length) (hp : f.pwin.length ≤ f.params.length) {i : Nat}
    (h1 : ρ.length ≤ i) (h2 : i < f.vtys.length + f.extra) (v : Int) :
    (initStore f ρ ws)[i]? ≠ some (some v) := by
  rw [initStore, List.getElem?_append_left (by rw [initStore_pre_len f hl hp]; exact h2),
    List.getElem?_append_right (by simp; omega)]
  rw [List.getElem?_replicate]
  split <;> simp

theorem initStore_some (f : CSem2.Func) {ρ : List Int} (ws : List (Option Int))
    (hl : ρ.length = f.params.length) (hp : f.pwin.length ≤ f.params.length) {i : Nat} {v : Int}
    (hi : i < f.vtys.length + f.extra)
    (h : (initStore f ρ ws)[i]? = some (some v)) : ρ[i]? = some v ∧ f.pwin.length ≤ i := by
  by_cases hpi : i < f.pwin.length
  · rw [initStore_ptr f ρ ws hpi] at h; cases h
  · by_cases hir : i < ρ.length
    · obtain ⟨x, hx⟩ : ∃ x, ρ[i]? = some x := ⟨ρ[i], List.getElem?_eq_getElem hir⟩
      rw [initStore_param f ws hx (by omega)] at h
      simp only [Option.some.injEq] at h
      exact ⟨by rw [hx, h], by omega⟩
    · exact absurd h (initStore_none f ws hl hp (by omega) hi v)

/-- the cells after all others show the elements behind the array parameters -/
theorem initStore_win (f : CSem2.Func) {ρ : List Int} (ws : List (Option Int))
    (hl : ρ.length = f.params.length) (hp : f.pwin.length ≤ f.params.length) (k : Nat) :
    (initStore f ρ ws)[f.vtys.length + f.extra + k]? = ws[k]? := by
  rw [initStore, List.getElem?_append_right (by rw [initStore_pre_len f hl hp]; omega),
    initStore_pre_len f hl hp]
  congr 1; omega

theorem initStore_len (f : CSem2.Func) {ρ : List Int} (ws : List (Option Int))
    (hl : ρ.length = f.params.length) (hp : f.pwin.length ≤ f.params.length) :
    f.vtys.length + f.extra ≤ (initStore f ρ ws).length := by
  rw [initStore, List.length_append, initStore_pre_len f hl hp]; omega

/-! ## Instructions of the start block -/

/-- an instruction with a result that may change memory (`alloc`) -/
theorem run_res (T : Stat) {pre post : List Item} {k : Nat} {cl : Cls} {o : Op} {args : List Val}
    {env : Env} {M M' : Mem} {vs : List RVal} {v : RVal}
    (hits : T.S.its = pre ++ .ins (.op (some (tmpName k, cl)) o args) :: post)
    (hr : readVals T.S.p env args = .ok vs) (hx : execOp o (some cl) vs M none = .ok (v, M')) :
    T.Reach 1 (T.at env M pre)
      (T.at (env.insert (tmpName k) v) M' (pre ++ [.ins (.op (some (tmpName k, cl)) o args)])) := by
  obtain ⟨b, hb, hi⟩ := ins_at T.S.ft T.S.o0 pre post (.op (some (tmpName k, cl)) o args)
  rw [← hits, ← T.S.block_get] at hb
  apply Reach.one
  rw [Stat.at_def, Stat.at_def, posOf_ins]
  exact step_op_res T.S.x hb hi hr hx

theorem insert_ne (env : Env) {a b : Nat} (v : RVal) (h : a ≠ b) :
    (env.insert (tmpName a) v)[tmpName b]? = env[tmpName b]? := by
  rw [Std.HashMap.getElem?_insert]
  have : (tmpName a == tmpName b) = false := by
    rw [beq_eq_false_iff_ne]; exact tmpName_ne h
  simp [this]

/-- what the prologue needs about an array parameter: its register holds the address of an allocation of the
    callers whose bytes are the elements seen in the window cells -/
def PtrArg (M0 : Mem) (s : Store) (env : Env) (j : Nat) (t : CSem.Ty) (w c0 : Nat) : Prop :=
  ∃ (r : RVal) (pv : UInt64) (j' : Nat) (al' : Alloc),
    env[tmpName (2 * j + 1)]? = some r ∧ StoreVal .ulong (pv.toNat : Int) r ∧
    j' < M0.stack.size ∧ M0.stack[j']? = some al' ∧ al'.base = pv.toNat ∧ w * t.size ≤ al'.size ∧
    al'.bytes.size = al'.size ∧ al'.base + al'.size ≤ stackTop ∧
    ∀ e v, e < w → s[c0 + e]? = some (some v) →
      ((loadLE al'.bytes (e * t.size) t.size).toNat : Int) = v % 2 ^ (8 * t.size)

/-- State of the prologue after the first `i` variables got their slot. -/
structure PInv2 (T : Stat) (params : List CSem.Ty) (ρ : List Int) (s : Store) (i : Nat) (env : Env)
    (M : Mem) : Prop where
  a : AInv T.M0 T.cnts (T.W.take i) T.σ T.vtys s i env M
  args : ∀ (k : Nat) (t : CSem.Ty) (v : Int), T.W.length ≤ k → params[k]? = some t → ρ[k]? = some v →
    ∃ r, env[tmpName (2 * k + 1)]? = some r ∧ StoreVal t v r
  pargs : ∀ (j : Nat) (t : CSem.Ty) (w c0 : Nat), T.W[j]? = some (t, w, c0) →
    T.vtys.length + xcount T.cnts T.cnts.length ≤ c0 ∧ PtrArg T.M0 s env j t w c0

section Prologue
variable (T : Stat) (params : List CSem.Ty) (ρ : List Int) (s : Store)
  (hσp : ∀ k, k < params.length → T.σ.getD k 0 = 2 * k + 2)
  (hvp : ∀ (k : Nat) (t : CSem.Ty), params[k]? = some t → T.vtys[k]? = some t)
  (hsp : ∀ (k : Nat) (v : Int), T.W.length ≤ k → ρ[k]? = some v → s[k]? = some (some v))
  (hsw : ∀ k, k < T.W.length → s[k]? = some none ∧ params[k]? = some .ulong)
  (hlen : ρ.length = params.length) (hcl : T.cnts.length = T.vtys.length)
  (hcp : ∀ k, k < params.length → T.cnts.getD k 1 = 1)
  (hsmall : stackLimit + 128 + 32 * T.vtys.length + 8 * xcount T.cnts T.cnts.length ≤ T.M0.sp ∧
    T.M0.stack.size + T.vtys.length + 1 < 2 ^ 64)

include hσp hvp hsp hsw hlen hcl hcp hsmall in
/-- one parameter: `alloc`, `store` -/
theorem run_spill2 (t : CSem.Ty) (i : Nat) (hti : params[i]? = some t) (pre post : List Item)
    (env : Env) (M : Mem) (hits : T.S.its = pre ++ spill t i ++ post)
    (inv : PInv2 T params ρ s i env M) :
    ∃ env' M', T.Reach 2 (T.at env M pre) (T.at env' M' (pre ++ spill t i)) ∧
      PInv2 T params ρ s (i + 1) env' M' := by
  have hi : i < params.length := lt_of_get hti
  have hiv : i < T.vtys.length := lt_of_get (hvp i t hti)
  have hcl' : i < T.cnts.length := by rw [hcl]; exact hiv
  have hci := hcp i hi
  have hroom : stackLimit + 128 + 32 * (i + 1) + 8 * xcount T.cnts (i + 1) ≤ T.M0.sp := by
    have := xcount_mono T.cnts (a := i + 1) (b := T.cnts.length) (by omega)
    omega
  obtain ⟨base, M1, _, hxa, _, hnext⟩ := (inv.a.forget i).alloc (t := t) hcl' (by omega) (by omega) hroom
    (by omega) (by
      intro e v' he
      have he0 : e = 0 := by omega
      subst he0
      rw [ecell_zero, List.getElem?_set]
      split
      · split <;> simp
      · exact absurd rfl ‹¬ i = i›)
  rw [hci, Nat.mul_one] at hxa
  have hσi := hσp i hi
  have ha1 := hnext (env.insert (tmpName (2 * i + 2)) ⟨.l, base.toUInt64⟩)
    (fun k hk => by rw [hσp k (by omega)]; exact insert_ne env _ (by omega))
    (by rw [hσi]; simp) (hvp i t hti)
  have hWtk : (T.W.take i).length ≤ i := by simp; omega
  -- the register of the argument and the value it stores
  obtain ⟨v, r0, hr0, hsv0, hfin⟩ : ∃ (v : Int) (r0 : RVal), env[tmpName (2 * i + 1)]? = some r0 ∧
      StoreVal t v r0 ∧ ∀ env' M2, (∀ k, k < i + 1 → env'[tmpName (T.σ.getD k 0)]? =
          (env.insert (tmpName (2 * i + 2)) ⟨.l, base.toUInt64⟩)[tmpName (T.σ.getD k 0)]?) →
        AInv T.M0 T.cnts (T.W.take i) T.σ T.vtys ((s.set i none).set i (some v)) (i + 1) env' M2 →
        AInv T.M0 T.cnts (T.W.take (i + 1)) T.σ T.vtys s (i + 1) env' M2 := by
    by_cases hiW : i < T.W.length
    · obtain ⟨hsi, hpt⟩ := hsw i hiW
      have htu : t = .ulong := by rw [hti] at hpt; exact Option.some.inj hpt
      subst htu
      obtain ⟨q, hq⟩ : ∃ q, T.W[i]? = some q := ⟨T.W[i], List.getElem?_eq_getElem hiW⟩
      obtain ⟨t', w, c0⟩ := q
      obtain ⟨hc0, r, pv, j', al', g1, g2, g3, g4, g5, g6, g7, g8, g9⟩ := inv.pargs i t' w c0 hq
      refine ⟨pv.toNat, r, g1, g2, ?_⟩
      intro env' M2 _ ha2
      have hs2 : ((s.set i none).set i (some (pv.toNat : Int))).set i none = s := by
        rw [List.set_set, List.set_set]; exact set_same hsi
      have := ha2.addWin (by simp; omega) (hvp i _ hti) (pv := pv)
        (by rw [set_get_self _ _ (by simpa using lt_of_get hsi)]) hc0 g3 g4 g5 g6 g7 g8 (t := t') (w := w)
        (by
          intro e v' he hv'
          rw [set_get_ne _ _ (by omega), set_get_ne _ _ (by omega)] at hv'
          exact g9 e v' he hv')
      rw [hs2] at this
      rw [List.take_succ, hq]
      exact this
    · obtain ⟨v, hv⟩ : ∃ v, ρ[i]? = some v := ⟨ρ[i]'(by omega), List.getElem?_eq_getElem (by omega)⟩
      obtain ⟨r0, hr0, hsv0⟩ := inv.args i t v (by omega) hti hv
      refine ⟨v, r0, hr0, hsv0, ?_⟩
      intro env' M2 _ ha2
      have hs2 : (s.set i none).set i (some v) = s := by
        rw [List.set_set]; exact set_same (hsp i v (by omega) hv)
      rw [hs2] at ha2
      rw [List.take_of_length_le (by omega)] at ha2 ⊢
      exact ha2
  obtain ⟨a, M2, h1, hxs, _, ha2⟩ := ha1.store hcl (k := i) (Nat.lt_succ_self _) hWtk (hvp i t hti)
    (v := v) (r := r0) hsv0
  rw [hσi] at h1
  have ha3 := hfin _ M2 (fun k _ => rfl) ha2
  simp only [spill, List.append_assoc, List.cons_append, List.nil_append] at hits
  have hr1 := run_res T (env := env) (M := M) hits (readVals_one (readVal_int _ _ _)) hxa
  have hits2 : T.S.its = (pre ++ [.ins (.op (some (tmpName (2 * i + 2), .l))
      (.alloc (if t.size = 8 then 8 else 4)) [.int (UInt64.ofNat t.size)])]) ++
      .ins (.op none (.store (storeOf t)) [.tmp (tmpName (2 * i + 1)), .tmp (tmpName (2 * i + 2))]) ::
      post := by rw [hits]; simp
  have harg : (env.insert (tmpName (2 * i + 2)) ⟨.l, base.toUInt64⟩)[tmpName (2 * i + 1)]? =
      some r0 := by
    rw [insert_ne env _ (by omega)]; exact hr0
  have hr2 := run_nores T hits2 (readVals_two (readVal_tmp harg) (readVal_tmp h1)) hxs
  refine ⟨_, M2, ?_, ha3, ?_, ?_⟩
  · have := hr1.trans hr2
    simp only [spill, List.append_assoc, List.singleton_append] at this ⊢
    exact this
  · intro k t' v' hk ht' hv'
    rw [insert_ne env _ (by omega)]; exact inv.args k t' v' hk ht' hv'
  · intro j t' w c0 hq
    obtain ⟨hc0, r, pv, j', al', g1, g⟩ := inv.pargs j t' w c0 hq
    exact ⟨hc0, r, pv, j', al', by rw [insert_ne env _ (by omega)]; exact g1, g⟩

include hσp hvp hsp hsw hlen hcl hcp hsmall in
/-- all parameters -/
theorem run_spills2 (ts : List CSem.Ty) : ∀ (i : Nat) (pre post : List Item) (env : Env) (M : Mem),
    (∀ (k : Nat) (t : CSem.Ty), ts[k]? = some t → params[i + k]? = some t) →
    T.S.its = pre ++ spills ts i ++ post → PInv2 T params ρ s i env M →
    ∃ n env' M', T.Reach n (T.at env M pre) (T.at env' M' (pre ++ spills ts i)) ∧
      PInv2 T params ρ s (i + ts.length) env' M' := by
  induction ts with
  | nil =>
    intro i pre post env M _ _ inv
    exact ⟨0, env, M, by simp [spills, Stat.Reach, LowerMach.Reach], by simpa using inv⟩
  | cons t ts ih =>
    intro i pre post env M hty hits inv
    simp only [spills] at hits ⊢
    obtain ⟨env1, M1, hr1, inv1⟩ := run_spill2 T params ρ s hσp hvp hsp hsw hlen hcl hcp hsmall t i
      (by simpa using hty 0 t rfl) pre (spills ts (i + 1) ++ post) env M
      (by rw [hits]; simp only [List.append_assoc]) inv
    obtain ⟨n, env2, M2, hr2, inv2⟩ := ih (i + 1) (pre ++ spill t i) post env1 M1
      (fun k t' h => by have := hty (k + 1) t' (by simpa using h); rwa [Nat.add_assoc, Nat.add_comm 1 k])
      (by rw [hits]; simp only [List.append_assoc]) inv1
    refine ⟨2 + n, env2, M2, ?_, ?_⟩
    · rw [← List.append_assoc]; exact hr1.trans hr2
    · have : i + (t :: ts).length = i + 1 + ts.length := by simp; omega
      rw [this]; exact inv2

include hcl hsmall in
/-- the `alloc`s of the block-scope objects -/
theorem run_allocs (hinc : ∀ a b, a < b → b < T.vtys.length → T.σ.getD a 0 < T.σ.getD b 0)
    (hxs : xcount T.cnts T.cnts.length ≤ 1000000)
    (tys : List (CSem.Ty × Nat)) : ∀ (slots : List Nat) (i : Nat) (pre post : List Item) (env : Env) (M : Mem),
    slots.length = tys.length →
    (∀ (k : Nat) (t : CSem.Ty) (n : Nat), tys[k]? = some (t, n) →
      T.vtys[i + k]? = some t ∧ T.cnts[i + k]? = some n ∧ 1 ≤ n) →
    (∀ (k : Nat), k < tys.length → T.σ.getD (i + k) 0 = slots.getD k 0) →
    (∀ (j : Nat) (v : Int), i ≤ j → j < T.vtys.length + xcount T.cnts T.cnts.length →
      s[j]? ≠ some (some v)) →
    T.S.its = pre ++ List.zipWith allocIns tys slots ++ post → AInv T.M0 T.cnts T.W T.σ T.vtys s i env M →
    ∃ n env' M', T.Reach n (T.at env M pre) (T.at env' M' (pre ++ List.zipWith allocIns tys slots)) ∧
      AInv T.M0 T.cnts T.W T.σ T.vtys s (i + tys.length) env' M' := by
  induction tys with
  | nil =>
    intro slots i pre post env M _ _ _ _ _ inv
    exact ⟨0, env, M, by simp [Stat.Reach, LowerMach.Reach], by simpa using inv⟩
  | cons d tys ih =>
    intro slots i pre post env M hl hty hsl hsn hits inv
    obtain ⟨t, n⟩ := d
    cases slots with
    | nil => simp at hl
    | cons sl slots =>
      simp only [List.length_cons, Nat.add_right_cancel_iff] at hl
      simp only [List.zipWith_cons_cons] at hits ⊢
      obtain ⟨hti, hci, hn1⟩ : T.vtys[i]? = some t ∧ T.cnts[i]? = some n ∧ 1 ≤ n := by
        simpa using hty 0 t n rfl
      have hiv := lt_of_get hti
      have hil : i < T.cnts.length := by rw [hcl]; exact hiv
      have hcd : T.cnts.getD i 1 = n := by simp [List.getD, hci]
      have hσi : T.σ.getD i 0 = sl := by simpa using hsl 0 (by simp)
      have hxsucc := xcount_succ T.cnts hil
      have hmono := xcount_mono T.cnts (a := i + 1) (b := T.cnts.length) (by omega)
      obtain ⟨base, M1, _, hxa, _, hnext⟩ := inv.alloc (t := t) hil (by omega) (by omega)
        (by omega) (by omega) (by
          intro e v he
          refine hsn _ v ?_ ?_ <;> unfold ecell xbase <;> split <;> omega)
      rw [hcd] at hxa
      have ha1 := hnext (env.insert (tmpName sl) ⟨.l, base.toUInt64⟩)
        (fun k hk => by
          apply insert_ne
          have := hinc k i hk hiv
          rw [hσi] at this; omega)
        (by rw [hσi]; simp) hti
      have hits1 : T.S.its = pre ++ allocIns (t, n) sl :: (List.zipWith allocIns tys slots ++ post) := by
        rw [hits]; simp
      have hr1 := run_res T (env := env) (M := M) hits1 (readVals_one (readVal_int _ _ _)) hxa
      obtain ⟨m, env2, M2, hr2, inv2⟩ := ih slots (i + 1) (pre ++ [allocIns (t, n) sl]) post _ M1 hl
        (fun k t' n' h => by
          have := hty (k + 1) t' n' (by simpa using h); rwa [Nat.add_assoc, Nat.add_comm 1 k])
        (fun k hk => by
          have := hsl (k + 1) (by simp; omega)
          rw [Nat.add_assoc, Nat.add_comm 1 k]; simpa using this)
        (fun j v hj hj2 => hsn j v (by omega) hj2)
        (by rw [hits]; simp) ha1
      refine ⟨1 + m, env2, M2, ?_, ?_⟩
      · have := hr1.trans hr2
        simp only [List.append_assoc, List.singleton_append] at this
        exact this
      · have : i + ((t, n) :: tys).length = i + 1 + tys.length := by simp; omega
        rw [this]; exact inv2

end Prologue

/-! ## The emitted function -/

theorem allocs_allIns (tys : List (CSem.Ty × Nat)) (slots : List Nat) :
    ∀ it ∈ List.zipWith allocIns tys slots, ∃ ins, it = .ins ins := by
  induction tys generalizing slots with
  | nil => simp
  | cons t tys ih =>
    cases slots with
    | nil => simp
    | cons sl slots =>
      intro it hit
      simp only [List.zipWith_cons_cons, List.mem_cons] at hit
      rcases hit with h | h
      · exact ⟨_, h⟩
      · exact ih slots it h

theorem bodyCtx_jump (startid : Nat) (f : CSem2.Func) : (Lower2.bodyCtx startid f).jump = none := rfl

/-- the labels of the emitted function are pairwise different -/
theorem emit2_labels_nodup (cs : Bool) (startid : Nat) (f : CSem2.Func) (hnd : noDead f.body = true) :
    ((Lower2.emitFunc cs startid f).blocks.toList.map (·.label)).Nodup := by
  have g := funcstmt_good cs f.body "" "" (Lower2.bodyCtx startid f) rfl hnd
  obtain ⟨new, _, _, _, hal⟩ := g.slots
  simp only [Lower2.emitFunc, List.toList_toArray]
  rw [assemble_labels]
  have hal' : (Lower2.bodyOut cs startid f).allocs = List.zipWith allocIns (declTys f.body) new := hal
  simp only [Lower2.funcItems, itemLabels_append, itemLabels_allIns _ (spills_allIns _ _), itemLabels,
    List.nil_append, hal', itemLabels_allIns _ (allocs_allIns _ _)]
  have h := ((LabelsIn.single (S := fun j => j = startid + 1) "start" (startid + 1) rfl).append
    (LabelsIn.single (S := fun j => j = startid + 2) "body" (startid + 2) rfl)
    (by intro j h1 h2; omega)).append g.labels (by
      intro j h1 h2
      simp only [Lower2.bodyCtx] at h2
      omega)
  exact h.2


theorem Room.frame {K d : Nat} {M : Mem} (h : Room K (d + 1) M) :
    stackLimit + 128 + 32 * K ≤ M.sp ∧ M.stack.size + K + 1 < 2 ^ 64 := by
  obtain ⟨h1, h2⟩ := h
  rw [Nat.succ_mul] at h1 h2
  constructor <;> omega

/-- The array arguments of an activation of `g`: the register of parameter `j` holds the address of an
    allocation of the callers, whose bytes are the (in-range) elements `ws` shows. -/
def WinOK (cs : Bool) (g : CSem2.Func) (ws : List (Option Int)) (env0 : Env) (M : Mem) : Prop :=
  ∀ (j : Nat) (t : CSem.Ty) (w : Nat), g.pwin[j]? = some (t, w) →
    ∃ (r : RVal) (pv : UInt64) (j' : Nat) (al' : Alloc),
      env0[tmpName (2 * j + 1)]? = some r ∧ StoreVal .ulong (pv.toNat : Int) r ∧
      j' < M.stack.size ∧ M.stack[j']? = some al' ∧ al'.base = pv.toNat ∧ w * t.size ≤ al'.size ∧
      al'.bytes.size = al'.size ∧ al'.base + al'.size ≤ stackTop ∧
      ∀ e v, e < w → ws[((g.pwin.take j).map (·.2)).sum + e]? = some (some v) →
        ((loadLE al'.bytes (e * t.size) t.size).toNat : Int) = v % 2 ^ (8 * t.size) ∧
          InRange (t.intTy cs) v

/-- One activation of the emitted function `g`, entered with the parameters bound in `env0` and the
    caller's memory `M0` (stack pointer lowered by the frame cost), when the statements of its body are
    simulated (`hsim`): it runs to a `ret` that delivers a representation of the returned value to the
    frames below (`rest`) with the memory `M0`. -/
theorem sim_func (cs : Bool) (sid : Nat) (g : CSem2.Func) (ρ : List Int) (ws : List (Option Int)) (v : Int)
    (hwt : CSem2.WT g) (henv : EnvOK cs g.params ρ)
    (P : List CSem2.Func) (p : Prog) (ext : Qbe.Ext) (K d : Nat) (M0 : Mem)
    (hfuncs : ∀ fn g', lookup P fn = some g' →
      ∃ sid', p.funcs[fn]? = some (FuncInfo.of (Lower2.emitFunc cs sid' g')))
    (hP : ∀ fn g', lookup P fn = some g' →
      CSem2.WT g' ∧ callsOK P g'.body = true ∧ g'.vtys.length + g'.extra ≤ K)
    (hfrag : frag P g.cnts (funcW g) g.body = true) (hK : g.vtys.length + g.extra ≤ K)
    (hmem : MemInv M0) (hroom : Room K (d + 1) M0) (htop : M0.sp ≤ stackTop)
    (rest : List Qbe.Frame) (tr : Array String) (env0 : Env)
    (hargs : ∀ (k : Nat) (t : CSem.Ty) (v' : Int), g.pwin.length ≤ k → g.params[k]? = some t →
      ρ[k]? = some v' → ∃ r, env0[tmpName (2 * k + 1)]? = some r ∧ StoreVal t v' r)
    (hwin : WinOK cs g ws env0 M0)
    (fuel : Nat) (hsim : ∀ T : Stat, T.P = P → T.d = d → SimStmt T fuel)
    (hex : exec cs P fuel (initStore g ρ ws) g.body = some (.ret v)) :
    ∃ n st r, Reach p ext n
        (mkSt ⟨FuncInfo.of (Lower2.emitFunc cs sid g), M0.stack.size, M0.sp, rest, tr⟩ env0
          { M0 with sp := M0.sp - frameCost } 0 0) st ∧
      step p ext st = retCont p rest M0 tr (.scalar r) ∧ RetRep g.ret v r ∧
      InRange (g.ret.intTy cs) v := by
  have hlen := henv.1
  simp only [CSem2.WT, CSem2.Func.wt, Bool.and_eq_true, beq_iff_eq, decide_eq_true_eq] at hwt
  obtain ⟨⟨⟨⟨⟨⟨⟨⟨⟨_, hwt⟩, harrs⟩, hdecls⟩, hextra⟩, hptrs⟩, hpfx⟩, hpwl⟩, hwall⟩, hwtot⟩ := hwt
  obtain ⟨hnd, hcount⟩ := wt_noDead _ _ _ _ _ _ _ hwt
  have hcl : g.cnts.length = g.vtys.length := by simp [CSem2.Func.cnts, CSem2.Func.vtys]
  have hcp : ∀ k, k < g.params.length → g.cnts.getD k 1 = 1 := by
    intro k hk
    simp [CSem2.Func.cnts, List.getD, List.getElem?_append_left, hk]
  have gd := funcstmt_good cs g.body "" "" (Lower2.bodyCtx sid g) rfl hnd
  obtain ⟨new, hslots, hnewlen, hnewrange, hallocs⟩ := gd.slots
  have hsorted := gd.sorted new hslots
  have hvl : g.vtys.length = g.params.length + g.locals.length := by simp [CSem2.Func.vtys]
  have hdl : (declTys g.body).length = g.locals.length := by omega
  -- the static situation
  let x : Fix := ⟨FuncInfo.of (Lower2.emitFunc cs sid g), M0.stack.size, M0.sp, rest, tr⟩
  let its := Lower2.funcItems cs sid g
  let ft : Jump := Lower2.finalJump cs sid g
  let o0 : Open := ⟨startLabel sid, [], #[]⟩
  have hblocks : x.fi.f.blocks = (assemble ft o0 its).toArray := rfl
  have hlidx : ∀ (j : Nat) (b : Block), x.fi.f.blocks[j]? = some b →
      x.fi.labelIdx[b.label]? = some j :=
    fun j b hb => labelIdx_of_nodup _ (emit2_labels_nodup cs sid g hnd) hb
  let S : Sit := ⟨cs, p, ext, x, M0, ft, o0, its, [], [], hblocks, hlidx,
    ⟨rfl, by intro i t v h; simp at h⟩⟩
  let σ : List Nat := paramSlots g.params.length ++ new
  let T : Stat := ⟨S, σ, g.vtys, g.ret, rfl, P, M0, rfl, rfl, g.cnts, funcW g, K, d, hK, hroom, hfuncs, hP⟩
  have hWl : T.W.length = g.pwin.length := funcW_length g
  have hσslots : (Lower2.bodyOut cs sid g).ctx.slots = σ := hslots
  -- facts about the slot map
  have hσp : ∀ k, k < g.params.length → T.σ.getD k 0 = 2 * k + 2 := by
    intro k hk
    show (paramSlots g.params.length ++ new).getD k 0 = _
    rw [getD_append_left _ _ (by rw [paramSlots_length]; exact hk), paramSlots_getD hk]
  have hσl : ∀ k, k < new.length → T.σ.getD (g.params.length + k) 0 = new.getD k 0 := by
    intro k hk
    show (paramSlots g.params.length ++ new).getD _ 0 = _
    rw [getD_append_right _ _ (by rw [paramSlots_length]; omega), paramSlots_length]
    congr 1; omega
  have hnewlo : ∀ k, k < new.length → 2 * g.params.length < new.getD k 0 := by
    intro k hk
    exact (hnewrange _ (getD_mem hk)).1
  have hinc : ∀ a b, a < b → b < T.vtys.length → T.σ.getD a 0 < T.σ.getD b 0 := by
    intro a b hab hb
    have hb' : b < g.params.length + g.locals.length := by rw [← hvl]; exact hb
    by_cases hbp : b < g.params.length
    · rw [hσp a (by omega), hσp b hbp]; omega
    · obtain ⟨kb, rfl⟩ : ∃ kb, b = g.params.length + kb := ⟨b - g.params.length, by omega⟩
      have hkb : kb < new.length := by omega
      rw [hσl kb hkb]
      by_cases hap : a < g.params.length
      · rw [hσp a hap]; have := hnewlo kb hkb; omega
      · obtain ⟨ka, rfl⟩ : ∃ ka, a = g.params.length + ka := ⟨a - g.params.length, by omega⟩
        have hka : ka < new.length := by omega
        rw [hσl ka hka]
        have := List.pairwise_iff_getElem.1 hsorted ka kb hka hkb (by omega)
        simpa [List.getD, List.getElem?_eq_getElem hka, List.getElem?_eq_getElem hkb] using this
  have hvp : ∀ (k : Nat) (t : CSem.Ty), g.params[k]? = some t → T.vtys[k]? = some t := by
    intro k t h
    show (g.params ++ g.locals)[k]? = some t
    rw [List.getElem?_append_left (lt_of_get h)]; exact h
  have hsp' : ∀ (k : Nat) (v : Int), T.W.length ≤ k → ρ[k]? = some v →
      (initStore g ρ ws)[k]? = some (some v) :=
    fun k v hk h => initStore_param g ws h (by rw [← hWl]; exact hk)
  have hsw : ∀ k, k < T.W.length → (initStore g ρ ws)[k]? = some none ∧ g.params[k]? = some .ulong := by
    intro k hk
    rw [hWl] at hk
    refine ⟨initStore_ptr g ρ ws hk, ?_⟩
    have : (g.params.take g.pwin.length)[k]? = some .ulong := by
      rw [hpfx, List.getElem?_replicate]; simp [hk]
    rw [List.getElem?_take] at this
    simpa [hk] using this
  have hfr := hroom.frame
  have hsmall' : stackLimit + 128 + 32 * T.vtys.length + 8 * xcount T.cnts T.cnts.length ≤ T.M0.sp ∧
      T.M0.stack.size + T.vtys.length + 1 < 2 ^ 64 := by
    have : g.vtys.length + xcount g.cnts g.cnts.length ≤ K := hK
    show stackLimit + 128 + 32 * g.vtys.length + 8 * xcount g.cnts g.cnts.length ≤ M0.sp ∧
      M0.stack.size + g.vtys.length + 1 < 2 ^ 64
    constructor <;> omega
  -- entering the function
  let M0' : Mem := { M0 with sp := M0.sp - frameCost }
  have hfc : frameCost = 64 := rfl
  -- invariant at entry
  have hpinv0 : PInv2 T g.params ρ (initStore g ρ ws) 0 env0 M0' := by
    refine ⟨⟨⟨?_, ?_, ?_, ?_⟩, ?_, ?_, ?_, ?_, ?_, ?_, ?_, ?_⟩, ?_, ?_⟩
    · exact hmem.sorted
    · intro i hi
      exact Nat.le_trans (Nat.sub_le _ _) (hmem.above i hi)
    · show stackLimit ≤ M0.sp - frameCost
      omega
    · exact hmem.small
    · show M0.stack.size = M0.stack.size + 0
      rfl
    · show M0.sp ≤ M0.sp - frameCost + 64 + 32 * 0
      omega
    · show M0.sp - frameCost ≤ M0.sp
      omega
    · exact htop
    · rfl
    · intro k _; rfl
    · intro k t hk; omega
    · intro j t w c0 hq; simp at hq
    · intro k t v' hk; exact hargs k t v' (by rw [← hWl]; exact hk)
    · intro j t w c0 hq
      obtain ⟨hq1, hq2⟩ := (funcW_get g).1 hq
      subst hq2
      refine ⟨by show g.vtys.length + g.extra ≤ g.wbase j; unfold CSem2.Func.wbase; omega, ?_⟩
      obtain ⟨r, pv, j', al', g1, g2, g3, g4, g5, g6, g7, g8, g9⟩ := hwin j t w hq1
      refine ⟨r, pv, j', al', g1, g2, g3, g4, g5, g6, g7, g8, ?_⟩
      intro e v' he hv'
      have : g.wbase j + e = g.vtys.length + g.extra + (((g.pwin.take j).map (·.2)).sum + e) := by
        unfold CSem2.Func.wbase; omega
      rw [this, initStore_win g ws hlen hpwl] at hv'
      exact (g9 e v' he hv').1
  -- the spills
  have hits0 : T.S.its = [] ++ spills g.params 0 ++ ((Lower2.bodyOut cs sid g).allocs ++
      (.lbl none (bodyLabel sid) [] :: (Lower2.bodyOut cs sid g).items)) := by
    show Lower2.funcItems cs sid g = _
    simp [Lower2.funcItems]
  obtain ⟨n1, env1, M1, hreach1, hpinv1⟩ := run_spills2 T g.params ρ (initStore g ρ ws) hσp hvp hsp' hsw hlen
    hcl hcp hsmall' g.params 0 [] _ env0 M0' (fun k t h => by simpa using h) hits0 hpinv0
  simp only [List.nil_append, Nat.zero_add] at hreach1 hpinv1
  -- the allocations of the locals
  have hits1 : T.S.its = spills g.params 0 ++ List.zipWith allocIns (declTys g.body) new ++
      (.lbl none (bodyLabel sid) [] :: (Lower2.bodyOut cs sid g).items) := by
    have : (Lower2.bodyOut cs sid g).allocs = List.zipWith allocIns (declTys g.body) new := hallocs
    rw [← this]
    show Lower2.funcItems cs sid g = _
    simp [Lower2.funcItems]
  obtain ⟨n2, env2, M2, hreach2, hainv2⟩ := run_allocs T (initStore g ρ ws) hcl hsmall' hinc hextra
    (declTys g.body) new
    g.params.length (spills g.params 0) _ env1 M1 hnewlen
    (fun k t n h => wt_declTys _ _ g.cnts _ _ _ _ _ hwt harrs hdecls k t n h)
    (fun k hk => hσl k (by omega))
    (fun j v hj hj2 => initStore_none g ws hlen hpwl (by omega) hj2 v) hits1
    (by have := hpinv1.a; rwa [List.take_of_length_le (by rw [hWl]; exact hpwl)] at this)
  -- the invariant of the body
  have hall : g.params.length + (declTys g.body).length = T.vtys.length := by
    show _ = g.vtys.length; omega
  rw [hall] at hainv2
  have hinv : SInv T.M0 T.S.cs T.cnts T.W T.σ T.vtys (initStore g ρ ws) env2 M2 := by
    have hrange : ∀ (i : Nat) (t : CSem.Ty) (v' : Int), g.vtys[i]? = some t →
        (initStore g ρ ws)[i]? = some (some v') → InRange (t.intTy cs) v' := by
      intro i t v' ht hv'
      have hρ := (initStore_some g ws hlen hpwl (by have := lt_of_get ht; omega) hv').1
      have hi : i < g.params.length := by rw [← hlen]; exact lt_of_get hρ
      have ht' : g.params[i]? = some t := by
        have : (g.params ++ g.locals)[i]? = some t := ht
        rwa [List.getElem?_append_left hi] at this
      exact henv.2 i t v' ht' hρ
    refine ⟨hainv2, hcl, initStore_len g ws hlen hpwl, hrange, ?_, ?_⟩
    · intro k e t v' ht he hv'
      by_cases he0 : e = 0
      · subst he0
        rw [ecell_zero] at hv'
        exact hrange k t v' ht hv'
      · exfalso
        have hkl : k < g.cnts.length := by rw [hcl]; exact lt_of_get ht
        have hxs := xcount_succ g.cnts hkl
        have hxm := xcount_mono g.cnts (a := k + 1) (b := g.cnts.length) (by omega)
        have he' : e < g.cnts.getD k 1 := he
        refine initStore_none g ws hlen hpwl (i := ecell k (xbase g.cnts k) e) ?_ ?_ v' hv' <;>
          unfold ecell xbase <;> rw [if_neg he0, hcl, hvl]
        · omega
        · have hxe : g.extra = xcount g.cnts g.cnts.length := rfl
          omega
    · intro j e t w c0 v' hq he hv'
      obtain ⟨hq1, hq2⟩ := (funcW_get g).1 hq
      subst hq2
      obtain ⟨r, pv, j', al', g1, g2, g3, g4, g5, g6, g7, g8, g9⟩ := hwin j t w hq1
      have : g.wbase j + e = g.vtys.length + g.extra + (((g.pwin.take j).map (·.2)).sum + e) := by
        unfold CSem2.Func.wbase; omega
      rw [this, initStore_win g ws hlen hpwl] at hv'
      exact (g9 e v' he hv').2
  -- fall through into `body`
  have hitsL : T.S.its = (spills g.params 0 ++ List.zipWith allocIns (declTys g.body) new) ++
      .lbl none (bodyLabel sid) [] :: (Lower2.bodyOut cs sid g).items := hits1
  have hstep := step_fall_item T hitsL env2 M2
  -- the body
  have hpos : Pos T (Lower2.bodyCtx sid g) g.params.length
      (spills g.params 0 ++ List.zipWith allocIns (declTys g.body) new ++
        [.lbl none (bodyLabel sid) []]) := by
    refine ⟨rfl, curOf_lbl _ _ _ _ _, ⟨"body", sid + 2, rfl, Nat.le_refl _⟩, paramSlots_length _, ?_⟩
    intro i hi
    show (paramSlots g.params.length).getD i 0 ≤ 2 * g.params.length
    rw [paramSlots_getD hi]; omega
  have hext : Ext T (funcstmt T.S.cs "" "" g.body (Lower2.bodyCtx sid g)).ctx := by
    constructor
    · intro i _
      show σ.getD i 0 = (Lower2.bodyOut cs sid g).ctx.slots.getD i 0
      rw [hσslots]
    · intro k hk hkv
      exfalso
      have : (Lower2.bodyOut cs sid g).ctx.slots.length ≤ k := hk
      rw [hσslots] at this
      have hσlen : σ.length = g.params.length + new.length := by simp [σ, paramSlots_length]
      have : k < g.vtys.length := hkv
      omega
  have hitsB : T.S.its = (spills g.params 0 ++ List.zipWith allocIns (declTys g.body) new ++
      [.lbl none (bodyLabel sid) []]) ++
      (funcstmt T.S.cs "" "" g.body (Lower2.bodyCtx sid g)).items ++ [] := by
    rw [hits1]
    simp only [Lower2.bodyOut, List.append_assoc, List.singleton_append, List.append_nil]
    rfl
  have hpost := hsim T rfl rfl g.body (initStore g ρ ws) (.ret v) (false, false) "" "" (Lower2.bodyCtx sid g)
    g.params.length g.vtys.length _ [] env2 M2 hex hfrag hwt hpos hext hitsB ⟨(by intro h; cases h), (by intro h; cases h)⟩ hinv
  obtain ⟨hrg, n3, hret⟩ := hpost
  have hfin : ∃ st r, T.Reach n3 (T.at env2 M2 (spills g.params 0 ++
      List.zipWith allocIns (declTys g.body) new ++ [.lbl none (bodyLabel sid) []])) st ∧
      step p ext st = T.exit r ∧ RetRep g.ret v r := by
    rcases hret with ⟨env', M', val, r0, hj, hr, hval, hrep, hpop⟩ | ⟨st, r, hr, hs, hrr⟩
    · obtain ⟨r', hco, hrep'⟩ := rep_coerce hrep
      have hft : T.S.ft = .ret (some val) := by
        show Lower2.finalJump cs sid g = _
        unfold Lower2.finalJump
        have : (Lower2.bodyOut cs sid g).ctx.jump = some (.ret (some val)) := hj
        rw [this]; rfl
      have hitsE : T.S.its = (spills g.params 0 ++ List.zipWith allocIns (declTys g.body) new ++
          [.lbl none (bodyLabel sid) []]) ++
          (funcstmt T.S.cs "" "" g.body (Lower2.bodyCtx sid g)).items := by simpa using hitsB
      exact ⟨_, r', hr, step_ret_end T hitsE hft M' hval hco hpop, hrep', coerce_kind hco⟩
    · exact ⟨st, r, hr, hs, hrr⟩
  obtain ⟨stf, r, hr3, hsf, hrr⟩ := hfin
  have hall := ((hreach1.trans hreach2).trans (Reach.one hstep)).trans hr3
  exact ⟨_, stf, r, hall, hsf, hrr, hrg⟩

end CprocVerif.LowerMach2

import CprocVerif.Lemmas.PPStr1

/-! # Arguments with macro names, part 2: `rawnext` and `expand` (no invocation) on a `GoodP` state -/

namespace CprocVerif.PP
open CprocVerif.Gen.TokenKinds
open CprocVerif.Spec.MacroRef (HTok Item PTok MacroDef RErr Flag expandH hsadd union pendItems lookup)
open CprocVerif.Spec

/-- where `rawnext` took its token from -/
inductive RawP (ms0 : List Macro) (st s1 : St) : Prop where
  | ctx (h1 : flatG (annHp ms0) st.macros st.ctx = annHp ms0 (liveNames s1.ctx) s1.rt :: flatG (annHp ms0) s1.macros s1.ctx)
      (h2 : FlatP ms0 s1.rt) (h3 : s1.raw = st.raw) (h4 : liveNames s1.ctx ≠ [])
  | raw (h1 : st.raw = s1.rt :: s1.raw) (h2 : s1.ctx = []) (h3 : flatG (annHp ms0) st.macros st.ctx = [])
  | eof (h1 : s1.rt = eofTok) (h2 : st.raw = []) (h3 : s1.raw = []) (h4 : s1.ctx = [])
      (h5 : flatG (annHp ms0) st.macros st.ctx = [])

theorem rawnextP (ms0 : List Macro) (n : Nat) (st s1 : St) (g : GoodP ms0 st)
    (ht : ∀ t r, st.raw = t :: r → t.kind ≠ .TNONE ∧ t.kind ≠ .THASH)
    (h : exec n .rawnext st = .ok s1) : GoodP ms0 s1 ∧ RawP ms0 st s1 := by
  cases n with
  | zero => cases h
  | succ k =>
    change rawnextBody (exec k) st = .ok s1 at h
    unfold rawnextBody at h
    cases hc : exec k .ctxnext st with
    | error e => rw [hc] at h; cases h
    | ok sc =>
      rw [hc] at h
      simp only at h
      obtain ⟨sA, heA, hrawA, hwfA, hppA, hstripA, hinvA, hcaseA⟩ :=
        ctxnext_flatG (annHp ms0) (ctxSize st.ctx) st (Nat.le_refl _) g.wf
      obtain ⟨sB, heB, _, _, _, _, _, hcaseB⟩ :=
        ctxnext_flatG (fun _ (t : Tok) => t) (ctxSize st.ctx) st (Nat.le_refl _) g.wf
      obtain ⟨sC, heC, _, _, _, _, _, hcaseC⟩ :=
        ctxnext_flatG (fun (L : List Name) (_ : Tok) => L) (ctxSize st.ctx) st (Nat.le_refl _) g.wf
      have e1 : sc = sA := exec_det hc heA
      have e2 : sc = sB := exec_det hc heB
      have e3 : sc = sC := exec_det hc heC
      subst e1
      rw [← e2] at hcaseB
      rw [← e3] at hcaseC
      simp only [flatG_id] at hcaseB
      have gsc : GoodP ms0 sc := by
        refine ⟨(stat_of_strip hstripA).trans g.stat, hinvA g.inv, hwfA, ?_, ?_, by rw [hppA.2, g.prag], by rw [hppA.1, g.ppnl]⟩
        · rcases hcaseB with ⟨_, hc0, _⟩ | ⟨_, hfl⟩
          · rw [hc0]; intro t ht; cases ht
          · intro t ht
            exact g.flatOk t (by rw [hfl]; exact List.mem_cons_of_mem _ ht)
        · rcases hcaseC with ⟨_, hc0, _⟩ | ⟨_, hfl⟩
          · rw [hc0]; intro t ht; cases ht
          · intro L hL
            exact g.live L (by rw [hfl]; exact List.mem_cons_of_mem _ hL)
      by_cases hrb : sc.rb = true
      · simp only [hrb, ↓reduceIte] at h
        cases h
        refine ⟨gsc, ?_⟩
        rcases hcaseA with ⟨hf, _, _⟩ | ⟨_, hfl⟩
        · rw [hf] at hrb; cases hrb
        · rcases hcaseB with ⟨hf, _, _⟩ | ⟨_, hflB⟩
          · rw [hf] at hrb; cases hrb
          · rcases hcaseC with ⟨hf, _, _⟩ | ⟨_, hflC⟩
            · rw [hf] at hrb; cases hrb
            · exact .ctx hfl (g.flatOk _ (by rw [hflB]; exact List.mem_cons_self ..)) hrawA
                (g.live _ (by rw [hflC]; exact List.mem_cons_self ..))
      · simp only [hrb, Bool.false_eq_true, ↓reduceIte] at h
        have hctx0 : sc.ctx = [] ∧ flatG (annHp ms0) st.macros st.ctx = [] := by
          rcases hcaseA with ⟨_, h2, h3⟩ | ⟨hf, _⟩
          · exact ⟨h2, h3⟩
          · exact absurd hf hrb
        cases k with
        | zero => cases h
        | succ k' =>
          change nextintoBody (exec k') sc = .ok s1 at h
          unfold nextintoBody scanTok at h
          cases hr : sc.raw with
          | nil =>
            rw [hr] at h
            simp only [eofTok] at h
            have : ¬ (sc.newline = true ∧ Kind.TEOF = Kind.THASH) := by intro hh; cases hh.2
            simp only [this, ↓reduceIte] at h
            cases h
            refine ⟨⟨gsc.stat, gsc.inv, gsc.wf, gsc.flatOk, gsc.live, gsc.prag, gsc.ppnl⟩, ?_⟩
            exact .eof rfl (by rw [← hrawA, hr]) hr hctx0.1 hctx0.2
          | cons t r =>
            rw [hr] at h
            have hk := ht t r (by rw [← hrawA, hr])
            simp only [hk.1, ↓reduceIte, hk.2, and_false] at h
            cases h
            refine ⟨⟨gsc.stat, gsc.inv, gsc.wf, gsc.flatOk, gsc.live, gsc.prag, gsc.ppnl⟩, ?_⟩
            exact .raw (by rw [← hrawA, hr]) hctx0.1 hctx0.2


theorem isMac_sethide (ms0 : List Macro) (t : Tok) (b : Bool) : isMac ms0 { t with hide := b } = isMac ms0 t := rfl

theorem map_mkHp_nohide (ms0 : List Macro) (hs : List Name) (l : List Tok) (h : ∀ t ∈ l, t.hide = false) :
    l.map (mkHp ms0 hs) = l.map (mkH hs) :=
  List.map_congr_left (fun t ht => mkHp_nohide ms0 hs t (h t ht))

theorem respace_hide {l : List Tok} {sp : Bool} (h : ∀ t ∈ l, t.hide = false) : ∀ t ∈ respace l sp, t.hide = false := by
  intro t ht
  obtain ⟨b, hb, hkb⟩ := mem_respace_kh ht
  have : t.hide = b.hide := congrArg (·.2.2) hkb
  rw [this]; exact h b hb

/-- **`expand` on a token that starts no invocation**, against one step of the reference, for an
arbitrary continuation `X` of the source -/
theorem expand_simP (ms0 : List Macro) (hT : TblOKS ms0) (n : Nat) (s1 s2 : St) (t : Tok) (X : List Item)
    (g : GoodP ms0 s1) (ht : FlatP ms0 t) (h : exec n (.expand t) s1 = .ok s2) :
    GoodP ms0 s2 ∧ s2.raw = s1.raw ∧
    ((s2.rb = true ∧ s2.depth = s1.depth + 1 ∧ flat s2.macros s2.ctx ≠ [] ∧
        ∀ K, outE (expandH false (K + 1) (tblF ms0) (.tok (mkHp ms0 (hsOf s1.ctx) t) :: absX ms0 s1 X))
          = outE (expandH false K (tblF ms0) (absX ms0 s2 X))) ∨
     (s2.rb = false ∧ s2.ctx = s1.ctx ∧ s2.macros = s1.macros ∧ s2.depth = s1.depth ∧
        s2.rt.kind = t.kind ∧ s2.rt.lit = t.lit ∧
        ∀ K, outE (expandH false (K + 1) (tblF ms0) (.tok (mkHp ms0 (hsOf s1.ctx) t) :: absX ms0 s1 X))
          = consE (mkHp ms0 [] s2.rt) (outE (expandH false K (tblF ms0) (absX ms0 s1 X))))) := by
  have hnf : ∀ m, macroget s1.macros (t.lit.getD []) = some m → t.kind = .TIDENT → m.func = false := by
    intro m hm hk
    obtain ⟨m0, hm0, hs⟩ := macroget_stat_some g.stat hm
    have hse := stat_eq hs
    cases hf : m.func with
    | false => rfl
    | true =>
      exfalso
      exact ht.2.2 ⟨hk, m0, hm0, by rw [hse.2.1, hf]⟩
  have hlkT : ∀ m, lookup (tblF ms0) ((mkHp ms0 (hsOf s1.ctx) t).tok.lit.getD []) = some m → t.kind = .TIDENT → m.func = false := by
    intro m hm hk
    rw [lookup_tblF] at hm
    have hm' : (macroget ms0 (t.lit.getD [])).map toDefF = some m := hm
    cases h0 : macroget ms0 (t.lit.getD []) with
    | none => rw [h0] at hm'; cases hm'
    | some m0 =>
      rw [h0] at hm'
      simp only [Option.map_some, Option.some.injEq] at hm'
      subst hm'
      cases hf : m0.func with
      | false => exact hf
      | true => exact absurd ⟨hk, m0, h0, hf⟩ ht.2.2
  cases n with
  | zero => cases h
  | succ k =>
  by_cases hk : t.kind ≠ .TIDENT
  · have he : exec (k + 1) (.expand t) s1 = .ok { s1 with rb := false, rt := t } := by
      show expandBody (exec k) t s1 = _
      unfold expandBody
      simp only [hk, ne_eq, not_false_eq_true, ↓reduceIte]
    rw [he] at h
    cases h
    refine ⟨goodP_setrt g _ _, rfl, .inr ⟨rfl, rfl, rfl, rfl, rfl, rfl, ?_⟩⟩
    intro K
    rw [expandH]
    have : (mkHp ms0 (hsOf s1.ctx) t).tok.kind ≠ .TIDENT := hk
    simp only [this, ne_eq, not_false_eq_true, true_or, ↓reduceIte]
    rfl
  · have hk1 : t.kind = .TIDENT := by simpa using hk
    have hk' : (mkHp ms0 (hsOf s1.ctx) t).tok.kind = .TIDENT := hk1
    rw [expand_nonfun k t s1 (fun m hm => hnf m hm hk1)] at h
    cases h
    have hstep := fun K => expandH_stepE (tblF ms0) K (mkHp ms0 (hsOf s1.ctx) t) (absX ms0 s1 X) (fun m hm => hlkT m hm hk1)
    have hlk : lookup (tblF ms0) ((mkHp ms0 (hsOf s1.ctx) t).tok.lit.getD []) = (macroget ms0 (t.lit.getD [])).map toDefF :=
      lookup_tblF ms0 _
    have hpaint : (mkHp ms0 (hsOf s1.ctx) t).painted = (t.hide && (macroget s1.macros (t.lit.getD [])).isSome) := by
      show (t.hide && isMac ms0 t) = _
      rw [isMac_stat g.stat t hk1]
    rw [expandObj_eq]
    simp only [hk, ↓reduceIte]
    cases hm : macroget s1.macros (t.lit.getD []) with
    | none =>
      have hm0 := macroget_stat_none g.stat hm
      have hp0 : (mkHp ms0 (hsOf s1.ctx) t).painted = false := by rw [hpaint, hm]; simp
      refine ⟨goodP_setrt g _ _, (by first | rfl | trivial), .inr ⟨(by first | rfl | trivial), (by first | rfl | trivial), (by first | rfl | trivial), (by first | rfl | trivial), (by first | rfl | trivial), (by first | rfl | trivial), ?_⟩⟩
      intro K
      rw [hstep K, hlk, hm0]
      simp only [hk', ne_eq, not_true_eq_false, hp0, Bool.false_eq_true, or_self, ↓reduceIte, Option.map_none]
      show consE _ _ = consE _ _
      have : eraseHs (mkHp ms0 (hsOf s1.ctx) t) = mkHp ms0 [] { t with hide := true } := by
        have hi : isMac ms0 t = false := by rw [isMac_stat g.stat t hk1, hm]; rfl
        simp [eraseHs, mkHp, hi, isMac_sethide, toP]
      simp only [consE, this]
      rfl
    | some m =>
      obtain ⟨m0, hm0, hs⟩ := macroget_stat_some g.stat hm
      have hse := stat_eq hs
      have hmem := macroget_mem hm
      have hmem0 := macroget_mem hm0
      have hmf : m.func = false := hnf m hm hk1
      have hi : isMac ms0 t = true := by rw [isMac_stat g.stat t hk1, hm]; rfl
      have hcontains : (hsOf s1.ctx).contains m.name = m.hide := by
        have := g.inv.hideIff m hmem.1
        cases hh : m.hide with
        | true =>
          have := this.mp hh
          simp [hsOf, this]
        | false =>
          have hn : m.name ∉ liveNames s1.ctx := fun hx => by rw [this.mpr hx] at hh; cases hh
          simp [hsOf, hn]
      have hpt : (mkHp ms0 (hsOf s1.ctx) t).painted = t.hide := by rw [hpaint, hm]; simp
      have hemit : mkHp ms0 [] { t with hide := true } = ⟨toP t, [], true⟩ := by
        simp [mkHp, isMac_sethide, hi, toP]
      by_cases hh : m.hide = true ∨ t.hide = true
      · simp only [hh, ↓reduceIte]
        refine ⟨goodP_setrt g _ _, (by first | rfl | trivial), .inr ⟨(by first | rfl | trivial), (by first | rfl | trivial), (by first | rfl | trivial), (by first | rfl | trivial), (by first | rfl | trivial), (by first | rfl | trivial), ?_⟩⟩
        intro K
        rw [hstep K]
        by_cases hth : t.hide = true
        · have : (mkHp ms0 (hsOf s1.ctx) t).painted = true := by rw [hpt, hth]
          simp only [this, or_true, ↓reduceIte]
          show consE _ _ = consE _ _
          have e : eraseHs (mkHp ms0 (hsOf s1.ctx) t) = ⟨toP t, [], true⟩ := by
            simp [eraseHs, mkHp, hth, hi]
          simp only [consE, e, hemit]
          rfl
        · have hthf : t.hide = false := by cases h : t.hide <;> simp_all
          have hmh : m.hide = true := by rcases hh with h | h; exact h; exact absurd h hth
          have : (mkHp ms0 (hsOf s1.ctx) t).painted = false := by rw [hpt, hthf]
          rw [hlk, hm0]
          simp only [hk', ne_eq, not_true_eq_false, this, Bool.false_eq_true, or_self, ↓reduceIte, Option.map_some]
          have hc : (mkHp ms0 (hsOf s1.ctx) t).hs.contains (toDefF m0).name = true := by
            show (hsOf s1.ctx).contains m0.name = true
            rw [hse.1, hcontains, hmh]
          simp only [hc, ↓reduceIte]
          show consE _ _ = consE _ _
          simp only [consE, hemit]
          rfl
      · have hhf : m.hide = false := by cases h : m.hide <;> simp_all
        have hth : t.hide = false := by cases h : t.hide <;> simp_all
        simp only [hhf, hth, Bool.false_eq_true, or_self, ↓reduceIte]
        have hc : (hsOf s1.ctx).contains m.name = false := by rw [hcontains, hhf]
        have hgetn : macroget s1.macros m.name = some m := by rw [hmem.2]; exact hm
        have hbody : m.body = m0.body := hse.2.2.2.symm
        have hbne : m.body ≠ [] := by rw [hbody]; exact hT.bodyNe m0 hmem0.1
        have hbhide : ∀ x ∈ m.body, x.hide = false := by
          intro x hx; rw [hbody] at hx; exact (hT.bodyOk m0 hmem0.1 x hx).1.2.2
        have hfr : frameToks (setHide s1.macros m.name true) ⟨respace m.body t.space, some m.name⟩ = respace m.body t.space := by
          rw [frameToks_setHide]
          unfold frameToks
          simp only [Option.bind_some, hgetn, hmf, Bool.false_eq_true, ↓reduceIte]
        have hfr' : frameToks s1.macros ⟨respace m.body t.space, some m.name⟩ = respace m.body t.space := by
          rw [← frameToks_setHide s1.macros m.name true]; exact hfr
        have hl : liveNames (⟨respace m.body t.space, some m.name⟩ :: s1.ctx) = m.name :: liveNames s1.ctx :=
          liveNames_cons_some _ _ _ rfl
        have hrne : respace m.body t.space ≠ [] := by
          cases hb : m.body with
          | nil => exact absurd hb hbne
          | cons a r => simp [respace]
        refine ⟨?_, rfl, .inl ⟨rfl, rfl, ?_, ?_⟩⟩
        · refine ⟨?_, invC_push _ g.inv hmem.1 hhf, ctxWF_push_obj m _ g.wf hgetn hmf, ?_, ?_, g.prag, g.ppnl⟩
          · show (setHide s1.macros m.name true).map stat = _
            rw [stat_setHide]; exact g.stat
          · intro x hx
            have hx' : x ∈ flat (setHide s1.macros m.name true) (⟨respace m.body t.space, some m.name⟩ :: s1.ctx) := hx
            simp only [flat, hfr, flat_setHide, List.mem_append] at hx'
            rcases hx' with hx' | hx'
            · obtain ⟨b, hb, hkb⟩ := mem_respace_kh hx'
              rw [hbody] at hb
              have hbo := hT.bodyOk m0 hmem0.1 b hb
              exact flatP_of_kh hkb ⟨hbo.1.1, hbo.1.2.1, hbo.2⟩
            · exact g.flatOk x hx'
          · intro L hL
            have hL' : L ∈ flatG (fun L _ => L) (setHide s1.macros m.name true) (⟨respace m.body t.space, some m.name⟩ :: s1.ctx) := hL
            simp only [flatG, flatG_setHide, hfr, hl, List.mem_append, List.mem_map] at hL'
            rcases hL' with ⟨_, _, rfl⟩ | hL'
            · simp
            · exact g.live L hL'
        · show flat (setHide s1.macros m.name true) (⟨respace m.body t.space, some m.name⟩ :: s1.ctx) ≠ []
          simp only [flat, hfr]
          intro hh
          exact hrne (List.append_eq_nil_iff.mp hh).1
        · intro K
          have hpf : (mkHp ms0 (hsOf s1.ctx) t).painted = false := by rw [hpt, hth]
          rw [hstep K, hlk, hm0]
          simp only [hk', ne_eq, not_true_eq_false, hpf, Bool.false_eq_true, or_self, ↓reduceIte, Option.map_some]
          have : (mkHp ms0 (hsOf s1.ctx) t).hs.contains (toDefF m0).name = false := by
            show (hsOf s1.ctx).contains m0.name = false
            rw [hse.1]; exact hc
          simp only [this, Bool.false_eq_true, ↓reduceIte]
          have hu : union (mkHp ms0 (hsOf s1.ctx) t).hs [(toDefF m0).name] = hsOf s1.ctx ++ [m.name] := by
            show union (hsOf s1.ctx) [m0.name] = _
            rw [hse.1]; exact union_single hc
          rw [hu]
          have hb2 : hsadd (hsOf s1.ctx ++ [m.name]) ((toDefF m0).body.map fun t => (⟨t, [], false⟩ : HTok)) =
              m.body.map (mkH (hsOf s1.ctx ++ [m.name])) := by
            show hsadd _ ((m0.body.map toP).map _) = _
            rw [hsadd_body, hbody]
          rw [hb2]
          have hne2 : m.body.map (mkH (hsOf s1.ctx ++ [m.name])) ≠ [] := by
            intro hh; exact hbne (List.map_eq_nil_iff.mp hh)
          rw [respace_snd_of_ne_nil _ hne2, pendItems_false, ← map_mkH_respace]
          congr 2
          show _ = absX ms0 (pushed m t s1) X
          have hann : annHp ms0 (m.name :: liveNames s1.ctx) = mkHp ms0 ((liveNames s1.ctx).reverse ++ [m.name]) := by
            funext x; simp [annHp]
          simp only [absX, pushed, flatG, flatG_setHide, List.map_append, List.append_assoc, hl, hann, hfr', hsOf]
          rw [map_mkHp_nohide ms0 _ _ (respace_hide hbhide)]
          rfl

end CprocVerif.PP

import CprocVerif.Lemmas.PPObjSim
import CprocVerif.Lemmas.Keyword

/-! # Object-like macro sets, part D: `next()` and the whole stream against the reference -/

namespace CprocVerif.PP
open CprocVerif.Gen.TokenKinds
open CprocVerif.Spec.MacroRef (HTok Item PTok MacroDef RErr Flag expandH)
open CprocVerif.Spec

theorem keyword_kind {l : List UInt8} {k : Kind} (h : Scan.keyword l = some k) : k ≠ .TEOF := by
  have hm : (l, k) ∈ Gen.Keywords.table :=
    (Scan.bsearch_mem Gen.Keywords.table Scan.keywords_sorted l k).mp h
  have : ∀ e ∈ Gen.Keywords.table, e.2 ≠ Kind.TEOF := by decide +kernel
  exact this _ hm

theorem toKeyword_eof (t : Tok) : (toKeyword t).kind = .TEOF ↔ t.kind = .TEOF := by
  unfold toKeyword
  split
  · rename_i hk
    split
    · rename_i k hkw
      have hkk : ∃ l, Scan.keyword l = some k := by
        cases hl : t.lit with
        | none => rw [hl] at hkw; cases hkw
        | some l => rw [hl] at hkw; exact ⟨l, hkw⟩
      obtain ⟨l, hl⟩ := hkk
      have := keyword_kind hl
      simp only [this, hk, false_iff]
      intro h; cases h
    · rfl
  · rfl

/-- the key of a token after `keyword()` -/
def kwKey (k : Kind × Option Name) : Kind × Option Name :=
  ((toKeyword ⟨k.1, k.2, false, false⟩).kind, (toKeyword ⟨k.1, k.2, false, false⟩).lit)

theorem toKeyword_key (t : Tok) : ((toKeyword t).kind, (toKeyword t).lit) = kwKey (t.kind, t.lit) := by
  unfold kwKey toKeyword
  simp only
  split
  · split <;> rfl
  · rfl

/-- what `stepObj` does on a good state, in terms of the reference -/
inductive Step1 (st s2 : St) : Prop where
  | expanded (h1 : s2.rb = true)
      (h2 : ∀ K, outKeys (expandH false (K + 1) (toTbl st.macros) (absSt st)) = outKeys (expandH false K (toTbl st.macros) (absSt s2)))
  | newline (h1 : s2.rb = false) (h2 : s2.rt.kind = .TNEWLINE) (h3 : absSt s2 = absSt st)
  | eof (h1 : s2.rb = false) (h2 : s2.rt.kind = .TEOF) (h3 : absSt st = [])
  | out (h1 : s2.rb = false) (h2 : s2.rt.kind ≠ .TNEWLINE) (h3 : s2.rt.kind ≠ .TEOF)
      (h4 : ∀ K, outKeys (expandH false (K + 1) (toTbl st.macros) (absSt st)) =
        consKey (s2.rt.kind, s2.rt.lit) (outKeys (expandH false K (toTbl st.macros) (absSt s2))))

theorem step_sim (st : St) (g : Good st) :
    Good (stepObj st) ∧ toTbl (stepObj st).macros = toTbl st.macros ∧ Step1 st (stepObj st) := by
  obtain ⟨g1, ht1, hr⟩ := rawnext_good st g
  unfold stepObj
  simp only
  cases hr with
  | tok hk habs =>
    obtain ⟨g2, ht2, hcase⟩ := expand_sim (rawnextObj st) g1 (rawnextObj st).rt hk
    refine ⟨g2, by rw [ht2, ht1], ?_⟩
    rcases hcase with ⟨hrb, hK⟩ | ⟨hrb, hkind, hlit, hab, hK⟩
    · refine .expanded hrb ?_
      intro K
      rw [habs, ← ht1]
      exact hK K
    · refine .out hrb (by rw [hkind]; exact hk.1) (by rw [hkind]; exact hk.2.1) ?_
      intro K
      rw [habs, ← ht1, hkind, hlit, hab]
      exact hK K
  | nl hk habs =>
    have hne : (rawnextObj st).rt.kind ≠ .TIDENT := by rw [hk]; decide
    have he : expandObj (rawnextObj st).rt (rawnextObj st) = { rawnextObj st with rb := false, rt := (rawnextObj st).rt } := by
      rw [expandObj_eq]; simp only [hne, ne_eq, not_false_eq_true, ↓reduceIte]
    rw [he]
    exact ⟨good_setrt g1 _ _, ht1, .newline rfl hk (by rw [absSt_setrt, habs])⟩
  | eof hk habs habs1 =>
    have hne : (rawnextObj st).rt.kind ≠ .TIDENT := by rw [hk]; decide
    have he : expandObj (rawnextObj st).rt (rawnextObj st) = { rawnextObj st with rb := false, rt := (rawnextObj st).rt } := by
      rw [expandObj_eq]; simp only [hne, ne_eq, not_false_eq_true, ↓reduceIte]
    rw [he]
    exact ⟨good_setrt g1 _ _, ht1, .eof rfl (by show (rawnextObj st).rt.kind = _; rw [hk]; rfl) habs⟩

/-- **One call of `next()`**: if it completes, the reference, given `j + 1` more units of fuel than
it needs for the rest, delivers the same token first (or, at the end of the input, nothing). -/
theorem next_sim : ∀ (n : Nat) (st st' : St), Good st → exec n .next st = .ok st' →
    Good st' ∧ toTbl st'.macros = toTbl st.macros ∧ st'.tok = toKeyword st'.rt ∧
    ((st'.rt.kind = .TEOF ∧ ∃ j, ∀ K, outKeys (expandH false (K + j + 1) (toTbl st.macros) (absSt st)) = ([], none)) ∨
     (st'.rt.kind ≠ .TEOF ∧ ∃ j, ∀ K, outKeys (expandH false (K + j + 1) (toTbl st.macros) (absSt st)) =
        consKey (st'.rt.kind, st'.rt.lit) (outKeys (expandH false K (toTbl st.macros) (absSt st'))))) := by
  intro n
  induction n using Nat.strongRecOn with
  | _ n ih =>
    intro st st' g h
    match n, h with
    | 0, h => cases h
    | 1, h => rw [(next_low st).2.1] at h; cases h
    | 2, h => rw [(next_low st).2.2] at h; cases h
    | k + 3, h =>
      rw [next_obj k st g.obj g.plain] at h
      obtain ⟨g2, ht2, hs⟩ := step_sim st g
      by_cases ha : again (stepObj st)
      · rw [if_pos ha] at h
        obtain ⟨g', ht', htok, hcase⟩ := ih (k + 2) (by omega) (stepObj st) st' g2 h
        refine ⟨g', by rw [ht', ht2], htok, ?_⟩
        cases hs with
        | expanded h1 h2 =>
          rcases hcase with ⟨he, j, hj⟩ | ⟨he, j, hj⟩
          · refine .inl ⟨he, j + 1, ?_⟩
            intro K
            have := h2 (K + j + 1)
            rw [show K + (j + 1) + 1 = K + j + 1 + 1 by omega, this, ← ht2]
            exact hj K
          · refine .inr ⟨he, j + 1, ?_⟩
            intro K
            have := h2 (K + j + 1)
            rw [show K + (j + 1) + 1 = K + j + 1 + 1 by omega, this, ← ht2]
            exact hj K
        | newline h1 h2 h3 =>
          rw [h3, ht2] at hcase
          exact hcase
        | eof h1 h2 h3 =>
          exfalso
          unfold again at ha
          rw [h1, h2] at ha
          rcases ha with ha | ha
          · cases ha
          · cases ha.1
        | out h1 h2 h3 h4 =>
          exfalso
          unfold again at ha
          rw [h1] at ha
          rcases ha with ha | ha
          · cases ha
          · exact h2 ha.1
      · rw [if_neg ha] at h
        cases h
        refine ⟨⟨g2.inv, g2.obj, g2.plain, g2.rawNoHide, g2.ctxOk, g2.bodyOk, g2.ppnl⟩, ht2, rfl, ?_⟩
        cases hs with
        | expanded h1 h2 => exact absurd (.inl h1) ha
        | newline h1 h2 h3 => exact absurd (.inr ⟨h2, g2.ppnl⟩) ha
        | eof h1 h2 h3 =>
          refine .inl ⟨h2, 0, ?_⟩
          intro K
          rw [h3]
          rfl
        | out h1 h2 h3 h4 =>
          refine .inr ⟨h3, 0, ?_⟩
          intro K
          exact h4 K

theorem run_ne_nil (n : Nat) (st : St) (h : (run n st).2 = none) : (run n st).1 ≠ [] := by
  cases n with
  | zero => cases h
  | succ m =>
    unfold run at h ⊢
    cases hx : exec m .next st with
    | error e => rw [hx] at h; cases h
    | ok s =>
      simp only
      split <;> simp

/-- the tokens of a completed run, without the final `TEOF`, by class and spelling -/
def runKeys (toks : List Tok) : List (Kind × Option Name) := toks.dropLast.map fun t => (t.kind, t.lit)

/-- **The whole stream**: a completed run of the model on a good state is what the reference
produces from the abstraction of that state, once the reference has enough fuel (`J`), modulo
`keyword()`. -/
theorem run_sim : ∀ (n : Nat) (st : St), Good st → (run n st).2 = none →
    ∃ J, ∀ K, outKeys (expandH false (K + J) (toTbl st.macros) (absSt st)) =
      (((outKeys (expandH false (K + J) (toTbl st.macros) (absSt st))).1), none) ∧
      (outKeys (expandH false (K + J) (toTbl st.macros) (absSt st))).1.map kwKey = runKeys (run n st).1 := by
  intro n
  induction n with
  | zero => intro st _ h; cases h
  | succ n ih =>
    intro st g h
    unfold run at h ⊢
    cases hx : exec n .next st with
    | error e => rw [hx] at h; cases h
    | ok st1 =>
      rw [hx] at h
      simp only at h ⊢
      obtain ⟨g1, ht1, htok, hcase⟩ := next_sim n st st1 g hx
      by_cases he : st1.tok.kind = .TEOF
      · simp only [he, ↓reduceIte]
        have hrt : st1.rt.kind = .TEOF := by rw [htok] at he; exact (toKeyword_eof _).mp he
        rcases hcase with ⟨_, j, hj⟩ | ⟨hne, _⟩
        · refine ⟨j + 1, ?_⟩
          intro K
          rw [show K + (j + 1) = K + j + 1 by omega, hj K]
          exact ⟨rfl, rfl⟩
        · exact absurd hrt hne
      · simp only [he, ↓reduceIte] at h ⊢
        have hrt : st1.rt.kind ≠ .TEOF := by rw [htok] at he; exact fun hh => he ((toKeyword_eof _).mpr hh)
        rcases hcase with ⟨heq, _⟩ | ⟨_, j, hj⟩
        · exact absurd heq hrt
        · obtain ⟨J, hJ⟩ := ih st1 g1 h
          refine ⟨J + j + 1, ?_⟩
          intro K
          rw [show K + (J + j + 1) = (K + J) + j + 1 by omega, hj (K + J), ← ht1]
          have := hJ K
          constructor
          · simp only [consKey]
            rw [this.1]
          · simp only [consKey, List.map_cons, this.2, runKeys]
            have hne : (run n st1).1 ≠ [] := run_ne_nil n st1 h
            rw [List.dropLast_cons_of_ne_nil hne, List.map_cons, htok, toKeyword_key]

end CprocVerif.PP

import CprocVerif.Lemmas.DriverFail

/-! C18: one pipeline (`runPipe`) and the whole invocation (`runFrom`). -/

namespace CprocVerif.DriverFailLemmas
open CprocVerif.DriverFail

/-- fair schedule: `wait()` eventually hands back every child that was started -/
def Fair (ps : PipeScript) : Prop := ∀ i ∈ startedOf ps, ∃ r ∈ ps.reaps, r.stage = i

instance (ps : PipeScript) : Decidable (Fair ps) := by unfold Fair; exact inferInstance

/-- some tool of the pipeline cannot be started, or a started tool terminates with a non-zero
status or by a signal -/
def failsB (ps : PipeScript) : Bool :=
  (List.range ps.n).any (fun j => !ps.ok j) ||
  (startedOf ps).any (fun i => firstStatus ps.reaps i == some .fail)

theorem runPipe_spec {ps : PipeScript} {s : PState} (h : runPipe ps = some s) :
    s.live = [] ∧ s.npids = 0 ∧ s.success = !failsB ps ∧ KillInv s := by
  obtain ⟨hw, hk, hl, hs, _⟩ := spawned_spec ps
  obtain ⟨h1, h2, h3⟩ := reapLoop_spec _ _ _ hw h
  refine ⟨h1, h2, ?_, reapLoop_inv _ _ _ hw hk h⟩
  rw [h3, hl]
  unfold failsB
  have hsucc : (spawnLoop ps ps.n 0 initP).success = !(List.range ps.n).any (fun j => !ps.ok j) := by
    rw [Bool.eq_iff_iff, hs]
    simp
  rw [hsucc]
  have : ((startedOf ps).all fun i => firstStatus ps.reaps i != some Status.fail) =
      !((startedOf ps).any fun i => firstStatus ps.reaps i == some Status.fail) := by
    rw [Bool.eq_iff_iff]
    simp
  rw [this]
  cases (List.range ps.n).any (fun j => !ps.ok j) <;> simp

theorem runPipe_total {ps : PipeScript} (hf : Fair ps) : ∃ s, runPipe ps = some s := by
  obtain ⟨hw, _, hl, _, _⟩ := spawned_spec ps
  apply reapLoop_total _ _ hw
  rw [hl]; exact hf

/-! ### the whole invocation -/

def stepFiles (sc : Script) (q : Nat) (ps : PipeScript) (f : Files) : Files :=
  if sc.link then { f with temps := f.temps ++ [q] }
  else if ps.created then { f with outputs := f.outputs ++ [q] }
  else f

def filesAfter (sc : Script) : Nat → List PipeScript → Files → Files
  | _, [], f => f
  | q, ps :: r, f => filesAfter sc (q + 1) r (stepFiles sc q ps f)

def OkPipe (ps : PipeScript) : Prop := Fair ps ∧ failsB ps = false

/-- what a pipeline that ran adds to the outcome record -/
def stepOut (q : Nat) (ps : PipeScript) (o : Outcome) : Outcome :=
  match runPipe ps with
  | some s =>
    { o with started := o.started ++ tag q (startedOf ps)
             signalled := o.signalled ++ tag q s.signalled.reverse
             finished := o.finished ++ tag q s.finished.reverse
             live := o.live ++ tag q s.live }
  | none => o

def outAfter : Nat → List PipeScript → Outcome → Outcome
  | _, [], o => o
  | q, ps :: r, o => outAfter (q + 1) r (stepOut q ps o)

theorem stepOut_core (q : Nat) (ps : PipeScript) (o : Outcome) (h : OkPipe ps) :
    (stepOut q ps o).live = o.live ∧ (stepOut q ps o).exit = o.exit ∧
      (stepOut q ps o).linkSpawned = o.linkSpawned := by
  obtain ⟨s, hs⟩ := runPipe_total h.1
  obtain ⟨hl, _, _, _⟩ := runPipe_spec hs
  simp [stepOut, hs, hl, tag]

theorem outAfter_core : ∀ (pre : List PipeScript) (q : Nat) (o : Outcome), (∀ ps ∈ pre, OkPipe ps) →
    (outAfter q pre o).live = o.live ∧ (outAfter q pre o).exit = o.exit ∧
      (outAfter q pre o).linkSpawned = o.linkSpawned := by
  intro pre
  induction pre with
  | nil => intro q o _; exact ⟨rfl, rfl, rfl⟩
  | cons ps pre ih =>
    intro q o h
    obtain ⟨a, b, c⟩ := stepOut_core q ps o (h ps (by simp))
    obtain ⟨a', b', c'⟩ := ih (q + 1) (stepOut q ps o) (fun x hx => h x (by simp [hx]))
    exact ⟨a'.trans a, b'.trans b, c'.trans c⟩

theorem runFrom_ok (sc : Script) (q : Nat) (ps : PipeScript) (rest : List PipeScript) (f : Files) (o : Outcome)
    (h : OkPipe ps) :
    runFrom sc q (ps :: rest) f o = runFrom sc (q + 1) rest (stepFiles sc q ps f) (stepOut q ps o) := by
  obtain ⟨s, hs⟩ := runPipe_total h.1
  obtain ⟨hl, _, hsucc, _⟩ := runPipe_spec hs
  simp only [runFrom, hs, stepOut]
  have : s.success = true := by rw [hsucc, h.2]; rfl
  simp only [this, if_true]
  have : stepFiles sc q ps f =
      (if (!sc.link && ps.created) = true then
        { (if sc.link = true then { f with temps := f.temps ++ [q] } else f) with
          outputs := (if sc.link = true then { f with temps := f.temps ++ [q] } else f).outputs ++ [q] }
       else (if sc.link = true then { f with temps := f.temps ++ [q] } else f)) := by
    unfold stepFiles
    cases sc.link <;> cases ps.created <;> rfl
  rw [this]

theorem runFrom_prefix (sc : Script) : ∀ (pre : List PipeScript) (q : Nat) (rest : List PipeScript) (f : Files)
    (o : Outcome), (∀ ps ∈ pre, OkPipe ps) →
    runFrom sc q (pre ++ rest) f o =
      runFrom sc (q + pre.length) rest (filesAfter sc q pre f) (outAfter q pre o) := by
  intro pre
  induction pre with
  | nil => intro q rest f o _; simp [filesAfter, outAfter]
  | cons ps pre ih =>
    intro q rest f o h
    rw [List.cons_append, runFrom_ok sc q ps (pre ++ rest) f o (h ps (by simp)),
      ih (q + 1) rest _ _ (fun x hx => h x (by simp [hx])), filesAfter, outAfter, List.length_cons]
    congr 1; omega

theorem runFrom_fail (sc : Script) (q : Nat) (ps : PipeScript) (post : List PipeScript) (f : Files) (o : Outcome)
    (hf : Fair ps) (hb : failsB ps = true) :
    let r := runFrom sc q (ps :: post) f o
    r.exit = some 1 ∧ r.linkSpawned = o.linkSpawned ∧ r.live = o.live ∧ r.files.temps = [] ∧
      q ∉ r.files.outputs ∧ (∀ x ∈ r.files.outputs, x ∈ f.outputs) := by
  obtain ⟨s, hs⟩ := runPipe_total hf
  obtain ⟨hl, _, hsucc, _⟩ := runPipe_spec hs
  have : s.success = false := by rw [hsucc, hb]; rfl
  intro r
  have e : r = runFrom sc q (ps :: post) f o := rfl
  simp only [runFrom, hs, this, Bool.false_eq_true, if_false, cleanup] at e
  rw [e]
  refine ⟨rfl, rfl, by simp [hl, tag], rfl, ?_, ?_⟩
  · simp [List.mem_filter]
  · intro x hx
    simp only [List.mem_filter] at hx
    cases hlk : sc.link <;> simp [hlk] at hx <;> exact hx.1

theorem filesAfter_temps (sc : Script) : ∀ (pre : List PipeScript) (q : Nat) (f : Files),
    (filesAfter sc q pre f).temps = f.temps ++ (if sc.link then List.range' q pre.length else []) := by
  intro pre
  induction pre with
  | nil => intro q f; simp [filesAfter]
  | cons ps pre ih =>
    intro q f
    rw [filesAfter, ih]
    unfold stepFiles
    cases sc.link <;> cases ps.created <;> simp [List.range'_succ]

/-- the pipelines (numbered from `q`) whose tool created the output -/
def createdIdx : Nat → List PipeScript → List Nat
  | _, [] => []
  | q, ps :: r => (if ps.created then [q] else []) ++ createdIdx (q + 1) r

theorem filesAfter_outputs (sc : Script) : ∀ (pre : List PipeScript) (q : Nat) (f : Files),
    (filesAfter sc q pre f).outputs = f.outputs ++ (if sc.link then [] else createdIdx q pre) := by
  intro pre
  induction pre with
  | nil => intro q f; simp [filesAfter, createdIdx]
  | cons ps pre ih =>
    intro q f
    rw [filesAfter, ih]
    unfold stepFiles
    cases hl : sc.link <;> cases hc : ps.created <;> simp [createdIdx, hc]

theorem runFrom_exit_some (sc : Script) : ∀ (pipes : List PipeScript) (q : Nat) (f : Files) (o : Outcome),
    (∀ ps ∈ pipes, Fair ps) → (runFrom sc q pipes f o).exit ≠ none := by
  intro pipes
  induction pipes with
  | nil =>
    intro q f o _
    simp only [runFrom, runLink]
    cases sc.link <;> cases sc.linkSpawnOk <;> simp
  | cons ps rest ih =>
    intro q f o h
    obtain ⟨s, hs⟩ := runPipe_total (h ps (by simp))
    simp only [runFrom, hs]
    cases s.success with
    | true => simp only [if_true]; exact ih _ _ _ (fun x hx => h x (by simp [hx]))
    | false => simp

/-! ### every state the wait loop goes through -/

theorem foldl_step_inv (reaps : List Reap) : ∀ s : PState, WF s → KillInv s →
    WF (reaps.foldl (fun s r => stepReap r s) s) ∧ KillInv (reaps.foldl (fun s r => stepReap r s) s) := by
  induction reaps with
  | nil => intro s hw hk; exact ⟨hw, hk⟩
  | cons r rest ih => intro s hw hk; exact ih _ (stepReap_wf r hw) (stepReap_inv r hw hk)

/-! ### file descriptors -/

/-- what stage `i` of an `n`-stage pipeline must hold: the read end of the previous pipe as
stdin and the write end of its own pipe as stdout, nothing else -/
def childSpec (n i : Nat) : List (Nat × End) :=
  (if i = 0 then [] else [(i - 1, End.rd)]) ++ (if i + 1 = n then [] else [(i, End.wr)])

/-- what the driver holds after `k` stages of `n`: only the read end it is about to hand to the
next stage -/
def driverSpec (n k : Nat) : List Fd := if k = 0 ∨ n ≤ k then [] else [⟨k - 1, .rd, true⟩]

theorem childFds_cloexec (d : List Fd) (hx : ∀ f ∈ d, f.cloexec = true) (cur : Option Nat) (out : Option Nat) :
    childFds d cur out =
      (match cur with | some p => [(p, End.rd)] | none => []) ++ (match out with | some p => [(p, End.wr)] | none => []) := by
  unfold childFds
  have : d.filter (fun f => !f.cloexec) = [] := by
    rw [List.filter_eq_nil_iff]
    intro f hf
    simp [hx f hf]
  rw [this]
  cases cur <;> cases out <;> rfl

/-- invariant of the spawn loop after `k` stages of `n` -/
structure FdInv (n k : Nat) (s : FdState) : Prop where
  driver : s.driver = driverSpec n k
  cur : k < n → s.cur = (if k = 0 then none else some (k - 1))
  children : s.children = (List.range k).map (childSpec n)

theorem driverSpec_cloexec (n k : Nat) : ∀ f ∈ driverSpec n k, f.cloexec = true := by
  intro f hf
  unfold driverSpec at hf
  split at hf
  · simp at hf
  · simp at hf; subst hf; rfl

theorem spawnphaseFd_inv (n k : Nat) (s : FdState) (hk : k < n) (h : FdInv n k s) :
    FdInv n (k + 1) (spawnphaseFd true k (k + 1 == n) s) := by
  have hd := h.driver; have hc := h.cur hk; have hch := h.children
  unfold spawnphaseFd
  by_cases hl : k + 1 = n
  · have hl' : (k + 1 == n) = true := by simpa using hl
    simp only [hl', if_true]
    refine ⟨?_, fun h' => by omega, ?_⟩
    · rw [hd, hc]
      unfold driverSpec closeCur
      have hn : n ≤ k + 1 := by omega
      by_cases h0 : k = 0
      · subst h0; simp [hn]
      · have : ¬(k = 0 ∨ n ≤ k) := by omega
        simp [h0, this, hn]
    · rw [hch, List.range_succ, List.map_append, List.map_singleton]
      congr 1
      rw [hd, childFds_cloexec _ (driverSpec_cloexec n k), hc]
      unfold childSpec
      by_cases h0 : k = 0 <;> simp [h0, hl] <;> omega
  · have hl' : (k + 1 == n) = false := by simpa using hl
    simp only [hl', Bool.false_eq_true, if_false]
    refine ⟨?_, fun _ => by simp, ?_⟩
    · rw [hd, hc]
      unfold driverSpec closeCur
      have h1 : ¬(k + 1 = 0 ∨ n ≤ k + 1) := by omega
      have h2 : ¬(n ≤ k + 1) := by omega
      by_cases h0 : k = 0
      · subst h0; simp [h2]
      · have : ¬(k = 0 ∨ n ≤ k) := by omega
        have h3 : ¬(k - 1 = k) := by omega
        have h4 : ¬(k = k - 1) := by omega
        have h5 : ¬(n ≤ k) := by omega
        simp [h0, this, h2, h3, h4, h5, List.filter_cons]
    · rw [hch, List.range_succ, List.map_append, List.map_singleton]
      congr 1
      rw [hd, childFds_cloexec _ (by
        intro f hf
        rcases List.mem_append.1 hf with h' | h'
        · exact driverSpec_cloexec n k f h'
        · simp at h'; rcases h' with rfl | rfl <;> rfl), hc]
      unfold childSpec
      by_cases h0 : k = 0 <;> simp [h0, hl] <;> omega

theorem spawnAllFd_inv (n : Nat) : ∀ (fuel k : Nat) (s : FdState), k + fuel ≤ n → FdInv n k s →
    FdInv n (k + fuel) (spawnAllFd true n fuel k s) := by
  intro fuel
  induction fuel with
  | zero => intro k s _ h; simpa [spawnAllFd] using h
  | succ fuel ih =>
    intro k s hle h
    simp only [spawnAllFd]
    have := ih (k + 1) _ (by omega) (spawnphaseFd_inv n k s (by omega) h)
    rw [show k + (fuel + 1) = k + 1 + fuel by omega]
    exact this

theorem fdsAfter_inv (n m : Nat) (h : m ≤ n) : FdInv n m (fdsAfter true n m) := by
  have := spawnAllFd_inv n m 0 { driver := [], cur := none, children := [] } (by omega)
    ⟨by simp [driverSpec], by simp, by simp⟩
  simpa [fdsAfter] using this

end CprocVerif.DriverFailLemmas

import CprocVerif.Lemmas.AbiDescMain

/-!
# Lemmas for C08, part 7: the three targets agree on `good` types; merging the bit-fields of one
storage unit does not change which bytes hold integers (`FieldsEquiv`)
-/

namespace CprocVerif.AbiDesc
open CprocVerif.Layout CprocVerif.Abi CprocVerif.QbeLayout

/-! ## Targets -/

theorem unnamedBf_of_declOk {d : Decl} (h : declOk d = true) : d.unnamedBf = false := by
  simp only [declOk, Bool.and_eq_true, Bool.or_eq_true] at h
  unfold Decl.unnamedBf
  rcases h.1 with h | h
  · simp [h]
  · cases hw : d.width with
    | none => simp
    | some w => simp [hw] at h

mutual
  theorem tinfo_target (T : Target) : ∀ (t : AType), good t = true →
      Abi.tinfo T (erase t) = Abi.tinfo x86_64 (erase t)
    | .sc _, _ => rfl
    | .blob .., _ => rfl
    | .array e none, h => by simp [good] at h
    | .array e (some n), h => by
      simp only [good, Bool.and_eq_true] at h
      simp only [erase, Abi.tinfo, tinfo_target T e h.1.1]
    | .su u p fs, h => by
      simp only [good, Bool.and_eq_true] at h
      obtain ⟨⟨⟨⟨_, hgf⟩, _⟩, hok⟩, _⟩ := h
      have hd := decls_target T fs hgf
      have hn : ∀ d ∈ Abi.decls x86_64 (eraseF fs), d.unnamedBf = false := fun d hd =>
        unnamedBf_of_declOk (List.all_eq_true.1 hok d hd)
      simp only [erase, Abi.tinfo, hd, layout_target hn]
  theorem decls_target (T : Target) : ∀ (fs : AFields), goodF fs = true →
      Abi.decls T (eraseF fs) = Abi.decls x86_64 (eraseF fs)
    | .nil, _ => rfl
    | .cons name ty al w rest, h => by
      simp only [goodF, Bool.and_eq_true] at h
      simp only [eraseF, Abi.decls, tinfo_target T ty h.1, decls_target T rest h.2]
end

mutual
  theorem flattenC_target (T : Target) (mg : Bool) : ∀ (t : AType), good t = true →
      flattenC T mg t = flattenC x86_64 mg t
    | .sc _, _ => rfl
    | .blob .., _ => rfl
    | .array e none, h => by simp [good] at h
    | .array e (some n), h => by
      simp only [good, Bool.and_eq_true] at h
      simp only [flattenC, tinfo_target T e h.1.1, flattenC_target T mg e h.1.1]
    | .su u p fs, h => by
      simp only [good, Bool.and_eq_true] at h
      obtain ⟨⟨⟨⟨_, hgf⟩, _⟩, hok⟩, _⟩ := h
      have hn : ∀ d ∈ Abi.decls x86_64 (eraseF fs), d.unnamedBf = false := fun d hd =>
        unnamedBf_of_declOk (List.all_eq_true.1 hok d hd)
      simp only [flattenC, decls_target T fs hgf, layout_target hn]
      exact flattenFields_target T mg _ fs hgf _ _
  theorem flattenFields_target (T : Target) (mg here : Bool) : ∀ (fs : AFields), goodF fs = true →
      ∀ (ms : List Member) (last : Option (Nat × Nat)),
      flattenFields T mg here fs ms last = flattenFields x86_64 mg here fs ms last
    | .nil, _, _, _ => by simp only [flattenFields]
    | .cons name ty al w rest, h, ms, last => by
      simp only [goodF, Bool.and_eq_true] at h
      cases ms with
      | nil => simp only [flattenFields, flattenFields_target T mg here rest h.2]
      | cons m ms' =>
        simp only [flattenFields, flattenC_target T mg ty h.1, flattenFields_target T mg here rest h.2]
end

/-! ## `FieldsEquiv` -/

theorem fe_refl (a : List Fld) : FieldsEquiv a a := ⟨rfl, fun _ => Iff.rfl⟩

theorem fe_trans {a b c : List Fld} (h1 : FieldsEquiv a b) (h2 : FieldsEquiv b c) : FieldsEquiv a c :=
  ⟨h1.1.trans h2.1, fun x => (h1.2 x).trans (h2.2 x)⟩

theorem intCovers_append (a b : List Fld) (x : Nat) : intCovers (a ++ b) x ↔ intCovers a x ∨ intCovers b x := by
  unfold intCovers
  constructor
  · rintro ⟨f, hf, h⟩
    rcases List.mem_append.1 hf with hf | hf
    · exact Or.inl ⟨f, hf, h⟩
    · exact Or.inr ⟨f, hf, h⟩
  · rintro (⟨f, hf, h⟩ | ⟨f, hf, h⟩)
    · exact ⟨f, List.mem_append_left _ hf, h⟩
    · exact ⟨f, List.mem_append_right _ hf, h⟩

theorem nonInt_append (a b : List Fld) : nonInt (a ++ b) = nonInt a ++ nonInt b := by
  unfold nonInt; rw [List.filter_append]

theorem fe_append {a b c d : List Fld} (h1 : FieldsEquiv a b) (h2 : FieldsEquiv c d) :
    FieldsEquiv (a ++ c) (b ++ d) := by
  refine ⟨by rw [nonInt_append, nonInt_append, h1.1, h2.1], fun x => ?_⟩
  rw [intCovers_append, intCovers_append, h1.2 x, h2.2 x]

theorem nonInt_shift (d : Nat) (a : List Fld) : nonInt (shift d a) = shift d (nonInt a) := by
  unfold nonInt shift
  induction a with
  | nil => rfl
  | cons f fs ih =>
    simp only [List.map_cons, List.filter_cons]
    split <;> simp [ih]

theorem intCovers_shift (d : Nat) (a : List Fld) (x : Nat) :
    intCovers (shift d a) x ↔ d ≤ x ∧ intCovers a (x - d) := by
  unfold intCovers shift
  constructor
  · rintro ⟨f, hf, hk, h1, h2⟩
    obtain ⟨g, hg, rfl⟩ := List.mem_map.1 hf
    simp only at hk h1 h2
    exact ⟨by omega, g, hg, hk, by omega, by omega⟩
  · rintro ⟨hd, g, hg, hk, h1, h2⟩
    exact ⟨_, List.mem_map.2 ⟨g, hg, rfl⟩, hk, by simp only; omega, by simp only; omega⟩

theorem fe_shift (d : Nat) {a b : List Fld} (h : FieldsEquiv a b) : FieldsEquiv (shift d a) (shift d b) := by
  refine ⟨by rw [nonInt_shift, nonInt_shift, h.1], fun x => ?_⟩
  rw [intCovers_shift, intCovers_shift, h.2]

theorem fe_rep {a b : List Fld} (h : FieldsEquiv a b) (s : Nat) : ∀ (n : Nat), FieldsEquiv (rep n s a) (rep n s b)
  | 0 => fe_refl _
  | n + 1 => by
    rw [rep_succ, rep_succ]
    exact fe_append h (fe_shift s (fe_rep h s n))

/-- an integer field repeated -/
theorem fe_dup (u : Fld) (hk : u.kind = .int) (a : List Fld) : FieldsEquiv (u :: a) (u :: u :: a) := by
  refine ⟨?_, fun x => ?_⟩
  · unfold nonInt
    simp [List.filter_cons, hk]
  · unfold intCovers
    constructor
    · rintro ⟨f, hf, h⟩
      exact ⟨f, List.mem_cons_of_mem _ hf, h⟩
    · rintro ⟨f, hf, h⟩
      rcases List.mem_cons.1 hf with rfl | hf
      · exact ⟨f, List.mem_cons_self .., h⟩
      · exact ⟨f, hf, h⟩

/-- the storage unit emitted last, as a field -/
def unitOf : Option (Nat × Nat) → List Fld
  | none => []
  | some (o, z) => [⟨o, z, .int⟩]

mutual
  /-- merging bit-fields of one storage unit (`merge := true`) leaves the floating fields and the
  integer-covered bytes unchanged: a statement about the spec alone, for every type -/
  theorem flattenC_merge (T : Target) : ∀ (t : AType), FieldsEquiv (flattenC T true t) (flattenC T false t)
    | .sc _ => fe_refl _
    | .blob .. => fe_refl _
    | .array e none => fe_refl _
    | .array e (some n) => by
      simp only [flattenC]
      exact fe_rep (flattenC_merge T e) _ n
    | .su u p fs => by
      simp only [flattenC]
      have := flattenFields_merge T (true && !u) fs (Abi.layout T u p (Abi.decls T (eraseF fs))).members none
      simpa [unitOf] using this
  theorem flattenFields_merge (T : Target) (here : Bool) : ∀ (fs : AFields) (ms : List Member)
      (last : Option (Nat × Nat)),
      FieldsEquiv (unitOf last ++ flattenFields T true here fs ms last)
        (unitOf last ++ flattenFields T false false fs ms last)
    | .nil, _, _ => by simp only [flattenFields]; exact fe_refl _
    | .cons name ty al w rest, ms, last => by
      by_cases hprod : (name.isSome || w.isNone) = true
      · cases ms with
        | nil => simp only [flattenFields, hprod, ↓reduceIte]; exact fe_refl _
        | cons m ms' =>
          cases w with
          | none =>
            simp only [flattenFields, hprod, ↓reduceIte]
            have i1 := flattenFields_merge T here rest ms' none
            simp only [unitOf, List.nil_append] at i1
            exact fe_append (fe_refl _) (fe_append (fe_shift _ (flattenC_merge T ty)) i1)
          | some w' =>
            have i1 := flattenFields_merge T here rest ms' (some (m.offset, m.tsize))
            simp only [unitOf, List.singleton_append] at i1
            simp only [flattenFields, hprod, ↓reduceIte, Bool.false_and, Bool.false_eq_true]
            by_cases hm : (here && last == some (m.offset, m.tsize)) = true
            · simp only [hm, ↓reduceIte, List.nil_append]
              simp only [Bool.and_eq_true, beq_iff_eq] at hm
              rw [hm.2]
              simp only [unitOf, List.singleton_append]
              exact fe_trans i1 (fe_dup _ rfl _)
            · simp only [hm, Bool.false_eq_true, ↓reduceIte]
              exact fe_append (fe_refl _) i1
      · simp only [flattenFields, hprod, Bool.false_eq_true, ↓reduceIte]
        exact flattenFields_merge T here rest ms last
end

end CprocVerif.AbiDesc

import CprocVerif.Lemmas.PPFunSim3

/-! # Whole-stream simulation, part 4: `expand` on the name of a function-like macro in the text -/

namespace CprocVerif.PP
open CprocVerif.Gen.TokenKinds
open CprocVerif.Spec.MacroRef (HTok Item PTok MacroDef RErr Flag expandH hsadd union pendItems lookup
  matchParen splitTop subst elems paramIndex)
open CprocVerif.Spec

theorem mem_setArgs {ms : List Macro} {n : Name} {a : List Arg} {x : Macro} (h : x ∈ setArgs ms n a) :
    ∃ m ∈ ms, x = if m.name = n then { m with args := a } else m := by
  unfold setArgs at h
  obtain ⟨m, hm, rfl⟩ := List.mem_map.mp h
  exact ⟨m, hm, rfl⟩

theorem setArgs_names (ms : List Macro) (n : Name) (a : List Arg) : (setArgs ms n a).map (·.name) = ms.map (·.name) := by
  unfold setArgs
  rw [List.map_map]
  apply List.map_congr_left
  intro m _
  simp only [Function.comp]
  split <;> rfl

theorem invC_setArgs {ctx : List Frame} {ms : List Macro} {d : Nat} (n : Name) (a : List Arg) (h : InvC ctx ms d) :
    InvC ctx (setArgs ms n a) d := by
  refine ⟨by rw [setArgs_names]; exact h.names, h.liveNodup, ?_, h.depth⟩
  intro x hx
  obtain ⟨m, hm, rfl⟩ := mem_setArgs hx
  have := h.hideIff m hm
  split <;> exact this

theorem hashFollowed_of_nohash (ps : List Param) : ∀ l : List Tok, (∀ t ∈ l, t.kind ≠ .THASH) → HashFollowed ps l
  | [], _ => trivial
  | [t], h => h t (List.mem_cons_self ..)
  | t :: u :: r, h => by
    unfold HashFollowed
    have ht := h t (List.mem_cons_self ..)
    simp only [ht, ↓reduceIte]
    exact hashFollowed_of_nohash ps (u :: r) (fun x hx => h x (List.mem_cons_of_mem _ hx))

theorem substBody_mem (m : Macro) : ∀ body : List Tok, (∀ t ∈ body, t.kind ≠ .THASH) →
    ∀ x ∈ substBody m body, (∃ b ∈ body, kh x = kh b) ∨ (∃ i, ∃ a ∈ (m.args.getD i default).toks, kh x = kh a)
  | [], _, x, hx => by simp [substBody] at hx
  | t :: more, h, x, hx => by
    have ht := h t (List.mem_cons_self ..)
    have ih := substBody_mem m more (fun y hy => h y (List.mem_cons_of_mem _ hy))
    have lift : ∀ y, ((∃ b ∈ more, kh y = kh b) ∨ (∃ i, ∃ a ∈ (m.args.getD i default).toks, kh y = kh a)) →
        (∃ b ∈ t :: more, kh y = kh b) ∨ (∃ i, ∃ a ∈ (m.args.getD i default).toks, kh y = kh a) := by
      intro y hy
      rcases hy with ⟨b, hb, hbe⟩ | hy
      · exact .inl ⟨b, List.mem_cons_of_mem _ hb, hbe⟩
      · exact .inr hy
    by_cases hk : t.kind = .TIDENT
    · cases hp : macroparam m.params t with
      | none =>
        rw [substBody_plain m t more ht (fun _ => hp)] at hx
        rcases List.mem_cons.mp hx with rfl | hx
        · exact .inl ⟨x, List.mem_cons_self .., rfl⟩
        · exact lift x (ih x hx)
      | some i =>
        rw [substBody_param m t more i hk hp] at hx
        rcases List.mem_append.mp hx with hx | hx
        · obtain ⟨a, ha, hae⟩ := mem_respace_kh hx
          exact .inr ⟨i, a, ha, hae⟩
        · exact lift x (ih x hx)
    · rw [substBody_plain m t more ht (fun hh => absurd hh hk)] at hx
      rcases List.mem_cons.mp hx with rfl | hx
      · exact .inl ⟨x, List.mem_cons_self .., rfl⟩
      · exact lift x (ih x hx)

theorem simpleFun_of_stat {m m' : Macro} (h : stat m' = stat m) (hs : SimpleFun m) : SimpleFun m' := by
  obtain ⟨h1, h2, h3, h4⟩ := stat_eq h
  exact ⟨by rw [h2]; exact hs.func, by rw [h3]; exact hs.nonempty, by rw [h3]; exact hs.novar,
    by rw [h4]; exact hs.nohash, by rw [h3, h4]; exact hs.ftok⟩

theorem plainTok_stat {ms ms' : List Macro} (h : ms.map stat = ms'.map stat) {t : Tok} (ht : PlainTok ms t) :
    PlainTok ms' t :=
  ⟨ht.1, ht.2.1, ht.2.2.1, ht.2.2.2.1, fun hk => macroget_stat_none h (ht.2.2.2.2 hk)⟩

theorem plainFor_stat {ms ms' : List Macro} (h : ms.map stat = ms'.map stat) {L : List Tok}
    {res : Except Err (List (List Tok) × List Tok)} (hp : PlainFor ms L res) : PlainFor ms' L res := by
  unfold PlainFor at *
  cases res with
  | error e => exact fun x hx => plainTok_stat h (hp x hx)
  | ok v => exact fun x hx => plainTok_stat h (hp x hx)

theorem plainTok_of_toP {ms : List Macro} {x y : Tok} (h : toP y = toP x) (hy : PlainTok ms y) : PlainTok ms x := by
  simp only [toP, MacroRef.PTok.mk.injEq] at h
  obtain ⟨h1, h2, _⟩ := h
  unfold PlainTok at *
  rw [← h1, ← h2]
  exact hy

theorem flatOK_paint {ms0 : List Macro} {x a : Tok} (hx : PlainTok ms0 x) (h : kh a = kh (paint x)) : FlatOK ms0 a := by
  apply flatOK_of_kh h
  unfold paint
  by_cases hk : x.kind = .TIDENT
  · simp only [hk, ↓reduceIte]
    refine ⟨by simp [hk], by simp [hk], ?_, fun _ _ => hx.2.2.2.2 hk⟩
    rintro ⟨_, F, hF, _⟩
    have : macroget ms0 (x.lit.getD []) = some F := hF
    rw [hx.2.2.2.2 hk] at this; cases this
  · simp only [hk, ↓reduceIte]
    exact ⟨hx.1, hx.2.2.2.1, fun hh => hk hh.1, fun _ hh => absurd hh hk⟩


theorem zipWith_mkArg_mem : ∀ (ps : List Param) (args : List (List Tok)) (i : Nat) (a : Tok),
    a ∈ ((List.zipWith mkArg ps args).getD i default).toks → ∃ arg ∈ args, ∃ y ∈ arg, a = paint y
  | [], xs, i, a, h => by
    have : ((List.zipWith mkArg [] xs : List Arg).getD i default).toks = [] := by
      rw [List.zipWith_nil_left, List.getD_nil]; rfl
    rw [this] at h; cases h
  | p :: ps, [], i, a, h => by
    have : ((List.zipWith mkArg (p :: ps) [] : List Arg).getD i default).toks = [] := by
      rw [List.zipWith_nil_right, List.getD_nil]; rfl
    rw [this] at h; cases h
  | p :: ps, x :: xs, 0, a, h => by
    simp only [List.zipWith_cons_cons, List.getD_cons_zero, mkArg] at h
    split at h
    · obtain ⟨y, hy, rfl⟩ := List.mem_map.mp h
      exact ⟨x, List.mem_cons_self .., y, hy, rfl⟩
    · cases h
  | p :: ps, x :: xs, i + 1, a, h => by
    simp only [List.zipWith_cons_cons, List.getD_cons_succ] at h
    obtain ⟨arg, harg, y, hy, rfl⟩ := zipWith_mkArg_mem ps xs i a h
    exact ⟨arg, List.mem_cons_of_mem _ harg, y, hy, rfl⟩

/-- **`expand` on an invocation in the text**, against one step of the reference -/
theorem expand_callF (ms0 : List Macro) (hTb : TblOK ms0) (n : Nat) (s1 s2 : St) (T lp : Tok) (r' : List Tok) (F : Macro)
    (args : List (List Tok)) (rest : List Tok) (g : GoodF ms0 s1) (hctx : s1.ctx = []) (hraw : s1.raw = lp :: r')
    (h1 : T.kind = .TIDENT) (h2 : T.hide = false) (h3 : macroget ms0 (T.lit.getD []) = some F)
    (h4 : F.func = true) (h5 : lp.kind = .TLPAREN)
    (h6 : collect F.params 0 0 [] [] r' = .ok (args, rest))
    (h7 : PlainFor ms0 r' (collect F.params 0 0 [] [] r')) (h8 : ∀ a ∈ args, a ≠ [])
    (h : exec n (.expand T) s1 = .ok s2) :
    GoodF ms0 s2 ∧ s2.raw = rest ∧ s2.rb = true ∧
    ∃ c, ∀ K, c ≤ K → outKeys (expandH false (K + 1) (tblF ms0) (.tok (mkH [] T) :: absF s1)) =
        outKeys (expandH false K (tblF ms0) (absF s2)) := by
  have hmem0 := macroget_mem h3
  have hsf0 := hTb.func F hmem0.1 h4
  obtain ⟨F', hF', hs⟩ := macroget_stat_some g.stat.symm h3
  have hse := stat_eq hs
  have hsf : SimpleFun F' := simpleFun_of_stat hs hsf0
  have hbne : F'.body ≠ [] := by rw [hse.2.2.2]; exact hTb.bodyNe F hmem0.1
  have hmem' := macroget_mem hF'
  have hFh : F'.hide = false := by
    cases hh : F'.hide with
    | false => rfl
    | true =>
      have := (g.inv.hideIff F' hmem'.1).mp hh
      rw [hctx] at this; cases this
  have hcol : collect F'.params 0 0 [] [] r' = .ok (args, rest) := by rw [hse.2.2.1]; exact h6
  have hpl : PlainFor s1.macros r' (collect F'.params 0 0 [] [] r') := by
    rw [hse.2.2.1]; exact plainFor_stat g.stat.symm h7
  obtain ⟨seg, rp, hr, hrp, hplain, n', s2', hex, hrb, hraw2, hctx2, hmac2, hdep2, hppnl2, hprag2, hflat, hB2, hK⟩ :=
    funclike_step_exact F' T lp r' s1 args rest hsf hbne h8 hctx g.prag h1 h2 hF' hFh hraw h5 hcol hpl
  have := exec_det h hex
  subst this
  have hgetn : macroget s1.macros F'.name = some F' := by rw [hmem'.2]; exact hF'
  have hg2 : macroget s2.macros F'.name =
      some { F' with args := List.zipWith mkArg F'.params args, hide := true } := by
    rw [hmac2, macroget_setHide, macroget_setArgs, hgetn]; simp
  have hnh : ∀ t ∈ respace F'.body T.space, t.kind ≠ .THASH := by
    intro t ht
    obtain ⟨b, hb, hkb⟩ := mem_respace_kh ht
    have : t.kind = b.kind := congrArg (·.1) hkb
    rw [this]; exact hsf.nohash b hb
  have hfr : frameToks s2.macros ⟨respace F'.body T.space, some F'.name⟩ =
      substBody { F' with args := List.zipWith mkArg F'.params args, hide := true } (respace F'.body T.space) := by
    unfold frameToks
    simp only [Option.bind_some, hg2]
    exact if_pos hsf.func
  -- the arguments are plain
  have hargs : ∀ arg ∈ args, ∀ y ∈ arg, PlainTok ms0 y := by
    intro arg harg y hy
    have hvl : VarLast F'.params := fun j _ => getD_novar hsf.novar j
    obtain ⟨seg', rp', hr', _, _, hsplit⟩ := collect_specX F'.params hvl r' 0 0 [] [] args rest hsf.nonempty hcol
    simp only [List.reverse_nil, List.map_nil, List.nil_append] at hsplit
    have e1 : (seg ++ [rp]) ++ rest = (seg' ++ [rp']) ++ rest := by
      simp only [List.append_assoc, List.singleton_append]; rw [← hr, ← hr']
    have e2 := List.append_cancel_right e1
    have hm1 : arg.map hT ∈ splitTop (splitsLeft F'.params 0 seg') 0 (seg'.map hT) [] := by
      rw [← hsplit]; exact List.mem_map_of_mem harg
    have hm2 : hT y ∈ arg.map hT := List.mem_map_of_mem hy
    rcases splitTop_mem (seg'.map hT) _ 0 [] _ hm1 _ hm2 with hz | hz
    · obtain ⟨z, hz, hze⟩ := List.mem_map.mp hz
      have hzp : PlainTok s1.macros z := hplain z (by rw [e2]; exact List.mem_append_left _ hz)
      have htp : toP z = toP y := by
        simp only [hT, mkH, HTok.mk.injEq] at hze
        exact hze.1
      exact plainTok_of_toP htp (plainTok_stat g.stat hzp)
    · cases hz
  refine ⟨?_, hraw2, hrb, seg.length + 1, ?_⟩
  · refine ⟨?_, ?_, ?_, ?_, by rw [hprag2]; exact g.prag, by rw [hppnl2]; exact g.ppnl⟩
    · rw [hmac2, stat_setHide, stat_setArgs]; exact g.stat
    · rw [hctx2, hmac2, hdep2]
      have hi0 : InvC [] (setArgs s1.macros F'.name (List.zipWith mkArg F'.params args)) s1.depth :=
        invC_setArgs _ _ (by have := g.inv; rw [hctx] at this; exact this)
      have hmm : ({ F' with args := List.zipWith mkArg F'.params args } : Macro) ∈
          setArgs s1.macros F'.name (List.zipWith mkArg F'.params args) := by
        unfold setArgs
        exact List.mem_map.mpr ⟨F', hmem'.1, by simp⟩
      exact invC_push (m := { F' with args := List.zipWith mkArg F'.params args }) (respace F'.body T.space) hi0 hmm hFh
    · rw [hctx2]
      intro f hf m hb hfun
      rw [List.mem_singleton] at hf
      subst hf
      simp only [Option.bind_some, hg2, Option.some.injEq] at hb
      subst hb
      exact hashFollowed_of_nohash _ _ hnh
    · intro x hx
      rw [hctx2] at hx
      simp only [flat, List.append_nil, hfr] at hx
      rcases substBody_mem _ _ hnh x hx with ⟨b, hb, hkb⟩ | ⟨i, a, ha, hka⟩
      · obtain ⟨b', hb', hkb'⟩ := mem_respace_kh hb
        rw [hse.2.2.2] at hb'
        have hbo := hTb.bodyOk F hmem0.1 b' hb'
        refine flatOK_of_kh (hkb.trans hkb') ⟨hbo.1.1, hbo.1.2.1, hbo.2, ?_⟩
        intro hhh; rw [hbo.1.2.2] at hhh; cases hhh
      · obtain ⟨arg, harg, y, hy, rfl⟩ := zipWith_mkArg_mem _ _ _ _ ha
        exact flatOK_paint (hargs arg harg y hy) hka
  · intro K hKc
    have hk := hK K ((absRawF rest).map Item.tok) (by omega)
    rw [tblF_stat g.stat, ← hflat] at hk
    have hL : absF s1 = Item.tok (mkH [] lp) :: (seg.map iT ++ iT rp :: (absRawF rest).map Item.tok) := by
      have hv : ∀ x ∈ lp :: (seg ++ [rp]), x.kind ≠ .TNEWLINE ∧ x.kind ≠ .TEOF := by
        intro x hx
        rcases List.mem_cons.mp hx with rfl | hx
        · rw [h5]; exact ⟨by decide, by decide⟩
        · exact ⟨(hplain x hx).1, (hplain x hx).2.2.2.1⟩
      have : s1.raw = (lp :: (seg ++ [rp])) ++ rest := by rw [hraw, hr]; simp
      simp only [absF, hctx, flatG, List.nil_append, this, absRawF_plain _ _ hv]
      simp [iT, hT]
    have hR : absF s2 = ((flat s2.macros s2.ctx).map (mkH [F'.name])).map Item.tok ++ (absRawF rest).map Item.tok := by
      simp only [absF, hctx2, flatG, flat, List.append_nil, hraw2, List.map_append]
      have : liveNames [⟨respace F'.body T.space, some F'.name⟩] = [F'.name] := rfl
      rw [this]
      have : annH [F'.name] = mkH [F'.name] := by funext x; simp [annH]
      rw [this]
    rw [hL, hR]
    exact hk

end CprocVerif.PP

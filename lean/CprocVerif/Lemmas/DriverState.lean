import CprocVerif.Lemmas.DriverParse

/-! C17: the parser state after a whole command line, expressed with the declarative functions
of `Spec/DriverDoc.lean` (`docState`), and when the argument loop refuses (`parseRefuses`). -/

namespace CprocVerif.DriverLemmas
open CprocVerif.Driver CprocVerif.DriverDoc

def toInput (d : DocInput) : Input := ⟨d.name, (maskTable.lookup d.ftype).getD [], d.ftype, d.lib⟩

def langAfter : FileType → List Item → FileType
  | l, [] => l
  | l, .lang x :: r => langAfter ((docLangs.lookup x).getD l) r
  | l, _ :: r => langAfter l r

/-- the argument loop refuses: unknown `-x` language, or `-` while no language is in force. -/
def parseRefuses : FileType → List Item → Bool
  | _, [] => false
  | l, .input n :: r => (l == .none && n == ['-']) || parseRefuses l r
  | l, .lang x :: r =>
    match docLangs.lookup x with
    | none => true
    | some l' => parseRefuses l' r
  | l, _ :: r => parseRefuses l r

def docState (s : PState) (c : List Item) : PState :=
  { last := ((c.filterMap modeOf).getLast?).getD s.last
    ftype := langAfter s.ftype c
    output := ((c.filterMap outOf).getLast?).or s.output
    inputs := s.inputs ++ (docInputsFrom s.ftype c).map toInput
    cpp := s.cpp ++ c.flatMap (toolArgsP false .cpp)
    cc := s.cc ++ c.flatMap (toolArgsP false .cc)
    qbe := s.qbe ++ c.flatMap (toolArgsP false .qbe)
    as := s.as ++ c.flatMap (toolArgsP false .as)
    ld := s.ld ++ c.flatMap (toolArgsP false .ld)
    nostdlib := s.nostdlib || c.contains .nostdlib
    verbose := s.verbose || c.contains .verbose }

theorem lastD_cons {α} (a d : α) (l : List α) : ((a :: l).getLast?).getD d = (l.getLast?).getD a := by
  rw [List.getLast?_cons]; rfl

theorem lastOr_cons {α} (a : α) (o : Option α) (l : List α) :
    ((a :: l).getLast?).or o = (l.getLast?).or (some a) := by
  rw [List.getLast?_cons]
  cases l.getLast? <;> rfl

theorem suffix_ne_none (ext : Str) : (docSuffixes.lookup ext).getD .obj ≠ FileType.none := by
  simp only [docSuffixes, List.lookup]
  repeat' split
  all_goals simp

theorem typeBySuffix_ne_none (n : Str) : typeBySuffix n ≠ .none := by
  unfold typeBySuffix
  split
  · exact suffix_ne_none _
  · simp

theorem maskOf_some (ft : FileType) (h : ft ≠ .none) : maskOf ft = some ((maskTable.lookup ft).getD []) := by
  cases ft <;> first | exact absurd rfl h | rfl

theorem docState_nil (s : PState) : docState s [] = s := by
  cases s; simp [docState, langAfter, docInputsFrom]

theorem updAll_ok (c : List Item) : ∀ (s : PState), parseRefuses s.ftype c = false →
    updAll s c = .ok (docState s c) := by
  induction c with
  | nil => intro s _; simp [updAll, docState_nil]
  | cons it r ih =>
    intro s h
    cases it with
    | input n =>
      simp only [parseRefuses, Bool.or_eq_false_iff, Bool.and_eq_false_iff] at h
      obtain ⟨h1, h2⟩ := h
      simp only [updAll, upd, addInput]
      by_cases hl : s.ftype = .none
      · have hn : n ≠ ['-'] := by
          rcases h1 with h1 | h1
          · simp [hl] at h1
          · simpa using h1
        have hft : (if (s.ftype == FileType.none && n != ['-']) = true then detectFileType n else s.ftype)
            = typeBySuffix n := by simp [hl, hn, detectFileType_eq]
        rw [hft, maskOf_some _ (typeBySuffix_ne_none n)]
        simp only
        refine (ih _ ?_).trans ?_
        · exact h2
        simp [docState, docInputsFrom, hl, hn, toInput, langAfter, modeOf, outOf, toolArgsP, toolArgs]
      · have hft : (if (s.ftype == FileType.none && n != ['-']) = true then detectFileType n else s.ftype)
            = s.ftype := by simp [hl]
        rw [hft, maskOf_some _ hl]
        simp only
        refine (ih _ ?_).trans ?_
        · exact h2
        simp [docState, docInputsFrom, hl, toInput, langAfter, modeOf, outOf, toolArgsP, toolArgs]
    | lang x =>
      simp only [parseRefuses] at h
      simp only [updAll, upd, show langTable = docLangs from rfl]
      cases hx : docLangs.lookup x with
      | none => simp [hx] at h
      | some l' =>
        simp only [hx] at h ⊢
        refine (ih _ ?_).trans ?_
        · exact h
        simp [docState, langAfter, docInputsFrom, hx, modeOf, outOf, toolArgsP, toolArgs]
    | lib v =>
      simp only [parseRefuses] at h
      simp only [updAll, upd]
      refine (ih _ ?_).trans ?_
      · exact h
      simp [docState, langAfter, docInputsFrom, modeOf, outOf, toolArgsP, toolArgs, toInput]
      rfl
    | output v =>
      simp only [parseRefuses] at h
      simp only [updAll, upd]
      refine (ih _ ?_).trans ?_
      · exact h
      simp [docState, langAfter, docInputsFrom, modeOf, outOf, toolArgsP, toolArgs, lastOr_cons]
    | wtool t args =>
      simp only [parseRefuses] at h
      cases t <;>
      · simp only [updAll, upd]
        refine (ih _ ?_).trans ?_
        · exact h
        simp [docState, PState.addTo, langAfter, docInputsFrom, modeOf, outOf, toolArgsP, toolArgs]
    | dep dk =>
      simp only [parseRefuses] at h
      cases dk <;>
      · simp only [updAll, upd]
        refine (ih _ ?_).trans ?_
        · exact h
        simp [docState, PState.addTo, langAfter, docInputsFrom, modeOf, outOf, toolArgsP, toolArgs, lastD_cons, Dep.spelling]
    | _ =>
      simp only [parseRefuses] at h
      simp only [updAll, upd]
      refine (ih _ ?_).trans ?_
      · exact h
      simp [docState, PState.addTo, langAfter, docInputsFrom, modeOf, outOf, toolArgsP, toolArgs, lastD_cons]


theorem upd_ftype_refuses (s s1 : PState) (it : Item) (r : List Item) (hu : upd s it = .ok s1)
    (h : parseRefuses s.ftype (it :: r) = true) : parseRefuses s1.ftype r = true := by
  cases it with
  | input n =>
    simp only [parseRefuses, Bool.or_eq_true, Bool.and_eq_true, beq_iff_eq] at h
    simp only [upd, addInput] at hu
    split at hu
    · simp at hu
    · rename_i m hm
      simp only [Except.ok.injEq] at hu
      subst hu
      rcases h with ⟨hl, hn⟩ | h
      · subst hn
        have h0 : (if (s.ftype == FileType.none && (['-'] : Str) != ['-']) = true then detectFileType ['-']
            else s.ftype) = .none := by simp [hl]
        have h1 : maskOf FileType.none = none := rfl
        rw [h0, h1] at hm
        cases hm
      · exact h
  | lang x =>
    simp only [parseRefuses] at h
    simp only [upd, show langTable = docLangs from rfl] at hu
    cases hx : docLangs.lookup x with
    | none => simp [hx] at hu
    | some l' =>
      simp only [hx, Except.ok.injEq] at hu h
      subst hu
      exact h
  | wtool t args =>
    simp only [parseRefuses] at h
    cases t <;> (simp only [upd, Except.ok.injEq] at hu; subst hu; exact h)
  | dep dk =>
    simp only [parseRefuses] at h
    cases dk <;> (simp only [upd, Except.ok.injEq] at hu; subst hu; exact h)
  | _ =>
    simp only [parseRefuses] at h
    simp only [upd, Except.ok.injEq] at hu
    subst hu
    exact h

theorem updAll_err (c : List Item) : ∀ (s : PState), parseRefuses s.ftype c = true →
    ∃ w, updAll s c = .error (.usage w) := by
  induction c with
  | nil => intro s h; simp [parseRefuses] at h
  | cons it r ih =>
    intro s h
    simp only [updAll]
    cases hu : upd s it with
    | error e => cases e with | usage w => exact ⟨w, rfl⟩
    | ok s1 => exact ih s1 (upd_ftype_refuses s s1 it r hu h)

theorem parseRefuses_eq (c : List Item) : ∀ l : FileType,
    parseRefuses l c = (c.any isUnknownLang || (docInputsFrom l c).any (fun i => i.ftype == .none)) := by
  induction c with
  | nil => intro l; rfl
  | cons it r ih =>
    intro l
    cases it with
    | input n =>
      simp only [parseRefuses, ih, List.any_cons, isUnknownLang, docInputsFrom, Bool.false_or]
      by_cases hl : l = .none
      · by_cases hn : n = ['-']
        · simp [hl, hn]
        · have h1 : (typeBySuffix n == FileType.none) = false := beq_eq_false_iff_ne.2 (typeBySuffix_ne_none n)
          have h2 : (n == ['-']) = false := beq_eq_false_iff_ne.2 hn
          simp [hl, hn, h1, h2]
      · have h1 : (l == FileType.none) = false := beq_eq_false_iff_ne.2 hl
        simp [hl, h1]
    | lang x =>
      simp only [parseRefuses, List.any_cons, isUnknownLang, docInputsFrom]
      cases hx : docLangs.lookup x with
      | none => simp
      | some l' => simp [ih]
    | lib v =>
      have h1 : (FileType.obj == FileType.none) = false := by decide
      simp [parseRefuses, ih, List.any_cons, isUnknownLang, docInputsFrom, h1]
    | _ => simp [parseRefuses, ih, List.any_cons, isUnknownLang, docInputsFrom]

end CprocVerif.DriverLemmas

/-
  C01 — simulation of expressions (induction over the expression).
-/
import CprocVerif.Lemmas.LowerSim
import CprocVerif.Lemmas.LowerRep4
import CprocVerif.Lemmas.LowerRange

set_option linter.unusedSimpArgs false

namespace CprocVerif.LowerMach
open CprocVerif.Qbe CprocVerif.Lower CprocVerif.CSem CprocVerif.CInt CprocVerif.LowerArith

theorem u64_ne_zero_iff (w : UInt64) : w ≠ 0 ↔ w.toNat ≠ 0 := by
  constructor
  · intro h h0; apply h; exact UInt64.toNat_inj.1 (by rw [h0]; rfl)
  · intro h h0; subst h0; exact h rfl

theorem sim_jnzArg (S : Sit) (c : Ctx) (t : CSem.Ty) (l : Val) (pre post : List Item) (env : Env)
    (v : Int) (r0 : RVal)
    (hits : S.its = pre ++ (jnzArg S.cs c t l).items ++ post)
    (hl : readVal S.p env l = .ok r0) (hrep : Rep t v r0) (hrange : InRange (t.intTy S.cs) v) :
    RunsTo S c.lastid env pre (jnzArg S.cs c t l).items (jnzArg S.cs c t l).val
      (fun r => ∃ w, r.asW = .ok w ∧ (w ≠ 0 ↔ v ≠ 0)) := by
  have hrg := (range_ty S.cs t hrange).2
  by_cases h1 : t.size < 4
  · simp only [jnzArg, h1, if_true] at hits ⊢
    refine (sim_convert S c .int t l pre post env v r0 hits hl hrep hrange).weaken ?_
    rintro r ⟨hr, _⟩
    rw [rep_w int_size] at hr
    obtain ⟨w, hw, hwv⟩ := hr
    have hwl := asW_lt hw
    refine ⟨w, hw, ?_⟩
    rw [u64_ne_zero_iff]
    have hwm := wrap_mod32 true v
    have : Ty.intTy S.cs .int = ⟨32, true⟩ := rfl
    rw [this] at hwv
    rcases size_cases t with hs | hs | hs | hs <;> simp only [hs, Nat.reduceMul, Nat.reduceSub] at hrg
    · split at hrg <;> omega
    · split at hrg <;> omega
    · omega
    · omega
  · by_cases h2 : t.size > 4
    · simp only [jnzArg, h1, if_false, h2, if_true] at hits ⊢
      refine (sim_convert S c .bool t l pre post env v r0 hits hl hrep hrange).weaken ?_
      rintro r ⟨_, hr⟩
      have := (hr rfl).asW
      refine ⟨_, this, ?_⟩
      by_cases hv : v = 0 <;> simp [hv]
    · have hs : t.size = 4 := by rcases size_cases t with hs | hs | hs | hs <;> omega
      simp only [jnzArg, h1, if_false, h2] at hits ⊢
      unfold RunsTo
      simp only [List.append_nil]
      rw [rep_w hs] at hrep
      obtain ⟨w, hw, hwv⟩ := hrep
      have hwl := asW_lt hw
      refine ⟨0, env, rfl, Agree.refl _ _, r0, hl, w, hw, ?_⟩
      rw [u64_ne_zero_iff]
      simp only [hs, Nat.reduceMul, Nat.reduceSub] at hrg
      split at hrg <;> omega

theorem exists_post {its pre mid tail : List Item} (h : its = pre ++ (mid ++ tail)) :
    ∃ post, its = pre ++ mid ++ post := ⟨tail, by rw [h, List.append_assoc]⟩

/-- `c.cur` is a numbered label not above the label counter. -/
def CurOK (c : Ctx) : Prop := ∃ name j, c.cur = lblName name j ∧ j ≤ c.blockid

theorem Good.curOK {c : Ctx} {o : Out} (g : Good c o) (h : CurOK c) : CurOK o.ctx := by
  obtain ⟨name, j, hc, hj⟩ := h
  obtain ⟨n', j', h1, h2⟩ := g.curId name j hc
  have := g.blockid
  exact ⟨n', j', h1, by omega⟩

theorem step_jnz_logic {p : Prog} {ext : Ext} (x : Fix) {env : Env} {M : Mem} {bi ii : Nat}
    {b : Block} {v : Val} {lj lr : String} {isOr : Bool} {j : Nat} {c : RVal} {w : UInt64}
    (hb : x.fi.f.blocks[bi]? = some b) (hi : b.ins.size = ii)
    (ht : b.term = some (if isOr = true then Jump.jnz v lj lr else Jump.jnz v lr lj))
    (hv : readVal p env v = .ok c) (hc : c.asW = .ok w)
    (hl : x.fi.labelIdx[if (isOr == (w != 0)) = true then lj else lr]? = some j) :
    step p ext (mkSt x env M bi ii) = gotoBlock p (mkFr x env bi ii) x.rest M x.tr b j := by
  cases isOr <;> cases hw : (w != 0) <;> simp only [hw, Bool.false_eq_true, if_false, if_true,
    beq_self_eq_true, Bool.beq_eq_decide_eq, decide_true, decide_false, reduceCtorEq] at ht hl
  · exact step_jnz x hb hi ht hv hc (by rw [hw]; exact hl)
  · exact step_jnz x hb hi ht hv hc (by rw [hw]; exact hl)
  · exact step_jnz x hb hi ht hv hc (by rw [hw]; exact hl)
  · exact step_jnz x hb hi ht hv hc (by rw [hw]; exact hl)

theorem logic_eval (cs : Bool) (ρ : List Int) (op : BinOp) (hop : isLogic op = true) (t : CSem.Ty)
    (l r : Expr) (v : Int) (h : evalC cs ρ (.bin op t l r) = some v) :
    ∃ a, evalC cs ρ l = some a ∧
      (if ((op == .lor) == decide (a ≠ 0)) = true then v = (if (op == .lor) = true then 1 else 0)
       else ∃ b, evalC cs ρ r = some b ∧ v = b2i (decide (b ≠ 0))) := by
  cases op <;> simp only [isLogic, Bool.false_eq_true] at hop
  · -- lor
    simp only [evalC, Option.bind_eq_some_iff] at h
    obtain ⟨a, ha, h2⟩ := h
    refine ⟨a, ha, ?_⟩
    unfold lorSC at h2
    by_cases ha0 : a ≠ 0
    · rw [if_pos ha0] at h2
      cases h2
      simp [ha0]
    · rw [if_neg ha0, Option.map_eq_some_iff] at h2
      obtain ⟨b, hb, rfl⟩ := h2
      have hd : decide (a ≠ 0) = false := by simpa using ha0
      rw [hd]
      exact ⟨b, hb, rfl⟩
  · -- land
    simp only [evalC, Option.bind_eq_some_iff] at h
    obtain ⟨a, ha, h2⟩ := h
    refine ⟨a, ha, ?_⟩
    unfold landSC at h2
    by_cases ha0 : a = 0
    · rw [if_pos ha0] at h2
      cases h2
      simp [ha0]
    · rw [if_neg ha0, Option.map_eq_some_iff] at h2
      obtain ⟨b, hb, rfl⟩ := h2
      have : (BinOp.land == BinOp.lor) = false := rfl
      simp only [this, ne_eq, ha0, not_false_eq_true, decide_true, Bool.false_beq, Bool.not_true,
        Bool.false_eq_true, if_false]
      exact ⟨b, hb, rfl⟩

theorem const01_rep (isOr : Bool) :
    ∃ r', (RVal.mk .c (if isOr = true then 1 else 0)).coerce .w = .ok r' ∧
      Rep .int (if isOr = true then 1 else 0) r' := by
  cases isOr
  · exact ⟨⟨.w, 0⟩, rfl, (rep_w int_size).2 ⟨0, rfl, by decide⟩⟩
  · exact ⟨⟨.w, 1⟩, rfl, (rep_w int_size).2 ⟨1, rfl, by decide⟩⟩

theorem sim_expr (S : Sit) (e : Expr) : ∀ (c : Ctx) (pre post : List Item) (env : Env) (v : Int),
    e.wt S.ptys = true → evalC S.cs S.ρ e = some v →
    S.its = pre ++ (funcexpr S.cs e c).items ++ post →
    curOf S.o0 pre = c.cur → CurOK c →
    2 * S.ptys.length ≤ c.lastid →
    ParamsIn S env →
    RunsTo S c.lastid env pre (funcexpr S.cs e c).items (funcexpr S.cs e c).val
      (fun r => Rep e.ty v r) := by
  induction e with
  | const t u =>
    intro c pre post env v hwt hev hits hcur hcok hn hpar
    simp only [evalC, Option.some.injEq] at hev
    subst hev
    simp only [Expr.wt, Bool.and_eq_true, decide_eq_true_eq, Bool.or_eq_true, bne_iff_ne, ne_eq] at hwt
    unfold RunsTo
    simp only [funcexpr, List.append_nil]
    refine ⟨0, env, rfl, Agree.refl _ _, _, readVal_int _ _ _, ?_⟩
    exact const_rep S.cs t u hwt.1 (fun h => by
      rcases hwt.2 with h' | h'
      · exact absurd h h'
      · exact h')
  | param t i =>
    intro c pre post env v hwt hev hits hcur hcok hn hpar
    simp only [evalC] at hev
    simp only [Expr.wt, beq_iff_eq] at hwt
    obtain ⟨a, r, h1, h2, h3⟩ := hpar i t v hwt hev
    exact S.run_funcinst c _ _ _ hits (readVals_one (readVal_tmp h1)) h2 h3
  | cast t e ih =>
    intro c pre post env v hwt hev hits hcur hcok hn hpar
    simp only [evalC, Option.map_eq_some_iff] at hev
    obtain ⟨a, hea, rfl⟩ := hev
    simp only [Expr.wt] at hwt
    have hra := evalC_inRange S.cs S.ptys S.ρ S.henv e a hwt hea
    have g := funcexpr_good S.cs e c
    simp only [funcexpr, Out.seq] at hits ⊢
    rw [← List.append_assoc] at hits
    have hits1 := hits
    rw [List.append_assoc] at hits1
    refine RunsTo.seq (ih c pre _ env a hwt hea hits1 hcur hcok hn hpar) g.lastid ?_
    intro env1 r1 _ hv1 hp1
    exact (sim_convert S _ t e.ty _ _ post env1 a r1 hits hv1 hp1 hra).weaken (fun r h => h.1)
  | neg t e ih =>
    intro c pre post env v hwt hev hits hcur hcok hn hpar
    simp only [evalC, Option.bind_eq_some_iff] at hev
    obtain ⟨a, hea, hv⟩ := hev
    simp only [Expr.wt, Bool.and_eq_true, beq_iff_eq] at hwt
    obtain ⟨⟨hty, hpr⟩, hwe⟩ := hwt
    have g := funcexpr_good S.cs e c
    simp only [funcexpr, Out.seq] at hits ⊢
    rw [← List.append_assoc] at hits
    have hits1 := hits
    rw [List.append_assoc] at hits1
    refine RunsTo.seq (ih c pre _ env a hwe hea hits1 hcur hcok hn hpar) g.lastid ?_
    intro env1 r1 _ hv1 hp1
    rw [hty] at hp1
    obtain ⟨r, hx, hr⟩ := neg_exec S.cs hpr S.M none hp1 hv
    exact S.run_funcinst _ _ _ _ hits (readVals_one hv1) hx hr
  | bin op t l r ihl ihr =>
    intro c pre post env v hwt hev hits hcur hcok hn hpar
    simp only [Expr.wt, Bool.and_eq_true] at hwt
    obtain ⟨⟨hwl, hwr⟩, hty⟩ := hwt
    cases hop : isLogic op
    · -- arithmetic, shifts, comparisons
      have hev' : ∃ a b, evalC S.cs S.ρ l = some a ∧ evalC S.cs S.ρ r = some b ∧
          bin op (l.ty.intTy S.cs) a b = some v := by
        cases op <;> simp only [isLogic, Bool.true_eq_false] at hop <;>
          simp only [evalC, Option.bind_eq_some_iff] at hev <;>
          obtain ⟨a, ha, b, hb, h⟩ := hev <;> exact ⟨a, b, ha, hb, h⟩
      obtain ⟨a, b, hea, heb, hv⟩ := hev'
      have hra := evalC_inRange S.cs S.ptys S.ρ S.henv l a hwl hea
      have hrb := evalC_inRange S.cs S.ptys S.ρ S.henv r b hwr heb
      have hbt : BinTyped op t l.ty r.ty := by
        unfold BinTyped
        simp only [hop, Bool.false_eq_true, if_false] at hty
        split <;> rename_i h1
        · simpa [h1, and_assoc] using hty
        · split <;> rename_i h2
          · simpa [h1, h2, and_assoc] using hty
          · simpa [h1, h2, and_assoc] using hty
      have gl := funcexpr_good S.cs l c
      have gr := funcexpr_good S.cs r (funcexpr S.cs l c).ctx
      rw [funcexpr_arith S.cs op hop] at hits ⊢
      simp only [Out.seq] at hits ⊢
      -- left operand
      have hits1 : S.its = pre ++ (funcexpr S.cs l c).items ++
          ((funcexpr S.cs r (funcexpr S.cs l c).ctx).items ++ (funcinst (funcexpr S.cs r
            (funcexpr S.cs l c).ctx).ctx (binOpOf S.cs op l.ty) (cls t) [(funcexpr S.cs l c).val,
            (funcexpr S.cs r (funcexpr S.cs l c).ctx).val]).items ++ post) := by
        rw [hits]; simp only [List.append_assoc]
      rw [List.append_assoc]
      refine RunsTo.seq (ihl c pre _ env a hwl hea hits1 hcur hcok hn hpar) gl.lastid ?_
      intro env1 r1 hag1 hv1 hp1
      -- right operand
      have hits2 : S.its = (pre ++ (funcexpr S.cs l c).items) ++
          (funcexpr S.cs r (funcexpr S.cs l c).ctx).items ++ ((funcinst (funcexpr S.cs r
            (funcexpr S.cs l c).ctx).ctx (binOpOf S.cs op l.ty) (cls t) [(funcexpr S.cs l c).val,
            (funcexpr S.cs r (funcexpr S.cs l c).ctx).val]).items ++ post) := by
        rw [hits]; simp only [List.append_assoc]
      have hn1 : 2 * S.ptys.length ≤ (funcexpr S.cs l c).ctx.lastid := by
        have := gl.lastid; omega
      refine RunsTo.seq (ihr _ _ _ env1 b hwr heb hits2 (gl.cur _ _ hcur) (gl.curOK hcok) hn1
        (hpar.agree hag1 hn)) gr.lastid ?_
      intro env2 r2 hag2 hv2 hp2
      have hv1' : readVal S.p env2 (funcexpr S.cs l c).val = .ok r1 := by
        rw [readVal_agree gl.val hag2]; exact hv1
      obtain ⟨rr, hx, hr⟩ := binop_exec S.cs op hop hbt S.M none hra hrb hp1 hp2 hv
      have hits3 : S.its = (pre ++ (funcexpr S.cs l c).items ++
          (funcexpr S.cs r (funcexpr S.cs l c).ctx).items) ++ (funcinst (funcexpr S.cs r
            (funcexpr S.cs l c).ctx).ctx (binOpOf S.cs op l.ty) (cls t) [(funcexpr S.cs l c).val,
            (funcexpr S.cs r (funcexpr S.cs l c).ctx).val]).items ++ post := by
        rw [hits]; simp only [List.append_assoc]
      exact S.run_funcinst _ _ _ _ hits3 (readVals_two hv1' hv2) hx hr
    · -- `&&`, `||`
      simp only [hop, if_true, beq_iff_eq] at hty
      subst hty
      have hev0 : evalC S.cs S.ρ (.bin op .int l r) = some v := hev
      obtain ⟨a, hea, hsc⟩ := logic_eval S.cs S.ρ op hop .int l r v hev0
      have hra := evalC_inRange S.cs S.ptys S.ρ S.henv l a hwl hea
      obtain ⟨ol, oj, or, ov, hol, hoj, hor, hov, heq⟩ := funcexpr_logic S.cs op hop .int l r c
      rw [heq] at hits ⊢
      simp only at hits ⊢
      have gl : Good c ol := hol ▸ funcexpr_good S.cs l c
      have sj : Straight _ oj := hoj ▸ jnzArg_straight _ _ _ _
      have gr : Good _ or := hor ▸ funcexpr_good S.cs r _
      have sv : Straight _ ov := hov ▸ convert_straight _ _ _ _ _
      have b1 := gl.blockid; have b2 := sj.blockid; have b3 := gr.blockid; have b4 := sv.blockid
      have l1 := gl.lastid; have l2 := sj.lastid; have l3 := gr.lastid; have l4 := sv.lastid
      simp only at b2 b3 l2 l3
      have hitsL1 : S.its = (pre ++ ol.items ++ oj.items) ++
          .lbl (some (if (op == .lor) = true
              then Jump.jnz oj.val (lblName "logic_join" (ol.ctx.blockid + 2))
                (lblName "logic_right" (ol.ctx.blockid + 1))
              else Jump.jnz oj.val (lblName "logic_right" (ol.ctx.blockid + 1))
                (lblName "logic_join" (ol.ctx.blockid + 2))))
            (lblName "logic_right" (ol.ctx.blockid + 1)) [] ::
          (or.items ++ ov.items ++
          [.lbl none (lblName "logic_join" (ol.ctx.blockid + 2))
            [⟨tmpName (ov.ctx.lastid + 1), .w,
              [(oj.ctx.cur, .int (if (op == .lor) = true then 1 else 0)), (ov.ctx.cur, ov.val)]⟩]] ++
          post) := by
        rw [hits]; simp only [List.append_assoc, List.singleton_append, List.cons_append, List.nil_append]
      have hitsL2 : S.its = (pre ++ ol.items ++ oj.items ++
          [.lbl (some (if (op == .lor) = true
              then Jump.jnz oj.val (lblName "logic_join" (ol.ctx.blockid + 2))
                (lblName "logic_right" (ol.ctx.blockid + 1))
              else Jump.jnz oj.val (lblName "logic_right" (ol.ctx.blockid + 1))
                (lblName "logic_join" (ol.ctx.blockid + 2))))
            (lblName "logic_right" (ol.ctx.blockid + 1)) []] ++ or.items ++ ov.items) ++
          .lbl none (lblName "logic_join" (ol.ctx.blockid + 2))
            [⟨tmpName (ov.ctx.lastid + 1), .w,
              [(oj.ctx.cur, .int (if (op == .lor) = true then 1 else 0)), (ov.ctx.cur, ov.val)]⟩] ::
          post := by
        rw [hits]; simp only [List.append_assoc, List.singleton_append, List.cons_append, List.nil_append]
      -- 1. left operand
      obtain ⟨n1, env1, hreach1, hag1, rl, hvl, hrepl⟩ :
          RunsTo S c.lastid env pre ol.items ol.val (fun r => Rep l.ty a r) := by
        obtain ⟨post1, hits1⟩ := exists_post (its := S.its) (pre := pre) (mid := ol.items)
          (by rw [hits]; (try simp only [List.append_assoc]); rfl)
        rw [hol] at hits1 ⊢
        exact ihl c pre post1 env a hwl hea hits1 hcur hcok hn hpar
      -- 2. the value branched on
      obtain ⟨n2, env2, hreach2, hag2, rj, hvj, w, hw, hwv⟩ :
          RunsTo S ol.ctx.lastid env1 (pre ++ ol.items) oj.items oj.val
            (fun r => ∃ w, r.asW = .ok w ∧ (w ≠ 0 ↔ a ≠ 0)) := by
        obtain ⟨post2, hits2⟩ := exists_post (its := S.its) (pre := pre ++ ol.items) (mid := oj.items)
          (by rw [hits]; (try simp only [List.append_assoc]); rfl)
        rw [hoj] at hits2 ⊢
        exact sim_jnzArg S ⟨ol.ctx.lastid, ol.ctx.blockid + 2, ol.ctx.cur⟩ l.ty ol.val (pre ++ ol.items)
          post2 env1 a rl hits2 hvl hrepl hra
      have hpar2 : ParamsIn S env2 := (hpar.agree hag1 hn).agree hag2 (by omega)
      have hcurl : curOf S.o0 (pre ++ ol.items) = ol.ctx.cur := gl.cur _ _ hcur
      have hcurj : curOf S.o0 (pre ++ ol.items ++ oj.items) = oj.ctx.cur := by
        rw [curOf_append_allIns _ _ _ sj.allIns, hcurl, sj.cur]
      obtain ⟨bj, hbj, hsz, hterm, hlblj⟩ := S.term_at hitsL1
      obtain ⟨bt, hbt, hbtl, hbtp, hidxt⟩ := S.target hitsL1
      obtain ⟨bjn, hbjn, hbjnl, hbjnp, hidxj⟩ := S.target hitsL2
      have hdw : decide (a ≠ 0) = (w != 0) := by
        rw [Bool.eq_iff_iff]; simp only [decide_eq_true_eq, bne_iff_ne]; exact hwv.symm
      rw [hdw] at hsc
      by_cases hsc0 : ((op == .lor) == (w != 0)) = true
      · -- the left operand decides
        rw [if_pos hsc0] at hsc
        obtain ⟨r', hco, hrep'⟩ := const01_rep (op == .lor)
        have hstep : step S.p S.ext (S.at env2 (pre ++ ol.items ++ oj.items)) =
            .next (S.at (env2.insert (tmpName (ov.ctx.lastid + 1)) r')
              (pre ++ ol.items ++ oj.items ++
              [.lbl (some (if (op == .lor) = true
                  then Jump.jnz oj.val (lblName "logic_join" (ol.ctx.blockid + 2))
                    (lblName "logic_right" (ol.ctx.blockid + 1))
                  else Jump.jnz oj.val (lblName "logic_right" (ol.ctx.blockid + 1))
                    (lblName "logic_join" (ol.ctx.blockid + 2))))
                (lblName "logic_right" (ol.ctx.blockid + 1)) []] ++ or.items ++ ov.items ++
              [.lbl none (lblName "logic_join" (ol.ctx.blockid + 2))
                [⟨tmpName (ov.ctx.lastid + 1), .w,
                  [(oj.ctx.cur, .int (if (op == .lor) = true then 1 else 0)),
                   (ov.ctx.cur, ov.val)]⟩]])) := by
          rw [S.at_lbl]
          unfold Sit.at
          rw [step_jnz_logic S.x hbj hsz hterm hvj hw (by rw [if_pos hsc0]; exact hidxj)]
          exact goto_phi S.x (src := (oj.ctx.cur, .int (if (op == .lor) = true then 1 else 0)))
            hbjn hbjnp (by simp [hlblj.trans hcurj]) (readVal_int _ _ _) hco
        refine ⟨n1 + n2 + 1, env2.insert (tmpName (ov.ctx.lastid + 1)) r', ?_, ?_, r',
          readVal_insert_self _ _ _ _, ?_⟩
        · have hreach := (hreach1.trans hreach2).trans (Reach.one hstep)
          simp only [List.append_assoc] at hreach ⊢
          exact hreach
        · exact ((hag1.trans hag2 l1).trans
            (Agree.insert (n := c.lastid) env2 r' (by omega)) (Nat.le_refl _))
        · show Rep .int v r'
          rw [hsc]
          split
          · rename_i h; simpa [h] using hrep'
          · rename_i h; simpa [h] using hrep'
      · -- the right operand is evaluated
        rw [if_neg hsc0] at hsc
        obtain ⟨b, heb, rfl⟩ := hsc
        have hrb := evalC_inRange S.cs S.ptys S.ρ S.henv r b hwr heb
        have hstep : step S.p S.ext (S.at env2 (pre ++ ol.items ++ oj.items)) =
            .next (S.at env2 (pre ++ ol.items ++ oj.items ++
              [.lbl (some (if (op == .lor) = true
                  then Jump.jnz oj.val (lblName "logic_join" (ol.ctx.blockid + 2))
                    (lblName "logic_right" (ol.ctx.blockid + 1))
                  else Jump.jnz oj.val (lblName "logic_right" (ol.ctx.blockid + 1))
                    (lblName "logic_join" (ol.ctx.blockid + 2))))
                (lblName "logic_right" (ol.ctx.blockid + 1)) []])) := by
          rw [S.at_lbl]
          unfold Sit.at
          rw [step_jnz_logic S.x hbj hsz hterm hvj hw (by rw [if_neg hsc0]; exact hidxt)]
          exact goto_nophi S.x hbt hbtp
        have hcokr : CurOK ⟨oj.ctx.lastid, oj.ctx.blockid,
            lblName "logic_right" (ol.ctx.blockid + 1)⟩ := ⟨_, _, rfl, by simp only; omega⟩
        obtain ⟨n3, env3, hreach3, hag3, rr, hvr, hrepr⟩ :
            RunsTo S oj.ctx.lastid env2 (pre ++ ol.items ++ oj.items ++
              [.lbl (some (if (op == .lor) = true
                  then Jump.jnz oj.val (lblName "logic_join" (ol.ctx.blockid + 2))
                    (lblName "logic_right" (ol.ctx.blockid + 1))
                  else Jump.jnz oj.val (lblName "logic_right" (ol.ctx.blockid + 1))
                    (lblName "logic_join" (ol.ctx.blockid + 2))))
                (lblName "logic_right" (ol.ctx.blockid + 1)) []])
              or.items or.val (fun r' => Rep r.ty b r') := by
          obtain ⟨post3, hits3⟩ := exists_post (its := S.its) (pre := pre ++ ol.items ++ oj.items ++
              [.lbl (some (if (op == .lor) = true
                  then Jump.jnz oj.val (lblName "logic_join" (ol.ctx.blockid + 2))
                    (lblName "logic_right" (ol.ctx.blockid + 1))
                  else Jump.jnz oj.val (lblName "logic_right" (ol.ctx.blockid + 1))
                    (lblName "logic_join" (ol.ctx.blockid + 2))))
                (lblName "logic_right" (ol.ctx.blockid + 1)) []])
            (mid := or.items) (by rw [hits]; (try simp only [List.append_assoc]); rfl)
          rw [hor] at hits3 ⊢
          exact ihr ⟨oj.ctx.lastid, oj.ctx.blockid, lblName "logic_right" (ol.ctx.blockid + 1)⟩ _
            post3 env2 b hwr heb hits3 (curOf_lbl _ _ _ _ _) hcokr (by simp only; omega) hpar2
        -- conversion to `_Bool`
        obtain ⟨n4, env4, hreach4, hag4, rv, hvv, hrepv⟩ :
            RunsTo S or.ctx.lastid env3 (pre ++ ol.items ++ oj.items ++
              [.lbl (some (if (op == .lor) = true
                  then Jump.jnz oj.val (lblName "logic_join" (ol.ctx.blockid + 2))
                    (lblName "logic_right" (ol.ctx.blockid + 1))
                  else Jump.jnz oj.val (lblName "logic_right" (ol.ctx.blockid + 1))
                    (lblName "logic_join" (ol.ctx.blockid + 2))))
                (lblName "logic_right" (ol.ctx.blockid + 1)) []] ++ or.items)
              ov.items ov.val (fun r' => BoolRes (decide (b ≠ 0)) r') := by
          obtain ⟨post4, hits4⟩ := exists_post (its := S.its) (pre := pre ++ ol.items ++ oj.items ++
              [.lbl (some (if (op == .lor) = true
                  then Jump.jnz oj.val (lblName "logic_join" (ol.ctx.blockid + 2))
                    (lblName "logic_right" (ol.ctx.blockid + 1))
                  else Jump.jnz oj.val (lblName "logic_right" (ol.ctx.blockid + 1))
                    (lblName "logic_join" (ol.ctx.blockid + 2))))
                (lblName "logic_right" (ol.ctx.blockid + 1)) []] ++ or.items)
            (mid := ov.items) (by rw [hits]; (try simp only [List.append_assoc]); rfl)
          rw [hov] at hits4 ⊢
          exact (sim_convert S or.ctx .bool r.ty or.val _ post4 env3 b rr hits4 hvr hrepr hrb).weaken
            (fun r' h => h.2 rfl)
        -- fall through into the join block
        obtain ⟨bb, hbb, hszb, htermb, hlblb⟩ := S.term_at hitsL2
        have hcurv : bb.label = ov.ctx.cur := by
          rw [hlblb, curOf_append_allIns _ _ _ sv.allIns, gr.cur _ _ (curOf_lbl _ _ _ _ _), sv.cur]
        have hne : (oj.ctx.cur == ov.ctx.cur) = false := by
          rw [beq_eq_false_iff_ne]
          obtain ⟨n0, j0, h0, hj0⟩ := gl.curOK hcok
          obtain ⟨n2', j2, h3, h4⟩ := gr.curId "logic_right" (ol.ctx.blockid + 1) rfl
          intro heq'
          rw [sj.cur, sv.cur, h0, h3] at heq'
          have := lblName_inj heq'
          simp only at h4
          omega
        have hrepi : Rep .int (b2i (decide (b ≠ 0))) rv := (rep_w int_size).2 hrepv.wrep
        obtain ⟨r', hco, hrep'⟩ := rep_coerce hrepi
        have hstep2 : step S.p S.ext (S.at env4 (pre ++ ol.items ++ oj.items ++
              [.lbl (some (if (op == .lor) = true
                  then Jump.jnz oj.val (lblName "logic_join" (ol.ctx.blockid + 2))
                    (lblName "logic_right" (ol.ctx.blockid + 1))
                  else Jump.jnz oj.val (lblName "logic_right" (ol.ctx.blockid + 1))
                    (lblName "logic_join" (ol.ctx.blockid + 2))))
                (lblName "logic_right" (ol.ctx.blockid + 1)) []] ++ or.items ++ ov.items)) =
            .next (S.at (env4.insert (tmpName (ov.ctx.lastid + 1)) r')
              (pre ++ ol.items ++ oj.items ++
              [.lbl (some (if (op == .lor) = true
                  then Jump.jnz oj.val (lblName "logic_join" (ol.ctx.blockid + 2))
                    (lblName "logic_right" (ol.ctx.blockid + 1))
                  else Jump.jnz oj.val (lblName "logic_right" (ol.ctx.blockid + 1))
                    (lblName "logic_join" (ol.ctx.blockid + 2))))
                (lblName "logic_right" (ol.ctx.blockid + 1)) []] ++ or.items ++ ov.items ++
              [.lbl none (lblName "logic_join" (ol.ctx.blockid + 2))
                [⟨tmpName (ov.ctx.lastid + 1), .w,
                  [(oj.ctx.cur, .int (if (op == .lor) = true then 1 else 0)),
                   (ov.ctx.cur, ov.val)]⟩]])) := by
          rw [S.at_lbl]
          unfold Sit.at
          rw [step_fall S.x hbb hszb htermb]
          exact goto_phi S.x (src := (ov.ctx.cur, ov.val)) hbjn hbjnp
            (by simp [hcurv, hne]) hvv hco
        refine ⟨n1 + n2 + 1 + n3 + n4 + 1, env4.insert (tmpName (ov.ctx.lastid + 1)) r', ?_, ?_, r',
          readVal_insert_self _ _ _ _, hrep'⟩
        · have hreach := ((((hreach1.trans hreach2).trans (Reach.one hstep)).trans hreach3).trans
            hreach4).trans (Reach.one hstep2)
          simp only [List.append_assoc] at hreach ⊢
          exact hreach
        · exact ((((hag1.trans hag2 l1).trans hag3 (by omega)).trans hag4 (by omega)).trans
            (Agree.insert (n := c.lastid) env4 r' (by omega)) (Nat.le_refl _))
  | cond t e a b ihe iha ihb =>
    intro c pre post env v hwt hev hits hcur hcok hn hpar
    simp only [Expr.wt, Bool.and_eq_true, beq_iff_eq] at hwt
    obtain ⟨⟨⟨⟨hwe, hwa⟩, hwb⟩, hta⟩, htb⟩ := hwt
    simp only [evalC, Option.bind_eq_some_iff] at hev
    obtain ⟨vc, hevc, hev2⟩ := hev
    have hrc := evalC_inRange S.cs S.ptys S.ρ S.henv e vc hwe hevc
    obtain ⟨oc, oj, oa, ob, hoc, hoj, hoa, hob, heq⟩ := funcexpr_cond S.cs t e a b c
    rw [heq] at hits ⊢
    simp only at hits ⊢
    have ge : Good _ oc := hoc ▸ funcexpr_good S.cs e _
    have sj : Straight _ oj := hoj ▸ jnzArg_straight _ _ _ _
    have ga : Good _ oa := hoa ▸ funcexpr_good S.cs a _
    have gb : Good _ ob := hob ▸ funcexpr_good S.cs b _
    have b1 := ge.blockid; have b2 := sj.blockid; have b3 := ga.blockid; have b4 := gb.blockid
    have l1 := ge.lastid; have l2 := sj.lastid; have l3 := ga.lastid; have l4 := gb.lastid
    simp only at b1 b3 b4 l1 l3 l4
    -- the three label items and what follows them
    have hitsL1 : S.its = (pre ++ oc.items ++ oj.items) ++
        .lbl (some (.jnz oj.val (lblName "cond_true" (c.blockid + 1))
          (lblName "cond_false" (c.blockid + 2)))) (lblName "cond_true" (c.blockid + 1)) [] ::
        (oa.items ++ [.lbl (some (.jmp (lblName "cond_join" (c.blockid + 3))))
          (lblName "cond_false" (c.blockid + 2)) []] ++ ob.items ++
          [.lbl none (lblName "cond_join" (c.blockid + 3))
            [⟨tmpName (ob.ctx.lastid + 1), cls t, [(oa.ctx.cur, oa.val), (ob.ctx.cur, ob.val)]⟩]] ++
          post) := by
      rw [hits]; simp only [List.append_assoc, List.singleton_append, List.cons_append, List.nil_append]
    have hitsL2 : S.its = (pre ++ oc.items ++ oj.items ++
        [.lbl (some (.jnz oj.val (lblName "cond_true" (c.blockid + 1))
          (lblName "cond_false" (c.blockid + 2)))) (lblName "cond_true" (c.blockid + 1)) []] ++
        oa.items) ++
        .lbl (some (.jmp (lblName "cond_join" (c.blockid + 3))))
          (lblName "cond_false" (c.blockid + 2)) [] ::
        (ob.items ++ [.lbl none (lblName "cond_join" (c.blockid + 3))
            [⟨tmpName (ob.ctx.lastid + 1), cls t, [(oa.ctx.cur, oa.val), (ob.ctx.cur, ob.val)]⟩]] ++
          post) := by
      rw [hits]; simp only [List.append_assoc, List.singleton_append, List.cons_append, List.nil_append]
    have hitsL3 : S.its = (pre ++ oc.items ++ oj.items ++
        [.lbl (some (.jnz oj.val (lblName "cond_true" (c.blockid + 1))
          (lblName "cond_false" (c.blockid + 2)))) (lblName "cond_true" (c.blockid + 1)) []] ++
        oa.items ++ [.lbl (some (.jmp (lblName "cond_join" (c.blockid + 3))))
          (lblName "cond_false" (c.blockid + 2)) []] ++ ob.items) ++
        .lbl none (lblName "cond_join" (c.blockid + 3))
            [⟨tmpName (ob.ctx.lastid + 1), cls t, [(oa.ctx.cur, oa.val), (ob.ctx.cur, ob.val)]⟩] ::
          post := by
      rw [hits]; simp only [List.append_assoc, List.singleton_append, List.cons_append, List.nil_append]
    -- 1. the condition
    have hcok0 : CurOK ⟨c.lastid, c.blockid + 3, c.cur⟩ := by
      obtain ⟨n, j, h1, h2⟩ := hcok; exact ⟨n, j, h1, by simp only; omega⟩
    obtain ⟨n1, env1, hreach1, hag1, rc, hvc, hrepc⟩ :
        RunsTo S c.lastid env pre oc.items oc.val (fun r => Rep e.ty vc r) := by
      obtain ⟨post1, hits1⟩ := exists_post (its := S.its) (pre := pre) (mid := oc.items)
        (by rw [hits]; (try simp only [List.append_assoc]); rfl)
      rw [hoc] at hits1 ⊢
      exact ihe ⟨c.lastid, c.blockid + 3, c.cur⟩ pre post1 env vc hwe hevc hits1 hcur hcok0 hn hpar
    -- 2. the value branched on
    obtain ⟨n2, env2, hreach2, hag2, rj, hvj, w, hw, hwv⟩ :
        RunsTo S oc.ctx.lastid env1 (pre ++ oc.items) oj.items oj.val
          (fun r => ∃ w, r.asW = .ok w ∧ (w ≠ 0 ↔ vc ≠ 0)) := by
      obtain ⟨post2, hits2⟩ := exists_post (its := S.its) (pre := pre ++ oc.items) (mid := oj.items)
        (by rw [hits]; (try simp only [List.append_assoc]); rfl)
      rw [hoj] at hits2 ⊢
      exact sim_jnzArg S oc.ctx e.ty oc.val (pre ++ oc.items) post2 env1 vc rc hits2 hvc hrepc hrc
    have hpar2 : ParamsIn S env2 := (hpar.agree hag1 hn).agree hag2 (by omega)
    have hcurc : curOf S.o0 (pre ++ oc.items) = oc.ctx.cur := ge.cur _ _ hcur
    have hcurj : curOf S.o0 (pre ++ oc.items ++ oj.items) = oj.ctx.cur := by
      rw [curOf_append_allIns _ _ _ sj.allIns, hcurc, sj.cur]
    -- 3. the branch
    obtain ⟨bj, hbj, hsz, hterm, _⟩ := S.term_at hitsL1
    obtain ⟨bt, hbt, hbtl, hbtp, hidxt⟩ := S.target hitsL1
    obtain ⟨bf, hbf, hbfl, hbfp, hidxf⟩ := S.target hitsL2
    obtain ⟨bjn, hbjn, hbjnl, hbjnp, hidxj⟩ := S.target hitsL3
    by_cases hvc0 : vc ≠ 0
    · -- true arm
      rw [if_pos hvc0] at hev2
      have hw0 : (w != 0) = true := by simpa using hwv.2 hvc0
      have hstep : step S.p S.ext (S.at env2 (pre ++ oc.items ++ oj.items)) =
          .next (S.at env2 (pre ++ oc.items ++ oj.items ++
            [.lbl (some (.jnz oj.val (lblName "cond_true" (c.blockid + 1))
              (lblName "cond_false" (c.blockid + 2)))) (lblName "cond_true" (c.blockid + 1)) []])) := by
        rw [S.at_lbl]
        unfold Sit.at
        rw [step_jnz S.x hbj hsz hterm hvj hw (by rw [hw0, if_pos rfl]; exact hidxt)]
        exact goto_nophi S.x hbt hbtp
      have hcokt : CurOK ⟨oj.ctx.lastid, oj.ctx.blockid, lblName "cond_true" (c.blockid + 1)⟩ :=
        ⟨_, _, rfl, by simp only; omega⟩
      obtain ⟨n3, env3, hreach3, hag3, ra, hva, hrepa⟩ :
          RunsTo S oj.ctx.lastid env2 (pre ++ oc.items ++ oj.items ++
            [.lbl (some (.jnz oj.val (lblName "cond_true" (c.blockid + 1))
              (lblName "cond_false" (c.blockid + 2)))) (lblName "cond_true" (c.blockid + 1)) []])
            oa.items oa.val (fun r => Rep a.ty v r) := by
        obtain ⟨post3, hits3⟩ := exists_post (its := S.its) (pre := pre ++ oc.items ++ oj.items ++
            [.lbl (some (.jnz oj.val (lblName "cond_true" (c.blockid + 1))
              (lblName "cond_false" (c.blockid + 2)))) (lblName "cond_true" (c.blockid + 1)) []])
          (mid := oa.items) (by rw [hits]; (try simp only [List.append_assoc]); rfl)
        rw [hoa] at hits3 ⊢
        exact iha ⟨oj.ctx.lastid, oj.ctx.blockid, lblName "cond_true" (c.blockid + 1)⟩ _ post3 env2 v
          hwa hev2 hits3 (curOf_lbl _ _ _ _ _) hcokt (by simp only; omega) hpar2
      -- jmp to the join block
      obtain ⟨ba, hba, hsza, hterma, hlbla⟩ := S.term_at hitsL2
      have hcura : ba.label = oa.ctx.cur := by
        rw [hlbla]; exact ga.cur _ _ (curOf_lbl _ _ _ _ _)
      rw [hta] at hrepa
      obtain ⟨r', hco, hrep'⟩ := rep_coerce hrepa
      have hstep2 : step S.p S.ext (S.at env3 (pre ++ oc.items ++ oj.items ++
            [.lbl (some (.jnz oj.val (lblName "cond_true" (c.blockid + 1))
              (lblName "cond_false" (c.blockid + 2)))) (lblName "cond_true" (c.blockid + 1)) []] ++
            oa.items)) =
          .next (S.at (env3.insert (tmpName (ob.ctx.lastid + 1)) r')
            (pre ++ oc.items ++ oj.items ++
            [.lbl (some (.jnz oj.val (lblName "cond_true" (c.blockid + 1))
              (lblName "cond_false" (c.blockid + 2)))) (lblName "cond_true" (c.blockid + 1)) []] ++
            oa.items ++ [.lbl (some (.jmp (lblName "cond_join" (c.blockid + 3))))
              (lblName "cond_false" (c.blockid + 2)) []] ++ ob.items ++
            [.lbl none (lblName "cond_join" (c.blockid + 3))
              [⟨tmpName (ob.ctx.lastid + 1), cls t, [(oa.ctx.cur, oa.val), (ob.ctx.cur, ob.val)]⟩]])) := by
        rw [S.at_lbl]
        unfold Sit.at
        rw [step_jmp S.x hba hsza hterma hidxj]
        exact goto_phi S.x (src := (oa.ctx.cur, oa.val)) hbjn hbjnp
          (by simp [hcura]) hva hco
      refine ⟨n1 + n2 + 1 + n3 + 1, env3.insert (tmpName (ob.ctx.lastid + 1)) r', ?_, ?_, r',
        readVal_insert_self _ _ _ _, hrep'⟩
      · have hreach := (((hreach1.trans hreach2).trans (Reach.one hstep)).trans hreach3).trans
          (Reach.one hstep2)
        simp only [List.append_assoc] at hreach ⊢
        exact hreach
      · exact (((hag1.trans hag2 l1).trans hag3 (by omega)).trans
          (Agree.insert (n := c.lastid) env3 r' (by omega)) (Nat.le_refl _))
    · -- false arm
      rw [if_neg hvc0] at hev2
      have hw0 : (w != 0) = false := by
        have : ¬ w ≠ 0 := fun h => hvc0 (hwv.1 h)
        simpa using this
      have hstep : step S.p S.ext (S.at env2 (pre ++ oc.items ++ oj.items)) =
          .next (S.at env2 (pre ++ oc.items ++ oj.items ++
            [.lbl (some (.jnz oj.val (lblName "cond_true" (c.blockid + 1))
              (lblName "cond_false" (c.blockid + 2)))) (lblName "cond_true" (c.blockid + 1)) []] ++
            oa.items ++ [.lbl (some (.jmp (lblName "cond_join" (c.blockid + 3))))
              (lblName "cond_false" (c.blockid + 2)) []])) := by
        rw [S.at_lbl]
        unfold Sit.at
        rw [step_jnz S.x hbj hsz hterm hvj hw (by rw [hw0]; exact hidxf)]
        exact goto_nophi S.x hbf hbfp
      have hcokf : CurOK ⟨oa.ctx.lastid, oa.ctx.blockid, lblName "cond_false" (c.blockid + 2)⟩ :=
        ⟨_, _, rfl, by simp only; omega⟩
      obtain ⟨n3, env4, hreach3, hag3, rb, hvb, hrepb⟩ :
          RunsTo S oa.ctx.lastid env2 (pre ++ oc.items ++ oj.items ++
            [.lbl (some (.jnz oj.val (lblName "cond_true" (c.blockid + 1))
              (lblName "cond_false" (c.blockid + 2)))) (lblName "cond_true" (c.blockid + 1)) []] ++
            oa.items ++ [.lbl (some (.jmp (lblName "cond_join" (c.blockid + 3))))
              (lblName "cond_false" (c.blockid + 2)) []])
            ob.items ob.val (fun r => Rep b.ty v r) := by
        obtain ⟨post3, hits3⟩ := exists_post (its := S.its) (pre := pre ++ oc.items ++ oj.items ++
            [.lbl (some (.jnz oj.val (lblName "cond_true" (c.blockid + 1))
              (lblName "cond_false" (c.blockid + 2)))) (lblName "cond_true" (c.blockid + 1)) []] ++
            oa.items ++ [.lbl (some (.jmp (lblName "cond_join" (c.blockid + 3))))
              (lblName "cond_false" (c.blockid + 2)) []])
          (mid := ob.items) (by rw [hits]; (try simp only [List.append_assoc]); rfl)
        rw [hob] at hits3 ⊢
        exact ihb ⟨oa.ctx.lastid, oa.ctx.blockid, lblName "cond_false" (c.blockid + 2)⟩ _ post3 env2 v
          hwb hev2 hits3 (curOf_lbl _ _ _ _ _) hcokf (by simp only; omega) hpar2
      -- fall through into the join block
      obtain ⟨bb, hbb, hszb, htermb, hlblb⟩ := S.term_at hitsL3
      have hcurb : bb.label = ob.ctx.cur := by
        rw [hlblb]; exact gb.cur _ _ (curOf_lbl _ _ _ _ _)
      have hne : (oa.ctx.cur == ob.ctx.cur) = false := by
        rw [beq_eq_false_iff_ne]
        obtain ⟨n1', j1, h1, h2⟩ := ga.curId "cond_true" (c.blockid + 1) rfl
        obtain ⟨n2', j2, h3, h4⟩ := gb.curId "cond_false" (c.blockid + 2) rfl
        intro heq'
        rw [h1, h3] at heq'
        have := lblName_inj heq'
        simp only at h2 h4
        omega
      rw [htb] at hrepb
      obtain ⟨r', hco, hrep'⟩ := rep_coerce hrepb
      have hstep2 : step S.p S.ext (S.at env4 (pre ++ oc.items ++ oj.items ++
            [.lbl (some (.jnz oj.val (lblName "cond_true" (c.blockid + 1))
              (lblName "cond_false" (c.blockid + 2)))) (lblName "cond_true" (c.blockid + 1)) []] ++
            oa.items ++ [.lbl (some (.jmp (lblName "cond_join" (c.blockid + 3))))
              (lblName "cond_false" (c.blockid + 2)) []] ++ ob.items)) =
          .next (S.at (env4.insert (tmpName (ob.ctx.lastid + 1)) r')
            (pre ++ oc.items ++ oj.items ++
            [.lbl (some (.jnz oj.val (lblName "cond_true" (c.blockid + 1))
              (lblName "cond_false" (c.blockid + 2)))) (lblName "cond_true" (c.blockid + 1)) []] ++
            oa.items ++ [.lbl (some (.jmp (lblName "cond_join" (c.blockid + 3))))
              (lblName "cond_false" (c.blockid + 2)) []] ++ ob.items ++
            [.lbl none (lblName "cond_join" (c.blockid + 3))
              [⟨tmpName (ob.ctx.lastid + 1), cls t, [(oa.ctx.cur, oa.val), (ob.ctx.cur, ob.val)]⟩]])) := by
        rw [S.at_lbl]
        unfold Sit.at
        rw [step_fall S.x hbb hszb htermb]
        exact goto_phi S.x (src := (ob.ctx.cur, ob.val)) hbjn hbjnp
          (by simp [hcurb, hne]) hvb hco
      refine ⟨n1 + n2 + 1 + n3 + 1, env4.insert (tmpName (ob.ctx.lastid + 1)) r', ?_, ?_, r',
        readVal_insert_self _ _ _ _, hrep'⟩
      · have hreach := (((hreach1.trans hreach2).trans (Reach.one hstep)).trans hreach3).trans
          (Reach.one hstep2)
        simp only [List.append_assoc] at hreach ⊢
        exact hreach
      · exact (((hag1.trans hag2 l1).trans hag3 (by omega)).trans
          (Agree.insert (n := c.lastid) env4 r' (by omega)) (Nat.le_refl _))

end CprocVerif.LowerMach

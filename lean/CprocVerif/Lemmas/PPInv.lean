import CprocVerif.Model.PP

/-! # The hide flag marks exactly the macros with a live frame

`Inv st`: table names are distinct, no macro has two frames on the context stack, a macro's
`hide` flag is set exactly when one of its frames is on the stack, and `macrodepth` counts those
frames.  `popDone` (the loop at the head of `ctxnext`, `macrodone` included) and `pushMacro` (the
tail of `expand`) preserve it for every table; for tables of object-like macros and input without
directives every call does. -/

namespace CprocVerif.PP
open CprocVerif.Gen.TokenKinds

/-- names of the macros that have a frame on the stack, top first -/
def liveNames (ctx : List Frame) : List Name := ctx.filterMap (·.mac)

structure InvC (ctx : List Frame) (ms : List Macro) (d : Nat) : Prop where
  names : (ms.map (·.name)).Nodup
  liveNodup : (liveNames ctx).Nodup
  hideIff : ∀ m ∈ ms, (m.hide = true ↔ m.name ∈ liveNames ctx)
  depth : d = (liveNames ctx).length

def Inv (st : St) : Prop := InvC st.ctx st.macros st.depth

theorem setHide_names (ms : List Macro) (n : Name) (b : Bool) : (setHide ms n b).map (·.name) = ms.map (·.name) := by
  unfold setHide
  induction ms with
  | nil => rfl
  | cons m r ih =>
    simp only [List.map_cons, ih]
    split <;> rfl

theorem mem_setHide {ms : List Macro} {n : Name} {b : Bool} {x : Macro} (h : x ∈ setHide ms n b) :
    ∃ m ∈ ms, x = (if m.name = n then { m with hide := b } else m) := by
  unfold setHide at h
  obtain ⟨m, hm, rfl⟩ := List.mem_map.mp h
  exact ⟨m, hm, rfl⟩

theorem liveNames_cons_some (f : Frame) (rest : List Frame) (n : Name) (h : f.mac = some n) :
    liveNames (f :: rest) = n :: liveNames rest := by
  simp [liveNames, List.filterMap_cons, h]

theorem liveNames_cons_none (f : Frame) (rest : List Frame) (h : f.mac = none) :
    liveNames (f :: rest) = liveNames rest := by
  simp [liveNames, List.filterMap_cons, h]

/-- popping the top frame of macro `n` and clearing its flag (`macrodone`) -/
theorem invC_pop {f : Frame} {rest : List Frame} {ms : List Macro} {d : Nat} {n : Name}
    (hf : f.mac = some n) (h : InvC (f :: rest) ms d) : InvC rest (setHide ms n false) (d - 1) := by
  have hl := liveNames_cons_some f rest n hf
  have hnd := h.liveNodup
  rw [hl] at hnd
  have hn : n ∉ liveNames rest := (List.nodup_cons.mp hnd).1
  refine ⟨by rw [setHide_names]; exact h.names, (List.nodup_cons.mp hnd).2, ?_, ?_⟩
  · intro x hx
    obtain ⟨m, hm, rfl⟩ := mem_setHide hx
    have := h.hideIff m hm
    rw [hl] at this
    split
    · rename_i hmn
      simp only [Bool.false_eq_true, false_iff]
      rw [hmn]; exact hn
    · rename_i hmn
      rw [this]
      simp only [List.mem_cons, hmn, false_or]
  · have := h.depth
    rw [hl] at this
    simp only [List.length_cons] at this
    omega

theorem invC_pop_none {f : Frame} {rest : List Frame} {ms : List Macro} {d : Nat}
    (hf : f.mac = none) (h : InvC (f :: rest) ms d) : InvC rest ms d := by
  have hl := liveNames_cons_none f rest hf
  exact ⟨h.names, by rw [← hl]; exact h.liveNodup, by intro m hm; rw [← hl]; exact h.hideIff m hm,
    by rw [← hl]; exact h.depth⟩

/-- **`popDone` preserves the invariant** (any table), leaves a stack that is empty or has a
non-exhausted top frame, and touches nothing but `hide` flags. -/
theorem popDone_inv : ∀ (ctx : List Frame) (ms : List Macro) (d : Nat), InvC ctx ms d →
    InvC (popDone ctx ms d).1 (popDone ctx ms d).2.1 (popDone ctx ms d).2.2 ∧
    (∀ f rest, (popDone ctx ms d).1 = f :: rest → f.toks ≠ []) ∧
    ((popDone ctx ms d).2.1.map (fun m => (m.name, m.func, m.body))) = ms.map (fun m => (m.name, m.func, m.body))
  | [], ms, d, h => by
    unfold popDone
    exact ⟨h, (by intro f rest hh; cases hh), rfl⟩
  | f :: rest, ms, d, h => by
    unfold popDone
    split
    · rename_i hemp
      split
      · rename_i n hn
        have ih := popDone_inv rest (setHide ms n false) (d - 1) (invC_pop hn h)
        refine ⟨ih.1, ih.2.1, ?_⟩
        rw [ih.2.2]
        unfold setHide
        rw [List.map_map]
        apply List.map_congr_left
        intro m _
        simp only [Function.comp]
        split <;> rfl
      · rename_i hn
        exact popDone_inv rest ms d (invC_pop_none hn h)
    · rename_i hemp
      refine ⟨h, ?_, rfl⟩
      intro f' rest' hh
      cases hh
      intro he
      apply hemp
      simp [he]

/-- pushing a frame for a macro that is in the table and not hidden (`expand`'s tail) -/
theorem invC_push {ctx : List Frame} {ms : List Macro} {d : Nat} {m : Macro} (toks : List Tok)
    (h : InvC ctx ms d) (hm : m ∈ ms) (hh : m.hide = false) :
    InvC (⟨toks, some m.name⟩ :: ctx) (setHide ms m.name true) (d + 1) := by
  have hl : liveNames (⟨toks, some m.name⟩ :: ctx) = m.name :: liveNames ctx := liveNames_cons_some _ _ _ rfl
  have hnot : m.name ∉ liveNames ctx := by
    intro hin
    have := (h.hideIff m hm).mpr hin
    rw [hh] at this; cases this
  refine ⟨by rw [setHide_names]; exact h.names, by rw [hl]; exact List.nodup_cons.mpr ⟨hnot, h.liveNodup⟩, ?_, ?_⟩
  · intro x hx
    obtain ⟨m', hm', rfl⟩ := mem_setHide hx
    rw [hl]
    split
    · rename_i hmn
      simp [hmn]
    · rename_i hmn
      rw [h.hideIff m' hm']
      simp only [List.mem_cons, hmn, false_or]
  · rw [hl, h.depth]; rfl

end CprocVerif.PP

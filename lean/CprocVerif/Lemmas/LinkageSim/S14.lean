import CprocVerif.Lemmas.Linkage

/-! C09: the finite step simulation `stepCheck` (see `Lemmas/Linkage.lean`), checked by kernel
evaluation over every valid abstract state of one ghost class and every form. -/
namespace CprocVerif.Linkage

set_option maxRecDepth 100000 in
set_option maxHeartbeats 4000000 in
theorem sim_none_t_f : simAll none true false = true := by
  decide +kernel

set_option maxRecDepth 100000 in
set_option maxHeartbeats 4000000 in
theorem sim_none_t_t : simAll none true true = true := by
  decide +kernel

set_option maxRecDepth 100000 in
set_option maxHeartbeats 4000000 in
theorem sim_obj_none_f_f : simAll (some (.obj, .none)) false false = true := by
  decide +kernel

set_option maxRecDepth 100000 in
set_option maxHeartbeats 4000000 in
theorem sim_obj_none_f_t : simAll (some (.obj, .none)) false true = true := by
  decide +kernel

set_option maxRecDepth 100000 in
set_option maxHeartbeats 4000000 in
theorem sim_obj_none_t_f : simAll (some (.obj, .none)) true false = true := by
  decide +kernel

set_option maxRecDepth 100000 in
set_option maxHeartbeats 4000000 in
theorem sim_obj_none_t_t : simAll (some (.obj, .none)) true true = true := by
  decide +kernel

set_option maxRecDepth 100000 in
set_option maxHeartbeats 4000000 in
theorem sim_func_none_f_f : simAll (some (.func, .none)) false false = true := by
  decide +kernel

set_option maxRecDepth 100000 in
set_option maxHeartbeats 4000000 in
theorem sim_func_none_f_t : simAll (some (.func, .none)) false true = true := by
  decide +kernel

set_option maxRecDepth 100000 in
set_option maxHeartbeats 4000000 in
theorem sim_func_none_t_f : simAll (some (.func, .none)) true false = true := by
  decide +kernel

set_option maxRecDepth 100000 in
set_option maxHeartbeats 4000000 in
theorem sim_func_none_t_t : simAll (some (.func, .none)) true true = true := by
  decide +kernel

set_option maxRecDepth 100000 in
set_option maxHeartbeats 4000000 in
theorem sim_func_intern_t_f : simAll (some (.func, .intern)) true false = true := by
  decide +kernel

set_option maxRecDepth 100000 in
set_option maxHeartbeats 4000000 in
theorem sim_func_intern_t_t : simAll (some (.func, .intern)) true true = true := by
  decide +kernel

set_option maxRecDepth 100000 in
set_option maxHeartbeats 4000000 in
theorem sim_func_extern_t_f : simAll (some (.func, .extern)) true false = true := by
  decide +kernel

set_option maxRecDepth 100000 in
set_option maxHeartbeats 4000000 in
theorem sim_func_extern_t_t : simAll (some (.func, .extern)) true true = true := by
  decide +kernel

set_option maxRecDepth 100000 in
set_option maxHeartbeats 4000000 in
theorem finAll_true : finAll = true := by
  decide +kernel

end CprocVerif.Linkage

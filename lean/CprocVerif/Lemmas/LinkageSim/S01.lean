import CprocVerif.Lemmas.Linkage

/-! C09: the finite step simulation `stepCheck` (see `Lemmas/Linkage.lean`), checked by kernel
evaluation over every valid abstract state of one ghost class and every form. -/
namespace CprocVerif.Linkage

set_option maxRecDepth 100000 in
set_option maxHeartbeats 4000000 in
theorem sim_none_f_t : simAll none false true = true := by
  decide +kernel

end CprocVerif.Linkage

import CprocVerif.Model.Sites

/-! Soundness of the linear table checkers of `Model/Sites.lean`. -/

namespace CprocVerif.Sites

theorem sub_sound : ∀ (xs ys : List Nat), sub xs ys = true → ∀ x ∈ xs, x ∈ ys
  | [], _, _, x, hx => by cases hx
  | _ :: _, [], h, _, _ => by simp [sub] at h
  | x :: xs, y :: ys, h, z, hz => by
    unfold sub at h
    split at h
    · rename_i hxy
      subst hxy
      rcases List.mem_cons.mp hz with rfl | hz
      · exact List.mem_cons_self
      · exact List.mem_cons_of_mem _ (sub_sound xs ys h z hz)
    · exact List.mem_cons_of_mem _ (sub_sound (x :: xs) ys h z hz)

theorem strictAsc_head_lt : ∀ (a : Nat) (l : List Nat), strictAsc (a :: l) = true → ∀ b ∈ l, a < b
  | _, [], _, _, hb => by cases hb
  | a, c :: r, h, b, hb => by
    simp only [strictAsc, Bool.and_eq_true, decide_eq_true_eq] at h
    rcases List.mem_cons.mp hb with rfl | hb
    · exact h.1
    · exact Nat.lt_trans h.1 (strictAsc_head_lt c r h.2 b hb)

theorem strictAsc_tail : ∀ (a : Nat) (l : List Nat), strictAsc (a :: l) = true → strictAsc l = true
  | _, [], _ => rfl
  | _, _ :: _, h => by
    simp only [strictAsc, Bool.and_eq_true] at h
    exact h.2

theorem strictAsc_pairwise : ∀ (l : List Nat), strictAsc l = true → l.Pairwise (· < ·)
  | [], _ => List.Pairwise.nil
  | a :: l, h => List.Pairwise.cons (strictAsc_head_lt a l h) (strictAsc_pairwise l (strictAsc_tail a l h))

theorem strictAsc_nodup (l : List Nat) (h : strictAsc l = true) : l.Nodup :=
  (strictAsc_pairwise l h).imp (fun h => Nat.ne_of_lt h)

end CprocVerif.Sites

import CprocVerif.Lemmas.PPFunRef
import CprocVerif.Lemmas.PPFlatG
import CprocVerif.Lemmas.PPEqual

/-! # A simple function-like invocation: the model's new context is the reference's new source

For a function-like macro without `#` and `...`, invoked from the source text (empty context
stack) with arguments that contain no macro name: `expand` consumes `( args )`, stores the
arguments and pushes the replacement list; what that frame will deliver (`flat`) is, by class
and spelling, the list the reference continues with after its own step on the same invocation
(`expandH_func_step`). -/

namespace CprocVerif.PP
open CprocVerif.Gen.TokenKinds
open CprocVerif.Spec.MacroRef (HTok Item PTok MacroDef RErr Flag Elem expandH hsadd union pendItems lookup
  matchParen splitTop subst elems paramIndex)
open CprocVerif.Spec

def k2' (h : HTok) : Kind × Option Name := (h.tok.kind, h.tok.lit)

theorem key_respace (l : List Tok) (sp : Bool) : (respace l sp).map Tok.key = l.map Tok.key := by
  cases l <;> simp [respace, Tok.key]

theorem k2'_respace (l : List HTok) (sp : Bool) : (MacroRef.respace l sp).1.map k2' = l.map k2' := by
  cases l <;> simp [MacroRef.respace, k2']

theorem k2'_hsadd (hs : List Name) (l : List HTok) : (hsadd hs l).map k2' = l.map k2' := by
  simp [hsadd, k2', List.map_map, Function.comp_def]

/-- lazy substitution = the reference's substitution, by class and spelling, for a replacement list
without `#`; only the arguments of parameters that occur matter -/
theorem substBody_key (m : Macro) (md : MacroDef) (hf : md.func = true)
    (hidx : ∀ t : Tok, paramIndex md (toP t) = macroparam m.params t)
    (raw full : Nat → List HTok) :
    ∀ (body : List Tok), ((∀ t ∈ body, t.kind ≠ .THASH) ∧
        (∀ t ∈ body, ∀ i, macroparam m.params t = some i →
          ((m.args.getD i default).toks).map Tok.key = (full i).map k2')) → ∀ pend : Bool,
      (substBody m body).map Tok.key = (subst raw full (elems md (body.map toP)) pend).map k2' := by
  intro body
  have hone : ∀ (t : Tok), (∀ i, macroparam m.params t = some i →
          ((m.args.getD i default).toks).map Tok.key = (full i).map k2') → ∀ pend, ∀ rest : List Elem, ∀ R : List Tok,
      (∀ pd, R.map Tok.key = (subst raw full rest pd).map k2') →
      ((if t.kind = .TIDENT then
          match macroparam m.params t with
          | some i => respace (m.args.getD i default).toks t.space
          | none => [t]
        else [t]) ++ R).map Tok.key =
      (subst raw full (MacroRef.elemOf md (toP t) :: rest) pend).map k2' := by
    intro t hargs pend rest R hR
    unfold MacroRef.elemOf
    simp only [hf, ↓reduceIte, hidx]
    have hkey : Tok.key t = k2' ⟨{ toP t with space := (toP t).space || pend }, [], false⟩ := by
      simp [Tok.key, k2', toP]
    by_cases hk : t.kind = .TIDENT
    · simp only [hk, ↓reduceIte]
      cases hp : macroparam m.params t with
      | none =>
        simp only [subst, List.cons_append, List.nil_append, List.map_cons]
        rw [hR false, hkey]
      | some i =>
        simp only [subst, List.map_append, key_respace, k2'_respace, hargs i hp]
        rw [hR]
    · have : macroparam m.params t = none := by unfold macroparam; simp [hk]
      simp only [hk, ↓reduceIte, this, subst, List.cons_append, List.nil_append, List.map_cons]
      rw [hR false, hkey]
  fun_induction substBody m body
  · intro _ pend; simp [elems, subst]
  case case2 t hk i hp =>
    intro hb pend
    have := hone t (hb.2 t (List.mem_cons_self ..)) pend [] [] (by intro; rfl)
    simp only [hk, ↓reduceIte, hp, List.append_nil] at this
    simpa [elems] using this
  case case3 t hk hp =>
    intro hb pend
    have := hone t (hb.2 t (List.mem_cons_self ..)) pend [] [] (by intro; rfl)
    simp only [hk, ↓reduceIte, hp, List.append_nil] at this
    simpa [elems] using this
  case case4 t hk =>
    intro hb pend
    have := hone t (hb.2 t (List.mem_cons_self ..)) pend [] [] (by intro; rfl)
    simp only [hk, ↓reduceIte, List.append_nil] at this
    simpa [elems] using this
  case case5 t u r hh i hp ih =>
    intro hb pend
    exact absurd hh (hb.1 t (List.mem_cons_self ..))
  case case6 t u r hh hp ih =>
    intro hb pend
    exact absurd hh (hb.1 t (List.mem_cons_self ..))
  case case7 t u r hh hk i hp ih =>
    intro hb pend
    have hr := ih ⟨fun x hx => hb.1 x (List.mem_cons_of_mem _ hx), fun x hx => hb.2 x (List.mem_cons_of_mem _ hx)⟩
    have he : elems md (List.map toP (t :: u :: r)) = MacroRef.elemOf md (toP t) :: elems md (List.map toP (u :: r)) := by
      simp only [List.map_cons]
      rw [elems]
      have : (toP t).kind ≠ .THASH := hh
      simp only [this, and_false, ↓reduceIte]
    rw [he]
    have := hone t (hb.2 t (List.mem_cons_self ..)) pend _ _ hr
    simp only [hk, ↓reduceIte, hp] at this
    exact this
  case case8 t u r hh hk hp ih =>
    intro hb pend
    have hr := ih ⟨fun x hx => hb.1 x (List.mem_cons_of_mem _ hx), fun x hx => hb.2 x (List.mem_cons_of_mem _ hx)⟩
    have he : elems md (List.map toP (t :: u :: r)) = MacroRef.elemOf md (toP t) :: elems md (List.map toP (u :: r)) := by
      simp only [List.map_cons]
      rw [elems]
      have : (toP t).kind ≠ .THASH := hh
      simp only [this, and_false, ↓reduceIte]
    rw [he]
    have := hone t (hb.2 t (List.mem_cons_self ..)) pend _ _ hr
    simp only [hk, ↓reduceIte, hp, List.cons_append, List.nil_append] at this
    exact this
  case case9 t u r hh hk ih =>
    intro hb pend
    have hr := ih ⟨fun x hx => hb.1 x (List.mem_cons_of_mem _ hx), fun x hx => hb.2 x (List.mem_cons_of_mem _ hx)⟩
    have he : elems md (List.map toP (t :: u :: r)) = MacroRef.elemOf md (toP t) :: elems md (List.map toP (u :: r)) := by
      simp only [List.map_cons]
      rw [elems]
      have : (toP t).kind ≠ .THASH := hh
      simp only [this, and_false, ↓reduceIte]
    rw [he]
    have := hone t (hb.2 t (List.mem_cons_self ..)) pend _ _ hr
    simp only [hk, ↓reduceIte, List.cons_append, List.nil_append] at this
    exact this


/-! ## the model's side -/

/-- `peekparen()` when the context stack is empty and the scanner's next token is `(` -/
theorem peekparen_lparen (n : Nat) (st : St) (hctx : st.ctx = []) (lp : Tok) (r : List Tok)
    (hraw : st.raw = lp :: r) (hlp : lp.kind = .TLPAREN) (hprag : st.prag = false) :
    exec (n + 3) .peekparen st = .ok { st with raw := r, newline := false, rt := lp, rb := true } := by
  show peekparenBody (exec (n + 2)) st = _
  unfold peekparenBody
  simp only [hprag, Bool.false_eq_true, ↓reduceIte]
  rw [ctxnext_empty (n + 1) st hctx]
  simp only [Bool.false_eq_true, ↓reduceIte]
  show peekLoopBody (exec (n + 1)) [] { st with rb := false } = _
  unfold peekLoopBody
  have hni : exec (n + 1) .nextinto { st with rb := false } =
      .ok { st with rb := false, raw := r, newline := false, rt := lp } := by
    show nextintoBody (exec n) { st with rb := false } = _
    unfold nextintoBody scanTok
    have h1 : lp.kind ≠ .TNONE := by rw [hlp]; decide
    have h2 : lp.kind ≠ .THASH := by rw [hlp]; decide
    have h3 : lp.kind ≠ .TNEWLINE := by rw [hlp]; decide
    simp only [hraw, h1, ↓reduceIte, h2, and_false, h3, decide_false]
  rw [hni]
  have h3 : lp.kind ≠ .TNEWLINE := by rw [hlp]; decide
  have : ¬ (r.length + 1 < (lp :: r).length) := by simp
  simp only [hraw, this, ↓reduceIte, h3, hlp]
  simp [hprag]

theorem macroget_setArgs (ms : List Macro) (n : Name) (a : List Arg) (k : Name) :
    macroget (setArgs ms n a) k = (macroget ms k).map fun m => if m.name = n then { m with args := a } else m := by
  unfold macroget setArgs
  induction ms with
  | nil => rfl
  | cons m r ih =>
    simp only [List.map_cons, List.find?_cons]
    have hn : (if m.name = n then { m with args := a } else m).name = m.name := by split <;> rfl
    rw [hn]
    by_cases h : m.name = k
    · simp [h]
    · simp [h, ih]

/-- **`expand` on a simple invocation**: if `collect` accepts the tokens after the `(`, `expand`
completes, consumes exactly the invocation, stores `mkArg` of the collected arguments, pushes the
replacement list, hides the macro. -/
theorem expand_funclike (F : Macro) (T lp : Tok) (r : List Tok) (st : St) (args : List (List Tok)) (rest : List Tok)
    (hctx : st.ctx = []) (hprag : st.prag = false) (hTk : T.kind = .TIDENT) (hTh : T.hide = false)
    (hget : macroget st.macros (T.lit.getD []) = some F) (hFh : F.hide = false) (hfun : F.func = true)
    (hne : 0 < F.params.length) (hraw : st.raw = lp :: r) (hlp : lp.kind = .TLPAREN)
    (hcol : collect F.params 0 0 [] [] r = .ok (args, rest))
    (hpl : PlainFor st.macros r (collect F.params 0 0 [] [] r)) :
    ∃ n s2, exec n (.expand T) st = .ok s2 ∧ s2.rb = true ∧ s2.raw = rest ∧
      s2.ctx = [⟨respace F.body T.space, some F.name⟩] ∧
      s2.macros = setHide (setArgs st.macros F.name (List.zipWith mkArg F.params args)) F.name true ∧
      s2.depth = st.depth + 1 ∧ s2.ppnl = st.ppnl ∧ s2.prag = st.prag := by
  let sp : St := { st with raw := r, newline := false, rt := lp, rb := true }
  have hag := expandfunc_collect F sp hctx hpl hne
  rw [show sp.raw = r from rfl, hcol] at hag
  obtain ⟨n0, se, hse, h1, h2, h3, h4, h5⟩ := hag
  refine ⟨max n0 3 + 1, ?_⟩
  have hpk : exec (max n0 3) .peekparen st = .ok sp :=
    lift (peekparen_lparen 0 st hctx lp r hraw hlp hprag) (by intro h; cases h) _ (Nat.le_max_right ..)
  have hef : exec (max n0 3) (.expandfunc F) sp = .ok se := lift hse (by intro h; cases h) _ (Nat.le_max_left ..)
  show ∃ s2, expandBody (exec (max n0 3)) T st = .ok s2 ∧ _
  unfold expandBody
  simp only [hTk, ne_eq, not_true_eq_false, ↓reduceIte, hget, hFh, Bool.false_eq_true, hTh, hfun, hpk]
  have hrb : sp.rb = true := rfl
  simp only [hrb, not_true_eq_false, ↓reduceIte, hef]
  unfold pushMacro
  refine ⟨_, rfl, rfl, ?_, ?_, ?_, ?_, ?_, ?_⟩
  rotate_left 4
  · show (if F.body.isEmpty ∧ T.space then se.ev .emptySpace else se).ppnl = st.ppnl
    have : (if F.body.isEmpty ∧ T.space then se.ev .emptySpace else se).ppnl = se.ppnl := by split <;> rfl
    rw [this, h5.2.1]
  · show (if F.body.isEmpty ∧ T.space then se.ev .emptySpace else se).prag = st.prag
    have : (if F.body.isEmpty ∧ T.space then se.ev .emptySpace else se).prag = se.prag := by split <;> rfl
    rw [this, h5.2.2]
  · show (if F.body.isEmpty ∧ T.space then se.ev .emptySpace else se).raw = rest
    split <;> exact h1
  · show ⟨respace F.body T.space, some F.name⟩ :: (if F.body.isEmpty ∧ T.space then se.ev .emptySpace else se).ctx = _
    have : (if F.body.isEmpty ∧ T.space then se.ev .emptySpace else se).ctx = [] := by split <;> exact h2
    rw [this]
  · show setHide (if F.body.isEmpty ∧ T.space then se.ev .emptySpace else se).macros F.name true = _
    have : (if F.body.isEmpty ∧ T.space then se.ev .emptySpace else se).macros = se.macros := by split <;> rfl
    rw [this, h3]
  · show (if F.body.isEmpty ∧ T.space then se.ev .emptySpace else se).depth + 1 = _
    have : (if F.body.isEmpty ∧ T.space then se.ev .emptySpace else se).depth = se.depth := by split <;> rfl
    rw [this, h4]


/-! ## the table as the reference sees it -/

def toDefF (m : Macro) : MacroDef :=
  { name := m.name, func := m.func, params := m.params.map (·.name), variadic := false, body := m.body.map toP }

def tblF (ms : List Macro) : List MacroDef := ms.map toDefF

theorem lookup_tblF (ms : List Macro) (n : Name) : lookup (tblF ms) n = (macroget ms n).map toDefF := by
  unfold lookup tblF macroget
  induction ms with
  | nil => rfl
  | cons m r ih =>
    simp only [List.map_cons, List.find?_cons]
    have : (toDefF m).name = m.name := rfl
    rw [this]
    by_cases h : m.name = n
    · simp [h]
    · simp [h, ih]

theorem findIdx_map_name (ps : List Param) (l : Option Name) :
    (ps.map (·.name)).findIdx (fun p => decide (some p = l)) = ps.findIdx (fun p => decide (some p.name = l)) := by
  induction ps with
  | nil => rfl
  | cons p r ih => simp only [List.map_cons, List.findIdx_cons, ih]

theorem paramIndex_toDefF (F : Macro) (t : Tok) : paramIndex (toDefF F) (toP t) = macroparam F.params t := by
  unfold paramIndex macroparam toDefF toP
  simp only [Bool.false_eq_true, ↓reduceIte, List.length_map, findIdx_map_name]

theorem substBody_head_space (m : Macro) (t : Tok) (more : List Tok) (sp : Bool) :
    (substBody m ({ t with space := sp } :: more)).map Tok.key = (substBody m (t :: more)).map Tok.key := by
  generalize ht' : ({ t with space := sp } : Tok) = t'
  have hk' : t'.kind = t.kind := by rw [← ht']
  have hl' : t'.lit = t.lit := by rw [← ht']
  have hhd : t'.hide = t.hide := by rw [← ht']
  have hmp : macroparam m.params t' = macroparam m.params t := by unfold macroparam; rw [hk', hl']
  have hkey : Tok.key t' = Tok.key t := by simp [Tok.key, hk', hl']
  by_cases hh : t.kind = .THASH
  · have hh' : t'.kind = .THASH := by rw [hk']; exact hh
    cases more with
    | nil =>
      have h1 : t.kind ≠ .TIDENT := by rw [hh]; decide
      have h2 : t'.kind ≠ .TIDENT := by rw [hh']; decide
      simp [substBody, h1, h2, hkey]
    | cons u r =>
      cases hp : macroparam m.params u with
      | none =>
        have e1 : substBody m (t' :: u :: r) = t' :: substBody m (u :: r) := by rw [substBody]; simp [hh', hp]
        have e2 : substBody m (t :: u :: r) = t :: substBody m (u :: r) := by rw [substBody]; simp [hh, hp]
        rw [e1, e2]; simp [hkey]
      | some i =>
        rw [substBody_hash m t' u r i hh' hp, substBody_hash m t u r i hh hp]
        simp [Tok.key]
  · have hh' : t'.kind ≠ .THASH := by rw [hk']; exact hh
    by_cases hk : t.kind = .TIDENT
    · have hkt : t'.kind = .TIDENT := by rw [hk']; exact hk
      cases hp : macroparam m.params t with
      | none =>
        rw [substBody_plain m t' more hh' (fun _ => by rw [hmp]; exact hp), substBody_plain m t more hh (fun _ => hp)]
        simp [hkey]
      | some i =>
        rw [substBody_param m t' more i hkt (by rw [hmp]; exact hp), substBody_param m t more i hk hp]
        simp [key_respace]
    · have hkt : t'.kind ≠ .TIDENT := by rw [hk']; exact hk
      rw [substBody_plain m t' more hh' (fun h => absurd h hkt), substBody_plain m t more hh (fun h => absurd h hk)]
      simp [hkey]

theorem substBody_respace_key (m : Macro) (l : List Tok) (sp : Bool) :
    (substBody m (respace l sp)).map Tok.key = (substBody m l).map Tok.key := by
  cases l with
  | nil => rfl
  | cons t more => exact substBody_head_space m t more sp


/-! ## the invocation step -/

/-- a function-like macro of the simple kind: parameters, none of them `...`, no `#`, and every
parameter that occurs in the replacement list has its "used plainly" flag (as `define` sets it) -/
structure SimpleFun (F : Macro) : Prop where
  func : F.func = true
  nonempty : 0 < F.params.length
  novar : ∀ p ∈ F.params, p.fvar = false
  nohash : ∀ t ∈ F.body, t.kind ≠ .THASH
  ftok : ∀ t ∈ F.body, ∀ i, macroparam F.params t = some i → (F.params.getD i default).ftok = true

theorem getD_novar {ps : List Param} (h : ∀ p ∈ ps, p.fvar = false) (j : Nat) : (ps.getD j default).fvar = false := by
  rw [List.getD_eq_getElem?_getD]
  cases hj : ps[j]? with
  | none => rfl
  | some p => exact h p (List.mem_of_getElem? hj)

theorem macroparam_lt {ps : List Param} {t : Tok} {i : Nat} (h : macroparam ps t = some i) : i < ps.length := by
  unfold macroparam at h
  split at h
  · simp only at h
    split at h
    · rename_i hlt; cases h; exact hlt
    · cases h
  · cases h

theorem key_paint (x : Tok) : Tok.key (paint x) = Tok.key x := by
  unfold paint Tok.key; split <;> rfl

theorem funclike_step (F : Macro) (T lp : Tok) (r : List Tok) (st : St) (args : List (List Tok)) (rest : List Tok)
    (hsf : SimpleFun F) (hnd : (st.macros.map (·.name)).Nodup)
    (hctx : st.ctx = []) (hprag : st.prag = false) (hTk : T.kind = .TIDENT) (hTh : T.hide = false)
    (hget : macroget st.macros (T.lit.getD []) = some F) (hFh : F.hide = false)
    (hraw : st.raw = lp :: r) (hlp : lp.kind = .TLPAREN)
    (hcol : collect F.params 0 0 [] [] r = .ok (args, rest))
    (hpl : PlainFor st.macros r (collect F.params 0 0 [] [] r)) :
    ∃ seg rp, r = seg ++ rp :: rest ∧ rp.kind = .TRPAREN ∧
    ∃ n s2, exec n (.expand T) st = .ok s2 ∧ s2.rb = true ∧ s2.raw = rest ∧ s2.depth = st.depth + 1 ∧
      (flat s2.macros s2.ctx).map Tok.key =
        (MacroRef.respace (hsadd [F.name]
          (subst (fun i => (splitTop (seg.length + 1) 0 (seg.map hT) []).getD i [])
                 (fun i => (splitTop (seg.length + 1) 0 (seg.map hT) []).getD i [])
                 (elems (toDefF F) (toDefF F).body) false)) T.space).1.map k2' ∧
      ∀ (K : Nat) (X : List Item), seg.length < K →
        outKeys (expandH false (K + 1) (tblF st.macros)
            (.tok (mkH [] T) :: .tok (mkH [] lp) :: (seg.map iT ++ iT rp :: X))) =
          outKeys (expandH false K (tblF st.macros)
            ((MacroRef.respace (hsadd [F.name]
                (subst (fun i => (splitTop (seg.length + 1) 0 (seg.map hT) []).getD i [])
                       (fun i => (splitTop (seg.length + 1) 0 (seg.map hT) []).getD i [])
                       (elems (toDefF F) (toDefF F).body) false)) T.space).1.map Item.tok ++
             pendItems (MacroRef.respace (hsadd [F.name]
                (subst (fun i => (splitTop (seg.length + 1) 0 (seg.map hT) []).getD i [])
                       (fun i => (splitTop (seg.length + 1) 0 (seg.map hT) []).getD i [])
                       (elems (toDefF F) (toDefF F).body) false)) T.space).2 X)) := by
  have hvl : VarLast F.params := fun j _ => getD_novar hsf.novar j
  obtain ⟨seg, rp, hr, hrp, hmp, hsplit⟩ := collect_specX F.params hvl r 0 0 [] [] args rest hsf.nonempty hcol
  have hlen := collect_length F.params r 0 0 [] [] args rest rfl hsf.nonempty hcol
  have hsl : splitsLeft F.params 0 seg = seg.length + 1 := by
    unfold splitsLeft; rw [getD_novar hsf.novar]; simp
  simp only [List.reverse_nil, List.map_nil, List.nil_append, hsl] at hsplit
  have hA : splitTop (seg.length + 1) 0 (seg.map hT) [] = args.map (·.map hT) := hsplit.symm
  refine ⟨seg, rp, hr, hrp, ?_⟩
  obtain ⟨n, s2, hex, hrb, hraw2, hctx2, hmac2, hdep2, _, _⟩ :=
    expand_funclike F T lp r st args rest hctx hprag hTk hTh hget hFh hsf.func hsf.nonempty hraw hlp hcol hpl
  refine ⟨n, s2, hex, hrb, hraw2, hdep2, ?_, ?_⟩
  · -- what the new frame delivers
    have hname := (macroget_mem hget).2
    have hF' : macroget s2.macros F.name = some { F with args := List.zipWith mkArg F.params args, hide := true } := by
      rw [hmac2, macroget_setHide, macroget_setArgs, hname, hget]
      simp [hname]
    rw [hctx2]
    have hfr : frameToks s2.macros ⟨respace F.body T.space, some F.name⟩ =
        substBody { F with args := List.zipWith mkArg F.params args, hide := true } (respace F.body T.space) := by
      unfold frameToks
      simp only [Option.bind_some, hF']
      exact if_pos hsf.func
    simp only [flat, hfr, List.append_nil]
    rw [substBody_respace_key, k2'_respace, k2'_hsadd]
    have hb : (toDefF F).body = F.body.map toP := rfl
    rw [hb]
    apply substBody_key { F with args := List.zipWith mkArg F.params args, hide := true } (toDefF F) hsf.func
      (fun t => paramIndex_toDefF F t)
    refine ⟨hsf.nohash, ?_⟩
    intro t ht i hi
    have hilt : i < F.params.length := macroparam_lt hi
    have hftok := hsf.ftok t ht i hi
    have hila : i < args.length := by omega
    -- the stored argument
    have hzip : (List.zipWith mkArg F.params args).getD i default = mkArg (F.params.getD i default) (args.getD i []) := by
      simp [List.getD_eq_getElem?_getD, List.getElem?_zipWith, hilt, hila]
    show List.map Tok.key ((List.zipWith mkArg F.params args).getD i default).toks = _
    rw [hzip, hA]
    simp only [mkArg, hftok, ↓reduceIte]
    have : (args.map (·.map hT)).getD i [] = (args.getD i []).map hT := by
      simp [List.getD_eq_getElem?_getD, hila]
    rw [this]
    simp only [List.map_map]
    apply List.map_congr_left
    intro x _
    simp only [Function.comp, k2', hT, mkH, toP, Tok.key]
    unfold paint
    split <;> rfl
  · intro K X hK
    have hseglen : (seg.map hT).length = seg.length := List.length_map ..
    have hkeyl : (seg.map hT).map Item.tok = seg.map iT := by rw [List.map_map]; rfl
    have hl : lookup (tblF st.macros) ((mkH [] T).tok.lit.getD []) = some (toDefF F) := by
      rw [lookup_tblF]; show (macroget st.macros (T.lit.getD [])).map toDefF = _; rw [hget]; rfl
    have hplseg : ∀ x ∈ seg, PlainTok st.macros x := by
      intro x hx
      rw [hcol] at hpl
      apply hpl
      have h1 : r.length - rest.length = (seg ++ [rp]).length := by rw [hr]; simp; omega
      have h2 : r = (seg ++ [rp]) ++ rest := by rw [hr]; simp
      rw [h1, h2, List.take_left' rfl]
      exact List.mem_append_left _ hx
    have := expandH_func_step (tblF st.macros) (toDefF F) (mkH [] T) (mkH [] lp) (hT rp) (seg.map hT) X K
      hTk rfl rfl hl hsf.func rfl (by simp [toDefF]; exact hsf.nonempty) hlp rfl
      (by have := hmp X; rw [hkeyl]; exact this)
      (by rw [hseglen, hA]; simp [toDefF, hlen])
      (by
        intro t ht
        obtain ⟨x, hx, rfl⟩ := List.mem_map.mp ht
        refine ⟨?_, rfl⟩
        by_cases hk : x.kind = .TIDENT
        · right
          show lookup (tblF st.macros) (x.lit.getD []) = none
          rw [lookup_tblF, (hplseg x hx).2.2.2.2 hk]; rfl
        · left; exact hk)
      (by rw [hseglen]; exact hK)
    rw [hseglen, hkeyl] at this
    exact this

end CprocVerif.PP

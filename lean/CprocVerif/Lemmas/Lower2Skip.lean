/-
  C01, fragment 𝔽₂ — entering a `switch` body at a label: the machine arrives at the block of the label
  (from the comparison ladder), the C execution continues with the statements after the label.
-/
import CprocVerif.Lemmas.Lower2Ladder

set_option linter.unusedSimpArgs false

namespace CprocVerif.LowerMach2
open CprocVerif.Qbe CprocVerif.Lower CprocVerif.Lower2 CprocVerif.CSem CprocVerif.CSem2 CprocVerif.CInt
open CprocVerif.LowerArith CprocVerif.LowerMach CprocVerif.LowerMem

def isLabel : Stmt → Bool
  | .case_ _ | .default_ => true
  | _ => false

/-- The block label of the first label on the spine that satisfies `p`, when the spine is lowered
    starting from `c`. -/
def targetLabel (cs : Bool) (brk cont : String) (p : Stmt → Bool) : Stmt → SCtx → Option String
  | .seq a b, c =>
    match targetLabel cs brk cont p a c with
    | some l => some l
    | none => targetLabel cs brk cont p b (funcstmt cs brk cont a c).ctx
  | .case_ u, c => if p (.case_ u) then some (lblName "switch_case" (c.blockid + 1)) else none
  | .default_, c => if p .default_ then some (lblName "switch_default" (c.blockid + 1)) else none
  | _, _ => none

theorem after_none_target (cs : Bool) (brk cont : String) (p : Stmt → Bool)
    (hp : ∀ st, p st = true → isLabel st = true) (b : Stmt) :
    ∀ c, after p b = none → targetLabel cs brk cont p b c = none := by
  induction b with
  | seq x y ihx ihy =>
    intro c h
    simp only [after] at h
    cases hx : after p x with
    | some x' => rw [hx] at h; cases h
    | none =>
      rw [hx] at h
      simp only [targetLabel, ihx c hx, ihy _ h]
  | case_ u =>
    intro c h
    simp only [after] at h
    split at h
    · cases h
    · rename_i hn; simp [targetLabel, hn]
  | default_ =>
    intro c h
    simp only [after] at h
    split at h
    · cases h
    · rename_i hn; simp [targetLabel, hn]
  | _ => intro c _; rfl

/-- the suffix after a label ends in a jump statement iff the whole does -/
theorem after_endsJump (p : Stmt → Bool) (hp : ∀ st, p st = true → isLabel st = true) (b : Stmt) :
    ∀ b', after p b = some b' → b'.endsJump = b.endsJump := by
  induction b with
  | seq x y ihx ihy =>
    intro b' h
    simp only [after] at h
    cases hx : after p x with
    | some x' => rw [hx] at h; cases h; rfl
    | none => rw [hx] at h; simpa [Stmt.endsJump] using ihy b' h
  | _ =>
    intro b' h
    simp only [after] at h
    split at h
    · rename_i hq
      cases h
      have := hp _ hq
      revert this
      simp [isLabel, Stmt.endsJump]
    · cases h

section
variable (T : Stat)

/-- Entering the spine `b` at the label selected by `p`: from the entry of that label's block, the
    execution of the statements after the label is simulated up to the end of `b`'s items. -/
theorem sim_enter (n : Nat) (ih : ∀ m, m ≤ n → SimStmt T m) (p : Stmt → Bool)
    (hpl : ∀ st, p st = true → isLabel st = true) (b : Stmt) :
    ∀ (m : Nat), m ≤ n → ∀ (b' : Stmt) (s : Store) (out : CSem2.Outcome) (lp : Bool × Bool)
      (brk cont : String) (c : SCtx) (nd nd' : Nat) (pre post : List Item) (env : Env) (M : Mem)
      (st0 : State),
    after p b = some b' → exec T.S.cs T.P m s b' = some out →
    frag T.P T.cnts T.W b = true → Stmt.wt T.vtys T.ret lp.1 lp.2 nd b = some nd' →
    PosS T c nd pre → (c.jump = none ∨ b.startsLabel = true) →
    Ext T (funcstmt T.S.cs brk cont b c).ctx →
    T.S.its = pre ++ (funcstmt T.S.cs brk cont b c).items ++ post →
    ((lp.1 = true → CanJump T.S brk) ∧ (lp.2 = true → CanJump T.S cont)) →
    SInv T.M0 T.S.cs T.cnts T.W T.σ T.vtys s env M →
    (∀ l, targetLabel T.S.cs brk cont p b c = some l → AtLabel T.S l env M st0) →
    Post T lp brk cont st0 (pre ++ (funcstmt T.S.cs brk cont b c).items)
      (funcstmt T.S.cs brk cont b c).ctx out := by
  induction b with
  | seq x y ihx ihy =>
    intro m hm b' s out lp brk cont c nd nd' pre post env M st0 haf hex hfr hwt hp hjs hext hits hlp inv hat
    simp only [frag, Bool.and_eq_true] at hfr
    have hwt' := hwt
    simp only [Stmt.wt] at hwt'
    split at hwt'
    · cases hwt'
    · rename_i hej
      simp only [Option.bind_eq_some_iff] at hwt'
      obtain ⟨n1, hwa, hwb⟩ := hwt'
      obtain ⟨hna, hca⟩ := wt_noDead _ _ x _ _ _ _ hwa
      obtain ⟨hnb, hcb⟩ := wt_noDead _ _ y _ _ _ _ hwb
      have ga := funcstmt_good' T.S.cs x brk cont c (by simpa [Stmt.startsLabel] using hjs) hna
      have hdis : x.endsJump = false ∨ y.startsLabel = true := by
        cases ha : x.endsJump <;> cases hb : y.startsLabel <;> simp [ha, hb] at hej ⊢
      have hjy : (funcstmt T.S.cs brk cont x c).ctx.jump = none ∨ y.startsLabel = true := by
        rcases hdis with h | h
        · exact Or.inl (ga.jump h)
        · exact Or.inr h
      have gb := funcstmt_good' T.S.cs y brk cont (funcstmt T.S.cs brk cont x c).ctx hjy hnb
      have hexta : Ext T (funcstmt T.S.cs brk cont x c).ctx := by
        have : Ext T (funcstmt T.S.cs brk cont y (funcstmt T.S.cs brk cont x c).ctx).ctx := hext
        exact this.first gb
      have hitsa : T.S.its = pre ++ (funcstmt T.S.cs brk cont x c).items ++
          ((funcstmt T.S.cs brk cont y (funcstmt T.S.cs brk cont x c).ctx).items ++ post) := by
        rw [hits]; simp only [funcstmt, List.append_assoc]
      simp only [after] at haf
      cases hax : after p x with
      | some x' =>
        -- the label is in `x`
        rw [hax] at haf
        cases haf
        cases m with
        | zero => simp only [exec] at hex; cases hex
        | succ m =>
          simp only [exec] at hex
          cases hea : exec T.S.cs T.P m s x' with
          | none => rw [hea] at hex; cases hex
          | some oa =>
            rw [hea] at hex
            have pa := ihx m (by omega) x' s oa lp brk cont c nd n1 pre _ env M st0 hax hea hfr.1 hwa hp
              (by simpa [Stmt.startsLabel] using hjs) hexta hitsa hlp inv (by
                intro l hl
                apply hat
                simp only [targetLabel, hl])
            have hres : seqRes T.S.cs T.P m y oa = some out := by
              cases oa <;> simpa [seqRes] using hex
            exact seq_cont T m (ih m (by omega)) x y hfr.2 hwt hp hjs hext hits hlp pa
              (fun he => endsJump_abnormal T.S.cs T.P m x' s oa
                (by rw [after_endsJump p hpl x x' hax]; exact he) hea) hres
      | none =>
        -- the label is in `y`: `x` is skipped
        rw [hax] at haf
        have hitsb : T.S.its = (pre ++ (funcstmt T.S.cs brk cont x c).items) ++
            (funcstmt T.S.cs brk cont y (funcstmt T.S.cs brk cont x c).ctx).items ++ post := by
          rw [hits]; simp only [funcstmt, List.append_assoc]
        have py := ihy m hm b' s out lp brk cont _ n1 nd' _ post env M st0 haf hex hfr.2 hwb
          (hp.after ga hca) hjy hext hitsb hlp inv (by
            intro l hl
            apply hat
            simp only [targetLabel, after_none_target T.S.cs brk cont p hpl x c hax, hl])
        simp only [funcstmt]
        rw [← List.append_assoc]
        exact py
  | case_ u =>
    intro m hm b' s out lp brk cont c nd nd' pre post env M st0 haf hex _ _ hp _ _ hits _ inv hat
    simp only [after] at haf
    split at haf
    · rename_i hq
      cases haf
      cases m with
      | zero => simp only [exec] at hex; cases hex
      | succ m =>
        simp only [exec, Option.some.injEq] at hex
        subst hex
        have hat' := hat (lblName "switch_case" (c.blockid + 1)) (by simp [targetLabel, hq])
        simp only [funcstmt] at hits ⊢
        have hits' : T.S.its = pre ++ .lbl c.jump (lblName "switch_case" (c.blockid + 1)) [] :: post := by
          rw [hits]; simp [labelItem]
        have hst := atLabel_item T hits' hat'
        subst hst
        exact ⟨rfl, 0, env, M, rfl, inv⟩
    · cases haf
  | default_ =>
    intro m hm b' s out lp brk cont c nd nd' pre post env M st0 haf hex _ _ hp _ _ hits _ inv hat
    simp only [after] at haf
    split at haf
    · rename_i hq
      cases haf
      cases m with
      | zero => simp only [exec] at hex; cases hex
      | succ m =>
        simp only [exec, Option.some.injEq] at hex
        subst hex
        have hat' := hat (lblName "switch_default" (c.blockid + 1)) (by simp [targetLabel, hq])
        simp only [funcstmt] at hits ⊢
        have hits' : T.S.its = pre ++ .lbl c.jump (lblName "switch_default" (c.blockid + 1)) [] :: post := by
          rw [hits]; simp [labelItem]
        have hst := atLabel_item T hits' hat'
        subst hst
        exact ⟨rfl, 0, env, M, rfl, inv⟩
    · cases haf
  | _ =>
    intro m hm b' s out lp brk cont c nd nd' pre post env M st0 haf
    simp only [after] at haf
    split at haf
    · rename_i hq
      have := hpl _ hq
      simp [isLabel] at this
    · cases haf

end

end CprocVerif.LowerMach2

/-
  C01, fragment 𝔽₂ — the statements that evaluate an expression with array reads and calls: expression statement,
  `return`, assignment, declaration with initialiser.
-/
import CprocVerif.Lemmas.Lower2Expr3

set_option linter.unusedSimpArgs false

namespace CprocVerif.LowerMach2
open CprocVerif.Qbe CprocVerif.Lower CprocVerif.Lower2 CprocVerif.CSem CprocVerif.CSem2 CprocVerif.CInt
open CprocVerif.LowerArith CprocVerif.LowerMach CprocVerif.LowerMem

section Leaves3
variable (T : Stat) {s : Store} {out : CSem2.Outcome} {lp : Bool × Bool} {brk cont : String} {c : SCtx}
  {nd nd' : Nat} {pre post : List Item} {env : Env} {M : Mem}

theorem sim_exprstmt (n : Nat) (hc : CallOK T n) (e : Expr3)
    (hfr : frag T.P T.cnts T.W (.expr e) = true) (hex : exec T.S.cs T.P (n + 1) s (.expr e) = some out)
    (hwt : Stmt.wt T.vtys T.ret lp.1 lp.2 nd (.expr e) = some nd') (hp : Pos T c nd pre)
    (hext : Ext T (funcstmt T.S.cs brk cont (.expr e) c).ctx)
    (hits : T.S.its = pre ++ (funcstmt T.S.cs brk cont (.expr e) c).items ++ post)
    (inv : SInv T.M0 T.S.cs T.cnts T.W T.σ T.vtys s env M) :
    Post T lp brk cont (T.at env M pre) (pre ++ (funcstmt T.S.cs brk cont (.expr e) c).items)
      (funcstmt T.S.cs brk cont (.expr e) c).ctx out := by
  simp only [exec, Option.map_eq_some_iff] at hex
  obtain ⟨v, hev, rfl⟩ := hex
  simp only [frag] at hfr
  simp only [Stmt.wt] at hwt
  split at hwt
  · rename_i hw
    simp only [funcstmt, lowerE3_eq T.S.cs hp.jump] at hext hits ⊢
    obtain ⟨k, env', r, hreach, inv', _, _, _, _⟩ := sim_exprOut3 T n hc hp e hext hw hfr hev hits inv
    exact ⟨hp.jump, k, env', M, hreach, inv'⟩
  · cases hwt

theorem sim_ret (n : Nat) (hc : CallOK T n) (e : Expr3)
    (hfr : frag T.P T.cnts T.W (.ret e) = true) (hex : exec T.S.cs T.P (n + 1) s (.ret e) = some out)
    (hwt : Stmt.wt T.vtys T.ret lp.1 lp.2 nd (.ret e) = some nd') (hp : Pos T c nd pre)
    (hext : Ext T (funcstmt T.S.cs brk cont (.ret e) c).ctx)
    (hits : T.S.its = pre ++ (funcstmt T.S.cs brk cont (.ret e) c).items ++ post)
    (inv : SInv T.M0 T.S.cs T.cnts T.W T.σ T.vtys s env M) :
    Post T lp brk cont (T.at env M pre) (pre ++ (funcstmt T.S.cs brk cont (.ret e) c).items)
      (funcstmt T.S.cs brk cont (.ret e) c).ctx out := by
  simp only [exec, Option.map_eq_some_iff] at hex
  obtain ⟨v, hev, rfl⟩ := hex
  simp only [frag] at hfr
  simp only [Stmt.wt] at hwt
  split at hwt
  · rename_i hw
    simp only [funcstmt, lowerE3_eq T.S.cs hp.jump] at hext hits ⊢
    have hext' : Ext T (c.upd (exprOut3 T.S.cs c e).ctx) := hext
    obtain ⟨k, env', r, hreach, inv', _, hval, hrep, hrg⟩ := sim_exprOut3 T n hc hp e hext' hw.2 hfr hev hits inv
    rw [hw.1] at hrep hrg
    refine ⟨hrg, k, Or.inl ⟨env', M, (exprOut3 T.S.cs c e).val, r, ?_, hreach, hval, hrep, inv'.a.popTo⟩⟩
    simp only [setJump_jump, upd_jump, hp.jump, Option.getD_none]
  · cases hwt

theorem sim_assign (n : Nat) (hc : CallOK T n) (i : Nat) (t : CSem.Ty) (e : Expr3)
    (hfr : frag T.P T.cnts T.W (.assign i t e) = true)
    (hex : exec T.S.cs T.P (n + 1) s (.assign i t e) = some out)
    (hwt : Stmt.wt T.vtys T.ret lp.1 lp.2 nd (.assign i t e) = some nd') (hp : Pos T c nd pre)
    (hext : Ext T (funcstmt T.S.cs brk cont (.assign i t e) c).ctx)
    (hits : T.S.its = pre ++ (funcstmt T.S.cs brk cont (.assign i t e) c).items ++ post)
    (inv : SInv T.M0 T.S.cs T.cnts T.W T.σ T.vtys s env M) :
    Post T lp brk cont (T.at env M pre) (pre ++ (funcstmt T.S.cs brk cont (.assign i t e) c).items)
      (funcstmt T.S.cs brk cont (.assign i t e) c).ctx out := by
  simp only [exec, Option.map_eq_some_iff] at hex
  obtain ⟨v, hev, rfl⟩ := hex
  simp only [frag] at hfr
  rw [Bool.and_eq_true, decide_eq_true_eq] at hfr
  obtain ⟨hfr, hWi⟩ := hfr
  simp only [Stmt.wt] at hwt
  split at hwt
  · rename_i hw
    obtain ⟨hi, hkt, hty, hwe⟩ := hw
    simp only [funcstmt, lowerE3_eq T.S.cs hp.jump] at hext hits ⊢
    have hext' : Ext T (c.upd (exprOut3 T.S.cs c e).ctx) := hext
    have hits1 : T.S.its = pre ++ (exprOut3 T.S.cs c e).items ++
        (storeIns t (exprOut3 T.S.cs c e).val (c.slots.getD i 0) :: post) := by
      rw [hits]; simp only [List.append_assoc, List.singleton_append]
    obtain ⟨k, env', r, hreach, inv', _, hval, hrep, hrange⟩ := sim_exprOut3 T n hc hp e hext' hwe hfr hev hits1 inv
    rw [hty] at hrep hrange
    have hslot : T.σ.getD i 0 = c.slots.getD i 0 := hext'.1 i (by
      show i < c.slots.length; rw [hp.nslots]; exact hi)
    obtain ⟨M', hr2, inv2⟩ := sim_store T i t _ _ hits1 hslot hkt hWi hval hrange hrep inv'
    refine ⟨hp.jump, k + 1, env', M', ?_, inv2⟩
    rw [← List.append_assoc]
    exact hreach.trans hr2
  · cases hwt

theorem sim_decl_init (n : Nat) (hc : CallOK T n) (i : Nat) (t : CSem.Ty) (e : Expr3)
    (hfr : frag T.P T.cnts T.W (.decl i t (some e)) = true)
    (hex : exec T.S.cs T.P (n + 1) s (.decl i t (some e)) = some out)
    (hwt : Stmt.wt T.vtys T.ret lp.1 lp.2 nd (.decl i t (some e)) = some nd') (hp : Pos T c nd pre)
    (hext : Ext T (funcstmt T.S.cs brk cont (.decl i t (some e)) c).ctx)
    (hits : T.S.its = pre ++ (funcstmt T.S.cs brk cont (.decl i t (some e)) c).items ++ post)
    (inv : SInv T.M0 T.S.cs T.cnts T.W T.σ T.vtys s env M) :
    Post T lp brk cont (T.at env M pre) (pre ++ (funcstmt T.S.cs brk cont (.decl i t (some e)) c).items)
      (funcstmt T.S.cs brk cont (.decl i t (some e)) c).ctx out := by
  simp only [exec, Option.map_eq_some_iff] at hex
  obtain ⟨v, hev, rfl⟩ := hex
  simp only [frag] at hfr
  rw [Bool.and_eq_true, decide_eq_true_eq] at hfr
  obtain ⟨hfr, hWi⟩ := hfr
  simp only [Stmt.wt] at hwt
  split at hwt
  · rename_i hw
    obtain ⟨hi, hkt, hwe⟩ := hw
    subst hi
    simp only [optWt3, Bool.and_eq_true, beq_iff_eq] at hwe
    obtain ⟨hty, hwe⟩ := hwe
    -- the context after `funcalloc`
    have hj1 : (⟨c.lastid + 1, c.blockid, c.cur, c.jump, c.slots ++ [c.lastid + 1]⟩ : SCtx).jump = none :=
      hp.jump
    have hp1 : Pos T ⟨c.lastid + 1, c.blockid, c.cur, c.jump, c.slots ++ [c.lastid + 1]⟩ (i + 1) pre := by
      refine ⟨hp.jump, hp.cur, ?_, by simp [hp.nslots], ?_⟩
      · obtain ⟨name, j, h1, h2⟩ := hp.curOK
        exact ⟨name, j, h1, h2⟩
      · intro j hj
        show (c.slots ++ [c.lastid + 1]).getD j 0 ≤ c.lastid + 1
        by_cases hji : j < i
        · rw [getD_append_left _ _ (by rw [hp.nslots]; exact hji)]
          have := hp.le j hji; omega
        · rw [getD_append_right _ _ (by rw [hp.nslots]; omega)]
          have : j - c.slots.length = 0 := by rw [hp.nslots]; omega
          rw [this]; simp
    simp only [funcstmt, lowerE3_eq T.S.cs hj1] at hext hits ⊢
    generalize hc1 : (⟨c.lastid + 1, c.blockid, c.cur, c.jump, c.slots ++ [c.lastid + 1]⟩ : SCtx) = c1
      at hext hits hp1 ⊢
    have hext' : Ext T (c1.upd (exprOut3 T.S.cs c1 e).ctx) := hext
    have hits1 : T.S.its = pre ++ (exprOut3 T.S.cs c1 e).items ++
        (storeIns t (exprOut3 T.S.cs c1 e).val (c.lastid + 1) :: post) := by
      rw [hits]; simp only [List.append_assoc, List.singleton_append]
    obtain ⟨k, env', r, hreach, inv', _, hval, hrep, hrange⟩ := sim_exprOut3 T n hc hp1 e hext' hwe hfr hev hits1
      (inv.forget i)
    rw [hty] at hrep hrange
    have hslot : T.σ.getD i 0 = c.lastid + 1 := by
      rw [hext'.1 i (by show i < c1.slots.length; rw [← hc1]; simp [hp.nslots])]
      show c1.slots.getD i 0 = _
      rw [← hc1]
      show (c.slots ++ [c.lastid + 1]).getD i 0 = _
      rw [getD_append_right _ _ (by rw [hp.nslots]; exact Nat.le_refl _)]
      have : i - c.slots.length = 0 := by rw [hp.nslots]; omega
      rw [this]; simp
    obtain ⟨M', hr2, inv2⟩ := sim_store T i t _ _ hits1 hslot hkt hWi hval hrange hrep inv'
    refine ⟨by show c1.jump = none; rw [← hc1]; exact hp.jump, k + 1, env', M', ?_, ?_⟩
    · rw [← List.append_assoc]
      exact hreach.trans hr2
    · have : (s.set i none).set i (some v) = s.set i (some v) := by simp
      rw [this] at inv2
      exact inv2
  · cases hwt


/-- `a[idx] = e;` -/
theorem sim_astore (n : Nat) (hc : CallOK T n) (arr : Nat) (t : CSem.Ty) (cnt xb : Nat) (idx : Expr)
    (e : Expr3)
    (hex : exec T.S.cs T.P (n + 1) s (.astore arr t cnt xb idx e) = some out)
    (hfr : frag T.P T.cnts T.W (.astore arr t cnt xb idx e) = true)
    (hwt : Stmt.wt T.vtys T.ret lp.1 lp.2 nd (.astore arr t cnt xb idx e) = some nd') (hp : Pos T c nd pre)
    (hext : Ext T (funcstmt T.S.cs brk cont (.astore arr t cnt xb idx e) c).ctx)
    (hits : T.S.its = pre ++ (funcstmt T.S.cs brk cont (.astore arr t cnt xb idx e) c).items ++ post)
    (inv : SInv T.M0 T.S.cs T.cnts T.W T.σ T.vtys s env M) :
    Post T lp brk cont (T.at env M pre)
      (pre ++ (funcstmt T.S.cs brk cont (.astore arr t cnt xb idx e) c).items)
      (funcstmt T.S.cs brk cont (.astore arr t cnt xb idx e) c).ctx out := by
  simp only [exec, Option.bind_eq_some_iff] at hex
  obtain ⟨v, hevv, iv, hev, hex⟩ := hex
  split at hex
  · rename_i hiv
    simp only [Option.some.injEq] at hex
    subst hex
    simp only [frag, Bool.and_eq_true, decide_eq_true_eq] at hfr
    have hfe : efrag T e := by simp only [efrag, Bool.and_eq_true]; exact hfr.1.2
    obtain ⟨⟨⟨⟨hc1, hcn⟩, hxb⟩, _⟩, hWa⟩ := hfr
    subst hxb
    simp only [Stmt.wt] at hwt
    split at hwt
    · rename_i hw
      obtain ⟨harr, hkt, hwi, hty, hwe⟩ := hw
      have hcd : T.cnts.getD arr 1 = cnt := by simp [List.getD, hcn]
      have he : iv.toNat < T.cnts.getD arr 1 := by rw [hcd]; omega
      simp only [funcstmt, lowerE3_eq T.S.cs hp.jump] at hext hits ⊢
      have ge := exprOut3_good T.S.cs c e
      have hl2 : (exprOut3 T.S.cs c e).ctx.lastid ≤
          (lowerAddr T.S.cs (c.upd (exprOut3 T.S.cs c e).ctx).slots (c.upd (exprOut3 T.S.cs c e).ctx).ctx
            (c.slots.getD arr 0) t idx).ctx.lastid :=
        (lowerAddr_good T.S.cs (c.upd (exprOut3 T.S.cs c e).ctx).slots (c.upd (exprOut3 T.S.cs c e).ctx).ctx
          (c.slots.getD arr 0) t idx).1
      have hpre : ∀ j, j < nd → T.σ.getD j 0 = c.slots.getD j 0 := fun j hj => hext.1 j (by
        show j < c.slots.length; rw [hp.nslots]; exact hj)
      have hfut : ∀ k, nd ≤ k → k < T.vtys.length →
          (lowerAddr T.S.cs (c.upd (exprOut3 T.S.cs c e).ctx).slots (c.upd (exprOut3 T.S.cs c e).ctx).ctx
            (c.slots.getD arr 0) t idx).ctx.lastid < T.σ.getD k 0 := fun k hk hkv =>
        hext.2 k (by show c.slots.length ≤ k; rw [hp.nslots]; exact hk) hkv
      have hl1 := ge.lastid
      unf at hl1
      -- the value
      have hext1 : Ext T (c.upd (exprOut3 T.S.cs c e).ctx) := by
        constructor
        · intro j hj; exact hext.1 j hj
        · intro k hk hkv
          have := hfut k (by rw [← hp.nslots]; exact hk) hkv
          show (exprOut3 T.S.cs c e).ctx.lastid < _
          omega
      have hits1 : T.S.its = pre ++ (exprOut3 T.S.cs c e).items ++
          ((lowerAddr T.S.cs (c.upd (exprOut3 T.S.cs c e).ctx).slots (c.upd (exprOut3 T.S.cs c e).ctx).ctx
            (c.slots.getD arr 0) t idx).items ++
            [.ins (.op none (.store (storeOf t)) [(exprOut3 T.S.cs c e).val,
              (lowerAddr T.S.cs (c.upd (exprOut3 T.S.cs c e).ctx).slots (c.upd (exprOut3 T.S.cs c e).ctx).ctx
                (c.slots.getD arr 0) t idx).val])] ++ post) := by
        rw [hits]; simp only [List.append_assoc]
      obtain ⟨n1, env1, r, hreach1, inv1, hfr1, hval1, hrep1, hrgv⟩ := sim_exprOut3 T n hc hp e hext1 hwe hfe hevv
        hits1 inv
      rw [hty] at hrep1 hrgv
      -- the address
      obtain ⟨a, M', ha1, hst, habound, inv2⟩ := inv1.storeAt hkt hWa he hrgv (storeVal_of_rep hrep1)
      have hvars : VarsIn (setM T.S M) c.slots (T.vtys.take nd) s env1 := by
        intro i t' v' ht hv'
        obtain ⟨ht', hi⟩ := take_sub ht
        obtain ⟨a'', r', h1, h2, h3⟩ := inv1.varsIn i t' v' ht' hv'
        exact ⟨a'', r', by rw [← hpre i hi]; exact h1, h2, h3⟩
      have hrange : ∀ (i : Nat) (t' : CSem.Ty) (v' : Int), (T.vtys.take nd)[i]? = some t' →
          s[i]? = some (some v') → InRange (t'.intTy T.S.cs) v' :=
        fun i t' v' ht hv' => inv.range i t' v' (take_sub ht).1 hv'
      have hits2 : T.S.its = (pre ++ (exprOut3 T.S.cs c e).items) ++
          (lowerAddr T.S.cs (c.upd (exprOut3 T.S.cs c e).ctx).slots (c.upd (exprOut3 T.S.cs c e).ctx).ctx
            (c.slots.getD arr 0) t idx).items ++
          (.ins (.op none (.store (storeOf t)) [(exprOut3 T.S.cs c e).val,
              (lowerAddr T.S.cs (c.upd (exprOut3 T.S.cs c e).ctx).slots (c.upd (exprOut3 T.S.cs c e).ctx).ctx
                (c.slots.getD arr 0) t idx).val]) :: post) := by
        rw [hits]; simp only [List.append_assoc, List.singleton_append]
      have hslot : env1[tmpName (c.slots.getD arr 0)]? = some ⟨.l, a⟩ := by rw [← hpre arr harr]; exact ha1
      obtain ⟨n2, env2, ra, hreach2, hfr2, hval2, hra⟩ := sim_addr T c.slots (T.vtys.take nd) s M hrange
        (c.upd (exprOut3 T.S.cs c e).ctx).ctx (c.slots.getD arr 0) t idx iv a hwi hev hiv.1 habound hits2
        (ge.cur T.S.o0 pre hp.cur) (ge.curOK hp.curOK)
        (fun i t' ht => Nat.le_trans (hp.le i (take_sub ht).2) hl1) hvars hslot
        (Nat.le_trans (hp.le arr harr) hl1)
      -- the store
      have hval1' : readVal T.S.p env2 (exprOut3 T.S.cs c e).val = .ok r := by
        rw [readVal_agree ge.val hfr2.agree]; exact hval1
      have hraeq : (⟨.l, ra⟩ : RVal).asL = .ok (UInt64.ofNat (a.toNat + iv.toNat * t.size)) := by
        rw [← hra]; simp
      have hx := hst ⟨.l, ra⟩ hraeq
      have hr3 := run_nores T hits2 (readVals_two hval1' hval2) hx
      have hfrall : Frame c.lastid (lowerAddr T.S.cs (c.upd (exprOut3 T.S.cs c e).ctx).slots
          (c.upd (exprOut3 T.S.cs c e).ctx).ctx (c.slots.getD arr 0) t idx).ctx.lastid env1 env2 :=
        Frame.mono hfr2 hl1 (Nat.le_refl _)
      have inv3 : SInv T.M0 T.S.cs T.cnts T.W T.σ T.vtys
          (s.set (ecell arr (xbase T.cnts arr) iv.toNat) (some v)) env2 M' :=
        inv2.env (slots_kept hp hpre hfut hfrall)
      refine ⟨hp.jump, n1 + n2 + 1, env2, M', ?_, inv3⟩
      have := (hreach1.trans hreach2).trans hr3
      simp only [List.append_assoc, List.singleton_append, List.cons_append, List.nil_append] at this ⊢
      exact this
    · cases hwt
  · cases hex


end Leaves3

end CprocVerif.LowerMach2

import CprocVerif.Lemmas.AbiDescEquiv
import CprocVerif.Lemmas.Types

/-!
# Lemmas for C08, part 8: signatures and call sites
-/

namespace CprocVerif.AbiDesc
open CprocVerif.Layout CprocVerif.Abi CprocVerif.QbeLayout CprocVerif.Types

def Cls.toAbi : Cls → AbiCls
  | .base c => .base c
  | .agg t => .agg t

/-! ## The variadic marker -/

theorem callInsts_past (v : Bool) (n : Nat) : ∀ (cs : List Cls) (i : Nat), n < i →
    callInsts v n i cs = cs.map some
  | [], i, h => by
    simp only [callInsts, List.map_nil]
    have : (i == n) = false := by simp; omega
    simp [this]
  | c :: cs, i, h => by
    have : (i == n) = false := by simp; omega
    simp only [callInsts, this, Bool.and_false, Bool.false_eq_true, ↓reduceIte, List.nil_append, List.map_cons]
    rw [callInsts_past v n cs (i + 1) (by omega)]

theorem callInsts_novararg (n : Nat) : ∀ (cs : List Cls) (i : Nat), callInsts false n i cs = cs.map some
  | [], i => by simp [callInsts]
  | c :: cs, i => by simp [callInsts, callInsts_novararg n cs (i + 1)]

theorem callInsts_marker (n : Nat) : ∀ (cs : List Cls) (i : Nat), i ≤ n → n - i ≤ cs.length →
    callInsts true n i cs = (cs.take (n - i)).map some ++ none :: (cs.drop (n - i)).map some
  | [], i, h1, h2 => by
    simp only [List.length_nil] at h2
    have : i = n := by omega
    subst this
    simp [callInsts]
  | c :: cs, i, h1, h2 => by
    by_cases he : i = n
    · subst he
      simp only [callInsts, Bool.true_and, beq_self_eq_true, ↓reduceIte, Nat.sub_self, List.take_zero, List.map_nil,
        List.nil_append, List.drop_zero, List.map_cons, List.singleton_append]
      rw [callInsts_past true i cs (i + 1) (by omega)]
    · have hb : (i == n) = false := by simp [he]
      have e : n - i = (n - (i + 1)) + 1 := by omega
      simp only [List.length_cons] at h2
      simp only [callInsts, Bool.true_and, hb, Bool.false_eq_true, ↓reduceIte, List.nil_append]
      rw [callInsts_marker n cs (i + 1) (by omega) (by omega), e]
      simp only [List.take_succ_cons, List.map_cons, List.drop_succ_cons, List.cons_append]

theorem optMapM_length {α β : Type} (g : α → Option β) : ∀ (l : List α) (r : List β),
    optMapM g l = some r → r.length = l.length
  | [], r, h => by simp only [optMapM, Option.some.injEq] at h; subst h; rfl
  | a :: as, r, h => by
    simp only [optMapM] at h
    cases hg : g a with
    | none => simp [hg] at h
    | some b =>
      cases hr : optMapM g as with
      | none => simp [hg, hr] at h
      | some bs =>
        simp only [hg, hr, Option.some.injEq] at h
        subst h
        simp only [List.length_cons, optMapM_length g as bs hr]

theorem optMapM_get {α β : Type} (g : α → Option β) : ∀ (l : List α) (r : List β),
    optMapM g l = some r → ∀ i (h : i < l.length), ∃ h', g l[i] = some (r[i]'h')
  | [], r, _, i, hi => by simp at hi
  | a :: as, r, h, i, hi => by
    simp only [optMapM] at h
    cases hg : g a with
    | none => simp [hg] at h
    | some b =>
      cases hr : optMapM g as with
      | none => simp [hg, hr] at h
      | some bs =>
        simp only [hg, hr, Option.some.injEq] at h
        subst h
        cases i with
        | zero => exact ⟨by simp, by simpa using hg⟩
        | succ j =>
          obtain ⟨h', e⟩ := optMapM_get g as bs hr j (by simpa using hi)
          exact ⟨by simpa using h', by simpa using e⟩

/-- the argument types of a call: the (adjusted) parameter types, then the promoted extras -/
theorem argTypes_eq (sc : Bool) : ∀ (ps : List AType) (v : Bool) (args ts : List AType),
    argTypes sc ps v args = some ts →
    ts = ps ++ (args.drop ps.length).map (fun a => promoteArg sc (decay a)) ∧ ps.length ≤ args.length ∧
      (v = false → args.length = ps.length)
  | [], v, [], ts, h => by
    simp only [argTypes, Option.some.injEq] at h; subst h; simp
  | [], true, a :: as, ts, h => by
    simp only [argTypes, Option.map_eq_some_iff] at h
    obtain ⟨r, hr, rfl⟩ := h
    obtain ⟨e, _, _⟩ := argTypes_eq sc [] true as r hr
    simp only [List.nil_append, List.length_nil, List.drop_zero] at e
    simp [e]
  | [], false, _ :: _, ts, h => by simp [argTypes] at h
  | _ :: _, _, [], ts, h => by simp [argTypes] at h
  | p :: ps, v, _ :: as, ts, h => by
    simp only [argTypes, Option.map_eq_some_iff] at h
    obtain ⟨r, hr, rfl⟩ := h
    obtain ⟨e, h1, h2⟩ := argTypes_eq sc ps v as r hr
    refine ⟨by simp [e], by simp; omega, fun hv => by simp [h2 hv]⟩

/-! ## Promotions -/

theorem promoteArg_default (sc : Bool) : ∀ (t : AType), (∀ a, t = .sc (.arith a) → a.wf = true) →
    promoteArg sc t = defaultPromote sc t
  | .sc (.arith a), h => by
    simp only [promoteArg, defaultPromote]
    rw [Types.Lemmas.promote_ok sc a none (h a rfl) trivial]
  | .sc .ptr, _ => rfl
  | .array .., _ => rfl
  | .su .., _ => rfl
  | .blob .., _ => rfl

/-- a promoted arithmetic argument is never narrower than `int`, and `float` has become `double` -/
theorem promoted_wide (sc : Bool) (a : ATy) (hwf : a.wf = true) :
    4 ≤ (typepromote sc a none).size ∧ typepromote sc a none ≠ .basic .float := by
  cases a with
  | basic b => cases b <;> cases sc <;> decide
  | enum i b =>
    cases b <;> cases sc <;>
      first
      | (simp [ATy.wf, Basic.isInt] at hwf; done)
      | (refine ⟨?_, ?_⟩ <;>
          simp [typepromote, ATy.isInt, ATy.rank, ATy.size, ATy.issigned, Basic.kind, Kind.rank, Basic.size,
            Basic.issigned, Basic.issignedInit, wU, b2n, Types.tInt, Types.tUInt])

/-- class of a non-sub-word type: the model's class is the ABI class -/
def notSubword : AType → Bool
  | .sc (.arith a) => a.isFloat || decide (4 ≤ a.size)
  | _ => true

def notArray : AType → Bool
  | .array _ _ => false
  | _ => true

theorem class_correct (cs : Bool) : ∀ (t : AType) (c : Cls), classOf t = some c → notSubword t = true →
    notArray t = true → abiClass cs emittype t = some c.toAbi
  | .sc (.arith a), c, h, hs, _ => by
    simp only [notSubword, Bool.or_eq_true, decide_eq_true_eq] at hs
    simp only [classOf, Option.map_eq_some_iff] at h
    obtain ⟨q, hq, rfl⟩ := h
    unfold qbetype at hq
    simp only [Sc.size, Sc.isFloat] at hq
    simp only [abiClass]
    cases hf : a.isFloat with
    | true =>
      simp only [hf, ↓reduceIte] at hq ⊢
      have h16 : a.size = 4 ∨ a.size = 8 ∨ a.size = 16 := by
        cases a with
        | enum i b => cases hf
        | basic b => cases b <;> simp_all [ATy.isFloat, ATy.size, Basic.isInt, Basic.size]
      rcases h16 with h | h | h <;> simp [h] at hq ⊢ <;> subst hq <;> rfl
    | false =>
      have h4 : 4 ≤ a.size := by
        rcases hs with h | h
        · rw [hf] at h; cases h
        · exact h
      simp only [hf, Bool.false_eq_true, ↓reduceIte] at hq ⊢
      by_cases h8 : a.size = 8
      · simp [h8] at hq ⊢; subst hq; rfl
      · by_cases h44 : a.size = 4
        · simp [h44] at hq ⊢; subst hq; rfl
        · have h1 : a.size ≠ 1 := by omega
          have h2 : a.size ≠ 2 := by omega
          simp [h1, h2, h44, h8] at hq
  | .sc .ptr, c, h, _, _ => by
    simp only [classOf, qbetype, Sc.size, Sc.isFloat] at h
    simp at h
    subst h; rfl
  | .array .., _, _, _, ha => by simp [notArray] at ha
  | .su u p fs, c, h, _, _ => by
    simp only [classOf, Option.map_eq_some_iff] at h
    obtain ⟨q, hq, rfl⟩ := h
    simp only [abiClass, hq, Option.map_some, Cls.toAbi]
  | .blob s a d, c, h, _, _ => by
    simp only [classOf, Option.map_eq_some_iff] at h
    obtain ⟨q, hq, rfl⟩ := h
    simp only [abiClass, hq, Option.map_some, Cls.toAbi]

theorem adjusted_notArray : ∀ (t : AType), notArray (typeadjust t) = true
  | .array .. => rfl
  | .sc _ => rfl
  | .su .. => rfl
  | .blob .. => rfl

end CprocVerif.AbiDesc

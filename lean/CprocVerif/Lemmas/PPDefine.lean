import CprocVerif.Model.PP

/-! # Lemmas about `define`, `macroequal` (model of pp.c) -/

namespace CprocVerif.PP
open CprocVerif.Gen.TokenKinds

/-! ## the parameter loop accepts only distinct names -/

def isVa (t : Tok) : Prop := t.kind = .TIDENT ∧ t.lit = some vaName

instance (t : Tok) : Decidable (isVa t) := by unfold isVa; infer_instance

theorem mkParam_ok {ps : List Param} {t : Tok} {p : Param} (h : mkParam ps t = .ok p) :
    (p.fvar = true ∧ p.name = vaName) ∨ (p.fvar = false ∧ ∀ q ∈ ps, q.name ≠ p.name) := by
  unfold mkParam at h
  split at h
  · cases h; exact .inl ⟨rfl, rfl⟩
  · split at h
    · split at h
      · cases h
      · rename_i hany
        cases h
        refine .inr ⟨rfl, ?_⟩
        intro q hq heq
        apply hany
        simp only [List.any_eq_true, decide_eq_true_eq]
        exact ⟨q, hq, heq⟩
    · cases h

/-- names of the named (non-`...`) parameters are pairwise distinct -/
def NamedNodup (ps : List Param) : Prop := ((ps.filter (fun p => !p.fvar)).map (·.name)).Nodup

theorem namedNodup_cons {ps : List Param} {p : Param} (h : NamedNodup ps)
    (hp : (p.fvar = true) ∨ (p.fvar = false ∧ ∀ q ∈ ps, q.name ≠ p.name)) : NamedNodup (p :: ps) := by
  unfold NamedNodup at *
  rcases hp with hv | ⟨hv, hq⟩
  · simp only [List.filter_cons, hv, Bool.not_true, Bool.false_eq_true, ↓reduceIte]
    exact h
  · simp only [List.filter_cons, hv, Bool.not_false, ↓reduceIte, List.map_cons, List.nodup_cons]
    refine ⟨?_, h⟩
    intro hm
    simp only [List.mem_map, List.mem_filter] at hm
    obtain ⟨q, ⟨hq1, _⟩, hq2⟩ := hm
    exact hq q hq1 hq2

theorem namedNodup_reverse {ps : List Param} (h : NamedNodup ps) : NamedNodup ps.reverse := by
  unfold NamedNodup at *
  rw [List.filter_reverse, List.map_reverse, List.Nodup, List.pairwise_reverse]
  exact List.Pairwise.imp (fun hab => Ne.symm hab) h

theorem mkParam_cons {ps : List Param} {t : Tok} {p : Param} (hnd : NamedNodup ps)
    (h : mkParam ps t = .ok p) : NamedNodup (p :: ps) := by
  have := mkParam_ok h
  exact namedNodup_cons hnd (by rcases this with ⟨a, _⟩ | ⟨a, b⟩; exact .inl a; exact .inr ⟨a, b⟩)

theorem paramLoop_nodup (ps : List Param) (raw : List Tok) : ∀ (qs : List Param) (rest : List Tok),
    NamedNodup ps → paramLoop ps raw = .ok (qs, rest) → NamedNodup qs := by
  fun_induction paramLoop ps raw
  all_goals intro qs rest hnd h
  all_goals try (cases h; done)
  case case5 => cases h; exact namedNodup_reverse hnd
  case case7 p hp ih => exact ih qs rest (mkParam_cons hnd hp) h
  case case12 e hp => rw [hp] at h; cases h
  case case13 p hp ih => rw [hp] at h; exact ih qs rest (mkParam_cons hnd hp) h

/-- **define rejects a duplicate parameter name** (pp.c after `e1e687a`): the parameter loop
only ever returns a list whose named parameters are pairwise distinct. -/
theorem paramLoop_distinct (raw : List Tok) (qs : List Param) (rest : List Tok)
    (h : paramLoop [] raw = .ok (qs, rest)) : NamedNodup qs :=
  paramLoop_nodup [] raw qs rest (by simp [NamedNodup]) h

/-! ## the body loop -/

def endTok (t : Tok) : Prop := t.kind = .TNEWLINE ∨ t.kind = .TEOF
instance (t : Tok) : Decidable (endTok t) := by unfold endTok; infer_instance

/-- what `bodyLoop` accepts: no `##`; `__VA_ARGS__` only when variadic -/
theorem bodyLoop_sound (func va : Bool) (ps : List Param) (i : Option Nat) (t : Tok) (acc raw : List Tok) :
    ∀ ps' body e rest, bodyLoop func va ps i t acc raw = .ok (ps', body, e, rest) →
      (∀ x ∈ acc, x.kind ≠ .THASHHASH ∧ (va = false → ¬ isVa x)) →
      ∀ x ∈ body, x.kind ≠ .THASHHASH ∧ (va = false → ¬ isVa x) := by
  fun_induction bodyLoop func va ps i t acc raw
  all_goals intro ps' body e rest h hacc
  all_goals try (cases h; done)
  case case1 =>
    cases h
    intro x hx
    exact hacc x (List.mem_reverse.mp hx)
  case case5 hne hhh hva r hr =>
    cases h
    intro x hx
    rcases List.mem_cons.mp (List.mem_reverse.mp hx) with rfl | hx
    · exact ⟨hhh, fun hv hx => hva ⟨hx.1, hx.2, by simp [hv]⟩⟩
    · exact hacc x hx
  case case8 hne hhh hva t' r' hn r hr ih =>
    refine ih ps' body e rest h ?_
    intro x hx
    rcases List.mem_cons.mp hx with rfl | hx
    · exact ⟨hhh, fun hv hx => hva ⟨hx.1, hx.2, by simp [hv]⟩⟩
    · exact hacc x hx

/-! ## `#` is followed by a parameter (function-like macros) -/

def pnames (ps : List Param) : List Name := ps.map (·.name)

def IsParamTok (ns : List Name) (b : Tok) : Prop := b.kind = .TIDENT ∧ ∃ n ∈ ns, b.lit = some n

/-- on a list in reverse order (latest token first): each `#` is followed by a parameter -/
def RevOk (ns : List Name) : List Tok → Prop
  | [] => True
  | [_] => True
  | b :: a :: r => (a.kind = .THASH → IsParamTok ns b) ∧ RevOk ns (a :: r)

/-- name and `...`-ness of the parameters: what the flag updates of the body loop leave alone -/
def pkeys (ps : List Param) : List (Name × Bool) := ps.map fun p => (p.name, p.fvar)

theorem pkeys_setFtok (ps : List Param) (k : Nat) : pkeys (setFtok ps k) = pkeys ps := by
  unfold pkeys setFtok
  induction ps generalizing k with
  | nil => simp
  | cons p r ih =>
    cases k with
    | zero => simp
    | succ k => simp only [List.modify_succ_cons, List.map_cons, ih]

theorem pkeys_setFstr (ps : List Param) (k : Nat) : pkeys (setFstr ps k) = pkeys ps := by
  unfold pkeys setFstr
  induction ps generalizing k with
  | nil => simp
  | cons p r ih =>
    cases k with
    | zero => simp
    | succ k => simp only [List.modify_succ_cons, List.map_cons, ih]

theorem pnames_of_pkeys {ps qs : List Param} (h : pkeys ps = pkeys qs) : pnames ps = pnames qs := by
  have : pnames ps = (pkeys ps).map (·.1) := by simp [pnames, pkeys]
  rw [this, h]; simp [pnames, pkeys]

theorem pnames_setFtok (ps : List Param) (k : Nat) : pnames (setFtok ps k) = pnames ps :=
  pnames_of_pkeys (pkeys_setFtok ps k)

theorem pnames_setFstr (ps : List Param) (k : Nat) : pnames (setFstr ps k) = pnames ps :=
  pnames_of_pkeys (pkeys_setFstr ps k)

theorem namedNodup_of_pkeys {ps qs : List Param} (h : pkeys ps = pkeys qs) (hq : NamedNodup qs) : NamedNodup ps := by
  have key : ∀ l : List Param, (l.filter (fun p => !p.fvar)).map (·.name) = ((pkeys l).filter (fun x => !x.2)).map (·.1) := by
    intro l
    induction l with
    | nil => rfl
    | cons p r ih =>
      simp only [pkeys, List.map_cons, List.filter_cons] at ih ⊢
      cases p.fvar <;> simp [ih]
  unfold NamedNodup at *
  rw [key, h, ← key]; exact hq

theorem macrovarargs_eq (func : Bool) (ps : List Param) :
    macrovarargs func ps = (func && ((ps.getLast?.map (·.fvar)).getD false)) := by
  unfold macrovarargs
  cases ps.getLast? <;> rfl

theorem macrovarargs_of_pkeys {ps qs : List Param} (func : Bool) (h : pkeys ps = pkeys qs) :
    macrovarargs func ps = macrovarargs func qs := by
  have key : ∀ l : List Param, l.getLast?.map (·.fvar) = (pkeys l).getLast?.map (·.2) := by
    intro l
    simp only [pkeys, List.getLast?_map, Option.map_map]
    rfl
  rw [macrovarargs_eq, macrovarargs_eq, key, key, h]

theorem macroparam_isParam {ps : List Param} {t : Tok} {k : Nat} (h : macroparam ps t = some k) :
    IsParamTok (pnames ps) t := by
  unfold macroparam at h
  split at h
  · rename_i hk
    simp only at h
    split at h
    · rename_i hlt
      refine ⟨hk, ?_⟩
      have := List.findIdx_getElem (w := hlt)
      simp only [decide_eq_true_eq] at this
      exact ⟨_, List.mem_map.mpr ⟨_, List.getElem_mem hlt, rfl⟩, this.symm⟩
    · cases h
  · cases h

theorem bodyStep_ok {func : Bool} {ps : List Param} {i : Option Nat} {prev : Kind} {t : Tok}
    {r : List Param × Option Nat} (h : bodyStep func ps i prev t = .ok r) :
    pkeys r.1 = pkeys ps ∧ (func = true → prev = .THASH → IsParamTok (pnames ps) t) := by
  unfold bodyStep at h
  split at h
  · cases h
    rename_i hf
    exact ⟨rfl, fun hf' => absurd hf' hf⟩
  · have key : ∀ ps1 : List Param, pkeys ps1 = pkeys ps →
        (if prev = Kind.THASH then
            if t.kind ≠ Kind.TIDENT then Except.error Err.hashIdent
            else match macroparam ps1 t with
              | none => Except.error Err.hashNotParam
              | some k => Except.ok (setFstr ps1 k, none)
          else Except.ok (ps1, macroparam ps1 t)) = Except.ok r →
        pkeys r.1 = pkeys ps ∧ (func = true → prev = .THASH → IsParamTok (pnames ps) t) := by
      intro ps1 hn h
      split at h
      · split at h
        · cases h
        · split at h
          · cases h
          · rename_i k hk
            cases h
            have := macroparam_isParam hk
            rw [pnames_of_pkeys hn] at this
            exact ⟨by simp only [pkeys_setFstr, hn], fun _ _ => this⟩
      · rename_i hprev
        cases h
        exact ⟨hn, fun _ hp => absurd hp hprev⟩
    cases i with
    | none => exact key ps rfl h
    | some k => exact key (setFtok ps k) (pkeys_setFtok ps k) h

theorem bodyLoop_hash (va : Bool) (ps : List Param) (i : Option Nat) (t : Tok) (acc raw : List Tok) :
    ∀ ps' body e rest, bodyLoop true va ps i t acc raw = .ok (ps', body, e, rest) →
      RevOk (pnames ps) (t :: acc) →
      pkeys ps' = pkeys ps ∧ RevOk (pnames ps) (e :: body.reverse) ∧ endTok e := by
  fun_induction bodyLoop true va ps i t acc raw
  all_goals intro ps' body e rest h hacc
  all_goals try (cases h; done)
  case case1 hend =>
    cases h
    refine ⟨rfl, ?_, hend⟩
    rw [List.reverse_reverse]; exact hacc
  case case5 hne hhh hva r hr =>
    cases h
    have := bodyStep_ok hr
    refine ⟨this.1, ?_, .inr rfl⟩
    rw [List.reverse_reverse]
    exact ⟨fun hk => this.2 rfl hk, hacc⟩
  case case8 hne hhh hva t' r' hn r hr ih =>
    have hs := bodyStep_ok hr
    have := ih ps' body e rest h (by rw [pnames_of_pkeys hs.1]; exact ⟨fun hk => hs.2 rfl hk, hacc⟩)
    rw [pnames_of_pkeys hs.1, hs.1] at this
    exact this

/-- the last token of an accepted function-like replacement list is not `#` -/
theorem revOk_last_not_hash {ns : List Name} {e x : Tok} {r : List Tok} (h : RevOk ns (e :: x :: r))
    (he : endTok e) : x.kind ≠ .THASH := by
  intro hx
  have := (h.1 hx).1
  rcases he with he | he <;> rw [he] at this <;> cases this

theorem bodyLoop_obj (va : Bool) (ps : List Param) (i : Option Nat) (t : Tok) (acc raw : List Tok) :
    ∀ ps' body e rest, bodyLoop false va ps i t acc raw = .ok (ps', body, e, rest) → ps' = ps := by
  fun_induction bodyLoop false va ps i t acc raw
  all_goals intro ps' body e rest h
  all_goals try (cases h; done)
  case case1 => cases h; rfl
  case case5 hne hhh hva r hr =>
    cases h
    simp [bodyStep] at hr
    rw [← hr]
  case case8 hne hhh hva t' r' hn r hr ih =>
    have := ih ps' body e rest h
    simp [bodyStep] at hr
    rw [this, ← hr]

/-! ## `define` as a whole -/

/-- what every accepted definition satisfies (6.10.3p5, p6, 6.10.3.2p1; `##` is outside the
implemented subset) -/
structure Macro.WF (m : Macro) : Prop where
  noHashHash : ∀ t ∈ m.body, t.kind ≠ .THASHHASH
  vaOnlyVariadic : macrovarargs m.func m.params = false → ∀ t ∈ m.body, ¬ isVa t
  distinct : NamedNodup m.params
  hashParam : m.func = true → ∃ e, endTok e ∧ RevOk (pnames m.params) (e :: m.body.reverse)
  objNoParams : m.func = false → m.params = []

theorem macroget_macroset (ms : List Macro) (m : Macro) : macroget (macroset ms m) m.name = some m := by
  simp [macroget, macroset]

theorem revOk_single (ns : List Name) (t : Tok) : RevOk ns [t] := trivial

/-- Every definition `define` accepts is well formed, and it is the one found under its name
afterwards. -/
theorem define_wf {st st' : St} (h : define st = .ok st') :
    ∃ m, macroget st'.macros (st.tok.lit.getD []) = some m ∧ m.name = st.tok.lit.getD [] ∧ m.WF ∧ m.hide = false := by
  unfold define at h
  split at h
  · cases h
  · split at h
    · cases h
    · rename_i t st1 hscan
      simp only at h
      split at h
      · cases h
      · rename_i func ps t1 st2 hhd
        split at h
        · cases h
        · rename_i ps' body endt raw hbody
          have hwf : ({ func := func, name := st.tok.lit.getD [], hide := false, params := ps', args := [], body := body } : Macro).WF := by
            have hs := bodyLoop_sound func (macrovarargs func ps) ps (macroparam ps t1) t1 [] st2.raw ps' body endt raw hbody
              (by intro x hx; cases hx)
            split at hhd
            · -- function-like
              split at hhd
              · cases hhd
              · rename_i ps0 raw0 hpl
                split at hhd
                · cases hhd
                · rename_i t1' st2' hsc2
                  cases hhd
                  have hh := bodyLoop_hash (macrovarargs true ps) ps (macroparam ps t1) t1 [] st2.raw ps' body endt raw hbody
                    (revOk_single _ _)
                  have hnd := paramLoop_distinct _ _ _ hpl
                  exact ⟨fun x hx => (hs x hx).1,
                    fun hv x hx => (hs x hx).2 (by rw [← macrovarargs_of_pkeys true hh.1]; exact hv),
                    namedNodup_of_pkeys hh.1 hnd,
                    (fun _ => ⟨endt, hh.2.2, by rw [pnames_of_pkeys hh.1]; exact hh.2.1⟩),
                    (fun hf => by cases hf)⟩
            · cases hhd
              have hp := bodyLoop_obj _ _ _ _ _ _ ps' body endt raw hbody
              subst hp
              exact ⟨fun x hx => (hs x hx).1, fun hv x hx => (hs x hx).2 hv, (by simp [NamedNodup]),
                (fun hf => by cases hf), (fun _ => rfl)⟩
          split at h
          · split at h
            · cases h
              exact ⟨_, macroget_macroset _ _, rfl, hwf, rfl⟩
            · cases h
          · cases h
            exact ⟨_, macroget_macroset _ _, rfl, hwf, rfl⟩

/-
  C03, classes — the invariant of machine states, its preservation by `step`, and progress: a step
  of a well-formed program from a typed state never ends in a class mismatch, except possibly at an
  INDIRECT call (the callee is a computed address: QBE IL has no function types, so no static
  validator can compare that call with the signature of the function it reaches).
-/
import CprocVerif.Lemmas.QbeClsCall

namespace CprocVerif.C03.Cls
open CprocVerif.Qbe

/-! ## External functions -/

/-- **The assumption on external functions** (everything `wf` cannot know about them), per call
    instruction of the program that can reach an external function `name` (a direct call names it;
    an indirect call may reach any): on arguments whose kinds fit the types written at the call,
    the external function raises no class error of its own, and if the call names a result, the
    result is not an aggregate and the returned value can be read at the class of that result. -/
def ExtOkP (p : Prog) (fs : List Func) (ext : Ext) : Prop :=
  ∀ f ∈ fs, ∀ b ∈ f.blocks.toList, ∀ (res : Option (String × Ty)) (cv : Val)
    (args : List (Ty × Val)) (va : Option Nat), Ins.call res cv args va ∈ b.ins.toList →
  ∀ (name : String) (avs : List RVal) (mem : Mem),
    (∀ n th, cv = .glob n th → n = name) → p.funcs[name]? = none →
    avs.length = args.length → (∀ a ∈ zipTys args avs, kindOk a.1.cls a.2.kind = true) →
    match ext name avs mem with
    | none => True
    | some (.error e) => ¬ ClsErr e
    | some (.ok r) => ∀ x ty, res = some (x, ty) →
        (∀ t, ty ≠ .agg t) ∧ kindOk ty.cls r.ret.kind = true

/-! ## The invariant -/

/-- Static context: every function of the program has the class facts established by `wf`, and the
    signature table agrees with the function table. -/
structure Ctx (p : Prog) (fs : List Func) (sigs : SigMap) : Prop where
  cls : ∀ f ∈ fs, FuncCls sigs f
  funcs : ∀ (name : String) (fi : FuncInfo), p.funcs[name]? = some fi → fi.f ∈ fs ∧ sigs[name]? = some fi.f.sig

/-- A frame executes a function of the program and its environment is typed. -/
structure FrameT (fs : List Func) (fr : Frame) : Prop where
  mem : fr.fi.f ∈ fs
  env : EnvTyped (tcOf fr.fi.f) fr.env

/-- The frame `callee` was entered from the call instruction at which `caller` stands; if that call
    is direct, the signature it was checked against is the callee's. -/
def CallLink (sigs : SigMap) (callee caller : Frame) : Prop :=
  ∃ res cv args va, caller.curIns = some (.call res cv args va) ∧
    ∀ n th, cv = .glob n th → sigs[n]? = some callee.fi.f.sig

/-- **The state invariant**: all frames typed, adjacent frames linked. -/
def StackT (fs : List Func) (sigs : SigMap) : List Frame → Prop
  | [] => True
  | [fr] => FrameT fs fr
  | fr :: caller :: rest => FrameT fs fr ∧ CallLink sigs fr caller ∧ StackT fs sigs (caller :: rest)

theorem StackT.head {fs : List Func} {sigs : SigMap} {fr : Frame} {rest : List Frame}
    (h : StackT fs sigs (fr :: rest)) : FrameT fs fr := by
  cases rest with
  | nil => exact h
  | cons c r => exact h.1

theorem StackT.tail {fs : List Func} {sigs : SigMap} {fr : Frame} {rest : List Frame}
    (h : StackT fs sigs (fr :: rest)) : StackT fs sigs rest := by
  cases rest with
  | nil => trivial
  | cons c r => exact h.2.2

/-- Replacing the top frame by one of the same function keeps the invariant. -/
theorem StackT.replace {fs : List Func} {sigs : SigMap} {fr fr' : Frame} {rest : List Frame}
    (h : StackT fs sigs (fr :: rest)) (hfi : fr'.fi = fr.fi) (ht : FrameT fs fr') :
    StackT fs sigs (fr' :: rest) := by
  cases rest with
  | nil => exact ht
  | cons c r =>
    refine ⟨ht, ?_, h.2.2⟩
    obtain ⟨res, cv, args, va, h1, h2⟩ := h.2.1
    exact ⟨res, cv, args, va, h1, by rw [hfi]; exact h2⟩

/-- A frame stands at an indirect call. -/
def AtIndirectCall (fr : Frame) : Prop :=
  ∃ res cv args va, fr.curIns = some (.call res cv args va) ∧ ∀ n th, cv ≠ .glob n th

/-- The state is at an indirect call: the top frame is about to execute one, or is returning to
    one. -/
def IndirectSite (s : State) : Prop := ∃ fr ∈ s.frames.take 2, AtIndirectCall fr

/-- What a step from a typed state may produce. -/
def StepT (fs : List Func) (sigs : SigMap) (s : State) : Step → Prop
  | .next s' => StackT fs sigs s'.frames
  | .done e _ => ClassStuck e → IndirectSite s

theorem curIns_eq {fr : Frame} {b : Block} {ins : Ins} (hb : fr.fi.f.blocks[fr.bi]? = some b)
    (hi : b.ins[fr.ii]? = some ins) : fr.curIns = some ins := by
  unfold Frame.curIns
  rw [hb]
  exact hi

theorem curIns_mem {fr : Frame} {ins : Ins} (h : fr.curIns = some ins) :
    ∃ (bi : Nat) (b : Block), fr.fi.f.blocks[bi]? = some b ∧ ∃ ii : Nat, b.ins[ii]? = some ins := by
  unfold Frame.curIns at h
  split at h
  · rename_i b hb
    exact ⟨fr.bi, b, hb, fr.ii, h⟩
  · cases h

theorem mem_toList_of_getElem? {α : Type} {xs : Array α} {i : Nat} {a : α} (h : xs[i]? = some a) :
    a ∈ xs.toList := Array.mem_toList_iff.2 (Array.mem_of_getElem? h)

/-! ## Jumps -/

theorem gotoBlock_typed {p : Prog} {fs : List Func} {sigs : SigMap} {fr : Frame}
    {rest : List Frame} {mem : Mem} {trace : Array String} {cur : Block} {j : Nat} {s : State}
    (hc : Ctx p fs sigs) (hs : StackT fs sigs (fr :: rest)) :
    StepT fs sigs s (gotoBlock p fr rest mem trace cur j) := by
  have hfr := hs.head
  have hcls := hc.cls _ hfr.mem
  unfold gotoBlock
  split
  · exact fun h => absurd h (not_classStuck_stuck (by intro s hs; cases hs))
  · rename_i tb htb
    have hph := evalPhis_typed (p := p) hfr.env (blk := tb.label) (pred := cur.label)
      (phis := tb.phis) (hcls.block j tb htb).phis
    split
    · rename_i e he
      rw [he] at hph
      exact fun h => absurd h hph
    · rename_i bs hbs
      rw [hbs] at hph
      refine hs.replace rfl ⟨hfr.mem, ?_⟩
      refine bindAll_typed hfr.env ?_
      intro b hb c hcb
      obtain ⟨ph, hphm, h1, h2⟩ := hph b hb
      have := tcOf_lookup hcls.nodup (allDefs_phi htb hphm)
      rw [h1, this] at hcb
      cases hcb
      exact Or.inl h2

/-! ## Returns -/

theorem stepRet_typed {p : Prog} {fs : List Func} {sigs : SigMap} {fr : Frame}
    {rest : List Frame} {mem : Mem} {trace : Array String} {v : Option RVal}
    (hc : Ctx p fs sigs) (hs : StackT fs sigs (fr :: rest))
    (hv : ∀ rv, v = some rv → ∃ t, fr.fi.f.ret = some t ∧ kindOk t.cls rv.kind = true) :
    StepT fs sigs ⟨fr :: rest, mem, trace⟩ (stepRet p fr rest mem trace v) := by
  unfold stepRet
  have hsafe := retValue_safe (p := p) (mem := mem) hv
  split
  · rename_i e he
    rw [he] at hsafe
    exact fun h => absurd h (not_classStuck_of_not_clsErr hsafe)
  · rename_i rv hrv
    have hrt := retValue_typed hrv
    dsimp only
    split
    · exact fun h => absurd h (not_classStuck_ret _)
    · rename_i caller rest'
      have hcaller : FrameT fs caller := hs.tail.head
      have hccls := hc.cls _ hcaller.mem
      obtain ⟨res0, cv0, args0, va0, hcur0, hlink⟩ := hs.2.1
      split
      · rename_i res cv args va hcur
        rw [hcur0] at hcur
        cases hcur
        obtain ⟨bi, b, hb, ii, hi⟩ := curIns_mem hcur0
        have hfacts : CallFacts sigs (tcOf caller.fi.f) res0 cv0 args0 va0 :=
          (hccls.block bi b hb).ins _ (mem_toList_of_getElem? hi)
        split
        · rename_i e he
          intro hstuck
          -- a class error while binding the result: only possible at an indirect call
          by_cases hg : ∃ n th, cv0 = .glob n th
          · obtain ⟨n, th, hg⟩ := hg
            have hsg := hlink n th hg
            have hres := (hfacts.direct n th _ hg hsg).2.2.2.2
            have := bindCallRes_safe (p := p) (env := caller.env)
              (mem := mem.popTo fr.stackMark fr.spMark) hrt hres
            rw [he] at this
            exact absurd hstuck (not_classStuck_of_not_clsErr this)
          · refine ⟨caller, by simp, res0, cv0, args0, va0, hcur0, ?_⟩
            intro n th hcv
            exact hg ⟨n, th, hcv⟩
        · rename_i env' mem' hbind
          have henv' : EnvTyped (tcOf caller.fi.f) env' := by
            refine bindCallRes_typed hcaller.env ?_ hbind
            intro x ty hres
            subst hres
            exact tcOf_lookup hccls.nodup (allDefs_call hb hi)
          exact hs.tail.replace rfl ⟨hcaller.mem, henv'⟩
      · exact fun h => absurd h (by decide)

/-! ## Terminators -/

theorem stepTerm_typed {p : Prog} {fs : List Func} {sigs : SigMap} {fr : Frame}
    {rest : List Frame} {mem : Mem} {trace : Array String} {b : Block}
    (hc : Ctx p fs sigs) (hs : StackT fs sigs (fr :: rest))
    (hb : fr.fi.f.blocks[fr.bi]? = some b) :
    StepT fs sigs ⟨fr :: rest, mem, trace⟩ (stepTerm p fr rest mem trace b) := by
  have hfr := hs.head
  have hcls := hc.cls _ hfr.mem
  have hterm := (hcls.block _ b hb).term
  unfold stepTerm
  split
  · exact gotoBlock_typed hc hs
  · split
    · exact fun h => absurd h (not_classStuck_stuck (by intro s hs; cases hs))
    · exact gotoBlock_typed hc hs
  · rename_i v a z hj
    have hjf : argOk (tcOf fr.fi.f) .w v = true := hterm _ hj
    split
    · rename_i r hr
      refine fun h => absurd h (not_classStuck_stuck ?_)
      intro s hs
      subst hs
      cases hv : v <;> simp [hv, readVal] at hr
      split at hr <;> cases hr
    · rename_i c hcv
      have hk := readVal_kind hfr.env hjf hcv
      have hsafe := safe_asW hk
      split
      · rename_i e he
        rw [he] at hsafe
        exact fun h => absurd h (not_classStuck_of_not_clsErr hsafe)
      · dsimp only
        split
        · exact fun h => absurd h (not_classStuck_stuck (by intro s hs; cases hs))
        · exact gotoBlock_typed hc hs
  · exact stepRet_typed hc hs (by intro rv hrv; cases hrv)
  · rename_i v hj
    obtain ⟨t, hret, hjf⟩ : ∃ t, fr.fi.f.ret = some t ∧ argOk (tcOf fr.fi.f) t.cls v = true :=
      hterm _ hj
    split
    · rename_i r hr
      refine fun h => absurd h (not_classStuck_stuck ?_)
      intro s hs
      subst hs
      cases hv : v <;> simp [hv, readVal] at hr
      split at hr <;> cases hr
    · rename_i rv hrv
      refine stepRet_typed hc hs ?_
      intro rv' h'
      cases h'
      exact ⟨t, hret, readVal_kind hfr.env hjf hrv⟩
  · exact fun h => absurd h (not_classStuck_trap _)

/-! ## Instructions -/

theorem readVals_error_not_other {p : Prog} {env : Env} {vs : List Val} {r : StuckReason}
    (h : readVals p env vs = .error r) : ∀ s, r ≠ .other s := by
  induction vs with
  | nil => simp [readVals] at h
  | cons v vs ih =>
    simp only [readVals] at h
    split at h
    · rename_i e he
      cases h
      intro s hs
      subst hs
      cases hv : v <;> simp [hv, readVal] at he
      split at he <;> cases he
    · split at h
      · rename_i e he
        cases h
        exact ih he
      · cases h

theorem stepIns_typed {p : Prog} {ext : Ext} {fs : List Func} {sigs : SigMap} {fr : Frame}
    {rest : List Frame} {mem : Mem} {trace : Array String} {b : Block} {ins : Ins}
    (hc : Ctx p fs sigs) (hext : ExtOkP p fs ext) (hs : StackT fs sigs (fr :: rest))
    (hb : fr.fi.f.blocks[fr.bi]? = some b) (hi : b.ins[fr.ii]? = some ins) :
    StepT fs sigs ⟨fr :: rest, mem, trace⟩ (stepIns p ext fr rest mem trace ins) := by
  have hfr := hs.head
  have hcls := hc.cls _ hfr.mem
  have hfacts := (hcls.block _ b hb).ins ins (mem_toList_of_getElem? hi)
  have hcur := curIns_eq hb hi
  cases ins with
  | op res o args =>
    obtain ⟨ks, hsig, hargs⟩ := hfacts
    simp only [stepIns]
    split
    · rename_i r hr
      exact fun h => absurd h (not_classStuck_stuck (readVals_error_not_other hr))
    · rename_i vs hvs
      have hk := readVals_kinds hfr.env hargs hvs
      have hsafe := safe_execOp (mem := mem) (va := fr.va) hsig hk
      split
      · rename_i e he
        rw [he] at hsafe
        exact fun h => absurd h (not_classStuck_of_not_clsErr hsafe)
      · rename_i v mem' he
        rw [he] at hsafe
        refine hs.replace rfl ⟨hfr.mem, ?_⟩
        cases res with
        | none => exact hfr.env
        | some r =>
          obtain ⟨x, k⟩ := r
          refine envTyped_insert hfr.env ?_
          intro c hcx
          have := tcOf_lookup hcls.nodup (allDefs_op hb hi)
          rw [this] at hcx
          cases hcx
          exact Or.inl (hsafe k rfl)
  | call res cv args va =>
    have hcf : CallFacts sigs (tcOf fr.fi.f) res cv args va := hfacts
    simp only [stepIns]
    split
    · rename_i r hr
      exact fun h => absurd h (not_classStuck_stuck (readVals_error_not_other hr))
    · exact fun h => absurd h (by decide)
    · rename_i cvv avs hrd
      -- the callee value and the argument values
      have hrd' : readVal p fr.env cv = .ok cvv ∧
          readVals p fr.env (args.map (·.2)) = .ok avs := by
        simp only [readVals] at hrd
        cases hr : readVal p fr.env cv with
        | error e => simp only [hr] at hrd; cases hrd
        | ok r =>
          cases hrs : readVals p fr.env (args.map (·.2)) with
          | error e => simp only [hr, hrs] at hrd; cases hrd
          | ok rs =>
            simp only [hr, hrs] at hrd
            cases hrd
            exact ⟨rfl, rfl⟩
      obtain ⟨hlen, hztys, hzk⟩ := zipTys_typed hfr.env hcf.argsCls hrd'.2
      have hcvk := readVal_kind hfr.env hcf.calleeOk hrd'.1
      split
      · rename_i e he
        -- calleeName failed: only `asL` of the callee value can fail
        refine fun h => absurd h (not_classStuck_of_not_clsErr ?_)
        unfold calleeName at he
        split at he
        · cases he
        · have hsafe := safe_asL hcvk
          split at he
          · rename_i e' he'
            cases he
            rw [he'] at hsafe
            exact hsafe
          · split at he
            · cases he
            · cases he
              exact not_cls_trap _
      · rename_i name hname
        have hglob : ∀ n th, cv = .glob n th → n = name := by
          intro n th hcv
          subst hcv
          simp only [calleeName] at hname
          cases hname
          rfl
        split
        · rename_i fi hfi
          obtain ⟨hfimem, hsg⟩ := hc.funcs name fi hfi
          have hficls := hc.cls _ hfimem
          split
          · rename_i e he
            intro hstuck
            by_cases hg : ∃ n th, cv = .glob n th
            · obtain ⟨n, th, hg⟩ := hg
              have hn := hglob n th hg
              subst hn
              obtain ⟨d1, d2, d3, d4, _⟩ := hcf.direct n th _ hg hsg
              have hta : TyArgs fi.f va (zipTys args avs) := by
                have hzl : (zipTys args avs).length = args.length := by
                  have := congrArg List.length hztys
                  simpa using this
                refine ⟨?_, ?_, ?_, by simpa [Func.sig] using d4, hzk⟩
                · rw [hzl]; simpa [Func.sig] using d1
                · intro hv
                  rw [hzl]
                  simpa [Func.sig] using d2 hv
                · rw [hztys]; exact d3
              have := enterFunc_safe (p := p) (mem := mem) hta
              rw [he] at this
              exact absurd hstuck (not_classStuck_of_not_clsErr this)
            · refine ⟨fr, by simp, res, cv, args, va, hcur, ?_⟩
              intro n th hcv
              exact hg ⟨n, th, hcv⟩
          · rename_i nf mem' henter
            obtain ⟨hnfi, _, _, hnenv⟩ := enterFunc_typed hficls.nodup henter
            have hnf : FrameT fs nf := ⟨by rw [hnfi]; exact hfimem, by rw [hnfi]; exact hnenv⟩
            refine ⟨hnf, ?_, hs⟩
            refine ⟨res, cv, args, va, hcur, ?_⟩
            intro n th hcv
            have hn := hglob n th hcv
            subst hn
            rw [hnfi]
            exact hsg
        · rename_i hnone
          have hex := hext _ hfr.mem b (mem_toList_of_getElem? hb) res cv args va
            (mem_toList_of_getElem? hi) name avs mem hglob hnone hlen hzk
          split
          · exact fun h => absurd h (not_classStuck_unknownExtern _)
          · rename_i e he
            rw [he] at hex
            exact fun h => absurd h (not_classStuck_of_not_clsErr hex)
          · rename_i r hr
            rw [hr] at hex
            have hsafe : Safe (fun _ => True)
                (bindCallRes p fr.env r.mem res (.scalar r.ret)) := by
              unfold bindCallRes
              split
              · trivial
              · rename_i x ty
                obtain ⟨hna, hk⟩ := hex x ty rfl
                dsimp only
                split
                · rename_i n
                  exact absurd rfl (hna n)
                · have := safe_coerce hk
                  split
                  · rename_i e he
                    rw [he] at this
                    exact this
                  · trivial
            split
            · rename_i e he
              rw [he] at hsafe
              exact fun h => absurd h (not_classStuck_of_not_clsErr hsafe)
            · rename_i env' mem' hbind
              refine hs.replace rfl ⟨hfr.mem, ?_⟩
              refine bindCallRes_typed hfr.env ?_ hbind
              intro x ty hres
              subst hres
              exact tcOf_lookup hcls.nodup (allDefs_call hb hi)

/-! ## Steps and runs -/

theorem step_typed {p : Prog} {ext : Ext} {fs : List Func} {sigs : SigMap} {s : State}
    (hc : Ctx p fs sigs) (hext : ExtOkP p fs ext) (hs : StackT fs sigs s.frames) :
    StepT fs sigs s (step p ext s) := by
  obtain ⟨frames, mem, trace⟩ := s
  cases frames with
  | nil => exact fun h => absurd h (by decide)
  | cons fr rest =>
    simp only [step]
    split
    · exact fun h => absurd h (not_classStuck_stuck (by intro s hs; cases hs))
    · rename_i b hb
      split
      · rename_i ins hi
        exact stepIns_typed hc hext hs hb hi
      · exact stepTerm_typed hc hs hb

/-- The state in which a run stopped (the last state that was stepped). -/
def lastState (p : Prog) (ext : Ext) : Nat → State → State
  | 0, s => s
  | n+1, s =>
    match step p ext s with
    | .next s' => lastState p ext n s'
    | .done _ _ => s

theorem run_typed {p : Prog} {ext : Ext} {fs : List Func} {sigs : SigMap}
    (hc : Ctx p fs sigs) (hext : ExtOkP p fs ext) (fuel : Nat) {s : State}
    (hs : StackT fs sigs s.frames) (h : ClassStuck (run p ext fuel s).end) :
    IndirectSite (lastState p ext fuel s) := by
  induction fuel generalizing s with
  | zero => exact absurd h not_classStuck_fuel
  | succ n ih =>
    have hst := step_typed (ext := ext) hc hext hs
    simp only [run] at h
    simp only [lastState]
    split
    · rename_i s' hs'
      rw [hs'] at hst h
      exact ih hst h
    · rename_i e t he
      rw [he] at hst h
      exact hst h

/-- All calls of the functions `fs` are direct. -/
def DirectCallsL (fs : List Func) : Prop :=
  ∀ f ∈ fs, ∀ b ∈ f.blocks.toList, ∀ (res : Option (String × Ty)) (cv : Val)
    (args : List (Ty × Val)) (va : Option Nat), Ins.call res cv args va ∈ b.ins.toList →
    ∃ n th, cv = .glob n th

theorem StackT.all {fs : List Func} {sigs : SigMap} {frames : List Frame}
    (h : StackT fs sigs frames) : ∀ fr ∈ frames, FrameT fs fr := by
  induction frames with
  | nil => intro fr hfr; cases hfr
  | cons fr rest ih =>
    intro fr' hfr'
    cases hfr' with
    | head => exact h.head
    | tail _ hm => exact ih h.tail fr' hm

theorem no_indirectSite {fs : List Func} {sigs : SigMap} {s : State} (hd : DirectCallsL fs)
    (hs : StackT fs sigs s.frames) : ¬ IndirectSite s := by
  rintro ⟨fr, hfr, res, cv, args, va, hcur, hng⟩
  have hft := hs.all fr (List.mem_of_mem_take hfr)
  obtain ⟨bi, b, hb, ii, hi⟩ := curIns_mem hcur
  obtain ⟨n, th, hg⟩ := hd _ hft.mem b (mem_toList_of_getElem? hb) res cv args va
    (mem_toList_of_getElem? hi)
  exact hng n th hg

/-- The invariant holds along the run, so the last state satisfies it as well. -/
theorem lastState_typed {p : Prog} {ext : Ext} {fs : List Func} {sigs : SigMap}
    (hc : Ctx p fs sigs) (hext : ExtOkP p fs ext) (fuel : Nat) {s : State}
    (hs : StackT fs sigs s.frames) : StackT fs sigs (lastState p ext fuel s).frames := by
  induction fuel generalizing s with
  | zero => exact hs
  | succ n ih =>
    have hst := step_typed (ext := ext) hc hext hs
    simp only [lastState]
    split
    · rename_i s' hs'
      rw [hs'] at hst
      exact ih hst
    · exact hs

/-! ## Entering the program -/

/-- The arguments given to `runFunc` fit the function `f`. -/
structure ArgsOk (f : Func) (args : List (Ty × RVal)) : Prop where
  len : f.params.length ≤ args.length
  nonvar : f.variadic = false → args.length = f.params.length
  tys : tysAgree (args.map (·.1)) (f.params.map (·.1)) = true
  kinds : ∀ a ∈ args, kindOk a.1.cls a.2.kind = true

theorem initState_typed {p : Prog} {fs : List Func} {sigs : SigMap} (hc : Ctx p fs sigs)
    {name : String} {args : List (Ty × RVal)}
    (hargs : ∀ fi, p.funcs[name]? = some fi → ArgsOk fi.f args) :
    (∀ s, initState p name args = .ok s → StackT fs sigs s.frames) ∧
    (∀ e, initState p name args = .error e → ¬ ClassStuck e) := by
  unfold initState
  cases hfi : p.funcs[name]? with
  | none =>
    refine ⟨fun s h => (by cases h), fun e h => ?_⟩
    cases h
    exact not_classStuck_noFunc _
  | some fi =>
    have ha := hargs fi hfi
    have hta : TyArgs fi.f (if fi.f.variadic then some fi.f.params.length else none) args := by
      refine ⟨ha.len, ha.nonvar, ha.tys, ?_, ha.kinds⟩
      intro i hi
      split at hi
      · rename_i hv
        cases hi
        exact ⟨hv, rfl⟩
      · cases hi
    have hsafe := enterFunc_safe (p := p) (mem := p.initMem) hta
    obtain ⟨hfimem, _⟩ := hc.funcs name fi hfi
    dsimp only
    cases henter : enterFunc p fi args (if fi.f.variadic then some fi.f.params.length else none)
        p.initMem with
    | error e =>
      rw [henter] at hsafe
      refine ⟨fun s h => (by cases h), fun e' h => ?_⟩
      cases h
      exact not_classStuck_of_not_clsErr hsafe
    | ok r =>
      obtain ⟨fr, mem⟩ := r
      obtain ⟨hnfi, _, _, hnenv⟩ := enterFunc_typed (hc.cls _ hfimem).nodup henter
      refine ⟨fun s h => ?_, fun e h => by cases h⟩
      cases h
      exact ⟨by rw [hnfi]; exact hfimem, by rw [hnfi]; exact hnenv⟩

end CprocVerif.C03.Cls

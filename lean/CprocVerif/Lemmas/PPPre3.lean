import CprocVerif.Lemmas.PPPre2

/-! # Arguments with macro names, part 3: the pieces of the argument loop -/

namespace CprocVerif.PP
open CprocVerif.Gen.TokenKinds
open CprocVerif.Spec.MacroRef (HTok Item PTok MacroDef RErr Flag expandH hsadd union pendItems lookup)
open CprocVerif.Spec

/-- a token of the text inside the parentheses of an invocation: not a new-line, `#`, scanner
diagnostic or end of file, not the name of a function-like macro, not painted -/
def ArgTokOK (ms0 : List Macro) (t : Tok) : Prop :=
  t.kind ≠ .TNEWLINE ∧ t.kind ≠ .THASH ∧ t.kind ≠ .TNONE ∧ t.kind ≠ .TEOF ∧ ¬ IsFunName ms0 t ∧ t.hide = false

theorem ArgTokOK.flatP {ms0 : List Macro} {t : Tok} (h : ArgTokOK ms0 t) : FlatP ms0 t := ⟨h.1, h.2.2.2.1, h.2.2.2.2.1⟩

def iP (ms0 : List Macro) (t : Tok) : Item := .tok (mkHp ms0 [] t)

/-- the stored argument `a` is the complete macro replacement of the tokens `raw` (when the
parameter is used outside `#`), and it is not empty -/
def ArgRel (ms0 : List Macro) (p : Param) (raw : List Tok) (a : Arg) : Prop :=
  p.ftok = true → LinkE (tblF ms0) (raw.map (iP ms0)) (a.toks.map (mkHp ms0 [])) [] ∧ a.toks ≠ [] ∧
    ∀ x ∈ a.toks, FlatP ms0 x

inductive ArgsRel (ms0 : List Macro) : List Param → List (List Tok) → List Arg → Prop where
  | nil (ps : List Param) : ArgsRel ms0 ps [] []
  | cons {p : Param} {ps : List Param} {r : List Tok} {rs : List (List Tok)} {a : Arg} {as : List Arg}
      (h : ArgRel ms0 p r a) (t : ArgsRel ms0 ps rs as) : ArgsRel ms0 (p :: ps) (r :: rs) (a :: as)

theorem ArgsRel.snoc {ms0 : List Macro} : ∀ {ps : List Param} {rs : List (List Tok)} {as : List Arg} (r : List Tok) (a : Arg),
    ArgsRel ms0 ps rs as → rs.length < ps.length → ArgRel ms0 (ps.getD rs.length default) r a →
    ArgsRel ms0 ps (rs ++ [r]) (as ++ [a])
  | [], _, _, _, _, _, hl, _ => by simp at hl
  | p :: ps, [], _, r, a, h, _, hr => by
    cases h
    exact .cons (by simpa using hr) (.nil ps)
  | p :: ps, r0 :: rs, _, r, a, h, hl, hr => by
    cases h with
    | cons h0 t0 =>
      refine .cons h0 (ArgsRel.snoc r a t0 (by simpa using hl) ?_)
      simpa using hr

theorem ArgsRel.length {ms0 : List Macro} {ps : List Param} {rs : List (List Tok)} {as : List Arg}
    (h : ArgsRel ms0 ps rs as) : as.length = rs.length := by
  induction h with
  | nil => rfl
  | cons _ _ ih => simp [ih]

theorem ArgsRel.get {ms0 : List Macro} : ∀ {ps : List Param} {rs : List (List Tok)} {as : List Arg},
    ArgsRel ms0 ps rs as → ∀ i, i < rs.length → ArgRel ms0 (ps.getD i default) (rs.getD i []) (as.getD i default)
  | _, _, _, .nil _, i, hi => by simp at hi
  | _, _, _, .cons h t, 0, _ => by simpa using h
  | _, _, _, .cons h t, i + 1, hi => by
    have := ArgsRel.get t i (by simpa using hi)
    simpa using this

/-- the ghost events `expandfunc` records after a replacement inside an argument -/
def pushEv (e : EF) (st sx : St) : St :=
  let depth := if decide (st.depth ≤ e.depth) = true then st.depth else e.depth
  let s1 := if sx.rb = true ∧ sx.depth ≤ depth then sx.ev .depthConf else sx
  if s1.rb = true ∧ (e.m.params.getD e.i default).fstr = true then s1.ev .strNested else s1

/-- equal up to the ghost field -/
def SameBut (a b : St) : Prop :=
  a.raw = b.raw ∧ a.ctx = b.ctx ∧ a.macros = b.macros ∧ a.depth = b.depth ∧ a.prag = b.prag ∧ a.ppnl = b.ppnl ∧
  a.rb = b.rb ∧ a.rt = b.rt

theorem SameBut.refl (a : St) : SameBut a a := ⟨rfl, rfl, rfl, rfl, rfl, rfl, rfl, rfl⟩
theorem SameBut.ev (a : St) (x : Event) : SameBut (a.ev x) a := ⟨rfl, rfl, rfl, rfl, rfl, rfl, rfl, rfl⟩
theorem SameBut.trans {a b c : St} (h1 : SameBut a b) (h2 : SameBut b c) : SameBut a c :=
  ⟨h1.1.trans h2.1, h1.2.1.trans h2.2.1, h1.2.2.1.trans h2.2.2.1, h1.2.2.2.1.trans h2.2.2.2.1,
   h1.2.2.2.2.1.trans h2.2.2.2.2.1, h1.2.2.2.2.2.1.trans h2.2.2.2.2.2.1, h1.2.2.2.2.2.2.1.trans h2.2.2.2.2.2.2.1,
   h1.2.2.2.2.2.2.2.trans h2.2.2.2.2.2.2.2⟩

theorem ite_sameBut {c : Prop} [Decidable c] {a b s : St} (ha : SameBut a s) (hb : SameBut b s) :
    SameBut (if c then a else b) s := by
  split <;> assumption

theorem pushEv_fields (e : EF) (st sx : St) : SameBut (pushEv e st sx) sx := by
  unfold pushEv
  exact ite_sameBut ((SameBut.ev _ _).trans (ite_sameBut (SameBut.ev _ _) (SameBut.refl _)))
    (ite_sameBut (SameBut.ev _ _) (SameBut.refl _))

theorem goodP_congr {ms0 : List Macro} {a b : St} (g : GoodP ms0 a) (h1 : b.ctx = a.ctx) (h2 : b.macros = a.macros)
    (h3 : b.depth = a.depth) (h4 : b.prag = a.prag) (h5 : b.ppnl = a.ppnl) : GoodP ms0 b :=
  ⟨by rw [h2]; exact g.stat, by rw [h1, h2, h3]; exact g.inv, by rw [h1, h2]; exact g.wf,
   by rw [h1, h2]; exact g.flatOk, by rw [h1, h2]; exact g.live, by rw [h4]; exact g.prag, by rw [h5]; exact g.ppnl⟩

section shapes
variable (rec : Call → St → Res) (e : EF) (st : St)

/-- one iteration of the inner loop that does not end an argument -/
theorem efLoop_go (hne : e.t.kind ≠ .TEOF) (hnb : ¬ (st.depth ≤ e.depth ∧ breakCond e))
    (hp : (e.m.params.getD e.i default).ftok = true) (sx st2 : St)
    (hx : rec (.expand e.t) st = .ok sx) (ha : rec (.argLoop false) (pushEv e st sx) = .ok st2) :
    efLoopBody rec e st =
      rec (.efLoop { e with depth := if st.depth ≤ e.depth then st.depth else e.depth,
                            paren := if st.depth ≤ e.depth then nextParen e else e.paren,
                            str := if st.depth ≤ e.depth ∧ (e.m.params.getD e.i default).fstr = true then stringize e.str e.t else e.str,
                            cur := if sx.rb = true then e.cur else sx.rt :: e.cur,
                            t := st2.rt }) st2 := by
  unfold efLoopBody
  unfold breakCond at hnb
  unfold pushEv at ha
  simp only [hne, ↓reduceIte, hp, hx]
  by_cases hl : st.depth ≤ e.depth
  · simp only [hl, decide_true, true_and, ↓reduceIte] at hnb ha ⊢
    simp only [hnb, ↓reduceIte, ha, nextParen]
  · simp only [hl, decide_false, Bool.false_eq_true, false_and, ↓reduceIte] at ha ⊢
    simp only [ha]

theorem efLoop_go_err1 (hne : e.t.kind ≠ .TEOF) (hnb : ¬ (st.depth ≤ e.depth ∧ breakCond e))
    (hp : (e.m.params.getD e.i default).ftok = true) (er : Err)
    (hx : rec (.expand e.t) st = .error er) : efLoopBody rec e st = .error er := by
  unfold efLoopBody
  unfold breakCond at hnb
  simp only [hne, ↓reduceIte, hp, hx]
  by_cases hl : st.depth ≤ e.depth
  · simp only [hl, decide_true, true_and, ↓reduceIte] at hnb ⊢
    simp only [hnb, ↓reduceIte]
  · simp only [hl, decide_false, Bool.false_eq_true, false_and, ↓reduceIte]

theorem efLoop_go_err2 (hne : e.t.kind ≠ .TEOF) (hnb : ¬ (st.depth ≤ e.depth ∧ breakCond e))
    (hp : (e.m.params.getD e.i default).ftok = true) (sx : St) (er : Err)
    (hx : rec (.expand e.t) st = .ok sx) (ha : rec (.argLoop false) (pushEv e st sx) = .error er) :
    efLoopBody rec e st = .error er := by
  unfold efLoopBody
  unfold breakCond at hnb
  unfold pushEv at ha
  simp only [hne, ↓reduceIte, hp, hx]
  by_cases hl : st.depth ≤ e.depth
  · simp only [hl, decide_true, true_and, ↓reduceIte] at hnb ha ⊢
    simp only [hnb, ↓reduceIte, ha]
  · simp only [hl, decide_false, Bool.false_eq_true, false_and, ↓reduceIte] at ha ⊢
    simp only [ha]

theorem efLoop_nextarg_err (hne : e.t.kind ≠ .TEOF) (hl : st.depth ≤ e.depth) (hc : breakCond e)
    (hf : ¬ (e.t.kind = .TRPAREN ∨ e.i + 1 = e.m.params.length)) (er : Err)
    (ha : rec (.argLoop false) st = .error er) : efLoopBody rec e st = .error er := by
  unfold efLoopBody breakCond at *
  simp only [hne, ↓reduceIte, hl, decide_true, true_and, hc, and_self, hf, ha]

theorem efLoop_skip_err (hne : e.t.kind ≠ .TEOF) (hl : st.depth ≤ e.depth) (hc : ¬ breakCond e)
    (hp : (e.m.params.getD e.i default).ftok = false) (er : Err)
    (ha : rec (.argLoop false) st = .error er) : efLoopBody rec e st = .error er := by
  unfold efLoopBody breakCond at *
  simp only [hne, ↓reduceIte, hl, decide_true, true_and, hc, hp, Bool.false_eq_true, ha]

end shapes


theorem rawP_congr {ms0 : List Macro} {st a b : St} (h : RawP ms0 st a) (hs : SameBut b a) : RawP ms0 st b := by
  obtain ⟨h1, h2, h3, _, _, _, _, h8⟩ := hs
  cases h with
  | ctx c1 c2 c3 c4 => exact .ctx (by rw [h2, h3, h8]; exact c1) (by rw [h8]; exact c2) (by rw [h1]; exact c3) (by rw [h2]; exact c4)
  | raw c1 c2 c3 => exact .raw (by rw [h1, h8]; exact c1) (by rw [h2]; exact c2) c3
  | eof c1 c2 c3 c4 c5 => exact .eof (by rw [h8]; exact c1) c2 (by rw [h1]; exact c3) (by rw [h2]; exact c4) c5

/-- `argnext` inside an invocation whose text has no new-line: `rawnext` -/
theorem argLoopP (ms0 : List Macro) (k : Nat) (st st2 : St) (g : GoodP ms0 st)
    (hhead : ∀ t r, st.raw = t :: r → ArgTokOK ms0 t) (h : exec k (.argLoop false) st = .ok st2) :
    GoodP ms0 st2 ∧ RawP ms0 st st2 := by
  cases k with
  | zero => cases h
  | succ k' =>
    change argLoopBody (exec k') false st = .ok st2 at h
    unfold argLoopBody at h
    cases hr : exec k' .rawnext st with
    | error e => rw [hr] at h; cases h
    | ok s1 =>
      rw [hr] at h
      simp only at h
      obtain ⟨g1, hR⟩ := rawnextP ms0 k' st s1 g (fun t r hh => ⟨(hhead t r hh).2.2.1, (hhead t r hh).2.1⟩) hr
      have hsb : SameBut (if s1.raw.length + 1 < st.raw.length then s1.ev .dirInArgs else s1) s1 :=
        ite_sameBut (SameBut.ev _ _) (SameBut.refl _)
      have hnl : s1.rt.kind ≠ .TNEWLINE := by
        cases hR with
        | ctx c1 c2 c3 c4 => exact c2.1
        | raw c1 c2 c3 => exact (hhead _ _ c1).1
        | eof c1 c2 c3 c4 c5 => rw [c1]; decide
      have hnl' : (if s1.raw.length + 1 < st.raw.length then s1.ev .dirInArgs else s1).rt.kind ≠ .TNEWLINE := by
        rw [hsb.2.2.2.2.2.2.2]; exact hnl
      simp only [hnl', ↓reduceIte, Bool.false_eq_true] at h
      cases h
      exact ⟨goodP_congr g1 hsb.2.1 hsb.2.2.1 hsb.2.2.2.1 hsb.2.2.2.2.1 hsb.2.2.2.2.2.1, rawP_congr hR hsb⟩

end CprocVerif.PP

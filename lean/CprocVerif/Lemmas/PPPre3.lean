import CprocVerif.Lemmas.PPPre2

/-! # Arguments with macro names, part 3: the pieces of the argument loop -/

namespace CprocVerif.PP
open CprocVerif.Gen.TokenKinds
open CprocVerif.Spec.MacroRef (HTok Item PTok MacroDef RErr Flag expandH hsadd union pendItems lookup)
open CprocVerif.Spec

/-- a token of the text inside the parentheses of an invocation: not a new-line, `#`, scanner
diagnostic or end of file, not the name of a function-like macro, not painted -/
def ArgTokOK (ms0 : List Macro) (t : Tok) : Prop :=
  t.kind ≠ .TNEWLINE ∧ t.kind ≠ .THASH ∧ t.kind ≠ .TNONE ∧ t.kind ≠ .TEOF ∧ ¬ IsFunName ms0 t ∧ t.hide = false

theorem ArgTokOK.flatP {ms0 : List Macro} {t : Tok} (h : ArgTokOK ms0 t) : FlatP ms0 t := ⟨h.1, h.2.2.2.1, h.2.2.2.2.1⟩

def iP (ms0 : List Macro) (t : Tok) : Item := .tok (mkHp ms0 [] t)

/-- the stored argument `a` is the complete macro replacement of the tokens `raw` (when the
parameter is used outside `#`), and it is not empty; its string is the spelling of `raw` (when the
parameter is used with `#`) -/
def ArgRel (ms0 : List Macro) (p : Param) (raw : List Tok) (a : Arg) : Prop :=
  (p.ftok = true → LinkE (tblF ms0) (raw.map (iP ms0)) (a.toks.map (mkHp ms0 [])) [] ∧ a.toks ≠ [] ∧
    ∀ x ∈ a.toks, FlatP ms0 x) ∧
  (p.fstr = true → a.str = strTok (stringizeAll raw))

inductive ArgsRel (ms0 : List Macro) : List Param → List (List Tok) → List Arg → Prop where
  | nil (ps : List Param) : ArgsRel ms0 ps [] []
  | cons {p : Param} {ps : List Param} {r : List Tok} {rs : List (List Tok)} {a : Arg} {as : List Arg}
      (h : ArgRel ms0 p r a) (t : ArgsRel ms0 ps rs as) : ArgsRel ms0 (p :: ps) (r :: rs) (a :: as)

theorem ArgsRel.snoc {ms0 : List Macro} : ∀ {ps : List Param} {rs : List (List Tok)} {as : List Arg} (r : List Tok) (a : Arg),
    ArgsRel ms0 ps rs as → rs.length < ps.length → ArgRel ms0 (ps.getD rs.length default) r a →
    ArgsRel ms0 ps (rs ++ [r]) (as ++ [a])
  | [], _, _, _, _, _, hl, _ => by simp at hl
  | p :: ps, [], _, r, a, h, _, hr => by
    cases h
    exact .cons (by simpa using hr) (.nil ps)
  | p :: ps, r0 :: rs, _, r, a, h, hl, hr => by
    cases h with
    | cons h0 t0 =>
      refine .cons h0 (ArgsRel.snoc r a t0 (by simpa using hl) ?_)
      simpa using hr

theorem ArgsRel.length {ms0 : List Macro} {ps : List Param} {rs : List (List Tok)} {as : List Arg}
    (h : ArgsRel ms0 ps rs as) : as.length = rs.length := by
  induction h with
  | nil => rfl
  | cons _ _ ih => simp [ih]

theorem ArgsRel.get {ms0 : List Macro} : ∀ {ps : List Param} {rs : List (List Tok)} {as : List Arg},
    ArgsRel ms0 ps rs as → ∀ i, i < rs.length → ArgRel ms0 (ps.getD i default) (rs.getD i []) (as.getD i default)
  | _, _, _, .nil _, i, hi => by simp at hi
  | _, _, _, .cons h t, 0, _ => by simpa using h
  | _, _, _, .cons h t, i + 1, hi => by
    have := ArgsRel.get t i (by simpa using hi)
    simpa using this

/-- the ghost events `expandfunc` records after a replacement inside an argument -/
def pushEv (e : EF) (st sx : St) : St :=
  let depth := if decide (st.depth ≤ e.depth) = true then st.depth else e.depth
  let s1 := if sx.rb = true ∧ sx.depth ≤ depth then sx.ev .depthConf else sx
  if s1.rb = true ∧ (e.m.params.getD e.i default).fstr = true then s1.ev .strNested else s1

/-- equal up to the ghost field -/
def SameBut (a b : St) : Prop :=
  a.raw = b.raw ∧ a.ctx = b.ctx ∧ a.macros = b.macros ∧ a.depth = b.depth ∧ a.prag = b.prag ∧ a.ppnl = b.ppnl ∧
  a.rb = b.rb ∧ a.rt = b.rt

theorem SameBut.refl (a : St) : SameBut a a := ⟨rfl, rfl, rfl, rfl, rfl, rfl, rfl, rfl⟩
theorem SameBut.ev (a : St) (x : Event) : SameBut (a.ev x) a := ⟨rfl, rfl, rfl, rfl, rfl, rfl, rfl, rfl⟩
theorem SameBut.trans {a b c : St} (h1 : SameBut a b) (h2 : SameBut b c) : SameBut a c :=
  ⟨h1.1.trans h2.1, h1.2.1.trans h2.2.1, h1.2.2.1.trans h2.2.2.1, h1.2.2.2.1.trans h2.2.2.2.1,
   h1.2.2.2.2.1.trans h2.2.2.2.2.1, h1.2.2.2.2.2.1.trans h2.2.2.2.2.2.1, h1.2.2.2.2.2.2.1.trans h2.2.2.2.2.2.2.1,
   h1.2.2.2.2.2.2.2.trans h2.2.2.2.2.2.2.2⟩

theorem ite_sameBut {c : Prop} [Decidable c] {a b s : St} (ha : SameBut a s) (hb : SameBut b s) :
    SameBut (if c then a else b) s := by
  split <;> assumption

theorem pushEv_fields (e : EF) (st sx : St) : SameBut (pushEv e st sx) sx := by
  unfold pushEv
  exact ite_sameBut ((SameBut.ev _ _).trans (ite_sameBut (SameBut.ev _ _) (SameBut.refl _)))
    (ite_sameBut (SameBut.ev _ _) (SameBut.refl _))

theorem goodP_congr {ms0 : List Macro} {a b : St} (g : GoodP ms0 a) (h1 : b.ctx = a.ctx) (h2 : b.macros = a.macros)
    (h3 : b.depth = a.depth) (h4 : b.prag = a.prag) (h5 : b.ppnl = a.ppnl) : GoodP ms0 b :=
  ⟨by rw [h2]; exact g.stat, by rw [h1, h2, h3]; exact g.inv, by rw [h1, h2]; exact g.wf,
   by rw [h1, h2]; exact g.flatOk, by rw [h1, h2]; exact g.live, by rw [h4]; exact g.prag, by rw [h5]; exact g.ppnl⟩

section shapes
variable (rec : Call → St → Res) (e : EF) (st : St)

/-- one iteration of the inner loop that does not end an argument -/
theorem efLoop_go (hne : e.t.kind ≠ .TEOF) (hnb : ¬ (st.depth ≤ e.depth ∧ breakCond e))
    (hp : (e.m.params.getD e.i default).ftok = true) (sx st2 : St)
    (hx : rec (.expand e.t) st = .ok sx) (ha : rec (.argLoop false) (pushEv e st sx) = .ok st2) :
    efLoopBody rec e st =
      rec (.efLoop { e with depth := if st.depth ≤ e.depth then st.depth else e.depth,
                            paren := if st.depth ≤ e.depth then nextParen e else e.paren,
                            str := if st.depth ≤ e.depth ∧ (e.m.params.getD e.i default).fstr = true then stringize e.str e.t else e.str,
                            cur := if sx.rb = true then e.cur else sx.rt :: e.cur,
                            t := st2.rt }) st2 := by
  unfold efLoopBody
  unfold breakCond at hnb
  unfold pushEv at ha
  simp only [hne, ↓reduceIte, hp, hx]
  by_cases hl : st.depth ≤ e.depth
  · simp only [hl, decide_true, true_and, ↓reduceIte] at hnb ha ⊢
    simp only [hnb, ↓reduceIte, ha, nextParen]
  · simp only [hl, decide_false, Bool.false_eq_true, false_and, ↓reduceIte] at ha ⊢
    simp only [ha]

theorem efLoop_go_err1 (hne : e.t.kind ≠ .TEOF) (hnb : ¬ (st.depth ≤ e.depth ∧ breakCond e))
    (hp : (e.m.params.getD e.i default).ftok = true) (er : Err)
    (hx : rec (.expand e.t) st = .error er) : efLoopBody rec e st = .error er := by
  unfold efLoopBody
  unfold breakCond at hnb
  simp only [hne, ↓reduceIte, hp, hx]
  by_cases hl : st.depth ≤ e.depth
  · simp only [hl, decide_true, true_and, ↓reduceIte] at hnb ⊢
    simp only [hnb, ↓reduceIte]
  · simp only [hl, decide_false, Bool.false_eq_true, false_and, ↓reduceIte]

theorem efLoop_go_err2 (hne : e.t.kind ≠ .TEOF) (hnb : ¬ (st.depth ≤ e.depth ∧ breakCond e))
    (hp : (e.m.params.getD e.i default).ftok = true) (sx : St) (er : Err)
    (hx : rec (.expand e.t) st = .ok sx) (ha : rec (.argLoop false) (pushEv e st sx) = .error er) :
    efLoopBody rec e st = .error er := by
  unfold efLoopBody
  unfold breakCond at hnb
  unfold pushEv at ha
  simp only [hne, ↓reduceIte, hp, hx]
  by_cases hl : st.depth ≤ e.depth
  · simp only [hl, decide_true, true_and, ↓reduceIte] at hnb ha ⊢
    simp only [hnb, ↓reduceIte, ha]
  · simp only [hl, decide_false, Bool.false_eq_true, false_and, ↓reduceIte] at ha ⊢
    simp only [ha]

theorem efLoop_nextarg_err (hne : e.t.kind ≠ .TEOF) (hl : st.depth ≤ e.depth) (hc : breakCond e)
    (hf : ¬ (e.t.kind = .TRPAREN ∨ e.i + 1 = e.m.params.length)) (er : Err)
    (ha : rec (.argLoop false) st = .error er) : efLoopBody rec e st = .error er := by
  unfold efLoopBody breakCond at *
  simp only [hne, ↓reduceIte, hl, decide_true, true_and, hc, and_self, hf, ha]

theorem efLoop_skip_err (hne : e.t.kind ≠ .TEOF) (hl : st.depth ≤ e.depth) (hc : ¬ breakCond e)
    (hp : (e.m.params.getD e.i default).ftok = false) (er : Err)
    (ha : rec (.argLoop false) st = .error er) : efLoopBody rec e st = .error er := by
  unfold efLoopBody breakCond at *
  simp only [hne, ↓reduceIte, hl, decide_true, true_and, hc, hp, Bool.false_eq_true, ha]

end shapes


theorem rawP_congr {ms0 : List Macro} {st a b : St} (h : RawP ms0 st a) (hs : SameBut b a) : RawP ms0 st b := by
  obtain ⟨h1, h2, h3, _, _, _, _, h8⟩ := hs
  cases h with
  | ctx c1 c2 c3 c4 => exact .ctx (by rw [h2, h3, h8]; exact c1) (by rw [h8]; exact c2) (by rw [h1]; exact c3) (by rw [h2]; exact c4)
  | raw c1 c2 c3 => exact .raw (by rw [h1, h8]; exact c1) (by rw [h2]; exact c2) c3
  | eof c1 c2 c3 c4 c5 => exact .eof (by rw [h8]; exact c1) c2 (by rw [h1]; exact c3) (by rw [h2]; exact c4) c5

/-- `argnext` inside an invocation whose text has no new-line: `rawnext` -/
theorem argLoopP (ms0 : List Macro) (k : Nat) (st st2 : St) (g : GoodP ms0 st)
    (hhead : ∀ t r, st.raw = t :: r → t.kind ≠ .TNEWLINE ∧ t.kind ≠ .THASH ∧ t.kind ≠ .TNONE)
    (h : exec k (.argLoop false) st = .ok st2) :
    GoodP ms0 st2 ∧ RawP ms0 st st2 := by
  cases k with
  | zero => cases h
  | succ k' =>
    change argLoopBody (exec k') false st = .ok st2 at h
    unfold argLoopBody at h
    cases hr : exec k' .rawnext st with
    | error e => rw [hr] at h; cases h
    | ok s1 =>
      rw [hr] at h
      simp only at h
      obtain ⟨g1, hR⟩ := rawnextP ms0 k' st s1 g (fun t r hh => ⟨(hhead t r hh).2.2, (hhead t r hh).2.1⟩) hr
      have hsb : SameBut (if s1.raw.length + 1 < st.raw.length then s1.ev .dirInArgs else s1) s1 :=
        ite_sameBut (SameBut.ev _ _) (SameBut.refl _)
      have hnl : s1.rt.kind ≠ .TNEWLINE := by
        cases hR with
        | ctx c1 c2 c3 c4 => exact c2.1
        | raw c1 c2 c3 => exact (hhead _ _ c1).1
        | eof c1 c2 c3 c4 c5 => rw [c1]; decide
      have hnl' : (if s1.raw.length + 1 < st.raw.length then s1.ev .dirInArgs else s1).rt.kind ≠ .TNEWLINE := by
        rw [hsb.2.2.2.2.2.2.2]; exact hnl
      simp only [hnl', ↓reduceIte, Bool.false_eq_true] at h
      cases h
      exact ⟨goodP_congr g1 hsb.2.1 hsb.2.2.1 hsb.2.2.2.1 hsb.2.2.2.2.1 hsb.2.2.2.2.2.1, rawP_congr hR hsb⟩

/-! ## invocations nested in arguments -/

/-- `L = consumed ++ rest` where `consumed` is a sequence of tokens that start no invocation
(`ArgTokOK`) and of complete invocations of function-like macros, themselves of this form -/
inductive ArgsOK (ms0 : List Macro) : List Tok → List Tok → Prop where
  | done (rest : List Tok) : ArgsOK ms0 rest rest
  | tok (t : Tok) (L rest : List Tok) (h : ArgTokOK ms0 t) (hs : Spellable t) (more : ArgsOK ms0 L rest) :
      ArgsOK ms0 (t :: L) rest
  | call (G lp : Tok) (r'' : List Tok) (FG : Macro) (argsG : List (List Tok)) (rest'' rest : List Tok)
      (h1 : G.kind = .TIDENT) (h2 : G.hide = false) (h3 : macroget ms0 (G.lit.getD []) = some FG)
      (h4 : FG.func = true) (h5 : lp.kind = .TLPAREN) (h5' : lp.hide = false)
      (h6 : collect FG.params 0 0 [] [] r'' = .ok (argsG, rest''))
      (h7 : ArgsOK ms0 r'' rest'') (h8 : ∀ a ∈ argsG, a ≠ []) (hs : Spellable G ∧ Spellable lp)
      (more : ArgsOK ms0 rest'' rest) : ArgsOK ms0 (G :: lp :: r'') rest

theorem ArgsOK.trans {ms0 : List Macro} {a b c : List Tok} (h1 : ArgsOK ms0 a b) (h2 : ArgsOK ms0 b c) : ArgsOK ms0 a c := by
  induction h1 with
  | done _ => exact h2
  | tok t L rest h hs more ih => exact .tok t L c h hs (ih h2)
  | call G lp r'' FG argsG rest'' rest h1 h2' h3 h4 h5 h5' h6 h7 h8 hs more _ ih =>
    exact .call G lp r'' FG argsG rest'' c h1 h2' h3 h4 h5 h5' h6 h7 h8 hs (ih h2)

theorem ArgsOK.suffix {ms0 : List Macro} {a b : List Tok} (h : ArgsOK ms0 a b) : ∃ pre, a = pre ++ b := by
  induction h with
  | done _ => exact ⟨[], rfl⟩
  | tok t L rest _ _ _ ih => obtain ⟨pre, hp⟩ := ih; exact ⟨t :: pre, by rw [hp]; rfl⟩
  | call G lp r'' FG argsG rest'' rest _ _ _ _ _ _ _ _ _ _ _ ih1 ih2 =>
    obtain ⟨p1, hp1⟩ := ih1
    obtain ⟨p2, hp2⟩ := ih2
    exact ⟨G :: lp :: (p1 ++ p2), by rw [hp1, hp2]; simp⟩

/-- what every consumed token satisfies -/
def RawOK (t : Tok) : Prop :=
  t.kind ≠ .TNEWLINE ∧ t.kind ≠ .THASH ∧ t.kind ≠ .TNONE ∧ t.kind ≠ .TEOF ∧ t.hide = false

theorem ArgsOK.raw {ms0 : List Macro} {a b : List Tok} (h : ArgsOK ms0 a b) :
    ∀ x ∈ a.take (a.length - b.length), RawOK x := by
  induction h with
  | done _ => intro x hx; simp at hx
  | tok t L rest ht _ more ih =>
    obtain ⟨pre, hp⟩ := more.suffix
    intro x hx
    have : (t :: L).length - rest.length = (L.length - rest.length) + 1 := by rw [hp]; simp; omega
    rw [this, List.take_succ_cons] at hx
    rcases List.mem_cons.mp hx with rfl | hx
    · exact ⟨ht.1, ht.2.1, ht.2.2.1, ht.2.2.2.1, ht.2.2.2.2.2⟩
    · exact ih x hx
  | call G lp r'' FG argsG rest'' rest h1 h2 h3 h4 h5 h5' h6 h7 h8 _ more ih1 ih2 =>
    obtain ⟨p1, hp1⟩ := h7.suffix
    obtain ⟨p2, hp2⟩ := more.suffix
    intro x hx
    have e : (G :: lp :: r'').take ((G :: lp :: r'').length - rest.length) = G :: lp :: (p1 ++ p2) := by
      rw [hp1, hp2]
      have : (G :: lp :: (p1 ++ (p2 ++ rest))) = (G :: lp :: (p1 ++ p2)) ++ rest := by simp
      rw [this, List.take_left']
      simp; omega
    rw [e] at hx
    have e1 : r''.take (r''.length - rest''.length) = p1 := by rw [hp1]; simp
    have e2 : rest''.take (rest''.length - rest.length) = p2 := by rw [hp2]; simp
    rcases List.mem_cons.mp hx with rfl | hx
    · exact ⟨by rw [h1]; decide, by rw [h1]; decide, by rw [h1]; decide, by rw [h1]; decide, h2⟩
    · rcases List.mem_cons.mp hx with rfl | hx
      · exact ⟨by rw [h5]; decide, by rw [h5]; decide, by rw [h5]; decide, by rw [h5]; decide, h5'⟩
      · rcases List.mem_append.mp hx with hx | hx
        · exact ih1 x (by rw [e1]; exact hx)
        · exact ih2 x (by rw [e2]; exact hx)

theorem ArgsOK.spell {ms0 : List Macro} {a b : List Tok} (h : ArgsOK ms0 a b) :
    ∀ x ∈ a.take (a.length - b.length), Spellable x := by
  induction h with
  | done _ => intro x hx; simp at hx
  | tok t L rest ht hs more ih =>
    obtain ⟨pre, hp⟩ := more.suffix
    intro x hx
    have : (t :: L).length - rest.length = (L.length - rest.length) + 1 := by rw [hp]; simp; omega
    rw [this, List.take_succ_cons] at hx
    rcases List.mem_cons.mp hx with rfl | hx
    · exact hs
    · exact ih x hx
  | call G lp r'' FG argsG rest'' rest h1 h2 h3 h4 h5 h5' h6 h7 h8 hs more ih1 ih2 =>
    obtain ⟨p1, hp1⟩ := h7.suffix
    obtain ⟨p2, hp2⟩ := more.suffix
    intro x hx
    have e : (G :: lp :: r'').take ((G :: lp :: r'').length - rest.length) = G :: lp :: (p1 ++ p2) := by
      rw [hp1, hp2]
      have : (G :: lp :: (p1 ++ (p2 ++ rest))) = (G :: lp :: (p1 ++ p2)) ++ rest := by simp
      rw [this, List.take_left']
      simp; omega
    rw [e] at hx
    have e1 : r''.take (r''.length - rest''.length) = p1 := by rw [hp1]; simp
    have e2 : rest''.take (rest''.length - rest.length) = p2 := by rw [hp2]; simp
    rcases List.mem_cons.mp hx with rfl | hx
    · exact hs.1
    · rcases List.mem_cons.mp hx with rfl | hx
      · exact hs.2
      · rcases List.mem_append.mp hx with hx | hx
        · exact ih1 x (by rw [e1]; exact hx)
        · exact ih2 x (by rw [e2]; exact hx)

theorem argsOK_cons_inv {ms0 : List Macro} {t : Tok} {r rest : List Tok} (h : ArgsOK ms0 (t :: r) rest)
    (hl : rest.length < (t :: r).length) :
    (ArgTokOK ms0 t ∧ ArgsOK ms0 r rest) ∨
    (∃ lp r'' FG argsG rest'', r = lp :: r'' ∧ t.kind = .TIDENT ∧ t.hide = false ∧
      macroget ms0 (t.lit.getD []) = some FG ∧ FG.func = true ∧ lp.kind = .TLPAREN ∧ lp.hide = false ∧
      collect FG.params 0 0 [] [] r'' = .ok (argsG, rest'') ∧ ArgsOK ms0 r'' rest'' ∧ (∀ a ∈ argsG, a ≠ []) ∧
      (Spellable t ∧ Spellable lp) ∧ ArgsOK ms0 rest'' rest) := by
  cases h with
  | done => exact absurd hl (Nat.lt_irrefl _)
  | tok _ _ _ ht _ more => exact .inl ⟨ht, more⟩
  | call _ lp r'' FG argsG rest'' _ h1 h2 h3 h4 h5 h5' h6 h7 h8 hs more =>
    exact .inr ⟨lp, r'', FG, argsG, rest'', rfl, h1, h2, h3, h4, h5, h5', h6, h7, h8, hs, more⟩

/-- the text of a complete invocation, seen by the `collect` of the invocation around it: its tokens
go to the current argument and the parenthesis count is back where it was -/
theorem collect_skip (psG psF : List Param) (hnv : ∀ p ∈ psG, p.fvar = false) :
    ∀ (ts : List Tok) (iG pG : Nat) (curG : List Tok) (doneG argsG : List (List Tok)) (rest' : List Tok),
    collect psG iG pG curG doneG ts = .ok (argsG, rest') →
    ∀ (i p : Nat) (cur : List Tok) (done : List (List Tok)),
      collect psF i (p + 1 + pG) cur done ts =
        collect psF i p ((ts.take (ts.length - rest'.length)).reverse ++ cur) done rest' := by
  intro ts
  induction ts with
  | nil => intro iG pG curG doneG argsG rest' h; simp [collect] at h
  | cons t r ih =>
    intro iG pG curG doneG argsG rest' h i p cur done
    have htk : ∀ {i' p' : Nat} {c' : List Tok} {d' : List (List Tok)},
        collect psG i' p' c' d' r = .ok (argsG, rest') →
        ((t :: r).take ((t :: r).length - rest'.length)).reverse = (r.take (r.length - rest'.length)).reverse ++ [t] := by
      intro i' p' c' d' hh
      have hl := collect_rest_lt psG _ _ _ _ _ _ _ hh
      rw [show (t :: r).length - rest'.length = (r.length - rest'.length) + 1 by simp; omega, List.take_succ_cons,
        List.reverse_cons]
    unfold collect at h
    by_cases hc : pG = 0 ∧ (t.kind = .TRPAREN ∨ (t.kind = .TCOMMA ∧ (psG.getD iG default).fvar = false))
    · rw [if_pos hc] at h
      obtain ⟨hp0, hkind⟩ := hc
      subst hp0
      have hnb : ¬ (p + 1 + 0 = 0 ∧ (t.kind = .TRPAREN ∨ (t.kind = .TCOMMA ∧ (psF.getD i default).fvar = false))) := by
        intro hh; omega
      rw [collect, if_neg hnb]
      by_cases hf : t.kind = .TRPAREN ∨ iG + 1 = psG.length
      · rw [if_pos hf] at h
        by_cases h1 : iG + 1 < psG.length
        · rw [if_pos h1] at h; cases h
        · rw [if_neg h1] at h
          by_cases h2 : t.kind ≠ .TRPAREN
          · rw [if_pos h2] at h; cases h
          · rw [if_neg h2] at h
            have h2' : t.kind = .TRPAREN := by simpa using h2
            simp only [Except.ok.injEq, Prod.mk.injEq] at h
            obtain ⟨_, hrest⟩ := h
            subst hrest
            have hnl : t.kind ≠ .TLPAREN := by rw [h2']; decide
            simp [hnl, h2']
      · rw [if_neg hf] at h
        have hcomma : t.kind = .TCOMMA := by
          rcases hkind with hk | hk
          · exact absurd (.inl hk) hf
          · exact hk.1
        have hnl : t.kind ≠ .TLPAREN := by rw [hcomma]; decide
        have hnr : t.kind ≠ .TRPAREN := by rw [hcomma]; decide
        simp only [hnl, hnr, ↓reduceIte]
        rw [ih _ _ _ _ _ _ h i p (t :: cur) done, htk h]
        simp
    · rw [if_neg hc] at h
      have hnb : ¬ (p + 1 + pG = 0 ∧ (t.kind = .TRPAREN ∨ (t.kind = .TCOMMA ∧ (psF.getD i default).fvar = false))) := by
        intro hh; omega
      rw [collect, if_neg hnb]
      have hpar : (if t.kind = .TLPAREN then p + 1 + pG + 1 else if t.kind = .TRPAREN then p + 1 + pG - 1 else p + 1 + pG) =
          p + 1 + (if t.kind = .TLPAREN then pG + 1 else if t.kind = .TRPAREN then pG - 1 else pG) := by
        by_cases hl : t.kind = .TLPAREN
        · simp [hl]; omega
        · by_cases hr : t.kind = .TRPAREN
          · have : pG ≠ 0 := by
              intro h0; exact hc ⟨h0, .inl hr⟩
            simp [hl, hr]; omega
          · simp [hl, hr]
      rw [hpar, ih _ _ _ _ _ _ h i p (t :: cur) done, htk h]
      simp

end CprocVerif.PP

import CprocVerif.Lemmas.PPPre4

/-! # Arguments with macro names, part 5: one step of the reference on an invocation whose
arguments have a complete replacement, and `expand` on such an invocation -/

namespace CprocVerif.PP
open CprocVerif.Gen.TokenKinds
open CprocVerif.Spec.MacroRef (HTok Item PTok MacroDef RErr Flag Elem expandH hsadd union inter pendItems lookup
  matchParen splitTop actuals subst elems usedPlain paramIndex)
open CprocVerif.Spec

/-- **the reference on an invocation**: when, with `K` units of fuel, the complete replacement of
every argument that needs one is `full i` (no diagnostic), one more unit turns `name ( args )`
followed by `X` into the substituted replacement list followed by `X` -/
theorem expandH_func_stepP (tbl : List MacroDef) (m : MacroDef) (T L rp : HTok) (seg : List HTok) (X : List Item)
    (K : Nat) (full : Nat → List HTok) (hT : T.tok.kind = .TIDENT) (hTp : T.painted = false) (hThs : T.hs = [])
    (hl : lookup tbl (T.tok.lit.getD []) = some m) (hf : m.func = true) (hnv : m.variadic = false)
    (hnp : 0 < m.params.length) (hL : L.tok.kind = .TLPAREN) (hrphs : rp.hs = [])
    (hmp : matchParen (seg.map Item.tok ++ Item.tok rp :: X) 0 [] = some (seg, rp, X, false))
    (hcount : (splitTop (seg.length + 1) 0 seg []).length = m.params.length)
    (hfull : ∀ i, i < m.params.length → usedPlain m i = true →
      outE (expandH false K tbl (((splitTop (seg.length + 1) 0 seg []).getD i []).map Item.tok)) = (full i, none)) :
    outE (expandH false (K + 1) tbl (.tok T :: .tok L :: (seg.map Item.tok ++ Item.tok rp :: X))) =
      outE (expandH false K tbl
        ((MacroRef.respace (hsadd [m.name]
            (subst (fun i => (splitTop (seg.length + 1) 0 seg []).getD i []) full (elems m m.body) false)) T.tok.space).1.map Item.tok ++
         pendItems (MacroRef.respace (hsadd [m.name]
            (subst (fun i => (splitTop (seg.length + 1) 0 seg []).getD i []) full (elems m m.body) false)) T.tok.space).2 X)) := by
  rw [expandH]
  have hc : T.hs.contains m.name = false := by rw [hThs]; rfl
  have hact : actuals m seg = some (splitTop (seg.length + 1) 0 seg []) := by
    unfold actuals
    have : m.params.length ≠ 0 := by omega
    simp [hnv, this, hcount]
  simp only [hT, ne_eq, not_true_eq_false, hTp, Bool.false_eq_true, or_self, ↓reduceIte, hl, hc, hf, hL, hmp, hact]
  generalize hA : splitTop (seg.length + 1) 0 seg [] = A at hcount hfull ⊢
  have hnone : List.findSome? (fun x : List HTok × Option RErr × List Flag => x.2.1)
      ((List.range A.length).map (fun i => if usedPlain m i = true then
        expandH false K tbl (List.map Item.tok (A.getD i [])) else ([], none, []))) = none := by
    rw [List.findSome?_eq_none_iff]
    intro x hx
    obtain ⟨i, hi, rfl⟩ := List.mem_map.mp hx
    rw [List.mem_range] at hi
    split
    · rename_i hu
      have := hfull i (by omega) hu
      exact congrArg Prod.snd this
    · rfl
  simp only [hnone]
  have hhs : union (inter T.hs rp.hs) [m.name] = [m.name] := by simp [hThs, inter, union]
  rw [hhs]
  have hdone : subst (fun i => A.getD i [])
      (fun i => List.map (fun t : HTok => { t with hs := [] })
        (((List.range A.length).map (fun i => if usedPlain m i = true then
            expandH false K tbl (List.map Item.tok (A.getD i [])) else
            (([], none, []) : List HTok × Option RErr × List Flag))).getD i default).1) (elems m m.body) false =
      subst (fun i => A.getD i []) full (elems m m.body) false := by
    apply subst_congr
    intro i sp hmem
    have hlt : i < A.length := by
      have := elems_param_lt m m.body i sp hmem
      simp only [hnv, Bool.false_eq_true, ↓reduceIte] at this
      omega
    have hused : usedPlain m i = true := by
      unfold usedPlain
      rw [List.any_eq_true]
      exact ⟨_, hmem, by simp⟩
    have hg : ((List.range A.length).map (fun i => if usedPlain m i = true then
        expandH false K tbl (List.map Item.tok (A.getD i [])) else
        (([], none, []) : List HTok × Option RErr × List Flag))).getD i default =
        expandH false K tbl (List.map Item.tok (A.getD i [])) := by
      simp [List.getD_eq_getElem?_getD, hlt, hused]
    rw [hg]
    have := hfull i (by omega) hused
    exact congrArg Prod.fst this
  rw [hdone]
  rfl


/-- **`expand` on an invocation in the text whose arguments may name object-like macros**: if it
completes, it has consumed exactly `( … )` as `collect` cuts it, the stored arguments are the
complete replacements (`ArgsRel`), and the frame of the macro is the only one on the stack -/
theorem expand_funclikeP (ms0 : List Macro) (hTb : TblOKS ms0) (F : Macro) (T lp : Tok) (r : List Tok) (st s2 : St)
    (args : List (List Tok)) (rest : List Tok) (n : Nat) (hcs : ∀ m, m < n → CallSpec ms0 m)
    (g : GoodP ms0 st) (hctx : st.ctx = [])
    (hTk : T.kind = .TIDENT) (hTh : T.hide = false) (hget : macroget st.macros (T.lit.getD []) = some F)
    (hsf : SimpleFunS F) (hbne : F.body ≠ []) (hraw : st.raw = lp :: r) (hlp : lp.kind = .TLPAREN)
    (hcol : collect F.params 0 0 [] [] r = .ok (args, rest))
    (hok : ArgsOK ms0 r rest) (hane : ∀ a ∈ args, a ≠ [])
    (h : exec n (.expand T) st = .ok s2) :
    ∃ stL ARGS, GoodP ms0 stL ∧ stL.ctx = [] ∧ stL.raw = rest ∧ ArgsRel ms0 F.params args ARGS ∧
      s2.rb = true ∧ s2.raw = rest ∧ s2.ctx = [⟨respace F.body T.space, some F.name⟩] ∧
      s2.macros = setHide (setArgs stL.macros F.name ARGS) F.name true ∧ s2.depth = stL.depth + 1 ∧
      s2.prag = false ∧ s2.ppnl = false := by
  have hmem := macroget_mem hget
  have hFh : F.hide = false := by
    cases hh : F.hide with
    | false => rfl
    | true =>
      have := (g.inv.hideIff F hmem.1).mp hh
      rw [hctx] at this; cases this
  have hdep : st.depth = 0 := by rw [g.inv.depth, hctx]; rfl
  have hrl := collect_rest_lt F.params _ _ _ _ _ _ _ hcol
  cases n with
  | zero => cases h
  | succ k =>
    change expandBody (exec k) T st = .ok s2 at h
    unfold expandBody at h
    simp only [hTk, ne_eq, not_true_eq_false, ↓reduceIte, hget, hFh, Bool.false_eq_true, hTh, hsf.func] at h
    cases hpk : exec k .peekparen st with
    | error er => rw [hpk] at h; cases h
    | ok sp =>
      rw [hpk] at h
      have hsp := exec_det hpk (peekparen_lparen 0 st hctx lp r hraw hlp g.prag)
      subst hsp
      simp only [not_true_eq_false, ↓reduceIte] at h
      cases hef : exec k (.expandfunc F) { st with raw := r, newline := false, rt := lp, rb := true } with
      | error er => rw [hef] at h; cases h
      | ok se =>
        rw [hef] at h
        simp only at h
        -- inside `expandfunc`
        cases k with
        | zero => cases hef
        | succ k1 =>
          change expandfuncBody (exec k1) F _ = .ok se at hef
          unfold expandfuncBody at hef
          have gsp : GoodP ms0 { st with raw := r, newline := false, rt := lp, rb := true } :=
            goodP_congr g rfl rfl rfl rfl rfl
          cases ha : exec k1 (.argLoop false) { st with raw := r, newline := false, rt := lp, rb := true } with
          | error er => rw [ha] at hef; cases hef
          | ok st1 =>
            rw [ha] at hef
            simp only at hef
            unfold efStart at hef
            simp only [hsf.nonempty, ↓reduceIte] at hef
            obtain ⟨g1, hR⟩ := argLoopP ms0 k1 _ st1 gsp (argsOK_head hok hrl) ha
            have hm := modeAfter ms0 { st with raw := r, newline := false, rt := lp, rb := true } st1
              { m := F, i := 0, depth := st.depth, paren := 0, t := st1.rt, done := [], cur := [], str := [c! '"'] } hR rfl
            have habs : ∀ Y, absX ms0 { st with raw := r, newline := false, rt := lp, rb := true } Y = Y :=
              fun Y => absX_nil_ctx ms0 _ Y hctx
            obtain ⟨stL, ARGS, gL, hcL, hrL, hse, hrel⟩ := efLoopP ms0 hTb F.params F.name hsf.novar hsf.excl k1 (fun m hm => hcs m (by omega)) _ st1 se r
              (absX ms0 { st with raw := r, newline := false, rt := lp, rb := true } []) [] [] [] args rest hef rfl rfl hdep
              hsf.nonempty g1 hm hcol hok hane rfl (.nil _) (by simp)
              (fun _ => ⟨fun Y => by simp only [List.reverse_nil, List.map_nil, List.nil_append, habs]; exact LinkE.refl _ _,
                         fun hh => absurd rfl hh, fun x hx => by cases hx⟩)
              (fun _ => habs []) (fun _ => rfl)
            unfold pushMacro at h
            have hbe : ¬ (F.body.isEmpty = true ∧ T.space = true) := by
              intro hh
              exact hbne (List.isEmpty_iff.mp hh.1)
            simp only [hbe, ↓reduceIte, Except.ok.injEq] at h
            subst h
            subst hse
            exact ⟨stL, ARGS, gL, hcL, hrL, hrel, rfl, hrL, by simp [hcL], rfl, rfl, gL.prag, gL.ppnl⟩

end CprocVerif.PP

import CprocVerif.Lemmas.InitGeoInv

/-!
# The invariant `K` is kept by every step of `parseinit`
-/

namespace CprocVerif.InitSim
open CprocVerif.Init CprocVerif.Image CprocVerif.InitRef

theorem top_pres {m : Nat} {st st' : St} (hf : Frame m st st') (hm : (st'.obj m).ty = (st.obj m).ty)
    (h : st.top = (st.obj 0).ty.size) : st'.top = (st'.obj 0).ty.size := by
  rw [hf.top, h]
  cases m with
  | zero => rw [hm]
  | succ m => rw [hf.low 0 (by omega)]

theorem K.pop {root : Place} {st st' : St} (h : K root st) (ho : st'.obj = st.obj) (hs : st'.sub ≤ st.sub) (hi : st'.inc = st.inc)
    (ht : st'.top = st.top) (hl : st'.log = st.log) (hc : ∀ c, st'.cur = some c → c ≤ st'.sub) : K root st' := by
  obtain ⟨pl, hs'⟩ := h.stk
  exact ⟨by rw [hi]; exact h.inc, by rw [ht, ho]; exact h.top,
    ⟨pl, Stk.pop hs' hs (fun j _ => by rw [ho]) (by rw [ho]) (by rw [ho])⟩, by rw [hl]; exact h.log, hc⟩

theorem exprBody_err {st : St} {e : Expr} {er : Err} (pf : Nat) (hh : hit st e = .error er) :
    exprBody (pf + 1) st e = .error er := by
  unfold exprBody
  rw [placeExpr, hh]

theorem conv_shape {s : Nat} {k : SK} {e : Expr} {v : Val} (h : convScalar s k e = some v) :
    (∃ u, v = .int s u) ∨ (∃ b, v = .flt s b ∧ k = .flt) ∨ (∃ sy o, v = .addr sy o) ∨ v = .other := by
  unfold convScalar at h
  cases e with
  | num i nz f32 f64 =>
    cases k with
    | int cls sg =>
      simp only [] at h
      split at h
      · cases h; exact .inl ⟨_, rfl⟩
      · cases h; exact .inl ⟨_, rfl⟩
    | flt => simp only [] at h; cases h; exact .inr (.inl ⟨_, rfl, rfl⟩)
    | ptr => simp only [] at h; cases h; exact .inl ⟨_, rfl⟩
  | addr sy o =>
    cases k with
    | int cls sg =>
      simp only [] at h
      split at h
      · cases h; exact .inr (.inr (.inl ⟨_, _, rfl⟩))
      · cases h; exact .inr (.inr (.inr rfl))
    | flt => simp at h
    | ptr => simp only [] at h; cases h; exact .inr (.inr (.inl ⟨_, _, rfl⟩))
  | str w c cs =>
    cases k with
    | int cls sg => simp at h
    | flt => simp at h
    | ptr => simp only [] at h; cases h; exact .inr (.inr (.inl ⟨_, _, rfl⟩))
  | agg t => cases k <;> simp at h
  | nonconst => cases k <;> (simp only [] at h; cases h; exact .inr (.inr (.inr rfl)))

theorem isChar_csize {c : Nat} (h : isChar c = true) : csize c = 1 := by
  unfold isChar at h
  simp only [Bool.or_eq_true, decide_eq_true_eq] at h
  unfold csize
  rw [if_pos (by omega)]

theorem noDesigs_cons' {ds : List Desig} {i : Ini} {rest : Items} (h : noDesigs (.cons ds i rest) = true) :
    ds = [] ∧ noDesig i = true ∧ noDesigs rest = true := by
  simp only [noDesigs, Bool.and_eq_true, List.isEmpty_iff] at h
  exact ⟨h.1.1, h.1.2, h.2⟩

section
variable {nu : Bool} {root : Place} (hg : PlGeo nu root) (hr : root.before = 0 ∧ root.after = 0)
  {tys : List Ty} (htys : ∀ x ∈ subTys root.ty, x ∈ tys)
include hg

theorem focus_K {st st' : St} (h : K root st) (e : focus st = .ok st') :
    K root st' ∧ st'.log = st.log ∧ st'.sub = st.sub + 1 ∧ st'.cur = st.cur := by
  obtain ⟨pl, hs⟩ := h.stk
  obtain ⟨ps, hw, hgk⟩ := hs.places hg st.sub (Nat.le_refl _)
  obtain ⟨ch, hc, hsub, hl, hsp, hf, hlog, _, _⟩ := focus_step (h.flat _) hgk.wf hs.ty hs.off e
  refine ⟨⟨by rw [hf.inc]; exact h.inc, top_pres hf (by rw [hl.ty, hs.ty]) h.top,
    ⟨_, Stk.push hs hsub hf.low hl hc hsp.ty hsp.off⟩, by rw [hlog]; exact h.log, ?_⟩, hlog, hsub, hf.cur⟩
  intro c hc'
  rw [hf.cur] at hc'
  have := h.cur c hc'
  omega

theorem advance_K : ∀ (f : Nat) {st st' : St}, K root st → (∀ c, st.cur = some c → c < st.sub) →
    advance f st = .ok st' → K root st' ∧ st'.log = st.log ∧ st'.cur = st.cur := by
  intro f
  induction f with
  | zero => intro st st' _ _ e; rw [advance] at e; cases e
  | succ f ih =>
    intro st st' h hcs e
    by_cases h0 : st.sub = 0
    · rw [advance, if_pos h0] at e; cases e
    · obtain ⟨pl, hs⟩ := h.stk
      have hsk : st.sub = (st.sub - 1) + 1 := by omega
      obtain ⟨pos, hl, hc0⟩ := hs.lvl (st.sub - 1) (by omega)
      obtain ⟨ps, hw, hgk⟩ := hs.places hg (st.sub - 1) (by omega)
      have hs0 : Stk root ({ st with sub := st.sub - 1 } : St) pl :=
        Stk.pop hs (Nat.sub_le _ _) (fun _ _ => rfl) rfl rfl
      cases hc : childAt (pl (st.sub - 1)) (pos + 1) true with
      | some ch' =>
        obtain ⟨h1, h2, h3, h4, h5, h6, h7⟩ := advance_step hsk (h.flat _) hgk.wf hl hc e
        refine ⟨⟨by rw [h4.inc]; exact h.inc, top_pres h4 (by rw [h2.ty, hl.ty]) h.top,
          ⟨_, Stk.push hs0 h1 h4.low h2 hc h3.ty h3.off⟩, by rw [h5]; exact h.log, ?_⟩, h5, h4.cur⟩
        intro c hc'
        rw [h4.cur] at hc'
        have := hcs c hc'
        omega
      | none =>
        obtain ⟨hne, st1, e1, hs1, hf1, hl1, ht1, ho1⟩ := advance_pop hsk (h.flat _) hgk.wf hl hc e
        have hk1 : K root st1 := by
          refine ⟨by rw [hf1.inc]; exact h.inc, top_pres hf1 ht1 h.top, ⟨pl, ?_⟩, by rw [hl1]; exact h.log, ?_⟩
          · exact Stk.pop hs (by rw [hs1]; exact Nat.sub_le _ _) (fun j hj => hf1.low j (by rw [hs1] at hj; exact hj))
              (by rw [hs1]; exact ht1) (by rw [hs1]; exact ho1)
          · intro c hc'
            rw [hf1.cur] at hc'
            have := hcs c hc'
            omega
        obtain ⟨r1, r2, r3⟩ := ih hk1 (by
          intro c hc'
          rw [hf1.cur] at hc'
          have := hcs c hc'
          have : c ≠ st.sub - 1 := fun hh => hne (by rw [hc', hh])
          omega) e1
        exact ⟨r1, by rw [r2, hl1], by rw [r3, hf1.cur]⟩

include htys in
theorem desigStep_K {st st' : St} {d : Desig} (hd : desigOK tys d = true) (h : K root st) (e : desigStep st d = .ok st') :
    K root st' ∧ st'.log = st.log ∧ st'.cur = st.cur ∧ st.sub < st'.sub := by
  obtain ⟨pl, hs⟩ := h.stk
  obtain ⟨ps, hw, hgk⟩ := hs.places hg st.sub (Nat.le_refl _)
  obtain ⟨path, hres, hf⟩ := desigStep_spec hs.ty hs.off hgk.wf (h.flat _) e
  have hfp : firstPath (pl st.sub).ty path = true := by
    have hmem := htys _ (walk_subTys ps hw)
    unfold desigOK at hd
    have := List.all_eq_true.1 hd _ hmem
    rw [hres] at this
    exact this
  obtain ⟨q', hch, hsp⟩ := hf.chain
  obtain ⟨pl', p0, pm, plv⟩ := stk_chain hch pl hs.root rfl
    (fun k hk => by
      obtain ⟨pos, hl, hc⟩ := hs.lvl k hk
      exact ⟨pos, hl.frame hf.frame hk, hc⟩) hfp
  have hlt : st.sub < st'.sub := by
    have h1 := hch.len
    have h2 : 0 < path.length := List.length_pos_iff.2 hf.ne
    omega
  refine ⟨⟨by rw [hf.frame.inc]; exact h.inc, top_pres hf.frame hf.ty h.top, ⟨pl', p0, ?_, ?_, plv⟩,
    by rw [hf.log]; exact h.log, ?_⟩, hf.log, hf.frame.cur, hlt⟩
  · rw [pm]; exact hsp.ty
  · rw [pm]; exact hsp.off
  · intro c hc'
    rw [hf.frame.cur] at hc'
    have := h.cur c hc'
    omega

include htys in
theorem desigFold_K : ∀ (ds : List Desig) {st st' : St}, (∀ d ∈ ds, desigOK tys d = true) → K root st →
    ds.foldlM desigStep st = .ok st' →
    K root st' ∧ st'.log = st.log ∧ st'.cur = st.cur ∧ st.sub ≤ st'.sub := by
  intro ds
  induction ds with
  | nil => intro st st' _ h e; cases e; exact ⟨h, rfl, rfl, Nat.le_refl _⟩
  | cons d ds ih =>
    intro st st' hds h e
    rw [List.foldlM_cons] at e
    cases hd : desigStep st d with
    | error er => rw [hd] at e; cases e
    | ok st1 =>
      rw [hd] at e
      obtain ⟨a1, a2, a3, a4⟩ := desigStep_K hg htys (hds d List.mem_cons_self) h hd
      obtain ⟨b1, b2, b3, b4⟩ := ih (fun x hx => hds x (List.mem_cons_of_mem _ hx)) a1 e
      exact ⟨b1, by rw [b2, a2], by rw [b3, a3], by omega⟩

include htys in
theorem designator_K {st st' : St} {ds : List Desig} (hds : ∀ d ∈ ds, desigOK tys d = true) (h : K root st)
    (e : designator st ds = .ok st') : K root st' ∧ st'.log = st.log ∧ st'.cur = st.cur := by
  unfold designator at e
  have hc : st.cur.getD 0 ≤ st.sub := by
    cases hc : st.cur with
    | none => simp
    | some c => simpa using h.cur c hc
  have h0 : K root ({ st with il := st.il.reset, sub := st.cur.getD 0 } : St) :=
    h.pop rfl hc rfl rfl rfl (fun c hc' => by
      have : st.cur = some c := hc'
      rw [this]; simp)
  obtain ⟨a1, a2, a3, _⟩ := desigFold_K hg htys ds hds h0 e
  exact ⟨a1, a2, a3⟩

include hr

/-- storing an expression at the cursor -/
theorem add_K {st : St} {v : Val} (h : K root st) (hsh : ∀ pl, Stk root st pl → Shape (pl st.sub) v)
    {b a : Nat} (hb : curBits st = .ok (b, a)) : K root (addSt st b a v) := by
  obtain ⟨pl, hs⟩ := h.stk
  obtain ⟨ps, hw, hgk⟩ := hs.places hg st.sub (Nat.le_refl _)
  have hbits := hs.bits hg hr
  rw [hb] at hbits
  cases hbits
  refine ⟨h.inc, h.top, ⟨pl, Stk.pop hs (Nat.le_refl _) (fun _ _ => rfl) rfl rfl⟩, ?_, h.cur⟩
  intro ev hev
  rcases List.mem_append.1 hev with hev | hev
  · exact h.log ev hev
  · rw [List.mem_singleton.1 hev]
    refine ⟨ps, pl st.sub, hw, ⟨hs.off, ?_, rfl, rfl, hsh pl hs⟩⟩
    show (st.obj st.sub).offset + st.tsize st.sub = _
    rw [(h.flat _).tsize, hs.off, hs.ty]

theorem exprBody_K : ∀ (pf : Nat) {st st' : St} {e : Expr}, K root st → strOK e = true → exprBody pf st e = .ok st' →
    K root st' := by
  intro pf
  induction pf with
  | zero => intro st st' e _ _ he; exact absurd he (exprBody_zero _ _ _)
  | succ pf ih =>
    intro st st' e h hso he
    obtain ⟨pl, hs⟩ := h.stk
    obtain ⟨ps, hw, hgk⟩ := hs.places hg st.sub (Nat.le_refl _)
    have hbits := hs.bits hg hr
    -- the place of any description of the stack has the type of the slot
    have hplty : ∀ pl', Stk root st pl' → (pl' st.sub).ty = (st.obj st.sub).ty := fun pl' hs' => hs'.ty.symm
    rcases expr_cases (st.obj st.sub).ty e with ⟨size, k, hty⟩ | ⟨n, es, cls, sg, w, scls, cs, hty, rfl⟩ |
        ⟨isU, tag, size, ms, hty, rfl⟩ | hel
    · cases hcv : convScalar size k e with
      | none =>
        rw [exprBody_err pf (by rw [hit_scalar hty, hcv])] at he; cases he
      | some v =>
        rw [exprBody_add pf (by rw [hit_scalar hty, hcv]) hbits (h.flat _)] at he
        cases he
        refine add_K hg hr h (fun pl' hs' => ?_) hbits
        unfold Shape
        rw [hplty pl' hs', hty]
        exact conv_shape hcv
    · by_cases hbad : (!(isChar cls && isChar scls) && decide (cls ≠ scls)) = true
      · rw [exprBody_err pf (by rw [hit_str hty (h.flat _).tinc, if_pos hbad])] at he; cases he
      · rw [exprBody_add pf (by rw [hit_str hty (h.flat _).tinc, if_neg hbad]) hbits (h.flat _)] at he
        cases he
        refine add_K hg hr h (fun pl' hs' => ?_) hbits
        unfold Shape
        rw [hplty pl' hs', hty]
        simp only []
        -- the literal's element width is the array's element size
        have hl := hgk.lay
        rw [← hs.ty, hty] at hl
        simp only [layOK, beq_iff_eq] at hl
        simp only [strOK, Bool.and_eq_true, beq_iff_eq, Bool.or_eq_true] at hso
        have hcc : csize cls = csize scls := by
          by_cases hch : isChar cls = true ∧ isChar scls = true
          · rw [isChar_csize hch.1, isChar_csize hch.2]
          · have : cls = scls := by
              by_cases heq : cls = scls
              · exact heq
              · exfalso
                apply hbad
                have hf : (isChar cls && isChar scls) = false := by
                  cases h1 : isChar cls <;> cases h2 : isChar scls <;> simp_all
                simp [hf, heq]
            rw [this]
        have hwe : w = es := by omega
        subst hwe
        exact ⟨cs, rfl, by have := hso.2; omega⟩
    · rw [exprBody_add pf (hit_aggeq hty) hbits (h.flat _)] at he
      cases he
      refine add_K hg hr h (fun pl' hs' => ?_) hbits
      unfold Shape
      rw [hplty pl' hs', hty]
    · rw [exprBody_down pf (hit_elide hel)] at he
      cases hfo : focus st with
      | error er => rw [hfo] at he; cases he
      | ok st2 =>
        rw [hfo] at he
        exact ih (focus_K hg h hfo).1 hso he

omit hr in
theorem braceClear_K {st : St} (h : K root st) : K root (braceClear st) := by
  obtain ⟨hbs, hbc, hbo, hbt, hbi⟩ := braceClear_fields st
  obtain ⟨pl, hs⟩ := h.stk
  obtain ⟨ps, hw, hgk⟩ := hs.places hg st.sub (Nat.le_refl _)
  refine ⟨by rw [hbi]; exact h.inc, by rw [hbt, hbo]; exact h.top,
    ⟨pl, Stk.pop hs (by rw [hbs]; exact Nat.le_refl _) (fun j _ => by rw [hbo]) (by rw [hbo]) (by rw [hbo])⟩, ?_,
    fun c hc => by rw [hbc] at hc; rw [hbs]; exact h.cur c hc⟩
  cases hcur : st.cur with
  | none => rw [braceClear_nocur hcur]; exact h.log
  | some c =>
    cases hsc : isScalarTy (st.obj st.sub).ty with
    | true => rw [braceClear_scalar hsc]; exact h.log
    | false =>
      rw [braceClear_clear hcur (h.flat _) hsc]
      intro ev hev
      rcases List.mem_append.1 hev with hev | hev
      · exact h.log ev hev
      · rw [List.mem_singleton.1 hev]
        exact ⟨ps, pl st.sub, hw, hs.off, by rw [hs.off, hs.ty], by rw [← hs.ty]; exact hsc⟩

omit hr in
theorem closeBrace_K {st : St} (h : K root st) : K root (closeBrace st) := by
  have hc : st.cur.getD 0 ≤ st.sub := by
    cases hc : st.cur with
    | none => simp
    | some c => simpa using h.cur c hc
  have hp : K root ({ st with sub := st.cur.getD 0, cur := prevCur st (st.cur.getD 0) } : St) :=
    h.pop rfl hc rfl rfl rfl (fun k hk => by
      have := prevCur_lt st _ k hk
      show k ≤ st.cur.getD 0
      omega)
  unfold closeBrace
  dsimp only []
  rw [(hp.flat _).tinc]
  exact hp

omit hr in
theorem openSt_K {st : St} (h : K root st) : K root (openSt st) := by
  obtain ⟨pl, hs⟩ := h.stk
  refine ⟨h.inc, ?_, ⟨pl, ?_⟩, h.log, fun c hc => by cases hc; exact Nat.le_refl _⟩
  · show st.top = _
    rw [h.top]
    by_cases h0 : 0 = st.sub
    · have h' : st.sub = 0 := h0.symm
      have := openSt_top st
      rw [h'] at this
      rw [this]
    · rw [openSt_low st 0 h0]
  · refine ⟨hs.root, ?_, ?_, ?_⟩
    · show ((openSt st).obj st.sub).ty = _; rw [openSt_top]; exact hs.ty
    · show ((openSt st).obj st.sub).offset = _; rw [openSt_top]; exact hs.off
    · intro k hk
      have hk' : k < st.sub := hk
      obtain ⟨pos, hl, hc⟩ := hs.lvl k hk'
      exact ⟨pos, hl.of_obj (openSt_low st k (by omega)), hc⟩

omit hr in
include htys in
theorem preStep_K {st st' : St} {ds : List Desig} (h : K root st) (hm : ∀ d ∈ ds, desigOK tys d = true)
    (e : preStep st ds = .ok st') : K root st' := by
  unfold preStep at e
  split at e
  · cases e; exact h
  · rename_i c hc
    split at e
    · rename_i hds
      exact (designator_K hg htys hm h e).1
    · split at e
      · rename_i hne
        exact (advance_K hg 33 h (by
          intro c' hc'
          rw [hc] at hc'; cases hc'
          have := h.cur c hc
          omega) e).1
      · split at e
        · exact (focus_K hg h e).1
        · cases e; exact h

omit hr in
theorem entered_K {st st' : St} (h : K root st) (e : entered st = .ok st') : K root st' := by
  unfold entered at e
  split at e
  · split at e
    · cases e
    · exact (focus_K hg h e).1
    · cases e
  · cases e; exact h

omit hr in
theorem enteredE_K {st st' : St} (h : K root st) (e : enteredE st = .ok st') : K root st' := by
  unfold enteredE at e
  split at e
  · split at e
    · exact (focus_K hg h e).1
    · cases e; exact h
  · cases e; exact h

include htys

mutual
  theorem itemBody_K : ∀ (i : Ini) (st st' : St), K root st → strsOK i = true → desigsOK tys i = true →
      itemBody st i = .ok st' → K root st'
    | .expr e, st, st', h, hso, _, he => exprBody_K hg hr 34 h hso he
    | .list .nil, st, st', h, _, _, he => by
      have hb : (match enteredE (braceClear st) with
          | .error er => (.error er : Except Err St)
          | .ok st2 =>
            if st2.tinc st2.sub then .error (.diag "array of unknown size has empty initializer") else .ok st2)
          = .ok st' := he
      cases hen : enteredE (braceClear st) with
      | error er => rw [hen] at hb; cases hb
      | ok st2 =>
        rw [hen] at hb
        simp only [] at hb
        have h2 := enteredE_K hg (braceClear_K hg h) hen
        rw [(h2.flat _).tinc] at hb
        cases hb
        exact h2
    | .list (.cons ds1 i1 r1), st, st', h, hso, hnd, he => by
      have hb : (match entered (braceClear st) with
          | .error er => (.error er : Except Err St)
          | .ok st2 => listBody st2 (.cons ds1 i1 r1)) = .ok st' := he
      cases hen : entered (braceClear st) with
      | error er => rw [hen] at hb; cases hb
      | ok st2 =>
        rw [hen] at hb
        simp only [] at hb
        have h2 := entered_K hg (braceClear_K hg h) hen
        rw [listBody_eq] at hb
        cases hpi : parseItems (openSt st2) (.cons ds1 i1 r1) with
        | error er => rw [hpi] at hb; cases hb
        | ok st4 =>
          rw [hpi] at hb
          cases hb
          exact closeBrace_K hg (parseItems_K (.cons ds1 i1 r1) (openSt st2) st4 (openSt_K hg h2)
            (by simpa only [strsOK] using hso) (by simpa only [desigsOK] using hnd) hpi)
  theorem parseItems_K : ∀ (its : Items) (st st' : St), K root st → strsOKs its = true →
      desigsOKs tys its = true → parseItems st its = .ok st' → K root st'
    | .nil, st, st', h, _, _, he => by rw [parseItems] at he; cases he; exact h
    | .cons ds i rest, st, st', h, hso, hnd, he => by
      obtain ⟨stp, sta, hpre, hbody, hrun⟩ := run_cons (show Run st (.cons ds i rest) st' from he)
      simp only [strsOKs, Bool.and_eq_true] at hso
      simp only [desigsOKs, Bool.and_eq_true, List.all_eq_true] at hnd
      have hp := preStep_K hg htys h hnd.1.1 hpre
      have ha := itemBody_K i stp sta hp hso.1 hnd.1.2 hbody
      exact parseItems_K rest sta st' ha hso.2 hnd.2 hrun
end

end

end CprocVerif.InitSim

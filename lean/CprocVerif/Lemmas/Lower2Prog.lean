/-
  C01, stage D — the IL program of a C program: where `Prog.ofModule` of the emitted functions has each of
  them (the first of a name, as `CSem2.lookup`), and its initial memory.
-/
import CprocVerif.Lemmas.Lower2Main

set_option linter.unusedSimpArgs false

namespace CprocVerif.LowerMach2
open CprocVerif.Qbe CprocVerif.Lower CprocVerif.Lower2 CprocVerif.CSem CprocVerif.CSem2 CprocVerif.CInt
open CprocVerif.LowerArith CprocVerif.LowerMach CprocVerif.LowerMem

theorem funcTable_keep (fs : List Qbe.Func) : ∀ (h : Std.HashMap String FuncInfo) {fn : String} {fi : FuncInfo},
    h[fn]? = some fi →
    (fs.foldl (fun h f => h.insertIfNew f.name (FuncInfo.of f)) h)[fn]? = some fi := by
  induction fs with
  | nil => intro h fn fi hl; exact hl
  | cons f fs ih =>
    intro h fn fi hl
    simp only [List.foldl_cons]
    apply ih
    simp only [Std.HashMap.getElem?_insertIfNew]
    have hm : fn ∈ h := by rw [Std.HashMap.mem_iff_isSome_getElem?, hl]; rfl
    rw [if_neg]
    · exact hl
    · rintro ⟨h1, h2⟩
      have : f.name = fn := by simpa using h1
      subst this
      exact h2 hm

/-- the table of the emitted program has the function a call names -/
theorem funcTable_lookup (cs : Bool) : ∀ (P : List CSem2.Func) (sid : Nat) (h : Std.HashMap String FuncInfo)
    (fn : String) (g : CSem2.Func), lookup P fn = some g → h[fn]? = none →
    ∃ sid', ((emitProg cs sid P).foldl (fun h f => h.insertIfNew f.name (FuncInfo.of f)) h)[fn]? =
      some (FuncInfo.of (Lower2.emitFunc cs sid' g)) := by
  intro P
  induction P with
  | nil => intro sid h fn g hl; simp [lookup] at hl
  | cons g0 P ih =>
    intro sid h fn g hl hn
    simp only [lookup, List.find?_cons] at hl
    simp only [emitProg, List.foldl_cons]
    have hname : (Lower2.emitFunc cs sid g0).name = g0.name := rfl
    by_cases hg : (g0.name == fn) = true
    · simp only [hg, Option.some.injEq] at hl
      subst hl
      refine ⟨sid, funcTable_keep _ _ ?_⟩
      simp only [Std.HashMap.getElem?_insertIfNew, hname]
      have hnm : ¬ g0.name ∈ h := by
        have : g0.name = fn := by simpa using hg
        rw [this, Std.HashMap.mem_iff_isSome_getElem?, hn]; simp
      simp [hg, hnm]
    · have hg' : (g0.name == fn) = false := by simpa using hg
      simp only [hg', Bool.false_eq_true, if_false] at hl
      apply ih _ _ fn g hl
      simp only [Std.HashMap.getElem?_insertIfNew, hname, hg', Bool.false_eq_true, false_and, if_false]
      exact hn

theorem module_funcs (fs : List Qbe.Func) : Module.funcs ⟨(fs.map Def.func).toArray⟩ = fs := by
  simp only [Module.funcs, List.toList_toArray]
  induction fs with
  | nil => rfl
  | cons f fs ih => simp only [List.map_cons, List.filterMap_cons, ih]

theorem module_datas (fs : List Qbe.Func) : Module.datas ⟨(fs.map Def.func).toArray⟩ = [] := by
  simp only [Module.datas, List.toList_toArray]
  induction fs with
  | nil => rfl
  | cons f fs ih => simp only [List.map_cons, List.filterMap_cons, ih]

theorem ofModule_funcs (fs : List Qbe.Func) :
    (Prog.ofModule ⟨(fs.map Def.func).toArray⟩).funcs = mkFuncTable fs := by
  simp only [Prog.ofModule, module_funcs]

theorem ofModule_initMem (fs : List Qbe.Func) :
    (Prog.ofModule ⟨(fs.map Def.func).toArray⟩).initMem = ⟨#[], #[], stackTop⟩ := by
  simp [Prog.ofModule, module_datas, applyRelocs, layoutData]

/-- the IL program of the C program `P` has every function a call may name -/
theorem ofModule_lookup (cs : Bool) (sid : Nat) (P : List CSem2.Func) (fn : String) (g : CSem2.Func)
    (hl : lookup P fn = some g) :
    ∃ sid', (Prog.ofModule ⟨((emitProg cs sid P).map Def.func).toArray⟩).funcs[fn]? =
      some (FuncInfo.of (Lower2.emitFunc cs sid' g)) := by
  rw [ofModule_funcs]
  exact funcTable_lookup cs P sid {} fn g hl (by simp)

end CprocVerif.LowerMach2
